(* Property C01, execution half: the executor of Model/Exec.v never reaches a Panic site on
   well-formed documents.  The invariant is [good]: the frame stack is not empty and every
   closure stored in the frame at position p (from the bottom) refers to a frame at a
   position <= p and carries well-formed code ([wf_frames] of Spec/SpecWf.v).
   That evaluation gives the frame stack back unchanged, and that executing nodes only
   changes the private bindings of the top frame, is property C12 (Proofs/Frames.v) and is
   reused here: only the no-panic clauses and the invariant of the five node executors are
   proved by the induction on the fuel. *)
From Coq Require Import List NArith ZArith Bool Lia Arith.
From PV Require Import Model.Exec Spec.SpecFrames Spec.SpecWf.
From PV Require Import Proofs.Frames Proofs.FilterProofs.
From PV Require Import gen.Tables.
Import ListNotations.
Open Scope N_scope.

(* ---------- stepping tactics (same scheme as Proofs/Frames.v) ---------- *)
Ltac head_scrut t :=
  lazymatch t with
  | match ?x with _ => _ end => head_scrut x
  | _ => t
  end.

Ltac norm_in H :=
  cbv beta iota zeta delta [bind xfail xok xerr of_opt cycle_out float_of int_of str_of] in H.

(* one step on a hypothesis  lhs = X  : destruct the innermost scrutinee at the head *)
Ltac step H :=
  lazymatch type of H with
  | Ok (_, _) = Ok (_, _) => apply ok_state_inv in H
  | Ok _ = Ok _ => apply ok_inv in H
  | (_, _) = (_, _) => apply pair_snd_inv in H; try discriminate H
  | match _ with _ => _ end = _ =>
      lazymatch type of H with
      | ?l = _ => let s := head_scrut l in
                  destruct s eqn:?; cbv beta iota in H; try discriminate H
      end
  end.
Ltac steps H := repeat (step H).

(* ---------- boolean well-formedness: splitting ---------- *)
Lemma wf_pairs_cons : forall k e r, wf_pairs ((k, e) :: r) = wf_expr e && wf_pairs r.
Proof. reflexivity. Qed.
Lemma wf_oparams_cons : forall k o r, wf_oparams ((k, o) :: r) = opt_all wf_expr o && wf_oparams r.
Proof. reflexivity. Qed.

Ltac wfs :=
  repeat match goal with
  | H : false = true |- _ => discriminate H
  | H : _ && _ = true |- _ => apply andb_prop in H; destruct H
  | H : wf_pairs (_ :: _) = true |- _ => rewrite wf_pairs_cons in H
  | H : wf_oparams (_ :: _) = true |- _ => rewrite wf_oparams_cons in H
  | H : _ = true |- _ =>
      progress (cbn [wf_expr wf_part wf_fcall wf_node wf_macro wf_template forallb opt_all] in H)
  end.

Lemma forallb_nth_error : forall A (P : A -> bool) l i x,
  forallb P l = true -> nth_error l i = Some x -> P x = true.
Proof.
  intros A P l. induction l as [|y l IH]; intros [|i] x H E; simpl in *; try discriminate E.
  - injection E as <-. apply andb_prop in H. tauto.
  - apply andb_prop in H. eapply IH; [tauto|exact E].
Qed.
Lemma forallb_nth : forall A (P : A -> bool) l i d,
  forallb P l = true -> P d = true -> P (nth i l d) = true.
Proof.
  intros A P l. induction l as [|y l IH]; intros [|i] d H Hd; simpl in *; auto.
  - apply andb_prop in H. tauto.
  - apply andb_prop in H. apply IH; tauto.
Qed.
Lemma forallb_rev_cons : forall A (P : A -> bool) l x r,
  forallb P l = true -> rev l = x :: r -> P x = true /\ forallb P (rev r) = true.
Proof.
  intros A P l x r H E. assert (L : l = rev r ++ [x]).
  { rewrite <- (rev_involutive l), E. reflexivity. }
  subst l. rewrite forallb_app in H. apply andb_prop in H. destruct H as [H1 H2].
  simpl in H2. apply andb_prop in H2. tauto.
Qed.
Lemma forallb_flat_map : forall A B (P : B -> bool) (g : A -> list B) l,
  (forall a, In a l -> forallb P (g a) = true) -> forallb P (flat_map g l) = true.
Proof.
  intros A B P g l. induction l as [|a l IH]; intro H; simpl; [reflexivity|].
  rewrite forallb_app, H by (simpl; auto). rewrite IH; [reflexivity|].
  intros b Hb. apply H. simpl. auto.
Qed.
Lemma assoc_get_in : forall A k (m : list (str * A)) v, assoc_get k m = Some v -> exists k', In (k', v) m.
Proof.
  intros A k m. induction m as [|[k' w] m IH]; intros v H; simpl in H; [discriminate H|].
  destruct (str_eqb k k').
  - injection H as ->. exists k'. simpl. auto.
  - destruct (IH _ H) as (k2 & Hin). exists k2. simpl. auto.
Qed.

(* ---------- templates ---------- *)
Lemma wf_template_root : forall t, wf_template t = true -> forallb wf_node (tpl_root t) = true.
Proof. intros [i n s r b e p tr ls] H. wfs. assumption. Qed.
Lemma wf_template_block : forall t k w, wf_template t = true ->
  assoc_get k (tpl_blocks t) = Some w -> forallb wf_node w = true.
Proof.
  intros [i n s r b e p tr ls] k w H E. wfs. cbn [tpl_blocks] in E.
  destruct (assoc_get_in _ _ _ _ E) as (k' & Hin).
  match goal with Hb : forallb _ b = true |- _ => rewrite forallb_forall in Hb; exact (Hb _ Hin) end.
Qed.
Lemma wf_template_parent : forall t p, wf_template t = true -> tpl_parent t = Some p -> wf_template p = true.
Proof. intros [i n s r b e p0 tr ls] p H E. cbn [tpl_parent] in E. subst p0. wfs. assumption. Qed.

Lemma chain_up_wf : forall n t acc, wf_template t = true -> forallb wf_template acc = true ->
  forallb wf_template (chain_up n t acc) = true.
Proof.
  induction n as [|n IH]; intros t acc Ht Ha; cbn [chain_up].
  - cbn [forallb]. rewrite Ht, Ha. reflexivity.
  - destruct (tpl_parent t) as [p|] eqn:E.
    + apply IH; [eapply wf_template_parent; eassumption|]. cbn [forallb]. rewrite Ht, Ha. reflexivity.
    + cbn [forallb]. rewrite Ht, Ha. reflexivity.
Qed.
Lemma tpl_chain_wf : forall t, wf_template t = true -> forallb wf_template (tpl_chain t) = true.
Proof. intros t H. apply chain_up_wf; [exact H|reflexivity]. Qed.
Lemma hd_wf : forall t l, wf_template t = true -> forallb wf_template l = true -> wf_template (hd t l) = true.
Proof. intros t [|x l] Ht Hl; simpl in *; [exact Ht|]. apply andb_prop in Hl. tauto. Qed.

Lemma chain_blocks_wf : forall bname (chain : list template),
  forallb wf_template chain = true ->
  forallb (forallb wf_node)
    (flat_map (fun t => match assoc_get bname (tpl_blocks t) with Some w => [w] | None => [] end) chain) = true.
Proof.
  intros bname chain H. apply forallb_flat_map. intros t Hin.
  rewrite forallb_forall in H. specialize (H _ Hin).
  destruct (assoc_get bname (tpl_blocks t)) as [w|] eqn:E; [|reflexivity].
  cbn [forallb]. rewrite (wf_template_block _ _ _ H E). reflexivity.
Qed.

(* ---------- contexts ---------- *)
Lemma wf_cval_mono : forall p q c, (p <= q)%nat -> wf_cval p c -> wf_cval q c.
Proof. intros p q [v|m i|i ws|id a s v] L H; simpl in *; auto; destruct H; split; auto; lia. Qed.
Lemma wf_ctx_mono : forall p q m, (p <= q)%nat -> wf_ctx p m -> wf_ctx q m.
Proof. intros p q m L H k c Hin. eapply wf_cval_mono; [exact L|eapply H; exact Hin]. Qed.
Lemma wf_ctx_nil : forall p, wf_ctx p [].
Proof. intros p k c []. Qed.
Lemma wf_ctx_plain : forall p m, plain_ctx m -> wf_ctx p m.
Proof. intros p m H k c Hin. destruct (H _ _ Hin) as (v & ->). exact I. Qed.
Lemma ctx_get_in : forall k m c, ctx_get k m = Some c -> exists k', In (k', c) m.
Proof.
  intros k m. induction m as [|[k' w] m IH]; intros c H; simpl in H; [discriminate H|].
  destruct (str_eqb k k').
  - injection H as ->. exists k'. simpl. auto.
  - destruct (IH _ H) as (k2 & Hin). exists k2. simpl. auto.
Qed.
Lemma wf_ctx_get : forall p m k c, wf_ctx p m -> ctx_get k m = Some c -> wf_cval p c.
Proof. intros p m k c H E. destruct (ctx_get_in _ _ _ E) as (k' & Hin). eapply H; exact Hin. Qed.
Lemma ctx_del_in : forall k m k' c, In (k', c) (ctx_del k m) -> In (k', c) m.
Proof.
  intros k m. induction m as [|[k0 w] m IH]; intros k' c H; simpl in *; [exact H|].
  destruct (str_eqb k k0); simpl in *; [right; auto|]. destruct H; auto.
Qed.
Lemma wf_ctx_del : forall p k m, wf_ctx p m -> wf_ctx p (ctx_del k m).
Proof. intros p k m H k' c Hin. eapply H, ctx_del_in, Hin. Qed.
Lemma wf_ctx_set : forall p k c m, wf_cval p c -> wf_ctx p m -> wf_ctx p (ctx_set k c m).
Proof.
  intros p k c m Hc H k' c' [E|Hin].
  - injection E as _ <-. exact Hc.
  - eapply wf_ctx_del; eassumption.
Qed.
Lemma wf_ctx_update : forall p src dst, wf_ctx p dst -> wf_ctx p src -> wf_ctx p (ctx_update dst src).
Proof.
  intros p src. unfold ctx_update. induction src as [|[k c] src IH]; intros dst Hd Hs; simpl; [exact Hd|].
  apply IH.
  - apply wf_ctx_set; [eapply Hs; simpl; eauto|exact Hd].
  - intros k' c' Hin. eapply Hs. simpl. eauto.
Qed.
Lemma wf_ctx_map_cv : forall p A (g : A -> str) (h : A -> value) l,
  wf_ctx p (map (fun a => (g a, CV (h a))) l).
Proof.
  intros p A g h l k c Hin. apply in_map_iff in Hin. destruct Hin as (a & E & _).
  injection E as _ <-. exact I.
Qed.
Lemma wf_ctx_map_macro : forall p (ms : list (str * macro)),
  forallb (fun am => wf_macro (snd am)) ms = true ->
  wf_ctx p (map (fun am => (fst am, CMacro (snd am) p)) ms).
Proof.
  intros p ms H k c Hin. apply in_map_iff in Hin. destruct Hin as (a & E & Hin).
  injection E as _ <-. rewrite forallb_forall in H. split; [lia|exact (H _ Hin)].
Qed.

(* ---------- frames ---------- *)
Lemma wf_frame_mono : forall p q fr, (p <= q)%nat -> wf_frame p fr -> wf_frame q fr.
Proof. intros p q fr L (H1 & H2 & H3). repeat split; eauto using wf_ctx_mono. Qed.
Lemma wf_frame_priv : forall p fr c, wf_frame p fr -> wf_ctx p c -> wf_frame p (with_priv fr c).
Proof. intros p fr c (H1 & H2 & H3) Hc. repeat split; assumption. Qed.
Lemma wf_frame_child_priv : forall p fr c, wf_frame p fr -> wf_ctx p c -> wf_frame p (with_priv (child_of fr) c).
Proof. intros p fr c (H1 & H2 & H3) Hc. repeat split; assumption. Qed.
Lemma wf_frame_auto : forall p fr a, wf_frame p fr -> wf_frame p (with_auto fr a).
Proof. intros p fr a H. exact H. Qed.
Lemma wf_frame_depth : forall p fr d, wf_frame p fr -> wf_frame p (with_depth fr d).
Proof. intros p fr d H. exact H. Qed.

Local Notation good := exec_inv.

Lemma good_eq : forall st st', ms_frames st' = ms_frames st -> good st ->
  good st' /\ cur_index st' = cur_index st.
Proof. intros st st' E H. unfold exec_inv, cur_index in *. rewrite E. split; [exact H|reflexivity]. Qed.
Lemma good_wf : forall st, good st -> wf_state st.
Proof. intros st H. exact (proj2 H). Qed.

Lemma cur_index_cons : forall st fr r, ms_frames st = fr :: r -> cur_index st = length r.
Proof. intros st fr r E. unfold cur_index. rewrite E. simpl. lia. Qed.

Lemma good_top : forall st, good st ->
  exists fr, top_frame st = Ok fr /\ ms_frames st = fr :: tl (ms_frames st) /\
             wf_frame (cur_index st) fr /\ wf_frames (tl (ms_frames st)) /\
             (S (cur_index st) = length (ms_frames st))%nat.
Proof.
  intros st [Hn Hw]. unfold top_frame, cur_index. destruct (ms_frames st) as [|fr r]; [congruence|].
  exists fr. simpl in *. rewrite Nat.sub_0_r. tauto.
Qed.
Lemma top_frame_np : forall st s, good st -> top_frame st = Panic s -> False.
Proof. intros st s H E. destruct (good_top _ H) as (fr & Ht & _). congruence. Qed.
Lemma good_top_wf : forall st fr, good st -> top_frame st = Ok fr -> wf_frame (cur_index st) fr.
Proof. intros st fr H E. destruct (good_top _ H) as (fr' & Ht & _ & Hw & _). congruence. Qed.

Lemma good_set_top : forall st fr', good st -> wf_frame (cur_index st) fr' -> good (set_top st fr').
Proof.
  intros st fr' H Hf. destruct (good_top _ H) as (fr & Ht & E & _ & Hr & _).
  unfold exec_inv. rewrite (frames_set_top _ _ fr' Ht). split; [discriminate|].
  cbn [wf_frames]. rewrite <- (cur_index_cons _ _ _ E). tauto.
Qed.
Lemma cur_index_set_top : forall st fr fr', top_frame st = Ok fr -> cur_index (set_top st fr') = cur_index st.
Proof.
  intros st fr fr' Ht. unfold cur_index. rewrite (frames_set_top _ _ fr' Ht).
  rewrite (top_frame_ok _ _ Ht) at 2. reflexivity.
Qed.
Lemma good_set_priv : forall st k c st', good st -> wf_cval (cur_index st) c ->
  set_priv st k c = Ok st' -> good st'.
Proof.
  intros st k c st' H Hc E. apply set_priv_ok in E. destruct E as (fr & Ht & ->).
  apply good_set_top; [exact H|]. pose proof (good_top_wf _ _ H Ht) as Hw.
  apply wf_frame_priv; [exact Hw|]. apply wf_ctx_set; [exact Hc|exact (proj1 Hw)].
Qed.
Lemma set_priv_np : forall st k c s, good st -> set_priv st k c = Panic s -> False.
Proof.
  intros st k c s H E. unfold set_priv in E. destruct (good_top _ H) as (fr & Ht & _).
  rewrite Ht in E. discriminate E.
Qed.
Lemma cur_index_set_priv : forall st k c st', set_priv st k c = Ok st' -> cur_index st' = cur_index st.
Proof.
  intros st k c st' E. apply set_priv_ok in E. destruct E as (fr & Ht & ->).
  eapply cur_index_set_top; exact Ht.
Qed.
Lemma good_push : forall st fr, wf_state st -> wf_frame (length (ms_frames st)) fr -> good (push_frame st fr).
Proof. intros st fr H Hf. split; [discriminate|]. cbn [push_frame ms_frames wf_frames]. split; assumption. Qed.
Lemma good_len : forall st, good st -> length (ms_frames st) = S (cur_index st).
Proof. intros st H. destruct (good_top _ H) as (_ & _ & _ & _ & _ & L). lia. Qed.
Lemma good_push' : forall st fr, good st -> wf_frame (S (cur_index st)) fr -> good (push_frame st fr).
Proof. intros st fr H Hf. apply good_push; [exact (good_wf _ H)|]. rewrite (good_len _ H). exact Hf. Qed.
Lemma cur_index_push : forall st fr, good st -> cur_index (push_frame st fr) = S (cur_index st).
Proof. intros st fr H. unfold cur_index at 1. cbn [push_frame ms_frames length]. rewrite (good_len _ H). lia. Qed.
Lemma good_mk : forall st n g, good st -> good (mkM (ms_frames st) n g).
Proof. intros st n g H. exact H. Qed.
Lemma cur_index_mk : forall st n g, cur_index (mkM (ms_frames st) n g) = cur_index st.
Proof. reflexivity. Qed.
Lemma cur_index_ns_set : forall st e n s, cur_index (ns_set st e n s) = cur_index st.
Proof. reflexivity. Qed.
Lemma good_ns_set : forall st e n s, good st -> good (ns_set st e n s).
Proof. intros st e n s H. exact H. Qed.
Lemma cur_index_lt : forall st, good st -> (cur_index st < length (ms_frames st))%nat.
Proof. intros st H. destruct (good_top _ H) as (_ & _ & _ & _ & _ & L). lia. Qed.

(* frames by index *)
Lemma wf_frames_nth : forall l i fr, wf_frames l -> nth_error (rev l) i = Some fr ->
  wf_frame i fr /\ (i < length l)%nat.
Proof.
  induction l as [|a l IH]; intros i fr H E.
  - destruct i; discriminate E.
  - cbn [wf_frames] in H. destruct H as [Ha Hl]. cbn [rev] in E.
    destruct (Nat.lt_ge_cases i (length (rev l))) as [L|L].
    + rewrite nth_error_app1 in E by exact L. destruct (IH _ _ Hl E) as [H1 H2].
      split; [exact H1|]. simpl. lia.
    + rewrite nth_error_app2 in E by exact L. rewrite rev_length in *.
      destruct (i - length l)%nat as [|j] eqn:D; [|destruct j; discriminate E].
      injection E as <-. assert (i = length l) by lia. subst i. split; [exact Ha|]. simpl. lia.
Qed.
Lemma frame_at_wf : forall st i fr, wf_state st -> frame_at st i = Some fr ->
  wf_frame i fr /\ (i < length (ms_frames st))%nat.
Proof. intros st i fr H E. eapply wf_frames_nth; eassumption. Qed.
Lemma frame_at_none : forall st i, frame_at st i = None -> (length (ms_frames st) <= i)%nat.
Proof. intros st i E. unfold frame_at in E. apply nth_error_None in E. rewrite rev_length in E. exact E. Qed.

Definition sim (a b : frame) : Prop :=
  f_priv b = f_priv a /\ f_pub b = f_pub a /\ f_chain b = f_chain a.
Lemma Forall2_len : forall A B (R : A -> B -> Prop) l l', Forall2 R l l' -> length l = length l'.
Proof. intros A B R l l' H. induction H; simpl; congruence. Qed.
Lemma wf_frames_sim : forall l l', Forall2 sim l l' -> wf_frames l -> wf_frames l'.
Proof.
  intros l l' H. induction H as [|a b l l' (E1 & E2 & E3) HF IH]; intro Hw; [exact I|].
  cbn [wf_frames] in *. destruct Hw as [(H1 & H2 & H3) Hl]. split; [|auto].
  rewrite <- (Forall2_len _ _ _ _ _ HF). unfold wf_frame. rewrite E1, E2, E3. tauto.
Qed.
Lemma Forall2_sim_refl : forall l, Forall2 sim l l.
Proof. induction l; constructor; auto. repeat split. Qed.
Lemma Forall2_rev' : forall A B (R : A -> B -> Prop) l l', Forall2 R l l' -> Forall2 R (rev l) (rev l').
Proof.
  intros A B R l l' H. induction H; simpl; [constructor|]. apply Forall2_app; [assumption|]. constructor; auto.
Qed.
Lemma Forall2_update_nth : forall (l : list frame) i x y,
  nth_error l i = Some x -> sim x y -> Forall2 sim l (update_nth l i y).
Proof.
  induction l as [|a l IH]; intros [|i] x y E S; simpl in *; try discriminate E.
  - injection E as ->. constructor; [exact S|apply Forall2_sim_refl].
  - constructor; [repeat split|eapply IH; eassumption].
Qed.
Lemma set_frame_at_sim : forall st i fr fr', frame_at st i = Some fr -> sim fr fr' ->
  Forall2 sim (ms_frames st) (ms_frames (set_frame_at st i fr')).
Proof.
  intros st i fr fr' E S. unfold set_frame_at. cbn [ms_frames].
  rewrite <- (rev_involutive (ms_frames st)) at 1. apply Forall2_rev'.
  eapply Forall2_update_nth; eassumption.
Qed.
Lemma wf_frames_skipn : forall n l, wf_frames l -> wf_frames (skipn n l).
Proof.
  induction n as [|n IH]; intros l H; [exact H|]. destruct l as [|a l]; [exact H|].
  simpl. apply IH. exact (proj2 H).
Qed.
Lemma skipn_nonempty : forall A (l : list A) i, (i < length l)%nat -> skipn (length l - S i) l <> [].
Proof.
  intros A l i L E. apply (f_equal (@length A)) in E. rewrite skipn_length in E. simpl in E. lia.
Qed.

Section NoPanic.
Variable se : senv.
Variable globals : list (str * cval).
Hypothesis Hglobals : plain_ctx globals.
(* the compiler, proved separately: it produces well-formed templates and does not panic *)
Hypothesis Hcompile_wf : compiler_wf se.
Hypothesis Hcompile_np : compiler_no_panic se.

Local Notation root_frame := (PV.Model.Exec.root_frame globals).
Local Notation apply_filter_se := (PV.Model.Exec.apply_filter_se se).
Local Notation eval := (PV.Model.Exec.eval se globals).
Local Notation eval_list := (PV.Model.Exec.eval_list se globals).
Local Notation apply_chain := (PV.Model.Exec.apply_chain se globals).
Local Notation resolve := (PV.Model.Exec.resolve se globals).
Local Notation walk := (PV.Model.Exec.walk se globals).
Local Notation call_macro := (PV.Model.Exec.call_macro se globals).
Local Notation macro_defaults := (PV.Model.Exec.macro_defaults se globals).
Local Notation call_super := (PV.Model.Exec.call_super se globals).
Local Notation exec_nodes := (PV.Model.Exec.exec_nodes se globals).
Local Notation exec_node := (PV.Model.Exec.exec_node se globals).
Local Notation exec_if := (PV.Model.Exec.exec_if se globals).
Local Notation exec_for := (PV.Model.Exec.exec_for se globals).
Local Notation exec_firstof := (PV.Model.Exec.exec_firstof se globals).
Local Notation eval_pairs := (PV.Model.Exec.eval_pairs se globals).
Local Notation apply_tag_chain := (PV.Model.Exec.apply_tag_chain se globals).
Local Notation exec_template := (PV.Model.Exec.exec_template se globals).
Local Notation exec_template_unbuffered := (PV.Model.Exec.exec_template_unbuffered se globals).

(* ---------- sources that cannot panic ---------- *)
Lemma apply_filter_se_np : forall name x p s, apply_filter_se name x p = Panic s -> False.
Proof.
  intros name x p s H. unfold PV.Model.Exec.apply_filter_se in H.
  destruct (assoc_get name filter_impl).
  - exact (filters_never_panic _ _ _ _ H).
  - destruct (str_in name (cfg_filters (se_cfg se))); discriminate H.
Qed.
Lemma iter_items_np : forall v r srt s, iter_items v r srt = Panic s -> False.
Proof.
  intros v r srt s H. destruct v; cbn [iter_items] in H; try discriminate H.
  - destruct srt; [destruct (sort_vals l)|]; discriminate H.
  - destruct (Nat.leb (length m) 1 || srt); discriminate H.
Qed.

(* ---------- the frame facts of C12, per function ---------- *)
Lemma good_eval : forall f st e v st', eval f st e = Ok (v, st') -> good st -> good st' /\ cur_index st' = cur_index st.
Proof. intros f st e v st' H. apply good_eq. destruct (frames_inv_all se globals f) as (I & _). eapply I, H. Qed.
Lemma good_eval_list : forall f st e v st', eval_list f st e = Ok (v, st') -> good st -> good st' /\ cur_index st' = cur_index st.
Proof. intros f st e v st' H. apply good_eq. destruct (frames_inv_all se globals f) as (_ & I & _). eapply I, H. Qed.
Lemma good_apply_chain : forall f st v c r st', apply_chain f st v c = Ok (r, st') -> good st -> good st' /\ cur_index st' = cur_index st.
Proof. intros f st v c r st' H. apply good_eq. destruct (frames_inv_all se globals f) as (_ & _ & I & _). eapply I, H. Qed.
Lemma good_resolve : forall f st ps r st', resolve f st ps = Ok (r, st') -> good st -> good st' /\ cur_index st' = cur_index st.
Proof. intros f st ps r st' H. apply good_eq. destruct (frames_inv_all se globals f) as (_ & _ & _ & I & _). eapply I, H. Qed.
Lemma good_walk : forall f st c s ps r st', walk f st c s ps = Ok (r, st') -> good st -> good st' /\ cur_index st' = cur_index st.
Proof. intros f st c s ps r st' H. apply good_eq. destruct (frames_inv_all se globals f) as (_ & _ & _ & _ & I & _). eapply I, H. Qed.
Lemma good_call_macro : forall f st m i a r st', call_macro f st m i a = Ok (r, st') -> good st -> good st' /\ cur_index st' = cur_index st.
Proof. intros f st m i a r st' H. apply good_eq. destruct (frames_inv_all se globals f) as (_ & _ & _ & _ & _ & I & _). eapply I, H. Qed.
Lemma fr_macro_defaults : forall f st ps r st', macro_defaults f st ps = Ok (r, st') -> ms_frames st' = ms_frames st.
Proof. intros f st ps r st' H. destruct (frames_inv_all se globals f) as (_ & _ & _ & _ & _ & _ & I & _). eapply I, H. Qed.
Lemma good_macro_defaults : forall f st ps r st', macro_defaults f st ps = Ok (r, st') -> good st -> good st' /\ cur_index st' = cur_index st.
Proof. intros f st ps r st' H. apply good_eq. eapply fr_macro_defaults, H. Qed.
Lemma good_call_super : forall f st i w r st', call_super f st i w = Ok (r, st') -> good st -> good st' /\ cur_index st' = cur_index st.
Proof. intros f st i w r st' H. apply good_eq. destruct (frames_inv_all se globals f) as (_ & _ & _ & _ & _ & _ & _ & I & _). eapply I, H. Qed.
Lemma good_eval_pairs : forall f st ps r st', eval_pairs f st ps = Ok (r, st') -> good st -> good st' /\ cur_index st' = cur_index st.
Proof. intros f st ps r st' H. apply good_eq. destruct (frames_inv_all se globals f) as (_ & _ & _ & _ & _ & _ & _ & _ & I & _). eapply I, H. Qed.
Lemma good_apply_tag_chain : forall f st v c r st', apply_tag_chain f st v c = Ok (r, st') -> good st -> good st' /\ cur_index st' = cur_index st.
Proof. intros f st v c r st' H. apply good_eq. destruct (frames_inv_all se globals f) as (_ & _ & _ & _ & _ & _ & _ & _ & _ & I & _). eapply I, H. Qed.
Lemma sb_exec_nodes : forall f st ns o st', exec_nodes f st ns = (o, Ok st') -> same_below st st'.
Proof. intros f st ns o st' H. destruct (frames_inv_all se globals f) as (_ & _ & _ & _ & _ & _ & _ & _ & _ & _ & I & _). eapply I, H. Qed.
Lemma sb_exec_for : forall f st k v p b it i c o st', exec_for f st k v p b it i c = (o, Ok st') -> same_below st st'.
Proof. intros f st k v p b it i c o st' H. destruct (frames_inv_all se globals f) as (_ & _ & _ & _ & _ & _ & _ & _ & _ & _ & _ & _ & _ & I & _). eapply I, H. Qed.
Lemma fr_exec_template : forall f st t c o st', exec_template f st t c = (o, Ok st') -> ms_frames st' = ms_frames st.
Proof. intros f st t c o st' H. destruct (frames_inv_all se globals f) as (_ & _ & _ & _ & _ & _ & _ & _ & _ & _ & _ & _ & _ & _ & _ & I & _). eapply I, H. Qed.
Lemma fr_exec_template_unbuffered : forall f st t c o st', exec_template_unbuffered f st t c = (o, Ok st') -> ms_frames st' = ms_frames st.
Proof. intros f st t c o st' H. destruct (frames_inv_all se globals f) as (_ & _ & _ & _ & _ & _ & _ & _ & _ & _ & _ & _ & _ & _ & _ & _ & I). eapply I, H. Qed.
Lemma good_exec_template : forall f st t c o st', exec_template f st t c = (o, Ok st') -> good st -> good st' /\ cur_index st' = cur_index st.
Proof. intros f st t c o st' H. apply good_eq. eapply fr_exec_template, H. Qed.
Lemma good_exec_template_unbuffered : forall f st t c o st', exec_template_unbuffered f st t c = (o, Ok st') -> good st -> good st' /\ cur_index st' = cur_index st.
Proof. intros f st t c o st' H. apply good_eq. eapply fr_exec_template_unbuffered, H. Qed.

(* same_below keeps the height and the top frame's public context and chain *)
Lemma sb_good : forall st st', same_below st st' -> good st ->
  (forall fr', top_frame st' = Ok fr' -> wf_ctx (cur_index st) (f_priv fr')) -> good st'.
Proof.
  intros st st' [T M] H Hp. destruct (good_top _ H) as (fr & Ht & E & (_ & Hpub & Hch) & Hr & _).
  rewrite E in M. destruct (ms_frames st') as [|fr' r'] eqn:E'; [contradiction|].
  destruct M as (Mp & _ & _ & _ & Mc). cbn [tl] in T. rewrite E in T. cbn [tl] in T.
  split; [rewrite E'; discriminate|]. rewrite E'. cbn [wf_frames]. subst r'.
  rewrite <- (cur_index_cons _ _ _ E). split; [|exact Hr].
  split; [apply Hp; unfold top_frame; rewrite E'; reflexivity|]. rewrite Mp, Mc. tauto.
Qed.
Lemma sb_cur_index : forall st st', same_below st st' -> cur_index st' = cur_index st.
Proof. intros st st' [T _]. unfold cur_index. destruct (ms_frames st), (ms_frames st'); simpl in *; subst; try reflexivity. Qed.
Lemma ci_exec_nodes : forall f st ns o st', exec_nodes f st ns = (o, Ok st') -> cur_index st' = cur_index st.
Proof. intros f st ns o st' H. apply sb_cur_index. eapply sb_exec_nodes, H. Qed.
Lemma ci_exec_node : forall f st n o st', exec_node f st n = (o, Ok st') -> cur_index st' = cur_index st.
Proof. intros f st n o st' H. apply sb_cur_index. destruct (frames_inv_all se globals f) as (_ & _ & _ & _ & _ & _ & _ & _ & _ & _ & _ & I & _). eapply I, H. Qed.
Lemma ci_exec_if : forall f st c w i o st', exec_if f st c w i = (o, Ok st') -> cur_index st' = cur_index st.
Proof. intros f st c w i o st' H. apply sb_cur_index. destruct (frames_inv_all se globals f) as (_ & _ & _ & _ & _ & _ & _ & _ & _ & _ & _ & _ & I & _). eapply I, H. Qed.
Lemma ci_exec_for : forall f st k v p b it i c o st', exec_for f st k v p b it i c = (o, Ok st') -> cur_index st' = cur_index st.
Proof. intros f st k v p b it i c o st' H. apply sb_cur_index. eapply sb_exec_for, H. Qed.
Lemma ci_exec_firstof : forall f st a o st', exec_firstof f st a = (o, Ok st') -> cur_index st' = cur_index st.
Proof. intros f st a o st' H. apply sb_cur_index. destruct (frames_inv_all se globals f) as (_ & _ & _ & _ & _ & _ & _ & _ & _ & _ & _ & _ & _ & _ & I & _). eapply I, H. Qed.

(* what eval_pairs and macro_defaults return holds plain values only *)
Lemma eval_pairs_plain : forall f st ps r st', eval_pairs f st ps = Ok (r, st') -> plain_ctx r.
Proof.
  induction f as [|f IH]; intros st ps r st' H.
  - rewrite eval_pairs_0 in H. discriminate H.
  - rewrite eval_pairs_S in H. destruct ps as [|[k e] rest].
    + injection H as <- _. intros k c [].
    + apply bind_ok_inv in H. destruct H as ([v st1] & _ & H).
      apply bind_ok_inv in H. destruct H as ([r0 st2] & H0 & H). injection H as <- _.
      intros k' c [E|Hin]; [injection E as _ <-; eexists; reflexivity|].
      eapply IH; eassumption.
Qed.
Lemma macro_defaults_plain : forall f st ps r st', macro_defaults f st ps = Ok (r, st') -> plain_ctx r.
Proof.
  induction f as [|f IH]; intros st ps r st' H.
  - rewrite macro_defaults_0 in H. discriminate H.
  - rewrite macro_defaults_S in H. destruct ps as [|[k [e|]] rest].
    + injection H as <- _. intros k c [].
    + apply bind_ok_inv in H. destruct H as ([v st1] & _ & H).
      apply bind_ok_inv in H. destruct H as ([r0 st2] & H0 & H). injection H as <- _.
      intros k' c [E|Hin]; [injection E as _ <-; eexists; reflexivity|].
      eapply IH; eassumption.
    + apply bind_ok_inv in H. destruct H as ([r0 st2] & H0 & H). injection H as <- _.
      intros k' c [E|Hin]; [injection E as _ <-; eexists; reflexivity|].
      eapply IH; eassumption.
Qed.

(* ---------- one fuel step ---------- *)
Section Step.
Variable f : nat.
Hypothesis IH_eval : forall st e s, good st -> wf_expr e = true -> eval f st e = Panic s -> False.
Hypothesis IH_eval_list : forall st es s, good st -> forallb wf_expr es = true -> eval_list f st es = Panic s -> False.
Hypothesis IH_apply_chain : forall st v c s, good st -> forallb wf_fcall c = true -> apply_chain f st v c = Panic s -> False.
Hypothesis IH_resolve : forall st ps s, good st -> wf_expr (EVar ps) = true -> resolve f st ps = Panic s -> False.
Hypothesis IH_walk : forall st c sf ps s, good st -> forallb wf_part ps = true -> walk f st c sf ps = Panic s -> False.
Hypothesis IH_call_macro : forall st m i a s, good st -> wf_macro m = true -> (i <= cur_index st)%nat ->
  call_macro f st m i a = Panic s -> False.
Hypothesis IH_macro_defaults : forall st ps s, good st -> wf_oparams ps = true -> macro_defaults f st ps = Panic s -> False.
Hypothesis IH_call_super : forall st i w s, good st -> (i <= cur_index st)%nat ->
  forallb (forallb wf_node) w = true -> call_super f st i w = Panic s -> False.
Hypothesis IH_eval_pairs : forall st ps s, good st -> wf_pairs ps = true -> eval_pairs f st ps = Panic s -> False.
Hypothesis IH_apply_tag_chain : forall st v c s, good st -> wf_oparams c = true -> apply_tag_chain f st v c = Panic s -> False.
Hypothesis IH_exec_nodes : forall st ns o s, good st -> forallb wf_node ns = true -> exec_nodes f st ns = (o, Panic s) -> False.
Hypothesis IH_exec_node : forall st n o s, good st -> wf_node n = true -> exec_node f st n = (o, Panic s) -> False.
Hypothesis IH_exec_if : forall st c w i o s, good st -> forallb wf_expr c = true -> forallb (forallb wf_node) w = true ->
  (length c <= length w)%nat -> exec_if f st c w i = (o, Panic s) -> False.
Hypothesis IH_exec_for : forall st k v p b it i c o s, good st -> forallb wf_node b = true ->
  exec_for f st k v p b it i c = (o, Panic s) -> False.
Hypothesis IH_exec_firstof : forall st a o s, good st -> forallb wf_expr a = true -> exec_firstof f st a = (o, Panic s) -> False.
Hypothesis IH_exec_template : forall st t c o s, wf_state st -> wf_template t = true ->
  wf_ctx (length (ms_frames st)) c -> exec_template f st t c = (o, Panic s) -> False.
Hypothesis IH_exec_template_unbuffered : forall st t c o s, wf_state st -> wf_template t = true ->
  wf_ctx (length (ms_frames st)) c -> exec_template_unbuffered f st t c = (o, Panic s) -> False.
Hypothesis IG_exec_nodes : forall st ns o st', good st -> forallb wf_node ns = true -> exec_nodes f st ns = (o, Ok st') -> good st'.
Hypothesis IG_exec_node : forall st n o st', good st -> wf_node n = true -> exec_node f st n = (o, Ok st') -> good st'.
Hypothesis IG_exec_if : forall st c w i o st', good st -> forallb wf_expr c = true -> forallb (forallb wf_node) w = true ->
  (length c <= length w)%nat -> exec_if f st c w i = (o, Ok st') -> good st'.
Hypothesis IG_exec_for : forall st k v p b it i c o st', good st -> forallb wf_node b = true ->
  exec_for f st k v p b it i c = (o, Ok st') -> good st'.
Hypothesis IG_exec_firstof : forall st a o st', good st -> forallb wf_expr a = true -> exec_firstof f st a = (o, Ok st') -> good st'.

Ltac swfb :=
  first [ assumption | reflexivity
        | match goal with
          | |- forallb wf_expr (match ?c with Some a => a | None => [] end) = true =>
              destruct c; first [assumption|reflexivity]
          | |- wf_expr (nth _ _ (EBool false)) = true => apply forallb_nth; [assumption|reflexivity]
          | |- wf_macro (Macro _ _ _ _) = true =>
              cbn [wf_macro]; apply andb_true_intro; split; assumption
          | |- forallb _ (_ :: _) = true =>
              cbn [forallb]; repeat (apply andb_true_intro; split); first [assumption|reflexivity]
          end ].
Ltac sidx := first [ assumption | lia ].

Ltac lookup :=
  repeat match goal with
  | Hw : wf_ctx ?p ?m, Hc : ctx_get _ ?m = Some ?c |- _ =>
      lazymatch goal with _ : wf_cval p c |- _ => fail | _ => idtac end;
      assert (wf_cval p c) by (exact (wf_ctx_get _ _ _ _ Hw Hc))
  end.
(* well-formedness of contexts and frames built from well-formed pieces *)
Ltac swf :=
  lazymatch goal with
  | |- wf_ctx _ (ctx_set _ _ _) => apply wf_ctx_set; swf
  | |- wf_ctx _ (ctx_update _ _) => apply wf_ctx_update; swf
  | |- wf_ctx _ (ctx_del _ _) => apply wf_ctx_del; swf
  | |- wf_ctx _ [] => apply wf_ctx_nil
  | |- wf_ctx _ (match ?x with Some _ => _ | None => _ end) => destruct x eqn:?; lookup; swf
  | |- wf_ctx ?p (map (fun am => (fst am, CMacro (snd am) ?p)) _) => apply wf_ctx_map_macro; swfb
  | |- wf_ctx _ (if ?x then _ else _) => destruct x; swf
  | |- wf_ctx ?p ?m =>
      first [ assumption
            | match goal with Hm : wf_ctx ?q m |- _ => apply (wf_ctx_mono q p m); [lia|exact Hm] end
            | match goal with Hm : plain_ctx m |- _ => apply wf_ctx_plain; exact Hm end ]
  | |- wf_cval _ (CV _) => exact I
  | |- wf_cval _ (CCycle _ _ _ _) => cbn [wf_cval]; swfb
  | |- wf_cval _ (CMacro _ _) => first [ assumption | cbn [wf_cval]; split; [lia|swfb] ]
  | |- wf_cval _ (CBlock _ _) => first [ assumption | cbn [wf_cval]; split; [lia|swfb] ]
  | |- wf_cval ?p ?c =>
      first [ assumption
            | match goal with Hc : wf_cval ?q c |- _ => apply (wf_cval_mono q p c); [lia|exact Hc] end ]
  | |- wf_frame _ (with_priv (child_of _) _) => apply wf_frame_child_priv; swf
  | |- wf_frame _ (with_priv _ _) => apply wf_frame_priv; swf
  | |- wf_frame _ (with_auto _ _) => apply wf_frame_auto; swf
  | |- wf_frame ?p ?fr =>
      first [ assumption
            | match goal with Hf : wf_frame ?q fr |- _ => apply (wf_frame_mono q p fr); [lia|exact Hf] end ]
  end.

Ltac sgood :=
  lazymatch goal with
  | |- good (ns_set _ _ _ _) => first [ assumption | apply good_ns_set; sgood ]
  | |- good (mkM (ms_frames _) _ _) => first [ assumption | apply good_mk; sgood ]
  | |- good (set_top _ _) => first [ assumption | apply good_set_top; [sgood|swf] ]
  | |- good (push_frame _ _) => first [ assumption | apply good_push'; [sgood|swf] ]
  | |- good ?s => tryif is_evar s then fail else assumption
  end.

Ltac notyet s := lazymatch goal with | _ : good s |- _ => fail | _ => idtac end.
Ltac fw_eq H s s' lem :=
  notyet s'; let G := fresh "G" in let C := fresh "C" in
  assert (G : good s' /\ cur_index s' = cur_index s) by (eapply lem; [exact H|sgood]);
  destruct G as [G C].
Ltac fw_ig H s s' ig ci :=
  notyet s'; let G := fresh "G" in let C := fresh "C" in
  assert (G : good s') by (eapply ig; [ | | exact H]; [sgood|swfb]);
  assert (C : cur_index s' = cur_index s) by (eapply ci; exact H).

(* derive [good] and the height for every intermediate state; the top frame is well-formed
   at its position *)
Ltac fwd_step :=
  match goal with
  | Ht : top_frame ?st = Ok ?a |- _ =>
      lazymatch goal with _ : wf_frame (cur_index st) a |- _ => fail | _ => idtac end;
      let W := fresh "W" in
      assert (W : wf_frame (cur_index st) a) by (apply good_top_wf; [sgood | exact Ht]);
      let W' := fresh "W" in pose proof W as W'; destruct W' as (? & ? & ?)
  | Hw : wf_ctx ?p ?m, Hc : ctx_get _ ?m = Some ?c |- _ =>
      lazymatch goal with _ : wf_cval p c |- _ => fail | _ => idtac end;
      let Hv := fresh "Hv" in let Hv2 := fresh "Hv" in
      assert (Hv : wf_cval p c) by (exact (wf_ctx_get _ _ _ _ Hw Hc));
      pose proof Hv as Hv2; cbn [wf_cval] in Hv2;
      lazymatch type of Hv2 with _ /\ _ => destruct Hv2 | _ => idtac end
  | E : rev (flat_map _ (f_chain ?a)) = ?l :: ?l0, Hc : forallb wf_template (f_chain ?a) = true |- _ =>
      lazymatch goal with _ : forallb wf_node l = true |- _ => fail | _ => idtac end;
      destruct (forallb_rev_cons _ _ _ _ _ (chain_blocks_wf _ _ Hc) E) as [? ?]
  | H : compile_file se _ _ _ = Ok (?t, _) |- _ =>
      lazymatch goal with _ : wf_template t = true |- _ => fail | _ => idtac end;
      pose proof (Hcompile_wf _ _ _ _ _ H)
  | H : eval f ?s _ = Ok (_, ?s') |- _ => fw_eq H s s' good_eval
  | H : eval_list f ?s _ = Ok (_, ?s') |- _ => fw_eq H s s' good_eval_list
  | H : apply_chain f ?s _ _ = Ok (_, ?s') |- _ => fw_eq H s s' good_apply_chain
  | H : resolve f ?s _ = Ok (_, ?s') |- _ => fw_eq H s s' good_resolve
  | H : walk f ?s _ _ _ = Ok (_, ?s') |- _ => fw_eq H s s' good_walk
  | H : call_macro f ?s _ _ _ = Ok (_, ?s') |- _ => fw_eq H s s' good_call_macro
  | H : macro_defaults f ?s _ = Ok (_, ?s') |- _ => fw_eq H s s' good_macro_defaults
  | H : call_super f ?s _ _ = Ok (_, ?s') |- _ => fw_eq H s s' good_call_super
  | H : eval_pairs f ?s _ = Ok (?r, ?s') |- _ =>
      fw_eq H s s' good_eval_pairs; pose proof (eval_pairs_plain _ _ _ _ _ H)
  | H : apply_tag_chain f ?s _ _ = Ok (_, ?s') |- _ => fw_eq H s s' good_apply_tag_chain
  | H : exec_template f ?s _ _ = (_, Ok ?s') |- _ => fw_eq H s s' good_exec_template
  | H : exec_template_unbuffered f ?s _ _ = (_, Ok ?s') |- _ => fw_eq H s s' good_exec_template_unbuffered
  | H : set_priv ?s _ _ = Ok ?s' |- _ =>
      notyet s'; assert (good s') by (eapply good_set_priv; [ | | exact H]; [sgood|swf]);
      pose proof (cur_index_set_priv _ _ _ _ H)
  | H : exec_nodes f ?s _ = (_, Ok ?s') |- _ => fw_ig H s s' IG_exec_nodes ci_exec_nodes
  | H : exec_node f ?s _ = (_, Ok ?s') |- _ => fw_ig H s s' IG_exec_node ci_exec_node
  | H : exec_for f ?s _ _ _ _ _ _ _ = (_, Ok ?s') |- _ => fw_ig H s s' IG_exec_for ci_exec_for
  | H : exec_firstof f ?s _ = (_, Ok ?s') |- _ => fw_ig H s s' IG_exec_firstof ci_exec_firstof
  end.
Ltac fwd := repeat fwd_step.

Ltac lookup_split :=
  repeat match goal with
  | H : wf_cval _ (CMacro _ _) |- _ => cbn [wf_cval] in H; destruct H
  | H : wf_cval _ (CBlock _ _) |- _ => cbn [wf_cval] in H; destruct H
  | H : wf_cval _ (CCycle _ _ _ _) |- _ => progress (cbn [wf_cval] in H)
  end.
(* elements of well-formed lists *)
Ltac nths :=
  repeat match goal with
  | Hn : nth_error ?l ?i = Some ?x, Hf : forallb ?P ?l = true |- _ =>
      lazymatch goal with _ : P x = true |- _ => fail | _ => idtac end;
      assert (P x = true) by (exact (forallb_nth_error _ P l i x Hf Hn))
  end.

(* a leaf: some call at fuel f, or a primitive, is said to have panicked *)
Ltac kill :=
  exfalso;
  match goal with
  | H : eval f _ _ = Panic _ |- _ => eapply IH_eval; [ | | exact H]; [sgood|swfb]
  | H : eval_list f _ _ = Panic _ |- _ => eapply IH_eval_list; [ | | exact H]; [sgood|swfb]
  | H : apply_chain f _ _ _ = Panic _ |- _ => eapply IH_apply_chain; [ | | exact H]; [sgood|swfb]
  | H : resolve f _ _ = Panic _ |- _ => eapply IH_resolve; [ | | exact H]; [sgood|swfb]
  | H : walk f _ _ _ _ = Panic _ |- _ => eapply IH_walk; [ | | exact H]; [sgood|swfb]
  | H : macro_defaults f _ _ = Panic _ |- _ => eapply IH_macro_defaults; [ | | exact H]; [sgood|swfb]
  | H : eval_pairs f _ _ = Panic _ |- _ => eapply IH_eval_pairs; [ | | exact H]; [sgood|swfb]
  | H : apply_tag_chain f _ _ _ = Panic _ |- _ => eapply IH_apply_tag_chain; [ | | exact H]; [sgood|swfb]
  | H : call_macro f _ _ _ _ = Panic _ |- _ => eapply IH_call_macro; [ | | | exact H]; [sgood|swfb|sidx]
  | H : call_super f _ _ _ = Panic _ |- _ => eapply IH_call_super; [ | | | exact H]; [sgood|sidx|swfb]
  | H : exec_nodes f _ _ = (_, Panic _) |- _ => eapply IH_exec_nodes; [ | | exact H]; [sgood|swfb]
  | H : exec_node f _ _ = (_, Panic _) |- _ => eapply IH_exec_node; [ | | exact H]; [sgood|swfb]
  | H : exec_if f _ _ _ _ = (_, Panic _) |- _ => eapply IH_exec_if; [ | | | | exact H]; [sgood|swfb|swfb|sidx]
  | H : exec_for f _ _ _ _ _ _ _ _ = (_, Panic _) |- _ => eapply IH_exec_for; [ | | exact H]; [sgood|swfb]
  | H : exec_firstof f _ _ = (_, Panic _) |- _ => eapply IH_exec_firstof; [ | | exact H]; [sgood|swfb]
  | H : exec_template f ?st _ _ = (_, Panic _) |- _ =>
      eapply IH_exec_template; [ | | | exact H];
      [apply good_wf; sgood | swfb | rewrite (good_len st) by sgood; rewrite ?cur_index_mk; swf]
  | H : exec_template_unbuffered f ?st _ _ = (_, Panic _) |- _ =>
      eapply IH_exec_template_unbuffered; [ | | | exact H];
      [apply good_wf; sgood | swfb | rewrite (good_len st) by sgood; rewrite ?cur_index_mk; swf]
  | H : top_frame _ = Panic _ |- _ => eapply top_frame_np; [ | exact H]; sgood
  | H : set_priv _ _ _ = Panic _ |- _ => eapply set_priv_np; [ | exact H]; sgood
  | H : apply_filter_se _ _ _ = Panic _ |- _ => exact (apply_filter_se_np _ _ _ _ H)
  | H : iter_items _ _ _ = Panic _ |- _ => exact (iter_items_np _ _ _ _ H)
  | H : compile_file se _ _ _ = Panic _ |- _ => exact (Hcompile_np _ _ _ _ H)
  end.
Ltac prep := subst; wfs; nths; fwd; lookup; lookup_split.
Ltac fin := prep; kill.

Lemma np_eval : forall st e s, good st -> wf_expr e = true -> eval (S f) st e = Panic s -> False.
Proof.
  intros st e s G W H. rewrite eval_S in H. destruct e; norm_in H; try discriminate H.
  all: steps H.
  all: fin.
Qed.

Lemma np_eval_list : forall st es s, good st -> forallb wf_expr es = true -> eval_list (S f) st es = Panic s -> False.
Proof. intros st es s G W H. rewrite eval_list_S in H. norm_in H. steps H. all: fin. Qed.

Lemma np_apply_chain : forall st v c s, good st -> forallb wf_fcall c = true -> apply_chain (S f) st v c = Panic s -> False.
Proof. intros st v c s G W H. rewrite apply_chain_S in H. norm_in H. steps H. all: fin. Qed.

Lemma np_macro_defaults : forall st ps s, good st -> wf_oparams ps = true -> macro_defaults (S f) st ps = Panic s -> False.
Proof. intros st ps s G W H. rewrite macro_defaults_S in H. norm_in H. steps H. all: fin. Qed.

Lemma np_eval_pairs : forall st ps s, good st -> wf_pairs ps = true -> eval_pairs (S f) st ps = Panic s -> False.
Proof. intros st ps s G W H. rewrite eval_pairs_S in H. norm_in H. steps H. all: fin. Qed.

Lemma np_apply_tag_chain : forall st v c s, good st -> wf_oparams c = true -> apply_tag_chain (S f) st v c = Panic s -> False.
Proof. intros st v c s G W H. rewrite apply_tag_chain_S in H. norm_in H. steps H. all: fin. Qed.

Lemma np_walk : forall st c sf ps s, good st -> forallb wf_part ps = true -> walk (S f) st c sf ps = Panic s -> False.
Proof. intros st c sf ps s G W H. rewrite walk_S in H. norm_in H. steps H. all: fin. Qed.

Lemma np_resolve : forall st ps s, good st -> wf_expr (EVar ps) = true -> resolve (S f) st ps = Panic s -> False.
Proof.
  intros st ps s G W H. rewrite resolve_S in H. norm_in H. steps H.
  all: fin.
Qed.

Lemma frame_at_good : forall st i, good st -> (i <= cur_index st)%nat -> frame_at st i = None -> False.
Proof.
  intros st i G L E. apply frame_at_none in E. pose proof (cur_index_lt _ G). lia.
Qed.
Lemma good_push_child : forall st i fr c, good st -> frame_at st i = Some fr ->
  wf_ctx (length (ms_frames st)) c -> good (push_frame st (with_priv (child_of fr) c)).
Proof.
  intros st i fr c G E Hc. destruct (frame_at_wf _ _ _ (good_wf _ G) E) as [Hw L].
  apply good_push; [exact (good_wf _ G)|]. apply wf_frame_child_priv; [|exact Hc].
  eapply wf_frame_mono; [|exact Hw]. lia.
Qed.

Lemma np_call_super : forall st i w s, good st -> (i <= cur_index st)%nat ->
  forallb (forallb wf_node) w = true -> call_super (S f) st i w = Panic s -> False.
Proof.
  intros st i w s G L W H. rewrite call_super_S in H. norm_in H. steps H.
  all: try solve [eapply frame_at_good; eassumption].
  subst. match goal with E : rev w = _ :: _ |- _ => destruct (forallb_rev_cons _ _ _ _ _ W E) as [W1 W2] end.
    match goal with E : frame_at st i = Some ?fr, X : exec_nodes f (push_frame st ?nf) _ = _ |- _ =>
      assert (good (push_frame st nf)) end.
    { eapply good_push_child; [exact G|eassumption|].
      match goal with E : frame_at st i = Some ?fr |- _ => destruct (frame_at_wf _ _ _ (good_wf _ G) E) as [(Hp & _) Hl] end.
      apply wf_ctx_set; [split; [lia|exact W2]|]. eapply wf_ctx_mono; [|exact Hp]. lia. }
  kill.
Qed.

Lemma macro_in_good : forall st i fr d, good st -> (i <= cur_index st)%nat -> frame_at st i = Some fr ->
  good (set_frame_at st i (with_depth fr d)) /\
  cur_index (set_frame_at st i (with_depth fr d)) = cur_index st /\
  forall n g, good (mkM (skipn (length (ms_frames (set_frame_at st i (with_depth fr d))) - S i)
                               (ms_frames (set_frame_at st i (with_depth fr d)))) n g).
Proof.
  intros st i fr d G L E.
  assert (S : Forall2 sim (ms_frames st) (ms_frames (set_frame_at st i (with_depth fr d)))).
  { eapply set_frame_at_sim; [exact E|]. repeat split. }
  pose proof (Forall2_len _ _ _ _ _ S) as Hlen.
  pose proof (wf_frames_sim _ _ S (proj2 G)) as Hw.
  pose proof (cur_index_lt _ G) as Hlt.
  assert (G0 : good (set_frame_at st i (with_depth fr d))).
  { split; [|exact Hw]. intro E0. rewrite E0 in Hlen. simpl in Hlen. lia. }
  split; [exact G0|]. split; [unfold cur_index; rewrite Hlen; reflexivity|].
  intros n g. split; cbn [ms_frames].
  - apply skipn_nonempty. lia.
  - apply wf_frames_skipn, Hw.
Qed.

Lemma np_call_macro : forall st m i a s, good st -> wf_macro m = true -> (i <= cur_index st)%nat ->
  call_macro (S f) st m i a = Panic s -> False.
Proof.
  intros st m i a s G W L H. rewrite call_macro_S in H. norm_in H. steps H.
  all: try solve [eapply frame_at_good; eassumption].
  all: subst; wfs.
  all: match goal with E : frame_at ?st_ ?i_ = Some ?fr |- _ =>
         destruct (macro_in_good st_ i_ fr (f_depth fr + 1)%Z G L E) as (G0 & C0 & Gin);
         remember (set_frame_at st_ i_ (with_depth fr (f_depth fr + 1))) as st0 eqn:Est0; clear Est0
       end.
  (* the defaults panicked *)
  all: try solve [match goal with X : macro_defaults f ?sin _ = Panic _ |- _ =>
                    eapply (IH_macro_defaults sin); [apply Gin|eassumption|exact X] end].
  (* afterwards the whole stack is back *)
  all: match goal with X : macro_defaults f _ _ = Ok (_, ?m0) |- _ =>
         pose proof (fr_macro_defaults _ _ _ _ _ X) as Em; cbn [ms_frames] in Em;
         pose proof (macro_defaults_plain _ _ _ _ _ X) as Hplain
       end.
  all: match goal with X : context [mkM (?a ++ ms_frames ?m0) ?n ?g] |- _ =>
         assert (E1 : ms_frames (mkM (a ++ ms_frames m0) n g) = ms_frames st0)
           by (cbn [ms_frames]; rewrite Em; apply firstn_skipn);
         destruct (good_eq _ _ E1 G0) as [G1 C1];
         remember (mkM (a ++ ms_frames m0) n g) as st1 eqn:Est1; clear Est1
       end.
  - match goal with E : frame_at st1 i = Some ?fr1, X : exec_nodes f (push_frame st1 ?nf) _ = _ |- _ =>
      assert (good (push_frame st1 nf)) end.
    { eapply good_push_child; [exact G1|eassumption|].
      match goal with E : frame_at st1 i = Some ?fr1 |- _ =>
        destruct (frame_at_wf _ _ _ (good_wf _ G1) E) as [(Hp & _) Hl] end.
      apply wf_ctx_update; [apply wf_ctx_update|].
      - eapply wf_ctx_mono; [|exact Hp]. lia.
      - apply wf_ctx_plain, Hplain.
      - apply (wf_ctx_map_cv _ _ (fun pa : str * option expr * value => fst (fst pa))
                                 (fun pa => as_value (vv (snd pa)))). }
    kill.
  - eapply (frame_at_good st1 i); [exact G1|lia|eassumption].
Qed.

Ltac fing := prep; sgood.

Lemma np_exec_nodes : forall st ns o s, good st -> forallb wf_node ns = true ->
  exec_nodes (S f) st ns = (o, Panic s) -> False.
Proof. intros st ns o s G W H. rewrite exec_nodes_S in H. norm_in H. steps H. all: fin. Qed.
Lemma g_exec_nodes : forall st ns o st', good st -> forallb wf_node ns = true ->
  exec_nodes (S f) st ns = (o, Ok st') -> good st'.
Proof. intros st ns o st' G W H. rewrite exec_nodes_S in H. norm_in H. steps H. all: fing. Qed.

Lemma np_exec_firstof : forall st a o s, good st -> forallb wf_expr a = true ->
  exec_firstof (S f) st a = (o, Panic s) -> False.
Proof. intros st a o s G W H. rewrite exec_firstof_S in H. norm_in H. steps H. all: fin. Qed.
Lemma g_exec_firstof : forall st a o st', good st -> forallb wf_expr a = true ->
  exec_firstof (S f) st a = (o, Ok st') -> good st'.
Proof. intros st a o st' G W H. rewrite exec_firstof_S in H. norm_in H. steps H. all: fing. Qed.

Lemma np_exec_template : forall st t c o s, wf_state st -> wf_template t = true ->
  wf_ctx (length (ms_frames st)) c -> exec_template (S f) st t c = (o, Panic s) -> False.
Proof.
  intros st t c o s G W Hc H. rewrite exec_template_S in H. norm_in H. steps H. subst.
  eapply IH_exec_template_unbuffered; eassumption.
Qed.

Lemma nth_error_some_lt : forall A (l : list A) i x, nth_error l i = Some x -> (i < length l)%nat.
Proof. intros A l i x H. apply nth_error_Some. congruence. Qed.

Lemma np_exec_if : forall st c w i o s, good st -> forallb wf_expr c = true -> forallb (forallb wf_node) w = true ->
  (length c <= length w)%nat -> exec_if (S f) st c w i = (o, Panic s) -> False.
Proof.
  intros st c w i o s G W1 W2 L H. rewrite exec_if_S in H. norm_in H. steps H.
  all: try fin.
  - match goal with E : nth_error c i = Some _ |- _ => apply nth_error_some_lt in E end.
    match goal with E : nth_error w i = None |- _ => apply nth_error_None in E end. lia.
  - match goal with E : nth_error w (S i) = None |- _ => apply nth_error_None in E end.
    match goal with E : _ && (S i <? length w)%nat = true |- _ =>
      apply andb_prop in E; destruct E as [_ E]; apply Nat.ltb_lt in E end. lia.
Qed.
Lemma g_exec_if : forall st c w i o st', good st -> forallb wf_expr c = true -> forallb (forallb wf_node) w = true ->
  (length c <= length w)%nat -> exec_if (S f) st c w i = (o, Ok st') -> good st'.
Proof.
  intros st c w i o st' G W1 W2 L H. rewrite exec_if_S in H. norm_in H. steps H.
  all: try fing.
  all: prep; eapply IG_exec_if; [ | | | | eassumption]; [sgood|swfb|swfb|sidx].
Qed.

Lemma np_exec_for : forall st k v p b it i c o s, good st -> forallb wf_node b = true ->
  exec_for (S f) st k v p b it i c = (o, Panic s) -> False.
Proof. intros st k v p b it i c o s G W H. rewrite exec_for_S in H. norm_in H. steps H. all: fin. Qed.
Lemma g_exec_for : forall st k v p b it i c o st', good st -> forallb wf_node b = true ->
  exec_for (S f) st k v p b it i c = (o, Ok st') -> good st'.
Proof. intros st k v p b it i c o st' G W H. rewrite exec_for_S in H. norm_in H. steps H. all: fing. Qed.

Lemma good_root : forall st t c e n g, wf_state st -> wf_template t = true ->
  wf_ctx (length (ms_frames st)) c -> good (mkM (root_frame t c e :: ms_frames st) n g).
Proof.
  intros st t c e n g G W Hc. split; [discriminate|]. cbn [ms_frames wf_frames]. split; [|exact G].
  repeat split; cbn [PV.Model.Exec.root_frame f_priv f_pub f_chain].
  - intros k c0 [E|[]]. injection E as _ <-. exact I.
  - apply wf_ctx_update; [apply wf_ctx_plain, Hglobals|exact Hc].
  - apply tpl_chain_wf, W.
Qed.
Lemma np_exec_template_unbuffered : forall st t c o s, wf_state st -> wf_template t = true ->
  wf_ctx (length (ms_frames st)) c -> exec_template_unbuffered (S f) st t c = (o, Panic s) -> False.
Proof.
  intros st t c o s G W Hc H. rewrite exec_template_unbuffered_S in H. norm_in H. steps H. subst.
  match goal with X : exec_nodes f ?st0 _ = _ |- _ => eapply (IH_exec_nodes st0); [ | |exact X] end.
  - apply good_root; assumption.
  - apply wf_template_root, hd_wf; [exact W|apply tpl_chain_wf, W].
Qed.

Lemma wf_if_len : forall c w, wf_node (NIf c w) = true -> (length c <= length w)%nat.
Proof.
  intros c w H. wfs. match goal with E : _ || _ = true |- _ => apply orb_prop in E; destruct E as [E|E]; apply Nat.eqb_eq in E end; lia.
Qed.

(* the item a cycle tag picked, once the tag's shape test has taken it apart *)
Ltac cyc_item :=
  try match goal with
  | E : nth ?k ?args (EBool false) = _, Wi : forall k, wf_expr (nth k ?args _) = true |- _ =>
      let Wk := fresh "Wk" in pose proof (Wi k) as Wk; rewrite E in Wk
  end.

Lemma np_exec_node : forall st n o s, good st -> wf_node n = true -> exec_node (S f) st n = (o, Panic s) -> False.
Proof.
  intros st n o s G W H. rewrite exec_node_S in H. destruct n; norm_in H; try discriminate H.
  all: try match type of W with wf_node (NIf ?c ?w) = true => pose proof (wf_if_len c w W) end.
  all: try match type of W with wf_node (NCycle _ ?args _ _) = true =>
         assert (Wi : forall k, wf_expr (nth k args (EBool false)) = true)
           by (intro k; apply forallb_nth; [exact W|reflexivity]) end.
  all: steps H.
  all: prep; cyc_item; kill.
Qed.

Lemma g_exec_node : forall st n o st', good st -> wf_node n = true -> exec_node (S f) st n = (o, Ok st') -> good st'.
Proof.
  intros st n o st' G W H. destruct n.
  (* with / for / include give the whole stack back (C12) *)
  all: try solve [refine (proj1 (good_eq st st' _ G));
                  first [ eapply tie_with_restores; exact H | eapply tie_for_restores; exact H
                        | eapply tie_include_restores; exact H ]].
  all: rewrite exec_node_S in H; norm_in H; try discriminate H.
  all: try match type of W with wf_node (NIf ?c ?w) = true => pose proof (wf_if_len c w W) end.
  all: try match type of W with wf_node (NCycle _ ?args _ _) = true =>
         assert (Wi : forall k, wf_expr (nth k args (EBool false)) = true)
           by (intro k; apply forallb_nth; [exact W|reflexivity]) end.
  all: steps H.
  all: try solve [prep; cyc_item; sgood].
  all: prep; eapply IG_exec_if; [ | | | | eassumption]; [sgood|swfb|swfb|sidx].
Qed.
End Step.

(* ---------- all the clauses, by induction on the fuel ---------- *)
Definition np_inv (f : nat) : Prop :=
  (forall st e s, good st -> wf_expr e = true -> eval f st e = Panic s -> False) /\
  (forall st es s, good st -> forallb wf_expr es = true -> eval_list f st es = Panic s -> False) /\
  (forall st v c s, good st -> forallb wf_fcall c = true -> apply_chain f st v c = Panic s -> False) /\
  (forall st ps s, good st -> wf_expr (EVar ps) = true -> resolve f st ps = Panic s -> False) /\
  (forall st c sf ps s, good st -> forallb wf_part ps = true -> walk f st c sf ps = Panic s -> False) /\
  (forall st m i a s, good st -> wf_macro m = true -> (i <= cur_index st)%nat ->
     call_macro f st m i a = Panic s -> False) /\
  (forall st ps s, good st -> wf_oparams ps = true -> macro_defaults f st ps = Panic s -> False) /\
  (forall st i w s, good st -> (i <= cur_index st)%nat ->
     forallb (forallb wf_node) w = true -> call_super f st i w = Panic s -> False) /\
  (forall st ps s, good st -> wf_pairs ps = true -> eval_pairs f st ps = Panic s -> False) /\
  (forall st v c s, good st -> wf_oparams c = true -> apply_tag_chain f st v c = Panic s -> False) /\
  (forall st ns o s, good st -> forallb wf_node ns = true -> exec_nodes f st ns = (o, Panic s) -> False) /\
  (forall st n o s, good st -> wf_node n = true -> exec_node f st n = (o, Panic s) -> False) /\
  (forall st c w i o s, good st -> forallb wf_expr c = true -> forallb (forallb wf_node) w = true ->
     (length c <= length w)%nat -> exec_if f st c w i = (o, Panic s) -> False) /\
  (forall st k v p b it i c o s, good st -> forallb wf_node b = true ->
     exec_for f st k v p b it i c = (o, Panic s) -> False) /\
  (forall st a o s, good st -> forallb wf_expr a = true -> exec_firstof f st a = (o, Panic s) -> False) /\
  (forall st t c o s, wf_state st -> wf_template t = true ->
     wf_ctx (length (ms_frames st)) c -> exec_template f st t c = (o, Panic s) -> False) /\
  (forall st t c o s, wf_state st -> wf_template t = true ->
     wf_ctx (length (ms_frames st)) c -> exec_template_unbuffered f st t c = (o, Panic s) -> False) /\
  (forall st ns o st', good st -> forallb wf_node ns = true -> exec_nodes f st ns = (o, Ok st') -> good st') /\
  (forall st n o st', good st -> wf_node n = true -> exec_node f st n = (o, Ok st') -> good st') /\
  (forall st c w i o st', good st -> forallb wf_expr c = true -> forallb (forallb wf_node) w = true ->
     (length c <= length w)%nat -> exec_if f st c w i = (o, Ok st') -> good st') /\
  (forall st k v p b it i c o st', good st -> forallb wf_node b = true ->
     exec_for f st k v p b it i c = (o, Ok st') -> good st') /\
  (forall st a o st', good st -> forallb wf_expr a = true -> exec_firstof f st a = (o, Ok st') -> good st').

Lemma np_inv_all : forall f, np_inv f.
Proof.
  induction f as [|f IH].
  - unfold np_inv. repeat match goal with |- _ /\ _ => split end; intros.
    all: match goal with H : _ = Panic _ |- _ => revert H | H : _ = (_, _) |- _ => revert H end.
    all: first [ rewrite eval_0 | rewrite eval_list_0 | rewrite apply_chain_0 | rewrite resolve_0
               | rewrite walk_0 | rewrite call_macro_0 | rewrite macro_defaults_0 | rewrite call_super_0
               | rewrite eval_pairs_0 | rewrite apply_tag_chain_0 | rewrite exec_nodes_0
               | rewrite exec_node_0 | rewrite exec_if_0 | rewrite exec_for_0 | rewrite exec_firstof_0
               | rewrite exec_template_0 | rewrite exec_template_unbuffered_0 ].
    all: discriminate.
  - destruct IH as (I1 & I2 & I3 & I4 & I5 & I6 & I7 & I8 & I9 & I10 & I11 & I12 & I13 & I14 & I15
                    & I16 & I17 & G1 & G2 & G3 & G4 & G5).
    unfold np_inv. repeat match goal with |- _ /\ _ => split end.
    + apply np_eval; assumption.
    + apply np_eval_list; assumption.
    + apply np_apply_chain; assumption.
    + apply np_resolve; assumption.
    + apply np_walk; assumption.
    + apply np_call_macro; assumption.
    + apply np_macro_defaults; assumption.
    + apply np_call_super; assumption.
    + apply np_eval_pairs; assumption.
    + apply np_apply_tag_chain; assumption.
    + apply np_exec_nodes; assumption.
    + apply np_exec_node; assumption.
    + apply np_exec_if; assumption.
    + apply np_exec_for; assumption.
    + apply np_exec_firstof; assumption.
    + apply np_exec_template; assumption.
    + apply np_exec_template_unbuffered; assumption.
    + apply g_exec_nodes; assumption.
    + apply g_exec_node; assumption.
    + apply g_exec_if; assumption.
    + apply g_exec_for; assumption.
    + apply g_exec_firstof; assumption.
Qed.

(* ---------- the statements ---------- *)
Lemma pair_panic : forall (x : xres) s, snd x = Panic s -> exists o, x = (o, Panic s).
Proof. intros [o r] s H. simpl in H. subst r. exists o. reflexivity. Qed.

(* from any well-formed stack, with any well-formed context for the new execution *)
Lemma exec_template_np : forall f st t ctx site, wf_state st -> wf_template t = true ->
  wf_ctx (length (ms_frames st)) ctx ->
  snd (exec_template f st t ctx) <> Panic site /\ snd (exec_template_unbuffered f st t ctx) <> Panic site.
Proof.
  intros f st t ctx site G W Hc.
  destruct (np_inv_all f) as (_ & _ & _ & _ & _ & _ & _ & _ & _ & _ & _ & _ & _ & _ & _ & I16 & I17 & _).
  split; intro H; apply pair_panic in H; destruct H as (o & H); eauto.
Qed.

Lemma tie_exec_never_panics : forall f g t ctx site, wf_template t = true -> plain_ctx ctx ->
  snd (exec_template f (mkM [] [] g) t ctx) <> Panic site /\
  snd (exec_template_unbuffered f (mkM [] [] g) t ctx) <> Panic site.
Proof.
  intros f g t ctx site W Hc. apply exec_template_np; [exact I|exact W|apply wf_ctx_plain, Hc].
Qed.

Lemma tie_eval_never_panics : forall f st e site, good st -> wf_expr e = true -> eval f st e <> Panic site.
Proof. intros f st e site G W H. destruct (np_inv_all f) as (I1 & _). eauto. Qed.

Lemma tie_exec_nodes_never_panic : forall f st ns site, good st -> forallb wf_node ns = true ->
  snd (exec_nodes f st ns) <> Panic site.
Proof.
  intros f st ns site G W H. apply pair_panic in H. destruct H as (o & H).
  destruct (np_inv_all f) as (_ & _ & _ & _ & _ & _ & _ & _ & _ & _ & I11 & _). eauto.
Qed.

Lemma tie_exec_nodes_keep_invariant : forall f st ns o st', good st -> forallb wf_node ns = true ->
  exec_nodes f st ns = (o, Ok st') -> good st'.
Proof.
  intros f st ns o st' G W H.
  destruct (np_inv_all f) as (_ & _ & _ & _ & _ & _ & _ & _ & _ & _ & _ & _ & _ & _ & _ & _ & _ & G1 & _). eauto.
Qed.
End NoPanic.

(* ---------- an environment where the two compiler hypotheses hold outright ---------- *)
Lemma compile_file_0 : forall se path g, compile_file se 0 path g = Fuel.
Proof. reflexivity. Qed.
Lemma compile_file_S : forall se f path g, compile_file se (S f) path g =
  (do '(content, g1) <- fetch se path g; compile_src se f path false content g1).
Proof. reflexivity. Qed.
Lemma compile_file_no_loaders : forall se f path g, se_loaders se = [] ->
  compile_file se f path g = Fuel \/ compile_file se f path g = Err 4.
Proof.
  intros se [|f] path g E; [left; apply compile_file_0|right].
  rewrite compile_file_S. unfold fetch. rewrite E. reflexivity.
Qed.

Lemma tie_exec_never_panics_no_loaders : forall se globals f g t ctx site,
  se_loaders se = [] -> plain_ctx globals -> wf_template t = true -> plain_ctx ctx ->
  snd (exec_template se globals f (mkM [] [] g) t ctx) <> Panic site /\
  snd (exec_template_unbuffered se globals f (mkM [] [] g) t ctx) <> Panic site.
Proof.
  intros se globals f g t ctx site E Hg W Hc. apply tie_exec_never_panics; try assumption.
  - intros f0 name g0 t0 g' H. destruct (compile_file_no_loaders se f0 name g0 E) as [X|X]; congruence.
  - intros f0 name g0 s H. destruct (compile_file_no_loaders se f0 name g0 E) as [X|X]; congruence.
Qed.

Print Assumptions tie_exec_never_panics.
Print Assumptions tie_eval_never_panics.
Print Assumptions tie_exec_nodes_never_panic.
Print Assumptions tie_exec_nodes_keep_invariant.
Print Assumptions tie_exec_never_panics_no_loaders.
