(* Lexer composition: independent fragments lex to the concatenation of their tokens
   (C06), and inserting text in front shifts the recorded positions (C16). *)
From PV Require Import Lib.Bytes Lib.GoInt gen.Tables Model.Lexer Spec.SpecLex.
From Coq Require Import ZifyN ZifyNat ZifyBool.
Open Scope N_scope.

(* ---------- prefixes ---------- *)
Lemma is_prefix_app_self : forall (p x : str), is_prefix p (p ++ x) = true.
Proof.
  induction p as [|a p IH]; intros x; simpl; [reflexivity|].
  rewrite N.eqb_refl, IH. reflexivity.
Qed.

Lemma skipn_app_self : forall (p x : str), skipn (length p) (p ++ x) = x.
Proof. induction p as [|a p IH]; intros x; simpl; auto. Qed.

Lemma is_prefix_app_true : forall (p s x : str),
  is_prefix p s = true -> is_prefix p (s ++ x) = true.
Proof.
  induction p as [|a p IH]; intros [|b s] x H; simpl in *;
    try reflexivity; try discriminate.
  apply andb_true_iff in H. destruct H as [H1 H2].
  rewrite H1, (IH _ _ H2). reflexivity.
Qed.

(* [is_prefix pat] only looks at the first [length pat] bytes *)
Lemma is_prefix_ext : forall (u pat : str) (k : nat) (y z : str),
  (length pat <= length u + k)%nat -> (k <= length y)%nat ->
  is_prefix pat (u ++ y ++ z) = is_prefix pat (u ++ firstn k y).
Proof.
  induction u as [|x u IH]; intros pat k y z H1 H2.
  - simpl app. revert k y H1 H2.
    induction pat as [|a pat IHp]; intros k y H1 H2; [reflexivity|].
    destruct k as [|k]; [simpl in H1; lia|].
    destruct y as [|b y]; [simpl in H2; lia|].
    simpl. f_equal. apply IHp; simpl in *; lia.
  - destruct pat as [|a pat]; [reflexivity|].
    simpl. f_equal. apply IH; simpl in *; lia.
Qed.

(* a mismatch that disappears when the string is extended: the string was a proper prefix *)
Lemma is_prefix_false_app : forall (pat s x : str),
  is_prefix pat s = false -> is_prefix pat (s ++ x) = true ->
  exists k, (k < length pat)%nat /\ s = firstn k pat.
Proof.
  induction pat as [|a pat IH]; intros s x H1 H2; [discriminate|].
  destruct s as [|b s].
  - exists 0%nat. split; [simpl; lia|reflexivity].
  - simpl in H1, H2. apply andb_true_iff in H2. destruct H2 as [Hab H2].
    rewrite Hab in H1. simpl in H1.
    destruct (IH s x H1 H2) as [k [Hk Hs]].
    exists (S k). split; [simpl; lia|].
    apply N.eqb_eq in Hab. subst b. simpl. f_equal. exact Hs.
Qed.

Lemma no_infix_cons : forall (pat : str) (x : N) (s : str),
  no_infix pat (x :: s) = negb (is_prefix pat (x :: s)) && no_infix pat s.
Proof. reflexivity. Qed.

(* ---------- positions ---------- *)
Lemma advs_app : forall (s t : str) (p : Z * Z), advs p (s ++ t) = advs (advs p s) t.
Proof. intros s t p. unfold advs. apply fold_left_app. Qed.

Lemma advs_cons : forall (b : N) (s : str) (p : Z * Z), advs p (b :: s) = advs (adv p b) s.
Proof. reflexivity. Qed.

Lemma advs_nonl : forall (s : str) (p : Z * Z),
  existsb (N.eqb 10) s = false -> advs p s = (fst p, snd p + zlen s)%Z.
Proof.
  induction s as [|a s IH]; intros p H.
  - destruct p as [l c]. unfold zlen. simpl. f_equal. lia.
  - cbn [existsb] in H. apply orb_false_iff in H. destruct H as [Ha Hs].
    rewrite advs_cons, (IH _ Hs). unfold adv.
    rewrite N.eqb_sym, Ha. unfold zlen. simpl fst. simpl snd. simpl length.
    f_equal. lia.
Qed.

Lemma html_tokens_eta : forall (s : str) (q : Z * Z),
  html_tokens s (fst q, snd q) = html_tokens s q.
Proof. intros [|b s] q; reflexivity. Qed.

(* ---------- one iteration of [run] ---------- *)
Definition step_char (f : nat) (verb : bool) (rest pend : str) (sl sc l c : Z)
    (acc : list token) : lexres :=
  match rest with
  | [] =>
      let acc' := flush_html pend sl sc acc in
      if verb then
        (match pend with
         | [] => LexFail (LexErr sl sc 7)
         | _ => LexFail (LexErr l c 7)
         end)
      else LexOk (rev acc')
  | b :: rest' =>
      if b =? 10 then run f verb rest' (b :: pend) sl sc (l + 1) 1 acc
      else run f verb rest' (b :: pend) sl sc l (c + 1) acc
  end.

Lemma run_S : forall f verb rest pend sl sc l c acc,
  run (S f) verb rest pend sl sc l c acc =
  if verb then
    if is_prefix s_verbatim_end rest then
      let acc' := flush_html pend sl sc acc in
      let w := zlen s_verbatim_end in
      run f false (skipn (length s_verbatim_end) rest) [] l (c + w) l (c + w) acc'
    else step_char f verb rest pend sl sc l c acc
  else if is_prefix s_verbatim_start rest then
    let acc' := flush_html pend sl sc acc in
    let w := zlen s_verbatim_start in
    run f true (skipn (length s_verbatim_start) rest) [] l (c + w) l (c + w) acc'
  else if is_prefix s_comment_open rest then
    let acc' := flush_html pend sl sc acc in
    let '(el, ec) := match pend with [] => (sl, sc) | _ => (l, c) end in
    match comment_go (skipn 2 rest) (c + 2) with
    | CEof => LexFail (LexErr el ec 1)
    | CNewline => LexFail (LexErr el ec 2)
    | CDone r c' => run f false r [] l c' l c' acc'
    end
  else if is_prefix s_var_open rest || is_prefix s_tag_open rest then
    let acc' := flush_html pend sl sc acc in
    match code_go (length rest + 1) rest l c acc' with
    | CodeFuel => LexFuel
    | CodeErr e _ => LexFail e
    | CodeOk r c' acc'' => run f false r [] l c' l c' acc''
    end
  else step_char f verb rest pend sl sc l c acc.
Proof. intros. reflexivity. Qed.

Lemma step_char_cons : forall f verb b r pend sl sc p acc,
  step_char f verb (b :: r) pend sl sc (fst p) (snd p) acc =
  run f verb r (b :: pend) sl sc (fst (adv p b)) (snd (adv p b)) acc.
Proof.
  intros. unfold step_char, adv. destruct (b =? 10); reflexivity.
Qed.

Lemma flush_rev : forall (b : str) (l c : Z) (acc : list token),
  rev (flush_html (rev b) l c acc) = rev acc ++ html_tokens b (l, c).
Proof.
  intros b l c acc. destruct b as [|x b].
  - simpl. rewrite app_nil_r. reflexivity.
  - destruct (rev (x :: b)) as [|y r] eqn:E.
    + apply (f_equal (@rev N)) in E. rewrite rev_involutive in E. discriminate.
    + unfold flush_html. rewrite <- E, rev_involutive. reflexivity.
Qed.

(* ---------- text ---------- *)
Definition nodelim (rest : str) : Prop :=
  is_prefix s_verbatim_start rest = false /\ is_prefix s_comment_open rest = false /\
  is_prefix s_var_open rest = false /\ is_prefix s_tag_open rest = false.

Lemma run_plain : forall f b r pend sl sc p acc, nodelim (b :: r) ->
  run (S f) false (b :: r) pend sl sc (fst p) (snd p) acc =
  run f false r (b :: pend) sl sc (fst (adv p b)) (snd (adv p b)) acc.
Proof.
  intros f b r pend sl sc p acc [H1 [H2 [H3 H4]]].
  rewrite run_S, H1, H2, H3, H4. cbv beta iota delta [orb].
  apply step_char_cons.
Qed.

Lemma df_nodelim : forall (b : N) (u nxt : str),
  delim_free ((b :: u) ++ firstn 1 nxt) = true ->
  nodelim ((b :: u) ++ nxt) /\ delim_free (u ++ firstn 1 nxt) = true.
Proof.
  intros b u nxt H.
  change ((b :: u) ++ firstn 1 nxt) with (b :: (u ++ firstn 1 nxt)) in H.
  cbn [delim_free] in H. apply andb_true_iff in H. destruct H as [H1 H2].
  split; [|exact H2]. clear H2.
  unfold nodelim, s_verbatim_start, s_comment_open, s_var_open, s_tag_open.
  change ((b :: u) ++ nxt) with (b :: (u ++ nxt)).
  cbn [is_prefix].
  destruct (N.eqb_spec 123 b) as [Hb|Hb].
  - subst b. rewrite N.eqb_refl in H1.
    destruct u as [|d u].
    + destruct nxt as [|d nxt]; [repeat split; reflexivity|].
      cbn [app firstn] in *. rewrite !(N.eqb_sym d) in H1.
      destruct (123 =? d), (37 =? d), (35 =? d); simpl in *;
        try discriminate; repeat split; reflexivity.
    + cbn [app firstn] in *. rewrite !(N.eqb_sym d) in H1.
      destruct (123 =? d), (37 =? d), (35 =? d); simpl in *;
        try discriminate; repeat split; reflexivity.
  - repeat split; reflexivity.
Qed.

Lemma run_text : forall (t nxt : str), delim_free (t ++ firstn 1 nxt) = true ->
  forall f pend sl sc p acc, (length (t ++ nxt) < f)%nat ->
  run f false (t ++ nxt) pend sl sc (fst p) (snd p) acc =
  run (f - length t) false nxt (rev t ++ pend) sl sc
      (fst (advs p t)) (snd (advs p t)) acc.
Proof.
  induction t as [|b t IH]; intros nxt Hq f pend sl sc p acc Hf.
  - simpl. rewrite Nat.sub_0_r. reflexivity.
  - destruct (df_nodelim b t nxt Hq) as [Hn Hd].
    destruct f as [|f]; [cbn [length] in Hf; lia|].
    change ((b :: t) ++ nxt) with (b :: (t ++ nxt)) in *.
    rewrite (run_plain f b (t ++ nxt) pend sl sc p acc Hn).
    rewrite (IH nxt Hd f (b :: pend) sl sc (adv p b) acc) by (cbn [length] in Hf; lia).
    rewrite advs_cons. simpl length. simpl Nat.sub. simpl rev.
    rewrite <- app_assoc. reflexivity.
Qed.

(* ---------- verbatim ---------- *)
Lemma run_verb_start : forall f nxt pend sl sc p acc,
  run (S f) false (s_verbatim_start ++ nxt) pend sl sc (fst p) (snd p) acc =
  run f true nxt []
      (fst (advs p s_verbatim_start)) (snd (advs p s_verbatim_start))
      (fst (advs p s_verbatim_start)) (snd (advs p s_verbatim_start))
      (flush_html pend sl sc acc).
Proof.
  intros. rewrite run_S, is_prefix_app_self. cbv zeta.
  rewrite skipn_app_self, (advs_nonl s_verbatim_start p) by reflexivity.
  reflexivity.
Qed.

Lemma run_verb_end : forall f nxt pend sl sc p acc,
  run (S f) true (s_verbatim_end ++ nxt) pend sl sc (fst p) (snd p) acc =
  run f false nxt []
      (fst (advs p s_verbatim_end)) (snd (advs p s_verbatim_end))
      (fst (advs p s_verbatim_end)) (snd (advs p s_verbatim_end))
      (flush_html pend sl sc acc).
Proof.
  intros. rewrite run_S, is_prefix_app_self. cbv zeta.
  rewrite skipn_app_self, (advs_nonl s_verbatim_end p) by reflexivity.
  reflexivity.
Qed.

Lemma run_verb_body : forall (b nxt : str),
  no_infix s_verbatim_end (b ++ firstn 16 s_verbatim_end) = true ->
  forall f pend sl sc p acc, (length (b ++ s_verbatim_end ++ nxt) < f)%nat ->
  run f true (b ++ s_verbatim_end ++ nxt) pend sl sc (fst p) (snd p) acc =
  run (f - length b) true (s_verbatim_end ++ nxt) (rev b ++ pend) sl sc
      (fst (advs p b)) (snd (advs p b)) acc.
Proof.
  induction b as [|x b IH]; intros nxt Hq f pend sl sc p acc Hf.
  - simpl. rewrite Nat.sub_0_r. reflexivity.
  - change ((x :: b) ++ firstn 16 s_verbatim_end)
      with (x :: (b ++ firstn 16 s_verbatim_end)) in Hq.
    rewrite no_infix_cons in Hq. apply andb_true_iff in Hq. destruct Hq as [Hx Hq].
    apply negb_true_iff in Hx.
    assert (Hp : is_prefix s_verbatim_end ((x :: b) ++ s_verbatim_end ++ nxt) = false).
    { rewrite (is_prefix_ext (x :: b) s_verbatim_end 16 s_verbatim_end nxt).
      - exact Hx.
      - simpl. lia.
      - simpl. lia. }
    destruct f as [|f]; [cbn [length] in Hf; lia|].
    rewrite run_S, Hp. cbv beta iota.
    change ((x :: b) ++ s_verbatim_end ++ nxt) with (x :: (b ++ s_verbatim_end ++ nxt)) in *.
    rewrite step_char_cons.
    rewrite (IH nxt Hq f (x :: pend) sl sc (adv p x) acc) by (cbn [length] in Hf; lia).
    rewrite advs_cons. simpl length. simpl Nat.sub. simpl rev.
    rewrite <- app_assoc. reflexivity.
Qed.

(* ---------- comments ---------- *)
Lemma comment_go_ok : forall (c nxt : str) (col : Z),
  existsb (N.eqb 10) c = false -> no_infix s_comment_close (c ++ [35]) = true ->
  comment_go (c ++ s_comment_close ++ nxt) col = CDone nxt (col + zlen c + 2)%Z.
Proof.
  induction c as [|x c IH]; intros nxt col Hnl Hq.
  - simpl. f_equal. unfold zlen. simpl. lia.
  - cbn [existsb] in Hnl. apply orb_false_iff in Hnl. destruct Hnl as [Hx Hnl].
    change ((x :: c) ++ [35]) with (x :: (c ++ [35])) in Hq.
    rewrite no_infix_cons in Hq. apply andb_true_iff in Hq. destruct Hq as [Hp Hq].
    apply negb_true_iff in Hp.
    assert (Hp' : is_prefix s_comment_close ((x :: c) ++ s_comment_close ++ nxt) = false).
    { rewrite (is_prefix_ext (x :: c) s_comment_close 1 s_comment_close nxt).
      - exact Hp.
      - simpl. lia.
      - simpl. lia. }
    change ((x :: c) ++ s_comment_close ++ nxt) with (x :: (c ++ s_comment_close ++ nxt)) in *.
    cbn [comment_go]. rewrite N.eqb_sym, Hx, Hp'.
    rewrite (IH nxt (col + 1)%Z Hnl Hq). f_equal. unfold zlen. simpl length. lia.
Qed.

Lemma run_comment : forall f (c nxt : str) pend sl sc p acc,
  existsb (N.eqb 10) c = false -> no_infix s_comment_close (c ++ [35]) = true ->
  run (S f) false (s_comment_open ++ c ++ s_comment_close ++ nxt) pend sl sc (fst p) (snd p) acc =
  run f false nxt []
      (fst (advs p (s_comment_open ++ c ++ s_comment_close)))
      (snd (advs p (s_comment_open ++ c ++ s_comment_close)))
      (fst (advs p (s_comment_open ++ c ++ s_comment_close)))
      (snd (advs p (s_comment_open ++ c ++ s_comment_close)))
      (flush_html pend sl sc acc).
Proof.
  intros f c nxt pend sl sc p acc Hnl Hq.
  rewrite run_S.
  assert (Hv : is_prefix s_verbatim_start (s_comment_open ++ c ++ s_comment_close ++ nxt) = false)
    by reflexivity.
  rewrite Hv, is_prefix_app_self. cbv zeta.
  change 2%nat with (length s_comment_open). rewrite skipn_app_self.
  rewrite (comment_go_ok c nxt _ Hnl Hq).
  assert (Hp : advs p (s_comment_open ++ c ++ s_comment_close) =
               (fst p, snd p + 2 + zlen c + 2)%Z).
  { rewrite advs_nonl.
    - f_equal. unfold zlen. rewrite !app_length. simpl length. lia.
    - rewrite !existsb_app, Hnl. reflexivity. }
  rewrite Hp. destruct pend; reflexivity.
Qed.

(* ---------- code ---------- *)
(* A construct cannot be a proper prefix of "{% verbatim %}": the tokenizer would read on.
   The finite check is discharged by computation in Tie/. *)
Definition code_rest_is (r : code_res) (x : str) : bool :=
  match r with CodeOk r' _ _ => str_eqb r' x | _ => false end.
Definition verb_prefix_check : bool :=
  forallb (fun k => negb (code_rest_is
                            (code_go 20 (firstn k s_verbatim_start ++ [120]) 1 1 []) [120]))
          (seq 0 (length s_verbatim_start)).

Lemma code_not_verbatim : forall src toks nxt, verb_prefix_check = true ->
  code_ok src toks -> is_prefix s_verbatim_start (src ++ nxt) = false.
Proof.
  intros src toks nxt Hchk [_ [_ [Hv [_ Hgo]]]].
  destruct (is_prefix s_verbatim_start (src ++ nxt)) eqn:E; [|reflexivity].
  exfalso.
  destruct (is_prefix_false_app _ _ _ Hv E) as [k [Hk Hs]].
  unfold verb_prefix_check in Hchk. rewrite forallb_forall in Hchk.
  assert (Hin : In k (seq 0 (length s_verbatim_start))) by (apply in_seq; lia).
  specialize (Hchk k Hin). rewrite <- Hs in Hchk.
  assert (Hlen : (length src < 20)%nat).
  { rewrite Hs, firstn_length. simpl length in *. lia. }
  rewrite (Hgo [120] 1%Z 1%Z [] 20%nat Hlen) in Hchk.
  discriminate.
Qed.

Lemma run_code : forall f src toks nxt pend sl sc p acc, verb_prefix_check = true ->
  code_ok src toks ->
  run (S f) false (src ++ nxt) pend sl sc (fst p) (snd p) acc =
  run f false nxt []
      (fst (advs p src)) (snd (advs p src)) (fst (advs p src)) (snd (advs p src))
      (rev (toks (fst p) (snd p)) ++ flush_html pend sl sc acc).
Proof.
  intros f src toks nxt pend sl sc p acc Hchk Hok.
  pose proof (code_not_verbatim src toks nxt Hchk Hok) as Hv.
  destruct Hok as [_ [Hopen [_ [Hnl Hgo]]]].
  assert (Hc : is_prefix s_comment_open (src ++ nxt) = false).
  { unfold s_var_open, s_tag_open, s_comment_open in *.
    destruct src as [|a [|b src]]; cbn [is_prefix app] in *.
    - destruct Hopen; discriminate.
    - destruct Hopen as [H|H]; rewrite andb_false_r in H; discriminate.
    - destruct Hopen as [H|H]; apply andb_true_iff in H; destruct H as [_ H];
        apply andb_true_iff in H; destruct H as [Hb _];
        apply N.eqb_eq in Hb; subst b; destruct (123 =? a); reflexivity. }
  assert (Ho : is_prefix s_var_open (src ++ nxt) || is_prefix s_tag_open (src ++ nxt) = true).
  { destruct Hopen as [H|H]; rewrite (is_prefix_app_true _ _ nxt H);
      [reflexivity|apply orb_true_r]. }
  rewrite run_S, Hv, Hc, Ho. cbv zeta.
  rewrite Hgo by (rewrite app_length; lia).
  rewrite (advs_nonl src p Hnl). reflexivity.
Qed.

(* ---------- composition ---------- *)
Definition not_text_head (l : list frag) : Prop :=
  match l with FText _ :: _ => False | _ => True end.

Lemma run_frags : verb_prefix_check = true ->
  forall l, frags_ok l ->
  forall f pend sl sc p acc,
  (length (frags_src l) < f)%nat ->
  (pend = [] -> (sl, sc) = p) ->
  (pend <> [] -> not_text_head l) ->
  run f false (frags_src l) pend sl sc (fst p) (snd p) acc =
  LexOk (rev (flush_html pend sl sc acc) ++ frags_toks l p).
Proof.
  intros Hchk.
  induction l as [|fr l IH]; intros Hok f pend sl sc p acc Hf Hi Hnt.
  - destruct f as [|f]; [cbn [length] in Hf; lia|].
    simpl frags_src. rewrite run_S. cbv beta iota delta [is_prefix s_verbatim_start
      s_comment_open s_var_open s_tag_open orb step_char].
    cbn [frags_toks frag_src]. rewrite app_nil_r. reflexivity.
  - destruct Hok as [Hfr [Hok Hadj]].
    change (frags_src (fr :: l)) with (frag_src fr ++ frags_src l) in *.
    rewrite app_length in Hf.
    destruct fr as [t|b|c|src toks].
    + (* text *)
      cbn [frag_src] in *. destruct Hfr as [Hne Hq].
      destruct pend as [|x pend].
      2:{ exfalso. assert (Hx : x :: pend <> []) by discriminate. exact (Hnt Hx). }
      specialize (Hi eq_refl). subst p.
      rewrite (run_text t (frags_src l) Hq f [] sl sc (sl, sc) acc)
        by (rewrite app_length; lia).
      rewrite app_nil_r.
      rewrite (IH Hok (f - length t)%nat (rev t) sl sc (advs (sl, sc) t) acc).
      * rewrite flush_rev. simpl. rewrite <- app_assoc. reflexivity.
      * lia.
      * intros E. apply (f_equal (@rev N)) in E. rewrite rev_involutive in E.
        simpl in E. congruence.
      * intros _. destruct l as [|[ | | | ] l]; simpl; auto.
    + (* verbatim *)
      cbn [frag_src] in *. simpl in Hfr.
      rewrite !app_length in Hf.
      change (length s_verbatim_start) with 14%nat in Hf.
      change (length s_verbatim_end) with 17%nat in Hf.
      destruct f as [|f]; [lia|].
      rewrite <- !app_assoc.
      rewrite run_verb_start.
      set (q1 := advs p s_verbatim_start).
      rewrite (run_verb_body b (frags_src l) Hfr f [] (fst q1) (snd q1) q1)
        by (rewrite !app_length; change (length s_verbatim_end) with 17%nat; lia).
      rewrite app_nil_r.
      set (q2 := advs q1 b).
      destruct (f - length b)%nat as [|g] eqn:Eg; [lia|].
      rewrite run_verb_end.
      set (q3 := advs q2 s_verbatim_end).
      rewrite (IH Hok g [] (fst q3) (snd q3) q3).
      * cbn [flush_html]. rewrite flush_rev, html_tokens_eta.
        cbn [frags_toks frag_src].
        replace (advs p (s_verbatim_start ++ b ++ s_verbatim_end)) with q3
          by (unfold q3, q2, q1; rewrite !advs_app; reflexivity).
        rewrite <- app_assoc. reflexivity.
      * lia.
      * intros _. destruct q3; reflexivity.
      * intros E. congruence.
    + (* comment *)
      cbn [frag_src] in *. destruct Hfr as [Hnl Hq].
      destruct f as [|f]; [lia|].
      rewrite !app_length in Hf.
      rewrite <- !app_assoc.
      rewrite (run_comment f c (frags_src l) pend sl sc p acc Hnl Hq).
      set (q := advs p (s_comment_open ++ c ++ s_comment_close)).
      rewrite (IH Hok f [] (fst q) (snd q) q).
      * reflexivity.
      * simpl length in Hf. lia.
      * intros _. destruct q; reflexivity.
      * intros E. congruence.
    + (* code *)
      cbn [frag_src] in *. simpl in Hfr.
      destruct f as [|f]; [lia|].
      rewrite (run_code f src toks (frags_src l) pend sl sc p acc Hchk Hfr).
      set (q := advs p src).
      rewrite (IH Hok f [] (fst q) (snd q) q).
      * cbn [flush_html]. cbn [frags_toks frag_src].
        rewrite rev_app_distr, rev_involutive, <- app_assoc. reflexivity.
      * destruct Hfr as [_ [Hopen _]].
        assert (length src <> 0)%nat
          by (destruct src; [destruct Hopen; discriminate|simpl; lia]).
        lia.
      * intros _. destruct q; reflexivity.
      * intros E. congruence.
Qed.

Lemma lex_compose : verb_prefix_check = true -> forall l : list frag,
  frags_ok l -> lex (frags_src l) = LexOk (frags_toks l (1, 1)%Z).
Proof.
  intros Hchk l Hok. unfold lex, lex_fuel.
  change (run (length (frags_src l) + 2) false (frags_src l) [] 1 1 1 1 [])
    with (run (length (frags_src l) + 2) false (frags_src l) [] 1 1
              (fst (1, 1)%Z) (snd (1, 1)%Z) []).
  rewrite (run_frags Hchk l Hok (length (frags_src l) + 2) [] 1%Z 1%Z (1, 1)%Z []).
  - reflexivity.
  - lia.
  - reflexivity.
  - intros E. congruence.
Qed.

(* ---------- shifting ---------- *)
Definition shiftpos (p q : Z * Z) : Z * Z :=
  (fst q + fst p - 1, if (fst q =? 1)%Z then snd q + snd p - 1 else snd q)%Z.

Lemma shiftpos_adv : forall (p q : Z * Z) (b : N), (1 <= fst q)%Z ->
  shiftpos p (adv q b) = adv (shiftpos p q) b /\ (1 <= fst (adv q b))%Z.
Proof.
  intros p q b Hq. unfold shiftpos, adv.
  destruct (b =? 10); simpl fst; simpl snd.
  - split; [|lia].
    destruct (Z.eqb_spec (fst q + 1) 1); [lia|]. f_equal. lia.
  - split; [|lia].
    destruct (Z.eqb_spec (fst q) 1); f_equal; lia.
Qed.

Lemma shiftpos_advs : forall (s : str) (p q : Z * Z), (1 <= fst q)%Z ->
  shiftpos p (advs q s) = advs (shiftpos p q) s /\ (1 <= fst (advs q s))%Z.
Proof.
  induction s as [|b s IH]; intros p q Hq.
  - split; [reflexivity|exact Hq].
  - rewrite !advs_cons. destruct (shiftpos_adv p q b Hq) as [H1 H2].
    rewrite <- H1. apply IH. exact H2.
Qed.

Lemma html_tokens_shift : forall (s : str) (p q : Z * Z),
  html_tokens s (shiftpos p q) = map (shift_tok p) (html_tokens s q).
Proof. intros [|b s] p q; reflexivity. Qed.

Lemma reloc_shift : forall (p q : Z * Z) (t : token),
  reloc (fst (shiftpos p q)) (snd (shiftpos p q)) t =
  shift_tok p (reloc (fst q) (snd q) t).
Proof.
  intros p q t. unfold reloc, shift_tok, shiftpos. simpl.
  destruct (Z.eqb_spec (fst q) 1); f_equal; lia.
Qed.

Lemma frags_toks_shift : forall (p : Z * Z) (l : list frag), frags_ok l ->
  forall q, (1 <= fst q)%Z ->
  frags_toks l (shiftpos p q) = map (shift_tok p) (frags_toks l q).
Proof.
  intros p. induction l as [|fr l IH]; intros Hok q Hq; [reflexivity|].
  destruct Hok as [Hfr [Hok _]].
  cbn [frags_toks].
  destruct (shiftpos_advs (frag_src fr) p q Hq) as [H1 H2].
  rewrite <- H1, (IH Hok _ H2).
  destruct fr as [t|b|c|src toks]; rewrite ?map_app.
  - rewrite html_tokens_shift. reflexivity.
  - destruct (shiftpos_advs s_verbatim_start p q Hq) as [H3 _].
    rewrite <- H3, html_tokens_shift. reflexivity.
  - reflexivity.
  - f_equal. destruct Hfr as [Hrel _].
    rewrite (Hrel (fst (shiftpos p q)) (snd (shiftpos p q))), (Hrel (fst q) (snd q)).
    rewrite map_map. apply map_ext. intros t. apply reloc_shift.
Qed.

Lemma insert_shifts : verb_prefix_check = true -> forall (pre : str) (l : list frag),
  frags_ok (FText pre :: l) ->
  lex (frags_src l) = LexOk (frags_toks l (1, 1)%Z) /\
  lex (pre ++ frags_src l) =
    LexOk (html_tokens pre (1, 1)%Z ++
           map (shift_tok (advs (1, 1)%Z pre)) (frags_toks l (1, 1)%Z)).
Proof.
  intros Hchk pre l Hok. split.
  - apply (lex_compose Hchk). destruct Hok as [_ [Hok _]]. exact Hok.
  - change (pre ++ frags_src l) with (frags_src (FText pre :: l)).
    rewrite (lex_compose Hchk _ Hok). cbn [frags_toks frag_src].
    destruct Hok as [_ [Hok _]].
    rewrite <- (frags_toks_shift (advs (1, 1)%Z pre) l Hok (1, 1)%Z) by (simpl; lia).
    unfold shiftpos. simpl fst. simpl snd.
    destruct (advs (1, 1)%Z pre) as [a b]. simpl fst. simpl snd.
    change (1 =? 1)%Z with true. cbv iota.
    replace (1 + a - 1)%Z with a by lia. replace (1 + b - 1)%Z with b by lia.
    reflexivity.
Qed.
