(* Frame discipline of the execution model (property C12): evaluation leaves the frame stack
   exactly as it was; executing nodes only touches the current frame's private bindings. *)
From Coq Require Import List NArith ZArith Bool Lia Arith.
From PV Require Import Model.Exec Spec.SpecFrames.
From PV Require Import gen.Tables.
Import ListNotations.
Open Scope N_scope.

Section Frames.
Variable se : senv.
Variable globals : list (str * cval).

Local Notation root_frame := (PV.Model.Exec.root_frame globals).
Local Notation apply_filter_se := (PV.Model.Exec.apply_filter_se se).
Local Notation eval := (PV.Model.Exec.eval se globals).
Local Notation eval_list := (PV.Model.Exec.eval_list se globals).
Local Notation apply_chain := (PV.Model.Exec.apply_chain se globals).
Local Notation resolve := (PV.Model.Exec.resolve se globals).
Local Notation walk := (PV.Model.Exec.walk se globals).
Local Notation call_macro := (PV.Model.Exec.call_macro se globals).
Local Notation macro_defaults := (PV.Model.Exec.macro_defaults se globals).
Local Notation call_super := (PV.Model.Exec.call_super se globals).
Local Notation exec_nodes := (PV.Model.Exec.exec_nodes se globals).
Local Notation exec_node := (PV.Model.Exec.exec_node se globals).
Local Notation exec_if := (PV.Model.Exec.exec_if se globals).
Local Notation exec_for := (PV.Model.Exec.exec_for se globals).
Local Notation exec_firstof := (PV.Model.Exec.exec_firstof se globals).
Local Notation eval_pairs := (PV.Model.Exec.eval_pairs se globals).
Local Notation apply_tag_chain := (PV.Model.Exec.apply_tag_chain se globals).
Local Notation exec_template := (PV.Model.Exec.exec_template se globals).
Local Notation exec_template_unbuffered := (PV.Model.Exec.exec_template_unbuffered se globals).

(* ---------- one-step unfolding equations of the mutual fixpoint ----------
   The right-hand sides are the bodies of Model/Exec.v, verbatim; each equation holds by
   computation.  The proofs below only ever rewrite with these, the fixpoint itself is
   never reduced by simpl/cbn. *)
Lemma eval_0 : forall (st : mstate) (e : expr), eval 0 st e = Fuel.
Proof. reflexivity. Qed.

Lemma eval_S : forall (f : nat) (st : mstate) (e : expr), eval (S f) st e =

        match e with
        | EInt z => Ok (as_value (VInt z), st)
        | EFloat x => Ok (as_value (VFloat x), st)
        | EStr s => Ok (as_value (VStr s), st)
        | EBool b => Ok (as_value (VBool b), st)
        | EArray items =>
            do '(vs, st1) <- eval_list f st items;
            Ok (as_value (VList (map vv vs)), st1)
        | EVar parts => resolve f st parts
        | EFilt e0 chain =>
            do '(v, st1) <- eval f st e0;
            apply_chain f st1 v chain
        | EPow a b =>
            do '(x, st1) <- eval f st a;
            do '(y, st2) <- eval f st1 b;
            do fx <- float_of x; do fy <- float_of y;
            do r <- of_opt (f_pow fx fy);
            Ok (as_value (VFloat r), st2)
        | ETerm op a b =>
            do '(x, st1) <- eval f st a;
            do '(y, st2) <- eval f st1 b;
            let fl := is_float (vv x) || is_float (vv y) in
            if op =? 42 then
              if fl then do fx <- float_of x; do fy <- float_of y; Ok (as_value (VFloat (f_mul fx fy)), st2)
              else do ix <- int_of x; do iy <- int_of y; Ok (as_value (VInt (wrap64 (ix * iy))), st2)
            else if op =? 47 then
              if fl then
                do fy <- float_of y;
                if f_is_zero fy then xerr
                else do fx <- float_of x; Ok (as_value (VFloat (f_div fx fy)), st2)
              else
                do iy <- int_of y;
                if (iy =? 0)%Z then xerr
                else do ix <- int_of x; Ok (as_value (VInt (wrap64 (Z.quot ix iy))), st2)
            else
              do iy <- int_of y;
              if (iy =? 0)%Z then xerr
              else do ix <- int_of x; Ok (as_value (VInt (Z.rem ix iy)), st2)
        | ESimple negsign neg a rest =>
            do '(t1, st1) <- eval f st a;
            let r1 := if neg then as_value (negate (vv t1)) else t1 in
            do r2 <-
              (if negsign then
                 if is_number (vv r1) then
                   if is_float (vv r1) then do x <- float_of r1; Ok (as_value (VFloat (f_neg x)))
                   else do i <- int_of r1; Ok (as_value (VInt (wrap64 (- i))))
                 else xerr
               else Ok r1);
            match rest with
            | None => Ok (r2, st1)
            | Some (op, b) =>
                do '(t2, st2) <- eval f st1 b;
                if op =? 43 then
                  if is_string (vv r2) || is_string (vv t2) then
                    do s1 <- str_of r2; do s2 <- str_of t2; Ok (as_value (VStr (s1 ++ s2)), st2)
                  else if is_float (vv r2) || is_float (vv t2) then
                    do x <- float_of r2; do y <- float_of t2; Ok (as_value (VFloat (f_add x y)), st2)
                  else do x <- int_of r2; do y <- int_of t2; Ok (as_value (VInt (wrap64 (x + y))), st2)
                else
                  if is_float (vv r2) || is_float (vv t2) then
                    do x <- float_of r2; do y <- float_of t2; Ok (as_value (VFloat (f_sub x y)), st2)
                  else do x <- int_of r2; do y <- int_of t2; Ok (as_value (VInt (wrap64 (x - y))), st2)
            end
        | ERel op a b =>
            do '(x, st1) <- eval f st a;
            do '(y, st2) <- eval f st1 b;
            let fl := is_float (vv x) || is_float (vv y) in
            let cmp (fi : Z -> Z -> bool) (ff : float -> float -> bool) : res (value * mstate) :=
              if fl then do fx <- float_of x; do fy <- float_of y; Ok (as_value (VBool (ff fx fy)), st2)
              else do ix <- int_of x; do iy <- int_of y; Ok (as_value (VBool (fi ix iy)), st2) in
            match op with
            | RLe => cmp Z.leb f_leb
            | RGe => cmp (fun p q => Z.leb q p) (fun p q => f_leb q p)
            | RGt => cmp (fun p q => Z.ltb q p) (fun p q => f_ltb q p)
            | RLt => cmp Z.ltb f_ltb
            | REq => do b <- of_opt (equal_value_to (vv x) (vv y)); Ok (as_value (VBool b), st2)
            | RNe => do b <- of_opt (equal_value_to (vv x) (vv y)); Ok (as_value (VBool (negb b)), st2)
            | RIn => do b <- of_opt (val_contains (vv y) (vv x)); Ok (as_value (VBool b), st2)
            end
        | ELogic is_and a b =>
            do '(x, st1) <- eval f st a;
            if is_and then
              if negb (is_true (vv x)) then Ok (as_value (VBool false), st1)
              else do '(y, st2) <- eval f st1 b; Ok (as_value (VBool (is_true (vv y))), st2)
            else
              if is_true (vv x) then Ok (as_value (VBool true), st1)
              else do '(y, st2) <- eval f st1 b; Ok (as_value (VBool (is_true (vv y))), st2)
        end.
Proof. reflexivity. Qed.

Lemma eval_list_0 : forall (st : mstate) (es : list expr), eval_list 0 st es = Fuel.
Proof. reflexivity. Qed.

Lemma eval_list_S : forall (f : nat) (st : mstate) (es : list expr), eval_list (S f) st es =

        match es with
        | [] => Ok ([], st)
        | e :: r => do '(v, st1) <- eval f st e; do '(vs, st2) <- eval_list f st1 r; Ok (v :: vs, st2)
        end.
Proof. reflexivity. Qed.

Lemma apply_chain_0 : forall (st : mstate) (v : value) (chain : list fcall), apply_chain 0 st v chain = Fuel.
Proof. reflexivity. Qed.

Lemma apply_chain_S : forall (f : nat) (st : mstate) (v : value) (chain : list fcall), apply_chain (S f) st v chain =

        match chain with
        | [] => Ok (v, st)
        | FCall name param :: rest =>
            do '(p, st1) <- (match param with
                             | Some pe => eval f st pe
                             | None => Ok (as_value VNil, st)
                             end);
            do r <- apply_filter_se name v p;
            apply_chain f st1 r rest
        end.
Proof. reflexivity. Qed.

Lemma resolve_0 : forall (st : mstate) (parts : list part), resolve 0 st parts = Fuel.
Proof. reflexivity. Qed.

Lemma resolve_S : forall (f : nat) (st : mstate) (parts : list part), resolve (S f) st parts =

        match parts with
        | PIdent name call :: rest =>
            do fr <- top_frame st;
            let entry := match ctx_get name (f_priv fr) with
                         | Some c => Some c
                         | None => ctx_get name (f_pub fr)
                         end in
            match entry with
            | None => Ok (as_value VNil, st)          (* reflect.ValueOf(nil): invalid *)
            | Some (CV v) =>
                match vv v with
                | VNil => Ok (as_value VNil, st)
                | _ =>
                    match call with
                    | Some _ => xerr                   (* not a function *)
                    | None => walk f st (vv v) (vsafe v) rest
                    end
                end
            | Some (CMacro m fidx) =>
                do '(args, st1) <- eval_list f st (match call with Some a => a | None => [] end);
                do '(r, st2) <- call_macro f st1 m fidx args;
                walk f st2 (vv r) (vsafe r) rest
            | Some (CBlock fidx wrappers) =>
                (* only block.Super is modelled *)
                match rest with
                | [PIdent meth mcall] =>
                    if str_eqb meth [83; 117; 112; 101; 114] (* Super *) then
                      match mcall with
                      | Some (_ :: _) => xerr
                      | _ => call_super f st fidx wrappers
                      end
                    else Unmod
                | _ => Unmod
                end
            | Some (CCycle _ _ _ _) => Unmod
            end
        | _ => Panic 92     (* the parser always starts a variable with an identifier *)
        end.
Proof. reflexivity. Qed.

Lemma walk_0 : forall (st : mstate) (cur : val) (safe : bool) (parts : list part), walk 0 st cur safe parts = Fuel.
Proof. reflexivity. Qed.

Lemma walk_S : forall (f : nat) (st : mstate) (cur : val) (safe : bool) (parts : list part), walk (S f) st cur safe parts =

        match parts with
        | [] => Ok (mkV cur safe, st)
        | p :: rest =>
            let no_call (c : option (list expr)) (k : res (value * mstate)) : res (value * mstate) :=
              match c with Some _ => (match k with Ok _ => xerr | other => other end) | None => k end in
            match p with
            | PInt i call =>
                if indexable cur then
                  match index_val cur i with
                  | Some v => match v with
                              | VNil => Ok (as_value VNil, st)
                              | _ => match call with Some _ => xerr | None => walk f st v safe rest end
                              end
                  | None => Ok (as_value VNil, st)
                  end
                else xerr
            | PIdent name call =>
                match cur with
                | VStruct m | VMap m =>
                    match assoc_get name m with
                    | Some VNil | None => Ok (as_value VNil, st)
                    | Some v => match call with Some _ => xerr | None => walk f st v safe rest end
                    end
                | _ => xerr
                end
            | PSub e call =>
                match cur with
                | VStr _ | VList _ =>
                    do '(sv, st1) <- eval f st e;
                    match vv sv with
                    | VInt si =>      (* only an integer is an index (fix D38) *)
                        match index_val cur si with
                        | Some VNil | None => Ok (as_value VNil, st1)
                        | Some v => match call with Some _ => xerr | None => walk f st1 v safe rest end
                        end
                    | _ => Ok (as_value VNil, st1)
                    end
                | VStruct m =>
                    do '(sv, st1) <- eval f st e;
                    do k <- str_of sv;
                    match assoc_get k m with
                    | Some VNil | None => Ok (as_value VNil, st1)
                    | Some v => match call with Some _ => xerr | None => walk f st1 v safe rest end
                    end
                | VMap m =>
                    do '(sv, st1) <- eval f st e;
                    match vv sv with
                    | VStr k =>
                        match assoc_get k m with
                        | Some VNil | None => Ok (as_value VNil, st1)
                        | Some v => match call with Some _ => xerr | None => walk f st1 v safe rest end
                        end
                    | _ => Ok (as_value VNil, st1)     (* nil, or a key type that is not string *)
                    end
                | _ => xerr
                end
            end
        end.
Proof. reflexivity. Qed.

Lemma call_macro_0 : forall (st : mstate) (m : macro) (fidx : nat) (args : list value), call_macro 0 st m fidx args = Fuel.
Proof. reflexivity. Qed.

Lemma call_macro_S : forall (f : nat) (st : mstate) (m : macro) (fidx : nat) (args : list value), call_macro (S f) st m fidx args =

        match m with
        | Macro mname params body _ =>
            match frame_at st fidx with
            | None => Panic 93
            | Some dfr =>
                let d := (f_depth dfr + 1)%Z in
                if (max_macro_depth <? d)%Z then xerr
                else
                  let st0 := set_frame_at st fidx (with_depth dfr d) in
                  (* all defaults are evaluated in the defining context: view the stack up to that frame *)
                  let all := ms_frames st0 in
                  let nup := (length all - S fidx)%nat in
                  let st_in := mkM (skipn nup all) (ms_nodes st0) (ms_g st0) in
                  match macro_defaults f st_in params with
                  | Ok (dvals, st_d) =>
                      let st1 := mkM (firstn nup all ++ ms_frames st_d) (ms_nodes st_d) (ms_g st_d) in
                      if Nat.ltb (length params) (length args) then xerr
                      else
                        match frame_at st1 fidx with
                        | None => Panic 94
                        | Some dfr1 =>
                            let base := ctx_update (f_priv dfr1) dvals in
                            let bound := ctx_update base
                                           (map (fun pa => (fst (fst pa), CV (as_value (vv (snd pa)))))
                                                (combine params args)) in
                            let mfr := with_priv (child_of dfr1) bound in
                            match exec_nodes f (push_frame st1 mfr) body with
                            | (out, Ok st2) =>
                                let st3 := pop_frame st2 in
                                let st4 := match frame_at st3 fidx with
                                           | Some fr' => set_frame_at st3 fidx (with_depth fr' (f_depth fr' - 1))
                                           | None => st3
                                           end in
                                Ok (as_safe_value (VStr out), st4)
                            | (_, Err k) => Err 3
                            | (_, Unmod) => Unmod
                            | (_, Fuel) => Fuel
                            | (_, Panic s) => Panic s
                            end
                        end
                  | Err k => Err 3
                  | Unmod => Unmod
                  | Fuel => Fuel
                  | Panic s => Panic s
                  end
            end
        end.
Proof. reflexivity. Qed.

Lemma macro_defaults_0 : forall (st : mstate) (params : list (str * option expr)), macro_defaults 0 st params = Fuel.
Proof. reflexivity. Qed.

Lemma macro_defaults_S : forall (f : nat) (st : mstate) (params : list (str * option expr)), macro_defaults (S f) st params =

        match params with
        | [] => Ok ([], st)
        | (name, None) :: rest =>
            do '(r, st1) <- macro_defaults f st rest; Ok ((name, CV (as_value VNil)) :: r, st1)
        | (name, Some e) :: rest =>
            do '(v, st1) <- eval f st e;
            do '(r, st2) <- macro_defaults f st1 rest; Ok ((name, CV v) :: r, st2)
        end.
Proof. reflexivity. Qed.

Lemma call_super_0 : forall (st : mstate) (fidx : nat) (wrappers : list (list node)), call_super 0 st fidx wrappers = Fuel.
Proof. reflexivity. Qed.

Lemma call_super_S : forall (f : nat) (st : mstate) (fidx : nat) (wrappers : list (list node)), call_super (S f) st fidx wrappers =

        match rev wrappers with
        | [] => Ok (as_safe_value (VStr []), st)
        | last :: before_rev =>
            match frame_at st fidx with
            | None => Panic 95
            | Some bfr =>
                let sfr := with_priv (child_of bfr) (ctx_set [98; 108; 111; 99; 107] (* block *) (CBlock fidx (rev before_rev)) (f_priv bfr)) in
                match exec_nodes f (push_frame st sfr) last with
                | (out, Ok st1) => Ok (as_safe_value (VStr out), pop_frame st1)
                | (_, Err k) => Err 3
                | (_, Unmod) => Unmod
                | (_, Fuel) => Fuel
                | (_, Panic s) => Panic s
                end
            end
        end.
Proof. reflexivity. Qed.

Lemma exec_nodes_0 : forall (st : mstate) (ns : list node), exec_nodes 0 st ns = ([], Fuel).
Proof. reflexivity. Qed.

Lemma exec_nodes_S : forall (f : nat) (st : mstate) (ns : list node), exec_nodes (S f) st ns =

        match ns with
        | [] => xok [] st
        | n :: rest =>
            match exec_node f st n with
            | (o1, Ok st1) => let '(o2, r) := exec_nodes f st1 rest in (o1 ++ o2, r)
            | (o1, other) => (o1, other)
            end
        end.
Proof. reflexivity. Qed.

Lemma exec_node_0 : forall (st : mstate) (n : node), exec_node 0 st n = ([], Fuel).
Proof. reflexivity. Qed.

Lemma exec_node_S : forall (f : nat) (st : mstate) (n : node), exec_node (S f) st n =

        let ev (e : expr) (k : value -> mstate -> xres) : xres :=
          match eval f st e with
          | Ok (v, st1) => k v st1
          | other => xfail [] other
          end in
        match n with
        | NHtml owner val trimL trimR after before =>
            match top_frame st with
            | Ok fr =>
                (* the block options of the executed template rewrite its own tokens and those of
                   every template it extends (fix D42; before, only its own) *)
                let entry := last (f_chain fr) (Tpl 0 [] true [] [] [] None false false) in
                let mine := existsb (fun t => tpl_id t =? owner) (f_chain fr) in
                let v1 := if mine && tpl_lstrip entry && before
                          then rev (let fix dropws (l : str) := match l with
                                                                | b :: l' => if (b =? 9) || (b =? 32) then dropws l' else l
                                                                | [] => []
                                                                end in dropws (rev val))
                          else val in
                let v2 := if mine && tpl_trim entry && after
                          then match v1 with 10 :: r => r | _ => v1 end else v1 in
                let ws (b : N) := mem_byte b token_space_chars in
                let fix dropl (l : str) := match l with b :: l' => if ws b then dropl l' else l | [] => [] end in
                let v3 := if trimL then dropl v2 else v2 in
                let v4 := if trimR then rev (dropl (rev v3)) else v3 in
                xok v4 st
            | other => xfail [] other
            end
        | NVar e =>
            ev e (fun v st1 =>
              match top_frame st1 with
              | Ok fr =>
                  match to_string (vv v) with
                  | None => ([], Unmod)
                  | Some s =>
                      if negb (filter_applied [115; 97; 102; 101] (* safe *) e) && negb (vsafe v) && is_string (vv v) && f_auto fr
                      then xok (filter_escape s) st1 else xok s st1
                  end
              | other => xfail [] other
              end)
        | NIf conds wrappers => exec_if f st conds wrappers 0
        | NFor key value obj reversed sorted body empty =>
            match top_frame st with
            | Ok fr =>
                let parent := match ctx_get [102; 111; 114; 108; 111; 111; 112] (* forloop *) (f_priv fr) with
                              | Some (CV v) => if is_loop_struct (vv v) then vv v else VNil
                              | _ => VNil
                              end in
                let ffr := with_priv (child_of fr) (ctx_set [102; 111; 114; 108; 111; 111; 112] (* forloop *) (CV (as_value (loop_struct_empty parent))) (f_priv fr)) in
                let st0 := push_frame st ffr in
                match eval f st0 obj with
                | Ok (ov, st1) =>
                    match iter_items (vv ov) reversed sorted with
                    | Ok (Some ((_ :: _) as items)) =>
                        let '(o, r) := exec_for f st1 key value parent body items 0 (Z.of_nat (length items)) in
                        (o, match r with Ok st2 => Ok (pop_frame st2) | other => other end)
                    | Ok _ =>
                        match empty with
                        | Some eb => let '(o, r) := exec_nodes f st1 eb in
                                     (o, match r with Ok st2 => Ok (pop_frame st2) | other => other end)
                        | None => xok [] (pop_frame st1)
                        end
                    | other => xfail [] other
                    end
                | other => xfail [] other
                end
            | other => xfail [] other
            end
        | NWith pairs body =>
            match top_frame st with
            | Ok fr =>
                match eval_pairs f st pairs with
                | Ok (vals, st1) =>
                    match top_frame st1 with
                    | Ok fr1 =>
                        let wfr := with_priv (child_of fr1) (ctx_update (f_priv fr1) vals) in
                        let '(o, r) := exec_nodes f (push_frame st1 wfr) body in
                        (o, match r with Ok st2 => Ok (pop_frame st2) | other => other end)
                    | other => xfail [] other
                    end
                | other => xfail [] other
                end
            | other => xfail [] other
            end
        | NSet name e =>
            ev e (fun v st1 => match set_priv st1 name (CV v) with Ok st2 => xok [] st2 | other => xfail [] other end)
        | NMacro m =>
            match m with
            | Macro mname _ _ _ =>
                match set_priv st mname (CMacro m (cur_index st)) with Ok st1 => xok [] st1 | other => xfail [] other end
            end
        | NImport ms =>
            match top_frame st with
            | Ok fr =>
                let idx := cur_index st in
                xok [] (set_top st (with_priv fr (ctx_update (f_priv fr) (map (fun am => (fst am, CMacro (snd am) idx)) ms))))
            | other => xfail [] other
            end
        | NBlock bname =>
            match top_frame st with
            | Ok fr =>
                let ws := flat_map (fun t => match assoc_get bname (tpl_blocks t) with Some w => [w] | None => [] end) (f_chain fr) in
                match rev ws with
                | [] => ([], Err 3)
                | last :: before_rev =>
                    let outer := ctx_get [98; 108; 111; 99; 107] (* block *) (f_priv fr) in
                    match set_priv st [98; 108; 111; 99; 107] (* block *) (CBlock (cur_index st) (rev before_rev)) with
                    | Ok st1 =>
                        match exec_nodes f st1 last with
                        | (o, Ok st2) =>
                            (* the enclosing block's "block" is back afterwards *)
                            match top_frame st2 with
                            | Ok fr2 =>
                                let p := match outer with
                                         | Some v => ctx_set [98; 108; 111; 99; 107] (* block *) v (f_priv fr2)
                                         | None => ctx_del [98; 108; 111; 99; 107] (* block *) (f_priv fr2)
                                         end in
                                xok o (set_top st2 (with_priv fr2 p))
                            | other => xfail o other
                            end
                        | other => other
                        end
                    | other => xfail [] other
                    end
                end
            | other => xfail [] other
            end
        | NExtends => xok [] st
        | NIncludeEmpty => xok [] st
        | NInclude tplo fname pairs only ifexists =>
            match top_frame st with
            | Ok fr =>
                let base := if only then [] else ctx_update (f_pub fr) (f_priv fr) in
                match eval_pairs f st pairs with
                | Ok (vals, st1) =>
                    let ictx := ctx_update base vals in
                    match tplo with
                    | Some t => exec_template f st1 t ictx
                    | None =>
                        match fname with
                        | None => ([], Panic 96)
                        | Some fe =>
                            match eval f st1 fe with
                            | Ok (fv, st2) =>
                                match to_string (vv fv) with
                                | None => ([], Unmod)
                                | Some [] => ([], Err 3)
                                | Some fn =>
                                    let root := hd (Tpl 0 [] true [] [] [] None false false) (f_chain fr) in
                                    let iname := resolve_filename (tpl_is_string root) (tpl_name root) fn in
                                    match compile_file se f iname (ms_g st2) with
                                    | Ok (t, g') => exec_template f (mkM (ms_frames st2) (ms_nodes st2) g') t ictx
                                    | Err 4 =>
                                        if ifexists && negb (served (se_loaders se) iname)
                                        then xok [] (mkM (ms_frames st2) (ms_nodes st2) (log_misses (se_loaders se) iname (ms_g st2)))
                                        else ([], Err 4)
                                    | other => xfail [] other
                                    end
                                end
                            | other => xfail [] other
                            end
                        end
                    end
                | other => xfail [] other
                end
            | other => xfail [] other
            end
        | NAutoescape on body =>
            match top_frame st with
            | Ok fr =>
                let old := f_auto fr in
                match exec_nodes f (set_top st (with_auto fr on)) body with
                | (o, Ok st1) =>
                    match top_frame st1 with
                    | Ok fr1 => xok o (set_top st1 (with_auto fr1 old))
                    | other => xfail o other
                    end
                | other => other
                end
            | other => xfail [] other
            end
        | NFilterTag chain body =>
            match exec_nodes f st body with
            | (o, Ok st1) =>
                match apply_tag_chain f st1 (as_value (VStr o)) chain with
                | Ok (v, st2) => match to_string (vv v) with Some s => xok s st2 | None => ([], Unmod) end
                | Err _ => ([], Err 3)
                | other => xfail [] other
                end
            | (_, other) => ([], other)
            end
        | NFirstof args => exec_firstof f st args
        | NCycle id args asname silent =>
            match top_frame st with
            | Ok fr =>
                let idx := match ns_get (f_exec fr) id (ms_nodes st) with Some (NSCycle i) => i | _ => 0%Z end in
                let item := nth (Z.to_nat (Z.rem idx (Z.of_nat (length args)))) args (EBool false) in
                let st0 := ns_set st (f_exec fr) id (NSCycle (idx + 1)) in
                (* {% cycle name %} where name holds a cycle value advances that cycle *)
                let cyc := match item with
                           | EFilt (EVar [PIdent nm None]) [] =>
                               match ctx_get nm (f_priv fr) with
                               | Some (CCycle cid cargs csilent _) => Some (nm, cid, cargs, csilent)
                               | _ => None
                               end
                           | _ => None
                           end in
                match cyc with
                | Some (nm, cid, cargs, csilent) =>
                    let cidx := match ns_get (f_exec fr) cid (ms_nodes st0) with Some (NSCycle i) => i | _ => 0%Z end in
                    let citem := nth (Z.to_nat (Z.rem cidx (Z.of_nat (length cargs)))) cargs (EBool false) in
                    let st1 := ns_set st0 (f_exec fr) cid (NSCycle (cidx + 1)) in
                    match eval f st1 citem with
                    | Ok (v, st2) =>
                        match set_priv st2 nm (CCycle cid cargs csilent v) with
                        | Ok st3 => if csilent then xok [] st3 else cycle_out fr citem v st3
                        | other => xfail [] other
                        end
                    | other => xfail [] other
                    end
                | None =>
                    match eval f st0 item with
                    | Ok (v, st1) =>
                        match (match asname with
                               | [] => Ok st1
                               | _ => set_priv st1 asname (CCycle id args silent v)
                               end) with
                        | Ok st2 => if silent then xok [] st2 else cycle_out fr item v st2
                        | other => xfail [] other
                        end
                    | other => xfail [] other
                    end
                end
            | other => xfail [] other
            end
        | NIfchanged id watched thenb elseb =>
            match top_frame st with
            | Ok fr =>
                let prev := ns_get (f_exec fr) id (ms_nodes st) in
                match watched with
                | [] =>
                    match exec_nodes f st thenb with
                    | (o, Ok st1) =>
                        let lastc := match prev with Some (NSIfchanged _ (Some c)) => Some c | _ => None end in
                        let same := match lastc with Some c => str_eqb c o | None => Nat.eqb (length o) 0 end in
                        if same then xok [] st1
                        else xok o (ns_set st1 (f_exec fr) id (NSIfchanged [] (Some o)))
                    | (_, other) => ([], other)
                    end
                | _ =>
                    match eval_list f st watched with
                    | Ok (now, st1) =>
                        let lastv := match prev with Some (NSIfchanged l _) => l | _ => [] end in
                        match (match lastv with
                               | [] => Some true
                               | _ => fold_right (fun pr acc =>
                                                    match acc, equal_value_to (vv (fst pr)) (vv (snd pr)) with
                                                    | None, _ | _, None => None
                                                    | Some a, Some eq => Some (a || negb eq)
                                                    end) (Some false) (combine lastv now)
                               end) with
                        | None => ([], Unmod)
                        | Some changed =>
                            let st2 := ns_set st1 (f_exec fr) id (NSIfchanged now None) in
                            if changed then exec_nodes f st2 thenb
                            else match elseb with Some eb => exec_nodes f st2 eb | None => xok [] st2 end
                        end
                    | other => xfail [] other
                    end
                end
            | other => xfail [] other
            end
        | NIfequal negated a b thenb elseb =>
            ev a (fun x st1 =>
              match eval f st1 b with
              | Ok (y, st2) =>
                  match equal_value_to (vv x) (vv y) with
                  | None => ([], Unmod)
                  | Some eq =>
                      if Bool.eqb eq (negb negated) then exec_nodes f st2 thenb
                      else match elseb with Some eb => exec_nodes f st2 eb | None => xok [] st2 end
                  end
              | other => xfail [] other
              end)
        | NSpaceless body =>
            match exec_nodes f st body with
            | (o, Ok st1) => match spaceless_model o with Some s => xok s st1 | None => ([], Unmod) end
            | (_, other) => ([], other)
            end
        | NTemplatetag content => xok content st
        | NWidthratio cur mx width ctxname =>
            ev cur (fun c st1 =>
              match eval f st1 mx with
              | Ok (m, st2) =>
                  match eval f st2 width with
                  | Ok (w, st3) =>
                      match to_float (vv c), to_float (vv m), to_float (vv w) with
                      | Some fc, Some fm, Some fw =>
                          let v := if f_is_zero fm then 0%Z else f_round_to_int (f_mul (f_div fc fm) fw) in
                          match ctxname with
                          | [] => xok (itoa v) st3
                          | _ => match set_priv st3 ctxname (CV (as_value (VInt v))) with
                                 | Ok st4 => xok [] st4
                                 | other => xfail [] other
                                 end
                          end
                      | _, _, _ => ([], Unmod)
                      end
                  | other => xfail [] other
                  end
              | other => xfail [] other
              end)
        | NComment => xok [] st
        | NSsi content tplo =>
            match tplo with
            | None => xok content st
            | Some t =>
                match top_frame st with
                | Ok fr => exec_template_unbuffered f st t (ctx_update (f_pub fr) (f_priv fr))
                | other => xfail [] other
                end
            end
        | NUnmod => ([], Unmod)
        end.
Proof. reflexivity. Qed.

Lemma exec_if_0 : forall (st : mstate) (conds : list expr) (wrappers : list (list node)) (i : nat), exec_if 0 st conds wrappers i = ([], Fuel).
Proof. reflexivity. Qed.

Lemma exec_if_S : forall (f : nat) (st : mstate) (conds : list expr) (wrappers : list (list node)) (i : nat), exec_if (S f) st conds wrappers i =

        match nth_error conds i with
        | None => xok [] st
        | Some c =>
            match eval f st c with
            | Ok (v, st1) =>
                if is_true (vv v) then
                  match nth_error wrappers i with Some w => exec_nodes f st1 w | None => ([], Panic 97) end
                else if Nat.eqb (length conds) (S i) && Nat.ltb (S i) (length wrappers) then
                  match nth_error wrappers (S i) with Some w => exec_nodes f st1 w | None => ([], Panic 98) end
                else exec_if f st1 conds wrappers (S i)
            | other => xfail [] other
            end
        end.
Proof. reflexivity. Qed.

Lemma exec_for_0 : forall (st : mstate) (key value : str) (parent : val) (body : list node)
                (items : list (val * option val)) (idx count : Z), exec_for 0 st key value parent body items idx count = ([], Fuel).
Proof. reflexivity. Qed.

Lemma exec_for_S : forall (f : nat) (st : mstate) (key value : str) (parent : val) (body : list node)
                (items : list (val * option val)) (idx count : Z), exec_for (S f) st key value parent body items idx count =

        match items with
        | [] => xok [] st
        | (k, vo) :: rest =>
            match top_frame st with
            | Ok fr =>
                let p1 := ctx_set key (CV (as_value k)) (f_priv fr) in
                let p2 := match vo with Some v => ctx_set value (CV (as_value v)) p1 | None => p1 end in
                let p3 := ctx_set [102; 111; 114; 108; 111; 111; 112] (* forloop *) (CV (as_value (loop_struct idx count parent))) p2 in
                match exec_nodes f (set_top st (with_priv fr p3)) body with
                | (o1, Ok st1) => let '(o2, r) := exec_for f st1 key value parent body rest (idx + 1) count in (o1 ++ o2, r)
                | other => other
                end
            | other => xfail [] other
            end
        end.
Proof. reflexivity. Qed.

Lemma exec_firstof_0 : forall (st : mstate) (args : list expr), exec_firstof 0 st args = ([], Fuel).
Proof. reflexivity. Qed.

Lemma exec_firstof_S : forall (f : nat) (st : mstate) (args : list expr), exec_firstof (S f) st args =

        match args with
        | [] => xok [] st
        | a :: rest =>
            match eval f st a with
            | Ok (v, st1) =>
                if is_true (vv v) then
                  match top_frame st1 with
                  | Ok fr =>
                      match to_string (vv v) with
                      | None => ([], Unmod)
                      | Some s => if f_auto fr && negb (filter_applied [115; 97; 102; 101] (* safe *) a) then xok (filter_escape s) st1 else xok s st1
                      end
                  | other => xfail [] other
                  end
                else exec_firstof f st1 rest
            | other => xfail [] other
            end
        end.
Proof. reflexivity. Qed.

Lemma eval_pairs_0 : forall (st : mstate) (pairs : list (str * expr)), eval_pairs 0 st pairs = Fuel.
Proof. reflexivity. Qed.

Lemma eval_pairs_S : forall (f : nat) (st : mstate) (pairs : list (str * expr)), eval_pairs (S f) st pairs =

        match pairs with
        | [] => Ok ([], st)
        | (k, e) :: rest =>
            do '(v, st1) <- eval f st e;
            do '(r, st2) <- eval_pairs f st1 rest;
            Ok ((k, CV v) :: r, st2)
        end.
Proof. reflexivity. Qed.

Lemma apply_tag_chain_0 : forall (st : mstate) (v : value) (chain : list (str * option expr)), apply_tag_chain 0 st v chain = Fuel.
Proof. reflexivity. Qed.

Lemma apply_tag_chain_S : forall (f : nat) (st : mstate) (v : value) (chain : list (str * option expr)), apply_tag_chain (S f) st v chain =

        match chain with
        | [] => Ok (v, st)
        | (name, param) :: rest =>
            do '(p, st1) <- (match param with Some pe => eval f st pe | None => Ok (as_value VNil, st) end);
            do r <- apply_filter_se name v p;
            apply_tag_chain f st1 r rest
        end.
Proof. reflexivity. Qed.

Lemma exec_template_0 : forall (st : mstate) (t : template) (ctx : list (str * cval)), exec_template 0 st t ctx = ([], Fuel).
Proof. reflexivity. Qed.

Lemma exec_template_S : forall (f : nat) (st : mstate) (t : template) (ctx : list (str * cval)), exec_template (S f) st t ctx =

        match exec_template_unbuffered f st t ctx with
        | (o, Ok st1) => xok o st1
        | (_, other) => ([], other)
        end.
Proof. reflexivity. Qed.

Lemma exec_template_unbuffered_0 : forall (st : mstate) (t : template) (ctx : list (str * cval)), exec_template_unbuffered 0 st t ctx = ([], Fuel).
Proof. reflexivity. Qed.

Lemma exec_template_unbuffered_S : forall (f : nat) (st : mstate) (t : template) (ctx : list (str * cval)), exec_template_unbuffered (S f) st t ctx =

        let merged := ctx_update globals ctx in
        (* (a non-nil context is assumed, as every caller in pongo2 and the harness passes one) *)
        if negb (forallb (fun kv => is_ident_key (fst kv)) merged) then ([], Err 3)
        else if existsb (fun kv => match assoc_get (fst kv) (tpl_exported t) with Some _ => true | None => false end)
                        merged then ([], Err 3)
        else
          let '(execid, g') := g_fresh (ms_g st) in
          let fr := root_frame t ctx execid in
          let root := hd t (tpl_chain t) in
          match exec_nodes f (mkM (fr :: ms_frames st) (ms_nodes st) g') (tpl_root root) with
          | (o, Ok st1) => xok o (pop_frame st1)
          | other => other
          end.
Proof. reflexivity. Qed.

(* ---------- generic inversion helpers ---------- *)
Lemma bind_ok_inv : forall A B (r : res A) (k : A -> res B) x,
  bind r k = Ok x -> exists a, r = Ok a /\ k a = Ok x.
Proof. intros A B r k x H. destruct r; try discriminate H. eexists; split; [reflexivity|exact H]. Qed.

Lemma xfail_not_ok : forall o A (r : res A) o' st, xfail o r = (o', Ok st) -> False.
Proof. intros o A r o' st H. destruct r; discriminate H. Qed.

Lemma pair_snd_inv : forall A B (a c : A) (b d : B), (a, b) = (c, d) -> b = d.
Proof. intros A B a c b d H. injection H; auto. Qed.

Lemma ok_state_inv : forall A (a b : A) (s s' : mstate), Ok (a, s) = Ok (b, s') -> s = s'.
Proof. intros A a b s s' H. injection H; auto. Qed.

Lemma ok_inv : forall A (a b : A), Ok a = Ok b -> a = b.
Proof. intros A a b H. injection H; auto. Qed.

(* innermost scrutinee at the head of a term *)
Ltac head_scrut t :=
  lazymatch t with
  | match ?x with _ => _ end => head_scrut x
  | _ => t
  end.

Ltac norm_in H := cbv beta iota zeta delta [bind xfail xok xerr of_opt cycle_out] in H.

(* one step on a hypothesis  lhs = Ok _   or   lhs = (_, Ok _) *)
Ltac step H :=
  lazymatch type of H with
  | Ok (_, _) = Ok (_, _) => apply ok_state_inv in H
  | Ok _ = Ok _ => apply ok_inv in H
  | (_, _) = (_, Ok _) => apply pair_snd_inv in H; try discriminate H
  | match _ with _ => _ end = _ =>
      lazymatch type of H with
      | ?l = _ => let s := head_scrut l in
                  destruct s eqn:?; cbv beta iota in H; try discriminate H
      end
  end.
Ltac steps H := repeat (step H).

(* ---------- the relation on frame lists ---------- *)
Definition same_meta (fr fr' : frame) : Prop :=
  f_pub fr' = f_pub fr /\ f_auto fr' = f_auto fr /\ f_depth fr' = f_depth fr /\
  f_exec fr' = f_exec fr /\ f_chain fr' = f_chain fr.
Definition sbl (l l' : list frame) : Prop :=
  tl l' = tl l /\
  match l, l' with
  | fr :: _, fr' :: _ => same_meta fr fr'
  | [], [] => True
  | _, _ => False
  end.

Lemma sb_sbl : forall st st', same_below st st' <-> sbl (ms_frames st) (ms_frames st').
Proof. intros st st'. split; intro H; exact H. Qed.

Lemma same_meta_refl : forall fr, same_meta fr fr.
Proof. intro fr. repeat split. Qed.
Lemma same_meta_trans : forall a b c, same_meta a b -> same_meta b c -> same_meta a c.
Proof. unfold same_meta. intros a b c H1 H2. intuition congruence. Qed.
Lemma same_meta_priv : forall fr p, same_meta fr (with_priv fr p).
Proof. intros fr p. repeat split. Qed.
Lemma same_meta_priv_l : forall fr fr' p, same_meta fr fr' -> same_meta fr (with_priv fr' p).
Proof. intros fr fr' p H. exact H. Qed.

Lemma sbl_refl : forall l, sbl l l.
Proof. intros [|fr l]; split; auto using same_meta_refl. Qed.
Lemma sbl_trans : forall a b c, sbl a b -> sbl b c -> sbl a c.
Proof.
  intros a b c [T1 M1] [T2 M2]. split; [congruence|].
  destruct a as [|x a], b as [|y b], c as [|z c]; try contradiction; auto.
  eapply same_meta_trans; eassumption.
Qed.
Lemma sbl_cons : forall fr fr' r, same_meta fr fr' -> sbl (fr :: r) (fr' :: r).
Proof. intros fr fr' r H. split; [reflexivity|exact H]. Qed.
Lemma sbl_cons_inv : forall fr r l', sbl (fr :: r) l' -> exists fr', l' = fr' :: r /\ same_meta fr fr'.
Proof.
  intros fr r [|fr' r'] [T M]; [contradiction|]. simpl in T. subst r'. exists fr'. split; auto.
Qed.
Lemma sbl_tl : forall fr r l', sbl (fr :: r) l' -> tl l' = r.
Proof. intros fr r l' [T _]. exact T. Qed.

Lemma sb_refl : forall st, same_below st st.
Proof. intro st. apply sb_sbl, sbl_refl. Qed.
Lemma sb_trans : forall a b c, same_below a b -> same_below b c -> same_below a c.
Proof. intros a b c H1 H2. apply sb_sbl. eapply sbl_trans; apply sb_sbl; eassumption. Qed.
Lemma sb_of_eq : forall st st', ms_frames st' = ms_frames st -> same_below st st'.
Proof. intros st st' H. apply sb_sbl. rewrite H. apply sbl_refl. Qed.
Lemma sb_eq_l : forall a a' b, ms_frames a' = ms_frames a -> same_below a b -> same_below a' b.
Proof. intros a a' b H S. apply sb_sbl. rewrite H. apply sb_sbl, S. Qed.
Lemma sb_eq_r : forall a b b', ms_frames b' = ms_frames b -> same_below a b -> same_below a b'.
Proof. intros a b b' H S. apply sb_sbl. rewrite H. apply sb_sbl, S. Qed.

(* ---------- stack operations ---------- *)
Lemma top_frame_ok : forall st fr, top_frame st = Ok fr -> ms_frames st = fr :: tl (ms_frames st).
Proof.
  intros st fr H. unfold top_frame in H. destruct (ms_frames st) as [|x r]; [discriminate H|].
  injection H as ->. reflexivity.
Qed.
Lemma frames_set_top : forall st fr fr', top_frame st = Ok fr ->
  ms_frames (set_top st fr') = fr' :: tl (ms_frames st).
Proof.
  intros st fr fr' H. unfold top_frame in H. unfold set_top.
  destruct (ms_frames st) as [|x r]; [discriminate H|]. reflexivity.
Qed.
Lemma sb_set_top : forall st fr fr', top_frame st = Ok fr -> same_meta fr fr' ->
  same_below st (set_top st fr').
Proof.
  intros st fr fr' H M. apply sb_sbl. rewrite (frames_set_top _ _ fr' H).
  rewrite (top_frame_ok _ _ H) at 1. apply sbl_cons, M.
Qed.
Lemma set_priv_ok : forall st k v st', set_priv st k v = Ok st' ->
  exists fr, top_frame st = Ok fr /\ st' = set_top st (with_priv fr (ctx_set k v (f_priv fr))).
Proof.
  intros st k v st' H. unfold set_priv in H. apply bind_ok_inv in H. destruct H as (fr & Hf & H).
  exists fr. split; [exact Hf|]. injection H as <-. reflexivity.
Qed.
Lemma sb_set_priv : forall st k v st', set_priv st k v = Ok st' -> same_below st st'.
Proof.
  intros st k v st' H. apply set_priv_ok in H. destruct H as (fr & Hf & ->).
  eapply sb_set_top; [exact Hf|apply same_meta_priv].
Qed.
Lemma sb_push_pop : forall st fr st2, same_below (push_frame st fr) st2 ->
  ms_frames (pop_frame st2) = ms_frames st.
Proof. intros st fr st2 [T _]. exact T. Qed.

Lemma sb_ns_set_l : forall a e n s b, same_below (ns_set a e n s) b -> same_below a b.
Proof. intros a e n s b H. exact H. Qed.
Lemma sb_ns_set_r : forall a b e n s, same_below a b -> same_below a (ns_set b e n s).
Proof. intros a b e n s H. exact H. Qed.
Lemma sb_set_top_priv_l : forall st fr p b, top_frame st = Ok fr ->
  same_below (set_top st (with_priv fr p)) b -> same_below st b.
Proof.
  intros st fr p b Ht H. eapply sb_trans; [|exact H].
  eapply sb_set_top; [exact Ht|apply same_meta_priv].
Qed.
Lemma sb_set_top_priv_r : forall a st fr p, top_frame st = Ok fr ->
  same_below a st -> same_below a (set_top st (with_priv fr p)).
Proof.
  intros a st fr p Ht H. eapply sb_trans; [exact H|].
  eapply sb_set_top; [exact Ht|apply same_meta_priv].
Qed.
(* autoescape: the flag is set for the body and put back *)
Lemma sb_autoescape : forall st fr on st1 fr1, top_frame st = Ok fr ->
  same_below (set_top st (with_auto fr on)) st1 -> top_frame st1 = Ok fr1 ->
  same_below st (set_top st1 (with_auto fr1 (f_auto fr))).
Proof.
  intros st fr on st1 fr1 Ht H Ht1. apply (proj1 (sb_sbl _ _)) in H. apply sb_sbl.
  rewrite (frames_set_top _ _ _ Ht) in H. rewrite (frames_set_top _ _ _ Ht1).
  rewrite (top_frame_ok _ _ Ht) at 1.
  apply sbl_cons_inv in H. destruct H as (fr' & E & M).
  rewrite E. cbn [tl]. apply sbl_cons.
  rewrite (top_frame_ok _ _ Ht1) in E. injection E as E _. subst fr'.
  unfold same_meta in *. cbn [with_auto f_pub f_auto f_depth f_exec f_chain] in *.
  intuition congruence.
Qed.

Lemma str_eqb_refl : forall s, str_eqb s s = true.
Proof.
  intro s. induction s as [|c s IH]; [reflexivity|].
  cbn [str_eqb]. rewrite N.eqb_refl, IH. reflexivity.
Qed.
Lemma ctx_get_set : forall k v m, ctx_get k (ctx_set k v m) = Some v.
Proof. intros k v m. unfold ctx_set. cbn [ctx_get]. rewrite str_eqb_refl. reflexivity. Qed.

(* ---------- frames by index ---------- *)
Lemma update_nth_same : forall A (l : list A) i x, nth_error l i = Some x -> update_nth l i x = l.
Proof.
  intros A l. induction l as [|y l IH]; intros [|i] x H; simpl in *; try discriminate H; auto.
  - injection H as ->. reflexivity.
  - rewrite (IH _ _ H). reflexivity.
Qed.
Lemma update_nth_twice : forall A (l : list A) i x y,
  update_nth (update_nth l i x) i y = update_nth l i y.
Proof.
  intros A l. induction l as [|z l IH]; intros [|i] x y; simpl; auto. rewrite IH. reflexivity.
Qed.
Lemma nth_error_update_nth : forall A (l : list A) i x z,
  nth_error l i = Some z -> nth_error (update_nth l i x) i = Some x.
Proof.
  intros A l. induction l as [|y l IH]; intros [|i] x z H; simpl in *; try discriminate H; eauto.
Qed.
Lemma with_depth_back : forall fr,
  with_depth (with_depth fr (f_depth fr + 1)) (f_depth (with_depth fr (f_depth fr + 1)) - 1) = fr.
Proof. intros [p q a d e c]. unfold with_depth. simpl. f_equal. lia. Qed.

(* ---------- one fuel step, given the invariants at the previous fuel ---------- *)
Section Step.
Variable f : nat.
Hypothesis IH_eval : forall st e v st', eval f st e = Ok (v, st') -> ms_frames st' = ms_frames st.
Hypothesis IH_eval_list : forall st es v st', eval_list f st es = Ok (v, st') -> ms_frames st' = ms_frames st.
Hypothesis IH_apply_chain : forall st v c r st', apply_chain f st v c = Ok (r, st') -> ms_frames st' = ms_frames st.
Hypothesis IH_resolve : forall st ps r st', resolve f st ps = Ok (r, st') -> ms_frames st' = ms_frames st.
Hypothesis IH_walk : forall st c s ps r st', walk f st c s ps = Ok (r, st') -> ms_frames st' = ms_frames st.
Hypothesis IH_call_macro : forall st m i a r st', call_macro f st m i a = Ok (r, st') -> ms_frames st' = ms_frames st.
Hypothesis IH_macro_defaults : forall st ps r st', macro_defaults f st ps = Ok (r, st') -> ms_frames st' = ms_frames st.
Hypothesis IH_call_super : forall st i w r st', call_super f st i w = Ok (r, st') -> ms_frames st' = ms_frames st.
Hypothesis IH_eval_pairs : forall st ps r st', eval_pairs f st ps = Ok (r, st') -> ms_frames st' = ms_frames st.
Hypothesis IH_apply_tag_chain : forall st v c r st', apply_tag_chain f st v c = Ok (r, st') -> ms_frames st' = ms_frames st.
Hypothesis IH_exec_nodes : forall st ns o st', exec_nodes f st ns = (o, Ok st') -> same_below st st'.
Hypothesis IH_exec_node : forall st n o st', exec_node f st n = (o, Ok st') -> same_below st st'.
Hypothesis IH_exec_if : forall st c w i o st', exec_if f st c w i = (o, Ok st') -> same_below st st'.
Hypothesis IH_exec_for : forall st k v p b it i c o st', exec_for f st k v p b it i c = (o, Ok st') -> same_below st st'.
Hypothesis IH_exec_firstof : forall st a o st', exec_firstof f st a = (o, Ok st') -> same_below st st'.
Hypothesis IH_exec_template : forall st t c o st', exec_template f st t c = (o, Ok st') -> ms_frames st' = ms_frames st.
Hypothesis IH_exec_template_unbuffered : forall st t c o st', exec_template_unbuffered f st t c = (o, Ok st') -> ms_frames st' = ms_frames st.

(* turn every remaining call at fuel f into its frame fact *)
Ltac use_ih :=
  repeat match goal with
  | H : eval f _ _ = Ok _ |- _ => apply IH_eval in H
  | H : eval_list f _ _ = Ok _ |- _ => apply IH_eval_list in H
  | H : apply_chain f _ _ _ = Ok _ |- _ => apply IH_apply_chain in H
  | H : resolve f _ _ = Ok _ |- _ => apply IH_resolve in H
  | H : walk f _ _ _ _ = Ok _ |- _ => apply IH_walk in H
  | H : call_macro f _ _ _ _ = Ok _ |- _ => apply IH_call_macro in H
  | H : macro_defaults f _ _ = Ok _ |- _ => apply IH_macro_defaults in H
  | H : call_super f _ _ _ = Ok _ |- _ => apply IH_call_super in H
  | H : eval_pairs f _ _ = Ok _ |- _ => apply IH_eval_pairs in H
  | H : apply_tag_chain f _ _ _ = Ok _ |- _ => apply IH_apply_tag_chain in H
  | H : exec_nodes f _ _ = (_, Ok _) |- _ => apply IH_exec_nodes in H
  | H : exec_node f _ _ = (_, Ok _) |- _ => apply IH_exec_node in H
  | H : exec_if f _ _ _ _ = (_, Ok _) |- _ => apply IH_exec_if in H
  | H : exec_for f _ _ _ _ _ _ _ _ = (_, Ok _) |- _ => apply IH_exec_for in H
  | H : exec_firstof f _ _ = (_, Ok _) |- _ => apply IH_exec_firstof in H
  | H : exec_template f _ _ _ = (_, Ok _) |- _ => apply IH_exec_template in H
  | H : exec_template_unbuffered f _ _ _ = (_, Ok _) |- _ => apply IH_exec_template_unbuffered in H
  end.

Ltac fin_eq := subst; use_ih; congruence.

Lemma step_eval : forall st e v st', eval (S f) st e = Ok (v, st') -> ms_frames st' = ms_frames st.
Proof.
  intros st e v st' H. rewrite eval_S in H. destruct e; norm_in H.
  all: steps H.
  all: fin_eq.
Qed.

Lemma step_eval_list : forall st es v st', eval_list (S f) st es = Ok (v, st') -> ms_frames st' = ms_frames st.
Proof. intros st es v st' H. rewrite eval_list_S in H. norm_in H. steps H. all: fin_eq. Qed.

Lemma step_apply_chain : forall st v c r st', apply_chain (S f) st v c = Ok (r, st') -> ms_frames st' = ms_frames st.
Proof. intros st v c r st' H. rewrite apply_chain_S in H. norm_in H. steps H. all: fin_eq. Qed.

Lemma step_resolve : forall st ps r st', resolve (S f) st ps = Ok (r, st') -> ms_frames st' = ms_frames st.
Proof. intros st ps r st' H. rewrite resolve_S in H. norm_in H. steps H. all: fin_eq. Qed.

Lemma step_walk : forall st c s ps r st', walk (S f) st c s ps = Ok (r, st') -> ms_frames st' = ms_frames st.
Proof. intros st c s ps r st' H. rewrite walk_S in H. norm_in H. steps H. all: fin_eq. Qed.

Lemma step_macro_defaults : forall st ps r st', macro_defaults (S f) st ps = Ok (r, st') -> ms_frames st' = ms_frames st.
Proof. intros st ps r st' H. rewrite macro_defaults_S in H. norm_in H. steps H. all: fin_eq. Qed.

Lemma step_eval_pairs : forall st ps r st', eval_pairs (S f) st ps = Ok (r, st') -> ms_frames st' = ms_frames st.
Proof. intros st ps r st' H. rewrite eval_pairs_S in H. norm_in H. steps H. all: fin_eq. Qed.

Lemma step_apply_tag_chain : forall st v c r st', apply_tag_chain (S f) st v c = Ok (r, st') -> ms_frames st' = ms_frames st.
Proof. intros st v c r st' H. rewrite apply_tag_chain_S in H. norm_in H. steps H. all: fin_eq. Qed.

Lemma step_call_super : forall st i w r st', call_super (S f) st i w = Ok (r, st') -> ms_frames st' = ms_frames st.
Proof.
  intros st i w r st' H. rewrite call_super_S in H. norm_in H. steps H.
  - subst. reflexivity.
  - subst. use_ih. eapply sb_push_pop; eassumption.
Qed.

Lemma step_call_macro : forall st m i a r st', call_macro (S f) st m i a = Ok (r, st') -> ms_frames st' = ms_frames st.
Proof.
  intros st m i a r st' H. rewrite call_macro_S in H. norm_in H. steps H.
  all: subst; use_ih.
  all: match goal with
       | Hd : ms_frames ?m0 = ms_frames _, Hx : same_below (push_frame _ _) ?a1,
         Hf : frame_at ?st0 ?i0 = Some ?f0 |- _ =>
           apply sb_push_pop in Hx; cbn [ms_frames] in Hd, Hx;
           rewrite Hd, firstn_skipn in Hx;
           assert (Hat : frame_at (pop_frame a1) i0 = Some (with_depth f0 (f_depth f0 + 1)))
             by (unfold frame_at; rewrite Hx; unfold set_frame_at; cbn [ms_frames];
                 rewrite rev_involutive; eapply nth_error_update_nth; exact Hf)
       end.
  - match goal with Ho : frame_at (pop_frame _) i = Some ?f2 |- _ =>
      rewrite Hat in Ho; injection Ho as <- end.
    rewrite with_depth_back. unfold set_frame_at at 1. cbn [ms_frames].
    match goal with Hx : ms_frames (pop_frame _) = _ |- _ => rewrite Hx end.
    unfold set_frame_at. cbn [ms_frames]. rewrite rev_involutive, update_nth_twice.
    rewrite update_nth_same by assumption. apply rev_involutive.
  - congruence.
Qed.

Ltac sb_prep :=
  repeat match goal with
  | H : set_priv _ _ _ = Ok _ |- _ => apply sb_set_priv in H
  | H : ms_frames _ = ms_frames _ |- _ => apply sb_of_eq in H
  | H : same_below (ns_set _ _ _ _) _ |- _ => apply sb_ns_set_l in H
  | H : same_below (set_top ?a (with_priv ?fr _)) _, Ht : top_frame ?a = Ok ?fr |- _ =>
      apply (sb_set_top_priv_l _ _ _ _ Ht) in H
  end.
Ltac sb_chain :=
  lazymatch goal with
  | |- same_below ?a ?a => apply sb_refl
  | |- same_below _ (ns_set _ _ _ _) => apply sb_ns_set_r; sb_chain
  | |- same_below _ (set_top ?b (with_priv _ _)) =>
      eapply sb_set_top_priv_r; [eassumption|]; sb_chain
  | |- same_below ?a _ =>
      match goal with
      | H : same_below a _ |- _ => apply (sb_trans _ _ _ H); clear H; sb_chain
      end
  end.
Ltac fin_sb := subst; use_ih; sb_prep; sb_chain.

Lemma step_exec_nodes : forall st ns o st', exec_nodes (S f) st ns = (o, Ok st') -> same_below st st'.
Proof. intros st ns o st' H. rewrite exec_nodes_S in H. norm_in H. steps H. all: fin_sb. Qed.

Lemma step_exec_if : forall st c w i o st', exec_if (S f) st c w i = (o, Ok st') -> same_below st st'.
Proof. intros st c w i o st' H. rewrite exec_if_S in H. norm_in H. steps H. all: fin_sb. Qed.

Lemma step_exec_firstof : forall st a o st', exec_firstof (S f) st a = (o, Ok st') -> same_below st st'.
Proof. intros st a o st' H. rewrite exec_firstof_S in H. norm_in H. steps H. all: fin_sb. Qed.

Lemma step_exec_for : forall st k v p b it i c o st', exec_for (S f) st k v p b it i c = (o, Ok st') -> same_below st st'.
Proof.
  intros st k v p b it i c o st' H. rewrite exec_for_S in H. norm_in H. steps H.
  all: fin_sb.
Qed.

Lemma step_exec_template_unbuffered : forall st t c o st',
  exec_template_unbuffered (S f) st t c = (o, Ok st') -> ms_frames st' = ms_frames st.
Proof.
  intros st t c o st' H. rewrite exec_template_unbuffered_S in H. norm_in H. steps H.
  subst. use_ih.
  match goal with Hx : same_below _ _ |- _ => exact (proj1 Hx) end.
Qed.

Lemma step_exec_template : forall st t c o st',
  exec_template (S f) st t c = (o, Ok st') -> ms_frames st' = ms_frames st.
Proof. intros st t c o st' H. rewrite exec_template_S in H. norm_in H. steps H. fin_eq. Qed.


Lemma step_with : forall st pairs body o st',
  exec_node (S f) st (NWith pairs body) = (o, Ok st') -> ms_frames st' = ms_frames st.
Proof.
  intros st pairs body o st' H. rewrite exec_node_S in H. norm_in H. steps H.
  subst. use_ih.
  match goal with Hx : same_below (push_frame _ _) _ |- _ => apply sb_push_pop in Hx end.
  congruence.
Qed.

Lemma step_for : forall st key value obj rv srt body empty o st',
  exec_node (S f) st (NFor key value obj rv srt body empty) = (o, Ok st') -> ms_frames st' = ms_frames st.
Proof.
  intros st key value obj rv srt body empty o st' H. rewrite exec_node_S in H. norm_in H. steps H.
  all: subst; use_ih.
  all: try match goal with Hx : same_below _ _ |- _ => destruct Hx as [Hx _] end.
  all: cbn [ms_frames pop_frame push_frame tl] in *.
  all: match goal with He : ms_frames _ = _ :: _ |- _ => rewrite He in * end.
  all: cbn [tl] in *; congruence.
Qed.

Lemma step_include : forall st tpl fname pairs only ifx o st',
  exec_node (S f) st (NInclude tpl fname pairs only ifx) = (o, Ok st') -> ms_frames st' = ms_frames st.
Proof.
  intros st tpl fname pairs only ifx o st' H. rewrite exec_node_S in H. norm_in H. steps H.
  all: subst; use_ih; cbn [ms_frames] in *; congruence.
Qed.

Lemma step_exec_node : forall st n o st', exec_node (S f) st n = (o, Ok st') -> same_below st st'.
Proof.
  intros st n o st' H. destruct n.
  all: try (apply sb_of_eq; first [eapply step_with; exact H | eapply step_for; exact H | eapply step_include; exact H]).
  all: rewrite exec_node_S in H; norm_in H; steps H.
  all: try solve [fin_sb].
  subst; use_ih. eapply sb_autoescape; eassumption.
Qed.

Lemma step_set_visible : forall st name e o st' fr',
  exec_node (S f) st (NSet name e) = (o, Ok st') -> top_frame st' = Ok fr' ->
  exists v, ctx_get name (f_priv fr') = Some (CV v).
Proof.
  intros st name e o st' fr' H Ht. rewrite exec_node_S in H. norm_in H. steps H. subst.
  match goal with Hs : set_priv _ _ (CV ?v) = Ok _ |- _ =>
    exists v; apply set_priv_ok in Hs; destruct Hs as (fr & Hf & ->);
    unfold top_frame in Ht; rewrite (frames_set_top _ _ _ Hf) in Ht end.
  injection Ht as <-. cbn [f_priv with_priv]. apply ctx_get_set.
Qed.
End Step.

(* ---------- all the invariants, by induction on the fuel ---------- *)
Definition frames_inv (f : nat) : Prop :=
  (forall st e v st', eval f st e = Ok (v, st') -> ms_frames st' = ms_frames st) /\
  (forall st es v st', eval_list f st es = Ok (v, st') -> ms_frames st' = ms_frames st) /\
  (forall st v c r st', apply_chain f st v c = Ok (r, st') -> ms_frames st' = ms_frames st) /\
  (forall st ps r st', resolve f st ps = Ok (r, st') -> ms_frames st' = ms_frames st) /\
  (forall st c s ps r st', walk f st c s ps = Ok (r, st') -> ms_frames st' = ms_frames st) /\
  (forall st m i a r st', call_macro f st m i a = Ok (r, st') -> ms_frames st' = ms_frames st) /\
  (forall st ps r st', macro_defaults f st ps = Ok (r, st') -> ms_frames st' = ms_frames st) /\
  (forall st i w r st', call_super f st i w = Ok (r, st') -> ms_frames st' = ms_frames st) /\
  (forall st ps r st', eval_pairs f st ps = Ok (r, st') -> ms_frames st' = ms_frames st) /\
  (forall st v c r st', apply_tag_chain f st v c = Ok (r, st') -> ms_frames st' = ms_frames st) /\
  (forall st ns o st', exec_nodes f st ns = (o, Ok st') -> same_below st st') /\
  (forall st n o st', exec_node f st n = (o, Ok st') -> same_below st st') /\
  (forall st c w i o st', exec_if f st c w i = (o, Ok st') -> same_below st st') /\
  (forall st k v p b it i c o st', exec_for f st k v p b it i c = (o, Ok st') -> same_below st st') /\
  (forall st a o st', exec_firstof f st a = (o, Ok st') -> same_below st st') /\
  (forall st t c o st', exec_template f st t c = (o, Ok st') -> ms_frames st' = ms_frames st) /\
  (forall st t c o st', exec_template_unbuffered f st t c = (o, Ok st') -> ms_frames st' = ms_frames st).

Lemma frames_inv_all : forall f, frames_inv f.
Proof.
  induction f as [|f IH].
  - unfold frames_inv. repeat match goal with |- _ /\ _ => split end; intros * H.
    + rewrite eval_0 in H; discriminate H.
    + rewrite eval_list_0 in H; discriminate H.
    + rewrite apply_chain_0 in H; discriminate H.
    + rewrite resolve_0 in H; discriminate H.
    + rewrite walk_0 in H; discriminate H.
    + rewrite call_macro_0 in H; discriminate H.
    + rewrite macro_defaults_0 in H; discriminate H.
    + rewrite call_super_0 in H; discriminate H.
    + rewrite eval_pairs_0 in H; discriminate H.
    + rewrite apply_tag_chain_0 in H; discriminate H.
    + rewrite exec_nodes_0 in H; discriminate H.
    + rewrite exec_node_0 in H; discriminate H.
    + rewrite exec_if_0 in H; discriminate H.
    + rewrite exec_for_0 in H; discriminate H.
    + rewrite exec_firstof_0 in H; discriminate H.
    + rewrite exec_template_0 in H; discriminate H.
    + rewrite exec_template_unbuffered_0 in H; discriminate H.
  - destruct IH as (I1 & I2 & I3 & I4 & I5 & I6 & I7 & I8 & I9 & I10 & I11 & I12 & I13 & I14 & I15 & I16 & I17).
    unfold frames_inv. repeat match goal with |- _ /\ _ => split end.
    + apply step_eval; assumption.
    + apply step_eval_list; assumption.
    + apply step_apply_chain; assumption.
    + apply step_resolve; assumption.
    + apply step_walk; assumption.
    + apply step_call_macro; assumption.
    + apply step_macro_defaults; assumption.
    + apply step_call_super; assumption.
    + apply step_eval_pairs; assumption.
    + apply step_apply_tag_chain; assumption.
    + apply step_exec_nodes; assumption.
    + apply step_exec_node; assumption.
    + apply step_exec_if; assumption.
    + apply step_exec_for; assumption.
    + apply step_exec_firstof; assumption.
    + apply step_exec_template; assumption.
    + apply step_exec_template_unbuffered; assumption.
Qed.

Lemma tie_eval_preserves_frames :
  forall f st e v st', eval f st e = Ok (v, st') -> ms_frames st' = ms_frames st.
Proof. intro f. exact (proj1 (frames_inv_all f)). Qed.

Lemma tie_exec_preserves_outer_frames :
  forall f st ns o st', exec_nodes f st ns = (o, Ok st') -> same_below st st'.
Proof.
  intro f. destruct (frames_inv_all f) as (_ & _ & _ & _ & _ & _ & _ & _ & _ & _ & I & _). exact I.
Qed.

Lemma tie_with_restores :
  forall f st pairs body o st',
    exec_node f st (NWith pairs body) = (o, Ok st') -> ms_frames st' = ms_frames st.
Proof.
  intros [|f] st pairs body o st' H.
  - rewrite exec_node_0 in H. discriminate H.
  - destruct (frames_inv_all f) as (I1 & I2 & I3 & I4 & I5 & I6 & I7 & I8 & I9 & I10 & I11 & I12 & I13 & I14 & I15 & I16 & I17).
    eapply step_with; eassumption.
Qed.

Lemma tie_for_restores :
  forall f st key value obj rv srt body empty o st',
    exec_node f st (NFor key value obj rv srt body empty) = (o, Ok st') -> ms_frames st' = ms_frames st.
Proof.
  intros [|f] st key value obj rv srt body empty o st' H.
  - rewrite exec_node_0 in H. discriminate H.
  - destruct (frames_inv_all f) as (I1 & I2 & I3 & I4 & I5 & I6 & I7 & I8 & I9 & I10 & I11 & I12 & I13 & I14 & I15 & I16 & I17).
    eapply step_for; eassumption.
Qed.

Lemma tie_include_restores :
  forall f st tpl fname pairs only ifx o st',
    exec_node f st (NInclude tpl fname pairs only ifx) = (o, Ok st') -> ms_frames st' = ms_frames st.
Proof.
  intros [|f] st tpl fname pairs only ifx o st' H.
  - rewrite exec_node_0 in H. discriminate H.
  - destruct (frames_inv_all f) as (I1 & I2 & I3 & I4 & I5 & I6 & I7 & I8 & I9 & I10 & I11 & I12 & I13 & I14 & I15 & I16 & I17).
    eapply step_include; eassumption.
Qed.

Lemma tie_set_visible_after :
  forall f st name e o st' fr',
    exec_node f st (NSet name e) = (o, Ok st') -> top_frame st' = Ok fr' ->
    exists v, ctx_get name (f_priv fr') = Some (CV v).
Proof.
  intros [|f] st name e o st' fr' H Ht.
  - rewrite exec_node_0 in H. discriminate H.
  - eapply step_set_visible; eassumption.
Qed.

End Frames.

Print Assumptions tie_eval_preserves_frames.
Print Assumptions tie_exec_preserves_outer_frames.
Print Assumptions tie_with_restores.
Print Assumptions tie_for_restores.
Print Assumptions tie_include_restores.
Print Assumptions tie_set_visible_after.
