(* Lemmas and proof scripts for the general tie of the translated tagIfchangedNode.Execute
   (gen/TagFuncs.v: go_statefuncs, interpreted by Spec/SpecTagFuncs2.v) to exec_node on NIfchanged
   (Model/Exec.v), both modes.  On top of Proofs/TagFuncs2.v:

   - unfolding equations: an if statement in terms of uexec_block (so that scripts step through the
     statements of a block one at a time), the two range loops, eval_list;
   - [uexprs_loop_eval_list]: a range loop over expressions every turn of which evaluates the
     expression, returns the error, or appends the value to a variable, is the model's eval_list;
   - [uvalues_loop_changed]: the comparison loop of the ifchanged tag - index, EqualValueTo, break at
     the first unequal pair - against the model's fold over all pairs, when no comparison is outside
     the model and there are enough new values for the index;
   - the stepping tactics Tie/C09y.v runs on every regenerated term. *)
From PV Require Import Model.Exec Lib.GoStmt Spec.SpecFlow Spec.SpecTagFuncs Spec.SpecTagFuncs2 Proofs.Flow Proofs.TagFuncs Proofs.TagFuncs2.
From Coq Require Import String Lia.
Open Scope string_scope.

Lemma top_frame_cases : forall st, top_frame st = Panic 90 \/ exists fr, top_frame st = Ok fr.
Proof. intros st. unfold top_frame. destruct (ms_frames st) as [|fr frs]; [left|right; exists fr]; reflexivity. Qed.

(* the model's fold over the pairs (the text of Model/Exec.v, as in changed_model) *)
Definition pairs_changed (l : list (value * value)) : option bool :=
  fold_right (fun pr acc =>
                match acc, equal_value_to (vv (fst pr)) (vv (snd pr)) with
                | None, _ | _, None => None
                | Some a, Some eq => Some (a || negb eq)
                end) (Some false) l.

Lemma changed_model_cons : forall x l now, changed_model (x :: l) now = pairs_changed (combine (x :: l) now).
Proof. reflexivity. Qed.
Lemma changed_model_nil : forall now, changed_model [] now = Some true.
Proof. reflexivity. Qed.

Lemma pairs_changed_cons : forall x y l,
  pairs_changed ((x, y) :: l) =
  match pairs_changed l, equal_value_to (vv x) (vv y) with
  | None, _ | _, None => None
  | Some a, Some eq => Some (a || negb eq)
  end.
Proof. reflexivity. Qed.

Section Unfold3.
  Variable se : senv.
  Variable globals : list (str * cval).

  Lemma eval_list_0' : forall st es, eval_list se globals 0 st es = Fuel.
  Proof. reflexivity. Qed.
  Lemma eval_list_S_nil' : forall f st, eval_list se globals (S f) st [] = Ok ([], st).
  Proof. reflexivity. Qed.
  Lemma eval_list_S_cons' : forall f st e r,
    eval_list se globals (S f) st (e :: r) =
    match PV.Model.Exec.eval se globals f st e with
    | Ok (v, st1) =>
        match eval_list se globals f st1 r with
        | Ok (vs, st2) => Ok (v :: vs, st2)
        | Err k => Err k | Unmod => Unmod | Fuel => Fuel | Panic s => Panic s
        end
    | Err k => Err k | Unmod => Unmod | Fuel => Fuel | Panic s => Panic s
    end.
  Proof.
    intros f st e r.
    change (eval_list se globals (S f) st (e :: r)) with
      (bind (PV.Model.Exec.eval se globals f st e) (fun '(v, st1) =>
         bind (eval_list se globals f st1 r) (fun '(vs, st2) => Ok (v :: vs, st2)))).
    destruct (PV.Model.Exec.eval se globals f st e) as [[v st1]|k| | |s]; reflexivity.
  Qed.

  Lemma eval_list_length : forall es f st vs st1,
    eval_list se globals f st es = Ok (vs, st1) -> List.length vs = List.length es.
  Proof.
    induction es as [|e r IH]; intros f st vs st1 H; (destruct f as [|f]; [rewrite eval_list_0' in H; discriminate H|]).
    - rewrite eval_list_S_nil' in H. injection H as <- _. reflexivity.
    - rewrite eval_list_S_cons' in H.
      destruct (PV.Model.Exec.eval se globals f st e) as [[v st2]|k| | |s]; try discriminate H.
      destruct (eval_list se globals f st2 r) as [[vs' st3]|k| | |s] eqn:Hr; try discriminate H.
      injection H as <- _. cbn [List.length]. f_equal. exact (IH _ _ _ _ Hr).
  Qed.

  Variable callr : uval -> string -> list uval -> uworld -> ukont -> uans.

  Lemma uexec_block_nil : forall kr env w kn kb, uexec_block callr kr [] env w kn kb = kn env w.
  Proof. reflexivity. Qed.

  Lemma uf_exec_if : forall init c thn els env w kn kr kb,
    uf_exec callr (GSIf init c thn els) env w kn kr kb =
    uexec_block callr kr init ([] :: env) w (fun env1 w1 =>
      uf_eval callr c env1 w1 (uone (fun v w2 =>
        match v with
        | UVBool b =>
            if b then uexec_block callr kr thn ([] :: env1) w2 (fun env2 w3 => kn (tl (tl env2)) w3) (fun env2 w3 => kb (tl (tl env2)) w3)
            else uexec_block callr kr els ([] :: env1) w2 (fun env2 w3 => kn (tl (tl env2)) w3) (fun env2 w3 => kb (tl (tl env2)) w3)
        | _ => UStuck "condition is not a boolean"
        end))) (fun env1 w1 => kb (tl env1) w1).
  Proof. reflexivity. Qed.
End Unfold3.

Lemma uexprs_loop_fuel0 : forall bodyf key val es i f0 env o st heap kn,
  uexprs_loop bodyf key val es i f0 env (mkUW o st 0 heap) kn = UStop SFuel (mkUW o st 0 heap).
Proof. intros. destruct es; reflexivity. Qed.
Lemma uexprs_loop_nil : forall bodyf key val i f0 env o st f heap kn,
  uexprs_loop bodyf key val [] i f0 env (mkUW o st (S f) heap) kn = kn env (mkUW o st f0 heap).
Proof. reflexivity. Qed.
Lemma uexprs_loop_cons : forall bodyf key val e r i f0 env o st f heap kn,
  uexprs_loop bodyf key val (e :: r) i f0 env (mkUW o st (S f) heap) kn =
  match uall_lhs uenv_define [key; val] [UVInt i; UVExpr e] ([] :: env) with
  | Some env1 =>
      bodyf ([] :: env1) (mkUW o st f heap)
            (fun env2 w2 => uexprs_loop bodyf key val r (S i) f0 (tl (tl env2)) w2 kn)
            (fun env2 w2 => kn (tl (tl env2)) (uset_fuel w2 f0))
  | None => UStuck "range variables"
  end.
Proof. reflexivity. Qed.
Lemma uvalues_loop_nil : forall bodyf key val i env w kn,
  uvalues_loop bodyf key val [] i env w kn = kn env w.
Proof. reflexivity. Qed.
Lemma uvalues_loop_cons : forall bodyf key val v r i env w kn,
  uvalues_loop bodyf key val (v :: r) i env w kn =
  match uall_lhs uenv_define [key; val] [UVInt i; UVValue v] ([] :: env) with
  | Some env1 =>
      bodyf ([] :: env1) w
            (fun env2 w2 => uvalues_loop bodyf key val r (S i) (tl (tl env2)) w2 kn)
            (fun env2 w2 => kn (tl (tl env2)) w2)
  | None => UStuck "range variables"
  end.
Proof. reflexivity. Qed.

Section Loops.
  Variable se : senv.
  Variable globals : list (str * cval).

  (* A loop  for key, val := range es  over expressions, in a function whose variables are [upd acc]
     (acc: the slice collected so far), every turn of which - from any world - evaluates the
     expression, returns the error through [kr], or goes on with the value appended (fuel and heap as
     they were): read back, the loop is the model's eval_list, and what follows it runs with all the
     values, the last state and the fuel [f0] of the loop's entry. *)
  Lemma uexprs_loop_eval_list : forall site bodyf key val (upd : list value -> uenv) kn (kr : ukont),
    (forall i e acc o st f heap kn' kb' next,
       (forall s1 s2 acc' w, kn' (s1 :: s2 :: upd acc') w = next acc' w) ->
       match uall_lhs uenv_define [key; val] [UVInt i; UVExpr e] ([] :: upd acc) with
       | Some env1 => bodyf ([] :: env1) (mkUW o st f heap) kn' kb'
       | None => UStuck "range variables"
       end = match PV.Model.Exec.eval se globals f st e with
             | Ok (v, st1) => next (slice_append acc v) (mkUW o st1 f heap)
             | Err kind => kr [UVErr kind] (mkUW o st f heap)
             | other => UStop (stop_of other) (mkUW o st f heap)
             end) ->
    (forall kind w, uread_exec site (kr [UVErr kind] w) = Some (uw_out w, Err kind)) ->
    forall es i acc o st f f0 heap,
    uread_exec site (uexprs_loop bodyf key val es i f0 (upd acc) (mkUW o st f heap) kn) =
    match eval_list se globals f st es with
    | Ok (vs, st1) => uread_exec site (kn (upd (acc ++ vs)%list) (mkUW o st1 f0 heap))
    | Err kind => Some (o, Err kind)
    | Unmod => Some (o, Unmod)
    | Fuel => Some (o, Fuel)
    | Panic s => Some (o, Panic s)
    end.
  Proof.
    intros site bodyf key val upd kn kr Hturn Hkr.
    induction es as [|e r IH]; intros i acc o st f f0 heap.
    - destruct f as [|f].
      + rewrite uexprs_loop_fuel0, eval_list_0'. reflexivity.
      + rewrite uexprs_loop_nil, eval_list_S_nil', app_nil_r. reflexivity.
    - destruct f as [|f].
      + rewrite uexprs_loop_fuel0, eval_list_0'. reflexivity.
      + rewrite uexprs_loop_cons, eval_list_S_cons'.
        rewrite (Hturn i e acc o st f heap _ _
                   (fun acc' w => uexprs_loop bodyf key val r (S i) f0 (upd acc') w kn) (fun s1 s2 acc' w => eq_refl)).
        destruct (PV.Model.Exec.eval se globals f st e) as [[v st1]|k| | |s]; try reflexivity.
        * cbv beta. rewrite IH. unfold slice_append.
          destruct (eval_list se globals f st1 r) as [[vs st2]|k| | |s]; try reflexivity.
          rewrite <- app_assoc. reflexivity.
        * rewrite Hkr. reflexivity.
  Qed.

  (* A loop  for key, val := range r  over values (the remembered ones from number i on), in a function
     whose variables are [updc b] (b: the flag), every turn of which indexes the new values [now] at
     the loop's key, compares, and either goes on or sets the flag and breaks: when there are enough
     new values and the model's fold over the pairs says [c], the loop leaves the flag at b || c. *)
  Lemma uvalues_loop_changed : forall bodyf key val (updc : bool -> uenv) (now : list value) kn,
    (forall i x b w kn' kb' nextn nextb,
       (forall s1 s2 b' w', kn' (s1 :: s2 :: updc b') w' = nextn b' w') ->
       (forall s1 s2 b' w', kb' (s1 :: s2 :: updc b') w' = nextb b' w') ->
       match uall_lhs uenv_define [key; val] [UVInt i; UVValue x] ([] :: updc b) with
       | Some env1 => bodyf ([] :: env1) w kn' kb'
       | None => UStuck "range variables"
       end = match seq_index now i with
             | None => UPanic "index out of range" w
             | Some y => match equal_value_to (vv x) (vv y) with
                         | None => UStop SUnmod w
                         | Some true => nextn b w
                         | Some false => nextb true w
                         end
             end) ->
    forall r i b w c, (i + List.length r <= List.length now)%nat ->
      pairs_changed (combine r (skipn i now)) = Some c ->
      uvalues_loop bodyf key val r i (updc b) w kn = kn (updc (b || c)%bool) w.
  Proof.
    intros bodyf key val updc now kn Hturn.
    induction r as [|x r IH]; intros i b w c Hlen Hc.
    - rewrite uvalues_loop_nil. cbn in Hc. injection Hc as <-. rewrite Bool.orb_false_r. reflexivity.
    - cbn [List.length] in Hlen. rewrite uvalues_loop_cons.
      rewrite (Hturn i x b w _ _ (fun b' w' => uvalues_loop bodyf key val r (S i) (updc b') w' kn)
                 (fun b' w' => kn (updc b') w') (fun s1 s2 b' w' => eq_refl) (fun s1 s2 b' w' => eq_refl)).
      unfold seq_index.
      destruct (nth_error now i) as [y|] eqn:Hy; [|apply nth_error_None in Hy; lia].
      assert (Hsk : skipn i now = y :: skipn (S i) now).
      { clear - Hy. revert i Hy. induction now as [|a n IHn]; intros [|i] Hy; try discriminate Hy.
        - injection Hy as ->. reflexivity.
        - cbn [nth_error] in Hy. rewrite (skipn_cons i a n). rewrite (IHn i Hy). reflexivity. }
      rewrite Hsk in Hc. cbn [combine] in Hc. rewrite pairs_changed_cons in Hc.
      destruct (pairs_changed (combine r (skipn (S i) now))) as [a|] eqn:Ha; [|discriminate Hc].
      destruct (equal_value_to (vv x) (vv y)) as [[|]|]; try discriminate Hc; injection Hc as <-.
      + cbv beta. rewrite (IH (S i) b w a) by (try lia; exact Ha). rewrite Bool.orb_false_r. reflexivity.
      + rewrite Bool.orb_true_r, Bool.orb_true_r. reflexivity.
  Qed.
End Loops.

(* ---------- the stepping tactics ---------- *)
Ltac u3_eval_stmt :=
  lazy - [PV.Model.Exec.eval exec_nodes exec_node eval_list equal_value_to changed_model pairs_changed
          f_auto f_exec ms_frames ms_nodes with_auto with_priv ctx_set ns_get ns_set ifch_vals ifch_content
          int_add int_gt int_eq seq_len seq_index out_app slice_append str_eqb uexprs_loop uvalues_loop
          uf_exec_list uexec_block uf_call_step uread_exec after top_frame].
(* what is known about the model's primitives (equations in the context) *)
Ltac u3_known :=
  repeat match goal with
         | H : top_frame ?s = _ |- context [top_frame ?s] => rewrite H
         | H : ns_get ?e ?n ?l = _ |- context [ns_get ?e ?n ?l] => rewrite H
         | H : exec_nodes ?a ?b ?c ?d ?e = _ |- context [exec_nodes ?a ?b ?c ?d ?e] => rewrite H
         | H : ifch_content ?a ?b ?c = _ |- context [ifch_content ?a ?b ?c] => rewrite H
         | H : ifch_vals ?a ?b ?c = _ |- context [ifch_vals ?a ?b ?c] => rewrite H
         | H : changed_model ?a ?b = _ |- context [changed_model ?a ?b] => rewrite H
         | |- context [int_eq (seq_len (@nil ?A)) 0] => change (int_eq (seq_len (@nil A)) 0) with true
         | |- context [int_eq (seq_len (?x :: ?r)) 0] => change (int_eq (seq_len (x :: r)) 0) with false
         end.
Ltac u3_run := u3_eval_stmt; u3_known; u3_eval_stmt.
(* a call of a primitive *)
Ltac u3_prim := match goal with H : forall recv m args w k, utype_of recv = None -> _ |- _ => rewrite H by reflexivity end.
Ltac u3_go := u3_run; repeat (u3_prim; u3_run).
(* the next statement of a function body or of a block; if and range by their equations *)
Ltac u3_step :=
  first [rewrite uf_exec_list_cons | rewrite uexec_block_cons | rewrite uexec_block_nil];
  try rewrite uf_exec_if; try rewrite uf_exec_range; rewrite ?uexec_block_nil; u3_go.
Ltac u3_enter := rewrite uf_call_step_eq; u3_run.
Ltac u3_fin :=
  unfold uread_exec, after, xok, xfail; cbn [fst snd uw_out uw_st res_of_stop stop_of];
  rewrite ?out_app_nil; try reflexivity.
