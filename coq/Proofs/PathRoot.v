(* Paths: taking the root name (filepath.Join(".", p), what a loader of the model is asked for)
   of a cleaned path that is not rooted gives the path back; of a rooted one it never does.
   Used by Tie/C11w.v to say exactly when the model's second resolution of a name changes nothing:
   [root_name_unrooted], [root_name_rooted], and for the names a lookup asks for
   [fsloader_abs_root_stable] / [fsloader_abs_root_unstable]. *)
From PV Require Import Lib.Path Model.ParseDoc Spec.SpecLoaders Proofs.Compose.
Open Scope N_scope.

Definition unrooted (p : str) : Prop := path_is_abs p = false.

Lemma str_eqb_true : forall a b : str, str_eqb a b = true -> a = b.
Proof.
  induction a as [|x a IH]; intros [|y b] H; cbn [str_eqb] in H; try discriminate H; [reflexivity|].
  apply andb_true_iff in H. destruct H as [H1 H2]. apply N.eqb_eq in H1. subst y. f_equal. apply IH. exact H2.
Qed.

(* ---------- split and join on slashes ---------- *)
Lemma split_app_no_slash : forall e cur rest,
  no_slash e = true ->
  split_go [slash] 0 cur (e ++ rest) = split_go [slash] 0 (rev e ++ cur) rest.
Proof.
  induction e as [|c e IH]; intros cur rest H; [reflexivity|].
  cbn [no_slash forallb] in H. apply andb_true_iff in H. destruct H as [Hc He].
  cbn [app]. rewrite split_slash_cons.
  destruct (c =? slash); [discriminate Hc|].
  rewrite (IH (c :: cur) rest He). cbn [rev]. rewrite <- app_assoc. reflexivity.
Qed.

Lemma split_join : forall L e cur,
  Forall (fun x => no_slash x = true) (e :: L) ->
  split_go [slash] 0 cur (join_go [slash] (e :: L)) = (rev cur ++ e) :: L.
Proof.
  induction L as [|e2 L IH]; intros e cur H.
  - cbn [join_go]. rewrite <- (app_nil_r e) at 1.
    rewrite split_app_no_slash by (inversion H; assumption).
    cbn [split_go]. rewrite rev_app_distr, rev_involutive. reflexivity.
  - change (join_go [slash] (e :: e2 :: L)) with (e ++ [slash] ++ join_go [slash] (e2 :: L)).
    rewrite split_app_no_slash by (inversion H; assumption).
    cbn [app]. rewrite split_slash_cons, N.eqb_refl.
    rewrite IH by (inversion H; assumption).
    rewrite rev_app_distr, rev_involutive. reflexivity.
Qed.

Lemma split_no_slash : forall s cur,
  no_slash cur = true ->
  Forall (fun x => no_slash x = true) (split_go [slash] 0 cur s).
Proof.
  assert (Hrev : forall l, no_slash l = true -> no_slash (rev l) = true).
  { intros l H. unfold no_slash in *. rewrite forallb_forall in *. intros x Hx. apply H. apply in_rev. exact Hx. }
  induction s as [|c s IH]; intros cur H.
  - cbn [split_go]. constructor; [apply Hrev; exact H|constructor].
  - rewrite split_slash_cons. destruct (c =? slash) eqn:Ec.
    + constructor; [apply Hrev; exact H|]. apply IH. reflexivity.
    + apply IH. cbn [no_slash forallb]. rewrite Ec. exact H.
Qed.

(* ---------- the stack of path_clean, for a path that is not rooted ---------- *)
Definition is_dotdot (e : str) : Prop := e = dotdot.
(* ".." elements at the bottom only, no empty element, no "." *)
Inductive good : list str -> Prop :=
| good_dd : forall S, Forall is_dotdot S -> good S
| good_push : forall e S, good S -> e <> [] -> str_eqb e dot = false -> str_eqb e dotdot = false -> good (e :: S).

Lemma good_tail : forall x S, good (x :: S) -> good S.
Proof.
  intros x S H. inversion H as [S0 Hd|e S0 Hg]; subst; [|exact Hg].
  apply good_dd. inversion Hd; assumption.
Qed.

Lemma clean_step_good : forall S e, good S -> good (clean_step false S e).
Proof.
  intros S e H. unfold clean_step. destruct e as [|c e]; [exact H|].
  destruct (str_eqb (c :: e) dot) eqn:Edot; [exact H|].
  destruct (str_eqb (c :: e) dotdot) eqn:Edd.
  - apply str_eqb_true in Edd. destruct S as [|top rest].
    + apply good_dd. constructor; [exact Edd|constructor].
    + destruct (str_eqb top dotdot) eqn:Etop.
      * inversion H as [S0 Hd|e0 S0 Hg Hne Hd1 Hd2].
        -- apply good_dd. constructor; [exact Edd|exact Hd].
        -- rewrite Etop in Hd2. discriminate Hd2.
      * exact (good_tail _ _ H).
  - apply good_push; [exact H|discriminate|exact Edot|exact Edd].
Qed.

Lemma fold_good : forall es S, good S -> good (fold_left (clean_step false) es S).
Proof.
  induction es as [|e es IH]; intros S H; [exact H|]. cbn [fold_left]. apply IH, clean_step_good, H.
Qed.

Lemma fold_dotdots : forall S T,
  Forall is_dotdot S -> Forall is_dotdot T -> fold_left (clean_step false) S T = rev S ++ T.
Proof.
  induction S as [|e S IH]; intros T HS HT; [reflexivity|].
  inversion HS as [|e0 S0 He HS']; subst. cbn [fold_left rev].
  assert (Estep : clean_step false T e = e :: T).
  { unfold is_dotdot in He. subst e. destruct T as [|top rest]; [reflexivity|].
    inversion HT as [|t0 r0 Ht _]; subst. unfold is_dotdot in Ht. subst top. reflexivity. }
  rewrite Estep, IH; [|exact HS'|constructor; assumption].
  rewrite <- app_assoc. reflexivity.
Qed.

(* feeding a good stack, bottom first, to the cleaner rebuilds it *)
Lemma good_stable : forall S, good S -> fold_left (clean_step false) (rev S) [] = S.
Proof.
  intros S H. induction H as [S Hd|e S Hg IH Hne Hdot Hdd].
  - rewrite fold_dotdots; [rewrite rev_involutive, app_nil_r; reflexivity| |constructor].
    apply Forall_forall. intros x Hx. apply in_rev in Hx. rewrite Forall_forall in Hd. apply Hd. exact Hx.
  - cbn [rev]. rewrite fold_left_app, IH. cbn [fold_left]. unfold clean_step.
    destruct e as [|c e]; [contradiction Hne; reflexivity|]. rewrite Hdot, Hdd. reflexivity.
Qed.

(* what the stack holds came from the elements, minus the empty ones *)
Definition ok_elem (x : str) : Prop := no_slash x = true /\ x <> [].

Lemma clean_step_elems : forall S e,
  no_slash e = true -> Forall ok_elem S -> Forall ok_elem (clean_step false S e).
Proof.
  intros S e He HS. unfold clean_step. destruct e as [|c e]; [exact HS|].
  destruct (str_eqb (c :: e) dot); [exact HS|].
  destruct (str_eqb (c :: e) dotdot).
  - destruct S as [|top rest].
    + constructor; [split; [exact He|discriminate]|constructor].
    + destruct (str_eqb top dotdot); [constructor; [split; [exact He|discriminate]|exact HS]|].
      inversion HS; assumption.
  - constructor; [split; [exact He|discriminate]|exact HS].
Qed.

Lemma fold_elems : forall es S,
  Forall (fun x => no_slash x = true) es -> Forall ok_elem S ->
  Forall ok_elem (fold_left (clean_step false) es S).
Proof.
  induction es as [|e es IH]; intros S Hes HS; [exact HS|].
  inversion Hes as [|e0 es0 He Hes']; subst. cbn [fold_left]. apply IH; [exact Hes'|].
  apply clean_step_elems; assumption.
Qed.

(* ---------- path_clean of a path that is not rooted ---------- *)
Definition stack_of (p : str) : list str := fold_left (clean_step false) (split_go [slash] 0 [] p) [].

Lemma path_clean_unrooted : forall c p,
  (c =? slash) = false ->
  path_clean (c :: p) = match join_go [slash] (rev (stack_of (c :: p))) with [] => dot | r => r end.
Proof. intros c p H. unfold path_clean, stack_of. cbv zeta. rewrite H. reflexivity. Qed.

Lemma stack_of_good : forall p, good (stack_of p).
Proof. intros p. apply fold_good, good_dd. constructor. Qed.

Lemma stack_of_elems : forall p, Forall ok_elem (stack_of p).
Proof. intros p. apply fold_elems; [apply split_no_slash; reflexivity|constructor]. Qed.

(* a joined list of slash-free, non-empty elements: not empty, not rooted *)
Lemma join_head : forall e L,
  no_slash e = true -> e <> [] ->
  exists c t, join_go [slash] (e :: L) = c :: t /\ (c =? slash) = false.
Proof.
  intros e L Hs Hne. destruct e as [|c e]; [contradiction Hne; reflexivity|].
  cbn [no_slash forallb] in Hs. apply andb_true_iff in Hs. destruct Hs as [Hc _].
  destruct L as [|e2 L].
  - exists c, e. split; [reflexivity|]. destruct (c =? slash); [discriminate Hc|reflexivity].
  - exists c, (e ++ [slash] ++ join_go [slash] (e2 :: L)). split; [reflexivity|].
    destruct (c =? slash); [discriminate Hc|reflexivity].
Qed.

(* the key fact: for p not rooted, path_clean p is not rooted, and cleaning "./" ++ path_clean p
   gives path_clean p back *)
Lemma clean_dot_slash_clean : forall p,
  unrooted p ->
  unrooted (path_clean p) /\ path_clean (dot ++ [slash] ++ path_clean p) = path_clean p.
Proof.
  intros p Hp. destruct p as [|c p].
  - split; vm_compute; reflexivity.
  - assert (Hc : (c =? slash) = false) by exact Hp.
    rewrite (path_clean_unrooted c p Hc).
    pose proof (stack_of_good (c :: p)) as Hgood.
    pose proof (stack_of_elems (c :: p)) as Helems.
    set (S := stack_of (c :: p)) in *.
    destruct (rev S) as [|e L] eqn:Erev.
    + (* everything cancelled: "." *)
      cbn [join_go]. split; vm_compute; reflexivity.
    + assert (HL : Forall ok_elem (e :: L)).
      { rewrite <- Erev. apply Forall_forall. intros x Hx. apply in_rev in Hx.
        rewrite Forall_forall in Helems. apply Helems. exact Hx. }
      assert (He : no_slash e = true /\ e <> []) by (inversion HL; assumption).
      destruct (join_head e L (proj1 He) (proj2 He)) as [c1 [t1 [Ej Hc1]]].
      rewrite Ej. split; [exact Hc1|].
      (* "./" ++ join (e :: L) = join ("." :: e :: L) *)
      rewrite <- Ej.
      change (dot ++ [slash] ++ join_go [slash] (e :: L)) with (join_go [slash] (dot :: e :: L)).
      assert (Hd : (46 =? slash) = false) by reflexivity.
      change (join_go [slash] (dot :: e :: L)) with (46 :: [] ++ [slash] ++ join_go [slash] (e :: L)).
      rewrite (path_clean_unrooted 46 _ Hd).
      change (46 :: [] ++ [slash] ++ join_go [slash] (e :: L)) with (join_go [slash] (dot :: e :: L)).
      unfold stack_of. rewrite split_join.
      * change (rev [] ++ dot) with dot.
        change (fold_left (clean_step false) (dot :: e :: L) []) with (fold_left (clean_step false) (e :: L) []).
        rewrite <- Erev, (good_stable S Hgood), Erev, Ej. reflexivity.
      * constructor; [reflexivity|]. apply Forall_forall. intros x Hx.
        rewrite Forall_forall in HL. exact (proj1 (HL x Hx)).
Qed.

(* a rooted path stays rooted *)
Lemma path_clean_rooted : forall p, path_is_abs p = true -> path_is_abs (path_clean p) = true.
Proof.
  intros [|c p] H; [discriminate H|]. cbn [path_is_abs] in H.
  unfold path_clean. cbv zeta. rewrite H. reflexivity.
Qed.

(* ---------- root names ---------- *)
Lemma path_dir_nil : path_dir [] = dot.
Proof. reflexivity. Qed.

Lemma loader_name_of_clean : forall x, x <> [] -> loader_name x = path_clean (dot ++ [slash] ++ x).
Proof.
  intros x Hx. unfold loader_name, fsloader_abs. rewrite path_dir_nil.
  destruct x as [|c x]; [contradiction Hx; reflexivity|reflexivity].
Qed.

(* the root name of a cleaned path that is not rooted is that path *)
Lemma root_name_unrooted : forall p, unrooted p -> loader_name (path_clean p) = path_clean p.
Proof.
  intros p Hp. rewrite loader_name_of_clean by apply path_clean_nonempty.
  exact (proj2 (clean_dot_slash_clean p Hp)).
Qed.

(* a root name is never rooted *)
Lemma loader_name_is_unrooted : forall x, unrooted (loader_name x).
Proof.
  intros x. unfold loader_name, fsloader_abs. rewrite path_dir_nil. unfold path_join2.
  destruct x as [|c x]; [vm_compute; reflexivity|].
  cbn [dot]. apply (proj1 (clean_dot_slash_clean (dot ++ [slash] ++ c :: x) eq_refl)).
Qed.

(* ... so the root name of a rooted path is another path *)
Lemma root_name_rooted : forall x, path_is_abs x = true -> loader_name x <> x.
Proof.
  intros x Hx E. pose proof (loader_name_is_unrooted x) as Hu. rewrite E in Hu.
  unfold unrooted in Hu. rewrite Hx in Hu. discriminate Hu.
Qed.

(* ---------- the names a lookup asks for ---------- *)
Lemma dir_part_unrooted : forall n, unrooted n -> unrooted (dir_part n).
Proof.
  intros n Hn. destruct (dir_part_split n) as [base [E _]].
  destruct (dir_part n) as [|c d] eqn:Ed; [reflexivity|].
  rewrite E in Hn. exact Hn.
Qed.

Lemma dir_part_rooted : forall n, path_is_abs n = true -> path_is_abs (dir_part n) = true.
Proof.
  intros [|c n] H; [discriminate H|]. cbn [path_is_abs] in H.
  rewrite dir_part_cons. destruct (dir_part n); [rewrite H|]; cbn [path_is_abs]; exact H.
Qed.

(* filepath.Join(filepath.Dir(n), f) is the clean form of a path that is rooted exactly when n is *)
Lemma fsloader_abs_is_clean : forall n f,
  exists q, fsloader_abs n f = path_clean q /\ path_is_abs q = path_is_abs n.
Proof.
  intros n f. unfold fsloader_abs, path_join2.
  assert (Hd : path_is_abs (path_dir n) = path_is_abs n).
  { unfold path_dir. destruct (path_is_abs n) eqn:Hn.
    - apply path_clean_rooted, dir_part_rooted, Hn.
    - apply (proj1 (clean_dot_slash_clean _ (dir_part_unrooted n Hn))). }
  destruct (path_dir n) as [|dc d] eqn:Ed; [exfalso; exact (path_clean_nonempty _ Ed)|].
  destruct f as [|fc f].
  - exists (dc :: d). split; [reflexivity|exact Hd].
  - exists ((dc :: d) ++ [slash] ++ fc :: f). split; [reflexivity|exact Hd].
Qed.

(* a name resolved against a referrer that is not rooted is its own root name *)
Lemma fsloader_abs_root_stable : forall n f, unrooted n -> loader_name (fsloader_abs n f) = fsloader_abs n f.
Proof.
  intros n f Hn. destruct (fsloader_abs_is_clean n f) as [q [E Hq]]. rewrite E.
  apply root_name_unrooted. unfold unrooted. rewrite Hq. exact Hn.
Qed.

(* against a rooted referrer it never is *)
Lemma fsloader_abs_root_unstable : forall n f,
  path_is_abs n = true -> loader_name (fsloader_abs n f) <> fsloader_abs n f.
Proof.
  intros n f Hn. destruct (fsloader_abs_is_clean n f) as [q [E Hq]]. rewrite E.
  apply root_name_rooted, path_clean_rooted. rewrite Hq. exact Hn.
Qed.
