(* Proofs for property C09, syntax half (Props/C09s.v): compiling the source text of a document
   of Spec/SpecSyntax.v (text, {{ name }}, if / elif / else, for / empty, any nesting) gives
   the expected tree.

   The chain: (1) the source of a document is a list of lexer fragments (one text fragment per
   text, one self-contained code fragment per {{ }} and per {% %}), so Proofs/LexB.v's
   composition lemma gives its token list; (2) the annotation pass distributes over the
   concatenation of token lists ([annx]: annotate with an explicit right neighbour); (3) the
   document parser, by induction on the document, with explicit fuel: an element by
   [parse_elem], a body by [wrap_until] up to the tag that ends it, the chain of an if by
   [if_branches]; (4) compile_src; (5) composition with Proofs/Flow.v's lemmas on NIf.
   The big mutual fixpoints are only opened by one-step equations proved by reflexivity. *)
From Coq Require Import Lia Arith Bool.
From PV Require Import Lib.Bytes Lib.GoInt Lib.Outcome gen.Tables Model.Lexer Model.Api.
From PV Require Import Spec.SpecLex Spec.SpecRender Spec.SpecTrim Spec.SpecDash Spec.SpecFlow Spec.SpecSyntax.
From PV Require Import Proofs.LexA Proofs.LexB Proofs.Render Proofs.Compose Proofs.Dash Proofs.Flow.
Open Scope N_scope.

(* ====================================================================================== *)
(* 0. induction over documents                                                              *)
(* ====================================================================================== *)

Definition opt_all (Q : list dnode -> Prop) (o : option (list dnode)) : Prop :=
  match o with Some e => Q e | None => True end.

Section DnodeInd.
  Variable P : dnode -> Prop.
  Hypothesis HT : forall s, P (DText s).
  Hypothesis HV : forall n, P (DVar n).
  Hypothesis HI : forall c b elifs els,
    Forall P b -> Forall (fun cb => Forall P (snd cb)) elifs ->
    opt_all (Forall P) els -> P (DIf c b elifs els).
  Hypothesis HF : forall x s rv so b em,
    Forall P b -> opt_all (Forall P) em -> P (DFor x s rv so b em).

  Fixpoint dnode_ind' (d : dnode) : P d :=
    match d with
    | DText s => HT s
    | DVar n => HV n
    | DIf c b elifs els =>
        HI c b elifs els
          ((fix fl (l : list dnode) : Forall P l :=
              match l with [] => Forall_nil P | x :: r => Forall_cons x (dnode_ind' x) (fl r) end) b)
          ((fix fe (l : list (cond * list dnode)) : Forall (fun cb => Forall P (snd cb)) l :=
              match l with
              | [] => Forall_nil _
              | cb :: r =>
                  Forall_cons (P := fun cb => Forall P (snd cb)) cb
                    (match cb as cb0 return Forall P (snd cb0) with
                     | (_, bi) =>
                         (fix fl (l : list dnode) : Forall P l :=
                            match l with [] => Forall_nil P | x :: r => Forall_cons x (dnode_ind' x) (fl r) end) bi
                     end)
                    (fe r)
              end) elifs)
          (match els as o return opt_all (Forall P) o with
           | Some e =>
               (fix fl (l : list dnode) : Forall P l :=
                  match l with [] => Forall_nil P | x :: r => Forall_cons x (dnode_ind' x) (fl r) end) e
           | None => I
           end)
    | DFor x s rv so b em =>
        HF x s rv so b em
          ((fix fl (l : list dnode) : Forall P l :=
              match l with [] => Forall_nil P | x :: r => Forall_cons x (dnode_ind' x) (fl r) end) b)
          (match em as o return opt_all (Forall P) o with
           | Some e =>
               (fix fl (l : list dnode) : Forall P l :=
                  match l with [] => Forall_nil P | x :: r => Forall_cons x (dnode_ind' x) (fl r) end) e
           | None => I
           end)
    end.

  Lemma dlist_ind' : forall l, Forall P l.
  Proof. induction l as [|x r IH]; constructor; [apply dnode_ind'|exact IH]. Qed.
End DnodeInd.

(* ====================================================================================== *)
(* 1. the fragments of a document                                                           *)
(* ====================================================================================== *)

(* a word of a tag with the token type the lexer gives it *)
Definition tword := (toktyp * str)%type.
Definition wid (w : str) : tword := (TIdentifier, w).
Definition wkw (w : str) : tword := (TKeyword, w).

Definition words_src (ws : list str) : str := flat_map (fun w => w ++ [32]) ws.

Fixpoint word_toks (ws : list tword) (l c : Z) : list token :=
  match ws with
  | [] => []
  | (ty, w) :: r => mkTok ty w l c false :: word_toks r l (c + zlen w + 1)%Z
  end.

Definition t_open (l c : Z) : token := mkTok TSymbol [123; 37] l c false.
Definition t_close (l c : Z) : token := mkTok TSymbol [37; 125] l c false.

Definition tag_toks (ws : list tword) (l c : Z) : list token :=
  t_open l c :: word_toks ws l (c + 3)%Z ++ [t_close l (c + 3 + zlen (words_src (map snd ws)))%Z].

Definition tag_frag (ws : list tword) : frag := FCode (tag_src (map snd ws)) (tag_toks ws).

Definition cond_tw (c : cond) : list tword :=
  match c with CName n => [wid n] | CNot n => [wkw w_not; wid n] end.
Definition if_tw (c : cond) : list tword := wid w_if :: cond_tw c.
Definition elif_tw (c : cond) : list tword := wid w_elif :: cond_tw c.
Definition else_tw : list tword := [wid w_else].
Definition endif_tw : list tword := [wid w_endif].
Definition for_args_tw (x s : str) (rv so : bool) : list tword :=
  [wid x; wkw w_in; wid s] ++ (if rv then [wid w_reversed] else []) ++
  (if so then [wid w_sorted] else []).
Definition for_tw (x s : str) (rv so : bool) : list tword := wid w_for :: for_args_tw x s rv so.
Definition empty_tw : list tword := [wid w_empty].
Definition endfor_tw : list tword := [wid w_endfor].

Fixpoint frags_node (d : dnode) : list frag :=
  match d with
  | DText s => [FText s]
  | DVar n => [var_frag n false false]
  | DIf c b elifs els =>
      tag_frag (if_tw c) :: flat_map frags_node b ++
      flat_map (fun cb => match cb with
                          | (ci, bi) => tag_frag (elif_tw ci) :: flat_map frags_node bi
                          end) elifs ++
      match els with Some e => tag_frag else_tw :: flat_map frags_node e | None => [] end ++
      [tag_frag endif_tw]
  | DFor x s rv so b em =>
      tag_frag (for_tw x s rv so) :: flat_map frags_node b ++
      match em with Some e => tag_frag empty_tw :: flat_map frags_node e | None => [] end ++
      [tag_frag endfor_tw]
  end.
Definition frags_list (l : list dnode) : list frag := flat_map frags_node l.

(* the tokens of a document at a position *)
Definition toks_node (d : dnode) (p : Z * Z) : list token := frags_toks (frags_node d) p.
Definition toks_list (l : list dnode) (p : Z * Z) : list token := frags_toks (frags_list l) p.

(* the sections that follow the first body of an if / a for: header tag and body *)
Definition sec := (list tword * list dnode)%type.
Definition frags_secs (ss : list sec) : list frag :=
  flat_map (fun s : sec => tag_frag (fst s) :: frags_list (snd s)) ss.
Definition if_secs (elifs : list (cond * list dnode)) (els : option (list dnode)) : list sec :=
  map (fun cb : cond * list dnode => (elif_tw (fst cb), snd cb)) elifs ++
  match els with Some e => [(else_tw, e)] | None => [] end.
Definition for_secs (em : option (list dnode)) : list sec :=
  match em with Some e => [(empty_tw, e)] | None => [] end.

Lemma frags_node_if : forall c b elifs els,
  frags_node (DIf c b elifs els) =
  tag_frag (if_tw c) :: frags_list b ++ frags_secs (if_secs elifs els) ++ [tag_frag endif_tw].
Proof.
  intros c b elifs els. cbn [frags_node]. fold (frags_list b). f_equal. f_equal.
  unfold if_secs, frags_secs. rewrite flat_map_app, <- app_assoc. f_equal.
  - induction elifs as [|[ci bi] r IH]; [reflexivity|].
    cbn [flat_map map fst snd]. rewrite IH. reflexivity.
  - destruct els as [e|]; [|reflexivity]. cbn [flat_map fst snd app]. rewrite app_nil_r. reflexivity.
Qed.

Lemma frags_node_for : forall x s rv so b em,
  frags_node (DFor x s rv so b em) =
  tag_frag (for_tw x s rv so) :: frags_list b ++ frags_secs (for_secs em) ++ [tag_frag endfor_tw].
Proof.
  intros x s rv so b em. cbn [frags_node]. fold (frags_list b). f_equal. f_equal.
  destruct em as [e|]; [|reflexivity].
  unfold for_secs, frags_secs. cbn [flat_map fst snd app]. rewrite app_nil_r. reflexivity.
Qed.

Lemma frags_list_cons : forall x r, frags_list (x :: r) = frags_node x ++ frags_list r.
Proof. reflexivity. Qed.

Lemma frags_secs_cons : forall h b ss,
  frags_secs ((h, b) :: ss) = tag_frag h :: frags_list b ++ frags_secs ss.
Proof. reflexivity. Qed.

(* ---------- the source of the fragments is the printed document ---------- *)
Lemma frags_src_app : forall a b, frags_src (a ++ b) = frags_src a ++ frags_src b.
Proof. intros a b. unfold frags_src. apply flat_map_app. Qed.

Lemma frags_src_cons : forall f l, frags_src (f :: l) = frag_src f ++ frags_src l.
Proof. reflexivity. Qed.

Lemma map_snd_cond_tw : forall c, map snd (cond_tw c) = cond_words c.
Proof. intros [n|n]; reflexivity. Qed.

Lemma map_snd_for_tw : forall x s rv so, map snd (for_tw x s rv so) = for_words x s rv so.
Proof. intros x s [|] [|]; reflexivity. Qed.

Lemma frags_src_list : forall l,
  Forall (fun x => frags_src (frags_node x) = print_node x) l ->
  frags_src (frags_list l) = flat_map print_node l.
Proof.
  induction 1 as [|x r Hx _ IH]; [reflexivity|].
  rewrite frags_list_cons, frags_src_app, Hx, IH. reflexivity.
Qed.

Lemma frags_node_src : forall d, frags_src (frags_node d) = print_node d.
Proof.
  induction d as [s|n|c b elifs els Hb He Hl|x s rv so b em Hb Hm] using dnode_ind'.
  - cbn [frags_node]. unfold frags_src. cbn [flat_map frag_src]. apply app_nil_r.
  - cbn [frags_node]. unfold frags_src. cbn [flat_map frag_src var_frag print_node]. apply app_nil_r.
  - cbn [frags_node print_node].
    rewrite frags_src_cons, !frags_src_app. cbn [frag_src tag_frag].
    unfold if_tw. cbn [map snd wid]. rewrite map_snd_cond_tw.
    fold (frags_list b). rewrite (frags_src_list b Hb).
    assert (E1 : frags_src (flat_map (fun cb : cond * list dnode =>
                   match cb with (ci, bi) => tag_frag (elif_tw ci) :: flat_map frags_node bi end) elifs) =
                 flat_map (fun cb : cond * list dnode =>
                   match cb with (ci, bi) => tag_src (w_elif :: cond_words ci) ++ flat_map print_node bi end) elifs).
    { clear Hb Hl. induction He as [|[ci bi] r Hx _ IH]; [reflexivity|].
      cbn [flat_map]. rewrite frags_src_app, IH. f_equal.
      rewrite frags_src_cons. cbn [frag_src tag_frag]. unfold elif_tw. cbn [map snd wid].
      rewrite map_snd_cond_tw. f_equal. fold (frags_list bi). exact (frags_src_list bi Hx). }
    assert (E2 : frags_src (match els with Some e => tag_frag else_tw :: flat_map frags_node e | None => [] end) =
                 match els with Some e => tag_src [w_else] ++ flat_map print_node e | None => [] end).
    { destruct els as [e|]; [|reflexivity].
      rewrite frags_src_cons. cbn [frag_src tag_frag]. f_equal.
      fold (frags_list e). exact (frags_src_list e Hl). }
    rewrite E1, E2. reflexivity.
  - cbn [frags_node print_node].
    rewrite frags_src_cons, !frags_src_app. cbn [frag_src tag_frag].
    rewrite map_snd_for_tw.
    fold (frags_list b). rewrite (frags_src_list b Hb).
    assert (E2 : frags_src (match em with Some e => tag_frag empty_tw :: flat_map frags_node e | None => [] end) =
                 match em with Some e => tag_src [w_empty] ++ flat_map print_node e | None => [] end).
    { destruct em as [e|]; [|reflexivity].
      rewrite frags_src_cons. cbn [frag_src tag_frag]. f_equal.
      fold (frags_list e). exact (frags_src_list e Hm). }
    rewrite E2. reflexivity.
Qed.

Lemma frags_list_src : forall l, frags_src (frags_list l) = print_doc l.
Proof.
  intros l. apply frags_src_list. apply dlist_ind'; intros; apply frags_node_src.
Qed.

(* ====================================================================================== *)
(* 2. lexing a tag                                                                          *)
(* ====================================================================================== *)

Lemma code_open_tag : forall f r l c acc,
  code_go (S f) (123 :: 37 :: 32 :: r) l c acc =
  code_go f (32 :: r) l (c + 2)%Z (t_open l c :: acc).
Proof. reflexivity. Qed.
Lemma code_close_tag : forall f r l c acc,
  code_go (S f) (37 :: 125 :: r) l c acc = CodeOk r (c + 2)%Z (t_close l c :: acc).
Proof. reflexivity. Qed.

(* a word: one or more ASCII letters; [ty] is the type the lexer gives it *)
Definition word_ok (w : str) : Prop :=
  match w with [] => False | b :: t => is_alpha b = true /\ forallb is_alpha t = true end.
Definition tw_ok (x : tword) : Prop := word_ok (snd x) /\ classify_ident (snd x) = fst x.

Lemma word_ok_all : forall w, word_ok w -> forallb is_alpha w = true.
Proof. intros [|b t] H; [destruct H|]. destruct H as [Hb Ht]. cbn [forallb]. rewrite Hb. exact Ht. Qed.

Section TagLex.
  Hypothesis Htab : dash_tables_ok = true.

  Lemma code_word : forall f b t r l c acc,
    is_alpha b = true -> forallb is_alpha t = true ->
    code_go (S f) (b :: t ++ 32 :: r) l c acc =
    code_go f (32 :: r) l (c + zlen (b :: t))%Z (mkTok (classify_ident (b :: t)) (b :: t) l c false :: acc).
  Proof.
    intros f b t r l c acc Hb Ht.
    destruct (tab_parts Htab) as [Ha [H32 [H32d _]]].
    destruct (Ha b Hb) as [Hi [Hs _]].
    cbn [code_go]. rewrite Hs, Hi, (span_letters Htab t r Ht).
    cbn [span]. rewrite H32d. rewrite app_nil_r.
    unfold classify_ident. destruct (existsb (str_eqb (b :: t)) token_keywords); reflexivity.
  Qed.

  Lemma code_words : forall ws, Forall tw_ok ws -> forall f rest l c acc,
    code_go (2 * length ws + f) (words_src (map snd ws) ++ rest) l c acc =
    code_go f rest l (c + zlen (words_src (map snd ws)))%Z (rev (word_toks ws l c) ++ acc).
  Proof.
    induction 1 as [|[ty w] ws [Hw Hty] _ IH]; intros f rest l c acc.
    - cbn [length Nat.mul Nat.add map words_src flat_map app word_toks rev].
      rewrite zlen_nil. f_equal. lia.
    - cbn [snd fst] in Hw, Hty. destruct w as [|b t]; [destruct Hw|]. destruct Hw as [Hb Ht].
      cbn [map snd words_src flat_map]. fold (words_src (map snd ws)).
      cbn [length]. replace (2 * S (length ws) + f)%nat with (S (S (2 * length ws + f))) by lia.
      rewrite <- !app_assoc. cbn [app].
      rewrite (code_word _ b t _ l c acc Hb Ht), Dash.code_space, IH.
      rewrite Hty. cbn [word_toks rev]. rewrite <- app_assoc. cbn [app].
      f_equal. unfold zlen. cbn [length]. rewrite app_length. cbn [length]. lia.
  Qed.

  Lemma words_len : forall ws, Forall tw_ok ws -> (2 * length ws <= length (words_src (map snd ws)))%nat.
  Proof.
    induction 1 as [|[ty w] ws [Hw _] _ IH]; [cbn; lia|].
    cbn [snd] in Hw. destruct w as [|b t]; [destruct Hw|].
    cbn [map snd words_src flat_map]. fold (words_src (map snd ws)).
    rewrite !app_length. cbn [length]. lia.
  Qed.

  Lemma words_nonl : forall ws, Forall tw_ok ws -> existsb (N.eqb 10) (words_src (map snd ws)) = false.
  Proof.
    induction 1 as [|[ty w] ws [Hw _] _ IH]; [reflexivity|].
    cbn [snd] in Hw. cbn [map snd words_src flat_map]. fold (words_src (map snd ws)).
    rewrite !existsb_app, IH, (letters_no_newline Htab w (word_ok_all w Hw)). reflexivity.
  Qed.

  Lemma word_toks_reloc : forall ws l c k,
    word_toks ws l (c + k)%Z = map (reloc l c) (word_toks ws 1 (1 + k))%Z.
  Proof.
    induction ws as [|[ty w] ws IH]; intros l c k; [reflexivity|].
    cbn [word_toks map]. f_equal.
    - unfold reloc. cbn [ttyp tval tcol ttrim]. f_equal. lia.
    - replace (c + k + zlen w + 1)%Z with (c + (k + zlen w + 1))%Z by lia.
      replace (1 + k + zlen w + 1)%Z with (1 + (k + zlen w + 1))%Z by lia.
      apply IH.
  Qed.

  Lemma tag_code_ok : forall ws, Forall tw_ok ws ->
    is_prefix s_verbatim_start (tag_src (map snd ws)) = false ->
    code_ok (tag_src (map snd ws)) (tag_toks ws).
  Proof.
    intros ws Hws Hverb. unfold code_ok. split; [|split; [|split; [|split]]].
    - intros l c. unfold tag_toks. cbn [map]. f_equal.
      + unfold reloc, t_open. cbn [ttyp tval tcol ttrim]. f_equal. lia.
      + rewrite map_app. cbn [map]. f_equal.
        * apply word_toks_reloc.
        * unfold reloc, t_close. cbn [ttyp tval tcol ttrim]. f_equal. f_equal. lia.
    - right. reflexivity.
    - exact Hverb.
    - unfold tag_src. fold (words_src (map snd ws)).
      rewrite !existsb_app, (words_nonl ws Hws). reflexivity.
    - intros rest l c acc f Hf.
      pose proof (words_len ws Hws) as Hl.
      unfold tag_src in *. fold (words_src (map snd ws)) in *.
      rewrite !app_length in Hf. cbn [length] in Hf.
      destruct f as [|[|f]]; [lia|lia|].
      rewrite <- !app_assoc. cbn [app].
      rewrite code_open_tag, Dash.code_space.
      replace f with (2 * length ws + (f - 2 * length ws))%nat by lia.
      rewrite (code_words ws Hws).
      destruct (f - 2 * length ws)%nat as [|g] eqn:Eg; [lia|].
      cbn [app]. rewrite code_close_tag.
      unfold tag_toks. cbn [rev]. rewrite rev_app_distr. cbn [rev app].
      rewrite <- !app_assoc. cbn [app].
      f_equal; [|f_equal].
      + unfold zlen. cbn [length]. rewrite app_length. cbn [length]. lia.
      + unfold t_close. f_equal. lia.
      + replace (c + 2 + 1)%Z with (c + 3)%Z by lia. reflexivity.
  Qed.

  (* ---------- the words of our tags ---------- *)
  Lemma name_tw_ok : forall n, name_ok n = true -> tw_ok (wid n).
  Proof.
    intros n Hn. destruct (name_ok_inv n Hn) as (b & t & En & Hb & Ht & Hk).
    destruct (tab_parts Htab) as [_ [_ [_ Hkw]]].
    split; cbn [snd fst wid].
    - subst n. split; assumption.
    - unfold classify_ident. rewrite (Hkw n Hk). reflexivity.
  Qed.
End TagLex.

(* the fixed words: letters, and the lexer's classification (a fact about token_keywords) *)
Definition syntax_words_ok : Prop :=
  Forall tw_ok [wid w_if; wid w_elif; wid w_else; wid w_endif; wid w_for; wkw w_in; wid w_empty;
                wid w_endfor; wid w_reversed; wid w_sorted; wkw w_not].

Section TagFrags.
  Hypothesis Htab : dash_tables_ok = true.
  Hypothesis Hwords : syntax_words_ok.

  Lemma fixed_words :
    tw_ok (wid w_if) /\ tw_ok (wid w_elif) /\ tw_ok (wid w_else) /\ tw_ok (wid w_endif) /\
    tw_ok (wid w_for) /\ tw_ok (wkw w_in) /\ tw_ok (wid w_empty) /\ tw_ok (wid w_endfor) /\
    tw_ok (wid w_reversed) /\ tw_ok (wid w_sorted) /\ tw_ok (wkw w_not).
  Proof.
    unfold syntax_words_ok in Hwords.
    repeat match goal with H : Forall _ (_ :: _) |- _ => inversion H; clear H; subst end.
    repeat split; assumption.
  Qed.

  Lemma cond_tw_ok : forall c, cond_ok c = true -> Forall tw_ok (cond_tw c).
  Proof.
    destruct fixed_words as (_ & _ & _ & _ & _ & _ & _ & _ & _ & _ & Hnot).
    intros [n|n] H; cbn [cond_ok] in H; cbn [cond_tw].
    - apply Forall_cons; [exact (name_tw_ok Htab n H)|apply Forall_nil].
    - apply Forall_cons; [exact Hnot|].
      apply Forall_cons; [exact (name_tw_ok Htab n H)|apply Forall_nil].
  Qed.

  Lemma if_tag_ok : forall c, cond_ok c = true -> frag_ok (tag_frag (if_tw c)) [].
  Proof.
    destruct fixed_words as (Hif & _).
    intros c Hc. apply (tag_code_ok Htab).
    - constructor; [exact Hif|exact (cond_tw_ok c Hc)].
    - reflexivity.
  Qed.
  Lemma elif_tag_ok : forall c, cond_ok c = true -> frag_ok (tag_frag (elif_tw c)) [].
  Proof.
    destruct fixed_words as (_ & Helif & _).
    intros c Hc. apply (tag_code_ok Htab).
    - constructor; [exact Helif|exact (cond_tw_ok c Hc)].
    - reflexivity.
  Qed.
  Lemma else_tag_ok : frag_ok (tag_frag else_tw) [].
  Proof.
    destruct fixed_words as (_ & _ & H & _).
    apply (tag_code_ok Htab); [apply Forall_cons; [exact H|apply Forall_nil]|reflexivity].
  Qed.
  Lemma endif_tag_ok : frag_ok (tag_frag endif_tw) [].
  Proof.
    destruct fixed_words as (_ & _ & _ & H & _).
    apply (tag_code_ok Htab); [apply Forall_cons; [exact H|apply Forall_nil]|reflexivity].
  Qed.
  Lemma empty_tag_ok : frag_ok (tag_frag empty_tw) [].
  Proof.
    destruct fixed_words as (_ & _ & _ & _ & _ & _ & H & _).
    apply (tag_code_ok Htab); [apply Forall_cons; [exact H|apply Forall_nil]|reflexivity].
  Qed.
  Lemma endfor_tag_ok : frag_ok (tag_frag endfor_tw) [].
  Proof.
    destruct fixed_words as (_ & _ & _ & _ & _ & _ & _ & H & _).
    apply (tag_code_ok Htab); [apply Forall_cons; [exact H|apply Forall_nil]|reflexivity].
  Qed.
  Lemma for_tag_ok : forall x s rv so, name_ok x = true -> name_ok s = true ->
    frag_ok (tag_frag (for_tw x s rv so)) [].
  Proof.
    destruct fixed_words as (_ & _ & _ & _ & Hfor & Hin & _ & _ & Hrev & Hsor & _).
    intros x s rv so Hx Hs. apply (tag_code_ok Htab).
    - unfold for_tw, for_args_tw. cbn [app].
      apply Forall_cons; [exact Hfor|].
      apply Forall_cons; [exact (name_tw_ok Htab x Hx)|].
      apply Forall_cons; [exact Hin|].
      apply Forall_cons; [exact (name_tw_ok Htab s Hs)|].
      apply Forall_app. split.
      + destruct rv; [apply Forall_cons; [exact Hrev|]|]; apply Forall_nil.
      + destruct so; [apply Forall_cons; [exact Hsor|]|]; apply Forall_nil.
    - reflexivity.
  Qed.
End TagFrags.

(* ====================================================================================== *)
(* 3. the fragments of a well-formed document are independent                               *)
(* ====================================================================================== *)

(* what may follow a text: nothing, or a construct that starts with "{" *)
Definition head_ok (K : list frag) : Prop :=
  match K with
  | [] => True
  | FCode src _ :: _ => firstn 1 src = [123]
  | _ => False
  end.

Lemma delim_free_prefix : forall a b, delim_free (a ++ b) = true -> delim_free a = true.
Proof.
  induction a as [|x a IH]; intros b H; [reflexivity|].
  change ((x :: a) ++ b) with (x :: (a ++ b)) in H. cbn [delim_free] in *.
  apply andb_true_iff in H. destruct H as [H1 H2]. rewrite (IH b H2), andb_true_r.
  destruct a as [|d a]; [rewrite andb_false_r; reflexivity|exact H1].
Qed.

Lemma frags_ok_text : forall s K, text_ok s = true -> frags_ok K -> head_ok K -> frags_ok (FText s :: K).
Proof.
  intros s K Hs HK Hh. unfold text_ok in Hs.
  destruct s as [|b s]; [discriminate|].
  cbn [frags_ok frag_ok]. split; [split; [discriminate|]|split; [exact HK|]].
  - destruct K as [|[t|bd|cm|src toks] K]; cbn [head_ok] in Hh; try (exfalso; exact Hh).
    + cbn [frags_src flat_map firstn]. rewrite app_nil_r. exact (delim_free_prefix _ _ Hs).
    + rewrite frags_src_cons. cbn [frag_src].
      destruct src as [|y src]; [discriminate|]. cbn [firstn] in Hh. injection Hh as Hy. subst y.
      exact Hs.
  - destruct K as [|[t|bd|cm|src toks] K]; cbn [head_ok] in Hh; try (exfalso; exact Hh); exact I.
Qed.

Lemma frags_ok_code : forall src toks K, code_ok src toks -> frags_ok K -> frags_ok (FCode src toks :: K).
Proof. intros src toks K Hc HK. cbn [frags_ok frag_ok]. split; [exact Hc|split; [exact HK|exact I]]. Qed.

Lemma tag_head_ok : forall ws K, head_ok (tag_frag ws :: K).
Proof. reflexivity. Qed.

Lemma wf_body : forall l, forallb wf_node l && no_adjacent_text l = true ->
  forallb wf_node l = true /\ no_adjacent_text l = true.
Proof. intros l H. apply andb_true_iff in H. exact H. Qed.

Section FragsOk.
  Hypothesis Htab : dash_tables_ok = true.
  Hypothesis Hwords : syntax_words_ok.

  (* prepending the fragments of a node / a list to independent fragments: the result is
     independent again, and it starts with a construct ("{") unless the node is a text *)
  Definition node_frags_ok (x : dnode) : Prop :=
    wf_node x = true -> forall K, frags_ok K ->
    match x with DText _ => head_ok K | _ => True end ->
    frags_ok (frags_node x ++ K) /\ head_ok (frags_node x ++ K) \/
    frags_ok (frags_node x ++ K) /\ exists s, x = DText s.

  Lemma list_frags_ok : forall l, Forall node_frags_ok l ->
    forallb wf_node l = true -> no_adjacent_text l = true ->
    forall K, frags_ok K -> head_ok K ->
    frags_ok (frags_list l ++ K) /\
    (match l with DText _ :: _ => True | _ => head_ok (frags_list l ++ K) end).
  Proof.
    induction 1 as [|x r Hx _ IH]; intros Hwf Hadj K HK Hh.
    - split; assumption.
    - cbn [forallb] in Hwf. apply andb_true_iff in Hwf. destruct Hwf as [Hwx Hwr].
      assert (Hadj' : no_adjacent_text r = true).
      { cbn [no_adjacent_text] in Hadj. destruct x; try exact Hadj. destruct r as [|[ | | | ] r]; try exact Hadj; discriminate. }
      destruct (IH Hwr Hadj' K HK Hh) as [IH1 IH2].
      rewrite frags_list_cons, <- app_assoc.
      assert (Hhead : match x with DText _ => head_ok (frags_list r ++ K) | _ => True end).
      { destruct x as [s|n|c b e o|v q rv so b o]; try exact I.
        destruct r as [|y r]; [exact Hh|].
        cbn [no_adjacent_text] in Hadj. destruct y as [s2|n2|c2 b2 e2 o2|v2 q2 rv2 so2 b2 o2]; [discriminate|exact IH2..]. }
      destruct (Hx Hwx (frags_list r ++ K) IH1 Hhead) as [[G1 G2]|[G1 [s Es]]].
      + split; [exact G1|]. destruct x; try exact G2. exact I.
      + split; [exact G1|]. subst x. exact I.
  Qed.

  Lemma secs_frags_ok : forall ss : list sec,
    Forall (fun s : sec => frag_ok (tag_frag (fst s)) [] /\ Forall node_frags_ok (snd s) /\
                           forallb wf_node (snd s) = true /\ no_adjacent_text (snd s) = true) ss ->
    forall K, frags_ok K -> head_ok K ->
    frags_ok (frags_secs ss ++ K) /\ head_ok (frags_secs ss ++ K).
  Proof.
    induction 1 as [|[h b] ss [Hh [Hb [Hw Ha]]] _ IH]; intros K HK HhK.
    - split; assumption.
    - cbn [fst snd] in *. destruct (IH K HK HhK) as [IH1 IH2].
      rewrite frags_secs_cons. cbn [app]. rewrite <- app_assoc.
      destruct (list_frags_ok b Hb Hw Ha (frags_secs ss ++ K) IH1 IH2) as [G1 _].
      split; [|reflexivity].
      apply frags_ok_code; [exact Hh|exact G1].
  Qed.

  Lemma node_frags_ok_all : forall x, node_frags_ok x.
  Proof.
    induction x as [s|n|c b elifs els Hb He Hl|v q rv so b em Hb Hm] using dnode_ind';
      intros Hwf K HK Hh.
    - right. split; [|exists s; reflexivity]. cbn [frags_node app wf_node] in *.
      exact (frags_ok_text s K Hwf HK Hh).
    - left. split; [|reflexivity]. cbn [frags_node app wf_node] in *.
      apply frags_ok_code; [exact (var_code_ok Htab n false false Hwf)|exact HK].
    - left. split; [|reflexivity].
      rewrite frags_node_if. cbn [app]. rewrite <- !app_assoc. cbn [app].
      cbn [wf_node] in Hwf.
      apply andb_true_iff in Hwf. destruct Hwf as [Hwf Hwl].
      apply andb_true_iff in Hwf. destruct Hwf as [Hwf Hwe].
      apply andb_true_iff in Hwf. destruct Hwf as [Hc Hwb].
      destruct (wf_body b Hwb) as [Hwb1 Hwb2].
      assert (HK1 : frags_ok (tag_frag endif_tw :: K))
        by (apply frags_ok_code; [exact (endif_tag_ok Htab Hwords)|exact HK]).
      assert (Hss : Forall (fun s : sec => frag_ok (tag_frag (fst s)) [] /\ Forall node_frags_ok (snd s) /\
                           forallb wf_node (snd s) = true /\ no_adjacent_text (snd s) = true) (if_secs elifs els)).
      { unfold if_secs. apply Forall_app. split.
        - clear Hl Hwl. induction He as [|[ci bi] r Hbi _ IH]; [apply Forall_nil|].
          cbn [forallb] in Hwe. apply andb_true_iff in Hwe. destruct Hwe as [Hwi Hwr].
          apply andb_true_iff in Hwi. destruct Hwi as [Hci Hwbi]. destruct (wf_body bi Hwbi) as [W1 W2].
          cbn [map]. apply Forall_cons; [|exact (IH Hwr)]. cbn [fst snd] in *.
          split; [exact (elif_tag_ok Htab Hwords ci Hci)|]. split; [exact Hbi|]. split; assumption.
        - destruct els as [e|]; [|apply Forall_nil].
          destruct (wf_body e Hwl) as [W1 W2].
          apply Forall_cons; [|apply Forall_nil]. cbn [fst snd].
          split; [exact (else_tag_ok Htab Hwords)|]. split; [exact Hl|]. split; assumption. }
      destruct (secs_frags_ok _ Hss (tag_frag endif_tw :: K) HK1 (tag_head_ok _ _)) as [G1 G2].
      destruct (list_frags_ok b Hb Hwb1 Hwb2 _ G1 G2) as [G3 _].
      apply frags_ok_code; [exact (if_tag_ok Htab Hwords c Hc)|exact G3].
    - left. split; [|reflexivity].
      rewrite frags_node_for. cbn [app]. rewrite <- !app_assoc. cbn [app].
      cbn [wf_node] in Hwf.
      apply andb_true_iff in Hwf. destruct Hwf as [Hwf Hwl].
      apply andb_true_iff in Hwf. destruct Hwf as [Hwf Hwb].
      apply andb_true_iff in Hwf. destruct Hwf as [Hv Hq].
      destruct (wf_body b Hwb) as [Hwb1 Hwb2].
      assert (HK1 : frags_ok (tag_frag endfor_tw :: K))
        by (apply frags_ok_code; [exact (endfor_tag_ok Htab Hwords)|exact HK]).
      assert (Hss : Forall (fun s : sec => frag_ok (tag_frag (fst s)) [] /\ Forall node_frags_ok (snd s) /\
                           forallb wf_node (snd s) = true /\ no_adjacent_text (snd s) = true) (for_secs em)).
      { destruct em as [e|]; [|apply Forall_nil].
        destruct (wf_body e Hwl) as [W1 W2].
        apply Forall_cons; [|apply Forall_nil]. cbn [fst snd].
        split; [exact (empty_tag_ok Htab Hwords)|]. split; [exact Hm|]. split; assumption. }
      destruct (secs_frags_ok _ Hss (tag_frag endfor_tw :: K) HK1 (tag_head_ok _ _)) as [G1 G2].
      destruct (list_frags_ok b Hb Hwb1 Hwb2 _ G1 G2) as [G3 _].
      apply frags_ok_code; [exact (for_tag_ok Htab Hwords v q rv so Hv Hq)|exact G3].
  Qed.

  Lemma doc_frags_ok : forall d, wf_doc d = true -> frags_ok (frags_list d).
  Proof.
    intros d H. destruct (wf_body d H) as [H1 H2].
    assert (Hall : Forall node_frags_ok d).
    { clear H H1 H2. induction d as [|x r IH]; [apply Forall_nil|apply Forall_cons; [apply node_frags_ok_all|exact IH]]. }
    destruct (list_frags_ok d Hall H1 H2 [] I I) as [G _].
    rewrite app_nil_r in G. exact G.
  Qed.

  Lemma lex_print_doc : LexB.verb_prefix_check = true ->
    forall d, wf_doc d = true -> lex (print_doc d) = LexOk (toks_list d (1, 1)%Z).
  Proof.
    intros Hv d H. rewrite <- frags_list_src. unfold toks_list.
    exact (LexB.lex_compose Hv (frags_list d) (doc_frags_ok d H)).
  Qed.
End FragsOk.

(* ====================================================================================== *)
(* 4. the annotation pass over a concatenation                                              *)
(* ====================================================================================== *)

(* what the annotation of a token takes from its left / right neighbour *)
Definition tflag (o : option token) : bool :=
  match o with Some p => tok_is_trim_sym p | None => false end.
Definition aflag (o : option token) : bool :=
  match o with Some p => negb (tok_is_html p) && str_eqb (tval p) [37; 125] | None => false end.
Definition bflag (o : option token) : bool :=
  match o with Some n => negb (tok_is_html n) && str_eqb (tval n) [123; 37] | None => false end.

(* [annotate] with an explicit right neighbour of the whole list *)
Fixpoint annx (prev : option token) (ts : list token) (nxt : option token) : list atok :=
  match ts with
  | [] => []
  | t :: rest =>
      let n := match rest with n :: _ => Some n | [] => nxt end in
      mkA t (tflag prev) (tflag n) (aflag prev) (bflag n) :: annx (Some t) rest nxt
  end.

Lemma annx_annotate : forall ts prev, annotate prev ts = annx prev ts None.
Proof.
  induction ts as [|t ts IH]; intros prev; [reflexivity|].
  cbn [annotate annx]. rewrite IH. reflexivity.
Qed.

Definition hd_or (l : list token) (nxt : option token) : option token :=
  match l with t :: _ => Some t | [] => nxt end.
Fixpoint last_or (l : list token) (prev : option token) : option token :=
  match l with [] => prev | t :: r => last_or r (Some t) end.

Lemma annx_app : forall a b prev nxt,
  annx prev (a ++ b) nxt = annx prev a (hd_or b nxt) ++ annx (last_or a prev) b nxt.
Proof.
  induction a as [|t a IH]; intros b prev nxt; [reflexivity|].
  cbn [app annx last_or]. rewrite IH. f_equal.
  destruct a as [|u a]; [destruct b; reflexivity|reflexivity].
Qed.

Lemma last_or_app : forall a b prev, last_or (a ++ b) prev = last_or b (last_or a prev).
Proof. induction a as [|t a IH]; intros b prev; [reflexivity|]. cbn [app last_or]. apply IH. Qed.

Lemma hd_or_app : forall a b nxt, hd_or (a ++ b) nxt = hd_or a (hd_or b nxt).
Proof. intros [|t a] b nxt; reflexivity. Qed.

Lemma frags_toks_app : forall a b p,
  frags_toks (a ++ b) p = frags_toks a p ++ frags_toks b (advs p (frags_src a)).
Proof.
  induction a as [|f a IH]; intros b p; [reflexivity|].
  cbn [app frags_toks]. rewrite frags_src_cons, LexB.advs_app, IH.
  destruct f; rewrite <- ?app_assoc; reflexivity.
Qed.

Lemma frags_toks_tag : forall ws l p,
  frags_toks (tag_frag ws :: l) p = tag_toks ws (fst p) (snd p) ++ frags_toks l (advs p (tag_src (map snd ws))).
Proof. reflexivity. Qed.

Lemma toks_list_cons : forall x r p,
  toks_list (x :: r) p = toks_node x p ++ toks_list r (advs p (frags_src (frags_node x))).
Proof. intros x r p. unfold toks_list, toks_node. rewrite frags_list_cons. apply frags_toks_app. Qed.

(* ====================================================================================== *)
(* 5. one-step equations of the document parser                                             *)
(* ====================================================================================== *)

Definition tagIfParser : str := [116; 97; 103; 73; 102; 80; 97; 114; 115; 101; 114].
Definition tagForParser : str := [116; 97; 103; 70; 111; 114; 80; 97; 114; 115; 101; 114].

(* does the token list start with "{%" and one of the names: WrapUntilTag's test *)
Definition stop_of (names : list str) (ts : list atok) : option (str * list atok) :=
  match ts with
  | a :: r =>
      if a_is_sym a [123; 37] then
        match r with
        | b :: r' => if a_is_ident b && str_in (tval (a_tok b)) names then Some (tval (a_tok b), r') else None
        | [] => None
        end
      else None
  | [] => None
  end.

Section ParseEqs2.
  Variable se : senv.

  Lemma parse_elem_S_tag : forall f level st l c tr tL tR af bf r,
    parse_elem se (S f) level st (mkA (mkTok TSymbol [123; 37] l c tr) tL tR af bf :: r) =
    parse_tag se f level st r.
  Proof. reflexivity. Qed.

  Lemma wrap_until_S : forall f level names st a r,
    wrap_until se (S f) level names st (a :: r) =
    match stop_of names (a :: r) with
    | Some (name, r') => do '(args, r2) <- end_args r' []; Ok ([], name, args, r2, st)
    | None =>
        do '(n, r1, st1) <- parse_elem se f level st (a :: r);
        do '(ns, name, args, r2, st2) <- wrap_until se f level names st1 r1;
        Ok (n :: ns, name, args, r2, st2)
    end.
  Proof. reflexivity. Qed.

  Lemma if_branches_S : forall f level conds wrappers st ts,
    if_branches se (S f) level conds wrappers st ts =
    (do '(body, endtag, eargs, r, st1) <- wrap_until se f level [w_elif; w_else; w_endif] st ts;
     let wrappers' := wrappers ++ [body] in
     if str_eqb endtag w_elif then
       do '(c, rest) <- pexpr (se_cfg se) eargs;
       match rest with
       | _ :: _ => perr
       | [] => if_branches se f level (conds ++ [c]) wrappers' st1 r
       end
     else
       match eargs with
       | _ :: _ => perr
       | [] => if str_eqb endtag w_endif then Ok (conds, wrappers', r, st1)
               else if_branches se f level conds wrappers' st1 r
       end).
  Proof. reflexivity. Qed.

  Lemma tag_parser_S_if : forall f level args st ts,
    tag_parser se (S f) level tagIfParser args st ts =
    (do '(c0, rest) <- pexpr (se_cfg se) args;
     match rest with
     | _ :: _ => perr
     | [] => do '(conds, wrappers, r, st1) <- if_branches se f level [c0] [] st ts;
             Ok (NIf conds wrappers, r, st1)
     end).
  Proof. reflexivity. Qed.

  Lemma tag_parser_S_for : forall f level args st ts,
    tag_parser se (S f) level tagForParser args st ts =
    match match_ident args with
    | None => perr
    | Some (key, r0) =>
        do '(value, r1) <-
          (match match_sym r0 [44] with
           | Some r' => match match_ident r' with Some (v, r'') => Ok (v, r'') | None => perr end
           | None => Ok ([], r0)
           end);
        match match_kw r1 w_in with
        | None => perr
        | Some r2 =>
            do '(obj, r3) <- pexpr (se_cfg se) r2;
            let '(reversed, r4) := match match_ident_val r3 w_reversed with Some x => (true, x) | None => (false, r3) end in
            let '(sorted, r5) := match match_ident_val r4 w_sorted with Some x => (true, x) | None => (false, r4) end in
            match r5 with
            | _ :: _ => perr
            | [] =>
                do '(body, endtag, eargs, r, st1) <- wrap_until se f level [w_empty; w_endfor] st ts;
                match eargs with
                | _ :: _ => perr
                | [] =>
                    if str_eqb endtag w_empty then
                      do '(ebody, _, eargs2, r', st2) <- wrap_until se f level [w_endfor] st1 r;
                      match eargs2 with
                      | [] => Ok (NFor key value obj reversed sorted body (Some ebody), r', st2)
                      | _ => perr
                      end
                    else Ok (NFor key value obj reversed sorted body None, r, st1)
                end
            end
        end
    end.
  Proof. reflexivity. Qed.
End ParseEqs2.

(* ====================================================================================== *)
(* 6. a tag in the token list                                                               *)
(* ====================================================================================== *)

(* the words of our tags are identifiers or keywords, never symbols *)
Definition tw_word (x : tword) : Prop := fst x = TIdentifier \/ fst x = TKeyword.

Lemma cond_tw_word : forall c, Forall tw_word (cond_tw c).
Proof.
  intros [n|n]; cbn [cond_tw].
  - apply Forall_cons; [left; reflexivity|apply Forall_nil].
  - apply Forall_cons; [right; reflexivity|]. apply Forall_cons; [left; reflexivity|apply Forall_nil].
Qed.

Lemma tag_toks_app : forall ws l c X,
  tag_toks ws l c ++ X =
  t_open l c :: word_toks ws l (c + 3)%Z ++ t_close l (c + 3 + zlen (words_src (map snd ws)))%Z :: X.
Proof. intros. unfold tag_toks. cbn [app]. rewrite <- app_assoc. reflexivity. Qed.

Lemma collect_words : forall ws, Forall tw_word ws -> forall prev l c tc X N R acc,
  collect_args (annx prev (word_toks ws l c ++ tc :: X) N ++ R) acc =
  collect_args (annx (last_or (word_toks ws l c) prev) (tc :: X) N ++ R) (rev (word_toks ws l c) ++ acc).
Proof.
  induction 1 as [|[ty w] ws Hw _ IH]; intros prev l c tc X N R acc; [reflexivity|].
  cbn [word_toks app annx last_or collect_args].
  assert (E : a_is_sym (mkA (mkTok ty w l c false) (tflag prev)
                 (tflag (match word_toks ws l (c + zlen w + 1) ++ tc :: X with n :: _ => Some n | [] => N end))
                 (aflag prev)
                 (bflag (match word_toks ws l (c + zlen w + 1) ++ tc :: X with n :: _ => Some n | [] => N end)))
               [37; 125] = false).
  { unfold a_is_sym, is_sym. cbn [a_tok ttyp]. destruct Hw as [Hw|Hw]; cbn [fst] in Hw; rewrite Hw; reflexivity. }
  rewrite E, IH. cbn [a_tok rev]. rewrite <- app_assoc. reflexivity.
Qed.

Lemma end_args_collect : forall l acc args r,
  collect_args l acc = Some (args, r) -> end_args l acc = Ok (args, r).
Proof.
  induction l as [|a l IH]; intros acc args r H; [discriminate|].
  cbn [collect_args end_args] in *. destruct (a_is_sym a [37; 125]).
  - injection H as H1 H2. subst. reflexivity.
  - exact (IH _ _ _ H).
Qed.

Lemma collect_tag_words : forall ws, Forall tw_word ws -> forall prev l c lc cc X N R,
  collect_args (annx prev (word_toks ws l c ++ t_close lc cc :: X) N ++ R) [] =
  Some (word_toks ws l c, annx (Some (t_close lc cc)) X N ++ R).
Proof.
  intros ws Hws prev l c lc cc X N R. rewrite (collect_words ws Hws).
  cbn [annx app collect_args]. unfold a_is_sym, is_sym, t_close. cbn [a_tok ttyp tval str_eqb N.eqb Pos.eqb andb].
  rewrite app_nil_r, rev_involutive. reflexivity.
Qed.

(* sizes *)
Definition lsize (l : list dnode) : nat := list_sum (map (fun x => S (dsize x)) l).

Lemma lsize_cons : forall x r, lsize (x :: r) = (S (dsize x) + lsize r)%nat.
Proof. reflexivity. Qed.
Lemma list_sum_cons : forall x l, list_sum (x :: l) = (x + list_sum l)%nat.
Proof. reflexivity. Qed.

(* the sections of an if: elif c / else, with their bodies *)
Definition isec := (option cond * list dnode)%type.
Definition hdr_tw (h : option cond) : list tword :=
  match h with Some c => elif_tw c | None => else_tw end.
Definition gsec (s : isec) : sec := (hdr_tw (fst s), snd s).
Definition if_isecs (elifs : list (cond * list dnode)) (els : option (list dnode)) : list isec :=
  map (fun cb : cond * list dnode => (Some (fst cb), snd cb)) elifs ++
  match els with Some e => [(None, e)] | None => [] end.
Definition isize (ss : list isec) : nat := list_sum (map (fun s : isec => 2 + lsize (snd s))%nat ss).

Lemma if_secs_isecs : forall elifs els, if_secs elifs els = map gsec (if_isecs elifs els).
Proof.
  intros elifs els. unfold if_secs, if_isecs. rewrite map_app, map_map. f_equal.
  destruct els; reflexivity.
Qed.

Lemma dsize_if : forall c b elifs els,
  dsize (DIf c b elifs els) = (5 + lsize b + isize (if_isecs elifs els))%nat.
Proof.
  intros c b elifs els. cbn [dsize]. fold (lsize b). unfold isize, if_isecs.
  rewrite map_app, list_sum_app, map_map. rewrite <- !Nat.add_assoc. f_equal. f_equal. f_equal.
  - f_equal. apply map_ext. intros [ci bi]. reflexivity.
  - destruct els as [e|]; [|reflexivity]. cbn [map]. rewrite list_sum_cons. cbn [snd list_sum fold_right].
    unfold lsize. lia.
Qed.

Lemma dsize_for : forall x s rv so b em,
  dsize (DFor x s rv so b em) =
  (5 + lsize b + match em with Some e => 2 + lsize e | None => 0 end)%nat.
Proof. intros. cbn [dsize]. fold (lsize b). destruct em; reflexivity. Qed.

(* the pieces of the expected NIf node *)
Definition sec_conds (ss : list isec) : list expr :=
  flat_map (fun s : isec => match fst s with Some c => [cond_expr c] | None => [] end) ss.
Definition sec_bodies (owner : N) (ss : list isec) : list (list node) :=
  map (fun s : isec => body_nodes owner (snd s)) ss.

Lemma sec_conds_if : forall elifs els,
  sec_conds (if_isecs elifs els) = map (fun cb : cond * list dnode => cond_expr (fst cb)) elifs.
Proof.
  intros elifs els. unfold sec_conds, if_isecs. rewrite flat_map_app.
  replace (flat_map _ (match els with Some e => [(None, e)] | None => [] end)) with (@nil expr)
    by (destruct els; reflexivity).
  rewrite app_nil_r. induction elifs as [|[ci bi] r IH]; [reflexivity|].
  cbn [map flat_map fst app]. rewrite IH. reflexivity.
Qed.

Lemma sec_bodies_if : forall owner elifs els,
  sec_bodies owner (if_isecs elifs els) =
  map (fun cb : cond * list dnode => match cb with (_, bi) => map_ctx is_tag (node_of owner) true bi true end) elifs ++
  match els with Some e => [map_ctx is_tag (node_of owner) true e true] | None => [] end.
Proof.
  intros owner elifs els. unfold sec_bodies, if_isecs. rewrite map_app, map_map. f_equal.
  - apply map_ext. intros [ci bi]. reflexivity.
  - destruct els; reflexivity.
Qed.

Lemma pexpr_cond : forall cfg c l c0, pexpr cfg (word_toks (cond_tw c) l c0) = Ok (cond_expr c, []).
Proof. intros cfg [n|n] l c0; reflexivity. Qed.

(* the tables: the names if / for are implemented by the two parsers of Model/ParseDoc.v *)
Definition syntax_impl_ok : bool :=
  match assoc_get w_if tag_impl with Some i => str_eqb i tagIfParser | None => false end &&
  match assoc_get w_for tag_impl with Some i => str_eqb i tagForParser | None => false end.

(* ====================================================================================== *)
(* 7. parsing                                                                               *)
(* ====================================================================================== *)

Lemma stop_of_tag : forall names l c a1 a2 a3 a4 name l' c' tr b1 b2 b3 b4 r,
  stop_of names (mkA (t_open l c) a1 a2 a3 a4 :: mkA (mkTok TIdentifier name l' c' tr) b1 b2 b3 b4 :: r) =
  if str_in name names then Some (name, r) else None.
Proof. reflexivity. Qed.

Lemma toks_node_text : forall b s p,
  toks_node (DText (b :: s)) p = [mkTok THTML (b :: s) (fst p) (snd p) false].
Proof. reflexivity. Qed.
Lemma toks_node_var : forall n p, toks_node (DVar n) p = var_toks n false false (fst p) (snd p).
Proof. intros. unfold toks_node. cbn [frags_node frags_toks var_frag]. apply app_nil_r. Qed.
Lemma toks_node_if : forall c b elifs els p,
  toks_node (DIf c b elifs els) p =
  tag_toks (if_tw c) (fst p) (snd p) ++
  frags_toks (frags_list b ++ frags_secs (if_secs elifs els) ++ [tag_frag endif_tw])
             (advs p (tag_src (map snd (if_tw c)))).
Proof. intros. unfold toks_node. rewrite frags_node_if. apply frags_toks_tag. Qed.
Lemma toks_node_for : forall x s rv so b em p,
  toks_node (DFor x s rv so b em) p =
  tag_toks (for_tw x s rv so) (fst p) (snd p) ++
  frags_toks (frags_list b ++ frags_secs (for_secs em) ++ [tag_frag endfor_tw])
             (advs p (tag_src (map snd (for_tw x s rv so)))).
Proof. intros. unfold toks_node. rewrite frags_node_for. apply frags_toks_tag. Qed.

Lemma text_ok_cons : forall s, text_ok s = true -> exists b t, s = b :: t.
Proof. intros [|b t] H; [discriminate|]. exists b, t. reflexivity. Qed.

(* the first and the last token of a node *)
Lemma node_first : forall y, wf_node y = true -> forall p Z N,
  tflag (hd_or (toks_node y p ++ Z) N) = false /\ bflag (hd_or (toks_node y p ++ Z) N) = is_tag y.
Proof.
  intros [s|n|c b e o|v q rv so b o] Hwf p Z N.
  - cbn [wf_node] in Hwf. destruct (text_ok_cons s Hwf) as (b & t & E). subst s.
    rewrite toks_node_text. split; reflexivity.
  - rewrite toks_node_var. split; reflexivity.
  - rewrite toks_node_if. unfold tag_toks. split; reflexivity.
  - rewrite toks_node_for. unfold tag_toks. split; reflexivity.
Qed.

Lemma last_tag : forall fs ws q prev,
  exists l c, last_or (frags_toks (fs ++ [tag_frag ws]) q) prev = Some (t_close l c).
Proof.
  intros. rewrite frags_toks_app, last_or_app, frags_toks_tag. cbn [frags_toks]. rewrite app_nil_r.
  unfold tag_toks. cbn [last_or]. rewrite last_or_app. cbn [last_or]. eexists. eexists. reflexivity.
Qed.

Lemma node_last : forall x, wf_node x = true -> forall p prev,
  tflag (last_or (toks_node x p) prev) = false /\ aflag (last_or (toks_node x p) prev) = is_tag x.
Proof.
  intros [s|n|c b e o|v q rv so b o] Hwf p prev.
  - cbn [wf_node] in Hwf. destruct (text_ok_cons s Hwf) as (b & t & E). subst s.
    rewrite toks_node_text. split; reflexivity.
  - rewrite toks_node_var. split; reflexivity.
  - rewrite toks_node_if, last_or_app, app_assoc.
    match goal with |- context [last_or (frags_toks (?fs ++ [tag_frag ?ws]) ?q) ?pv] =>
      destruct (last_tag fs ws q pv) as (l & c0 & E) end.
    rewrite E. split; reflexivity.
  - rewrite toks_node_for, last_or_app, app_assoc.
    match goal with |- context [last_or (frags_toks (?fs ++ [tag_frag ?ws]) ?q) ?pv] =>
      destruct (last_tag fs ws q pv) as (l & c0 & E) end.
    rewrite E. split; reflexivity.
Qed.

Lemma list_first : forall r, forallb wf_node r = true -> forall p Z N,
  tflag (hd_or Z N) = false ->
  tflag (hd_or (toks_list r p ++ Z) N) = false /\
  bflag (hd_or (toks_list r p ++ Z) N) = match r with [] => bflag (hd_or Z N) | y :: _ => is_tag y end.
Proof.
  intros [|y r] Hwf p Z N HZ.
  - split; [exact HZ|reflexivity].
  - cbn [forallb] in Hwf. apply andb_true_iff in Hwf. destruct Hwf as [Hy _].
    rewrite toks_list_cons, <- app_assoc. exact (node_first y Hy p _ N).
Qed.

Section ParseSyntax.
  Variable se : senv.

  (* an element that is a tag: the tag's parser runs on the words after the name *)
  Lemma parse_elem_tag : forall name impl ws, Forall tw_word ws ->
    str_in name (cfg_tags (se_cfg se)) = true -> str_in name (cfg_banned_tags (se_cfg se)) = false ->
    assoc_get name tag_impl = Some impl ->
    forall f level st prev l c X N R,
    parse_elem se (S (S f)) level st (annx prev (tag_toks (wid name :: ws) l c ++ X) N ++ R) =
    tag_parser se f (S level) impl (word_toks ws l (c + 3 + zlen name + 1)%Z) st
      (annx (Some (t_close l (c + 3 + zlen (words_src (name :: map snd ws)))%Z)) X N ++ R).
  Proof.
    intros name impl ws Hws H1 H2 H3 f level st prev l c X N R.
    rewrite tag_toks_app. cbn [word_toks wid annx app map snd]. unfold t_open at 1.
    rewrite parse_elem_S_tag.
    apply parse_tag_level; [reflexivity|exact H1|exact H2|exact H3|].
    apply collect_tag_words. exact Hws.
  Qed.

  (* WrapUntilTag at a tag whose name it waits for *)
  Lemma wrap_until_stop : forall names name ws, Forall tw_word ws -> str_in name names = true ->
    forall f level st prev l c X N R,
    wrap_until se (S f) level names st (annx prev (tag_toks (wid name :: ws) l c ++ X) N ++ R) =
    Ok ([], name, word_toks ws l (c + 3 + zlen name + 1)%Z,
        annx (Some (t_close l (c + 3 + zlen (words_src (name :: map snd ws)))%Z)) X N ++ R, st).
  Proof.
    intros names name ws Hws Hin f level st prev l c X N R.
    rewrite tag_toks_app. cbn [word_toks wid annx app map snd].
    rewrite wrap_until_S, stop_of_tag, Hin.
    rewrite (end_args_collect _ _ _ _ (collect_tag_words ws Hws _ _ _ _ _ X N R)).
    reflexivity.
  Qed.

  (* ... and at an element of the body *)
  Lemma node_no_stop : forall x, wf_node x = true ->
    forall names, str_in w_if names = false -> str_in w_for names = false ->
    forall f level st prev p NX REST,
    wrap_until se (S f) level names st (annx prev (toks_node x p) NX ++ REST) =
    (do '(n, r1, st1) <- parse_elem se f level st (annx prev (toks_node x p) NX ++ REST);
     do '(ns, name, args, r2, st2) <- wrap_until se f level names st1 r1;
     Ok (n :: ns, name, args, r2, st2)).
  Proof.
    intros [s|n|c b e o|v q rv so b o] Hwf names Hnif Hnfor f level st prev p NX REST.
    - cbn [wf_node] in Hwf. destruct (text_ok_cons s Hwf) as (b & t & E). subst s.
      rewrite toks_node_text. cbn [annx app]. rewrite wrap_until_S. reflexivity.
    - rewrite toks_node_var. unfold var_toks. cbn [annx app]. rewrite wrap_until_S. reflexivity.
    - rewrite toks_node_if, tag_toks_app. unfold if_tw. cbn [word_toks wid annx app].
      rewrite wrap_until_S, stop_of_tag, Hnif. reflexivity.
    - rewrite toks_node_for, tag_toks_app. unfold for_tw. cbn [word_toks wid annx app].
      rewrite wrap_until_S, stop_of_tag, Hnfor. reflexivity.
  Qed.

  Definition node_parse_ok (x : dnode) : Prop :=
    wf_node x = true -> forall F level st prev nxt p R,
    (dsize x <= F)%nat -> tflag prev = false -> tflag nxt = false ->
    parse_elem se F level st (annx prev (toks_node x p) nxt ++ R) =
    Ok (node_of (t_id (fst st)) (aflag prev) (bflag nxt) x, R, st).

  (* a body, up to the tag that ends it *)
  Lemma wrap_until_list : forall l, Forall node_parse_ok l -> forallb wf_node l = true ->
    forall names name ws, Forall tw_word ws -> str_in name names = true ->
    str_in w_if names = false -> str_in w_for names = false ->
    forall F level st prev p lt ct X N R,
    (S (lsize l) <= F)%nat -> tflag prev = false ->
    wrap_until se F level names st
      (annx prev (toks_list l p ++ tag_toks (wid name :: ws) lt ct ++ X) N ++ R) =
    Ok (map_ctx is_tag (node_of (t_id (fst st))) (aflag prev) l true, name,
        word_toks ws lt (ct + 3 + zlen name + 1)%Z,
        annx (Some (t_close lt (ct + 3 + zlen (words_src (name :: map snd ws)))%Z)) X N ++ R, st).
  Proof.
    induction 1 as [|x r Hx _ IH];
      intros Hwf names name ws Hws Hin Hnif Hnfor F level st prev p lt ct X N R HF Hprev.
    - destruct F as [|f]; [exfalso; clear - HF; lia|].
      change (toks_list [] p) with (@nil token). cbn [app map_ctx].
      apply wrap_until_stop; assumption.
    - cbn [forallb] in Hwf. apply andb_true_iff in Hwf. destruct Hwf as [Hwx Hwr].
      rewrite lsize_cons in HF. destruct F as [|f]; [exfalso; clear - HF; lia|].
      assert (Hf1 : (dsize x <= f)%nat) by (clear - HF; lia).
      assert (Hf2 : (S (lsize r) <= f)%nat) by (clear - HF; lia).
      rewrite toks_list_cons, <- app_assoc, annx_app, <- app_assoc.
      rewrite (node_no_stop x Hwx names Hnif Hnfor).
      match goal with |- context [annx prev (toks_node x p) ?nx ++ ?rest] => set (NX := nx); set (REST := rest) end.
      assert (HZ : tflag (hd_or (tag_toks (wid name :: ws) lt ct ++ X) N) = false)
        by (rewrite tag_toks_app; reflexivity).
      destruct (list_first r Hwr (advs p (frags_src (frags_node x))) (tag_toks (wid name :: ws) lt ct ++ X) N HZ)
        as [T1 T2].
      fold NX in T1, T2.
      rewrite (Hx Hwx f level st prev NX p REST Hf1 Hprev T1). cbn [bind].
      destruct (node_last x Hwx p prev) as [L1 L2].
      unfold REST.
      rewrite (IH Hwr names name ws Hws Hin Hnif Hnfor f level st _ _ lt ct X N R Hf2 L1). cbn [bind].
      cbn [map_ctx]. rewrite L2, T2.
      replace (bflag (hd_or (tag_toks (wid name :: ws) lt ct ++ X) N)) with true
        by (rewrite tag_toks_app; reflexivity).
      reflexivity.
  Qed.

  (* the whole document *)
  Lemma parse_doc_list : forall l, Forall node_parse_ok l -> forallb wf_node l = true ->
    forall F st prev p,
    (S (lsize l) <= F)%nat -> tflag prev = false ->
    parse_doc se F st (annx prev (toks_list l p) None) =
    Ok (map_ctx is_tag (node_of (t_id (fst st))) (aflag prev) l false, st).
  Proof.
    induction 1 as [|x r Hx _ IH]; intros Hwf F st prev p HF Hprev.
    - destruct F as [|f]; [exfalso; clear - HF; lia|]. apply parse_doc_S_nil.
    - cbn [forallb] in Hwf. apply andb_true_iff in Hwf. destruct Hwf as [Hwx Hwr].
      rewrite lsize_cons in HF. destruct F as [|f]; [exfalso; clear - HF; lia|].
      assert (Hf1 : (dsize x <= f)%nat) by (clear - HF; lia).
      assert (Hf2 : (S (lsize r) <= f)%nat) by (clear - HF; lia).
      rewrite toks_list_cons, annx_app.
      match goal with |- context [annx prev (toks_node x p) ?nx ++ ?rest] => set (NX := nx); set (REST := rest) end.
      assert (Hne : exists a t, annx prev (toks_node x p) NX ++ REST = a :: t).
      { destruct x as [s|n|c b e o|v q rv so b o].
        - cbn [wf_node] in Hwx. destruct (text_ok_cons s Hwx) as (b & t & E). subst s.
          rewrite toks_node_text. cbn [annx app]. eexists. eexists. reflexivity.
        - rewrite toks_node_var. unfold var_toks. cbn [annx app]. eexists. eexists. reflexivity.
        - rewrite toks_node_if. unfold tag_toks. cbn [annx app]. eexists. eexists. reflexivity.
        - rewrite toks_node_for. unfold tag_toks. cbn [annx app]. eexists. eexists. reflexivity. }
      destruct Hne as (a & t & Ea). rewrite Ea, parse_doc_S_cons, <- Ea.
      pose proof (list_first r Hwr (advs p (frags_src (frags_node x))) [] None eq_refl) as T.
      rewrite app_nil_r in T. destruct T as [T1 T2]. fold NX in T1, T2.
      rewrite (Hx Hwx f 0%nat st prev NX p REST Hf1 Hprev T1). cbn [bind].
      destruct (node_last x Hwx p prev) as [L1 L2].
      unfold REST. rewrite (IH Hwr f st _ _ Hf2 L1). cbn [bind].
      cbn [map_ctx]. rewrite L2, T2. reflexivity.
  Qed.

  (* the chain of an if: the body that was opened, then elif / else sections, then endif *)
  Lemma if_branches_ok : forall ss : list isec,
    Forall (fun s : isec => Forall node_parse_ok (snd s) /\ forallb wf_node (snd s) = true) ss ->
    forall b, Forall node_parse_ok b -> forallb wf_node b = true ->
    forall F level conds ws st lc cc p1 p2 nxt R,
    (2 + lsize b + isize ss <= F)%nat ->
    if_branches se F level conds ws st
      (annx (Some (t_close lc cc))
            (toks_list b p1 ++ frags_toks (frags_secs (map gsec ss) ++ [tag_frag endif_tw]) p2) nxt ++ R) =
    Ok (conds ++ sec_conds ss,
        ws ++ body_nodes (t_id (fst st)) b :: sec_bodies (t_id (fst st)) ss, R, st).
  Proof.
    induction 1 as [|[h bi] ss [Hbi Hwi] _ IH];
      intros b Hb Hwb F level conds ws st lc cc p1 p2 nxt R HF.
    - destruct F as [|F]; [lia|]. unfold isize in HF. cbn [map list_sum fold_right] in HF.
      rewrite if_branches_S. cbn [map frags_secs flat_map app]. rewrite frags_toks_tag.
      cbn [frags_toks]. unfold endif_tw.
      rewrite (wrap_until_list b Hb Hwb [w_elif; w_else; w_endif] w_endif []);
        [|apply Forall_nil|reflexivity|reflexivity|reflexivity|lia|reflexivity].
      cbn [bind]. cbv zeta. change (str_eqb w_endif w_elif) with false. cbv iota.
      cbn [word_toks]. change (str_eqb w_endif w_endif) with true. cbv iota.
      cbn [annx app sec_conds sec_bodies flat_map map]. rewrite app_nil_r. reflexivity.
    - cbn [snd] in Hbi, Hwi.
      unfold isize in HF. cbn [map] in HF. rewrite list_sum_cons in HF. cbn [snd] in HF. fold (isize ss) in HF.
      destruct F as [|F]; [lia|].
      rewrite if_branches_S. cbn [map]. unfold gsec at 1. cbn [fst snd]. rewrite frags_secs_cons.
      cbn [app]. rewrite frags_toks_tag, <- app_assoc, frags_toks_app.
      fold (toks_list bi (advs p2 (tag_src (map snd (hdr_tw h))))).
      destruct h as [ci|]; cbn [hdr_tw]; [unfold elif_tw|unfold else_tw].
      + rewrite (wrap_until_list b Hb Hwb [w_elif; w_else; w_endif] w_elif (cond_tw ci));
          [|apply cond_tw_word|reflexivity|reflexivity|reflexivity|lia|reflexivity].
        cbn [bind]. cbv zeta. change (str_eqb w_elif w_elif) with true. cbv iota.
        rewrite pexpr_cond. cbn [bind].
        rewrite (IH bi Hbi Hwi); [|lia].
        cbn [sec_conds sec_bodies flat_map map fst snd]. rewrite <- !app_assoc. reflexivity.
      + rewrite (wrap_until_list b Hb Hwb [w_elif; w_else; w_endif] w_else []);
          [|apply Forall_nil|reflexivity|reflexivity|reflexivity|lia|reflexivity].
        cbn [bind]. cbv zeta. change (str_eqb w_else w_elif) with false. cbv iota.
        cbn [word_toks]. change (str_eqb w_else w_endif) with false. cbv iota.
        rewrite (IH bi Hbi Hwi); [|lia].
        cbn [sec_conds sec_bodies flat_map map fst snd app]. rewrite <- !app_assoc. reflexivity.
  Qed.
End ParseSyntax.

Section ParseNodes.
  Variable se : senv.
  Hypothesis Hcfg : syntax_cfg_ok (se_cfg se) = true.
  Hypothesis Himpl : syntax_impl_ok = true.

  Lemma cfg_parts :
    str_in w_if (cfg_tags (se_cfg se)) = true /\ str_in w_if (cfg_banned_tags (se_cfg se)) = false /\
    str_in w_for (cfg_tags (se_cfg se)) = true /\ str_in w_for (cfg_banned_tags (se_cfg se)) = false.
  Proof.
    unfold syntax_cfg_ok in Hcfg.
    apply andb_true_iff in Hcfg. destruct Hcfg as [H123 H4].
    apply andb_true_iff in H123. destruct H123 as [H12 H3].
    apply andb_true_iff in H12. destruct H12 as [H1 H2].
    apply negb_true_iff in H2. apply negb_true_iff in H4. repeat split; assumption.
  Qed.

  Lemma impl_parts :
    assoc_get w_if tag_impl = Some tagIfParser /\ assoc_get w_for tag_impl = Some tagForParser.
  Proof.
    unfold syntax_impl_ok in Himpl. apply andb_true_iff in Himpl. destruct Himpl as [H1 H2].
    split.
    - destruct (assoc_get w_if tag_impl) as [i|]; [|discriminate]. apply LexA.str_eqb_eq in H1. subst i. reflexivity.
    - destruct (assoc_get w_for tag_impl) as [i|]; [|discriminate]. apply LexA.str_eqb_eq in H2. subst i. reflexivity.
  Qed.


  (* the for tag's own arguments *)
  Lemma tag_parser_for_words : forall f level st ts x s rv so l c,
    tag_parser se (S f) level tagForParser
      (word_toks (for_args_tw x s rv so) l c) st ts =
    (do '(body, endtag, eargs, r, st1) <- wrap_until se f level [w_empty; w_endfor] st ts;
     match eargs with
     | _ :: _ => perr
     | [] =>
         if str_eqb endtag w_empty then
           do '(ebody, _, eargs2, r', st2) <- wrap_until se f level [w_endfor] st1 r;
           match eargs2 with
           | [] => Ok (NFor x [] (var_expr s) rv so body (Some ebody), r', st2)
           | _ => perr
           end
         else Ok (NFor x [] (var_expr s) rv so body None, r, st1)
     end).
  Proof. intros f level st ts x s rv so l c. rewrite tag_parser_S_for. destruct rv, so; reflexivity. Qed.

  Lemma for_tw_word : forall x s rv so, Forall tw_word (for_args_tw x s rv so).
  Proof.
    intros x s rv so. unfold for_args_tw. cbn [app].
    apply Forall_cons; [left; reflexivity|]. apply Forall_cons; [right; reflexivity|].
    apply Forall_cons; [left; reflexivity|]. apply Forall_app. split.
    - destruct rv; [apply Forall_cons; [left; reflexivity|]|]; apply Forall_nil.
    - destruct so; [apply Forall_cons; [left; reflexivity|]|]; apply Forall_nil.
  Qed.

  Lemma node_parse_ok_all : forall x, node_parse_ok se x.
  Proof.
    destruct cfg_parts as (Cif1 & Cif2 & Cfor1 & Cfor2).
    destruct impl_parts as (Iif & Ifor).
    induction x as [s|n|c b elifs els Hb He Hl|v q rv so b em Hb Hm] using dnode_ind';
      intros Hwf F level st prev nxt p R HF Hprev Hnxt.
    - cbn [wf_node] in Hwf. destruct (text_ok_cons s Hwf) as (b & t & E). subst s.
      rewrite toks_node_text. cbn [annx app]. destruct F as [|F]; [exfalso; cbn [dsize] in HF; clear - HF; lia|].
      rewrite parse_elem_S_html, Hprev, Hnxt. reflexivity.
    - rewrite toks_node_var. unfold var_toks. cbn [annx app]. destruct F as [|F]; [exfalso; cbn [dsize] in HF; clear - HF; lia|].
      rewrite parse_elem_var. reflexivity.
    - rewrite dsize_if in HF.
      cbn [wf_node] in Hwf.
      apply andb_true_iff in Hwf. destruct Hwf as [Hwf Hwl].
      apply andb_true_iff in Hwf. destruct Hwf as [Hwf Hwe].
      apply andb_true_iff in Hwf. destruct Hwf as [Hc Hwb].
      destruct (wf_body b Hwb) as [Hwb1 _].
      assert (Hss : Forall (fun s : isec => Forall (node_parse_ok se) (snd s) /\ forallb wf_node (snd s) = true)
                           (if_isecs elifs els)).
      { unfold if_isecs. apply Forall_app. split.
        - clear Hl Hwl HF. induction He as [|[ci bi] r Hbi _ IH]; [apply Forall_nil|].
          cbn [forallb] in Hwe. apply andb_true_iff in Hwe. destruct Hwe as [Hwi Hwr].
          apply andb_true_iff in Hwi. destruct Hwi as [_ Hwbi]. destruct (wf_body bi Hwbi) as [W1 _].
          cbn [map]. apply Forall_cons; [|exact (IH Hwr)]. cbn [fst snd] in *. split; assumption.
        - destruct els as [e|]; [|apply Forall_nil].
          destruct (wf_body e Hwl) as [W1 _].
          apply Forall_cons; [|apply Forall_nil]. cbn [fst snd]. split; assumption. }
      destruct F as [|[|[|F]]]; [exfalso; clear - HF; lia..|].
      rewrite toks_node_if. unfold if_tw.
      rewrite (parse_elem_tag se w_if tagIfParser (cond_tw c) (cond_tw_word c) Cif1 Cif2 Iif).
      rewrite tag_parser_S_if, pexpr_cond. cbn [bind].
      rewrite frags_toks_app, if_secs_isecs. fold (toks_list b (advs p (tag_src (map snd (wid w_if :: cond_tw c))))).
      rewrite (if_branches_ok se (if_isecs elifs els) Hss b Hb Hwb1) by (clear - HF; lia).
      cbn [bind node_of app]. rewrite sec_conds_if, sec_bodies_if. reflexivity.
    - rewrite dsize_for in HF.
      cbn [wf_node] in Hwf.
      apply andb_true_iff in Hwf. destruct Hwf as [Hwf Hwl].
      apply andb_true_iff in Hwf. destruct Hwf as [_ Hwb].
      destruct (wf_body b Hwb) as [Hwb1 _].
      destruct F as [|[|[|F]]]; [exfalso; clear - HF; lia..|].
      rewrite toks_node_for. unfold for_tw.
      rewrite (parse_elem_tag se w_for tagForParser _ (for_tw_word v q rv so) Cfor1 Cfor2 Ifor).
      rewrite tag_parser_for_words.
      rewrite frags_toks_app. fold (toks_list b (advs p (tag_src (map snd (wid w_for :: for_args_tw v q rv so))))).
      destruct em as [e|].
      + destruct (wf_body e Hwl) as [Hwe1 _].
        unfold for_secs. rewrite frags_secs_cons. cbn [frags_secs flat_map app]. rewrite app_nil_r.
        rewrite frags_toks_tag, frags_toks_app. unfold empty_tw.
        fold (toks_list e (advs (advs (advs p (tag_src (map snd (wid w_for :: for_args_tw v q rv so))))
                  (frags_src (frags_list b))) (tag_src (map snd [wid w_empty])))).
        rewrite (wrap_until_list se b Hb Hwb1 [w_empty; w_endfor] w_empty []);
          [|apply Forall_nil|reflexivity|reflexivity|reflexivity|clear - HF; lia|reflexivity].
        cbn [bind word_toks]. change (str_eqb w_empty w_empty) with true. cbv iota.
        rewrite frags_toks_tag. cbn [frags_toks]. unfold endfor_tw.
        rewrite (wrap_until_list se e Hm Hwe1 [w_endfor] w_endfor []);
          [|apply Forall_nil|reflexivity|reflexivity|reflexivity|clear - HF; lia|reflexivity].
        cbn [bind word_toks annx app node_of]. reflexivity.
      + unfold for_secs. cbn [frags_secs flat_map app].
        rewrite frags_toks_tag. cbn [frags_toks]. unfold endfor_tw.
        rewrite (wrap_until_list se b Hb Hwb1 [w_empty; w_endfor] w_endfor []);
          [|apply Forall_nil|reflexivity|reflexivity|reflexivity|clear - HF; lia|reflexivity].
        cbn [bind word_toks]. change (str_eqb w_endfor w_empty) with false. cbv iota.
        cbn [annx app node_of]. reflexivity.
  Qed.

  Lemma parse_doc_syntax : forall d F st p,
    wf_doc d = true -> (doc_size d <= F)%nat ->
    parse_doc se F st (annotate None (toks_list d p)) = Ok (to_nodes (t_id (fst st)) d, st).
  Proof.
    intros d F st p Hwf HF. destruct (wf_body d Hwf) as [H1 _].
    rewrite annx_annotate.
    assert (Hall : Forall (node_parse_ok se) d).
    { clear Hwf HF H1. induction d as [|x r IH]; [apply Forall_nil|apply Forall_cons; [apply node_parse_ok_all|exact IH]]. }
    exact (parse_doc_list se d Hall H1 F st None p HF eq_refl).
  Qed.
End ParseNodes.

(* ====================================================================================== *)
(* 8. compilation                                                                           *)
(* ====================================================================================== *)

Section CompileSyntax.
  Variable se : senv.
  Hypothesis Htab : dash_tables_ok = true.
  Hypothesis Hverb : LexB.verb_prefix_check = true.
  Hypothesis Hwords : syntax_words_ok.
  Hypothesis Himpl : syntax_impl_ok = true.
  Hypothesis Hcfg : syntax_cfg_ok (se_cfg se) = true.

  Lemma compile_syntax : forall d F name isstr g,
    wf_doc d = true -> (doc_size d <= F)%nat ->
    compile_src se (S F) name isstr (print_doc d) g =
    Ok (Tpl (g_nid g) name isstr (to_nodes (g_nid g) d) [] [] None (se_trim se) (se_lstrip se),
        mkG (g_nid g + 1) (g_log g)).
  Proof.
    intros d F name isstr g Hwf HF.
    rewrite compile_src_S, (lex_print_doc Htab Hwords Hverb d Hwf). cbn [g_fresh].
    rewrite (parse_doc_syntax se Hcfg Himpl d F _ (1, 1)%Z Hwf HF). reflexivity.
  Qed.
End CompileSyntax.

(* the lexer's and the parser's halves on their own, in the form Props/ quotes *)
Lemma lex_syntax : dash_tables_ok = true -> LexB.verb_prefix_check = true -> syntax_words_ok ->
  forall d, wf_doc d = true -> lex (print_doc d) = LexOk (toks_list d (1, 1)%Z).
Proof. intros Htab Hverb Hwords d H. exact (lex_print_doc Htab Hwords Hverb d H). Qed.

Lemma parse_syntax : syntax_impl_ok = true ->
  forall (se : senv) (d : list dnode) (F : nat) (st : pst) (p : Z * Z),
  syntax_cfg_ok (se_cfg se) = true -> wf_doc d = true -> (doc_size d <= F)%nat ->
  parse_doc se F st (annotate None (toks_list d p)) = Ok (to_nodes (t_id (fst st)) d, st).
Proof. intros Himpl se d F st p Hcfg. exact (parse_doc_syntax se Hcfg Himpl d F st p). Qed.

(* through the API: rendering the source is running the expected tree *)
Definition string_name : str := [60; 115; 116; 114; 105; 110; 103; 62].   (* <string> *)

Lemma render_syntax : dash_tables_ok = true -> LexB.verb_prefix_check = true -> syntax_words_ok ->
  syntax_impl_ok = true ->
  forall (w : world) (d : list dnode) (ctx : list (str * cval)),
  syntax_cfg_ok (se_cfg (world_senv w)) = true -> wf_doc d = true -> N.of_nat (doc_size d) <= 59000 ->
  api_render_string w (print_doc d) ctx =
  run_template w (Tpl 1 string_name true (to_nodes 1 d) [] [] None (w_trim w) (w_lstrip w)) (mkG 2 []) ctx.
Proof.
  intros Htab Hverb Hwords Himpl w d ctx Hcfg Hwf Hsz. unfold api_render_string.
  assert (Hf : big_fuel = S (big_fuel - 1)) by (unfold big_fuel; lia).
  rewrite Hf.
  rewrite (compile_syntax (world_senv w) Htab Hverb Hwords Himpl Hcfg d _ string_name true g0 Hwf)
    by (unfold big_fuel; lia).
  reflexivity.
Qed.

(* ====================================================================================== *)
(* 9. the written if executes the body of its first true condition                          *)
(* ====================================================================================== *)

Lemma if_wrappers : forall owner b elifs els,
  map_ctx is_tag (node_of owner) true b true ::
  map (fun cb : cond * list dnode => match cb with (_, bi) => map_ctx is_tag (node_of owner) true bi true end) elifs ++
  match els with Some e => [map_ctx is_tag (node_of owner) true e true] | None => [] end =
  map (body_nodes owner) (if_bodies b elifs els).
Proof.
  intros owner b elifs els. unfold if_bodies. cbn [map]. rewrite map_app, map_map. f_equal. f_equal.
  - apply map_ext. intros [ci bi]. reflexivity.
  - destruct els; reflexivity.
Qed.

Lemma node_of_if : forall owner af bf c b elifs els,
  node_of owner af bf (DIf c b elifs els) =
  NIf (if_conds c elifs) (map (body_nodes owner) (if_bodies b elifs els)).
Proof. intros. cbn [node_of]. rewrite if_wrappers. reflexivity. Qed.

Lemma if_bodies_length : forall c b elifs els,
  length (if_bodies b elifs els) =
  (length (if_conds c elifs) + match els with Some _ => 1 | None => 0 end)%nat.
Proof.
  intros c b elifs els. unfold if_bodies, if_conds. cbn [length]. rewrite app_length, !map_length.
  destruct els; cbn [length]; lia.
Qed.

Section IfSource.
  Variable se : senv.
  Variable globals : list (str * cval).
  Hypothesis Htab : dash_tables_ok = true.
  Hypothesis Hverb : LexB.verb_prefix_check = true.
  Hypothesis Hwords : syntax_words_ok.
  Hypothesis Himpl : syntax_impl_ok = true.
  Hypothesis Hcfg : syntax_cfg_ok (se_cfg se) = true.

  Lemma if_source_semantics : forall c b elifs els F name isstr g,
    wf_doc [DIf c b elifs els] = true -> (doc_size [DIf c b elifs els] <= F)%nat ->
    exists n,
      compile_src se (S F) name isstr (print_doc [DIf c b elifs els]) g =
        Ok (Tpl (g_nid g) name isstr [n] [] [] None (se_trim se) (se_lstrip se), mkG (g_nid g + 1) (g_log g)) /\
      (* the first true condition is the k-th: its body runs *)
      (forall st vs k body,
         prefix_evals se globals st (if_conds c elifs) vs ->
         first_true (map truth vs) = Some k ->
         nth_error (if_bodies b elifs els) k = Some body ->
         exists f0, forall f, (f0 <= f)%nat ->
           exec_node se globals (S (S k) + f) st n = exec_nodes se globals f st (body_nodes (g_nid g) body)) /\
      (* no condition is true: the else body runs, or nothing *)
      (forall st vs,
         Forall2 (evals_pure se globals st) (if_conds c elifs) vs ->
         first_true (map truth vs) = None ->
         exists f0, forall f, (f0 <= f)%nat ->
           exec_node se globals (S (length (if_conds c elifs)) + f) st n =
           match els with
           | Some e => exec_nodes se globals f st (body_nodes (g_nid g) e)
           | None => xok [] st
           end).
  Proof.
    intros c b elifs els F name isstr g Hwf HF.
    exists (node_of (g_nid g) false false (DIf c b elifs els)).
    split; [|split].
    - rewrite (compile_syntax se Htab Hverb Hwords Himpl Hcfg _ F name isstr g Hwf HF). reflexivity.
    - intros st vs k body HP Hk Hb. rewrite node_of_if.
      apply (if_first_true se globals st _ _ vs k _ HP Hk).
      exact (map_nth_error (body_nodes (g_nid g)) k _ Hb).
    - intros st vs HP Hk. rewrite node_of_if.
      destruct els as [e|].
      + apply (if_else se globals st _ _ vs _ HP); [discriminate|exact Hk|].
        apply map_nth_error. unfold if_bodies, if_conds. cbn [length nth_error].
        rewrite nth_error_app2 by (rewrite !map_length; lia).
        rewrite !map_length, Nat.sub_diag. reflexivity.
      + destruct (if_none se globals st (if_conds c elifs)
                    (map (body_nodes (g_nid g)) (if_bodies b elifs None)) vs HP Hk) as [f0 H0].
        * apply nth_error_None. rewrite map_length, (if_bodies_length c). lia.
        * exists f0. intros f Hf. apply H0. lia.
  Qed.

End IfSource.

Section CondEval.
  Variable se : senv.
  Variable globals : list (str * cval).

  (* the conditions of the language evaluate without side effect in a frame that holds no macro *)
  Lemma eval_S_not : forall f st a,
    eval se globals (S f) st (ESimple false true a None) =
    (do '(t1, st1) <- eval se globals f st a; Ok (as_value (negate (vv t1)), st1)).
  Proof. reflexivity. Qed.

  Definition cond_value (priv pub : list (str * cval)) (c : cond) : res value :=
    match c with
    | CName n => var_value priv pub n
    | CNot n => do v <- var_value priv pub n; Ok (as_value (negate (vv v)))
    end.

  Lemma cond_evals_pure : forall st fr c v,
    top_frame st = Ok fr -> macro_free (f_priv fr) = true -> macro_free (f_pub fr) = true ->
    cond_value (f_priv fr) (f_pub fr) c = Ok v ->
    evals_pure se globals st (cond_expr c) v.
  Proof.
    intros st fr c v Hfr Hp Hq Hv. destruct c as [n|n]; cbn [cond_value cond_expr] in *.
    - exists 4%nat. intros f Hf. replace f with (4 + (f - 4))%nat by lia.
      rewrite (eval_name se globals _ st fr n Hfr Hp Hq), Hv. reflexivity.
    - apply bind_ok_inv in Hv. destruct Hv as [v0 [E Hv]]. injection Hv as Hv. subst v.
      exists 5%nat. intros f Hf. replace f with (S (4 + (f - 5)))%nat by lia.
      rewrite eval_S_not, (eval_name se globals _ st fr n Hfr Hp Hq), E. reflexivity.
  Qed.
End CondEval.

