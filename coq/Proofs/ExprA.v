(* The expression parser, run on a tree printed with minimal parentheses, rebuilds exactly
   the tree's elaboration - for trees of any depth (parser half of property C07).

   Shape of the proof: a big-step view [Ev] of the fuelled parser functions ("from some fuel
   on, the result is Ok r"), one composition lemma per grammar production, and one
   continuation-style predicate per precedence level ([Q0] .. [Q5]) proved simultaneously
   by structural induction on the tree. *)
From Coq Require Import List NArith ZArith Bool Lia Arith.
From PV Require Import Model.Exec Spec.SpecExpr.
Import ListNotations.
Open Scope N_scope.

(* ------------------------------------------------------------------------------------ *)
(* Integers: strconv.Atoi reads back what strconv.Itoa printed                           *)
(* ------------------------------------------------------------------------------------ *)

Lemma dec_digits_val : forall (f : nat) (n : Z) (acc : list N),
  (0 <= n < 10 ^ Z.of_nat f)%Z ->
  digits_val (dec_digits f n acc) 0 = digits_val acc n.
Proof.
  induction f as [|f IH]; intros n acc Hn.
  - change (10 ^ Z.of_nat 0)%Z with 1%Z in Hn.
    assert (Hz : n = 0%Z) by lia. subst n. reflexivity.
  - rewrite Nat2Z.inj_succ, Z.pow_succ_r in Hn by lia.
    assert (Hm : (0 <= n mod 10 < 10)%Z) by (apply Z.mod_pos_bound; lia).
    assert (Hd : digits_val ((48 + Z.to_N (n mod 10)) :: acc) (n / 10) = digits_val acc n).
    { cbn [digits_val].
      replace ((48 <=? 48 + Z.to_N (n mod 10)) && (48 + Z.to_N (n mod 10) <=? 57)) with true.
      2:{ symmetry. apply andb_true_iff. split; apply N.leb_le; lia. }
      f_equal.
      replace (48 + Z.to_N (n mod 10) - 48) with (Z.to_N (n mod 10)) by lia.
      rewrite Z2N.id by lia. pose proof (Z.div_mod n 10). lia. }
    cbn [dec_digits]. cbv zeta.
    destruct (n / 10 =? 0)%Z eqn:E.
    + apply Z.eqb_eq in E. rewrite <- Hd, E. reflexivity.
    + apply Z.eqb_neq in E. rewrite IH; [exact Hd|].
      split; [apply Z.div_pos; lia | apply Z.div_lt_upper_bound; lia].
Qed.

Lemma atoi_itoa : forall z : Z, (0 <= z)%Z -> (z <= max_int)%Z -> atoi (itoa z) = Some z.
Proof.
  intros z H0 H1. unfold atoi, itoa.
  destruct (z <? 0)%Z eqn:E; [apply Z.ltb_lt in E; lia|].
  rewrite dec_digits_val.
  - cbn [digits_val]. apply Z.leb_le in H1. rewrite H1. reflexivity.
  - split; [exact H0|]. eapply Z.le_lt_trans; [exact H1|]. vm_compute. reflexivity.
Qed.

(* ------------------------------------------------------------------------------------ *)
(* The printer: unfolding                                                               *)
(* ------------------------------------------------------------------------------------ *)

Lemma sprint_unf : forall (k : nat) (e : sx),
  sprint k e = if Nat.ltb (sprec e) k then tsym y_lpar :: sprint 0 e ++ [tsym y_rpar] else sprint 0 e.
Proof. intros k e. destruct e; reflexivity. Qed.

Lemma sprint_same : forall (k k' : nat) (e : sx),
  Nat.ltb (sprec e) k = Nat.ltb (sprec e) k' -> sprint k e = sprint k' e.
Proof. intros k k' e H. rewrite (sprint_unf k), (sprint_unf k'), H. reflexivity. Qed.

Lemma sprint_ge : forall (k : nat) (e : sx), (k <= sprec e)%nat -> sprint k e = sprint 0 e.
Proof.
  intros k e H. rewrite sprint_unf.
  destruct (Nat.ltb_spec (sprec e) k) as [Hlt|Hge]; [lia|reflexivity].
Qed.

Lemma sprint_lt : forall (k : nat) (e : sx), (sprec e < k)%nat ->
  sprint k e = tsym y_lpar :: sprint 0 e ++ [tsym y_rpar].
Proof.
  intros k e H. rewrite sprint_unf.
  destruct (Nat.ltb_spec (sprec e) k) as [Hlt|Hge]; [reflexivity|lia].
Qed.

Lemma sprint0_neg a : sprint 0 (SNeg a) = tsym y_minus :: sprint 3 a.
Proof. reflexivity. Qed.
Lemma sprint0_not a : sprint 0 (SNot a) = tkw k_not :: sprint 5 a.
Proof. reflexivity. Qed.
Lemma sprint0_pow a b : sprint 0 (SPow a b) = sprint 5 a ++ tsym y_caret :: sprint 4 b.
Proof. reflexivity. Qed.
Lemma sprint0_mul op a b : sprint 0 (SMul op a b) = sprint 3 a ++ tsym [op] :: sprint 4 b.
Proof. reflexivity. Qed.
Lemma sprint0_add op a b : sprint 0 (SAdd op a b) = sprint 2 a ++ tsym [op] :: sprint 3 b.
Proof. reflexivity. Qed.
Lemma sprint0_rel op a b : sprint 0 (SRel op a b) = sprint 2 a ++ relop_tok op :: sprint 2 b.
Proof. reflexivity. Qed.
Lemma sprint0_logic is_and a b :
  sprint 0 (SLogic is_and a b) =
  sprint 1 a ++ tkw (if is_and then k_and else k_or) ::
    (match b with
     | SLogic is_and' _ _ => if Bool.eqb is_and is_and' then sprint 0 b else sprint 1 b
     | _ => sprint 1 b
     end).
Proof. reflexivity. Qed.

(* the first token of a tree printed at level 3 or tighter is not a sign and not a negation *)
Definition okhd (t : token) : bool :=
  negb (is_sym t y_plus) && negb (is_sym t y_minus) && negb (is_sym t y_bang || is_kw t k_not).

Lemma sprint_hd : forall (e : sx) (k : nat), (3 <= k)%nat ->
  exists t l, sprint k e = t :: l /\ okhd t = true.
Proof.
  induction e as [z|ip fp|s|b|n|a IHa|a IHa|a IHa b IHb|op a IHa b IHb|op a IHa b IHb
                 |op a IHa b IHb|ia a IHa b IHb]; intros k Hk;
    rewrite sprint_unf;
    (match goal with |- context [Nat.ltb (sprec ?x) k] =>
       destruct (Nat.ltb_spec (sprec x) k) as [Hlt|Hge] end;
     [eexists; eexists; split; [reflexivity|reflexivity] | ]);
    try (cbn [sprec] in Hge; lia).
  - eexists; eexists; split; reflexivity.
  - eexists; eexists; split; reflexivity.
  - eexists; eexists; split; reflexivity.
  - destruct b; eexists; eexists; split; reflexivity.
  - eexists; eexists; split; reflexivity.
  - rewrite sprint0_pow. destruct (IHa 5%nat ltac:(lia)) as (t & l & E & Ht).
    rewrite E. exists t, (l ++ tsym y_caret :: sprint 4 b). split; [reflexivity|exact Ht].
  - rewrite sprint0_mul. destruct (IHa 3%nat ltac:(lia)) as (t & l & E & Ht).
    rewrite E. exists t, (l ++ tsym [op] :: sprint 4 b). split; [reflexivity|exact Ht].
Qed.

(* ------------------------------------------------------------------------------------ *)
(* Follow sets                                                                          *)
(* ------------------------------------------------------------------------------------ *)

Definition isnone {A} (o : option A) : bool := match o with None => true | Some _ => false end.

Definition b5 (t : token) : bool :=
  negb (is_sym t y_pipe) && negb (is_sym t y_dot) && negb (is_sym t y_lbr) && negb (is_sym t y_lpar).
Definition b4 (t : token) : bool := b5 t && negb (is_sym t y_caret).
Definition b3 (t : token) : bool := b4 t && isnone (term_op t).
Definition b2 (t : token) : bool := b3 t && isnone (add_op t).
Definition b1 (t : token) : bool := b2 t && isnone (relop_of t) && negb (is_kw t k_in).
Definition b0 (t : token) : bool := b1 t && isnone (logic_of t).

Definition nf (b : token -> bool) (rest : list token) : bool :=
  match rest with [] => true | t :: _ => b t end.

Lemma isnone_eq {A} (o : option A) : isnone o = true -> o = None.
Proof. destruct o; [discriminate|reflexivity]. Qed.

Lemma b5_inv t : b5 t = true ->
  is_sym t y_pipe = false /\ is_sym t y_dot = false /\ is_sym t y_lbr = false /\ is_sym t y_lpar = false.
Proof.
  unfold b5. rewrite !andb_true_iff, !negb_true_iff. tauto.
Qed.
Lemma b4_inv t : b4 t = true -> b5 t = true /\ is_sym t y_caret = false.
Proof. unfold b4. rewrite andb_true_iff, negb_true_iff. tauto. Qed.
Lemma b3_inv t : b3 t = true -> b4 t = true /\ term_op t = None.
Proof. unfold b3. rewrite andb_true_iff. intros [H1 H2]. split; [exact H1|apply isnone_eq; exact H2]. Qed.
Lemma b2_inv t : b2 t = true -> b3 t = true /\ add_op t = None.
Proof. unfold b2. rewrite andb_true_iff. intros [H1 H2]. split; [exact H1|apply isnone_eq; exact H2]. Qed.
Lemma b1_inv t : b1 t = true -> b2 t = true /\ relop_of t = None /\ is_kw t k_in = false.
Proof.
  unfold b1. rewrite !andb_true_iff, negb_true_iff. intros [[H1 H2] H3].
  split; [exact H1|split; [apply isnone_eq; exact H2|exact H3]].
Qed.
Lemma b0_inv t : b0 t = true -> b1 t = true /\ logic_of t = None.
Proof. unfold b0. rewrite andb_true_iff. intros [H1 H2]. split; [exact H1|apply isnone_eq; exact H2]. Qed.

Lemma nf_weak (b b' : token -> bool) rest :
  (forall t, b t = true -> b' t = true) -> nf b rest = true -> nf b' rest = true.
Proof. intros H. destruct rest as [|t r]; [reflexivity|apply H]. Qed.

Lemma nf45 rest : nf b4 rest = true -> nf b5 rest = true.
Proof. apply nf_weak. intros t H. apply b4_inv in H. tauto. Qed.
Lemma nf34 rest : nf b3 rest = true -> nf b4 rest = true.
Proof. apply nf_weak. intros t H. apply b3_inv in H. tauto. Qed.
Lemma nf23 rest : nf b2 rest = true -> nf b3 rest = true.
Proof. apply nf_weak. intros t H. apply b2_inv in H. tauto. Qed.
Lemma nf12 rest : nf b1 rest = true -> nf b2 rest = true.
Proof. apply nf_weak. intros t H. apply b1_inv in H. tauto. Qed.
Lemma nf01 rest : nf b0 rest = true -> nf b1 rest = true.
Proof. apply nf_weak. intros t H. apply b0_inv in H. tauto. Qed.

Lemma follow_nf0 rest : follow_ok rest = true -> nf b0 rest = true.
Proof.
  destruct rest as [|t r]; [reflexivity|]. cbn [follow_ok nf]. unfold is_binop_tok.
  destruct (logic_of t) eqn:E1; [discriminate|].
  destruct (relop_of t) eqn:E2; [discriminate|].
  destruct (add_op t) eqn:E3; [discriminate|].
  destruct (term_op t) eqn:E4; [discriminate|].
  intros H. unfold b0, b1, b2, b3, b4, b5. rewrite E1, E2, E3, E4. cbn [isnone].
  rewrite !andb_true_iff in H. destruct H as [[[[[H1 H2] H3] H4] H5] H6].
  rewrite H1, H2, H3, H4, H5, H6. reflexivity.
Qed.

(* the operator tokens of the printer *)
Definition mul_ok (op : N) : bool := (op =? 42) || (op =? 47) || (op =? 37).
Definition add_ok (op : N) : bool := (op =? 43) || (op =? 45).

Lemma mul_ok_cases op : mul_ok op = true -> op = 42 \/ op = 47 \/ op = 37.
Proof. unfold mul_ok. rewrite !orb_true_iff, !N.eqb_eq. tauto. Qed.
Lemma add_ok_cases op : add_ok op = true -> op = 43 \/ op = 45.
Proof. unfold add_ok. rewrite !orb_true_iff, !N.eqb_eq. tauto. Qed.

Lemma mul_tok op : mul_ok op = true -> term_op (tsym [op]) = Some op /\ b4 (tsym [op]) = true.
Proof. intros H. destruct (mul_ok_cases op H) as [E|[E|E]]; subst op; split; reflexivity. Qed.
Lemma add_tok op : add_ok op = true -> add_op (tsym [op]) = Some op /\ b3 (tsym [op]) = true.
Proof. intros H. destruct (add_ok_cases op H) as [E|E]; subst op; split; reflexivity. Qed.

Lemma rel_tok op :
  b3 (relop_tok op) = true /\ add_op (relop_tok op) = None /\
  (if match op with RIn => true | _ => false end
   then relop_of (relop_tok op) = None /\ is_kw (relop_tok op) k_in = true
   else relop_of (relop_tok op) = Some op).
Proof. destruct op; repeat split; reflexivity. Qed.

Lemma logic_tok (is_and : bool) :
  b1 (tkw (if is_and then k_and else k_or)) = true /\
  logic_of (tkw (if is_and then k_and else k_or)) = Some is_and.
Proof. destruct is_and; split; reflexivity. Qed.

(* ------------------------------------------------------------------------------------ *)
(* The parser: one-step unfolding equations and the big-step view                       *)
(* ------------------------------------------------------------------------------------ *)

Definition Ev {A : Type} (p : nat -> res A) (r : A) : Prop :=
  exists f0, forall f, (f0 <= f)%nat -> p f = Ok r.

Section Tie.
  Variable cfg : pcfg.

  Lemma pe_S f ts : parse_expression cfg (S f) ts =
    (do '(a, r) <- parse_relational cfg f ts;
     match r with
     | t :: r' =>
         match logic_of t with
         | Some is_and => do '(b, r2) <- parse_expression cfg f r'; Ok (ELogic is_and a b, r2)
         | None => Ok (a, r)
         end
     | [] => Ok (a, r)
     end).
  Proof. reflexivity. Qed.

  Lemma pr_S f ts : parse_relational cfg (S f) ts =
    (do '(a, r) <- parse_simple cfg f ts;
     match r with
     | t :: r' =>
         match relop_of t with
         | Some op => do '(b, r2) <- parse_relational cfg f r'; Ok (ERel op a b, r2)
         | None =>
             if is_kw t k_in then do '(b, r2) <- parse_simple cfg f r'; Ok (ERel RIn a b, r2)
             else Ok (a, r)
         end
     | [] => Ok (a, r)
     end).
  Proof. reflexivity. Qed.

  (* what parse_simple does after its first term *)
  Definition stail (f : nat) (ns ng : bool) (a : expr) (r : list token) : pres :=
    match r with
    | t :: r' =>
        match add_op t with
        | Some op => do '(b, r2) <- parse_term cfg f r'; simple_loop cfg f (ESimple ns ng a (Some (op, b))) r2
        | None => Ok (if ns || ng then ESimple ns ng a None else a, r)
        end
    | [] => Ok (if ns || ng then ESimple ns ng a None else a, r)
    end.

  Lemma ps_S f ts : parse_simple cfg (S f) ts =
    (let '(negsign, ts1) :=
       match ts with
       | t :: r => if is_sym t y_plus then (false, r) else if is_sym t y_minus then (true, r) else (false, ts)
       | [] => (false, ts)
       end in
     let '(neg, ts2) :=
       match ts1 with
       | t :: r => if is_sym t y_bang || is_kw t k_not then (true, r) else (false, ts1)
       | [] => (false, ts1)
       end in
     do '(a, r) <- parse_term cfg f ts2; stail f negsign neg a r).
  Proof. reflexivity. Qed.

  Lemma sl_S f acc ts : simple_loop cfg (S f) acc ts =
    match ts with
    | t :: r' =>
        match add_op t with
        | Some op => do '(b, r2) <- parse_term cfg f r'; simple_loop cfg f (ESimple false false acc (Some (op, b))) r2
        | None => Ok (acc, ts)
        end
    | [] => Ok (acc, ts)
    end.
  Proof. reflexivity. Qed.

  Lemma pt_S f ts : parse_term cfg (S f) ts = (do '(a, r) <- parse_power cfg f ts; term_loop cfg f a r).
  Proof. reflexivity. Qed.

  Lemma tl_S f acc ts : term_loop cfg (S f) acc ts =
    match ts with
    | t :: r' =>
        match term_op t with
        | Some op => do '(b, r2) <- parse_power cfg f r'; term_loop cfg f (ETerm op acc b) r2
        | None => Ok (acc, ts)
        end
    | [] => Ok (acc, ts)
    end.
  Proof. reflexivity. Qed.

  Lemma pp_S f ts : parse_power cfg (S f) ts =
    (do '(a, r) <- parse_factor cfg f ts;
     match r with
     | t :: r' =>
         if is_sym t y_caret then do '(b, r2) <- parse_power cfg f r'; Ok (EPow a b, r2)
         else Ok (a, r)
     | [] => Ok (a, r)
     end).
  Proof. reflexivity. Qed.

  Lemma pf_S f ts : parse_factor cfg (S f) ts =
    match ts with
    | t :: r =>
        if is_sym t y_lpar then
          do '(e, r1) <- parse_expression cfg f r;
          match r1 with
          | t1 :: r2 => if is_sym t1 y_rpar then Ok (e, r2) else perr
          | [] => perr
          end
        else parse_filtered cfg f ts
    | [] => parse_filtered cfg f ts
    end.
  Proof. reflexivity. Qed.

  Lemma pfl_S f ts : parse_filtered cfg (S f) ts =
    (do '(e, r) <- parse_var_or_lit cfg f ts;
     do '(chain, r') <- filter_loop cfg f r;
     Ok (EFilt e chain, r')).
  Proof. reflexivity. Qed.

  Lemma fl_stop f rest : nf b5 rest = true -> filter_loop cfg (S f) rest = Ok ([], rest).
  Proof.
    intros H. destruct rest as [|t r]; [reflexivity|].
    apply b5_inv in H. destruct H as (H & _).
    change (filter_loop cfg (S f) (t :: r)) with
      (if is_sym t y_pipe then
         do '(fc, r1) <- parse_filter cfg f r;
         match fc with
         | FCall name _ =>
             if str_in name (cfg_banned_filters cfg) then perr
             else do '(rest, r2) <- filter_loop cfg f r1; Ok (fc :: rest, r2)
         end
       else Ok ([], t :: r)).
    rewrite H. reflexivity.
  Qed.

  Lemma vl_stop f parts rest : nf b5 rest = true -> var_loop cfg (S f) parts rest = Ok (EVar (rev parts), rest).
  Proof.
    intros H. destruct rest as [|t r]; [reflexivity|].
    apply b5_inv in H. destruct H as (_ & H1 & H2 & H3).
    cbn [var_loop]. rewrite H1, H2, H3. reflexivity.
  Qed.

  Notation EvE ts r := (Ev (fun f => parse_expression cfg f ts) r).
  Notation EvR ts r := (Ev (fun f => parse_relational cfg f ts) r).
  Notation EvS ts r := (Ev (fun f => parse_simple cfg f ts) r).
  Notation EvSL acc ts r := (Ev (fun f => simple_loop cfg f acc ts) r).
  Notation EvT ts r := (Ev (fun f => parse_term cfg f ts) r).
  Notation EvTL acc ts r := (Ev (fun f => term_loop cfg f acc ts) r).
  Notation EvP ts r := (Ev (fun f => parse_power cfg f ts) r).
  Notation EvF ts r := (Ev (fun f => parse_factor cfg f ts) r).
  Notation EvV ts r := (Ev (fun f => parse_var_or_lit cfg f ts) r).

  (* ---------- atoms ---------- *)

  Lemma atom_fac t l rest x :
    is_sym t y_lpar = false -> EvV (t :: l ++ rest) (x, rest) -> nf b5 rest = true ->
    EvF (t :: l ++ rest) (atom x, rest).
  Proof.
    intros Ht [f0 H] Hr. exists (S (S (S f0))). intros f Hf.
    destruct f as [|f]; [lia|]. destruct f as [|f]; [lia|]. destruct f as [|f]; [lia|].
    rewrite pf_S. cbv beta iota. rewrite Ht, pfl_S, H by lia. cbn [bind].
    rewrite fl_stop by exact Hr. reflexivity.
  Qed.

  Lemma pvl_int s z rest : nf b5 rest = true -> atoi s = Some z ->
    EvV (tnum s :: [] ++ rest) (EInt z, rest).
  Proof.
    intros Hr Ha. exists 1%nat. intros f Hf. destruct f as [|f]; [lia|].
    cbn [app parse_var_or_lit tnum ttyp tval].
    destruct rest as [|d r1]; [rewrite Ha; reflexivity|].
    apply b5_inv in Hr. destruct Hr as (_ & Hd & _). rewrite Hd, Ha. reflexivity.
  Qed.

  Lemma pvl_float ip fp fl rest : parse_decimal ip fp = Some fl ->
    EvV (tnum ip :: [tsym y_dot; tnum fp] ++ rest) (EFloat fl, rest).
  Proof.
    intros Hd. exists 1%nat. intros f Hf. destruct f as [|f]; [lia|].
    cbn [app parse_var_or_lit tnum ttyp tval].
    change (is_sym (tsym y_dot) y_dot) with true. cbv beta iota.
    change (is_typ (mkTok TNumber fp 0 0 false) TNumber) with true. cbv beta iota.
    rewrite Hd. reflexivity.
  Qed.

  Lemma pvl_str s rest : EvV (tstr s :: [] ++ rest) (EStr s, rest).
  Proof. exists 1%nat. intros f Hf. destruct f as [|f]; [lia|]. reflexivity. Qed.

  Lemma pvl_bool (b : bool) rest : EvV (tkw (if b then k_true else k_false) :: [] ++ rest) (EBool b, rest).
  Proof. exists 1%nat. intros f Hf. destruct f as [|f]; [lia|]. destruct b; reflexivity. Qed.

  Lemma pvl_var n rest : nf b5 rest = true -> EvV (tid n :: [] ++ rest) (EVar [PIdent n None], rest).
  Proof.
    intros Hr. exists 2%nat. intros f Hf. destruct f as [|f]; [lia|]. destruct f as [|f]; [lia|].
    exact (vl_stop f [PIdent n None] rest Hr).
  Qed.

  (* ---------- one composition lemma per production ---------- *)

  Lemma evF_paren ts e rest :
    EvE ts (e, tsym y_rpar :: rest) -> EvF (tsym y_lpar :: ts) (e, rest).
  Proof.
    intros [f0 H]. exists (S f0). intros f Hf. destruct f as [|f]; [lia|].
    rewrite pf_S. cbv beta iota. change (is_sym (tsym y_lpar) y_lpar) with true. cbv beta iota.
    rewrite H by lia. reflexivity.
  Qed.

  Lemma evP_stop ts x rest : EvF ts (x, rest) -> nf b4 rest = true -> EvP ts (x, rest).
  Proof.
    intros [f0 H] Hr. exists (S f0). intros f Hf. destruct f as [|f]; [lia|].
    rewrite pp_S, H by lia. cbn [bind]. destruct rest as [|t r]; [reflexivity|].
    apply b4_inv in Hr. destruct Hr as [_ Hc]. rewrite Hc. reflexivity.
  Qed.

  Lemma evP_pow ts a t r' b r2 :
    EvF ts (a, t :: r') -> is_sym t y_caret = true -> EvP r' (b, r2) -> EvP ts (EPow a b, r2).
  Proof.
    intros [f1 H1] Ht [f2 H2]. exists (S (f1 + f2)). intros f Hf. destruct f as [|f]; [lia|].
    rewrite pp_S, H1 by lia. cbn [bind]. rewrite Ht, H2 by lia. reflexivity.
  Qed.

  Lemma evT ts a r1 r : EvP ts (a, r1) -> EvTL a r1 r -> EvT ts r.
  Proof.
    intros [f1 H1] [f2 H2]. exists (S (f1 + f2)). intros f Hf. destruct f as [|f]; [lia|].
    rewrite pt_S, H1 by lia. cbn [bind]. apply H2. lia.
  Qed.

  Lemma evTL_stop x rest : nf b3 rest = true -> EvTL x rest (x, rest).
  Proof.
    intros Hr. exists 1%nat. intros f Hf. destruct f as [|f]; [lia|].
    rewrite tl_S. destruct rest as [|t r]; [reflexivity|].
    apply b3_inv in Hr. destruct Hr as [_ Hc]. rewrite Hc. reflexivity.
  Qed.

  Lemma evTL_step acc t r' op b r2 r :
    term_op t = Some op -> EvP r' (b, r2) -> EvTL (ETerm op acc b) r2 r -> EvTL acc (t :: r') r.
  Proof.
    intros Ht [f1 H1] [f2 H2]. exists (S (f1 + f2)). intros f Hf. destruct f as [|f]; [lia|].
    rewrite tl_S, Ht, H1 by lia. cbn [bind]. apply H2. lia.
  Qed.

  (* the additive level: the first operand may carry a sign / a negation, which lives in
     the same node as the first operator *)
  Definition plain (x : expr) : Prop :=
    forall op b, mk_simple x op b = ESimple false false x (Some (op, b)).

  Definition STail (x : expr) (rest : list token) (r : expr * list token) : Prop :=
    match rest with
    | t :: r' =>
        match add_op t with
        | Some op => exists b r2, EvT r' (b, r2) /\ EvSL (mk_simple x op b) r2 r
        | None => r = (x, rest)
        end
    | [] => r = (x, rest)
    end.

  Lemma mk_simple_plain x op b : plain (mk_simple x op b).
  Proof.
    intros op' b'. unfold mk_simple at 2. destruct x; try reflexivity.
    destruct rest; reflexivity.
  Qed.

  Lemma STail_stop x rest : nf b2 rest = true -> STail x rest (x, rest).
  Proof.
    intros Hr. destruct rest as [|t r]; [reflexivity|].
    apply b2_inv in Hr. destruct Hr as [_ Hc]. unfold STail. rewrite Hc. reflexivity.
  Qed.

  Lemma evSL_tail acc rest r : plain acc -> STail acc rest r -> EvSL acc rest r.
  Proof.
    intros Hp H. destruct rest as [|t r'].
    - cbn [STail] in H. subst r. exists 1%nat. intros f Hf. destruct f as [|f]; [lia|]. reflexivity.
    - unfold STail in H. destruct (add_op t) as [op|] eqn:E.
      + destruct H as (b & r2 & [f1 H1] & [f2 H2]). exists (S (f1 + f2)). intros f Hf.
        destruct f as [|f]; [lia|].
        rewrite sl_S, E, H1 by lia. cbn [bind]. rewrite <- Hp. apply H2. lia.
      + subst r. exists 1%nat. intros f Hf. destruct f as [|f]; [lia|].
        rewrite sl_S, E. reflexivity.
  Qed.

  Lemma ev_stail ns ng a x rest r :
    x = (if ns || ng then ESimple ns ng a None else a) ->
    (forall op b, mk_simple x op b = ESimple ns ng a (Some (op, b))) ->
    STail x rest r -> Ev (fun f => stail f ns ng a rest) r.
  Proof.
    intros Hx Hm H. destruct rest as [|t r'].
    - cbn [STail] in H. subst r. exists 0%nat. intros f Hf. cbn [stail]. rewrite <- Hx. reflexivity.
    - unfold STail in H. unfold stail. destruct (add_op t) as [op|] eqn:E.
      + destruct H as (b & r2 & [f1 H1] & [f2 H2]). exists (f1 + f2)%nat. intros f Hf.
        rewrite H1 by lia. cbn [bind]. rewrite <- Hm. apply H2. lia.
      + subst r. exists 0%nat. intros f Hf. rewrite <- Hx. reflexivity.
  Qed.

  Lemma evS_gen ts ts2 ns ng a rest r :
    (forall f, parse_simple cfg (S f) ts = (do '(a, r) <- parse_term cfg f ts2; stail f ns ng a r)) ->
    EvT ts2 (a, rest) -> Ev (fun f => stail f ns ng a rest) r -> EvS ts r.
  Proof.
    intros Hs [f1 H1] [f2 H2]. exists (S (f1 + f2)). intros f Hf. destruct f as [|f]; [lia|].
    rewrite Hs, H1 by lia. cbn [bind]. apply H2. lia.
  Qed.

  Lemma okhd_inv t : okhd t = true ->
    is_sym t y_plus = false /\ is_sym t y_minus = false /\ (is_sym t y_bang || is_kw t k_not) = false.
  Proof. unfold okhd. rewrite !andb_true_iff, !negb_true_iff. tauto. Qed.

  Lemma ps_plain f t l : okhd t = true ->
    parse_simple cfg (S f) (t :: l) = (do '(a, r) <- parse_term cfg f (t :: l); stail f false false a r).
  Proof.
    intros Ht. apply okhd_inv in Ht. destruct Ht as (H1 & H2 & H3).
    rewrite ps_S. cbv beta iota. rewrite H1, H2. cbv beta iota. rewrite H3. reflexivity.
  Qed.

  Lemma ps_minus f t l : okhd t = true ->
    parse_simple cfg (S f) (tsym y_minus :: t :: l) =
    (do '(a, r) <- parse_term cfg f (t :: l); stail f true false a r).
  Proof.
    intros Ht. apply okhd_inv in Ht. destruct Ht as (H1 & H2 & H3).
    rewrite ps_S. cbv beta iota.
    change (is_sym (tsym y_minus) y_plus) with false.
    change (is_sym (tsym y_minus) y_minus) with true.
    cbv beta iota. rewrite H3. reflexivity.
  Qed.

  Lemma ps_not f l :
    parse_simple cfg (S f) (tkw k_not :: l) =
    (do '(a, r) <- parse_term cfg f l; stail f false true a r).
  Proof.
    rewrite ps_S. cbv beta iota.
    change (is_sym (tkw k_not) y_plus) with false.
    change (is_sym (tkw k_not) y_minus) with false.
    cbv beta iota.
    change (is_sym (tkw k_not) y_bang || is_kw (tkw k_not) k_not) with true.
    reflexivity.
  Qed.

  Lemma evR_stop ts x rest : EvS ts (x, rest) -> nf b1 rest = true -> EvR ts (x, rest).
  Proof.
    intros [f0 H] Hr. exists (S f0). intros f Hf. destruct f as [|f]; [lia|].
    rewrite pr_S, H by lia. cbn [bind]. destruct rest as [|t r]; [reflexivity|].
    apply b1_inv in Hr. destruct Hr as (_ & H1 & H2). rewrite H1, H2. reflexivity.
  Qed.

  Lemma evR_sym ts a t r' op b r2 :
    EvS ts (a, t :: r') -> relop_of t = Some op -> EvR r' (b, r2) -> EvR ts (ERel op a b, r2).
  Proof.
    intros [f1 H1] Ht [f2 H2]. exists (S (f1 + f2)). intros f Hf. destruct f as [|f]; [lia|].
    rewrite pr_S, H1 by lia. cbn [bind]. rewrite Ht, H2 by lia. reflexivity.
  Qed.

  Lemma evR_in ts a t r' b r2 :
    EvS ts (a, t :: r') -> relop_of t = None -> is_kw t k_in = true -> EvS r' (b, r2) ->
    EvR ts (ERel RIn a b, r2).
  Proof.
    intros [f1 H1] Ht Hk [f2 H2]. exists (S (f1 + f2)). intros f Hf. destruct f as [|f]; [lia|].
    rewrite pr_S, H1 by lia. cbn [bind]. rewrite Ht, Hk, H2 by lia. reflexivity.
  Qed.

  Lemma evE_stop ts x rest : EvR ts (x, rest) -> nf b0 rest = true -> EvE ts (x, rest).
  Proof.
    intros [f0 H] Hr. exists (S f0). intros f Hf. destruct f as [|f]; [lia|].
    rewrite pe_S, H by lia. cbn [bind]. destruct rest as [|t r]; [reflexivity|].
    apply b0_inv in Hr. destruct Hr as (_ & H1). rewrite H1. reflexivity.
  Qed.

  Lemma evE_logic ts a t r' op b r2 :
    EvR ts (a, t :: r') -> logic_of t = Some op -> EvE r' (b, r2) -> EvE ts (ELogic op a b, r2).
  Proof.
    intros [f1 H1] Ht [f2 H2]. exists (S (f1 + f2)). intros f Hf. destruct f as [|f]; [lia|].
    rewrite pe_S, H1 by lia. cbn [bind]. rewrite Ht, H2 by lia. reflexivity.
  Qed.

  (* ---------- what each level's parser does on a tree printed at that level ---------- *)

  Definition Q5 (e : sx) (x : expr) : Prop :=
    forall rest, nf b5 rest = true -> EvF (sprint 5 e ++ rest) (x, rest).
  Definition Q4 (e : sx) (x : expr) : Prop :=
    forall rest, nf b4 rest = true -> EvP (sprint 4 e ++ rest) (x, rest).
  Definition Q3 (e : sx) (x : expr) : Prop :=
    forall rest r, nf b4 rest = true -> EvTL x rest r -> EvT (sprint 3 e ++ rest) r.
  Definition Q2 (e : sx) (x : expr) : Prop :=
    forall rest r, nf b3 rest = true -> STail x rest r -> EvS (sprint 2 e ++ rest) r.
  Definition Q1 (e : sx) (x : expr) : Prop :=
    forall rest, nf b1 rest = true -> EvR (sprint 1 e ++ rest) (x, rest).
  Definition Q0 (e : sx) (x : expr) : Prop :=
    forall rest, nf b0 rest = true -> EvE (sprint 0 e ++ rest) (x, rest).
  Definition Qall (e : sx) (x : expr) : Prop :=
    Q0 e x /\ Q1 e x /\ Q2 e x /\ Q3 e x /\ Q4 e x /\ Q5 e x.

  (* a level's print read by the next looser level's parser *)
  Lemma lift54 e x rest : Q5 e x -> nf b4 rest = true -> EvP (sprint 5 e ++ rest) (x, rest).
  Proof. intros H Hr. apply evP_stop; [apply H, nf45, Hr|exact Hr]. Qed.

  Lemma lift43 e x rest r : Q4 e x -> nf b4 rest = true -> EvTL x rest r -> EvT (sprint 4 e ++ rest) r.
  Proof. intros H Hr Hl. eapply evT; [apply H, Hr|exact Hl]. Qed.

  Lemma lift3 e x rest : Q3 e x -> nf b3 rest = true -> EvT (sprint 3 e ++ rest) (x, rest).
  Proof. intros H Hr. apply H; [apply nf34, Hr|apply evTL_stop, Hr]. Qed.

  Lemma lift2 e x rest : Q2 e x -> nf b2 rest = true -> EvS (sprint 2 e ++ rest) (x, rest).
  Proof. intros H Hr. apply H; [apply nf23, Hr|apply STail_stop, Hr]. Qed.

  Lemma lift21 e x rest : Q2 e x -> nf b1 rest = true -> EvR (sprint 2 e ++ rest) (x, rest).
  Proof. intros H Hr. apply evR_stop; [apply lift2; [exact H|apply nf12, Hr]|exact Hr]. Qed.

  Lemma lift10 e x rest : Q1 e x -> nf b0 rest = true -> EvE (sprint 1 e ++ rest) (x, rest).
  Proof. intros H Hr. apply evE_stop; [apply H, nf01, Hr|exact Hr]. Qed.

  Lemma ltb_same p k : p <> k -> Nat.ltb p k = Nat.ltb p (S k).
  Proof.
    intros H. destruct (Nat.ltb_spec p k), (Nat.ltb_spec p (S k)); try reflexivity; lia.
  Qed.

  Lemma up54 e x : sprec e <> 4%nat -> Q5 e x -> Q4 e x.
  Proof.
    intros Hp H rest Hr. rewrite (sprint_same 4 5) by (apply ltb_same, Hp).
    apply lift54; assumption.
  Qed.

  Lemma up43 e x : sprec e <> 3%nat -> Q4 e x -> Q3 e x.
  Proof.
    intros Hp H rest r Hr Hl. rewrite (sprint_same 3 4) by (apply ltb_same, Hp).
    eapply lift43; eassumption.
  Qed.

  Lemma up32 e x : sprec e <> 2%nat -> plain x -> Q3 e x -> Q2 e x.
  Proof.
    intros Hp Hx H rest r Hr Ht. rewrite (sprint_same 2 3) by (apply ltb_same, Hp).
    pose proof (lift3 e x rest H Hr) as HT.
    destruct (sprint_hd e 3 (le_n _)) as (t & l & E & Hh). rewrite E in *.
    cbn [app] in *.
    eapply evS_gen; [intros f; apply ps_plain, Hh|exact HT|].
    apply (ev_stail false false x x); [reflexivity|exact Hx|exact Ht].
  Qed.

  Lemma up21 e x : sprec e <> 1%nat -> Q2 e x -> Q1 e x.
  Proof.
    intros Hp H rest Hr. rewrite (sprint_same 1 2) by (apply ltb_same, Hp).
    apply lift21; assumption.
  Qed.

  Lemma up10 e x : sprec e <> 0%nat -> Q1 e x -> Q0 e x.
  Proof.
    intros Hp H rest Hr. rewrite (sprint_same 0 1) by (apply ltb_same, Hp).
    apply lift10; assumption.
  Qed.

  Lemma par05 e x : (sprec e < 5)%nat -> Q0 e x -> Q5 e x.
  Proof.
    intros Hp H rest Hr. rewrite sprint_lt by exact Hp.
    cbn [app]. rewrite <- app_assoc. cbn [app].
    apply evF_paren. apply H. reflexivity.
  Qed.

  Lemma close5 e x : sprec e = 5%nat -> plain x -> Q5 e x -> Qall e x.
  Proof.
    intros Hp Hx H5.
    assert (H4 : Q4 e x) by (apply up54; [lia|exact H5]).
    assert (H3 : Q3 e x) by (apply up43; [lia|exact H4]).
    assert (H2 : Q2 e x) by (apply up32; [lia|exact Hx|exact H3]).
    assert (H1 : Q1 e x) by (apply up21; [lia|exact H2]).
    assert (H0 : Q0 e x) by (apply up10; [lia|exact H1]).
    repeat split; assumption.
  Qed.

  Lemma close4 e x : sprec e = 4%nat -> plain x -> Q4 e x -> Qall e x.
  Proof.
    intros Hp Hx H4.
    assert (H3 : Q3 e x) by (apply up43; [lia|exact H4]).
    assert (H2 : Q2 e x) by (apply up32; [lia|exact Hx|exact H3]).
    assert (H1 : Q1 e x) by (apply up21; [lia|exact H2]).
    assert (H0 : Q0 e x) by (apply up10; [lia|exact H1]).
    assert (H5 : Q5 e x) by (apply par05; [lia|exact H0]).
    repeat split; assumption.
  Qed.

  Lemma close3 e x : sprec e = 3%nat -> plain x -> Q3 e x -> Qall e x.
  Proof.
    intros Hp Hx H3.
    assert (H2 : Q2 e x) by (apply up32; [lia|exact Hx|exact H3]).
    assert (H1 : Q1 e x) by (apply up21; [lia|exact H2]).
    assert (H0 : Q0 e x) by (apply up10; [lia|exact H1]).
    assert (H5 : Q5 e x) by (apply par05; [lia|exact H0]).
    assert (H4 : Q4 e x) by (apply up54; [lia|exact H5]).
    repeat split; assumption.
  Qed.

  Lemma close2 e x : sprec e = 2%nat -> Q2 e x -> Qall e x.
  Proof.
    intros Hp H2.
    assert (H1 : Q1 e x) by (apply up21; [lia|exact H2]).
    assert (H0 : Q0 e x) by (apply up10; [lia|exact H1]).
    assert (H5 : Q5 e x) by (apply par05; [lia|exact H0]).
    assert (H4 : Q4 e x) by (apply up54; [lia|exact H5]).
    assert (H3 : Q3 e x) by (apply up43; [lia|exact H4]).
    repeat split; assumption.
  Qed.

  Lemma close1 e x : sprec e = 1%nat -> plain x -> Q1 e x -> Qall e x.
  Proof.
    intros Hp Hx H1.
    assert (H0 : Q0 e x) by (apply up10; [lia|exact H1]).
    assert (H5 : Q5 e x) by (apply par05; [lia|exact H0]).
    assert (H4 : Q4 e x) by (apply up54; [lia|exact H5]).
    assert (H3 : Q3 e x) by (apply up43; [lia|exact H4]).
    assert (H2 : Q2 e x) by (apply up32; [lia|exact Hx|exact H3]).
    repeat split; assumption.
  Qed.

  Lemma close0 e x : sprec e = 0%nat -> plain x -> Q0 e x -> Qall e x.
  Proof.
    intros Hp Hx H0.
    assert (H5 : Q5 e x) by (apply par05; [lia|exact H0]).
    assert (H4 : Q4 e x) by (apply up54; [lia|exact H5]).
    assert (H3 : Q3 e x) by (apply up43; [lia|exact H4]).
    assert (H2 : Q2 e x) by (apply up32; [lia|exact Hx|exact H3]).
    assert (H1 : Q1 e x) by (apply up21; [lia|exact H2]).
    repeat split; assumption.
  Qed.

  (* ---------- each constructor at its own level ---------- *)

  Lemma own_int z : (0 <= z)%Z -> (z <= max_int)%Z -> Q5 (SInt z) (atom (EInt z)).
  Proof.
    intros H0 H1 rest Hr. change (sprint 5 (SInt z)) with (tnum (itoa z) :: []).
    apply atom_fac; [reflexivity| |exact Hr]. apply pvl_int; [exact Hr|apply atoi_itoa; assumption].
  Qed.

  Lemma own_float ip fp fl : parse_decimal ip fp = Some fl -> Q5 (SFloat ip fp) (atom (EFloat fl)).
  Proof.
    intros Hd rest Hr. change (sprint 5 (SFloat ip fp)) with (tnum ip :: [tsym y_dot; tnum fp]).
    apply atom_fac; [reflexivity| |exact Hr]. apply pvl_float, Hd.
  Qed.

  Lemma own_str s : Q5 (SStr s) (atom (EStr s)).
  Proof.
    intros rest Hr. change (sprint 5 (SStr s)) with (tstr s :: []).
    apply atom_fac; [reflexivity| |exact Hr]. apply pvl_str.
  Qed.

  Lemma own_bool (b : bool) : Q5 (SBool b) (atom (EBool b)).
  Proof.
    intros rest Hr. change (sprint 5 (SBool b)) with (tkw (if b then k_true else k_false) :: []).
    apply atom_fac; [destruct b; reflexivity| |exact Hr]. apply pvl_bool.
  Qed.

  Lemma own_var n : Q5 (SVar n) (atom (EVar [PIdent n None])).
  Proof.
    intros rest Hr. change (sprint 5 (SVar n)) with (tid n :: []).
    apply atom_fac; [reflexivity| |exact Hr]. apply pvl_var, Hr.
  Qed.

  Lemma own_neg a xa : Q3 a xa -> Q2 (SNeg a) (ESimple true false xa None).
  Proof.
    intros Ha rest r Hr Ht. rewrite sprint_ge by (cbn [sprec]; lia). rewrite sprint0_neg.
    pose proof (lift3 a xa rest Ha Hr) as HT.
    destruct (sprint_hd a 3 (le_n _)) as (t & l & E & Hh). rewrite E in *.
    cbn [app] in *.
    eapply evS_gen; [intros f; apply ps_minus, Hh|exact HT|].
    apply (ev_stail true false xa (ESimple true false xa None)); [reflexivity|reflexivity|exact Ht].
  Qed.

  Lemma own_not a xa : Q5 a xa -> Q2 (SNot a) (ESimple false true xa None).
  Proof.
    intros Ha rest r Hr Ht. rewrite sprint_ge by (cbn [sprec]; lia). rewrite sprint0_not.
    cbn [app].
    eapply evS_gen; [intros f; apply ps_not| |].
    - eapply evT; [apply lift54; [exact Ha|apply nf34, Hr]|apply evTL_stop, Hr].
    - apply (ev_stail false true xa (ESimple false true xa None)); [reflexivity|reflexivity|exact Ht].
  Qed.

  Lemma own_pow a b xa xb : Q5 a xa -> Q4 b xb -> Q4 (SPow a b) (EPow xa xb).
  Proof.
    intros Ha Hb rest Hr. rewrite sprint_ge by (cbn [sprec]; lia). rewrite sprint0_pow.
    rewrite <- app_assoc. cbn [app].
    eapply evP_pow; [apply Ha; reflexivity|reflexivity|apply Hb, Hr].
  Qed.

  Lemma own_mul op a b xa xb : mul_ok op = true ->
    Q3 a xa -> Q4 b xb -> Q3 (SMul op a b) (ETerm op xa xb).
  Proof.
    intros Hop Ha Hb rest r Hr Hl. rewrite sprint_ge by (cbn [sprec]; lia). rewrite sprint0_mul.
    rewrite <- app_assoc. cbn [app]. destruct (mul_tok op Hop) as [Ho1 Ho2].
    apply Ha; [exact Ho2|].
    eapply evTL_step; [exact Ho1|apply Hb, Hr|exact Hl].
  Qed.

  Lemma own_add op a b xa xb : add_ok op = true ->
    Q2 a xa -> Q3 b xb -> Q2 (SAdd op a b) (mk_simple xa op xb).
  Proof.
    intros Hop Ha Hb rest r Hr Ht. rewrite sprint_ge by (cbn [sprec]; lia). rewrite sprint0_add.
    rewrite <- app_assoc. cbn [app]. destruct (add_tok op Hop) as [Ho1 Ho2].
    apply Ha; [exact Ho2|].
    unfold STail at 1. rewrite Ho1. exists xb, rest. split.
    - apply lift3; assumption.
    - apply evSL_tail; [apply mk_simple_plain|exact Ht].
  Qed.

  Lemma own_rel op a b xa xb : Q2 a xa -> Q2 b xb -> Q1 (SRel op a b) (ERel op xa xb).
  Proof.
    intros Ha Hb rest Hr. rewrite sprint_ge by (cbn [sprec]; lia). rewrite sprint0_rel.
    rewrite <- app_assoc. cbn [app]. destruct (rel_tok op) as (Ho1 & Ho2 & Ho3).
    assert (HS : EvS (sprint 2 a ++ relop_tok op :: sprint 2 b ++ rest)
                     (xa, relop_tok op :: sprint 2 b ++ rest)).
    { apply Ha; [exact Ho1|]. unfold STail. rewrite Ho2. reflexivity. }
    destruct op; cbv beta iota in Ho3;
      try (eapply evR_sym; [exact HS|exact Ho3|apply lift21; assumption]).
    destruct Ho3 as [Ho3 Ho4].
    eapply evR_in; [exact HS|exact Ho3|exact Ho4|apply lift2; [exact Hb|apply nf12, Hr]].
  Qed.

  Lemma own_logic is_and a b xa xb :
    Q1 a xa -> Q0 b xb -> Q1 b xb -> Q0 (SLogic is_and a b) (ELogic is_and xa xb).
  Proof.
    intros Ha Hb0 Hb1 rest Hr. rewrite sprint0_logic.
    rewrite <- app_assoc. cbn [app]. destruct (logic_tok is_and) as [Ho1 Ho2].
    eapply evE_logic; [apply Ha; exact Ho1|exact Ho2|].
    assert (H1 : EvE (sprint 1 b ++ rest) (xb, rest)) by (apply lift10; assumption).
    destruct b; try exact H1.
    destruct (Bool.eqb is_and is_and0); [apply Hb0, Hr|exact H1].
  Qed.

  (* ---------- all levels, by induction on the tree ---------- *)

  Lemma plain_atom x : plain (atom x).
  Proof. intros op b. reflexivity. Qed.

  Lemma all_levels : forall (e : sx) (x : expr), swf e = true -> elab e = Some x -> Qall e x.
  Proof.
    induction e as [z|ip fp|s|b|n|a IHa|a IHa|a IHa b IHb|op a IHa b IHb|op a IHa b IHb
                   |op a IHa b IHb|ia a IHa b IHb]; intros x Hw He; cbn [swf elab] in Hw, He.
    - injection He as <-. apply andb_true_iff in Hw. destruct Hw as [H0 H1].
      apply Z.leb_le in H0. apply Z.leb_le in H1.
      apply close5; [reflexivity|apply plain_atom|apply own_int; assumption].
    - destruct (parse_decimal ip fp) as [fl|] eqn:Hd; [|discriminate]. injection He as <-.
      apply close5; [reflexivity|apply plain_atom|apply own_float, Hd].
    - injection He as <-. apply close5; [reflexivity|apply plain_atom|apply own_str].
    - injection He as <-. apply close5; [reflexivity|apply plain_atom|apply own_bool].
    - injection He as <-. apply close5; [reflexivity|apply plain_atom|apply own_var].
    - destruct (elab a) as [xa|]; [|discriminate]. injection He as <-.
      destruct (IHa xa Hw eq_refl) as (_ & _ & _ & H3 & _).
      apply close2; [reflexivity|apply own_neg, H3].
    - destruct (elab a) as [xa|]; [|discriminate]. injection He as <-.
      destruct (IHa xa Hw eq_refl) as (_ & _ & _ & _ & _ & H5).
      apply close2; [reflexivity|apply own_not, H5].
    - apply andb_true_iff in Hw. destruct Hw as [Hwa Hwb].
      destruct (elab a) as [xa|]; [|discriminate]. destruct (elab b) as [xb|]; [|discriminate].
      injection He as <-.
      destruct (IHa xa Hwa eq_refl) as (_ & _ & _ & _ & _ & A5).
      destruct (IHb xb Hwb eq_refl) as (_ & _ & _ & _ & B4 & _).
      apply close4; [reflexivity|intros o y; reflexivity|apply own_pow; assumption].
    - apply andb_true_iff in Hw. destruct Hw as [Hw Hwb].
      apply andb_true_iff in Hw. destruct Hw as [Hop Hwa].
      destruct (elab a) as [xa|]; [|discriminate]. destruct (elab b) as [xb|]; [|discriminate].
      injection He as <-.
      destruct (IHa xa Hwa eq_refl) as (_ & _ & _ & A3 & _ & _).
      destruct (IHb xb Hwb eq_refl) as (_ & _ & _ & _ & B4 & _).
      apply close3; [reflexivity|intros o y; reflexivity|apply own_mul; assumption].
    - apply andb_true_iff in Hw. destruct Hw as [Hw Hwb].
      apply andb_true_iff in Hw. destruct Hw as [Hop Hwa].
      destruct (elab a) as [xa|]; [|discriminate]. destruct (elab b) as [xb|]; [|discriminate].
      injection He as <-.
      destruct (IHa xa Hwa eq_refl) as (_ & _ & A2 & _ & _ & _).
      destruct (IHb xb Hwb eq_refl) as (_ & _ & _ & B3 & _ & _).
      apply close2; [reflexivity|apply own_add; assumption].
    - apply andb_true_iff in Hw. destruct Hw as [Hwa Hwb].
      destruct (elab a) as [xa|]; [|discriminate]. destruct (elab b) as [xb|]; [|discriminate].
      injection He as <-.
      destruct (IHa xa Hwa eq_refl) as (_ & _ & A2 & _ & _ & _).
      destruct (IHb xb Hwb eq_refl) as (_ & _ & B2 & _ & _ & _).
      apply close1; [reflexivity|intros o y; reflexivity|apply own_rel; assumption].
    - apply andb_true_iff in Hw. destruct Hw as [Hwa Hwb].
      destruct (elab a) as [xa|]; [|discriminate]. destruct (elab b) as [xb|]; [|discriminate].
      injection He as <-.
      destruct (IHa xa Hwa eq_refl) as (_ & A1 & _ & _ & _ & _).
      destruct (IHb xb Hwb eq_refl) as (B0 & B1 & _ & _ & _ & _).
      apply close0; [reflexivity|intros o y; reflexivity|apply own_logic; assumption].
  Qed.
End Tie.

Lemma tie_parse_print : forall (cfg : pcfg) (e : sx) (x : expr) (rest : list token),
  swf e = true -> elab e = Some x -> follow_ok rest = true ->
  exists f0, forall f, (f0 <= f)%nat ->
    parse_expression cfg f (sprint 0 e ++ rest) = Ok (x, rest).
Proof.
  intros cfg e x rest Hw He Hr.
  destruct (all_levels cfg e x Hw He) as (H0 & _).
  exact (H0 rest (follow_nf0 rest Hr)).
Qed.
Print Assumptions tie_parse_print.
