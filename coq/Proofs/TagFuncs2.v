(* Lemmas and the proof scripts for the tie of the translated Execute methods of the tags that keep
   state (gen/TagFuncs.v: go_statefuncs, interpreted by Spec/SpecTagFuncs2.v) to the hand-written
   executor of Model/Exec.v (exec_node on NSet, NAutoescape, NIfchanged).

   - unfolding equations of the interpretation (call levels, statement lists, the two range loops)
     and of the model (exec_node on the three nodes);
   - [uexprs_loop_eval_list]: a range loop over expressions every turn of which evaluates the
     expression and appends the value to a variable is the model's eval_list;
   - [uvalues_loop_changed]: the comparison loop of the ifchanged tag (with its break) against the
     model's fold;
   - the scripts Tie/C09x.v runs on every regenerated term. *)
From PV Require Import Model.Exec Lib.GoStmt Spec.SpecFlow Spec.SpecTagFuncs Spec.SpecTagFuncs2 Proofs.Flow Proofs.TagFuncs.
From Coq Require Import String Lia.
Open Scope string_scope.

Lemma str_eqb_nil_l : forall o, str_eqb [] o = Nat.eqb (List.length o) 0.
Proof. intros [|c o]; reflexivity. Qed.

Section Unfold2.
  Variable se : senv.
  Variable globals : list (str * cval).

  Lemma exec_node_S_set : forall f st name e,
    exec_node se globals (S f) st (NSet name e) =
    match PV.Model.Exec.eval se globals f st e with
    | Ok (v, st1) => match set_priv st1 name (CV v) with Ok st2 => xok [] st2 | other => xfail [] other end
    | other => xfail [] other
    end.
  Proof. reflexivity. Qed.

  Lemma exec_node_S_autoescape2 : forall f st on body,
    exec_node se globals (S f) st (NAutoescape on body) =
    match top_frame st with
    | Ok fr =>
        match exec_nodes se globals f (set_top st (with_auto fr on)) body with
        | (o, Ok st1) =>
            match top_frame st1 with
            | Ok fr1 => xok o (set_top st1 (with_auto fr1 (f_auto fr)))
            | other => xfail o other
            end
        | other => other
        end
    | other => xfail [] other
    end.
  Proof. reflexivity. Qed.

  Lemma exec_node_S_ifchanged_c : forall f st id thenb elseb,
    exec_node se globals (S f) st (NIfchanged id [] thenb elseb) =
    match top_frame st with
    | Ok fr =>
        match exec_nodes se globals f st thenb with
        | (o, Ok st1) =>
            if match ifch_content st (f_exec fr) id with
               | Some c => str_eqb c o
               | None => Nat.eqb (List.length o) 0
               end
            then xok [] st1
            else xok o (ns_set st1 (f_exec fr) id (NSIfchanged [] (Some o)))
        | (_, other) => ([], other)
        end
    | other => xfail [] other
    end.
  Proof.
    intros. rewrite exec_node_S_ifchanged_content. unfold ifch_content, stored_content.
    destruct (top_frame st) as [fr| | | |]; try reflexivity.
    destruct (ns_get (f_exec fr) id (ms_nodes st)) as [[i|l [c|]]|];
      destruct (exec_nodes se globals f st thenb) as [o [st1|k| | |s]]; reflexivity.
  Qed.

  Lemma exec_node_S_ifchanged_w : forall f st id w ws thenb elseb,
    exec_node se globals (S f) st (NIfchanged id (w :: ws) thenb elseb) =
    match top_frame st with
    | Ok fr =>
        match eval_list se globals f st (w :: ws) with
        | Ok (now, st1) =>
            match changed_model (ifch_vals st (f_exec fr) id) now with
            | None => ([], Unmod)
            | Some changed =>
                let st2 := ns_set st1 (f_exec fr) id (NSIfchanged now None) in
                if changed then exec_nodes se globals f st2 thenb
                else match elseb with Some eb => exec_nodes se globals f st2 eb | None => xok [] st2 end
            end
        | other => xfail [] other
        end
    | other => xfail [] other
    end.
  Proof.
    intros. rewrite exec_node_S_ifchanged_watched. unfold ifch_vals, stored_vals.
    destruct (top_frame st) as [fr| | | |]; reflexivity.
  Qed.

  Variable callr : uval -> string -> list uval -> uworld -> ukont -> uans.

  (* the statements of a block, as uf_exec runs them (its local fixpoint) *)
  Definition uexec_block (kr : ukont) : list gstmt -> uenv -> uworld -> unkont -> unkont -> uans :=
    fix exl (l : list gstmt) (env : uenv) (w : uworld) (kn' : unkont) (kb' : unkont) {struct l} : uans :=
      match l with
      | [] => kn' env w
      | s1 :: r => uf_exec callr s1 env w (fun env1 w1 => exl r env1 w1 kn' kb') kr kb'
      end.

  Lemma uf_exec_list_cons : forall s r env w kn kr kb,
    uf_exec_list callr (s :: r) env w kn kr kb =
    uf_exec callr s env w (fun env1 w1 => uf_exec_list callr r env1 w1 kn kr kb) kr kb.
  Proof. reflexivity. Qed.

  Lemma uexec_block_cons : forall kr s r env w kn kb,
    uexec_block kr (s :: r) env w kn kb =
    uf_exec callr s env w (fun env1 w1 => uexec_block kr r env1 w1 kn kb) kr kb.
  Proof. reflexivity. Qed.

  Lemma uf_exec_range : forall key val coll body env w kn kr kb,
    uf_exec callr (GSRange key val coll body) env w kn kr kb =
    uf_eval callr coll env w (uone (fun v w1 =>
      match v with
      | UVExprs es => uexprs_loop (fun env' w' kn' kb' => uexec_block kr body env' w' kn' kb') key val es 0 (uw_fuel w1) env w1 kn
      | UVValues vs => uvalues_loop (fun env' w' kn' kb' => uexec_block kr body env' w' kn' kb') key val vs 0 env w1 kn
      | _ => UStuck "range over a value that is not a slice of expressions or of values"
      end)).
  Proof. reflexivity. Qed.
End Unfold2.

Lemma uf_call_step_eq : forall se globals prog deeper recv m args w k,
  uf_call_step se globals prog deeper recv m args w k =
  match match utype_of recv with Some ty => tfind_method ty m prog | None => None end with
  | Some fn => uf_call_func deeper fn recv args w k
  | None => ubuiltin se globals recv m args w k
  end.
Proof. reflexivity. Qed.

(* three call levels: the tag's Execute, its helper, and the primitives they call *)
Lemma state_tag_execute_S3 : forall se globals prog d node o0 st fuel,
  state_tag_execute se globals prog (S (S (S d))) node o0 st fuel =
  uf_call_step se globals prog (uf_call_step se globals prog (uf_call_step se globals prog (uf_call se globals prog d)))
    node "Execute" [UVCtx; UVWriter] (mkUW o0 st fuel []) (fun vs w' => UOk (vs, w')).
Proof. reflexivity. Qed.

(* ---------- the scripts ---------- *)
Ltac utag_eval :=
  lazy - [PV.Model.Exec.eval exec_nodes exec_node eval_list equal_value_to changed_model
          f_auto f_exec ms_frames ms_nodes with_auto with_priv ctx_set ns_get ns_set ifch_vals ifch_content
          int_add int_gt int_eq seq_len seq_index out_app slice_append str_eqb uexprs_loop uvalues_loop].
Ltac utag_eval_stmt :=
  lazy - [PV.Model.Exec.eval exec_nodes exec_node eval_list equal_value_to changed_model
          f_auto f_exec ms_frames ms_nodes with_auto with_priv ctx_set ns_get ns_set ifch_vals ifch_content
          int_add int_gt int_eq seq_len seq_index out_app slice_append str_eqb uexprs_loop uvalues_loop
          uf_exec_list uexec_block uf_call_step].
Ltac utag_split :=
  match goal with
  | |- context [ms_frames ?s] => destruct (ms_frames s) as [|?fr ?frs]
  | |- context [PV.Model.Exec.eval ?a ?b ?c ?d ?e] =>
      destruct (PV.Model.Exec.eval a b c d e) as [[?v ?st1]|?k| | |?site]
  | |- context [exec_nodes ?a ?b ?c ?d ?e] =>
      destruct (exec_nodes a b c d e) as [?o [?st1|?k| | |?site]]
  | |- context [f_auto ?fr] => destruct (f_auto fr)
  | |- context [equal_value_to ?x ?y] => destruct (equal_value_to x y) as [[|]|]
  end.
Ltac utag_crunch :=
  utag_eval; rewrite ?out_app_nil;
  first [ reflexivity
        | utag_split; utag_crunch
        | fail 1 "this run of the translated Go code differs from the model's executor (Model/Exec.v)" ].
Ltac peel_three d H :=
  do 3 (destruct d as [|d]; [exfalso; lia|]); clear H; rewrite state_tag_execute_S3;
  match goal with |- context [uf_call ?s ?g ?p d] => generalize (uf_call s g p d); intro end.
Ltac utag_step := rewrite uf_exec_list_cons; utag_eval_stmt.
Ltac utag_enter := rewrite uf_call_step_eq; utag_eval_stmt.
