(* Model/Exec.v's [walk]/[resolve] against the reference of Spec/SpecWalk2.v (property C08,
   second part): subscripts with computed keys, the lookup order of the first name, and the
   bindings of set / with / for shadowing context keys which shadow globals. *)
From Coq Require Import List NArith ZArith Bool Lia Arith.
From PV Require Import Model.Exec Spec.SpecWalk Spec.SpecWalk2 Spec.SpecFrames.
From PV Require Import Proofs.WalkProofs Proofs.Frames.
Import ListNotations.
Open Scope N_scope.

Section W2.
  Variable se : senv.
  Variable globals : list (str * cval).

  Local Notation eval := (PV.Model.Exec.eval se globals).
  Local Notation resolve := (PV.Model.Exec.resolve se globals).
  Local Notation walk := (PV.Model.Exec.walk se globals).
  Local Notation exec_node := (PV.Model.Exec.exec_node se globals).
  Local Notation exec_nodes := (PV.Model.Exec.exec_nodes se globals).
  Local Notation exec_for := (PV.Model.Exec.exec_for se globals).
  Local Notation eval_pairs := (PV.Model.Exec.eval_pairs se globals).

  Local Notation pure_key := (pure_key se globals).

  (* ---------- one-step equations ---------- *)
  Lemma walk_sub : forall f st cur safe e rest,
    walk (S f) st cur safe (PSub e None :: rest) =
    match cur with
    | VStr _ | VList _ =>
        bind (eval f st e) (fun '(sv, st1) =>
        match vv sv with
        | VInt si =>
            match index_val cur si with
            | Some VNil | None => Ok (as_value VNil, st1)
            | Some v => walk f st1 v safe rest
            end
        | _ => Ok (as_value VNil, st1)
        end)
    | VStruct m =>
        bind (eval f st e) (fun '(sv, st1) =>
        bind (str_of sv) (fun k =>
        match assoc_get k m with
        | Some VNil | None => Ok (as_value VNil, st1)
        | Some v => walk f st1 v safe rest
        end))
    | VMap m =>
        bind (eval f st e) (fun '(sv, st1) =>
        match vv sv with
        | VStr k =>
            match assoc_get k m with
            | Some VNil | None => Ok (as_value VNil, st1)
            | Some v => walk f st1 v safe rest
            end
        | _ => Ok (as_value VNil, st1)
        end)
    | _ => Err 3
    end.
  Proof. intros. rewrite walk_S. destruct cur; reflexivity. Qed.

  Lemma text_of_key_eq : forall k, text_of_key k = to_string k.
  Proof. destruct k; reflexivity. Qed.

  (* the tail of every container case: an element (or none) and the rest of the path *)
  Lemma tail_case : forall (o : option val) safe st steps (W : val -> res (value * mstate)),
    (forall v, W v = answer safe st (follow2 v steps)) ->
    match o with
    | Some VNil | None => Ok (as_value VNil, st)
    | Some v => W v
    end =
    answer safe st match elem_or_nothing o with
                   | Next v => follow2 v steps
                   | Nothing => Empty
                   | Bad => ExecError
                   | Outside => NotModelled
                   end.
  Proof.
    intros o safe st steps W HW. destruct o as [v|]; [|reflexivity].
    destruct v; try reflexivity; cbn [elem_or_nothing]; apply HW.
  Qed.

  (* following steps, computed keys included, is exactly the reference, to any depth *)
  Lemma walk_follows2 : forall f0 st parts steps,
    Forall2 (denotes (pure_key f0 st)) parts steps ->
    forall f cur safe, (length steps + f0 < f)%nat ->
    walk f st cur safe parts = answer safe st (follow2 cur steps).
  Proof.
    intros f0 st parts steps HF.
    induction HF as [|p s parts steps Hd HF IH]; intros f cur safe Hf.
    - destruct f; [simpl in Hf; lia|]. reflexivity.
    - destruct f as [|f]; [simpl in Hf; lia|]. cbn [length] in Hf.
      assert (IH' : forall v, walk f st v safe parts = answer safe st (follow2 v steps)).
      { intro v. apply IH. lia. }
      destruct Hd as [k|i|e k Hk]; cbn [follow2 one_step].
      + rewrite walk_key.
        destruct cur; try reflexivity; cbn [keyed];
          exact (tail_case _ safe st steps _ IH').
      + rewrite walk_idx. destruct (indexable cur) eqn:E.
        * rewrite (index_val_spec _ _ E). exact (tail_case _ safe st steps _ IH').
        * rewrite (not_indexable_spec _ _ E). reflexivity.
      + destruct Hk as [ks Hk]. rewrite walk_sub.
        assert (He : eval f st e = Ok (mkV k ks, st)) by (apply Hk; lia).
        destruct cur; try reflexivity; rewrite He; cbv beta iota delta [bind];
          cbn [sub_step].
        * (* string *)
          cbn [vv]. destruct k as [|?|i|?|?|?|?|?]; try reflexivity. cbn [index_of_key].
          rewrite (index_val_spec (VStr s) i eq_refl).
          exact (tail_case _ safe st steps _ IH').
        * (* list *)
          cbn [vv]. destruct k as [|?|i|?|?|?|?|?]; try reflexivity. cbn [index_of_key].
          rewrite (index_val_spec (VList l) i eq_refl).
          exact (tail_case _ safe st steps _ IH').
        * (* map *)
          cbn [vv]. destruct k; try reflexivity.
          exact (tail_case _ safe st steps _ IH').
        * (* struct *)
          unfold str_of; cbn [vv]. rewrite text_of_key_eq.
          destruct (to_string k) as [name|]; [|reflexivity]. cbv beta iota delta [of_opt].
          exact (tail_case _ safe st steps _ IH').
  Qed.

  (* ---------- the first name ---------- *)
  Lemma resolve_first : forall f st fr name parts,
    top_frame st = Ok fr ->
    resolve (S f) st (PIdent name None :: parts) =
    match lookup_name name (f_priv fr) (f_pub fr) with
    | None => Ok (as_value VNil, st)
    | Some (CV v) => match vv v with
                     | VNil => Ok (as_value VNil, st)
                     | _ => walk f st (vv v) (vsafe v) parts
                     end
    | Some (CMacro m fidx) =>
        bind (PV.Model.Exec.eval_list se globals f st []) (fun '(args, st1) =>
        bind (PV.Model.Exec.call_macro se globals f st1 m fidx args) (fun '(r, st2) =>
        walk f st2 (vv r) (vsafe r) parts))
    | Some (CBlock fidx wrappers) =>
        match parts with
        | [PIdent meth mcall] =>
            if str_eqb meth [83; 117; 112; 101; 114] then
              match mcall with Some (_ :: _) => Err 3 | _ => PV.Model.Exec.call_super se globals f st fidx wrappers end
            else Unmod
        | _ => Unmod
        end
    | Some (CCycle _ _ _ _) => Unmod
    end.
  Proof.
    intros f st fr name parts Ht. rewrite resolve_S, Ht. cbv beta iota delta [bind].
    unfold lookup_name.
    destruct (match ctx_get name (f_priv fr) with Some c => Some c | None => ctx_get name (f_pub fr) end)
      as [[v| | |]|]; reflexivity.
  Qed.

  (* a data name: found by the lookup order, then followed by the reference *)
  Lemma resolve_data2 : forall f0 f st fr name v parts steps,
    top_frame st = Ok fr ->
    lookup_name name (f_priv fr) (f_pub fr) = Some (CV v) ->
    Forall2 (denotes (pure_key f0 st)) parts steps ->
    (length steps + f0 < f)%nat ->
    resolve (S f) st (PIdent name None :: parts) =
    match vv v with
    | VNil => Ok (as_value VNil, st)
    | _ => answer (vsafe v) st (follow2 (vv v) steps)
    end.
  Proof.
    intros f0 f st fr name v parts steps Ht Hl HF Hf.
    rewrite (resolve_first _ _ _ _ _ Ht), Hl.
    rewrite (walk_follows2 _ _ _ _ HF) by exact Hf.
    destruct (vv v); reflexivity.
  Qed.

  Lemma resolve_unknown2 : forall f st fr name parts,
    top_frame st = Ok fr ->
    lookup_name name (f_priv fr) (f_pub fr) = None ->
    resolve (S f) st (PIdent name None :: parts) = Ok (as_value VNil, st).
  Proof. intros f st fr name parts Ht Hl. rewrite (resolve_first _ _ _ _ _ Ht), Hl. reflexivity. Qed.

  (* the lookup order in one statement (macros, blocks and cycle values are not data) *)
  Lemma lookup_order : forall f0 f st fr name parts steps,
    top_frame st = Ok fr ->
    Forall2 (denotes (pure_key f0 st)) parts steps ->
    (length steps + f0 < f)%nat ->
    match lookup_name name (f_priv fr) (f_pub fr) with
    | None => resolve (S f) st (PIdent name None :: parts) = Ok (as_value VNil, st)
    | Some (CV v) =>
        resolve (S f) st (PIdent name None :: parts) =
        match vv v with
        | VNil => Ok (as_value VNil, st)
        | _ => answer (vsafe v) st (follow2 (vv v) steps)
        end
    | Some _ => True
    end.
  Proof.
    intros f0 f st fr name parts steps Ht HF Hf.
    destruct (lookup_name name (f_priv fr) (f_pub fr)) as [[v| | |]|] eqn:Hl; try exact I.
    - eapply resolve_data2; eassumption.
    - eapply resolve_unknown2; eassumption.
  Qed.

  (* the public context of an execution's root frame is the caller's context over the globals:
     three levels *)
  Lemma lookup_root : forall name priv ctx,
    lookup_name name priv (ctx_update globals ctx) = lookup_3 name priv ctx globals.
  Proof. intros. unfold lookup_name, lookup_3. rewrite ctx_get_update. reflexivity. Qed.

  Lemma root_frame_pub : forall t ctx id, f_pub (root_frame globals t ctx id) = ctx_update globals ctx.
  Proof. reflexivity. Qed.

  Lemma lookup_root_frame : forall name priv t ctx id,
    lookup_name name priv (f_pub (root_frame globals t ctx id)) = lookup_3 name priv ctx globals.
  Proof. intros. rewrite root_frame_pub. apply lookup_root. Qed.

  (* ---------- keys that are pure: literals and data names ---------- *)
  Lemma pure_int : forall st z, pure_key 1 st (EInt z) (VInt z).
  Proof. intros st z. exists false. intros [|f] H; [lia|reflexivity]. Qed.
  Lemma pure_str : forall st s, pure_key 1 st (EStr s) (VStr s).
  Proof. intros st s. exists false. intros [|f] H; [lia|reflexivity]. Qed.
  Lemma pure_float : forall st x, pure_key 1 st (EFloat x) (VFloat x).
  Proof. intros st x. exists false. intros [|f] H; [lia|reflexivity]. Qed.
  Lemma pure_bool : forall st b, pure_key 1 st (EBool b) (VBool b).
  Proof. intros st b. exists false. intros [|f] H; [lia|reflexivity]. Qed.

  Lemma pure_key_mono : forall f0 f1 st e k, (f0 <= f1)%nat -> pure_key f0 st e k -> pure_key f1 st e k.
  Proof. intros f0 f1 st e k Hle [s H]. exists s. intros f Hf. apply H. lia. Qed.

  Lemma eval_var : forall f st parts, eval (S f) st (EVar parts) = resolve f st parts.
  Proof. reflexivity. Qed.

  Lemma follow2_nil_found : forall steps x, follow2 VNil steps = Found x -> steps = [] /\ x = VNil.
  Proof.
    intros [|s steps] x H; [injection H as <-; split; reflexivity|].
    destruct s; discriminate H.
  Qed.

  Lemma pure_var : forall f0 st fr name v parts steps x,
    top_frame st = Ok fr ->
    lookup_name name (f_priv fr) (f_pub fr) = Some (CV v) ->
    Forall2 (denotes (pure_key f0 st)) parts steps ->
    follow2 (vv v) steps = Found x ->
    pure_key (length steps + f0 + 3) st (EVar (PIdent name None :: parts)) x.
  Proof.
    intros f0 st fr name v parts steps x Ht Hl HF Hx.
    exists (match vv v with VNil => false | _ => vsafe v end). intros f Hf.
    destruct f as [|[|f]]; [lia|lia|]. rewrite eval_var.
    rewrite (resolve_data2 f0 f st fr name v parts steps Ht Hl HF) by lia.
    rewrite Hx. destruct (vv v) eqn:Ev; try reflexivity.
    apply follow2_nil_found in Hx. destruct Hx as [_ ->]. reflexivity.
  Qed.
End W2.

(* ---------- set / with / for bindings are private: they shadow context keys and globals ---------- *)
Section Shadow.
  Variable se : senv.
  Variable globals : list (str * cval).

  Local Notation eval := (PV.Model.Exec.eval se globals).
  Local Notation resolve := (PV.Model.Exec.resolve se globals).
  Local Notation exec_node := (PV.Model.Exec.exec_node se globals).
  Local Notation exec_nodes := (PV.Model.Exec.exec_nodes se globals).
  Local Notation exec_for := (PV.Model.Exec.exec_for se globals).
  Local Notation eval_pairs := (PV.Model.Exec.eval_pairs se globals).
  Local Notation pure_key := (pure_key se globals).

  Local Notation denotes_value := (denotes_value se globals).

  Lemma private_denotes : forall st fr name x,
    top_frame st = Ok fr -> ctx_get name (f_priv fr) = Some (CV x) -> denotes_value st name x.
  Proof.
    intros st fr name x Ht Hp f0 g parts steps HF Hg.
    eapply resolve_data2; try eassumption. unfold lookup_name. rewrite Hp. reflexivity.
  Qed.

  Lemma top_of_set_top : forall st fr fr', top_frame st = Ok fr -> top_frame (set_top st fr') = Ok fr'.
  Proof. intros st fr fr' H. unfold top_frame. rewrite (frames_set_top _ _ fr' H). reflexivity. Qed.

  (* --- set --- *)
  Lemma exec_node_set : forall f st name e,
    exec_node (S f) st (NSet name e) =
    match eval f st e with
    | Ok (v, st1) => match set_priv st1 name (CV v) with Ok st2 => xok [] st2 | other => xfail [] other end
    | other => xfail [] other
    end.
  Proof. reflexivity. Qed.

  Lemma set_then_lookup : forall f st name e o st',
    exec_node f st (NSet name e) = (o, Ok st') ->
    exists v st1, eval (pred f) st e = Ok (v, st1) /\ denotes_value st' name v.
  Proof.
    intros [|f] st name e o st' H; [rewrite exec_node_0 in H; discriminate H|].
    rewrite exec_node_set in H. cbn [pred].
    destruct (eval f st e) as [[v st1]| | | |] eqn:He;
      try (exfalso; eapply xfail_not_ok; exact H).
    destruct (set_priv st1 name (CV v)) as [st2| | | |] eqn:Hs;
      try (exfalso; eapply xfail_not_ok; exact H).
    unfold xok in H. injection H as _ ->.
    exists v, st1. split; [reflexivity|].
    apply set_priv_ok in Hs. destruct Hs as (fr & Hf & ->).
    eapply private_denotes; [eapply top_of_set_top; exact Hf|].
    cbn [f_priv with_priv]. apply Frames.ctx_get_set.
  Qed.

  (* --- with --- *)
  Lemma exec_node_with : forall f st pairs body,
    exec_node (S f) st (NWith pairs body) =
    match top_frame st with
    | Ok fr =>
        match eval_pairs f st pairs with
        | Ok (vals, st1) =>
            match top_frame st1 with
            | Ok fr1 =>
                let wfr := with_priv (child_of fr1) (ctx_update (f_priv fr1) vals) in
                let '(o, r) := exec_nodes f (push_frame st1 wfr) body in
                (o, match r with Ok st2 => Ok (pop_frame st2) | other => other end)
            | other => xfail [] other
            end
        | other => xfail [] other
        end
    | other => xfail [] other
    end.
  Proof. reflexivity. Qed.

  Lemma eval_pairs_frames : forall f st ps r st',
    eval_pairs f st ps = Ok (r, st') -> ms_frames st' = ms_frames st.
  Proof.
    intro f. destruct (frames_inv_all se globals f) as (_ & _ & _ & _ & _ & _ & _ & _ & I & _). exact I.
  Qed.

  Lemma eval_pairs_names : forall f st pairs vals st1,
    eval_pairs f st pairs = Ok (vals, st1) -> map fst vals = map fst pairs.
  Proof.
    induction f as [|f IH]; intros st pairs vals st1 H; [rewrite eval_pairs_0 in H; discriminate H|].
    rewrite eval_pairs_S in H. destruct pairs as [|[k e] rest].
    - injection H as <- _. reflexivity.
    - apply bind_ok_inv in H. destruct H as ([v sta] & _ & H).
      apply bind_ok_inv in H. destruct H as ([r stb] & Hr & H).
      injection H as <- _. cbn [map fst]. f_equal. eapply IH; exact Hr.
  Qed.

  Lemma with_body_lookup : forall f st pairs body fr vals st1,
    top_frame st = Ok fr ->
    eval_pairs f st pairs = Ok (vals, st1) ->
    exists st_in,
      exec_node (S f) st (NWith pairs body) =
        (let '(o, r) := exec_nodes f st_in body in
         (o, match r with Ok st2 => Ok (pop_frame st2) | other => other end)) /\
      map fst vals = map fst pairs /\
      forall name v, ctx_get name (rev vals) = Some (CV v) -> denotes_value st_in name v.
  Proof.
    intros f st pairs body fr vals st1 Ht Hp.
    assert (Ht1 : top_frame st1 = Ok fr).
    { unfold top_frame. rewrite (eval_pairs_frames _ _ _ _ _ Hp). exact Ht. }
    exists (push_frame st1 (with_priv (child_of fr) (ctx_update (f_priv fr) vals))).
    split; [|split].
    - rewrite exec_node_with, Ht, Hp, Ht1. reflexivity.
    - eapply eval_pairs_names; exact Hp.
    - intros name v Hv. eapply private_denotes; [reflexivity|].
      cbn [f_priv with_priv]. rewrite ctx_get_update, Hv. reflexivity.
  Qed.

  (* --- for --- *)
  (* the private bindings of one iteration *)
  Definition for_priv (key value : str) (k : val) (vo : option val) (info : val)
      (priv : list (str * cval)) : list (str * cval) :=
    let p1 := ctx_set key (CV (as_value k)) priv in
    let p2 := match vo with Some v => ctx_set value (CV (as_value v)) p1 | None => p1 end in
    ctx_set forloop_name (CV (as_value info)) p2.

  Lemma ctx_get_for_priv : forall name key value k vo info priv,
    ctx_get name (for_priv key value k vo info priv) =
    match for_binding name key value k vo info with
    | Some x => Some (CV (as_value x))
    | None => ctx_get name priv
    end.
  Proof.
    intros. unfold for_priv, for_binding. cbv zeta. rewrite WalkProofs.ctx_get_set.
    destruct (str_eqb name forloop_name); [reflexivity|].
    destruct vo as [v|]; rewrite !WalkProofs.ctx_get_set;
      [destruct (str_eqb name value); [reflexivity|]|]; destruct (str_eqb name key); reflexivity.
  Qed.

  Lemma exec_for_cons : forall f st key value parent body k vo rest idx count fr,
    top_frame st = Ok fr ->
    exec_for (S f) st key value parent body ((k, vo) :: rest) idx count =
    match exec_nodes f (set_top st (with_priv fr (for_priv key value k vo (loop_struct idx count parent) (f_priv fr)))) body with
    | (o1, Ok st1) => let '(o2, r) := exec_for f st1 key value parent body rest (idx + 1) count in (o1 ++ o2, r)
    | other => other
    end.
  Proof. intros * Ht. rewrite exec_for_S, Ht. reflexivity. Qed.

  (* any iteration: the body runs in a state where the loop's names denote the item and the
     loop information, whatever the context and the globals hold under these names *)
  Lemma for_iteration_lookup : forall f st key value parent body k vo rest idx count fr,
    top_frame st = Ok fr ->
    exists st_it,
      exec_for (S f) st key value parent body ((k, vo) :: rest) idx count =
        match exec_nodes f st_it body with
        | (o1, Ok st1) => let '(o2, r) := exec_for f st1 key value parent body rest (idx + 1) count in (o1 ++ o2, r)
        | other => other
        end /\
      forall name x, for_binding name key value k vo (loop_struct idx count parent) = Some x ->
        denotes_value st_it name (as_value x).
  Proof.
    intros f st key value parent body k vo rest idx count fr Ht.
    exists (set_top st (with_priv fr (for_priv key value k vo (loop_struct idx count parent) (f_priv fr)))).
    split; [apply exec_for_cons; exact Ht|].
    intros name x Hb. eapply private_denotes; [eapply top_of_set_top; exact Ht|].
    cbn [f_priv with_priv]. rewrite ctx_get_for_priv, Hb. reflexivity.
  Qed.

  Lemma exec_node_for : forall f st key value obj rv srt body empty fr,
    top_frame st = Ok fr ->
    exec_node (S f) st (NFor key value obj rv srt body empty) =
    match eval f (for_entry_state st fr) obj with
    | Ok (ov, st1) =>
        match iter_items (vv ov) rv srt with
        | Ok (Some ((_ :: _) as items)) =>
            let '(o, r) := exec_for f st1 key value (for_parent fr) body items 0 (Z.of_nat (length items)) in
            (o, match r with Ok st2 => Ok (pop_frame st2) | other => other end)
        | Ok _ =>
            match empty with
            | Some eb => let '(o, r) := exec_nodes f st1 eb in
                         (o, match r with Ok st2 => Ok (pop_frame st2) | other => other end)
            | None => xok [] (pop_frame st1)
            end
        | other => xfail [] other
        end
    | other => xfail [] other
    end.
  Proof.
    intros * Ht.
    change (exec_node (S f) st (NFor key value obj rv srt body empty)) with
      (match top_frame st with
       | Ok fr =>
           match eval f (for_entry_state st fr) obj with
           | Ok (ov, st1) =>
               match iter_items (vv ov) rv srt with
               | Ok (Some ((_ :: _) as items)) =>
                   let '(o, r) := exec_for f st1 key value (for_parent fr) body items 0 (Z.of_nat (length items)) in
                   (o, match r with Ok st2 => Ok (pop_frame st2) | other => other end)
               | Ok _ =>
                   match empty with
                   | Some eb => let '(o, r) := exec_nodes f st1 eb in
                                (o, match r with Ok st2 => Ok (pop_frame st2) | other => other end)
                   | None => xok [] (pop_frame st1)
                   end
               | other => xfail [] other
               end
           | other => xfail [] other
           end
       | other => xfail [] other
       end).
    rewrite Ht. reflexivity.
  Qed.

  (* the for tag, first iteration: the item is bound privately *)
  Lemma for_first_lookup : forall f st key value obj rv srt body empty fr ov st1 k vo rest,
    top_frame st = Ok fr ->
    eval (S f) (for_entry_state st fr) obj = Ok (ov, st1) ->
    iter_items (vv ov) rv srt = Ok (Some ((k, vo) :: rest)) ->
    let count := Z.of_nat (length ((k, vo) :: rest)) in
    exists st_it,
      exec_node (S (S f)) st (NFor key value obj rv srt body empty) =
        (let '(o, r) := exec_for (S f) st1 key value (for_parent fr) body ((k, vo) :: rest) 0 count in
         (o, match r with Ok st2 => Ok (pop_frame st2) | other => other end)) /\
      exec_for (S f) st1 key value (for_parent fr) body ((k, vo) :: rest) 0 count =
        match exec_nodes f st_it body with
        | (o1, Ok st2) => let '(o2, r) := exec_for f st2 key value (for_parent fr) body rest (0 + 1) count in (o1 ++ o2, r)
        | other => other
        end /\
      forall name x, for_binding name key value k vo (loop_struct 0 count (for_parent fr)) = Some x ->
        denotes_value st_it name (as_value x).
  Proof.
    intros f st key value obj rv srt body empty fr ov st1 k vo rest Ht He Hi count.
    assert (Ht1 : exists fr1, top_frame st1 = Ok fr1).
    { pose proof (tie_eval_preserves_frames se globals _ _ _ _ _ He) as Hfr.
      unfold top_frame. rewrite Hfr. cbn [for_entry_state push_frame ms_frames]. eexists; reflexivity. }
    destruct Ht1 as [fr1 Ht1].
    destruct (for_iteration_lookup f st1 key value (for_parent fr) body k vo rest 0%Z count fr1 Ht1)
      as (st_it & Hx & Hl).
    exists st_it. split; [|split; [exact Hx|exact Hl]].
    rewrite (exec_node_for _ _ _ _ _ _ _ _ _ _ Ht), He, Hi. reflexivity.
  Qed.
End Shadow.

(* ---------- the reference itself: it extends Spec/SpecWalk.v's, and a computed key that is an
   integer (on a sequence) or a string (on a map or struct) is the static step ---------- *)
Lemma follow2_lift : forall steps cur,
  follow2 cur (map lift_step steps) = lift_found (follow cur steps).
Proof.
  induction steps as [|s steps IH]; intro cur; [reflexivity|].
  destruct s as [k|i]; cbn [map lift_step follow2 one_step follow].
  - destruct (keyed cur) as [m|]; [|reflexivity].
    destruct (assoc_get k m) as [v|]; [|reflexivity].
    destruct v; cbn [elem_or_nothing]; try reflexivity; apply IH.
  - destruct (nth_of cur i) as [[v|]|]; try reflexivity.
    destruct v; cbn [elem_or_nothing]; try reflexivity; apply IH.
Qed.

Lemma sub_int_is_index : forall cur i rest,
  keyed cur = None ->
  follow2 cur (SSub (VInt i) :: rest) = follow2 cur (SIndex i :: rest).
Proof. intros cur i rest H. destruct cur; try discriminate H; reflexivity. Qed.

Lemma sub_str_is_name : forall cur k rest,
  is_seq cur = false ->
  follow2 cur (SSub (VStr k) :: rest) = follow2 cur (SName k :: rest).
Proof. intros cur k rest H. destruct cur; try discriminate H; reflexivity. Qed.

(* on a sequence only an integer key is an index: any other key is empty, whatever follows *)
Lemma sub_non_integer_key : forall cur k rest,
  is_seq cur = true -> (forall i, k <> VInt i) ->
  follow2 cur (SSub k :: rest) = Empty.
Proof.
  intros cur k rest Hc Hk.
  assert (Hn : index_of_key k = None).
  { destruct k as [|?|i|?|?|?|?|?]; try reflexivity. exfalso. exact (Hk i eq_refl). }
  destruct cur; try discriminate Hc; cbn [follow2 one_step sub_step]; rewrite Hn; reflexivity.
Qed.

(* an integer key that is negative or too large is empty *)
Lemma sub_out_of_range : forall l i rest,
  (i < 0 \/ Z.of_nat (length l) <= i)%Z ->
  follow2 (VList l) (SSub (VInt i) :: rest) = Empty.
Proof.
  intros l i rest Hi. cbn [follow2 one_step sub_step index_of_key nth_of].
  replace ((0 <=? i) && (i <? Z.of_nat (length l)))%Z with false; [reflexivity|].
  symmetry. apply andb_false_iff. destruct Hi; [left; apply Z.leb_gt|right; apply Z.ltb_ge]; lia.
Qed.
