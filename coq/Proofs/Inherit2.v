(* Property C10, second part: what a child template writes outside its blocks is ignored.
   A simulation over the 17 mutually recursive executor functions of Model/Exec.v: two states
   that differ only in the parts of the templates on their frames' chains that the executor
   never reads (root nodes, parent, macros) produce the same output and states that again
   differ only there.  The fixpoints are never simplified: the proofs rewrite with the one-step
   unfolding equations of Proofs/Frames.v. *)
From Coq Require Import List NArith ZArith Bool Lia Arith.
From PV Require Import Model.Exec Model.Api Spec.SpecFrames Spec.SpecInherit Spec.SpecInherit2.
From PV Require Import Proofs.Frames Proofs.Compose.
From PV Require Import gen.Tables.
Import ListNotations.
Open Scope N_scope.

(* ================= the normal form of a state ================= *)
(* a chain member reduced to what the executor reads of it *)
Definition strip (t : template) : template :=
  Tpl (tpl_id t) (tpl_name t) (tpl_is_string t) [] (tpl_blocks t) [] None (tpl_trim t) (tpl_lstrip t).
Definition Tf (fr : frame) : frame :=
  mkF (f_priv fr) (f_pub fr) (f_auto fr) (f_depth fr) (f_exec fr) (map strip (f_chain fr)).
Definition T (st : mstate) : mstate := mkM (map Tf (ms_frames st)) (ms_nodes st) (ms_g st).

(* results, with the state normalised; all defined by a match on the argument so that cbn
   leaves them alone until the argument is a constructor *)
Definition Trs (r : res mstate) : res mstate :=
  match r with Ok s => Ok (T s) | Err k => Err k | Unmod => Unmod | Fuel => Fuel | Panic s => Panic s end.
Definition Tx (x : xres) : xres := match x with (o, r) => (o, Trs r) end.
Definition Tp {A} (p : A * mstate) : A * mstate := match p with (a, s) => (a, T s) end.
Definition Tv {A} (r : res (A * mstate)) : res (A * mstate) :=
  match r with Ok p => Ok (Tp p) | Err k => Err k | Unmod => Unmod | Fuel => Fuel | Panic s => Panic s end.
Definition Tfr (r : res frame) : res frame :=
  match r with Ok fr => Ok (Tf fr) | Err k => Err k | Unmod => Unmod | Fuel => Fuel | Panic s => Panic s end.
Definition Tfo (o : option frame) : option frame :=
  match o with Some fr => Some (Tf fr) | None => None end.

(* ---- T is a homomorphism for every state operation the executor uses ---- *)
Lemma Tf_with_priv : forall fr p, Tf (with_priv fr p) = with_priv (Tf fr) p.
Proof. reflexivity. Qed.
Lemma Tf_with_auto : forall fr a, Tf (with_auto fr a) = with_auto (Tf fr) a.
Proof. reflexivity. Qed.
Lemma Tf_with_depth : forall fr d, Tf (with_depth fr d) = with_depth (Tf fr) d.
Proof. reflexivity. Qed.
Lemma Tf_child_of : forall fr, Tf (child_of fr) = child_of (Tf fr).
Proof. reflexivity. Qed.
Lemma T_mkM : forall l n g, T (mkM l n g) = mkM (map Tf l) n g.
Proof. reflexivity. Qed.
Lemma T_frames : forall st, map Tf (ms_frames st) = ms_frames (T st).
Proof. reflexivity. Qed.
Lemma T_push : forall st fr, T (push_frame st fr) = push_frame (T st) (Tf fr).
Proof. reflexivity. Qed.
Lemma T_pop : forall st, T (pop_frame st) = pop_frame (T st).
Proof. intros [[|x l] n g]; reflexivity. Qed.
Lemma T_set_top : forall st fr, T (set_top st fr) = set_top (T st) (Tf fr).
Proof. intros [[|x l] n g] fr; reflexivity. Qed.
Lemma T_ns_set : forall st e n s, T (ns_set st e n s) = ns_set (T st) e n s.
Proof. reflexivity. Qed.
Lemma map_update_nth : forall A B (h : A -> B) l i x, map h (update_nth l i x) = update_nth (map h l) i (h x).
Proof. intros A B h l. induction l as [|y l IH]; intros [|i] x; cbn; try reflexivity. rewrite IH. reflexivity. Qed.
Lemma T_set_frame_at : forall st i fr, T (set_frame_at st i fr) = set_frame_at (T st) i (Tf fr).
Proof.
  intros st i fr. unfold set_frame_at, T. cbn [ms_frames ms_nodes ms_g].
  rewrite map_rev, map_update_nth, map_rev. reflexivity.
Qed.

(* observations *)
Lemma top_frame_hom : forall st, top_frame (T st) = Tfr (top_frame st).
Proof. intros [[|x l] n g]; reflexivity. Qed.
Lemma frame_at_hom : forall st i, frame_at (T st) i = Tfo (frame_at st i).
Proof.
  intros st i. unfold frame_at, T. cbn [ms_frames]. rewrite <- map_rev.
  generalize (rev (ms_frames st)) as l. revert i.
  induction i as [|i IH]; intros [|x l]; cbn; try reflexivity. apply IH.
Qed.
Lemma set_priv_hom : forall st k v, set_priv (T st) k v = Trs (set_priv st k v).
Proof.
  intros st k v. unfold set_priv. rewrite top_frame_hom.
  destruct (top_frame st) as [fr| | | |]; cbn [bind Tfr Trs]; try reflexivity.
  rewrite T_set_top. reflexivity.
Qed.

(* what an equation between normal forms gives *)
Lemma T_nodes : forall a b, T a = T b -> ms_nodes a = ms_nodes b.
Proof. intros a b H. exact (f_equal ms_nodes H). Qed.
Lemma T_g : forall a b, T a = T b -> ms_g a = ms_g b.
Proof. intros a b H. exact (f_equal ms_g H). Qed.
Lemma T_length : forall a b, T a = T b -> length (ms_frames a) = length (ms_frames b).
Proof.
  intros a b H. apply (f_equal (fun s => length (ms_frames s))) in H. cbn [T ms_frames] in H.
  rewrite !map_length in H. exact H.
Qed.
Lemma T_cur_index : forall a b, T a = T b -> cur_index a = cur_index b.
Proof. intros a b H. unfold cur_index. rewrite (T_length a b H). reflexivity. Qed.
Lemma Tf_priv : forall x y, Tf x = Tf y -> f_priv x = f_priv y.
Proof. intros x y H. exact (f_equal f_priv H). Qed.
Lemma Tf_pub : forall x y, Tf x = Tf y -> f_pub x = f_pub y.
Proof. intros x y H. exact (f_equal f_pub H). Qed.
Lemma Tf_auto : forall x y, Tf x = Tf y -> f_auto x = f_auto y.
Proof. intros x y H. exact (f_equal f_auto H). Qed.
Lemma Tf_depth : forall x y, Tf x = Tf y -> f_depth x = f_depth y.
Proof. intros x y H. exact (f_equal f_depth H). Qed.
Lemma Tf_exec : forall x y, Tf x = Tf y -> f_exec x = f_exec y.
Proof. intros x y H. exact (f_equal f_exec H). Qed.
Lemma Tf_chain : forall x y, Tf x = Tf y -> map strip (f_chain x) = map strip (f_chain y).
Proof. intros x y H. exact (f_equal f_chain H). Qed.

(* the three ways the executor reads a chain see the stripped chain only *)
Definition dflt_tpl : template := Tpl 0 [] true [] [] [] None false false.
Lemma strip_last : forall c, strip (last c dflt_tpl) = last (map strip c) dflt_tpl.
Proof.
  induction c as [|t c IH]; [reflexivity|]. destruct c as [|u c]; [reflexivity|].
  change (last (t :: u :: c) dflt_tpl) with (last (u :: c) dflt_tpl).
  change (last (map strip (t :: u :: c)) dflt_tpl) with (last (map strip (u :: c)) dflt_tpl).
  exact IH.
Qed.
Lemma strip_hd : forall c, strip (hd dflt_tpl c) = hd dflt_tpl (map strip c).
Proof. intros [|t c]; reflexivity. Qed.
Lemma blocks_strip : forall bname c,
  flat_map (fun t => match assoc_get bname (tpl_blocks t) with Some w => [w] | None => [] end) c =
  flat_map (fun t => match assoc_get bname (tpl_blocks t) with Some w => [w] | None => [] end) (map strip c).
Proof. intros bname c. induction c as [|t c IH]; [reflexivity|]. cbn [flat_map map]. rewrite IH. reflexivity. Qed.

Lemma owner_strip : forall owner c,
  existsb (fun t => tpl_id t =? owner) c = existsb (fun t => tpl_id t =? owner) (map strip c).
Proof. intros owner c. induction c as [|t c IH]; [reflexivity|]. cbn [existsb map]. rewrite IH. reflexivity. Qed.
Section ChainObs.
Variables x y : frame.
Hypothesis H : Tf x = Tf y.
Let Hc := Tf_chain x y H.
Lemma Tf_last_id : tpl_id (last (f_chain x) (Tpl 0 [] true [] [] [] None false false)) =
                   tpl_id (last (f_chain y) (Tpl 0 [] true [] [] [] None false false)).
Proof.
  change (tpl_id (strip (last (f_chain x) dflt_tpl)) = tpl_id (strip (last (f_chain y) dflt_tpl))).
  rewrite !strip_last, Hc. reflexivity.
Qed.
Lemma Tf_chain_owner : forall owner,
  existsb (fun t => tpl_id t =? owner) (f_chain x) = existsb (fun t => tpl_id t =? owner) (f_chain y).
Proof. intros owner. rewrite (owner_strip owner (f_chain x)), (owner_strip owner (f_chain y)), Hc. reflexivity. Qed.
Lemma Tf_last_lstrip : tpl_lstrip (last (f_chain x) (Tpl 0 [] true [] [] [] None false false)) =
                       tpl_lstrip (last (f_chain y) (Tpl 0 [] true [] [] [] None false false)).
Proof.
  change (tpl_lstrip (strip (last (f_chain x) dflt_tpl)) = tpl_lstrip (strip (last (f_chain y) dflt_tpl))).
  rewrite !strip_last, Hc. reflexivity.
Qed.
Lemma Tf_last_trim : tpl_trim (last (f_chain x) (Tpl 0 [] true [] [] [] None false false)) =
                     tpl_trim (last (f_chain y) (Tpl 0 [] true [] [] [] None false false)).
Proof.
  change (tpl_trim (strip (last (f_chain x) dflt_tpl)) = tpl_trim (strip (last (f_chain y) dflt_tpl))).
  rewrite !strip_last, Hc. reflexivity.
Qed.
Lemma Tf_hd_is_string : tpl_is_string (hd (Tpl 0 [] true [] [] [] None false false) (f_chain x)) =
                        tpl_is_string (hd (Tpl 0 [] true [] [] [] None false false) (f_chain y)).
Proof.
  change (tpl_is_string (strip (hd dflt_tpl (f_chain x))) = tpl_is_string (strip (hd dflt_tpl (f_chain y)))).
  rewrite !strip_hd, Hc. reflexivity.
Qed.
Lemma Tf_hd_name : tpl_name (hd (Tpl 0 [] true [] [] [] None false false) (f_chain x)) =
                   tpl_name (hd (Tpl 0 [] true [] [] [] None false false) (f_chain y)).
Proof.
  change (tpl_name (strip (hd dflt_tpl (f_chain x))) = tpl_name (strip (hd dflt_tpl (f_chain y)))).
  rewrite !strip_hd, Hc. reflexivity.
Qed.
Lemma Tf_blocks : forall bname,
  flat_map (fun t => match assoc_get bname (tpl_blocks t) with Some w => [w] | None => [] end) (f_chain x) =
  flat_map (fun t => match assoc_get bname (tpl_blocks t) with Some w => [w] | None => [] end) (f_chain y).
Proof. intros bname. rewrite (blocks_strip bname (f_chain x)), (blocks_strip bname (f_chain y)), Hc. reflexivity. Qed.
End ChainObs.

(* ================= the simulation ================= *)
Ltac hscrut t :=
  lazymatch t with
  | match ?x with _ => _ end => hscrut x
  | _ => t
  end.

(* the two stack views of a macro call: the stack up to the defining frame, and the stack
   put back together after the defaults were evaluated *)
Lemma T_view_raw : forall s i n g,
  T (mkM (skipn (length (ms_frames s) - S i) (ms_frames s)) n g) =
  mkM (skipn (length (ms_frames (T s)) - S i) (ms_frames (T s))) n g.
Proof.
  intros s i n g. unfold T. cbn [ms_frames ms_nodes ms_g].
  rewrite map_length, skipn_map. reflexivity.
Qed.
Lemma T_unview_raw : forall s i l n g,
  T (mkM (firstn (length (ms_frames s) - S i) (ms_frames s) ++ l) n g) =
  mkM (firstn (length (ms_frames (T s)) - S i) (ms_frames (T s)) ++ map Tf l) n g.
Proof.
  intros s i l n g. unfold T. cbn [ms_frames ms_nodes ms_g].
  rewrite map_length, map_app, firstn_map. reflexivity.
Qed.

(* push T towards the leaves of a state expression *)
Ltac push_T :=
  repeat first [ rewrite T_view_raw | rewrite T_unview_raw | rewrite T_push | rewrite T_pop | rewrite T_set_top | rewrite T_ns_set
               | rewrite T_set_frame_at | rewrite T_mkM | rewrite Tf_with_priv
               | rewrite Tf_with_auto | rewrite Tf_with_depth | rewrite Tf_child_of
               | rewrite map_cons | rewrite T_frames ].
Ltac solve_T := cbn [Tx Trs Tv Tp Tfr Tfo]; push_T; congruence.

(* rewrite what the second run reads into what the first run reads *)
Ltac b2a :=
  repeat match goal with
  | H : T ?x = T ?y |- _ =>
      first [ progress rewrite <- (T_nodes x y H) | progress rewrite <- (T_g x y H)
            | progress rewrite <- (T_cur_index x y H) ]
  | H : Tf ?x = Tf ?y |- _ =>
      first [ progress rewrite <- (Tf_priv x y H) | progress rewrite <- (Tf_pub x y H)
            | progress rewrite <- (Tf_auto x y H) | progress rewrite <- (Tf_depth x y H)
            | progress rewrite <- (Tf_exec x y H) | progress rewrite <- (Tf_last_id x y H)
            | progress rewrite <- (Tf_chain_owner x y H)
            | progress rewrite <- (Tf_last_lstrip x y H) | progress rewrite <- (Tf_last_trim x y H)
            | progress rewrite <- (Tf_hd_is_string x y H) | progress rewrite <- (Tf_hd_name x y H)
            | progress rewrite <- (Tf_blocks x y H) ]
  end.

(* consume an equation between two normalised results after both were destructed *)
Lemma ok_inj : forall A (x y : A), Ok x = Ok y -> x = y.
Proof. intros A x y H. injection H; auto. Qed.
Lemma err_inj : forall A (x y : N), @Err A x = @Err A y -> x = y.
Proof. intros A x y H. injection H; auto. Qed.
Lemma panic_inj : forall A (x y : N), @Panic A x = @Panic A y -> x = y.
Proof. intros A x y H. injection H; auto. Qed.
Lemma some_inj : forall A (x y : A), Some x = Some y -> x = y.
Proof. intros A x y H. injection H; auto. Qed.
Lemma pair_inj : forall A B (a c : A) (b d : B), (a, b) = (c, d) -> a = c /\ b = d.
Proof. intros A B a c b d H. injection H; auto. Qed.
(* decompose an equation between constructor terms, never looking inside T or Tf *)
Ltac dec E :=
  lazymatch type of E with
  | Ok _ = Ok _ => apply ok_inj in E; dec E
  | Some _ = Some _ => apply some_inj in E; dec E
  | Err _ = Err _ => apply err_inj in E; dec E
  | Panic _ = Panic _ => apply panic_inj in E; dec E
  | (_, _) = (_, _) =>
      let E1 := fresh "E" in apply pair_inj in E; destruct E as [E1 E]; dec E1; dec E
  | ?x = ?x => clear E
  | ?x = ?y => first [ is_var x; subst x | is_var y; subst y | idtac ]
  | _ => idtac
  end.
Ltac use_E E :=
  cbn [Tx Trs Tv Tp Tfr Tfo] in E; try discriminate E; dec E.

Lemma ms_nodes_ns_set : forall st e n s,
  ms_nodes (ns_set st e n s) =
  (e, n, s) :: filter (fun x => negb ((fst (fst x) =? e) && (snd (fst x) =? n))) (ms_nodes st).
Proof. reflexivity. Qed.

Lemma ms_nodes_set_frame_at : forall st i fr, ms_nodes (set_frame_at st i fr) = ms_nodes st.
Proof. reflexivity. Qed.
Lemma ms_g_set_frame_at : forall st i fr, ms_g (set_frame_at st i fr) = ms_g st.
Proof. reflexivity. Qed.

Section Sim.
Variable se : senv.
Variable globals : list (str * cval).

Local Notation root_frame := (PV.Model.Exec.root_frame globals).
Local Notation apply_filter_se := (PV.Model.Exec.apply_filter_se se).
Local Notation eval := (PV.Model.Exec.eval se globals).
Local Notation eval_list := (PV.Model.Exec.eval_list se globals).
Local Notation apply_chain := (PV.Model.Exec.apply_chain se globals).
Local Notation resolve := (PV.Model.Exec.resolve se globals).
Local Notation walk := (PV.Model.Exec.walk se globals).
Local Notation call_macro := (PV.Model.Exec.call_macro se globals).
Local Notation macro_defaults := (PV.Model.Exec.macro_defaults se globals).
Local Notation call_super := (PV.Model.Exec.call_super se globals).
Local Notation exec_nodes := (PV.Model.Exec.exec_nodes se globals).
Local Notation exec_node := (PV.Model.Exec.exec_node se globals).
Local Notation exec_if := (PV.Model.Exec.exec_if se globals).
Local Notation exec_for := (PV.Model.Exec.exec_for se globals).
Local Notation exec_firstof := (PV.Model.Exec.exec_firstof se globals).
Local Notation eval_pairs := (PV.Model.Exec.eval_pairs se globals).
Local Notation apply_tag_chain := (PV.Model.Exec.apply_tag_chain se globals).
Local Notation exec_template := (PV.Model.Exec.exec_template se globals).
Local Notation exec_template_unbuffered := (PV.Model.Exec.exec_template_unbuffered se globals).

Section Step.
Variable f : nat.
Hypothesis IH_eval : forall a b e, T a = T b -> Tv (eval f a e) = Tv (eval f b e).
Hypothesis IH_eval_list : forall a b es, T a = T b -> Tv (eval_list f a es) = Tv (eval_list f b es).
Hypothesis IH_apply_chain : forall a b v c, T a = T b -> Tv (apply_chain f a v c) = Tv (apply_chain f b v c).
Hypothesis IH_resolve : forall a b ps, T a = T b -> Tv (resolve f a ps) = Tv (resolve f b ps).
Hypothesis IH_walk : forall a b c s ps, T a = T b -> Tv (walk f a c s ps) = Tv (walk f b c s ps).
Hypothesis IH_call_macro : forall a b m i args, T a = T b -> Tv (call_macro f a m i args) = Tv (call_macro f b m i args).
Hypothesis IH_macro_defaults : forall a b ps, T a = T b -> Tv (macro_defaults f a ps) = Tv (macro_defaults f b ps).
Hypothesis IH_call_super : forall a b i w, T a = T b -> Tv (call_super f a i w) = Tv (call_super f b i w).
Hypothesis IH_eval_pairs : forall a b ps, T a = T b -> Tv (eval_pairs f a ps) = Tv (eval_pairs f b ps).
Hypothesis IH_apply_tag_chain : forall a b v c, T a = T b -> Tv (apply_tag_chain f a v c) = Tv (apply_tag_chain f b v c).
Hypothesis IH_exec_nodes : forall a b ns, T a = T b -> Tx (exec_nodes f a ns) = Tx (exec_nodes f b ns).
Hypothesis IH_exec_node : forall a b n, T a = T b -> Tx (exec_node f a n) = Tx (exec_node f b n).
Hypothesis IH_exec_if : forall a b c w i, T a = T b -> Tx (exec_if f a c w i) = Tx (exec_if f b c w i).
Hypothesis IH_exec_for : forall a b k v p bd it i c, T a = T b ->
  Tx (exec_for f a k v p bd it i c) = Tx (exec_for f b k v p bd it i c).
Hypothesis IH_exec_firstof : forall a b args, T a = T b -> Tx (exec_firstof f a args) = Tx (exec_firstof f b args).
Hypothesis IH_exec_template : forall a b t c, T a = T b -> Tx (exec_template f a t c) = Tx (exec_template f b t c).
Hypothesis IH_exec_template_unbuffered : forall a b t c, T a = T b ->
  Tx (exec_template_unbuffered f a t c) = Tx (exec_template_unbuffered f b t c).

Ltac ih_v := first [ apply IH_eval | apply IH_eval_list | apply IH_apply_chain | apply IH_resolve
                   | apply IH_walk | apply IH_call_macro | apply IH_macro_defaults
                   | apply IH_call_super | apply IH_eval_pairs | apply IH_apply_tag_chain ].
Ltac ih_x := first [ apply IH_exec_nodes | apply IH_exec_node | apply IH_exec_if | apply IH_exec_for
                   | apply IH_exec_firstof | apply IH_exec_template
                   | apply IH_exec_template_unbuffered ].

(* the two head scrutinees differ: get the equation between their normal forms from the
   induction hypothesis or from the homomorphism lemma of the observation, destruct both *)
Ltac derive sa sb :=
  let E := fresh "E" in
  first
  [ assert (E : Tv sa = Tv sb) by (ih_v; solve_T)
  | assert (E : Tx sa = Tx sb) by (ih_x; solve_T)
  | assert (E : Tfr sa = Tfr sb) by (rewrite <- !top_frame_hom; solve_T)
  | assert (E : Tfo sa = Tfo sb) by (rewrite <- !frame_at_hom; solve_T)
  | assert (E : Trs sa = Trs sb) by (rewrite <- !set_priv_hom; solve_T) ];
  revert E; destruct sa; destruct sb; intro E; use_E E.

Ltac sim1 :=
  cbv beta iota zeta delta [bind xfail xok xerr of_opt cycle_out];
  rewrite ?ms_nodes_ns_set, ?ms_nodes_set_frame_at, ?ms_g_set_frame_at; b2a;
  first
  [ reflexivity
  | match goal with
    | E : Trs ?x = Trs ?y |- _ => is_var x; is_var y; revert E; destruct x; destruct y; intro E; use_E E
    | E : Tp ?x = Tp ?y |- _ => is_var x; is_var y; revert E; destruct x; destruct y; intro E; use_E E
    end
  | lazymatch goal with
    | |- _ (match ?xa with _ => _ end) = _ (match ?xb with _ => _ end) =>
        let sa := hscrut xa in
        let sb := hscrut xb in
        first [ constr_eq sa sb; destruct sa | derive sa sb ]
    end
  | solve [ ih_v; solve_T ]
  | solve [ ih_x; solve_T ]
  | solve [ solve_T ]
  | (* a match below a constructor *)
    lazymatch goal with
    | |- ?L = ?R =>
        match L with
        | context [match ?xa with _ => _ end] =>
            match R with
            | context [match ?xb with _ => _ end] =>
                let sa := hscrut xa in
                let sb := hscrut xb in
                first [ constr_eq sa sb; destruct sa | derive sa sb ]
            end
        end
    end ].
Ltac sim := repeat sim1.

Lemma sim_eval_list : forall a b es, T a = T b -> Tv (eval_list (S f) a es) = Tv (eval_list (S f) b es).
Proof. intros a b es H. rewrite !eval_list_S. sim. Qed.

Lemma sim_eval : forall a b e, T a = T b -> Tv (eval (S f) a e) = Tv (eval (S f) b e).
Proof. intros a b e H. rewrite !eval_S. destruct e. all: sim. Qed.

Lemma sim_apply_chain : forall a b v c, T a = T b -> Tv (apply_chain (S f) a v c) = Tv (apply_chain (S f) b v c).
Proof. intros a b v c H. rewrite !apply_chain_S. sim. Qed.

Lemma sim_resolve : forall a b ps, T a = T b -> Tv (resolve (S f) a ps) = Tv (resolve (S f) b ps).
Proof. intros a b ps H. rewrite !resolve_S. sim. Qed.

Lemma sim_walk : forall a b c s ps, T a = T b -> Tv (walk (S f) a c s ps) = Tv (walk (S f) b c s ps).
Proof. intros a b c s ps H. rewrite !walk_S. sim. Qed.

Lemma sim_macro_defaults : forall a b ps, T a = T b -> Tv (macro_defaults (S f) a ps) = Tv (macro_defaults (S f) b ps).
Proof. intros a b ps H. rewrite !macro_defaults_S. sim. Qed.

Lemma sim_call_super : forall a b i w, T a = T b -> Tv (call_super (S f) a i w) = Tv (call_super (S f) b i w).
Proof. intros a b i w H. rewrite !call_super_S. sim. Qed.

Lemma sim_eval_pairs : forall a b ps, T a = T b -> Tv (eval_pairs (S f) a ps) = Tv (eval_pairs (S f) b ps).
Proof. intros a b ps H. rewrite !eval_pairs_S. sim. Qed.

Lemma sim_apply_tag_chain : forall a b v c, T a = T b -> Tv (apply_tag_chain (S f) a v c) = Tv (apply_tag_chain (S f) b v c).
Proof. intros a b v c H. rewrite !apply_tag_chain_S. sim. Qed.

Lemma sim_exec_nodes : forall a b ns, T a = T b -> Tx (exec_nodes (S f) a ns) = Tx (exec_nodes (S f) b ns).
Proof. intros a b ns H. rewrite !exec_nodes_S. sim. Qed.

Lemma sim_exec_if : forall a b c w i, T a = T b -> Tx (exec_if (S f) a c w i) = Tx (exec_if (S f) b c w i).
Proof. intros a b c w i H. rewrite !exec_if_S. sim. Qed.

Lemma sim_exec_for : forall a b k v p bd it i c, T a = T b ->
  Tx (exec_for (S f) a k v p bd it i c) = Tx (exec_for (S f) b k v p bd it i c).
Proof. intros a b k v p bd it i c H. rewrite !exec_for_S. sim. Qed.

Lemma sim_exec_firstof : forall a b args, T a = T b -> Tx (exec_firstof (S f) a args) = Tx (exec_firstof (S f) b args).
Proof. intros a b args H. rewrite !exec_firstof_S. sim. Qed.

Lemma sim_exec_template : forall a b t c, T a = T b -> Tx (exec_template (S f) a t c) = Tx (exec_template (S f) b t c).
Proof. intros a b t c H. rewrite !exec_template_S. sim. Qed.

Lemma sim_exec_template_unbuffered : forall a b t c, T a = T b ->
  Tx (exec_template_unbuffered (S f) a t c) = Tx (exec_template_unbuffered (S f) b t c).
Proof. intros a b t c H. rewrite !exec_template_unbuffered_S. sim. Qed.

Lemma sim_exec_node : forall a b n, T a = T b -> Tx (exec_node (S f) a n) = Tx (exec_node (S f) b n).
Proof. intros a b n H. rewrite !exec_node_S. destruct n. all: sim. Qed.

Lemma sim_call_macro : forall a b m i args, T a = T b -> Tv (call_macro (S f) a m i args) = Tv (call_macro (S f) b m i args).
Proof. intros a b m i args H. rewrite !call_macro_S. sim. Qed.

End Step.
(* ---------- all 17 functions, by induction on the fuel ---------- *)
Definition sim_inv (f : nat) : Prop :=
  (forall a b e, T a = T b -> Tv (eval f a e) = Tv (eval f b e)) /\
  (forall a b es, T a = T b -> Tv (eval_list f a es) = Tv (eval_list f b es)) /\
  (forall a b v c, T a = T b -> Tv (apply_chain f a v c) = Tv (apply_chain f b v c)) /\
  (forall a b ps, T a = T b -> Tv (resolve f a ps) = Tv (resolve f b ps)) /\
  (forall a b c s ps, T a = T b -> Tv (walk f a c s ps) = Tv (walk f b c s ps)) /\
  (forall a b m i args, T a = T b -> Tv (call_macro f a m i args) = Tv (call_macro f b m i args)) /\
  (forall a b ps, T a = T b -> Tv (macro_defaults f a ps) = Tv (macro_defaults f b ps)) /\
  (forall a b i w, T a = T b -> Tv (call_super f a i w) = Tv (call_super f b i w)) /\
  (forall a b ps, T a = T b -> Tv (eval_pairs f a ps) = Tv (eval_pairs f b ps)) /\
  (forall a b v c, T a = T b -> Tv (apply_tag_chain f a v c) = Tv (apply_tag_chain f b v c)) /\
  (forall a b ns, T a = T b -> Tx (exec_nodes f a ns) = Tx (exec_nodes f b ns)) /\
  (forall a b n, T a = T b -> Tx (exec_node f a n) = Tx (exec_node f b n)) /\
  (forall a b c w i, T a = T b -> Tx (exec_if f a c w i) = Tx (exec_if f b c w i)) /\
  (forall a b k v p bd it i c, T a = T b ->
     Tx (exec_for f a k v p bd it i c) = Tx (exec_for f b k v p bd it i c)) /\
  (forall a b args, T a = T b -> Tx (exec_firstof f a args) = Tx (exec_firstof f b args)) /\
  (forall a b t c, T a = T b -> Tx (exec_template f a t c) = Tx (exec_template f b t c)) /\
  (forall a b t c, T a = T b ->
     Tx (exec_template_unbuffered f a t c) = Tx (exec_template_unbuffered f b t c)).

Lemma sim_inv_all : forall f, sim_inv f.
Proof.
  induction f as [|f IH].
  - unfold sim_inv. repeat match goal with |- _ /\ _ => split end; intros.
    + rewrite !eval_0; reflexivity.
    + rewrite !eval_list_0; reflexivity.
    + rewrite !apply_chain_0; reflexivity.
    + rewrite !resolve_0; reflexivity.
    + rewrite !walk_0; reflexivity.
    + rewrite !call_macro_0; reflexivity.
    + rewrite !macro_defaults_0; reflexivity.
    + rewrite !call_super_0; reflexivity.
    + rewrite !eval_pairs_0; reflexivity.
    + rewrite !apply_tag_chain_0; reflexivity.
    + rewrite !exec_nodes_0; reflexivity.
    + rewrite !exec_node_0; reflexivity.
    + rewrite !exec_if_0; reflexivity.
    + rewrite !exec_for_0; reflexivity.
    + rewrite !exec_firstof_0; reflexivity.
    + rewrite !exec_template_0; reflexivity.
    + rewrite !exec_template_unbuffered_0; reflexivity.
  - destruct IH as (I1 & I2 & I3 & I4 & I5 & I6 & I7 & I8 & I9 & I10 & I11 & I12 & I13 & I14 & I15 & I16 & I17).
    unfold sim_inv. repeat match goal with |- _ /\ _ => split end.
    + apply sim_eval; assumption.
    + apply sim_eval_list; assumption.
    + apply sim_apply_chain; assumption.
    + apply sim_resolve; assumption.
    + apply sim_walk; assumption.
    + apply sim_call_macro; assumption.
    + apply sim_macro_defaults; assumption.
    + apply sim_call_super; assumption.
    + apply sim_eval_pairs; assumption.
    + apply sim_apply_tag_chain; assumption.
    + apply sim_exec_nodes; assumption.
    + apply sim_exec_node; assumption.
    + apply sim_exec_if; assumption.
    + apply sim_exec_for; assumption.
    + apply sim_exec_firstof; assumption.
    + apply sim_exec_template; assumption.
    + apply sim_exec_template_unbuffered; assumption.
Qed.

Lemma sim_eval_any : forall f a b e, T a = T b -> Tv (eval f a e) = Tv (eval f b e).
Proof. intro f. exact (proj1 (sim_inv_all f)). Qed.
Lemma sim_exec_nodes_any : forall f a b ns, T a = T b -> Tx (exec_nodes f a ns) = Tx (exec_nodes f b ns).
Proof.
  intro f. destruct (sim_inv_all f) as (_ & _ & _ & _ & _ & _ & _ & _ & _ & _ & I & _). exact I.
Qed.
Lemma sim_exec_template_any : forall f a b t c, T a = T b ->
  Tx (exec_template f a t c) = Tx (exec_template f b t c).
Proof.
  intro f.
  destruct (sim_inv_all f) as (_ & _ & _ & _ & _ & _ & _ & _ & _ & _ & _ & _ & _ & _ & _ & I & _). exact I.
Qed.

(* ================= templates that differ in child root nodes only ================= *)
Lemma sbr_strip : forall t1 t2, same_but_root t1 t2 -> strip t1 = strip t2.
Proof. intros t1 t2 [t|i n s r1 r2 b e p1 p2 tr ls _]; reflexivity. Qed.
Lemma sbr_exported : forall t1 t2, same_but_root t1 t2 -> tpl_exported t1 = tpl_exported t2.
Proof. intros t1 t2 [t|i n s r1 r2 b e p1 p2 tr ls _]; reflexivity. Qed.
Lemma sbr_root_of : forall t1 t2, same_but_root t1 t2 -> root_of t1 = root_of t2.
Proof. intros t1 t2 Hs. induction Hs as [t|i n s r1 r2 b e p1 p2 tr ls _ IH]; [reflexivity|exact IH]. Qed.
Lemma sbr_depth : forall t1 t2, same_but_root t1 t2 -> depth t1 = depth t2.
Proof.
  intros t1 t2 Hs. unfold depth.
  induction Hs as [t|i n s r1 r2 b e p1 p2 tr ls _ IH]; [reflexivity|].
  cbn [chain_of]. rewrite !app_length, IH. reflexivity.
Qed.
Lemma sbr_chain_up : forall fuel t1 t2 acc1 acc2,
  same_but_root t1 t2 -> map strip acc1 = map strip acc2 ->
  map strip (chain_up fuel t1 acc1) = map strip (chain_up fuel t2 acc2).
Proof.
  induction fuel as [|fuel IH]; intros t1 t2 acc1 acc2 Hs Ha.
  - cbn [chain_up map]. rewrite (sbr_strip _ _ Hs), Ha. reflexivity.
  - destruct Hs as [t|i n s r1 r2 b e p1 p2 tr ls Hp].
    + cbn [chain_up]. destruct (tpl_parent t) as [p|].
      * apply IH; [apply sbr_same|]. cbn [map]. rewrite Ha. reflexivity.
      * cbn [map]. rewrite Ha. reflexivity.
    + cbn [chain_up tpl_parent]. apply IH; [exact Hp|]. cbn [map]. rewrite Ha. reflexivity.
Qed.
Lemma sbr_tpl_chain : forall t1 t2, same_but_root t1 t2 ->
  map strip (tpl_chain t1) = map strip (tpl_chain t2).
Proof. intros t1 t2 Hs. unfold tpl_chain. apply sbr_chain_up; [exact Hs|reflexivity]. Qed.
Lemma sbr_document : forall t1 t2, same_but_root t1 t2 -> (depth t1 <= 1001)%nat ->
  tpl_root (hd t1 (tpl_chain t1)) = tpl_root (hd t2 (tpl_chain t2)).
Proof.
  intros t1 t2 Hs Hd.
  rewrite (tpl_chain_spec t1 Hd), (tpl_chain_spec t2) by (rewrite <- (sbr_depth _ _ Hs); exact Hd).
  rewrite !chain_of_hd, (sbr_root_of _ _ Hs). reflexivity.
Qed.

Lemma sbr_refl_drop : forall t, same_but_root t (drop_child_roots t).
Proof.
  fix IH 1. intros [i n s r b e [p|] tr ls]; cbn [drop_child_roots].
  - apply sbr_child, IH.
  - apply sbr_same.
Qed.
Lemma sbr_with_root_at : forall k r t, same_but_root t (with_root_at k r t).
Proof.
  induction k as [|k IH]; intros r [i n s r0 b e [p|] tr ls]; cbn [with_root_at].
  - apply sbr_child, sbr_same.
  - apply sbr_same.
  - apply sbr_child, IH.
  - apply sbr_same.
Qed.

Lemma edits_same_but_root : forall t,
  same_but_root t (drop_child_roots t) /\ forall k r, same_but_root t (with_root_at k r t).
Proof. intro t. split; [apply sbr_refl_drop|intros k r; apply sbr_with_root_at]. Qed.

(* the heart: the same document run in two root frames whose chains differ only in what the
   executor never reads *)
Lemma unbuffered_same : forall t1 t2 f st ctx,
  tpl_exported t1 = tpl_exported t2 ->
  map strip (tpl_chain t1) = map strip (tpl_chain t2) ->
  tpl_root (hd t1 (tpl_chain t1)) = tpl_root (hd t2 (tpl_chain t2)) ->
  exec_template_unbuffered f st t1 ctx = exec_template_unbuffered f st t2 ctx.
Proof.
  intros t1 t2 [|f] st ctx He Hc Hr; [reflexivity|].
  rewrite !exec_template_unbuffered_S. cbv zeta. rewrite <- He, <- Hr.
  destruct (negb _); [reflexivity|]. destruct (existsb _ _); [reflexivity|].
  destruct (g_fresh (ms_g st)) as [execid g'].
  set (A := mkM (root_frame t1 ctx execid :: ms_frames st) (ms_nodes st) g').
  set (B := mkM (root_frame t2 ctx execid :: ms_frames st) (ms_nodes st) g').
  assert (HT : T A = T B).
  { unfold A, B, T. cbn [ms_frames ms_nodes ms_g map]. unfold Tf at 1 3.
    unfold PV.Model.Exec.root_frame. cbn [f_priv f_pub f_auto f_depth f_exec f_chain].
    rewrite Hc. reflexivity. }
  pose proof (sim_exec_nodes_any f A B (tpl_root (hd t1 (tpl_chain t1))) HT) as S.
  destruct (exec_nodes f A _) as [oa ra] eqn:EA.
  destruct (exec_nodes f B _) as [ob rb] eqn:EB.
  cbn [Tx] in S. apply pair_inj in S. destruct S as [-> S].
  destruct ra as [sa|ka| | |pa], rb as [sb|kb| | |pb]; cbn [Trs] in S; try discriminate S;
    try reflexivity.
  - apply ok_inj in S.
    apply (tie_exec_preserves_outer_frames se globals) in EA, EB.
    destruct EA as [EA _], EB as [EB _]. unfold A, B in EA, EB. cbn [ms_frames tl] in EA, EB.
    unfold xok, pop_frame. rewrite EA, EB, (T_nodes _ _ S), (T_g _ _ S). reflexivity.
  - apply err_inj in S. subst kb. reflexivity.
  - apply panic_inj in S. subst pb. reflexivity.
Qed.

Lemma outside_blocks_ignored_unbuffered : forall t1 t2 f st ctx,
  same_but_root t1 t2 -> (depth t1 <= 1001)%nat ->
  exec_template_unbuffered f st t1 ctx = exec_template_unbuffered f st t2 ctx.
Proof.
  intros t1 t2 f st ctx Hs Hd. apply unbuffered_same.
  - apply sbr_exported, Hs.
  - apply sbr_tpl_chain, Hs.
  - apply sbr_document; assumption.
Qed.

Lemma outside_blocks_ignored : forall t1 t2 f st ctx,
  same_but_root t1 t2 -> (depth t1 <= 1001)%nat ->
  exec_template f st t1 ctx = exec_template f st t2 ctx.
Proof.
  intros t1 t2 [|f] st ctx Hs Hd; [reflexivity|].
  rewrite !exec_template_S, (outside_blocks_ignored_unbuffered t1 t2 f st ctx Hs Hd). reflexivity.
Qed.

Lemma root_nodes_unused : forall t f st ctx, (depth t <= 1001)%nat ->
  exec_template f st (drop_child_roots t) ctx = exec_template f st t ctx /\
  exec_template_unbuffered f st (drop_child_roots t) ctx = exec_template_unbuffered f st t ctx.
Proof.
  intros t f st ctx Hd. split; symmetry.
  - apply outside_blocks_ignored; [apply sbr_refl_drop|exact Hd].
  - apply outside_blocks_ignored_unbuffered; [apply sbr_refl_drop|exact Hd].
Qed.

Lemma root_nodes_unused_at : forall k r t f st ctx, (depth t <= 1001)%nat ->
  exec_template f st (with_root_at k r t) ctx = exec_template f st t ctx /\
  exec_template_unbuffered f st (with_root_at k r t) ctx = exec_template_unbuffered f st t ctx.
Proof.
  intros k r t f st ctx Hd. split; symmetry.
  - apply outside_blocks_ignored; [apply sbr_with_root_at|exact Hd].
  - apply outside_blocks_ignored_unbuffered; [apply sbr_with_root_at|exact Hd].
Qed.

End Sim.

(* ================= the simulation in the words of Spec/SpecInherit2.v ================= *)
Lemma strip_alike : forall t1 t2, strip t1 = strip t2 <-> tpl_alike t1 t2.
Proof.
  intros t1 t2. unfold strip, tpl_alike. split.
  - intro H. injection H as H1 H2 H3 H4 H5 H6. repeat split; assumption.
  - intros (H1 & H2 & H3 & H4 & H5 & H6). rewrite H1, H2, H3, H4, H5, H6. reflexivity.
Qed.
Lemma cons_inj : forall A (x y : A) l m, x :: l = y :: m -> x = y /\ l = m.
Proof. intros A x y l m H. injection H; auto. Qed.
Lemma chain_alike : forall c1 c2, map strip c1 = map strip c2 <-> Forall2 tpl_alike c1 c2.
Proof.
  induction c1 as [|t c1 IH]; intros [|u c2]; cbn [map]; split; intro H.
  - constructor.
  - reflexivity.
  - discriminate H.
  - inversion H.
  - discriminate H.
  - inversion H.
  - apply cons_inj in H. destruct H as [H1 H2]. constructor; [apply strip_alike, H1|apply IH, H2].
  - inversion H as [|? ? ? ? Ht Hc]; subst. apply strip_alike in Ht. apply IH in Hc.
    rewrite Ht, Hc. reflexivity.
Qed.
Lemma Tf_alike : forall x y, Tf x = Tf y <-> frame_alike x y.
Proof.
  intros [p1 q1 a1 d1 e1 c1] [p2 q2 a2 d2 e2 c2]. unfold Tf, frame_alike.
  cbn [f_priv f_pub f_auto f_depth f_exec f_chain]. split.
  - intro H. injection H as H1 H2 H3 H4 H5 H6. apply chain_alike in H6. repeat split; assumption.
  - intros (H1 & H2 & H3 & H4 & H5 & H6). apply chain_alike in H6.
    rewrite H1, H2, H3, H4, H5, H6. reflexivity.
Qed.
Lemma frames_alike : forall l1 l2, map Tf l1 = map Tf l2 <-> Forall2 frame_alike l1 l2.
Proof.
  induction l1 as [|x l1 IH]; intros [|y l2]; cbn [map]; split; intro H.
  - constructor.
  - reflexivity.
  - discriminate H.
  - inversion H.
  - discriminate H.
  - inversion H.
  - apply cons_inj in H. destruct H as [H1 H2]. constructor; [apply Tf_alike, H1|apply IH, H2].
  - inversion H as [|? ? ? ? Ht Hc]; subst. apply Tf_alike in Ht. apply IH in Hc.
    rewrite Ht, Hc. reflexivity.
Qed.
Lemma T_alike : forall a b, T a = T b <-> state_alike a b.
Proof.
  intros [l1 n1 g1] [l2 n2 g2]. unfold T, state_alike. cbn [ms_frames ms_nodes ms_g]. split.
  - intro H. injection H as H1 H2 H3. apply frames_alike in H1. repeat split; assumption.
  - intros (H1 & H2 & H3). apply frames_alike in H1. rewrite H1, H2, H3. reflexivity.
Qed.
Lemma Tx_alike : forall x y, Tx x = Tx y -> xres_alike x y.
Proof.
  intros [o1 r1] [o2 r2] H. cbn [Tx] in H. apply pair_inj in H. destruct H as [Ho Hr].
  split; [exact Ho|]. cbn [snd].
  destruct r1, r2; cbn [Trs] in Hr; try discriminate Hr; cbn [res_alike]; try exact I.
  - apply T_alike, ok_inj, Hr.
  - apply err_inj in Hr. exact Hr.
  - apply panic_inj in Hr. exact Hr.
Qed.
Lemma Tv_alike : forall A (x y : res (A * mstate)), Tv x = Tv y -> vres_alike x y.
Proof.
  intros A x y H. unfold vres_alike.
  destruct x as [[v1 s1]| | | |], y as [[v2 s2]| | | |]; cbn [Tv Tp] in H; try discriminate H;
    cbn [res_alike]; try exact I.
  - apply ok_inj, pair_inj in H. destruct H as [Hv Hs]. split; [exact Hv|apply T_alike, Hs].
  - apply err_inj in H. exact H.
  - apply panic_inj in H. exact H.
Qed.

Lemma exec_nodes_respects_alike : forall se globals f a b ns,
  state_alike a b -> xres_alike (exec_nodes se globals f a ns) (exec_nodes se globals f b ns).
Proof. intros se globals f a b ns H. apply Tx_alike, sim_exec_nodes_any, T_alike, H. Qed.
Lemma eval_respects_alike : forall se globals f a b e,
  state_alike a b -> vres_alike (eval se globals f a e) (eval se globals f b e).
Proof. intros se globals f a b e H. apply Tv_alike, sim_eval_any, T_alike, H. Qed.
Lemma exec_template_respects_alike : forall se globals f a b t ctx,
  state_alike a b -> xres_alike (exec_template se globals f a t ctx) (exec_template se globals f b t ctx).
Proof. intros se globals f a b t ctx H. apply Tx_alike, sim_exec_template_any, T_alike, H. Qed.

(* the root frames of two templates that differ in child root nodes only are alike *)
Lemma sbr_enter_alike : forall globals st t1 t2 ctx, same_but_root t1 t2 ->
  state_alike (enter globals st t1 ctx) (enter globals st t2 ctx).
Proof.
  intros globals st t1 t2 ctx Hs. apply T_alike. unfold enter, T.
  cbn [ms_frames ms_nodes ms_g map]. unfold Tf at 1 3. unfold root_frame.
  cbn [f_priv f_pub f_auto f_depth f_exec f_chain]. rewrite (sbr_tpl_chain _ _ Hs). reflexivity.
Qed.


(* the same for the entry point of the API (Model/Api.v run_template): a fresh state *)
Lemma run_template_outside_blocks_ignored : forall w t1 t2 g ctx,
  same_but_root t1 t2 -> (depth t1 <= 1001)%nat ->
  run_template w t1 g ctx = run_template w t2 g ctx.
Proof.
  intros w t1 t2 g ctx Hs Hd. unfold run_template.
  rewrite (outside_blocks_ignored_unbuffered _ _ t1 t2 _ _ _ Hs Hd). reflexivity.
Qed.

(* ================= the depth bound cannot be dropped ================= *)
(* the executor's walk up the chain stops after 1000 steps (Model/Doc.v tpl_chain); a template
   with more than 1001 chain members is executed as if member 1001 were the base, and that
   member's root nodes are then the document *)
Lemma sbr_tower : forall n r1 r2 t, same_but_root (tower n r1 t) (tower n r2 t).
Proof. induction n as [|n IH]; intros r1 r2 t; cbn [tower]; [apply sbr_same|apply sbr_child, IH]. Qed.

Lemma depth_bound_needed :
  let se := mkSenv [] (mkCfg [] [] [] []) false false in
  let base := Tpl 0 [] true [NTemplatetag [98] (* b *)] [] [] None false false in
  let t1 := tower 1001 [NTemplatetag [120] (* x *)] base in
  let t2 := tower 1001 [] base in
  same_but_root t1 t2 /\ depth t1 = 1002%nat /\
  fst (exec_template se [] 10 (mkM [] [] (mkG 1 [])) t1 []) = [120] (* x *) /\
  fst (exec_template se [] 10 (mkM [] [] (mkG 1 [])) t2 []) = [].
Proof.
  cbv zeta. split; [apply sbr_tower|]. split; [vm_compute; reflexivity|].
  split; vm_compute; reflexivity.
Qed.

Print Assumptions outside_blocks_ignored.
Print Assumptions outside_blocks_ignored_unbuffered.
Print Assumptions run_template_outside_blocks_ignored.
Print Assumptions root_nodes_unused.
Print Assumptions root_nodes_unused_at.
Print Assumptions exec_nodes_respects_alike.
Print Assumptions eval_respects_alike.
Print Assumptions exec_template_respects_alike.
Print Assumptions sbr_enter_alike.
Print Assumptions depth_bound_needed.
Print Assumptions edits_same_but_root.
