(* Property C01 (totality), compile half: the model's compiler never takes a Panic outcome.

   [np r] says that the outcome [r] is not [Panic _].  It is preserved by [bind] when both
   the first computation and every continuation have it, and every leaf of the parsers is
   [Ok], [Err], [Unmod] or [Fuel]; the rest is a walk over the shape of each function body
   (tactic [np_tac]: one [bind], [match], [if] or [let] at a time), with one induction on
   fuel per mutual block.  The one-step unfolding of a mutual fixpoint at fuel [S f] is
   obtained by [unfold] followed by [fold] of the sibling functions (no copy of the body in
   this file, so that an edit of a tag parser re-proves by itself).

   The lexer ([Model/Lexer.v lex]) has its own outcome type [lexres] = LexOk | LexFail |
   LexFuel, which has no panic constructor: "lex never panics" holds by typing, and
   [compile_src] maps the three cases to [parse_doc ...], [Err 1] and [Fuel].  The
   annotation pass [annotate] is a total structural function returning a plain list. *)
From Coq Require Import List NArith ZArith Bool Lia Arith.
From PV Require Import Lib.Outcome Model.Lexer Model.ParseExpr Model.ParseDoc Model.Api.
From PV Require Import Spec.SpecNoPanic.
Import ListNotations.
Open Scope N_scope.

(* ------------------------------------------------------------------------------------ *)
(* "not a panic" and its algebra                                                        *)
(* ------------------------------------------------------------------------------------ *)

Definition np {A : Type} (r : res A) : Prop :=
  match r with Panic _ => False | _ => True end.

Lemma np_neq : forall (A : Type) (r : res A), np r -> forall s, r <> Panic s.
Proof. intros A r H s E. rewrite E in H. exact H. Qed.

Lemma neq_np : forall (A : Type) (r : res A), (forall s, r <> Panic s) -> np r.
Proof. intros A r H. destruct r as [a|k| | |s]; try exact I. exact (H s eq_refl). Qed.

Lemma bind_np : forall (A B : Type) (r : res A) (k : A -> res B),
  np r -> (forall a, np (k a)) -> np (bind r k).
Proof. intros A B r k Hr Hk. destruct r as [a|e| | |s]; try exact I; [apply Hk|exact Hr]. Qed.

Lemma of_opt_np : forall (A : Type) (o : option A), np (of_opt o).
Proof. intros A o. destruct o; exact I. Qed.

Create HintDb np discriminated.
#[export] Hint Resolve of_opt_np : np.

(* a leaf: a constructor other than Panic, a recursive call covered by a hypothesis, a
   helper covered by a lemma of the hint base, or a Panic that a hypothesis excludes *)
Ltac np_leaf := first [ exact I | assumption | solve [auto with np] ].

(* case analysis on the innermost scrutinee; when the scrutinee is itself an outcome that
   is known not to panic, keep that fact so that the Panic case closes by assumption *)
Ltac np_destruct x :=
  lazymatch x with
  | context [match ?y with _ => _ end] => np_destruct y
  | _ =>
      first [ let H := fresh "Hnp" in
              assert (H : np x) by np_leaf; revert H; destruct x; intro H
            | destruct x ]
  end.

Ltac np_step :=
  lazy beta iota zeta;
  lazymatch goal with
  | |- np (bind _ _) => apply bind_np; [ | intros ? ]
  | |- np (match ?x with _ => _ end) => np_destruct x
  | |- _ => np_leaf
  end.

Ltac np_tac := repeat np_step.

(* ------------------------------------------------------------------------------------ *)
(* The expression parser (Model/ParseExpr.v): the 16 functions of the mutual fixpoint   *)
(* ------------------------------------------------------------------------------------ *)

Section Expr.
  Variable cfg : pcfg.

  Definition expr_np_at (f : nat) : Prop :=
    (forall ts, np (parse_expression cfg f ts)) /\
    (forall ts, np (parse_relational cfg f ts)) /\
    (forall ts, np (parse_simple cfg f ts)) /\
    (forall acc ts, np (simple_loop cfg f acc ts)) /\
    (forall ts, np (parse_term cfg f ts)) /\
    (forall acc ts, np (term_loop cfg f acc ts)) /\
    (forall ts, np (parse_power cfg f ts)) /\
    (forall ts, np (parse_factor cfg f ts)) /\
    (forall ts, np (parse_filtered cfg f ts)) /\
    (forall ts, np (filter_loop cfg f ts)) /\
    (forall ts, np (parse_filter cfg f ts)) /\
    (forall ts, np (parse_var_or_lit cfg f ts)) /\
    (forall parts ts, np (var_loop cfg f parts ts)) /\
    (forall acc ts, np (args_loop cfg f acc ts)) /\
    (forall ts, np (parse_array cfg f ts)) /\
    (forall acc ts, np (array_loop cfg f acc ts)).

  (* one unfolding step of whichever parser function heads the goal, at fuel [S f] *)
  Ltac expr_unfold :=
    unfold parse_expression, parse_relational, parse_simple, simple_loop, parse_term,
           term_loop, parse_power, parse_factor, parse_filtered, filter_loop, parse_filter,
           parse_var_or_lit, var_loop, args_loop, parse_array, array_loop;
    fold (parse_expression cfg) (parse_relational cfg) (parse_simple cfg) (simple_loop cfg)
         (parse_term cfg) (term_loop cfg) (parse_power cfg) (parse_factor cfg)
         (parse_filtered cfg) (filter_loop cfg) (parse_filter cfg) (parse_var_or_lit cfg)
         (var_loop cfg) (args_loop cfg) (parse_array cfg) (array_loop cfg).

  Lemma expr_np : forall f, expr_np_at f.
  Proof.
    induction f as [|f IH].
    - unfold expr_np_at. repeat split; intros; exact I.
    - destruct IH as (IH1 & IH2 & IH3 & IH4 & IH5 & IH6 & IH7 & IH8 & IH9 & IH10 & IH11
                      & IH12 & IH13 & IH14 & IH15 & IH16).
      unfold expr_np_at. repeat split; intros; expr_unfold; np_tac.
  Qed.
End Expr.

Lemma parse_expression_np : forall cfg f ts, np (parse_expression cfg f ts).
Proof. intros cfg f. apply (expr_np cfg f). Qed.
Lemma parse_var_or_lit_np : forall cfg f ts, np (parse_var_or_lit cfg f ts).
Proof. intros cfg f. apply (expr_np cfg f). Qed.

(* ------------------------------------------------------------------------------------ *)
(* The argument parsers of the tags (Model/ParseDoc.v, before the Compile section)      *)
(* ------------------------------------------------------------------------------------ *)

Lemma pexpr_np : forall cfg ts, np (pexpr cfg ts).
Proof. intros cfg ts. apply parse_expression_np. Qed.
Lemma pvarlit_np : forall cfg ts, np (pvarlit cfg ts).
Proof. intros cfg ts. apply parse_var_or_lit_np. Qed.
#[export] Hint Resolve pexpr_np pvarlit_np : np.

Lemma pexprs_np : forall cfg f ts, np (pexprs cfg f ts).
Proof. intros cfg f. induction f as [|f IH]; intros ts; [exact I|]. cbn [pexprs]. np_tac. Qed.

Lemma with_pairs_new_np : forall cfg f ts, np (with_pairs_new cfg f ts).
Proof. intros cfg f. induction f as [|f IH]; intros ts; [exact I|]. cbn [with_pairs_new]. np_tac. Qed.

Lemma with_pairs_old_np : forall cfg f ts, np (with_pairs_old cfg f ts).
Proof. intros cfg f. induction f as [|f IH]; intros ts; [exact I|]. cbn [with_pairs_old]. np_tac. Qed.

Lemma include_pairs_np : forall cfg f ts, np (include_pairs cfg f ts).
Proof. intros cfg f. induction f as [|f IH]; intros ts; [exact I|]. cbn [include_pairs]. np_tac. Qed.

Lemma macro_params_np : forall cfg f ts, np (macro_params cfg f ts).
Proof. intros cfg f. induction f as [|f IH]; intros ts; [exact I|]. cbn [macro_params]. np_tac. Qed.

Lemma filter_tag_chain_np : forall cfg f ts, np (filter_tag_chain cfg f ts).
Proof. intros cfg f. induction f as [|f IH]; intros ts; [exact I|]. cbn [filter_tag_chain]. np_tac. Qed.

Lemma cycle_args_np : forall cfg f ts, np (cycle_args cfg f ts).
Proof. intros cfg f. induction f as [|f IH]; intros ts; [exact I|]. cbn [cycle_args]. np_tac. Qed.

Lemma import_list_np : forall f exported ts, np (import_list f exported ts).
Proof. induction f as [|f IH]; intros exported ts; [exact I|]. cbn [import_list]. np_tac. Qed.

Lemma end_args_np : forall ts acc, np (end_args ts acc).
Proof. induction ts as [|a r IH]; intros acc; [exact I|]. cbn [end_args]. np_tac. Qed.

Lemma skip_to_close_np : forall ts, np (skip_to_close ts).
Proof. induction ts as [|a r IH]; [exact I|]. cbn [skip_to_close]. np_tac. Qed.

Lemma skip_until_np : forall names ts, np (skip_until names ts).
Proof.
  intros names. pose proof skip_to_close_np as Hc.
  induction ts as [|a r IH]; [exact I|]. cbn [skip_until]. np_tac.
Qed.

Lemma fetch_np : forall se path g, np (fetch se path g).
Proof. intros se path g. unfold fetch. np_tac. Qed.

#[export] Hint Resolve pexprs_np with_pairs_new_np with_pairs_old_np include_pairs_np
  macro_params_np filter_tag_chain_np cycle_args_np import_list_np end_args_np
  skip_to_close_np skip_until_np fetch_np : np.

(* ------------------------------------------------------------------------------------ *)
(* The document parser and compilation: the 8 functions of the mutual fixpoint          *)
(* ------------------------------------------------------------------------------------ *)

Section Doc.
  Variable se : senv.

  Definition doc_np_at (f : nat) : Prop :=
    (forall level st ts, np (parse_elem se f level st ts)) /\
    (forall level names st ts, np (wrap_until se f level names st ts)) /\
    (forall level st ts, np (parse_tag se f level st ts)) /\
    (forall level impl args st ts, np (tag_parser se f level impl args st ts)) /\
    (forall level conds wrappers st ts, np (if_branches se f level conds wrappers st ts)) /\
    (forall st ts, np (parse_doc se f st ts)) /\
    (forall name isstr src g, np (compile_src se f name isstr src g)) /\
    (forall path g, np (compile_file se f path g)).

  Ltac doc_unfold :=
    unfold parse_elem, wrap_until, parse_tag, tag_parser, if_branches, parse_doc,
           compile_src, compile_file;
    fold (parse_elem se) (wrap_until se) (parse_tag se) (tag_parser se) (if_branches se)
         (parse_doc se) (compile_src se) (compile_file se).

  Lemma doc_np : forall f, doc_np_at f.
  Proof.
    induction f as [|f IH].
    - unfold doc_np_at. repeat split; intros; exact I.
    - destruct IH as (IHelem & IHwrap & IHtag & IHtp & IHif & IHdoc & IHsrc & IHfile).
      unfold doc_np_at. repeat split; intros.
      + doc_unfold. np_tac.
      + doc_unfold. np_tac.
      + doc_unfold. np_tac.
      + doc_unfold. np_tac.
      + doc_unfold. np_tac.
      + doc_unfold. np_tac.
      + doc_unfold. np_tac.
      + doc_unfold. np_tac.
  Qed.
End Doc.

(* ------------------------------------------------------------------------------------ *)
(* The statements Props/C01a.v cites, in the form  "... <> Panic s"                      *)
(* ------------------------------------------------------------------------------------ *)

(* all 16 entry points of the expression parser *)
Lemma parse_expr_never_panics : forall (cfg : pcfg) (fuel : nat) (s : N),
  (forall ts, parse_expression cfg fuel ts <> Panic s) /\
  (forall ts, parse_relational cfg fuel ts <> Panic s) /\
  (forall ts, parse_simple cfg fuel ts <> Panic s) /\
  (forall acc ts, simple_loop cfg fuel acc ts <> Panic s) /\
  (forall ts, parse_term cfg fuel ts <> Panic s) /\
  (forall acc ts, term_loop cfg fuel acc ts <> Panic s) /\
  (forall ts, parse_power cfg fuel ts <> Panic s) /\
  (forall ts, parse_factor cfg fuel ts <> Panic s) /\
  (forall ts, parse_filtered cfg fuel ts <> Panic s) /\
  (forall ts, filter_loop cfg fuel ts <> Panic s) /\
  (forall ts, parse_filter cfg fuel ts <> Panic s) /\
  (forall ts, parse_var_or_lit cfg fuel ts <> Panic s) /\
  (forall parts ts, var_loop cfg fuel parts ts <> Panic s) /\
  (forall acc ts, args_loop cfg fuel acc ts <> Panic s) /\
  (forall ts, parse_array cfg fuel ts <> Panic s) /\
  (forall acc ts, array_loop cfg fuel acc ts <> Panic s).
Proof.
  intros cfg fuel s.
  destruct (expr_np cfg fuel) as (H1 & H2 & H3 & H4 & H5 & H6 & H7 & H8 & H9 & H10 & H11
                                  & H12 & H13 & H14 & H15 & H16).
  repeat split; intros; apply np_neq; auto.
Qed.

(* the argument parsers the tag parsers call *)
Lemma tag_args_never_panic : forall (cfg : pcfg) (fuel : nat) (ts : list token) (s : N),
  pexpr cfg ts <> Panic s /\
  pvarlit cfg ts <> Panic s /\
  pexprs cfg fuel ts <> Panic s /\
  with_pairs_new cfg fuel ts <> Panic s /\
  with_pairs_old cfg fuel ts <> Panic s /\
  include_pairs cfg fuel ts <> Panic s /\
  macro_params cfg fuel ts <> Panic s /\
  filter_tag_chain cfg fuel ts <> Panic s /\
  cycle_args cfg fuel ts <> Panic s /\
  (forall exported, import_list fuel exported ts <> Panic s).
Proof. intros cfg fuel ts s. repeat split; intros; apply np_neq; auto with np. Qed.

(* the token skippers of the document parser and the loaders' fetch *)
Lemma skippers_never_panic : forall (se : senv) (ts : list atok) (s : N),
  (forall acc, end_args ts acc <> Panic s) /\
  skip_to_close ts <> Panic s /\
  (forall names, skip_until names ts <> Panic s) /\
  (forall path g, fetch se path g <> Panic s).
Proof. intros se ts s. repeat split; intros; apply np_neq; auto with np. Qed.

(* the 6 parsing functions of the document parser's mutual fixpoint *)
Lemma doc_parsers_never_panic : forall (se : senv) (fuel : nat) (s : N),
  (forall level st ts, parse_elem se fuel level st ts <> Panic s) /\
  (forall level names st ts, wrap_until se fuel level names st ts <> Panic s) /\
  (forall level st ts, parse_tag se fuel level st ts <> Panic s) /\
  (forall level impl args st ts, tag_parser se fuel level impl args st ts <> Panic s) /\
  (forall level conds wrappers st ts, if_branches se fuel level conds wrappers st ts <> Panic s) /\
  (forall st ts, parse_doc se fuel st ts <> Panic s).
Proof.
  intros se fuel s.
  destruct (doc_np se fuel) as (H1 & H2 & H3 & H4 & H5 & H6 & _ & _).
  repeat split; intros; apply np_neq; auto.
Qed.

(* compilation of a source (FromString / newTemplate) and of a file (FromFile) *)
Lemma compile_never_panics :
  forall (se : senv) (fuel : nat) (name : str) (isstr : bool) (src : str) (g : gstate) (s : N),
    compile_src se fuel name isstr src g <> Panic s /\
    compile_file se fuel name g <> Panic s.
Proof.
  intros se fuel name isstr src g s.
  destruct (doc_np se fuel) as (_ & _ & _ & _ & _ & _ & H7 & H8).
  split; apply np_neq; auto.
Qed.

(* the compile-only entry point of Model/Api.v never observes a panic *)
Lemma api_compile_never_panics : forall (w : world) (src : str) (s : N),
  api_compile_only w src <> OPanic s.
Proof.
  intros w src s. unfold api_compile_only.
  pose proof (compile_never_panics (world_senv w) big_fuel
                [60; 115; 116; 114; 105; 110; 103; 62] true src g0) as H.
  destruct (compile_src (world_senv w) big_fuel [60; 115; 116; 114; 105; 110; 103; 62] true src g0)
    as [a|k| | |p]; cbn [obs_of_compile]; try discriminate.
  exfalso. exact (proj1 (H p) eq_refl).
Qed.

(* ------------------------------------------------------------------------------------ *)
(* Non-vacuity: on concrete sources the compiler really produces templates and errors   *)
(* ------------------------------------------------------------------------------------ *)

Lemma np_witness :
  (* {% if a %}x{% endif %}{{ b|upper }} *)
  is_ok (np_compile [123; 37; 32; 105; 102; 32; 97; 32; 37; 125; 120; 123; 37; 32; 101; 110; 100;
                     105; 102; 32; 37; 125; 123; 123; 32; 98; 124; 117; 112; 112; 101; 114; 32;
                     125; 125]) = true /\
  (* {% foo %} : unknown tag *)
  np_compile [123; 37; 32; 102; 111; 111; 32; 37; 125] = Err 2 /\
  (* {{ a : not closed *)
  np_compile [123; 123; 32; 97] = Err 2 /\
  (* {% if %} : missing condition *)
  np_compile [123; 37; 32; 105; 102; 32; 37; 125] = Err 2 /\
  (* {{ a|nosuchfilter }} : unknown filter *)
  np_compile [123; 123; 32; 97; 124; 110; 111; 115; 117; 99; 104; 102; 105; 108; 116; 101; 114;
              32; 125; 125] = Err 2 /\
  (* {% include "missing.tpl" %} : no loader has the file *)
  np_compile [123; 37; 32; 105; 110; 99; 108; 117; 100; 101; 32; 34; 109; 105; 115; 115; 105;
              110; 103; 46; 116; 112; 108; 34; 32; 37; 125] = Err 4 /\
  (* {% endif %} : end tag without its opening tag *)
  np_compile [123; 37; 32; 101; 110; 100; 105; 102; 32; 37; 125] = Err 2.
Proof. vm_compute. repeat split. Qed.
