(* Generic lemmas for property C17 (escape, urlencode, iriencode, addslashes, safe).
   Nothing here mentions the generated tables: every lemma about a table quantifies
   over it under a decidable side condition (a [bool]), discharged by [vm_compute]
   in Tie/C17a.v. *)
From Coq Require Import List NArith ZArith Bool Lia Arith.
From Coq Require Import ZifyN ZifyNat ZifyBool.
From PV Require Import Lib.Bytes Lib.Utf8 Lib.GoInt Model.EscFilters Spec.SpecEsc.
Import ListNotations.
Open Scope N_scope.
Ltac Zify.zify_post_hook ::= Z.div_mod_to_equations.

(* ------------------------------------------------------------------ *)
(* Small list / byte facts                                             *)
(* ------------------------------------------------------------------ *)

Definition bytes256 : list N := map N.of_nat (seq 0 256%nat).

Lemma in_bytes256 : forall b, b < 256 -> In b bytes256.
Proof.
  intros b Hb. unfold bytes256. apply in_map_iff.
  exists (N.to_nat b). split.
  - apply N2Nat.id.
  - apply in_seq. lia.
Qed.

Lemma forall_bytes256 : forall P : N -> bool,
  forallb P bytes256 = true -> forall b, b < 256 -> P b = true.
Proof.
  intros P H b Hb. rewrite forallb_forall in H. apply H. apply in_bytes256. exact Hb.
Qed.

Lemma str_eqb_eq : forall a b, str_eqb a b = true -> a = b.
Proof.
  induction a as [|x a IH]; intros [|y b] H; cbn [str_eqb] in H; try discriminate.
  - reflexivity.
  - apply andb_true_iff in H. destruct H as [Hx Hr].
    apply N.eqb_eq in Hx. subst y. f_equal. apply IH. exact Hr.
Qed.

Lemma mem_byte_In : forall b l, mem_byte b l = true <-> In b l.
Proof.
  intros b l. unfold mem_byte. rewrite existsb_exists. split.
  - intros [x [Hin He]]. apply N.eqb_eq in He. subst x. exact Hin.
  - intros Hin. exists b. split; [exact Hin | apply N.eqb_refl].
Qed.

Lemma all_mem_In : forall L l,
  forallb (fun d => mem_byte d l) L = true -> forall d, In d L -> In d l.
Proof.
  intros L l H d Hd. rewrite forallb_forall in H. apply mem_byte_In. apply H. exact Hd.
Qed.

Lemma is_prefix_app : forall p s r, is_prefix p s = true -> is_prefix p (s ++ r) = true.
Proof.
  induction p as [|a p IH]; intros s r H.
  - reflexivity.
  - destruct s as [|b s]; cbn [is_prefix] in H; [discriminate|].
    cbn [app is_prefix]. apply andb_true_iff in H. destruct H as [H1 H2].
    rewrite H1. cbn [andb]. apply IH. exact H2.
Qed.

(* ------------------------------------------------------------------ *)
(* A chain of single-byte replacements is a byte-wise substitution     *)
(* ------------------------------------------------------------------ *)

Lemma replace_go_single : forall o new s, replace_go [o] new 0 s = replace1 o new s.
Proof.
  intros o new s. induction s as [|c s IH].
  - reflexivity.
  - change (replace_go [o] new 0 (c :: s))
      with (if (o =? c) && true then new ++ replace_go [o] new 0 s
            else c :: replace_go [o] new 0 s).
    rewrite andb_true_r, IH. unfold replace1. cbn [flat_map].
    rewrite (N.eqb_sym c o). destruct (o =? c); reflexivity.
Qed.

Lemma replace1_app : forall o new a b,
  replace1 o new (a ++ b) = replace1 o new a ++ replace1 o new b.
Proof. intros. unfold replace1. apply flat_map_app. Qed.

Lemma replace1_flat_map : forall o new (f : N -> str) s,
  replace1 o new (flat_map f s) = flat_map (fun b => replace1 o new (f b)) s.
Proof.
  intros o new f s. induction s as [|c s IH].
  - reflexivity.
  - cbn [flat_map]. rewrite replace1_app, IH. reflexivity.
Qed.

(* side condition: every source of the table is a single byte *)
Definition single_sources (pairs : list (str * str)) : bool :=
  forallb (fun p => match fst p with [_] => true | _ => false end) pairs.

(* the source bytes of the table *)
Definition srcs (pairs : list (str * str)) : list N := flat_map fst pairs.

(* what the chain makes of one byte *)
Definition chunk (pairs : list (str * str)) (b : N) : str := replace_chain pairs [b].

Lemma replace_chain_cons : forall p pairs s,
  replace_chain (p :: pairs) s = replace_chain pairs (replace_go (fst p) (snd p) 0 s).
Proof. reflexivity. Qed.

Lemma single_sources_cons : forall p pairs,
  single_sources (p :: pairs) = true ->
  exists o new, p = ([o], new) /\ single_sources pairs = true.
Proof.
  intros [src new] pairs H. unfold single_sources in H. cbn [forallb fst] in H.
  apply andb_true_iff in H. destruct H as [H1 H2].
  destruct src as [|o [|x src]]; try discriminate.
  exists o, new. split; [reflexivity | exact H2].
Qed.

Lemma replace_chain_cons1 : forall o new pairs s,
  replace_chain (([o], new) :: pairs) s = replace_chain pairs (replace1 o new s).
Proof. intros. rewrite replace_chain_cons. cbn [fst snd]. rewrite replace_go_single. reflexivity. Qed.

Lemma chain_flat_map : forall pairs, single_sources pairs = true ->
  forall (f : N -> str) s,
    replace_chain pairs (flat_map f s) = flat_map (fun b => replace_chain pairs (f b)) s.
Proof.
  induction pairs as [|p pairs IH]; intros Hs f s.
  - apply flat_map_ext. reflexivity.
  - destruct (single_sources_cons _ _ Hs) as [o [new [Hp Hs']]]. subst p.
    rewrite replace_chain_cons1, replace1_flat_map, (IH Hs').
    apply flat_map_ext. intros b.
    rewrite replace_chain_cons1. reflexivity.
Qed.

Lemma flat_map_singleton : forall s : str, flat_map (fun b => [b]) s = s.
Proof. induction s as [|c s IH]; [reflexivity | cbn [flat_map app]; rewrite IH; reflexivity]. Qed.

Theorem chain_chunks : forall pairs, single_sources pairs = true ->
  forall s, replace_chain pairs s = flat_map (chunk pairs) s.
Proof.
  intros pairs Hs s.
  rewrite <- (flat_map_singleton s) at 1.
  rewrite (chain_flat_map pairs Hs). reflexivity.
Qed.

Lemma chunk_not_src : forall pairs, single_sources pairs = true ->
  forall b, ~ In b (srcs pairs) -> chunk pairs b = [b].
Proof.
  induction pairs as [|p pairs IH]; intros Hs b Hb.
  - reflexivity.
  - destruct (single_sources_cons _ _ Hs) as [o [new [Hp Hs']]]. subst p.
    unfold chunk. rewrite replace_chain_cons1.
    unfold srcs in Hb. cbn [flat_map fst app] in Hb.
    assert (Hne : (b =? o) = false).
    { apply N.eqb_neq. intros E. apply Hb. left. symmetry. exact E. }
    unfold replace1. cbn [flat_map]. rewrite Hne. cbn [app].
    apply (IH Hs'). intros Hin. apply Hb. right. exact Hin.
Qed.

(* the reduction: a per-byte fact about [chunk] needs proving only on the sources *)
Lemma chunk_cases : forall pairs (P : N -> str -> Prop),
  single_sources pairs = true ->
  (forall b, ~ In b (srcs pairs) -> P b [b]) ->
  (forall o, In o (srcs pairs) -> P o (chunk pairs o)) ->
  forall b, P b (chunk pairs b).
Proof.
  intros pairs P Hs Hout Hin b.
  destruct (in_dec N.eq_dec b (srcs pairs)) as [Hi|Hn].
  - apply Hin. exact Hi.
  - rewrite (chunk_not_src pairs Hs b Hn). apply Hout. exact Hn.
Qed.

(* ------------------------------------------------------------------ *)
(* escape                                                              *)
(* ------------------------------------------------------------------ *)

(* [c] is the entity that stands for [o] *)
Definition ent_for (o : N) (c : str) : bool :=
  existsb (fun e => str_eqb (fst e) c && (snd e =? o)) five_entities.

(* Side condition for the escape table:
   1. all sources are single bytes;
   2. the five bytes 38 60 62 34 39 (ampersand, lt, gt, double and single quote) are all
      sources (so every other byte is harmless and stays itself);
   3. for every source byte o, what the WHOLE chain makes of o is exactly the entity
      that stands for o (fails if & is replaced after another pair, since the entity
      of that pair would be re-escaped). *)
Definition escape_must : list N := [38; 60; 62; 34; 39].
Definition escape_side (pairs : list (str * str)) : bool :=
  single_sources pairs
  && forallb (fun d => mem_byte d (srcs pairs)) escape_must
  && forallb (fun o => ent_for o (chunk pairs o)) (srcs pairs).

Lemma escape_chunk : forall pairs, escape_side pairs = true -> forall b,
  (chunk pairs b = [b] /\ ~ In b escape_must) \/ In (chunk pairs b, b) five_entities.
Proof.
  intros pairs H. unfold escape_side in H.
  apply andb_true_iff in H. destruct H as [H H3].
  apply andb_true_iff in H. destruct H as [H1 H2].
  apply (chunk_cases pairs
           (fun b c => (c = [b] /\ ~ In b escape_must) \/ In (c, b) five_entities) H1).
  - intros b Hb. left. split; [reflexivity|].
    intros Hm. apply Hb. apply (all_mem_In _ _ H2). exact Hm.
  - intros o Ho. right.
    rewrite forallb_forall in H3. specialize (H3 o Ho).
    unfold ent_for in H3. apply existsb_exists in H3.
    destruct H3 as [[e ch] [Hin Hc]]. cbn [fst snd] in Hc.
    apply andb_true_iff in Hc. destruct Hc as [Hc1 Hc2].
    apply str_eqb_eq in Hc1. apply N.eqb_eq in Hc2. subst e ch. exact Hin.
Qed.

Lemma not_escape_must : forall b, ~ In b escape_must ->
  b <> 38 /\ dangerous b = false.
Proof.
  intros b H. unfold escape_must in H. cbn [In] in H.
  assert (H38 : b <> 38) by (intros E; apply H; subst b; tauto).
  assert (H60 : (b =? 60) = false) by (apply N.eqb_neq; intros E; apply H; subst b; tauto).
  assert (H62 : (b =? 62) = false) by (apply N.eqb_neq; intros E; apply H; subst b; tauto).
  assert (H34 : (b =? 34) = false) by (apply N.eqb_neq; intros E; apply H; subst b; tauto).
  assert (H39 : (b =? 39) = false) by (apply N.eqb_neq; intros E; apply H; subst b; tauto).
  split; [exact H38|]. unfold dangerous. rewrite H60, H62, H34, H39. reflexivity.
Qed.

Lemma five_entities_cases : forall (P : str -> N -> Prop),
  P ent_amp 38 -> P ent_lt 60 -> P ent_gt 62 -> P ent_quot 34 -> P ent_apos 39 ->
  forall e ch, In (e, ch) five_entities -> P e ch.
Proof.
  intros P H1 H2 H3 H4 H5 e ch Hin. unfold five_entities in Hin. cbn [In] in Hin.
  destruct Hin as [E|[E|[E|[E|[E|[]]]]]]; injection E as <- <-; assumption.
Qed.

Lemma entity_clean : forall e ch, In (e, ch) five_entities ->
  forallb (fun b => negb (dangerous b)) e = true /\ amp_ok e = true.
Proof.
  apply (five_entities_cases
           (fun e _ => forallb (fun b => negb (dangerous b)) e = true /\ amp_ok e = true));
    vm_compute; split; reflexivity.
Qed.

Lemma entity_unescape : forall e ch, In (e, ch) five_entities ->
  forall rest, unescape5 0 (e ++ rest) = ch :: unescape5 0 rest.
Proof.
  apply (five_entities_cases
           (fun e ch => forall rest, unescape5 0 (e ++ rest) = ch :: unescape5 0 rest));
    intros rest; reflexivity.
Qed.

Lemma amp_ok_app : forall a b, amp_ok a = true -> amp_ok b = true -> amp_ok (a ++ b) = true.
Proof.
  induction a as [|c a IH]; intros b Ha Hb.
  - exact Hb.
  - cbn [amp_ok] in Ha. apply andb_true_iff in Ha. destruct Ha as [Hc Ha].
    change ((c :: a) ++ b) with (c :: (a ++ b)). cbn [amp_ok].
    rewrite (IH b Ha Hb), andb_true_r.
    destruct (c =? 38); [|reflexivity].
    apply existsb_exists in Hc. destruct Hc as [e [Hin Hp]].
    apply existsb_exists. exists e. split; [exact Hin|].
    change (c :: a ++ b) with ((c :: a) ++ b). apply is_prefix_app. exact Hp.
Qed.

Lemma unescape5_plain : forall b rest, b <> 38 ->
  unescape5 0 (b :: rest) = b :: unescape5 0 rest.
Proof.
  intros b rest Hb.
  assert (E : (38 =? b) = false) by (apply N.eqb_neq; intros X; apply Hb; symmetry; exact X).
  assert (Hent : ent_at (b :: rest) = None).
  { unfold ent_at, five_entities, ent_amp, ent_lt, ent_gt, ent_quot, ent_apos.
    cbn [find fst is_prefix]. rewrite E. reflexivity. }
  cbn [unescape5]. rewrite Hent. reflexivity.
Qed.

Theorem escape_clean_g : forall pairs, escape_side pairs = true -> forall s,
  forallb (fun b => negb (dangerous b)) (replace_chain pairs s) = true
  /\ amp_ok (replace_chain pairs s) = true.
Proof.
  intros pairs H s.
  assert (Hs : single_sources pairs = true).
  { unfold escape_side in H. apply andb_true_iff in H. destruct H as [H _].
    apply andb_true_iff in H. destruct H as [H _]. exact H. }
  rewrite (chain_chunks pairs Hs).
  induction s as [|b s [IH1 IH2]].
  - split; reflexivity.
  - cbn [flat_map]. rewrite forallb_app, IH1, andb_true_r.
    destruct (escape_chunk pairs H b) as [[Hc Hb]|Hent].
    + rewrite Hc. destruct (not_escape_must b Hb) as [H38 Hd]. split.
      * cbn [forallb]. rewrite Hd. reflexivity.
      * apply amp_ok_app; [|exact IH2]. cbn [amp_ok].
        assert (E : (b =? 38) = false) by (apply N.eqb_neq; exact H38).
        rewrite E. reflexivity.
    + destruct (entity_clean _ _ Hent) as [Hc1 Hc2]. split.
      * exact Hc1.
      * apply amp_ok_app; assumption.
Qed.

Theorem unescape_escape_g : forall pairs, escape_side pairs = true -> forall s,
  unescape5 0 (replace_chain pairs s) = s.
Proof.
  intros pairs H s.
  assert (Hs : single_sources pairs = true).
  { unfold escape_side in H. apply andb_true_iff in H. destruct H as [H _].
    apply andb_true_iff in H. destruct H as [H _]. exact H. }
  rewrite (chain_chunks pairs Hs).
  induction s as [|b s IH].
  - reflexivity.
  - cbn [flat_map].
    destruct (escape_chunk pairs H b) as [[Hc Hb]|Hent].
    + rewrite Hc. destruct (not_escape_must b Hb) as [H38 _].
      change ([b] ++ flat_map (chunk pairs) s) with (b :: flat_map (chunk pairs) s).
      rewrite (unescape5_plain _ _ H38), IH. reflexivity.
    + rewrite (entity_unescape _ _ Hent), IH. reflexivity.
Qed.

(* ------------------------------------------------------------------ *)
(* addslashes                                                          *)
(* ------------------------------------------------------------------ *)

(* Side condition for the addslashes table:
   1. all sources are single bytes;
   2. 92 34 39 (backslash, double quote, single quote) are all sources;
   3. for every source byte o, o is one of these three and the WHOLE chain turns o into
      backslash-o
      (fails if \ is replaced after another pair: its backslash would be doubled). *)
Definition addslashes_must : list N := [92; 34; 39].
Definition addslashes_side (pairs : list (str * str)) : bool :=
  single_sources pairs
  && forallb (fun d => mem_byte d (srcs pairs)) addslashes_must
  && forallb (fun o => slashed o && str_eqb (chunk pairs o) [92; o]) (srcs pairs).

Lemma addslashes_chunk : forall pairs, addslashes_side pairs = true -> forall b,
  (chunk pairs b = [b] /\ ~ In b addslashes_must)
  \/ (chunk pairs b = [92; b] /\ slashed b = true).
Proof.
  intros pairs H. unfold addslashes_side in H.
  apply andb_true_iff in H. destruct H as [H H3].
  apply andb_true_iff in H. destruct H as [H1 H2].
  apply (chunk_cases pairs
           (fun b c => (c = [b] /\ ~ In b addslashes_must)
                       \/ (c = [92; b] /\ slashed b = true)) H1).
  - intros b Hb. left. split; [reflexivity|].
    intros Hm. apply Hb. apply (all_mem_In _ _ H2). exact Hm.
  - intros o Ho. right.
    rewrite forallb_forall in H3. specialize (H3 o Ho).
    apply andb_true_iff in H3. destruct H3 as [Hsl Heq].
    apply str_eqb_eq in Heq. split; assumption.
Qed.

Lemma not_addslashes_must : forall b, ~ In b addslashes_must ->
  (b =? 92) = false /\ slashed b = false.
Proof.
  intros b H. unfold addslashes_must in H. cbn [In] in H.
  assert (H92 : (b =? 92) = false) by (apply N.eqb_neq; intros E; apply H; subst b; tauto).
  assert (H34 : (b =? 34) = false) by (apply N.eqb_neq; intros E; apply H; subst b; tauto).
  assert (H39 : (b =? 39) = false) by (apply N.eqb_neq; intros E; apply H; subst b; tauto).
  split; [exact H92|]. unfold slashed. rewrite H92, H34, H39. reflexivity.
Qed.

Theorem addslashes_exact_g : forall pairs, addslashes_side pairs = true -> forall s,
  strip_slashes (replace_chain pairs s) = Some s.
Proof.
  intros pairs H s.
  assert (Hs : single_sources pairs = true).
  { unfold addslashes_side in H. apply andb_true_iff in H. destruct H as [H _].
    apply andb_true_iff in H. destruct H as [H _]. exact H. }
  rewrite (chain_chunks pairs Hs).
  induction s as [|b s IH].
  - reflexivity.
  - cbn [flat_map].
    destruct (addslashes_chunk pairs H b) as [[Hc Hb]|[Hc Hsl]]; rewrite Hc.
    + destruct (not_addslashes_must b Hb) as [H92 Hns].
      change ([b] ++ flat_map (chunk pairs) s) with (b :: flat_map (chunk pairs) s).
      cbn [strip_slashes]. rewrite H92, Hns, IH. reflexivity.
    + change ([92; b] ++ flat_map (chunk pairs) s)
        with (92 :: b :: flat_map (chunk pairs) s).
      cbn [strip_slashes]. rewrite N.eqb_refl, Hsl, IH. reflexivity.
Qed.

(* ------------------------------------------------------------------ *)
(* urlencode (no table involved)                                       *)
(* ------------------------------------------------------------------ *)

(* the bytes [iri_alphabet] accepts one by one *)
Definition ok_iri (c : N) : bool := mem_byte c iri_reserved || unreserved c || (c =? 43).

(* everything we need to know about [query_escape_byte b], checked for b = 0..255 *)
Definition qe_check (b : N) : bool :=
  forallb query_safe (query_escape_byte b)
  && forallb ok_iri (query_escape_byte b)
  && (if url_unreserved b then negb (b =? 43) && negb (b =? 37)
      else if b =? ch_sp then true
      else is_hex_upper (hex_digit (b / 16)) && is_hex_upper (hex_digit (b mod 16))
           && (hex_val (hex_digit (b / 16)) * 16 + hex_val (hex_digit (b mod 16)) =? b)).

Lemma qe_check_all : forallb qe_check bytes256 = true.
Proof. vm_compute. reflexivity. Qed.

Lemma qe_check_byte : forall b, b < 256 -> qe_check b = true.
Proof. apply forall_bytes256. exact qe_check_all. Qed.

Lemma forallb_flat_map : forall (A B : Type) (P : B -> bool) (f : A -> list B) l,
  (forall a, In a l -> forallb P (f a) = true) -> forallb P (flat_map f l) = true.
Proof.
  intros A B P f l H. induction l as [|a l IH].
  - reflexivity.
  - cbn [flat_map]. rewrite forallb_app, (H a (or_introl eq_refl)), IH.
    + reflexivity.
    + intros a' Ha'. apply H. right. exact Ha'.
Qed.

Theorem query_escape_safe : forall s, Forall (fun b => b < 256) s ->
  forallb query_safe (query_escape s) = true.
Proof.
  intros s Hs. unfold query_escape. apply forallb_flat_map. intros b Hb.
  rewrite Forall_forall in Hs. specialize (qe_check_byte b (Hs b Hb)). intros Hq.
  unfold qe_check in Hq. apply andb_true_iff in Hq. destruct Hq as [Hq _].
  apply andb_true_iff in Hq. destruct Hq as [Hq _]. exact Hq.
Qed.

Theorem query_escape_ok_iri : forall s, Forall (fun b => b < 256) s ->
  forallb ok_iri (query_escape s) = true.
Proof.
  intros s Hs. unfold query_escape. apply forallb_flat_map. intros b Hb.
  rewrite Forall_forall in Hs. specialize (qe_check_byte b (Hs b Hb)). intros Hq.
  unfold qe_check in Hq. apply andb_true_iff in Hq. destruct Hq as [Hq _].
  apply andb_true_iff in Hq. destruct Hq as [_ Hq]. exact Hq.
Qed.

Lemma query_unescape_byte : forall b rest, b < 256 ->
  query_unescape 0 (query_escape_byte b ++ rest)
  = option_map (cons b) (query_unescape 0 rest).
Proof.
  intros b rest Hb. specialize (qe_check_byte b Hb). intros Hq.
  unfold qe_check in Hq. apply andb_true_iff in Hq. destruct Hq as [_ Hq].
  unfold query_escape_byte. destruct (url_unreserved b).
  - apply andb_true_iff in Hq. destruct Hq as [H43 H37].
    apply negb_true_iff in H43. apply negb_true_iff in H37.
    change ([b] ++ rest) with (b :: rest). cbn [query_unescape].
    rewrite H43, H37. reflexivity.
  - destruct (b =? ch_sp) eqn:Hsp.
    + apply N.eqb_eq in Hsp. subst b. reflexivity.
    + unfold hex2.
      set (h1 := hex_digit (b / 16)) in *. set (h2 := hex_digit (b mod 16)) in *.
      apply andb_true_iff in Hq. destruct Hq as [Hq Hv].
      apply N.eqb_eq in Hv.
      change (query_unescape 0 ((ch_pct :: [h1; h2]) ++ rest))
        with (if is_hex_upper h1 && is_hex_upper h2
              then option_map (cons (hex_val h1 * 16 + hex_val h2)) (query_unescape 0 rest)
              else None).
      rewrite Hq, Hv. reflexivity.
Qed.

Theorem query_escape_roundtrip : forall s, Forall (fun b => b < 256) s ->
  query_unescape 0 (query_escape s) = Some s.
Proof.
  intros s Hs. unfold query_escape. induction Hs as [|b s Hb Hs IH].
  - reflexivity.
  - cbn [flat_map]. rewrite (query_unescape_byte b _ Hb), IH. reflexivity.
Qed.

(* ------------------------------------------------------------------ *)
(* iriencode                                                           *)
(* ------------------------------------------------------------------ *)

(* [iri_alphabet 0] accepts any string of individually acceptable bytes: a % followed
   by two hex digits is skipped as a triple, but those two digits are acceptable
   (unreserved) bytes anyway. *)
Lemma iri_alphabet_not_pct : forall c s, c <> 37 ->
  iri_alphabet 0 (c :: s) = ok_iri c && iri_alphabet 0 s.
Proof.
  intros c s Hc.
  destruct c as [|p]; [reflexivity|].
  destruct p as [p|p|]; try reflexivity.
  destruct p as [p|p|]; try reflexivity.
  destruct p as [p|p|]; try reflexivity.
  destruct p as [p|p|]; try reflexivity.
  destruct p as [p|p|]; try reflexivity.
  destruct p as [p|p|]; try reflexivity.
  exfalso. apply Hc. reflexivity.
Qed.

Lemma ok_iri_hex : forall c, is_hex_upper c = true -> ok_iri c = true.
Proof.
  intros c H. unfold ok_iri, unreserved, is_alpha, is_upper.
  unfold is_hex_upper in H. apply orb_true_iff in H. destruct H as [H|H].
  - rewrite H. rewrite !orb_true_r. reflexivity.
  - apply andb_true_iff in H. destruct H as [H1 H2]. apply N.leb_le in H2.
    assert (H3 : (c <=? 90) = true) by (apply N.leb_le; lia).
    rewrite H1, H3. cbn [andb orb]. rewrite !orb_true_r. reflexivity.
Qed.

Lemma iri_alphabet_ok : forall s, forallb ok_iri s = true ->
  forall k, (k <= length s)%nat -> forallb is_hex_upper (firstn k s) = true ->
  iri_alphabet k s = true.
Proof.
  induction s as [|c s IH]; intros Hs k Hk Hh.
  - cbn [length] in Hk. assert (k = 0%nat) by lia. subst k. reflexivity.
  - cbn [forallb] in Hs. apply andb_true_iff in Hs. destruct Hs as [Hc Hs].
    destruct k as [|k].
    + destruct (N.eq_dec c 37) as [E|E].
      * subst c. destruct s as [|a [|b t]].
        -- reflexivity.
        -- change (iri_alphabet 0 [37; a]) with (ok_iri 37 && iri_alphabet 0 [a]).
           rewrite (IH Hs 0%nat); [reflexivity | cbn [length]; lia | reflexivity].
        -- change (iri_alphabet 0 (37 :: a :: b :: t))
             with (if is_hex_upper a && is_hex_upper b
                   then iri_alphabet 2 (a :: b :: t) else iri_alphabet 0 (a :: b :: t)).
           destruct (is_hex_upper a && is_hex_upper b) eqn:Hab.
           ++ apply (IH Hs 2%nat).
              ** cbn [length]. lia.
              ** apply andb_true_iff in Hab. destruct Hab as [Ha Hb'].
                 cbn [firstn forallb]. rewrite Ha, Hb'. reflexivity.
           ++ apply (IH Hs 0%nat); [cbn [length]; lia | reflexivity].
      * rewrite (iri_alphabet_not_pct c s E), Hc. cbn [andb].
        apply (IH Hs 0%nat); [lia | reflexivity].
    + cbn [firstn forallb] in Hh. apply andb_true_iff in Hh. destruct Hh as [Hh1 Hh2].
      cbn [iri_alphabet]. rewrite Hh1. cbn [andb].
      apply (IH Hs k); [cbn [length] in Hk; lia | exact Hh2].
Qed.

Lemma encode_rune_bytes : forall r, Forall (fun b => b < 256) (encode_rune r).
Proof.
  intros r. unfold encode_rune.
  destruct (N.ltb_spec r 128) as [H1|H1].
  { repeat constructor. lia. }
  destruct (N.ltb_spec r 2048) as [H2|H2].
  { repeat constructor; lia. }
  destruct (is_surrogate r || (1114111 <? r)) eqn:H3.
  { repeat constructor. }
  apply orb_false_iff in H3. destruct H3 as [_ H3]. apply N.ltb_ge in H3.
  destruct (N.ltb_spec r 65536) as [H4|H4].
  { repeat constructor; lia. }
  repeat constructor; lia.
Qed.

(* filterIriencode with the table of characters left alone as a parameter *)
Definition iri_rune (chars : str) (r : N) : str :=
  if mem_byte r chars then encode_rune r else query_escape (encode_rune r).

(* Side condition for the iriencode table: every character it leaves alone is ASCII
   and belongs to the reserved set of the specification. *)
Definition iri_side (chars : str) : bool :=
  forallb (fun c => (c <? 128) && mem_byte c iri_reserved) chars.

Lemma iri_rune_ok : forall chars, iri_side chars = true ->
  forall r, forallb ok_iri (iri_rune chars r) = true.
Proof.
  intros chars H r. unfold iri_rune. destruct (mem_byte r chars) eqn:Hm.
  - apply mem_byte_In in Hm. unfold iri_side in H. rewrite forallb_forall in H.
    specialize (H r Hm). apply andb_true_iff in H. destruct H as [Hlt Hres].
    unfold encode_rune. rewrite Hlt. cbn [forallb]. unfold ok_iri. rewrite Hres. reflexivity.
  - apply query_escape_ok_iri. apply encode_rune_bytes.
Qed.

Theorem iriencode_alphabet_g : forall chars, iri_side chars = true ->
  forall rs : list N, iri_alphabet 0 (flat_map (iri_rune chars) rs) = true.
Proof.
  intros chars H rs. apply iri_alphabet_ok.
  - apply forallb_flat_map. intros r _. apply iri_rune_ok. exact H.
  - lia.
  - reflexivity.
Qed.
