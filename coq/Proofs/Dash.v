(* Proofs for property C15, end to end (Props/C15e.v): a "-" marker next to "{{" / "}}" equals
   deleting the white space by hand, for documents made of literal text and variables
   {{ name }} (Spec/SpecDash.v).

   The chain: (1) the source of a document is a list of lexer fragments (text fragments and
   one self-contained code fragment per variable), so Proofs/LexB.v's composition lemma gives
   its token list; (2) the document parser turns that token list, annotated, into the node
   list [doc_nodes], the text nodes carrying trimL / trimR from the neighbouring markers;
   (3) executed in a frame that holds no macro, that node list writes [doc_out]: the stripped
   texts and the variables' outputs, which no longer mentions fuel or state, so that the
   marked document and the document stripped by hand can be compared although they have
   different numbers of nodes; (4) compile + execute through the API.
   The big mutual fixpoints are only opened by one-step equations proved by reflexivity. *)
From Coq Require Import Lia Arith Bool.
From PV Require Import Lib.Bytes Lib.GoInt gen.Tables Model.Lexer Model.Api.
From PV Require Import Spec.SpecLex Spec.SpecRender Spec.SpecTrim Spec.SpecDash.
From PV Require Import Proofs.LexA Proofs.LexB Proofs.Render Proofs.Compose.
Open Scope N_scope.

(* ====================================================================================== *)
(* 1. lexing                                                                                *)
(* ====================================================================================== *)

Lemma code_open_plain : forall f r l c acc,
  code_go (S f) (123 :: 123 :: 32 :: r) l c acc =
  code_go f (32 :: r) l (c + 2)%Z (mkTok TSymbol [123; 123] l c false :: acc).
Proof. reflexivity. Qed.
Lemma code_open_dash : forall f r l c acc,
  code_go (S f) (123 :: 123 :: 45 :: r) l c acc =
  code_go f r l (c + 3)%Z (mkTok TSymbol [123; 123] l c true :: acc).
Proof. reflexivity. Qed.
Lemma code_space : forall f r l c acc,
  code_go (S f) (32 :: r) l c acc = code_go f r l (c + 1)%Z acc.
Proof. reflexivity. Qed.
Lemma code_close_plain : forall f r l c acc,
  code_go (S f) (125 :: 125 :: r) l c acc =
  CodeOk r (c + 2)%Z (mkTok TSymbol [125; 125] l c false :: acc).
Proof. reflexivity. Qed.
Lemma code_close_dash : forall f r l c acc,
  code_go (S f) (45 :: 125 :: 125 :: r) l c acc =
  CodeOk r (c + 3)%Z (mkTok TSymbol [125; 125] l c true :: acc).
Proof. reflexivity. Qed.

(* ---------- side conditions on the generated tables ---------- *)
Definition bytes256 : list N := map N.of_nat (seq 0 256).
Definition dash_tables_ok : bool :=
  forallb (fun b => implb (is_alpha b)
                          (in_set token_ident_chars b && negb (in_set token_space_chars b) && negb (b =? 10)))
          bytes256 &&
  negb (in_set token_ident_chars 32) && negb (in_set token_ident_chars_digits 32) &&
  forallb (fun k => existsb (str_eqb k) reserved_words) token_keywords.

Lemma alpha_in_bytes : forall b, is_alpha b = true -> In b bytes256.
Proof.
  intros b H. unfold bytes256. apply in_map_iff. exists (N.to_nat b). split; [apply N2Nat.id|].
  apply in_seq. unfold is_alpha, is_upper, is_lower in H.
  apply orb_true_iff in H. destruct H as [H|H]; apply andb_true_iff in H; destruct H as [_ H];
    apply N.leb_le in H; lia.
Qed.

Section Tables1.
  Hypothesis Htab : dash_tables_ok = true.

  Lemma tab_parts :
    (forall b, is_alpha b = true ->
       in_set token_ident_chars b = true /\ in_set token_space_chars b = false /\ (b =? 10) = false) /\
    in_set token_ident_chars 32 = false /\ in_set token_ident_chars_digits 32 = false /\
    (forall v, existsb (str_eqb v) reserved_words = false -> existsb (str_eqb v) token_keywords = false).
  Proof.
    unfold dash_tables_ok in Htab.
    apply andb_true_iff in Htab. destruct Htab as [H123 H4].
    apply andb_true_iff in H123. destruct H123 as [H12 H3].
    apply andb_true_iff in H12. destruct H12 as [H1 H2].
    split; [|split; [|split]].
    - intros b Hb. rewrite forallb_forall in H1. specialize (H1 b (alpha_in_bytes b Hb)).
      rewrite Hb in H1. cbn [implb] in H1.
      apply andb_true_iff in H1. destruct H1 as [H1 Hc].
      apply andb_true_iff in H1. destruct H1 as [Ha Hb'].
      repeat split; [exact Ha| |]; apply negb_true_iff; assumption.
    - apply negb_true_iff. exact H2.
    - apply negb_true_iff. exact H3.
    - intros v Hv. destruct (existsb (str_eqb v) token_keywords) eqn:E; [|reflexivity].
      exfalso. apply existsb_exists in E. destruct E as [k [Hin Hk]].
      apply LexA.str_eqb_eq in Hk. subst k.
      rewrite forallb_forall in H4. specialize (H4 v Hin).
      apply existsb_exists in H4. destruct H4 as [k [Hin2 Hk]].
      assert (Hx : existsb (str_eqb v) reserved_words = true).
      { apply existsb_exists. exists k. split; [exact Hin2|].
        apply LexA.str_eqb_eq in Hk. subst k.
        clear. induction v as [|x v IH]; [reflexivity|]. cbn [str_eqb]. rewrite N.eqb_refl. exact IH. }
      congruence.
  Qed.

  Lemma span_letters : forall t r,
    forallb is_alpha t = true ->
    span (in_set token_ident_chars) (t ++ 32 :: r) = (t, 32 :: r).
  Proof.
    destruct tab_parts as [Ha [H32 _]].
    induction t as [|b t IH]; intros r H.
    - cbn [app span]. rewrite H32. reflexivity.
    - cbn [forallb] in H. apply andb_true_iff in H. destruct H as [Hb Ht].
      cbn [app span]. destruct (Ha b Hb) as [Hi _]. rewrite Hi, (IH r Ht). reflexivity.
  Qed.

  Lemma code_ident : forall f b t r l c acc,
    is_alpha b = true -> forallb is_alpha t = true ->
    existsb (str_eqb (b :: t)) reserved_words = false ->
    code_go (S f) (b :: t ++ 32 :: r) l c acc =
    code_go f (32 :: r) l (c + zlen (b :: t))%Z (mkTok TIdentifier (b :: t) l c false :: acc).
  Proof.
    intros f b t r l c acc Hb Ht Hk.
    destruct tab_parts as [Ha [H32 [H32d Hkw]]].
    destruct (Ha b Hb) as [Hi [Hs _]].
    cbn [code_go]. rewrite Hs, Hi, (span_letters t r Ht).
    cbn [span]. rewrite H32d. rewrite app_nil_r.
    unfold classify_ident. rewrite (Hkw _ Hk). reflexivity.
  Qed.
End Tables1.

Lemma name_ok_inv : forall n, name_ok n = true ->
  exists b t, n = b :: t /\ is_alpha b = true /\ forallb is_alpha t = true /\
              existsb (str_eqb n) reserved_words = false.
Proof.
  intros n H. unfold name_ok in H. apply andb_true_iff in H. destruct H as [H1 H2].
  apply negb_true_iff in H2. destruct n as [|b t]; [discriminate|].
  cbn [forallb] in H1. apply andb_true_iff in H1. destruct H1 as [Hb Ht].
  exists b, t. repeat split; assumption.
Qed.

Section Tables2.
  Hypothesis Htab : dash_tables_ok = true.

  Lemma letters_no_newline : forall t, forallb is_alpha t = true -> existsb (N.eqb 10) t = false.
  Proof.
    destruct (tab_parts Htab) as [Ha _].
    induction t as [|b t IH]; intros H; [reflexivity|].
    cbn [forallb] in H. apply andb_true_iff in H. destruct H as [Hb Ht].
    cbn [existsb]. destruct (Ha b Hb) as [_ [_ Hn]]. rewrite N.eqb_sym, Hn. exact (IH Ht).
  Qed.

  Lemma var_code_ok : forall n dl dr, name_ok n = true -> code_ok (var_src n dl dr) (var_toks n dl dr).
  Proof.
    intros n dl dr Hn.
    destruct (name_ok_inv n Hn) as (b & t & En & Hb & Ht & Hk).
    assert (Hall : forallb is_alpha n = true) by (subst n; cbn [forallb]; rewrite Hb; exact Ht).
    unfold code_ok. split; [|split; [|split; [|split]]].
    - intros l c. unfold var_toks, reloc. cbn [map ttyp tval tcol ttrim].
      clear. repeat (f_equal; try lia).
    - left. destruct dl; reflexivity.
    - destruct dl; reflexivity.
    - unfold var_src. rewrite !existsb_app, (letters_no_newline n Hall).
      destruct dl, dr; reflexivity.
    - intros rest l c acc f Hf.
      assert (Hlen : (7 <= length (var_src n dl dr))%nat).
      { unfold var_src. subst n. clear. destruct dl, dr; cbn [app length]; rewrite ?app_length; cbn [length]; lia. }
      do 5 (destruct f as [|f]; [lia|]).
      assert (Hz : zlen (var_src n dl dr) =
                   ((if dl then 4 else 3) + zlen n + 1 + (if dr then 3 else 2))%Z).
      { unfold var_src. rewrite !zlen_app. unfold zlen. clear. destruct dl, dr; cbn [length]; lia. }
      rewrite Hz. unfold var_toks. cbv zeta. clear Hz Hlen Hf Hall Hn.
      unfold var_src. rewrite <- !app_assoc. subst n.
      destruct dl; cbn [app].
      + rewrite code_open_dash, code_space, (code_ident Htab _ b t _ _ _ _ Hb Ht Hk), code_space.
        clear Hb Ht Hk. generalize (zlen (b :: t)). intros z.
        destruct dr; cbn [app].
        * rewrite code_close_dash. cbn [rev app]. clear. f_equal; [lia|].
          repeat (f_equal; try lia).
        * rewrite code_close_plain. cbn [rev app]. clear. f_equal; [lia|].
          repeat (f_equal; try lia).
      + rewrite code_open_plain, code_space, (code_ident Htab _ b t _ _ _ _ Hb Ht Hk), code_space.
        clear Hb Ht Hk. generalize (zlen (b :: t)). intros z.
        destruct dr; cbn [app].
        * rewrite code_close_dash. cbn [rev app]. clear. f_equal; [lia|].
          repeat (f_equal; try lia).
        * rewrite code_close_plain. cbn [rev app]. clear. f_equal; [lia|].
          repeat (f_equal; try lia).
  Qed.
End Tables2.

Definition var_frag (n : str) (dl dr : bool) : frag := FCode (var_src n dl dr) (var_toks n dl dr).
Definition item_frags (i : item str) : list frag :=
  match i with
  | Text [] => []
  | Text s => [FText s]
  | Var n dl dr => [var_frag n dl dr]
  end.
Definition doc_frags (d : doc) : list frag := flat_map item_frags d.

Lemma doc_frags_src : forall d, frags_src (doc_frags d) = doc_src d.
Proof.
  induction d as [|i d IH]; [reflexivity|].
  unfold doc_frags, doc_src, frags_src in *. cbn [flat_map]. rewrite flat_map_app, IH. f_equal.
  destruct i as [[|b s]|n dl dr]; cbn [item_frags flat_map frag_src item_src var_frag]; try reflexivity;
    apply app_nil_r.
Qed.

Lemma doc_frags_toks : forall d p, frags_toks (doc_frags d) p = doc_toks d p.
Proof.
  induction d as [|i d IH]; intros p; [reflexivity|].
  change (doc_frags (i :: d)) with (item_frags i ++ doc_frags d).
  destruct i as [[|b s]|n dl dr]; cbn [item_frags app frags_toks doc_toks frag_src var_frag].
  - rewrite IH. reflexivity.
  - rewrite IH. reflexivity.
  - rewrite IH. reflexivity.
Qed.

Lemma doc_src_head : forall d, doc_ok d = true ->
  match d with
  | Var _ _ _ :: _ => firstn 1 (doc_src d) = [123]
  | _ => True
  end.
Proof. intros [|[s|n dl dr] d] _; try exact I. reflexivity. Qed.

Section Tables3.
  Hypothesis Htab : dash_tables_ok = true.

  Lemma doc_frags_ok : forall d, doc_ok d = true -> frags_ok (doc_frags d).
  Proof.
    induction d as [|i d IH]; intros H; [exact I|].
    change (doc_frags (i :: d)) with (item_frags i ++ doc_frags d).
    destruct i as [s|n dl dr].
    - cbn [doc_ok] in H. apply andb_true_iff in H. destruct H as [H1 H2].
      specialize (IH H2).
      destruct s as [|b s]; [exact IH|].
      cbn [item_frags app frags_ok frag_ok].
      split; [split; [discriminate|]|split; [exact IH|]].
      + rewrite doc_frags_src.
        destruct d as [|[s2|n2 dl2 dr2] d]; [| discriminate |].
        * cbn [doc_src flat_map firstn]. rewrite app_nil_r. exact H1.
        * apply andb_true_iff in H1. destruct H1 as [H1 _]. exact H1.
      + destruct d as [|[s2|n2 dl2 dr2] d]; [exact I|discriminate|exact I].
    - cbn [doc_ok] in H. apply andb_true_iff in H. destruct H as [H1 H2].
      cbn [item_frags app frags_ok frag_ok var_frag].
      split; [exact (var_code_ok Htab n dl dr H1)|]. split; [exact (IH H2)|exact I].
  Qed.

  Lemma lex_doc : LexB.verb_prefix_check = true ->
    forall d, doc_ok d = true -> lex (doc_src d) = LexOk (doc_toks d (1, 1)%Z).
  Proof.
    intros Hv d H. rewrite <- doc_frags_src, <- doc_frags_toks.
    exact (LexB.lex_compose Hv (doc_frags d) (doc_frags_ok d H)).
  Qed.
End Tables3.

(* ====================================================================================== *)
(* 2. parsing                                                                               *)
(* ====================================================================================== *)

Lemma pexpr_name : forall cfg k n l c tr l' c' tr' X,
  parse_expression cfg (12 + k)
    (mkTok TIdentifier n l c tr :: mkTok TSymbol [125; 125] l' c' tr' :: X) =
  Ok (var_expr n, mkTok TSymbol [125; 125] l' c' tr' :: X).
Proof. intros. reflexivity. Qed.

Lemma take_code_cons_code : forall a r, tok_is_html (a_tok a) = false ->
  take_code (a :: r) = (a :: fst (take_code r), snd (take_code r)).
Proof. intros a r H. cbn [take_code]. rewrite H. destruct (take_code r); reflexivity. Qed.

Section ParseVar.
  Variable se : senv.

  Lemma parse_elem_S_open : forall f level st l c tr tL tR af bf r,
    parse_elem se (S f) level st (mkA (mkTok TSymbol [123; 123] l c tr) tL tR af bf :: r) =
    (let '(code, _) := take_code r in
     let ct := toks_of code in
     do '(e, rt) <- pexpr (se_cfg se) ct;
     let r1 := resync r ct rt in
     match r1 with
     | c :: r2 => if a_is_sym c [125; 125] then Ok (NVar e, r2, st) else perr
     | [] => perr
     end).
  Proof. reflexivity. Qed.

  Lemma parse_elem_var : forall f level st n lo co tro x1 x2 x3 x4 li ci tri y1 y2 y3 y4 lc cc trc z1 z2 z3 z4 rest,
    parse_elem se (S f) level st
      (mkA (mkTok TSymbol [123; 123] lo co tro) x1 x2 x3 x4 ::
       mkA (mkTok TIdentifier n li ci tri) y1 y2 y3 y4 ::
       mkA (mkTok TSymbol [125; 125] lc cc trc) z1 z2 z3 z4 :: rest) =
    Ok (NVar (var_expr n), rest, st).
  Proof.
    intros. rewrite parse_elem_S_open.
    rewrite take_code_cons_code by reflexivity.
    rewrite take_code_cons_code by reflexivity.
    cbn [fst snd]. cbv zeta.
    set (X := fst (take_code rest)).
    cbn [toks_of map a_tok]. fold (toks_of X).
    unfold pexpr.
    match goal with |- context [parse_fuel ?ts] =>
      assert (Hf : parse_fuel ts = (12 + (parse_fuel ts - 12))%nat) by (unfold parse_fuel; cbn [length]; lia);
      rewrite Hf; clear Hf end.
    rewrite pexpr_name. cbn [bind]. unfold resync. cbn [length].
    replace (S (S (length (toks_of X))) - S (length (toks_of X)))%nat with 1%nat by lia.
    reflexivity.
  Qed.
End ParseVar.

(* what the annotation pass must know about the token before the list: it carries a dash
   iff [pd], and it is not "%}" *)
Definition prev_rel (prev : option token) (pd : bool) : Prop :=
  match prev with
  | None => pd = false
  | Some t => tok_is_trim_sym t = pd /\ negb (tok_is_html t) && str_eqb (tval t) [37; 125] = false
  end.

Lemma advs_nil : forall p, advs p [] = p.
Proof. reflexivity. Qed.

Section ParseDocDoc.
  Variable se : senv.

  Lemma parse_doc_doc : forall d prev pd p F st,
    doc_ok d = true -> (length d + 2 <= F)%nat -> prev_rel prev pd ->
    parse_doc se F st (annotate prev (doc_toks d p)) = Ok (doc_nodes (t_id (fst st)) pd d, st).
  Proof.
    induction d as [|i d IH]; intros prev pd p F st Hok HF Hprev.
    - destruct F as [|F]; [cbn [length] in HF; lia|]. apply parse_doc_S_nil.
    - cbn [length] in HF.
      destruct i as [s|n dl dr]; cbn [doc_ok] in Hok; apply andb_true_iff in Hok; destruct Hok as [H1 H2].
      + destruct s as [|b s].
        * cbn [doc_toks html_tokens app doc_nodes]. rewrite advs_nil.
          apply IH; [exact H2|lia|exact Hprev].
        * destruct F as [|[|F]]; [lia|lia|].
          cbn [doc_toks html_tokens app doc_nodes annotate fst snd].
          rewrite parse_doc_S_cons, parse_elem_S_html. cbn [bind].
          rewrite (IH (Some (mkTok THTML (b :: s) (fst p) (snd p) false)) false _ (S F) st H2);
            [|lia|split; reflexivity].
          cbn [bind].
          assert (E1 : match prev with Some q => tok_is_trim_sym q | None => false end = pd).
          { destruct prev as [q|]; [exact (proj1 Hprev)|symmetry; exact Hprev]. }
          assert (E2 : match prev with
                       | Some q => negb (tok_is_html q) && str_eqb (tval q) [37; 125]
                       | None => false end = false).
          { destruct prev as [q|]; [exact (proj2 Hprev)|reflexivity]. }
          rewrite E1, E2.
          destruct d as [|[s2|n2 dl2 dr2] d]; [reflexivity|discriminate|].
          cbn [doc_toks var_toks app next_dash]. reflexivity.
      + destruct F as [|[|F]]; [lia|lia|].
        cbn [doc_toks var_toks app doc_nodes annotate].
        rewrite parse_doc_S_cons, parse_elem_var. cbn [bind].
        rewrite (IH (Some (mkTok TSymbol [125; 125] (fst p)
                             (snd p + (if dl then 4 else 3) + zlen n + 1)%Z dr)) dr _ (S F) st H2);
          [|lia|split; reflexivity].
        reflexivity.
  Qed.
End ParseDocDoc.

(* ====================================================================================== *)
(* 3. execution                                                                             *)
(* ====================================================================================== *)

(* what a variable that is a single name evaluates to / writes, from the two contexts of the
   frame and its autoescape flag; no fuel, no state *)
Definition var_value (priv pub : list (str * cval)) (n : str) : res value :=
  match (match ctx_get n priv with Some c => Some c | None => ctx_get n pub end) with
  | None => Ok (as_value VNil)
  | Some (CV v) => match vv v with VNil => Ok (as_value VNil) | _ => Ok (mkV (vv v) (vsafe v)) end
  | Some (CMacro _ _) => Fuel     (* not used: excluded by macro_free *)
  | Some (CBlock _ _) => Unmod
  | Some (CCycle _ _ _ _) => Unmod
  end.
Definition var_text (priv pub : list (str * cval)) (auto : bool) (n : str) : res str :=
  do v <- var_value priv pub n;
  match to_string (vv v) with
  | None => Unmod
  | Some s => Ok (if negb (vsafe v) && is_string (vv v) && auto then filter_escape s else s)
  end.

Definition lift_text (st : mstate) (r : res str) : xres :=
  match r with
  | Ok s => xok s st
  | Err k => ([], Err k)
  | Unmod => ([], Unmod)
  | Fuel => ([], Fuel)
  | Panic s => ([], Panic s)
  end.

Lemma macro_free_get : forall m n mc fi, macro_free m = true -> ctx_get n m <> Some (CMacro mc fi).
Proof.
  induction m as [|[k c] m IH]; intros n mc fi H; [discriminate|].
  unfold macro_free in *. cbn [forallb snd] in H. apply andb_true_iff in H. destruct H as [H1 H2].
  cbn [ctx_get]. destruct (str_eqb n k).
  - intros E. injection E as E. subst c. discriminate.
  - exact (IH n mc fi H2).
Qed.

Section ExecVar.
  Variable se : senv.
  Variable globals : list (str * cval).

  Lemma exec_node_S_var : forall f st e,
    exec_node se globals (S f) st (NVar e) =
      match eval se globals f st e with
      | Ok (v, st1) =>
          match top_frame st1 with
          | Ok fr =>
              match to_string (vv v) with
              | None => ([], Unmod)
              | Some s =>
                  if negb (filter_applied [115; 97; 102; 101] e) && negb (vsafe v) && is_string (vv v) && f_auto fr
                  then xok (filter_escape s) st1 else xok s st1
              end
          | other => xfail [] other
          end
      | other => xfail [] other
      end.
  Proof. reflexivity. Qed.

  Lemma eval_S_var : forall f st parts, eval se globals (S f) st (EVar parts) = resolve se globals f st parts.
  Proof. reflexivity. Qed.

  Lemma walk_S_nil : forall f st cur safe, walk se globals (S f) st cur safe [] = Ok (mkV cur safe, st).
  Proof. reflexivity. Qed.

  Lemma resolve_S_name : forall f st name,
    resolve se globals (S f) st [PIdent name None] =
      (do fr <- top_frame st;
       match (match ctx_get name (f_priv fr) with
              | Some c => Some c
              | None => ctx_get name (f_pub fr)
              end) with
       | None => Ok (as_value VNil, st)
       | Some (CV v) =>
           match vv v with
           | VNil => Ok (as_value VNil, st)
           | _ => walk se globals f st (vv v) (vsafe v) []
           end
       | Some (CMacro m fidx) =>
           do '(args, st1) <- eval_list se globals f st [];
           do '(r, st2) <- call_macro se globals f st1 m fidx args;
           walk se globals f st2 (vv r) (vsafe r) []
       | Some (CBlock fidx wrappers) => Unmod
       | Some (CCycle _ _ _ _) => Unmod
       end).
  Proof. reflexivity. Qed.

  (* the value of {{ name }} in a frame without macros: no fuel beyond a constant, state unchanged *)
  Lemma eval_name : forall f st fr n,
    top_frame st = Ok fr -> macro_free (f_priv fr) = true -> macro_free (f_pub fr) = true ->
    eval se globals (4 + f) st (var_expr n) =
    match var_value (f_priv fr) (f_pub fr) n with
    | Ok v => Ok (v, st)
    | Err k => Err k | Unmod => Unmod | Fuel => Fuel | Panic s => Panic s
    end.
  Proof.
    intros f st fr n Hfr Hp Hq. change (4 + f)%nat with (S (S (S (S f)))). unfold var_expr.
    rewrite eval_S_filt, eval_S_var, resolve_S_name, Hfr. cbn [bind]. unfold var_value.
    pose proof (macro_free_get (f_priv fr) n) as Gp. pose proof (macro_free_get (f_pub fr) n) as Gq.
    destruct (ctx_get n (f_priv fr)) as [c|] eqn:Ep.
    - destruct c as [v|m fi|fi wr|a b c d].
      + destruct (vv v) eqn:Ev; cbn [bind]; rewrite ?walk_S_nil; cbn [bind]; rewrite ?apply_chain_S_nil; reflexivity.
      + exfalso. exact (Gp m fi Hp eq_refl).
      + reflexivity.
      + reflexivity.
    - destruct (ctx_get n (f_pub fr)) as [c|] eqn:Eq.
      + destruct c as [v|m fi|fi wr|a b c d].
        * destruct (vv v) eqn:Ev; cbn [bind]; rewrite ?walk_S_nil; cbn [bind]; rewrite ?apply_chain_S_nil; reflexivity.
        * exfalso. exact (Gq m fi Hq eq_refl).
        * reflexivity.
        * reflexivity.
      + cbn [bind]. rewrite apply_chain_S_nil. reflexivity.
  Qed.

  Lemma exec_var_name : forall f st fr n,
    top_frame st = Ok fr -> macro_free (f_priv fr) = true -> macro_free (f_pub fr) = true ->
    exec_node se globals (5 + f) st (NVar (var_expr n)) =
    lift_text st (var_text (f_priv fr) (f_pub fr) (f_auto fr) n).
  Proof.
    intros f st fr n Hfr Hp Hq. change (5 + f)%nat with (S (4 + f)).
    rewrite exec_node_S_var, (eval_name f st fr n Hfr Hp Hq). unfold var_text.
    destruct (var_value (f_priv fr) (f_pub fr) n) as [v|k| | |s]; cbn [bind lift_text xfail]; try reflexivity.
    rewrite Hfr. destruct (to_string (vv v)) as [s|]; [|reflexivity].
    cbn [lift_text]. change (filter_applied [115; 97; 102; 101] (var_expr n)) with false.
    cbn [negb andb].
    destruct (negb (vsafe v) && is_string (vv v) && f_auto fr); reflexivity.
  Qed.
End ExecVar.

Definition with_state (st : mstate) (x : str * res unit) : xres :=
  (fst x, match snd x with
          | Ok _ => Ok st | Err k => Err k | Unmod => Unmod | Fuel => Fuel | Panic s => Panic s
          end).

Lemma strip_text_nil : forall l r, strip_text l r [] = [].
Proof. intros [|] [|]; reflexivity. Qed.

Lemma strip_text_plain : forall s, strip_text false false s = s.
Proof. reflexivity. Qed.

Lemma next_dash_strip : forall (A : Type) pd (d : list (item A)), next_dash (strip_from pd d) = false.
Proof. intros A pd [|[s|x dl dr] d]; reflexivity. Qed.

(* ---------- by-hand deletion leaves the rendering unchanged (pure) ---------- *)
Lemma doc_out_strip : forall vt d pd, doc_out vt pd d = doc_out vt false (strip_from pd d).
Proof.
  intros vt. induction d as [|[s|n dl dr] d IH]; intros pd; [reflexivity| |].
  - cbn [strip_from doc_out]. rewrite next_dash_strip, strip_text_plain, <- (IH false). reflexivity.
  - cbn [strip_from doc_out]. rewrite <- (IH dr). reflexivity.
Qed.

(* ---------- well-formedness survives the deletion ---------- *)
Lemma delim_free_suffix : forall a b, delim_free (a ++ b) = true -> delim_free b = true.
Proof.
  induction a as [|x a IH]; intros b H; [exact H|].
  apply IH. exact (delim_free_tail x (a ++ b) H).
Qed.

Lemma space_refl : forall b, is_tpl_space b = true -> is_tpl_space b = true.
Proof. auto. Qed.

Lemma strip_text_ok : forall (pd dl : bool) s,
  delim_free (s ++ [123]) = true ->
  (if dl then delim_free (drop_trailing is_tpl_space s ++ [123]) else true) = true ->
  delim_free (strip_text pd dl s ++ [123]) = true.
Proof.
  intros pd dl s H1 H2. unfold strip_text.
  destruct dl.
  - destruct pd.
    + rewrite <- (drop_lead_trail_comm is_tpl_space is_tpl_space space_refl).
      destruct (drop_leading_split is_tpl_space (drop_trailing is_tpl_space s)) as [a [E _]].
      rewrite E, <- app_assoc in H2. exact (delim_free_suffix _ _ H2).
    + exact H2.
  - destruct pd; [|exact H1].
    destruct (drop_leading_split is_tpl_space s) as [a [E _]].
    rewrite E, <- app_assoc in H1. exact (delim_free_suffix _ _ H1).
Qed.

Lemma strip_text_ok_last : forall pd s, delim_free s = true -> delim_free (strip_text pd false s) = true.
Proof.
  intros pd s H. unfold strip_text. destruct pd; [|exact H].
  destruct (drop_leading_split is_tpl_space s) as [a [E _]].
  rewrite E in H. exact (delim_free_suffix _ _ H).
Qed.

Lemma doc_ok_strip : forall d pd, doc_ok d = true -> doc_ok (strip_from pd d) = true.
Proof.
  induction d as [|[s|n dl dr] d IH]; intros pd H; [reflexivity| |].
  - cbn [doc_ok] in H. apply andb_true_iff in H. destruct H as [H1 H2].
    cbn [strip_from doc_ok]. rewrite (IH false H2), andb_true_r.
    destruct d as [|[s2|n2 dl2 dr2] d]; [|discriminate|].
    + cbn [strip_from next_dash]. exact (strip_text_ok_last pd s H1).
    + cbn [strip_from next_dash]. rewrite andb_true_r.
      apply andb_true_iff in H1. destruct H1 as [Ha Hb].
      exact (strip_text_ok pd dl2 s Ha Hb).
  - cbn [doc_ok] in H. apply andb_true_iff in H. destruct H as [H1 H2].
    cbn [strip_from doc_ok]. rewrite H1, (IH dr H2). reflexivity.
Qed.

Lemma strip_from_length : forall (A : Type) (d : list (item A)) pd, length (strip_from pd d) = length d.
Proof. induction d as [|[s|x dl dr] d IH]; intros pd; cbn [strip_from length]; [reflexivity| |]; rewrite IH; reflexivity. Qed.

(* ---------- execution of the node list of a document ---------- *)
Section ExecDoc.
  Variable se : senv.
  Variable globals : list (str * cval).
  Hypothesis Hws : ws_table_ok token_space_chars = true.

  Lemma exec_html_plain_flags : forall f st fr owner s tl tr,
    top_frame st = Ok fr ->
    exec_node se globals (S f) st (NHtml owner s tl tr false false) = xok (strip_text tl tr s) st.
  Proof.
    intros f st fr owner s tl tr Hfr.
    rewrite (html_trim_spec_last se globals Hws f st fr owner s tl tr false false Hfr).
    cbv zeta. unfold trim_spec, strip_text. rewrite !andb_false_r. reflexivity.
  Qed.

  Lemma doc_nodes_prev : forall owner pd d, doc_ok (Text [] :: d) = true ->
    doc_nodes owner pd d = doc_nodes owner false d.
  Proof. intros owner pd [|[s|n dl dr] d] H; [reflexivity|discriminate|reflexivity]. Qed.

  Lemma exec_doc : forall owner d pd F st fr,
    doc_ok d = true -> top_frame st = Ok fr ->
    macro_free (f_priv fr) = true -> macro_free (f_pub fr) = true ->
    (length d + 6 <= F)%nat ->
    exec_nodes se globals F st (doc_nodes owner pd d) =
    with_state st (doc_out (var_text (f_priv fr) (f_pub fr) (f_auto fr)) pd d).
  Proof.
    intros owner. induction d as [|i d IH]; intros pd F st fr Hok Hfr Hp Hq HF.
    - destruct F as [|F]; [cbn [length] in HF; lia|]. apply exec_nodes_S_nil.
    - cbn [length] in HF.
      destruct i as [s|n dl dr].
      + assert (Hok' : doc_ok d = true).
        { cbn [doc_ok] in Hok. apply andb_true_iff in Hok. tauto. }
        destruct s as [|b s].
        * cbn [doc_nodes doc_out]. rewrite strip_text_nil.
          rewrite (doc_nodes_prev owner pd d Hok).
          rewrite (IH false F st fr Hok' Hfr Hp Hq) by lia.
          destruct (doc_out (var_text (f_priv fr) (f_pub fr) (f_auto fr)) false d) as [o x]. reflexivity.
        * destruct F as [|[|F]]; [lia|lia|].
          cbn [doc_nodes doc_out]. rewrite exec_nodes_S_cons.
          rewrite (exec_html_plain_flags F st fr owner (b :: s) pd (next_dash d) Hfr).
          unfold xok at 1.
          rewrite (IH false (S F) st fr Hok' Hfr Hp Hq) by lia.
          destruct (doc_out (var_text (f_priv fr) (f_pub fr) (f_auto fr)) false d) as [o x]. reflexivity.
      + assert (Hok' : doc_ok d = true).
        { cbn [doc_ok] in Hok. apply andb_true_iff in Hok. tauto. }
        destruct F as [|F]; [lia|].
        cbn [doc_nodes doc_out]. rewrite exec_nodes_S_cons.
        replace F with (5 + (F - 5))%nat at 1 by lia.
        rewrite (exec_var_name se globals (F - 5) st fr n Hfr Hp Hq).
        destruct (var_text (f_priv fr) (f_pub fr) (f_auto fr) n) as [s|k| | |site]; cbn [lift_text];
          try reflexivity.
        unfold xok at 1.
        rewrite (IH dr F st fr Hok' Hfr Hp Hq) by lia.
        destruct (doc_out (var_text (f_priv fr) (f_pub fr) (f_auto fr)) dr d) as [o x]. reflexivity.
  Qed.
End ExecDoc.

(* ====================================================================================== *)
(* 4. through the API                                                                       *)
(* ====================================================================================== *)

Lemma big_fuel_large : (N.to_nat 59100 <= big_fuel)%nat.
Proof. unfold big_fuel. lia. Qed.

Section Api.
  Variable se : senv.
  Variable globals : list (str * cval).
  Hypothesis Htab : dash_tables_ok = true.
  Hypothesis Hverb : LexB.verb_prefix_check = true.
  Hypothesis Hws : ws_table_ok token_space_chars = true.

  Definition doc_tpl (id : N) (name : str) (isstr : bool) (d : doc) : template :=
    Tpl id name isstr (doc_nodes id false d) [] [] None (se_trim se) (se_lstrip se).

  Lemma compile_doc : forall d F name isstr g,
    doc_ok d = true -> (length d + 2 <= F)%nat ->
    compile_src se (S F) name isstr (doc_src d) g =
    Ok (doc_tpl (g_nid g) name isstr d, mkG (g_nid g + 1) (g_log g)).
  Proof.
    intros d F name isstr g Hok HF.
    rewrite compile_src_S, (lex_doc Htab Hverb d Hok). cbn [g_fresh].
    rewrite (parse_doc_doc se d None false (1, 1)%Z F _ Hok HF eq_refl).
    reflexivity.
  Qed.

  (* the variables of the root frame: what execution looks names up in *)
  Definition root_vt (ctx : list (str * cval)) : str -> res str :=
    var_text (f_priv (root_frame globals dflt_tpl ctx 0)) (ctx_update globals ctx) true.

  Lemma exec_doc_tpl : forall d F id name isstr frames nodes g ctx,
    doc_ok d = true -> (length d + 6 <= F)%nat ->
    keys_ok (ctx_update globals ctx) = true ->
    macro_free (ctx_update globals ctx) = true ->
    exec_template_unbuffered se globals (S F) (mkM frames nodes g) (doc_tpl id name isstr d) ctx =
    with_state (mkM frames nodes (mkG (g_nid g + 1) (g_log g))) (doc_out (root_vt ctx) false d).
  Proof.
    intros d F id name isstr frames nodes g ctx Hok HF Hk Hm.
    rewrite exec_template_unbuffered_S. cbv zeta.
    rewrite keys_ok_model, Hk. cbn [negb].
    unfold doc_tpl at 1. cbn [tpl_exported]. rewrite no_exported_clash.
    cbn [g_fresh ms_g ms_frames ms_nodes].
    change (tpl_chain (doc_tpl id name isstr d)) with [doc_tpl id name isstr d].
    cbn [hd]. unfold doc_tpl at 2. cbn [tpl_root].
    erewrite (exec_doc se globals Hws id d false F _ _ Hok); [|reflexivity|reflexivity|exact Hm|exact HF].
    cbn [f_priv f_pub f_auto root_frame]. unfold root_vt. cbn [f_priv root_frame].
    destruct (doc_out _ false d) as [o x]. unfold with_state. cbn [fst snd].
    destruct x; reflexivity.
  Qed.
End Api.

Definition world_vt (w : world) (ctx : list (str * cval)) : str -> res str :=
  root_vt (w_globals w) ctx.

Lemma render_doc : dash_tables_ok = true -> LexB.verb_prefix_check = true ->
  ws_table_ok token_space_chars = true ->
  forall (w : world) (ctx : list (str * cval)) (d : doc),
  doc_ok d = true -> N.of_nat (length d) <= 59000 ->
  keys_ok (ctx_update (w_globals w) ctx) = true ->
  macro_free (ctx_update (w_globals w) ctx) = true ->
  api_render_string w (doc_src d) ctx = obs_of_out (doc_out (world_vt w ctx) false d).
Proof.
  intros Htab Hverb Hws w ctx d Hok Hlen Hk Hm.
  unfold api_render_string.
  pose proof big_fuel_large as HB.
  assert (HL : (length d <= N.to_nat 59000)%nat) by lia.
  assert (HB2 : (N.to_nat 59000 + 10 <= N.to_nat 59100)%nat) by lia.
  assert (Hf : big_fuel = S (big_fuel - 1)) by lia.
  rewrite Hf at 1.
  rewrite (compile_doc (world_senv w) Htab Hverb d _ _ true g0 Hok) by lia.
  unfold run_template. rewrite Hf at 1.
  rewrite (exec_doc_tpl (world_senv w) (w_globals w) Hws d _ _ _ true [] [] _ ctx Hok) by (try lia; assumption).
  unfold world_vt.
  destruct (doc_out (root_vt (w_globals w) ctx) false d) as [o x].
  unfold with_state, obs_of_out. cbn [fst snd]. destruct x; reflexivity.
Qed.

(* ---------- the marked document and the document stripped by hand ---------- *)
Lemma dash_end_to_end : dash_tables_ok = true -> LexB.verb_prefix_check = true ->
  ws_table_ok token_space_chars = true ->
  forall (w : world) (ctx : list (str * cval)) (d : doc),
  doc_ok d = true -> N.of_nat (length d) <= 59000 ->
  keys_ok (ctx_update (w_globals w) ctx) = true ->
  macro_free (ctx_update (w_globals w) ctx) = true ->
  api_render_string w (doc_src d) ctx = api_render_string w (doc_src (doc_strip d)) ctx.
Proof.
  intros Htab Hverb Hws w ctx d Hok Hlen Hk Hm.
  rewrite (render_doc Htab Hverb Hws w ctx d Hok Hlen Hk Hm).
  unfold doc_strip.
  rewrite (render_doc Htab Hverb Hws w ctx (strip_from false d) (doc_ok_strip d false Hok)); try assumption.
  - rewrite <- doc_out_strip. reflexivity.
  - rewrite strip_from_length. exact Hlen.
Qed.

(* the rendering has the shape [doc_out]: what a variable writes depends on its name only *)
Lemma render_shape : dash_tables_ok = true -> LexB.verb_prefix_check = true ->
  ws_table_ok token_space_chars = true ->
  forall (w : world) (ctx : list (str * cval)),
  keys_ok (ctx_update (w_globals w) ctx) = true ->
  macro_free (ctx_update (w_globals w) ctx) = true ->
  exists vt : str -> res str, forall d : doc,
    doc_ok d = true -> N.of_nat (length d) <= 59000 ->
    api_render_string w (doc_src d) ctx = obs_of_out (doc_out vt false d).
Proof.
  intros Htab Hverb Hws w ctx Hk Hm. exists (world_vt w ctx). intros d Hok Hlen.
  exact (render_doc Htab Hverb Hws w ctx d Hok Hlen Hk Hm).
Qed.

Lemma macro_free_ctx_del : forall k m, macro_free m = true -> macro_free (ctx_del k m) = true.
Proof.
  intros k m. induction m as [|[k' v] m IH]; intros H; [reflexivity|].
  unfold macro_free in *. cbn [forallb snd] in H. apply andb_true_iff in H. destruct H as [H1 H2].
  cbn [ctx_del]. destruct (str_eqb k k'); [exact (IH H2)|].
  cbn [forallb snd]. rewrite H1. exact (IH H2).
Qed.

Lemma macro_free_ctx_update : forall src dst,
  macro_free dst = true -> macro_free src = true -> macro_free (ctx_update dst src) = true.
Proof.
  unfold ctx_update.
  induction src as [|[k v] src IH]; intros dst Hd Hs; [exact Hd|].
  cbn [fold_left fst snd]. unfold macro_free in Hs. cbn [forallb snd] in Hs.
  apply andb_true_iff in Hs. destruct Hs as [Hk Hs].
  apply IH; [|exact Hs].
  unfold ctx_set, macro_free. cbn [forallb snd]. rewrite Hk.
  exact (macro_free_ctx_del k dst Hd).
Qed.

(* ====================================================================================== *)
(* node level: arbitrary expressions, any state, any fuel                                   *)
(* ====================================================================================== *)

Section NodeLevel.
  Variable se : senv.
  Variable globals : list (str * cval).
  Hypothesis Hws : ws_table_ok token_space_chars = true.

  Lemma html_strip_text : forall f st owner s (tl tr : bool) af bf,
    exec_node se globals f st (NHtml owner s tl tr af bf) =
    exec_node se globals f st (NHtml owner (strip_text tl tr s) false false af bf).
  Proof.
    intros f st owner s tl tr af bf. unfold strip_text.
    destruct tl.
    - rewrite (html_dash_left_gen se globals Hws).
      destruct tr; [apply (html_dash_right_gen se globals Hws)|reflexivity].
    - destruct tr; [apply (html_dash_right_gen se globals Hws)|reflexivity].
  Qed.

  Lemma exec_item_nodes_strip : forall owner (d : list (item expr)) (pd : bool) f st,
    exec_nodes se globals f st (item_nodes owner pd d) =
    exec_nodes se globals f st (item_nodes owner false (strip_from pd d)).
  Proof.
    intros owner. induction d as [|[s|e dl dr] d IH]; intros pd f st; [reflexivity| |].
    - destruct f as [|f]; [reflexivity|].
      cbn [strip_from item_nodes]. rewrite !exec_nodes_S_cons, next_dash_strip.
      rewrite (html_strip_text f st owner s pd (next_dash d) false false).
      destruct (exec_node se globals f st (NHtml owner (strip_text pd (next_dash d) s) false false false false))
        as [o1 [st1| | | |]]; try reflexivity.
      rewrite (IH false f st1). reflexivity.
    - destruct f as [|f]; [reflexivity|].
      cbn [strip_from item_nodes]. rewrite !exec_nodes_S_cons.
      destruct (exec_node se globals f st (NVar e)) as [o1 [st1| | | |]]; try reflexivity.
      rewrite (IH dr f st1). reflexivity.
  Qed.
End NodeLevel.

(* ---------- the statements of steps 2 and 2+1 in the form Props/ uses ---------- *)
Lemma parse_doc_top : forall (se : senv) (d : doc) (p : Z * Z) (F : nat) (st : pst),
  doc_ok d = true -> (length d + 2 <= F)%nat ->
  parse_doc se F st (annotate None (doc_toks d p)) = Ok (doc_nodes (t_id (fst st)) false d, st).
Proof. intros se d p F st Hok HF. exact (parse_doc_doc se d None false p F st Hok HF eq_refl). Qed.

Lemma compile_doc_tpl : dash_tables_ok = true -> LexB.verb_prefix_check = true ->
  forall (se : senv) (d : doc) (F : nat) (name : str) (isstr : bool) (g : gstate),
  doc_ok d = true -> (length d + 2 <= F)%nat ->
  compile_src se (S F) name isstr (doc_src d) g =
  Ok (Tpl (g_nid g) name isstr (doc_nodes (g_nid g) false d) [] [] None (se_trim se) (se_lstrip se),
      mkG (g_nid g + 1) (g_log g)).
Proof. intros Htab Hverb se d F name isstr g Hok HF. exact (compile_doc se Htab Hverb d F name isstr g Hok HF). Qed.
