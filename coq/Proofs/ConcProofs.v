(* Facts about the abstract interleaving model (Model/Conc.v): isolated schedules give every
   thread the results of its solo run, have no data race, and leave unwritten locations alone. *)
From PV Require Import Model.Conc.

(* ---------- basic list facts about proj / writes_of / reads_of ---------- *)

Lemma proj_app : forall i s1 s2, proj i (s1 ++ s2) = proj i s1 ++ proj i s2.
Proof. intros i s1 s2. unfold proj. rewrite filter_app, map_app. reflexivity. Qed.

Lemma proj_single : forall i j a, proj i [(j, a)] = if Nat.eqb j i then [a] else [].
Proof. intros i j a. unfold proj. simpl. destruct (Nat.eqb j i); reflexivity. Qed.

Lemma run_sched_snoc : forall h s ta, run_sched h (s ++ [ta]) = sstep (run_sched h s) ta.
Proof. intros h s ta. unfold run_sched. rewrite fold_left_app. reflexivity. Qed.

Lemma run_thread_snoc : forall h t a, run_thread h (t ++ [a]) = step (run_thread h t) a.
Proof. intros h t a. unfold run_thread. rewrite fold_left_app. reflexivity. Qed.

Lemma in_writes_of : forall l f t, In (Wr l f) t -> In l (writes_of t).
Proof.
  intros l f t Hin. unfold writes_of. apply in_flat_map.
  exists (Wr l f). split; [exact Hin | simpl; auto].
Qed.

Lemma in_reads_of : forall l t, In (Rd l) t -> In l (reads_of t).
Proof.
  intros l t Hin. unfold reads_of. apply in_flat_map.
  exists (Rd l). split; [exact Hin | simpl; auto].
Qed.

Lemma in_proj : forall i a s, In (i, a) s -> In a (proj i s).
Proof.
  intros i a s Hin. unfold proj. change a with (snd (i, a)). apply in_map.
  apply filter_In. split; [exact Hin | simpl; apply Nat.eqb_refl].
Qed.

Lemma in_proj_mid : forall i a s1 s2, In a (proj i (s1 ++ (i, a) :: s2)).
Proof. intros i a s1 s2. apply in_proj, in_elt. Qed.

Lemma writes_touches : forall l t, In l (writes_of t) -> In l (touches t).
Proof. intros l t H. unfold touches. apply in_or_app. left; exact H. Qed.

Lemma reads_touches : forall l t, In l (reads_of t) -> In l (touches t).
Proof. intros l t H. unfold touches. apply in_or_app. right; exact H. Qed.

(* ---------- tie_isolated_results ---------- *)

Lemma iso_inv : forall (s : sched) (i : nat) (h : heap), isolated s ->
  forall s' rest, s = s' ++ rest ->
    snd (run_sched h s') i = snd (run_thread h (proj i s')) /\
    (forall l, In l (touches (proj i s)) ->
       fst (run_sched h s') l = fst (run_thread h (proj i s')) l).
Proof.
  intros s i h Hiso s'.
  induction s' as [|[j a] s' IH] using rev_ind; intros rest Hs.
  - split; [reflexivity | intros l _; reflexivity].
  - rewrite <- app_assoc in Hs. simpl in Hs.
    destruct (IH _ Hs) as [IH1 IH2].
    rewrite run_sched_snoc, proj_app, proj_single.
    destruct (run_sched h s') as [hh ls] eqn:E. simpl in IH1, IH2.
    destruct (Nat.eqb_spec j i) as [Heq|Hne].
    + subst j. rewrite run_thread_snoc.
      destruct (run_thread h (proj i s')) as [ht lt] eqn:Et. simpl in IH1, IH2.
      destruct a as [l|l f]; unfold sstep, step, updl; simpl.
      * rewrite Nat.eqb_refl. split.
        -- rewrite IH1. f_equal. apply IH2.
           apply reads_touches, in_reads_of. rewrite Hs. apply in_proj_mid.
        -- exact IH2.
      * rewrite Nat.eqb_refl. split.
        -- exact IH1.
        -- intros l' Hl'. unfold upd. rewrite IH1.
           destruct (l' =? l); [reflexivity | apply IH2; exact Hl'].
    + rewrite app_nil_r.
      destruct (run_thread h (proj i s')) as [ht lt] eqn:Et. simpl in IH1, IH2.
      assert (Hji : Nat.eqb i j = false).
      { apply Nat.eqb_neq. intro Hc. apply Hne. symmetry. exact Hc. }
      destruct a as [l|l f]; unfold sstep, step, updl; simpl.
      * rewrite Hji. split; [exact IH1 | exact IH2].
      * rewrite Hji. split; [exact IH1|].
        intros l' Hl'. unfold upd.
        destruct (N.eqb_spec l' l) as [Hll|Hll].
        -- exfalso. subst l'.
           apply (Hiso j i l Hne); [|exact Hl'].
           apply in_writes_of with (f := f). rewrite Hs. apply in_proj_mid.
        -- apply IH2. exact Hl'.
Qed.

Lemma tie_isolated_results : forall (s : sched) (h : heap) (i : nat),
  isolated s -> snd (run_sched h s) i = snd (run_thread h (proj i s)).
Proof.
  intros s h i Hiso.
  destruct (iso_inv s i h Hiso s [] (eq_sym (app_nil_r s))) as [H1 _]. exact H1.
Qed.

(* ---------- tie_isolated_no_race ---------- *)

Lemma in_proj_mid2 : forall j b s1 x s2, In b (proj j (s1 ++ x :: (j, b) :: s2)).
Proof.
  intros j b s1 x s2. apply in_proj. apply in_or_app. right. right. left. reflexivity.
Qed.

Lemma tie_isolated_no_race : forall s : sched, isolated s -> ~ has_race s.
Proof.
  intros s Hiso (s1 & i & a & j & b & s2 & Hs & Hij & Hc).
  assert (Ha : In a (proj i s)) by (rewrite Hs; apply in_proj_mid).
  assert (Hb : In b (proj j s)) by (rewrite Hs; apply in_proj_mid2).
  assert (Hji : j <> i) by (intro Hx; apply Hij; symmetry; exact Hx).
  destruct a as [l|l f]; destruct b as [l'|l' f']; simpl in Hc.
  - exact Hc.
  - subst l'. apply (Hiso j i l Hji).
    + apply in_writes_of with (f := f'). exact Hb.
    + apply reads_touches, in_reads_of. exact Ha.
  - subst l'. apply (Hiso i j l Hij).
    + apply in_writes_of with (f := f). exact Ha.
    + apply reads_touches, in_reads_of. exact Hb.
  - subst l'. apply (Hiso i j l Hij).
    + apply in_writes_of with (f := f). exact Ha.
    + apply writes_touches, in_writes_of with (f := f'). exact Hb.
Qed.

(* ---------- tie_unwritten_unchanged ---------- *)

Lemma unwritten_inv : forall (s : sched) (h : heap) (l : loc),
  (forall i, ~ In l (writes_of (proj i s))) ->
  forall s' rest, s = s' ++ rest -> fst (run_sched h s') l = h l.
Proof.
  intros s h l Hnw s'.
  induction s' as [|[j a] s' IH] using rev_ind; intros rest Hs.
  - reflexivity.
  - rewrite <- app_assoc in Hs. simpl in Hs.
    specialize (IH _ Hs).
    rewrite run_sched_snoc.
    destruct (run_sched h s') as [hh ls]. simpl in IH.
    destruct a as [l'|l' f]; unfold sstep, step; simpl.
    + exact IH.
    + unfold upd. destruct (N.eqb_spec l l') as [Hll|Hll].
      * exfalso. subst l'. apply (Hnw j).
        apply in_writes_of with (f := f). rewrite Hs. apply in_proj_mid.
      * exact IH.
Qed.

Lemma tie_unwritten_unchanged : forall (s : sched) (h : heap) (l : loc),
  (forall i, ~ In l (writes_of (proj i s))) -> fst (run_sched h s) l = h l.
Proof.
  intros s h l Hnw. apply (unwritten_inv s h l Hnw s []). symmetry. apply app_nil_r.
Qed.

(* ---------- tie_c05_witness ---------- *)

Lemma tie_c05_witness : exists s : sched, isolated s /\ length s = 4%nat /\
  proj 0 s <> [] /\ proj 1 s <> [].
Proof.
  exists [(0%nat, Rd 1); (1%nat, Rd 1);
          (0%nat, Wr 2 (fun _ => 5%Z)); (1%nat, Wr 3 (fun _ => 7%Z))].
  split; [|split; [reflexivity | split; discriminate]].
  intros i j l Hij Hw Ht.
  destruct i as [|[|i]]; simpl in Hw.
  - destruct Hw as [Hw|[]]. subst l.
    destruct j as [|[|j]]; simpl in Ht.
    + apply Hij; reflexivity.
    + destruct Ht as [Ht|[Ht|[]]]; discriminate Ht.
    + exact Ht.
  - destruct Hw as [Hw|[]]. subst l.
    destruct j as [|[|j]]; simpl in Ht.
    + destruct Ht as [Ht|[Ht|[]]]; discriminate Ht.
    + apply Hij; reflexivity.
    + exact Ht.
  - exact Hw.
Qed.
