(* Lexer lemmas for C16 / C06: totality, text identity, token and error positions.
   Everything that depends on the generated tables is proved inside a Section whose
   hypotheses are closed boolean facts about the tables; Tie/C16a.v discharges them by
   computation. *)
From PV Require Import Lib.Bytes Lib.GoInt gen.Tables Model.Lexer Spec.SpecLex.
From Coq Require Import ZifyN ZifyNat ZifyBool.
Open Scope N_scope.

(* ---------- basic list / prefix facts ---------- *)

Lemma str_eqb_eq : forall a b : str, str_eqb a b = true -> a = b.
Proof.
  induction a as [|x a IH]; intros [|y b] H; cbn [str_eqb] in H; try discriminate.
  - reflexivity.
  - apply andb_true_iff in H. destruct H as [Hx Hab].
    apply N.eqb_eq in Hx. subst y. f_equal. apply IH. exact Hab.
Qed.

Lemma is_prefix_app : forall p s : str,
  is_prefix p s = true -> s = p ++ skipn (length p) s.
Proof.
  induction p as [|a p IH]; intros s H.
  - reflexivity.
  - destruct s as [|b s]; cbn [is_prefix] in H; [discriminate|].
    apply andb_true_iff in H. destruct H as [Hab Hp].
    apply N.eqb_eq in Hab. subst b. cbn [length skipn app]. f_equal. apply IH. exact Hp.
Qed.

Lemma span_app : forall p s t r, span p s = (t, r) -> s = t ++ r.
Proof.
  intros p. induction s as [|b s IH]; intros t r H; cbn [span] in H.
  - inversion H. reflexivity.
  - destruct (p b).
    + destruct (span p s) as [t' r'] eqn:E. inversion H. subst t r.
      cbn [app]. f_equal. apply IH. reflexivity.
    + inversion H. reflexivity.
Qed.

Lemma span_all : forall p s t r, span p s = (t, r) -> forallb p t = true.
Proof.
  intros p. induction s as [|b s IH]; intros t r H; cbn [span] in H.
  - inversion H. reflexivity.
  - destruct (p b) eqn:Hb.
    + destruct (span p s) as [t' r'] eqn:E. inversion H. subst t r.
      cbn [forallb]. rewrite Hb. cbn [andb]. eapply IH. reflexivity.
    + inversion H. reflexivity.
Qed.

(* ---------- positions ---------- *)

Definition nonl (s : str) : bool := forallb (fun b => negb (b =? 10)) s.

Lemma nonl_app : forall a b, nonl (a ++ b) = nonl a && nonl b.
Proof. intros a b. unfold nonl. apply forallb_app. Qed.

Lemma nonl_cons : forall x a, nonl (x :: a) = negb (x =? 10) && nonl a.
Proof. reflexivity. Qed.

Lemma advs_app : forall a b p, advs p (a ++ b) = advs (advs p a) b.
Proof. intros a b p. unfold advs. apply fold_left_app. Qed.

Lemma zlen_cons : forall x (s : str), zlen (x :: s) = (zlen s + 1)%Z.
Proof. intros x s. unfold zlen. cbn [length]. lia. Qed.

Lemma zlen_app : forall a b : str, zlen (a ++ b) = (zlen a + zlen b)%Z.
Proof. intros a b. unfold zlen. rewrite app_length. lia. Qed.

Lemma zlen_nil : zlen [] = 0%Z.
Proof. reflexivity. Qed.

Lemma advs_nonl : forall v l c, nonl v = true -> advs (l, c) v = (l, (c + zlen v)%Z).
Proof.
  induction v as [|b v IH]; intros l c H.
  - unfold advs. cbn [fold_left]. rewrite zlen_nil. f_equal. lia.
  - rewrite nonl_cons in H. apply andb_true_iff in H. destruct H as [Hb Hv].
    change (advs (l, c) (b :: v)) with (advs (adv (l, c) b) v).
    unfold adv. apply negb_true_iff in Hb. rewrite Hb. cbn [fst snd].
    rewrite IH by exact Hv. rewrite zlen_cons. f_equal. lia.
Qed.

Lemma firstn_pre : forall (pre tail : str), firstn (length pre) (pre ++ tail) = pre.
Proof.
  intros pre tail. rewrite firstn_app, Nat.sub_diag, firstn_all. cbn [firstn].
  apply app_nil_r.
Qed.

Lemma skipn_pre : forall (pre tail : str), skipn (length pre) (pre ++ tail) = tail.
Proof.
  intros pre tail. rewrite skipn_app, Nat.sub_diag, skipn_all. reflexivity.
Qed.

Lemma tok_at_intro : forall src pre tail t,
  src = pre ++ tail -> advs (1, 1)%Z pre = (tline t, tcol t) -> spelled t tail ->
  tok_at src t.
Proof.
  intros src pre tail t Hsrc Hpos Hsp. exists (length pre). subst src.
  split; [rewrite app_length; lia|].
  split.
  - unfold pos_at. rewrite firstn_pre. exact Hpos.
  - rewrite skipn_pre. exact Hsp.
Qed.

Definition has_pos (src : str) (l c : Z) : Prop :=
  exists off, (off <= length src)%nat /\ pos_at src off = (l, c).

Lemma has_pos_intro : forall src pre tail l c,
  src = pre ++ tail -> advs (1, 1)%Z pre = (l, c) -> has_pos src l c.
Proof.
  intros src pre tail l c Hsrc Hpos. exists (length pre). subst src.
  split; [rewrite app_length; lia|].
  unfold pos_at. rewrite firstn_pre. exact Hpos.
Qed.

(* ---------- strings, comments, symbols ---------- *)

Lemma string_go_spec : forall q rest body n skip content r m,
  string_go q rest body n skip = SDone content r m ->
  exists raw, rest = raw ++ q :: r /\ content = rev body ++ raw /\
              m = (n + zlen raw + 1)%Z /\ nonl raw = true.
Proof.
  intros q. induction rest as [|b rest IH]; intros body n skip content r m H;
    cbn [string_go] in H.
  - destruct skip; discriminate.
  - destruct skip.
    + destruct ((b =? 34) || (b =? 92)) eqn:Hb; [|discriminate].
      apply IH in H. destruct H as (raw & Hr & Hc & Hm & Hn).
      exists (b :: raw). cbn [rev] in Hc. rewrite <- app_assoc in Hc. cbn [app] in Hc.
      repeat split.
      * cbn [app]. f_equal. exact Hr.
      * exact Hc.
      * rewrite zlen_cons. lia.
      * rewrite nonl_cons, Hn.
        apply orb_true_iff in Hb. destruct Hb as [Hb|Hb]; apply N.eqb_eq in Hb; subst b;
          reflexivity.
    + destruct (b =? q) eqn:Hq.
      * apply N.eqb_eq in Hq. subst b. inversion H. subst content r m.
        exists []. cbn [app]. rewrite app_nil_r, zlen_nil. repeat split. lia.
      * assert (Hgen : forall sk, string_go q rest (b :: body) (n + 1) sk = SDone content r m ->
                  (b =? 10) = false ->
                  exists raw, b :: rest = raw ++ q :: r /\ content = rev body ++ raw /\
                              m = (n + zlen raw + 1)%Z /\ nonl raw = true).
        { intros sk Hs Hnl. apply IH in Hs. destruct Hs as (raw & Hr & Hc & Hm & Hn).
          exists (b :: raw). cbn [rev] in Hc. rewrite <- app_assoc in Hc. cbn [app] in Hc.
          repeat split.
          - cbn [app]. f_equal. exact Hr.
          - exact Hc.
          - rewrite zlen_cons. lia.
          - rewrite nonl_cons, Hn, Hnl. reflexivity. }
        destruct (b =? 92) eqn:H92.
        -- apply N.eqb_eq in H92. subst b. eapply Hgen; [exact H|reflexivity].
        -- destruct (b =? 10) eqn:H10; [discriminate|].
           eapply Hgen; [exact H|reflexivity].
Qed.

Lemma comment_go_spec : forall rest c r c',
  comment_go rest c = CDone r c' ->
  exists body, rest = body ++ r /\ nonl body = true /\ c' = (c + zlen body)%Z.
Proof.
  induction rest as [|b rest IH]; intros c r c' H; cbn [comment_go] in H.
  - discriminate.
  - destruct (b =? 10) eqn:H10; [discriminate|].
    destruct (is_prefix s_comment_close (b :: rest)) eqn:Hp.
    + inversion H. subst r c'. apply is_prefix_app in Hp.
      exists s_comment_close. split; [exact Hp|]. split; reflexivity.
    + apply IH in H. destruct H as (body & Hr & Hn & Hc).
      exists (b :: body). split; [cbn [app]; f_equal; exact Hr|].
      split; [rewrite nonl_cons, H10, Hn; reflexivity|].
      rewrite zlen_cons. lia.
Qed.

Lemma find_symbol_some : forall tbl s sym,
  find_symbol tbl s = Some sym -> In sym tbl /\ is_prefix sym s = true.
Proof.
  induction tbl as [|x tbl IH]; intros s sym H; cbn [find_symbol] in H.
  - discriminate.
  - destruct (is_prefix x s) eqn:Hp.
    + inversion H. subst x. split; [left; reflexivity|exact Hp].
    + apply IH in H. destruct H as [Hin Hpre]. split; [right; exact Hin|exact Hpre].
Qed.

Lemma find_symbol_in : forall tbl s sym,
  In sym tbl -> is_prefix sym s = true -> find_symbol tbl s <> None.
Proof.
  induction tbl as [|x tbl IH]; intros s sym Hin Hp; cbn [find_symbol].
  - destruct Hin.
  - destruct (is_prefix x s) eqn:Hx; [discriminate|].
    destruct Hin as [->|Hin]; [congruence|]. eapply IH; eassumption.
Qed.

Lemma existsb_str_in : forall (v : str) tbl, existsb (str_eqb v) tbl = true -> In v tbl.
Proof.
  intros v tbl H. apply existsb_exists in H. destruct H as (x & Hin & Hx).
  apply str_eqb_eq in Hx. subst x. exact Hin.
Qed.

(* ---------- tokens ---------- *)

Lemma flush_html_cons : forall pend sl sc acc, pend <> [] ->
  flush_html pend sl sc acc = mkTok THTML (rev pend) sl sc false :: acc.
Proof. intros [|b pend] sl sc acc H; [congruence|reflexivity]. Qed.

Lemma tok_other : forall src pre v tail ty l c,
  src = pre ++ v ++ tail -> advs (1, 1)%Z pre = (l, c) ->
  ty <> TString -> ty <> TSymbol ->
  tok_at src (mk_token ty v l c).
Proof.
  intros src pre v tail ty l c Hsrc Hpos Hs Hy.
  assert (Hmk : mk_token ty v l c = mkTok ty v l c false)
    by (destruct ty; try reflexivity; congruence).
  rewrite Hmk. eapply tok_at_intro; [exact Hsrc|exact Hpos|].
  apply (sp_other (mkTok ty v l c false) tail); assumption.
Qed.

Lemma classify_ident_cases : forall v, classify_ident v = TKeyword \/ classify_ident v = TIdentifier.
Proof. intros v. unfold classify_ident. destruct (existsb _ _); [left|right]; reflexivity. Qed.

Lemma tok_ident : forall src pre v tail l c,
  src = pre ++ v ++ tail -> advs (1, 1)%Z pre = (l, c) ->
  tok_at src (mk_token (classify_ident v) v l c).
Proof.
  intros src pre v tail l c Hsrc Hpos.
  eapply tok_other; [exact Hsrc|exact Hpos| |];
    destruct (classify_ident_cases v) as [E|E]; rewrite E; discriminate.
Qed.

Lemma tok_string : forall src pre q raw tail l c,
  src = pre ++ (q :: raw ++ [q]) ++ tail -> advs (1, 1)%Z pre = (l, c) ->
  (q = 34 \/ q = 39) ->
  tok_at src (mk_token TString raw l c).
Proof.
  intros src pre q raw tail l c Hsrc Hpos Hq.
  eapply tok_at_intro; [exact Hsrc|exact Hpos|].
  cbn [app]. rewrite <- app_assoc. cbn [app].
  apply sp_string; [reflexivity|exact Hq|reflexivity].
Qed.

Lemma sym_spelling_pos : forall sym l c,
  sym_spelling (mk_token TSymbol sym l c) = sym_spelling (mk_token TSymbol sym 0 0).
Proof.
  intros sym l c. unfold mk_token. destruct (is_trim_symbol sym); reflexivity.
Qed.

Lemma mk_symbol_fields : forall sym l c,
  ttyp (mk_token TSymbol sym l c) = TSymbol /\
  tline (mk_token TSymbol sym l c) = l /\ tcol (mk_token TSymbol sym l c) = c.
Proof.
  intros sym l c. unfold mk_token. destruct (is_trim_symbol sym); repeat split.
Qed.

Lemma tok_symbol : forall src pre sym tail l c,
  src = pre ++ sym ++ tail -> advs (1, 1)%Z pre = (l, c) ->
  sym_spelling (mk_token TSymbol sym 0 0) = sym ->
  tok_at src (mk_token TSymbol sym l c).
Proof.
  intros src pre sym tail l c Hsrc Hpos Hsp.
  destruct (mk_symbol_fields sym l c) as (Ht & Hl & Hc).
  eapply tok_at_intro; [exact Hsrc|rewrite Hl, Hc; exact Hpos|].
  rewrite <- Hsp at 2. rewrite <- (sym_spelling_pos sym l c).
  apply sp_symbol. exact Ht.
Qed.

(* ---------- side conditions on the tables ---------- *)

(* every symbol is non-empty, contains no newline, and is recovered from its token by
   putting the dash of a trimming delimiter back; both opening delimiters are symbols *)
Definition symbols_ok (tbl : list str) : bool :=
  forallb (fun sym => negb (Nat.eqb (length sym) 0)) tbl &&
  forallb nonl tbl &&
  forallb (fun sym => str_eqb (sym_spelling (mk_token TSymbol sym 0 0)) sym) tbl &&
  existsb (str_eqb s_var_open) tbl && existsb (str_eqb s_tag_open) tbl.

(* a newline is neither an identifier character nor a digit *)
Definition classes_ok (ident identdig digits : str) : bool :=
  negb (in_set ident 10) && negb (in_set identdig 10) && negb (in_set digits 10).

Lemma in_set_nonl : forall set b, in_set set 10 = false -> in_set set b = true -> (b =? 10) = false.
Proof.
  intros set b H10 Hb. destruct (N.eqb_spec b 10) as [->|Hne]; [congruence|reflexivity].
Qed.

Lemma span_nonl : forall set s t r,
  in_set set 10 = false -> span (in_set set) s = (t, r) -> nonl t = true.
Proof.
  intros set s t r H10 Hsp. apply span_all in Hsp. unfold nonl.
  apply forallb_forall. intros x Hx.
  rewrite forallb_forall in Hsp. specialize (Hsp x Hx).
  rewrite (in_set_nonl set x H10 Hsp). reflexivity.
Qed.

Section Lexer.

Hypothesis Hsymbols : symbols_ok token_symbols = true.
Hypothesis Hclasses : classes_ok token_ident_chars token_ident_chars_digits token_digits = true.

Lemma ident_no_nl : in_set token_ident_chars 10 = false.
Proof.
  unfold classes_ok in Hclasses. rewrite !andb_true_iff, !negb_true_iff in Hclasses. tauto.
Qed.
Lemma identdig_no_nl : in_set token_ident_chars_digits 10 = false.
Proof.
  unfold classes_ok in Hclasses. rewrite !andb_true_iff, !negb_true_iff in Hclasses. tauto.
Qed.
Lemma digits_no_nl : in_set token_digits 10 = false.
Proof.
  unfold classes_ok in Hclasses. rewrite !andb_true_iff, !negb_true_iff in Hclasses. tauto.
Qed.

Lemma symbol_facts : forall sym, In sym token_symbols ->
  sym <> [] /\ nonl sym = true /\ sym_spelling (mk_token TSymbol sym 0 0) = sym.
Proof.
  intros sym Hin. unfold symbols_ok in Hsymbols.
  rewrite !andb_true_iff in Hsymbols.
  destruct Hsymbols as [[[[Hne Hnl] Hsp] _] _].
  rewrite forallb_forall in Hne, Hnl, Hsp.
  specialize (Hne sym Hin). specialize (Hnl sym Hin). specialize (Hsp sym Hin).
  split; [|split].
  - intros ->. discriminate.
  - exact Hnl.
  - apply str_eqb_eq. exact Hsp.
Qed.

Lemma open_symbols : In s_var_open token_symbols /\ In s_tag_open token_symbols.
Proof.
  unfold symbols_ok in Hsymbols. rewrite !andb_true_iff in Hsymbols.
  destruct Hsymbols as [[_ Hv] Ht]. split; apply existsb_str_in; assumption.
Qed.

(* ---------- the tag state ---------- *)

Definition code_post (src rest : str) (l : Z) (f : nat) (res : code_res) : Prop :=
  match res with
  | CodeOk r c' acc' =>
      (exists pre', src = pre' ++ r /\ advs (1, 1)%Z pre' = (l, c')) /\
      Forall (tok_at src) acc' /\
      (length r <= length rest)%nat /\
      (rest <> [] -> find_symbol token_symbols rest <> None -> (length r < length rest)%nat)
  | CodeErr (LexErr el ec _) _ => has_pos src el ec
  | CodeFuel => (f <= length rest)%nat
  end.

Definition code_inv (f : nat) : Prop :=
  forall src pre rest l c acc,
    src = pre ++ rest -> advs (1, 1)%Z pre = (l, c) -> Forall (tok_at src) acc ->
    code_post src rest l f (code_go f rest l c acc).

Lemma code_post_weaken : forall src r rest l f res,
  code_post src r l f res -> (length r < length rest)%nat ->
  code_post src rest l (S f) res.
Proof.
  intros src r rest l f res H Hlen. destruct res as [r' c' acc'|e acc'|]; cbn [code_post] in *.
  - destruct H as (Hpre & Hall & Hle & _). repeat split; try assumption; intros; lia.
  - exact H.
  - lia.
Qed.

Lemma code_rec : forall f, code_inv f ->
  forall src pre v r l c acc,
    src = pre ++ v ++ r -> advs (1, 1)%Z pre = (l, c) -> nonl v = true -> v <> [] ->
    Forall (tok_at src) acc ->
    code_post src (v ++ r) l (S f) (code_go f r l (c + zlen v)%Z acc).
Proof.
  intros f IH src pre v r l c acc Hsrc Hpos Hnl Hne Hacc.
  eapply code_post_weaken.
  - apply (IH src (pre ++ v)).
    + rewrite <- app_assoc. exact Hsrc.
    + rewrite advs_app, Hpos. apply advs_nonl. exact Hnl.
    + exact Hacc.
  - rewrite app_length. destruct v; [congruence|cbn [length]; lia].
Qed.

Lemma code_go_inv : forall f, code_inv f.
Proof.
  induction f as [|f IH]; intros src pre rest l c acc Hsrc Hpos Hacc.
  - cbn. lia.
  - destruct rest as [|b rest'].
    { cbn [code_go code_post]. split; [exists pre; split; assumption|].
      split; [exact Hacc|]. split; [lia|]. intros Hne. congruence. }
    cbn [code_go].
    destruct (in_set token_space_chars b) eqn:Hspace.
    { destruct (b =? 10) eqn:H10.
      - cbn [code_post]. eapply has_pos_intro; eassumption.
      - replace (c + 1)%Z with (c + zlen [b])%Z by reflexivity.
        apply (code_rec f IH src pre [b] rest' l c acc); try assumption.
        + unfold nonl. cbn [forallb]. rewrite H10. reflexivity.
        + discriminate. }
    destruct (in_set token_ident_chars b) eqn:Hident.
    { destruct (span (in_set token_ident_chars) rest') as [t1 r1] eqn:E1.
      destruct (span (in_set token_ident_chars_digits) r1) as [t2 r2] eqn:E2.
      pose proof (span_app _ _ _ _ E1) as A1. pose proof (span_app _ _ _ _ E2) as A2.
      pose proof (span_nonl _ _ _ _ ident_no_nl E1) as N1.
      pose proof (span_nonl _ _ _ _ identdig_no_nl E2) as N2.
      assert (Hrest : b :: rest' = (b :: t1 ++ t2) ++ r2).
      { subst rest' r1. cbn [app]. rewrite <- app_assoc. reflexivity. }
      rewrite Hrest in *.
      apply (code_rec f IH src pre); try assumption.
      - rewrite nonl_cons, nonl_app, N1, N2, (in_set_nonl _ _ ident_no_nl Hident). reflexivity.
      - discriminate.
      - constructor; [|exact Hacc]. eapply tok_ident; eassumption. }
    destruct (in_set token_digits b) eqn:Hdigit.
    { destruct (span (in_set token_digits) rest') as [t1 r1] eqn:E1.
      pose proof (span_app _ _ _ _ E1) as A1.
      pose proof (span_nonl _ _ _ _ digits_no_nl E1) as N1.
      pose proof (in_set_nonl _ _ digits_no_nl Hdigit) as Nb.
      assert (Hnum : code_post src (b :: rest') l (S f)
                (code_go f r1 l (c + zlen (b :: t1))%Z (mk_token TNumber (b :: t1) l c :: acc))).
      { assert (Hrest : b :: rest' = (b :: t1) ++ r1) by (subst rest'; reflexivity).
        rewrite Hrest in *.
        apply (code_rec f IH src pre); try assumption.
        - rewrite nonl_cons, N1, Nb. reflexivity.
        - discriminate.
        - constructor; [|exact Hacc].
          eapply tok_other; [exact Hsrc|exact Hpos|discriminate|discriminate]. }
      destruct r1 as [|d r1']; [exact Hnum|].
      destruct (in_set token_ident_chars_digits d) eqn:Hd; [|exact Hnum].
      clear Hnum.
      destruct (span (in_set token_ident_chars) r1') as [t2 r2] eqn:E2.
      destruct (span (in_set token_ident_chars_digits) r2) as [t3 r3] eqn:E3.
      pose proof (span_app _ _ _ _ E2) as A2. pose proof (span_app _ _ _ _ E3) as A3.
      pose proof (span_nonl _ _ _ _ ident_no_nl E2) as N2.
      pose proof (span_nonl _ _ _ _ identdig_no_nl E3) as N3.
      assert (Hrest : b :: rest' = (b :: t1 ++ d :: t2 ++ t3) ++ r3).
      { subst rest' r1' r2. cbn [app]. rewrite <- !app_assoc. cbn [app].
        rewrite <- app_assoc. reflexivity. }
      rewrite Hrest in *.
      apply (code_rec f IH src pre); try assumption.
      - rewrite nonl_cons, nonl_app, nonl_cons, nonl_app, N1, N2, N3, Nb,
          (in_set_nonl _ _ identdig_no_nl Hd). reflexivity.
      - discriminate.
      - constructor; [|exact Hacc]. eapply tok_ident; eassumption. }
    destruct ((b =? 34) || (b =? 39)) eqn:Hquote.
    { assert (Hq : b = 34 \/ b = 39).
      { apply orb_true_iff in Hquote. destruct Hquote as [H|H]; apply N.eqb_eq in H; tauto. }
      destruct (string_go b rest' [] 0 false) as [content r n|m] eqn:Es.
      - apply string_go_spec in Es. destruct Es as (raw & Hr & Hc & Hn & Hnl).
        cbn [rev app] in Hc. subst content.
        assert (Hrest : b :: rest' = (b :: raw ++ [b]) ++ r).
        { subst rest'. cbn [app]. rewrite <- app_assoc. reflexivity. }
        replace (c + 1 + n)%Z with (c + zlen (b :: raw ++ [b]))%Z
          by (rewrite zlen_cons, zlen_app, zlen_cons, zlen_nil; lia).
        rewrite Hrest in *.
        apply (code_rec f IH src pre); try assumption.
        + rewrite nonl_cons, nonl_app, Hnl.
          destruct Hq as [-> | ->]; reflexivity.
        + discriminate.
        + constructor; [|exact Hacc]. eapply tok_string; eassumption.
      - cbn [code_post]. eapply has_pos_intro; eassumption. }
    remember (b :: rest') as rest eqn:Erest.
    destruct (find_symbol token_symbols rest) as [sym|] eqn:Hfs.
    2:{ cbn [code_post]. split; [exists pre; split; assumption|].
        split; [exact Hacc|]. split; [lia|]. intros _ Hc. congruence. }
    apply find_symbol_some in Hfs. destruct Hfs as [Hin Hpre].
    destruct (symbol_facts sym Hin) as (Hne & Hnl & Hsp).
    apply is_prefix_app in Hpre.
    set (r := skipn (length sym) rest) in *. clearbody r.
    assert (Htok : tok_at src (mk_token TSymbol sym l c)).
    { eapply tok_symbol; [rewrite Hsrc, Hpre; reflexivity|exact Hpos|exact Hsp]. }
    destruct (is_closer sym).
    + cbn [code_post]. split.
      { exists (pre ++ sym). split.
        - rewrite <- app_assoc, Hsrc, Hpre. reflexivity.
        - rewrite advs_app, Hpos. apply advs_nonl. exact Hnl. }
      split; [constructor; assumption|].
      assert (Hlen : (length r < length rest)%nat).
      { rewrite Hpre, app_length. destruct sym; [congruence|cbn [length]; lia]. }
      split; [lia|]. intros _ _. exact Hlen.
    + rewrite Hpre at 1.
      apply (code_rec f IH src pre); try assumption.
      * rewrite Hsrc, Hpre. reflexivity.
      * constructor; assumption.
Qed.

(* ---------- the run loop ---------- *)

Definition step_char (f : nat) (verb : bool) (rest pend : str) (sl sc l c : Z)
    (acc : list token) : lexres :=
  match rest with
  | [] =>
      let acc' := flush_html pend sl sc acc in
      if verb then
        (match pend with
         | [] => LexFail (LexErr sl sc 7)
         | _ => LexFail (LexErr l c 7)
         end)
      else LexOk (rev acc')
  | b :: rest' =>
      if b =? 10 then run f verb rest' (b :: pend) sl sc (l + 1) 1 acc
      else run f verb rest' (b :: pend) sl sc l (c + 1) acc
  end.

Lemma run_S : forall f verb rest pend sl sc l c acc,
  run (S f) verb rest pend sl sc l c acc =
  if verb then
    if is_prefix s_verbatim_end rest then
      let acc' := flush_html pend sl sc acc in
      let w := zlen s_verbatim_end in
      run f false (skipn (length s_verbatim_end) rest) [] l (c + w) l (c + w) acc'
    else step_char f verb rest pend sl sc l c acc
  else if is_prefix s_verbatim_start rest then
    let acc' := flush_html pend sl sc acc in
    let w := zlen s_verbatim_start in
    run f true (skipn (length s_verbatim_start) rest) [] l (c + w) l (c + w) acc'
  else if is_prefix s_comment_open rest then
    let acc' := flush_html pend sl sc acc in
    let '(el, ec) := match pend with [] => (sl, sc) | _ => (l, c) end in
    match comment_go (skipn 2 rest) (c + 2) with
    | CEof => LexFail (LexErr el ec 1)
    | CNewline => LexFail (LexErr el ec 2)
    | CDone r c' => run f false r [] l c' l c' acc'
    end
  else if is_prefix s_var_open rest || is_prefix s_tag_open rest then
    let acc' := flush_html pend sl sc acc in
    match code_go (length rest + 1) rest l c acc' with
    | CodeFuel => LexFuel
    | CodeErr e _ => LexFail e
    | CodeOk r c' acc'' => run f false r [] l c' l c' acc''
    end
  else step_char f verb rest pend sl sc l c acc.
Proof. intros. reflexivity. Qed.

Definition run_post (src : str) (res : lexres) : Prop :=
  match res with
  | LexOk toks => Forall (tok_at src) toks
  | LexFail (LexErr l c _) => has_pos src l c
  | LexFuel => False
  end.

(* the suffix-style state describes a position in [src]: [pre0] is the text before the
   pending bytes *)
Record run_state (src pre0 rest pend : str) (sl sc l c : Z) (acc : list token) : Prop := {
  rs_src : src = (pre0 ++ rev pend) ++ rest;
  rs_start : advs (1, 1)%Z pre0 = (sl, sc);
  rs_pos : advs (1, 1)%Z (pre0 ++ rev pend) = (l, c);
  rs_acc : Forall (tok_at src) acc
}.

Lemma flush_ok : forall src pre0 rest pend sl sc l c acc,
  run_state src pre0 rest pend sl sc l c acc ->
  Forall (tok_at src) (flush_html pend sl sc acc).
Proof.
  intros src pre0 rest pend sl sc l c acc [Hsrc Hst Hpos Hacc].
  destruct pend as [|b pend]; [exact Hacc|].
  rewrite flush_html_cons by discriminate.
  constructor; [|exact Hacc].
  eapply tok_at_intro.
  - rewrite <- app_assoc in Hsrc. exact Hsrc.
  - exact Hst.
  - apply (sp_other (mkTok THTML (rev (b :: pend)) sl sc false) rest); discriminate.
Qed.

(* restart after a construct [v] without newline: nothing pending, start = pos *)
Lemma restart_state : forall src pre0 rest pend sl sc l c acc v r acc',
  run_state src pre0 rest pend sl sc l c acc ->
  rest = v ++ r -> nonl v = true -> Forall (tok_at src) acc' ->
  run_state src ((pre0 ++ rev pend) ++ v) r [] l (c + zlen v) l (c + zlen v) acc'.
Proof.
  intros src pre0 rest pend sl sc l c acc v r acc' [Hsrc Hst Hpos Hacc] Hrest Hnl Hacc'.
  assert (Hp : advs (1, 1)%Z ((pre0 ++ rev pend) ++ v) = (l, (c + zlen v)%Z)).
  { rewrite advs_app, Hpos. apply advs_nonl. exact Hnl. }
  constructor.
  - cbn [rev]. rewrite app_nil_r, <- app_assoc, <- Hrest. exact Hsrc.
  - exact Hp.
  - cbn [rev]. rewrite app_nil_r. exact Hp.
  - exact Hacc'.
Qed.

Lemma pos_of_state : forall src pre0 rest pend sl sc l c acc,
  run_state src pre0 rest pend sl sc l c acc -> has_pos src l c /\ has_pos src sl sc.
Proof.
  intros src pre0 rest pend sl sc l c acc [Hsrc Hst Hpos Hacc]. split.
  - eapply has_pos_intro; eassumption.
  - rewrite <- app_assoc in Hsrc. eapply has_pos_intro; eassumption.
Qed.

Definition run_inv (f : nat) : Prop :=
  forall src pre0 verb rest pend sl sc l c acc,
    (length rest < f)%nat -> run_state src pre0 rest pend sl sc l c acc ->
    run_post src (run f verb rest pend sl sc l c acc).

Lemma push_state : forall src pre0 b rest' pend sl sc l c acc,
  run_state src pre0 (b :: rest') pend sl sc l c acc ->
  run_state src pre0 rest' (b :: pend) sl sc
            (fst (adv (l, c) b)) (snd (adv (l, c) b)) acc.
Proof.
  intros src pre0 b rest' pend sl sc l c acc [Hsrc Hst Hpos Hacc].
  constructor.
  - cbn [rev]. rewrite Hsrc, <- !app_assoc. reflexivity.
  - exact Hst.
  - cbn [rev]. rewrite app_assoc, advs_app, Hpos. unfold advs. cbn [fold_left].
    destruct (adv (l, c) b); reflexivity.
  - exact Hacc.
Qed.

Lemma step_char_inv : forall f, run_inv f ->
  forall src pre0 verb rest pend sl sc l c acc,
    (length rest < S f)%nat -> run_state src pre0 rest pend sl sc l c acc ->
    run_post src (step_char f verb rest pend sl sc l c acc).
Proof.
  intros f IH src pre0 verb rest pend sl sc l c acc Hlen Hst.
  destruct rest as [|b rest']; cbn [step_char].
  - destruct verb.
    + destruct (pos_of_state _ _ _ _ _ _ _ _ _ Hst) as [Hp Hs].
      destruct pend; cbn [run_post]; assumption.
    + cbn [run_post]. apply Forall_rev. eapply flush_ok. exact Hst.
  - apply push_state in Hst. unfold adv in Hst. cbn [fst snd] in Hst. cbn [length] in Hlen.
    destruct (b =? 10); cbn [fst snd] in Hst; (eapply IH; [lia|exact Hst]).
Qed.

Lemma run_inv_all : forall f, run_inv f.
Proof.
  induction f as [|f IH]; intros src pre0 verb rest pend sl sc l c acc Hlen Hst.
  - lia.
  - rewrite run_S.
    pose proof (flush_ok _ _ _ _ _ _ _ _ _ Hst) as Hflush.
    destruct verb.
    { destruct (is_prefix s_verbatim_end rest) eqn:Hve.
      - apply is_prefix_app in Hve. cbv zeta.
        set (r := skipn (length s_verbatim_end) rest) in *.
        eapply IH.
        + rewrite Hve, app_length in Hlen.
          change (length s_verbatim_end) with 17%nat in Hlen. lia.
        + eapply restart_state; [exact Hst|exact Hve|reflexivity|exact Hflush].
      - eapply step_char_inv; eassumption. }
    destruct (is_prefix s_verbatim_start rest) eqn:Hvs.
    { apply is_prefix_app in Hvs. cbv zeta.
      set (r := skipn (length s_verbatim_start) rest) in *.
      eapply IH.
      - rewrite Hvs, app_length in Hlen.
        change (length s_verbatim_start) with 14%nat in Hlen. lia.
      - eapply restart_state; [exact Hst|exact Hvs|reflexivity|exact Hflush]. }
    destruct (is_prefix s_comment_open rest) eqn:Hco.
    { apply is_prefix_app in Hco. cbv zeta.
      destruct (pos_of_state _ _ _ _ _ _ _ _ _ Hst) as [Hp Hs].
      assert (He : forall m, run_post src
                (let '(el, ec) := match pend with [] => (sl, sc) | _ => (l, c) end in
                 LexFail (LexErr el ec m))).
      { intros m. destruct pend; cbn [run_post]; assumption. }
      set (r2 := skipn 2 rest) in *.
      change (length s_comment_open) with 2%nat in Hco. fold r2 in Hco.
      destruct (comment_go r2 (c + 2)) as [r c'| |] eqn:Ecg.
      - apply comment_go_spec in Ecg. destruct Ecg as (body & Hr & Hnl & Hc').
        assert (Hgoal : run_post src (run f false r [] l c' l c' (flush_html pend sl sc acc))).
        { replace c' with (c + zlen (s_comment_open ++ body))%Z
            by (rewrite zlen_app; change (zlen s_comment_open) with 2%Z; lia).
          eapply IH.
          - rewrite Hco, Hr, !app_length in Hlen.
            change (length s_comment_open) with 2%nat in Hlen. lia.
          - eapply restart_state; [exact Hst| |
              rewrite nonl_app, Hnl; reflexivity|exact Hflush].
            rewrite Hco, Hr, <- app_assoc. reflexivity. }
        destruct pend; exact Hgoal.
      - specialize (He 1). destruct pend; exact He.
      - specialize (He 2). destruct pend; exact He. }
    destruct (is_prefix s_var_open rest || is_prefix s_tag_open rest) eqn:Hop.
    { cbv zeta.
      assert (Hfs : find_symbol token_symbols rest <> None).
      { destruct open_symbols as [Hv Ht]. apply orb_true_iff in Hop.
        destruct Hop as [Hop|Hop].
        - exact (find_symbol_in _ _ _ Hv Hop).
        - exact (find_symbol_in _ _ _ Ht Hop). }
      assert (Hne : rest <> []).
      { intros ->. cbn in Hop. discriminate. }
      destruct Hst as [Hsrc Hstart Hpos Hacc].
      pose proof (code_go_inv (length rest + 1) src (pre0 ++ rev pend) rest l c
                    (flush_html pend sl sc acc) Hsrc Hpos Hflush) as Hcode.
      destruct (code_go (length rest + 1) rest l c (flush_html pend sl sc acc))
        as [r c' acc''|[el ec m] acc''|]; cbn [code_post] in Hcode.
      - destruct Hcode as ((pre' & Hsrc' & Hpos') & Hacc'' & Hle & Hlt).
        specialize (Hlt Hne Hfs).
        eapply (IH src pre'); [lia|].
        constructor; cbn [rev]; rewrite ?app_nil_r; assumption.
      - cbn [run_post]. exact Hcode.
      - lia. }
    eapply step_char_inv; eassumption.
Qed.

(* ---------- the three statements that need the table facts ---------- *)

Lemma init_state : forall src, run_state src [] src [] 1 1 1 1 [].
Proof. intros src. constructor; try reflexivity. constructor. Qed.

Lemma lex_post : forall src, run_post src (lex src).
Proof.
  intros src. unfold lex, lex_fuel. eapply run_inv_all.
  - lia.
  - apply init_state.
Qed.

Lemma lex_total_g : forall src : str, lex src <> LexFuel.
Proof.
  intros src H. pose proof (lex_post src) as P. rewrite H in P. exact P.
Qed.

Lemma lex_positions_g : forall (src : str) (toks : list token),
  lex src = LexOk toks -> Forall (tok_at src) toks.
Proof.
  intros src toks H. pose proof (lex_post src) as P. rewrite H in P. exact P.
Qed.

Lemma lex_error_position_g : forall (src : str) (l c : Z) (m : N),
  lex src = LexFail (LexErr l c m) ->
  exists off, (off <= length src)%nat /\ pos_at src off = (l, c).
Proof.
  intros src l c m H. pose proof (lex_post src) as P. rewrite H in P. exact P.
Qed.

End Lexer.

(* ---------- literal text (no table involved) ---------- *)

Lemma delim_free_no_open : forall s p,
  delim_free s = true ->
  (exists t, p = 123 :: 123 :: t) \/ (exists t, p = 123 :: 37 :: t) \/
  (exists t, p = 123 :: 35 :: t) ->
  is_prefix p s = false.
Proof.
  intros s p Hdf Hp. destruct (is_prefix p s) eqn:E; [|reflexivity].
  apply is_prefix_app in E. set (r := skipn (length p) s) in *. clearbody r.
  subst s. exfalso.
  destruct Hp as [[t ->]|[[t ->]|[t ->]]]; cbn in Hdf; discriminate.
Qed.

Lemma delim_free_tail : forall b s, delim_free (b :: s) = true -> delim_free s = true.
Proof.
  intros b s H. cbn [delim_free] in H. apply andb_true_iff in H. tauto.
Qed.

Lemma run_text : forall s k pend sl sc l c acc,
  delim_free s = true ->
  run (length s + S k) false s pend sl sc l c acc =
  LexOk (rev (flush_html (rev s ++ pend) sl sc acc)).
Proof.
  induction s as [|b s IH]; intros k pend sl sc l c acc Hdf.
  - reflexivity.
  - cbn [length Nat.add]. rewrite run_S.
    rewrite (delim_free_no_open _ s_verbatim_start Hdf)
      by (right; left; eexists; reflexivity).
    rewrite (delim_free_no_open _ s_comment_open Hdf)
      by (right; right; eexists; reflexivity).
    rewrite (delim_free_no_open _ s_var_open Hdf)
      by (left; eexists; reflexivity).
    rewrite (delim_free_no_open _ s_tag_open Hdf)
      by (right; left; eexists; reflexivity).
    cbn [orb step_char].
    apply delim_free_tail in Hdf.
    cbn [rev]. rewrite <- app_assoc. cbn [app].
    destruct (b =? 10); apply IH; exact Hdf.
Qed.

Lemma lex_text_identity_g : forall s : str,
  delim_free s = true -> lex s = LexOk (html_tokens s (1, 1)%Z).
Proof.
  intros s Hdf. unfold lex, lex_fuel. rewrite (run_text s 1) by exact Hdf.
  rewrite app_nil_r. f_equal.
  destruct s as [|b s]; [reflexivity|].
  rewrite flush_html_cons.
  - rewrite rev_involutive. reflexivity.
  - cbn [rev]. intros H. apply app_eq_nil in H. destruct H as [_ H]. discriminate.
Qed.
