(* Proofs for the properties about how templates compose and how literal text is laid out:
   C10 (inheritance), C11 (loaders, include) and C15 (whitespace control).
   The big mutual fixpoints of Model/Exec.v and Model/ParseDoc.v are never simplified: every
   case that is needed is first stated as a one-step unfolding equation proved by conversion. *)
From PV Require Import Model.Exec Spec.SpecInherit Spec.SpecLoaders Spec.SpecTrim.
From PV Require Import gen.Tables.
Open Scope N_scope.
Arguments fsloader_abs : simpl never.
Arguments path_clean : simpl never.

(* ================= common ================= *)
Lemma bind_ok_inv : forall A B (r : res A) (k : A -> res B) b,
  bind r k = Ok b -> exists a, r = Ok a /\ k a = Ok b.
Proof. intros A B [a| | | |] k b H; try discriminate H. exists a; split; [reflexivity|exact H]. Qed.

Lemma cstr_eqb_refl : forall a, str_eqb a a = true.
Proof. induction a as [|x a IH]; cbn; [reflexivity|]. rewrite N.eqb_refl, IH. reflexivity. Qed.
Lemma cstr_eqb_eq : forall a b, str_eqb a b = true -> a = b.
Proof.
  induction a as [|x a IH]; intros [|y b] H; cbn in H; try discriminate; [reflexivity|].
  apply andb_true_iff in H. destruct H as [H1 H2]. apply N.eqb_eq in H1. f_equal; auto.
Qed.
Lemma cstr_eqb_spec : forall a b, reflect (a = b) (str_eqb a b).
Proof.
  intros a b. destruct (str_eqb a b) eqn:E; constructor.
  - apply cstr_eqb_eq, E.
  - intros ->. rewrite cstr_eqb_refl in E. discriminate.
Qed.

Lemma ctx_get_set_same : forall k v m, ctx_get k (ctx_set k v m) = Some v.
Proof. intros k v m. unfold ctx_set. cbn [ctx_get]. rewrite cstr_eqb_refl. reflexivity. Qed.

(* ================= C10: inheritance ================= *)

(* ---- the chain ---- *)
Lemma chain_of_nonempty : forall t, chain_of t <> [].
Proof. intros [i n s r b e [p|] tb ls]; cbn; [destruct (chain_of p)|]; discriminate. Qed.
Lemma chain_of_last : forall t, exists pre, chain_of t = pre ++ [t].
Proof. intros [i n s r b e [p|] tb ls]; cbn; [exists (chain_of p)|exists []]; reflexivity. Qed.
Lemma chain_of_child : forall t p, tpl_parent t = Some p -> chain_of t = chain_of p ++ [t].
Proof. intros [i n s r b e [q|] tb ls] p H; cbn in H; [injection H as ->; reflexivity|discriminate]. Qed.
Lemma chain_of_base : forall t, tpl_parent t = None -> chain_of t = [t].
Proof. intros [i n s r b e [q|] tb ls] H; cbn in H; [discriminate|reflexivity]. Qed.
Lemma root_of_child : forall t p, tpl_parent t = Some p -> root_of t = root_of p.
Proof. intros [i n s r b e [q|] tb ls] p H; cbn in H; [injection H as ->; reflexivity|discriminate]. Qed.
Lemma root_of_base : forall t, tpl_parent t = None -> root_of t = t.
Proof. intros [i n s r b e [q|] tb ls] H; cbn in H; [discriminate|reflexivity]. Qed.

Lemma template_parent_ind : forall P : template -> Prop,
  (forall t, tpl_parent t = None -> P t) ->
  (forall t p, tpl_parent t = Some p -> P p -> P t) ->
  forall t, P t.
Proof.
  intros P Hb Hs.
  fix IH 1. intros [i n s r b e [p|] tb ls].
  - apply (Hs _ p); [reflexivity|apply IH].
  - apply Hb. reflexivity.
Qed.

Lemma chain_of_hd : forall t d, hd d (chain_of t) = root_of t.
Proof.
  intros t d. induction t as [t H|t p H IH] using template_parent_ind.
  - rewrite (chain_of_base t H), (root_of_base t H). reflexivity.
  - rewrite (chain_of_child t p H), (root_of_child t p H), <- IH.
    destruct (chain_of p) eqn:E; [exfalso; exact (chain_of_nonempty p E)|reflexivity].
Qed.
Lemma root_of_has_no_parent : forall t, tpl_parent (root_of t) = None.
Proof.
  intros t. induction t as [t H|t p H IH] using template_parent_ind.
  - rewrite (root_of_base t H). exact H.
  - rewrite (root_of_child t p H). exact IH.
Qed.

Lemma root_of_facts : forall t,
  tpl_parent (root_of t) = None /\ (tpl_parent t = None -> root_of t = t) /\
  forall d, hd d (chain_of t) = root_of t.
Proof.
  intros t. split; [apply root_of_has_no_parent|]. split; [apply root_of_base|].
  intros d. apply chain_of_hd.
Qed.

(* the executor's bounded walk up the parents is the chain, for every template of depth <= 1001 *)
Lemma chain_up_spec : forall fuel t acc, (depth t <= S fuel)%nat -> chain_up fuel t acc = chain_of t ++ acc.
Proof.
  unfold depth. induction fuel as [|f IH]; intros t acc Hd.
  - cbn [chain_up]. destruct (tpl_parent t) as [p|] eqn:E.
    + rewrite (chain_of_child t p E), app_length in Hd. cbn in Hd.
      destruct (chain_of p) eqn:Ep; [exfalso; exact (chain_of_nonempty p Ep)|cbn in Hd; lia].
    + rewrite (chain_of_base t E). reflexivity.
  - cbn [chain_up]. destruct (tpl_parent t) as [p|] eqn:E.
    + rewrite (chain_of_child t p E), <- app_assoc. cbn [app]. apply IH.
      rewrite (chain_of_child t p E), app_length in Hd. cbn in Hd. lia.
    + rewrite (chain_of_base t E). reflexivity.
Qed.
Lemma tpl_chain_spec : forall t, (depth t <= 1001)%nat -> tpl_chain t = chain_of t.
Proof. intros t H. unfold tpl_chain. rewrite chain_up_spec by exact H. apply app_nil_r. Qed.

(* ---- block definitions along a chain ---- *)
Lemma defs_of_flat_map : forall name chain,
  flat_map (fun t => match assoc_get name (tpl_blocks t) with Some w => [w] | None => [] end) chain =
  defs_of name chain.
Proof.
  intros name; induction chain as [|t rest IH]; cbn [flat_map defs_of]; [reflexivity|].
  rewrite IH. destruct (assoc_get name (tpl_blocks t)); reflexivity.
Qed.
Lemma defs_of_app : forall name a b, defs_of name (a ++ b) = defs_of name a ++ defs_of name b.
Proof.
  intros name; induction a as [|t a IH]; intros b; cbn [app defs_of]; [reflexivity|].
  rewrite IH. destruct (assoc_get name (tpl_blocks t)); reflexivity.
Qed.
(* the most derived template that defines a block provides the last definition *)
Lemma defs_of_child : forall name t p,
  tpl_parent t = Some p ->
  defs_of name (chain_of t) =
    match assoc_get name (tpl_blocks t) with
    | Some body => defs_of name (chain_of p) ++ [body]
    | None => defs_of name (chain_of p)
    end.
Proof.
  intros name t p H. rewrite (chain_of_child t p H), defs_of_app. cbn [defs_of].
  destruct (assoc_get name (tpl_blocks t)); [reflexivity|apply app_nil_r].
Qed.
Lemma defs_of_base : forall name t,
  tpl_parent t = None ->
  defs_of name (chain_of t) = match assoc_get name (tpl_blocks t) with Some body => [body] | None => [] end.
Proof. intros name t H. rewrite (chain_of_base t H). cbn [defs_of]. destruct (assoc_get name (tpl_blocks t)); reflexivity. Qed.

Lemma rev_snoc_match : forall (A B : Type) (l : list A) (x : A) (b : B) (k : A -> list A -> B),
  match rev (l ++ [x]) with [] => b | y :: r => k y r end = k x (rev l).
Proof. intros. rewrite rev_app_distr. reflexivity. Qed.

Section Inherit.
  Variable se : senv.
  Variable globals : list (str * cval).

  (* ---- 1. the document that is executed ---- *)
  Lemma exec_template_unbuffered_S : forall f st t ctx,
    exec_template_unbuffered se globals (S f) st t ctx =
      let merged := ctx_update globals ctx in
      if negb (forallb (fun kv => is_ident_key (fst kv)) merged) then ([], Err 3)
      else if existsb (fun kv => match assoc_get (fst kv) (tpl_exported t) with Some _ => true | None => false end)
                      merged then ([], Err 3)
      else
        let '(execid, g') := g_fresh (ms_g st) in
        let fr := root_frame globals t ctx execid in
        let root := hd t (tpl_chain t) in
        match exec_nodes se globals f (mkM (fr :: ms_frames st) (ms_nodes st) g') (tpl_root root) with
        | (o, Ok st1) => xok o (pop_frame st1)
        | other => other
        end.
  Proof. reflexivity. Qed.
  Lemma exec_template_S : forall f st t ctx,
    exec_template se globals (S f) st t ctx =
      match exec_template_unbuffered se globals f st t ctx with
      | (o, Ok st1) => xok o st1
      | (_, other) => ([], other)
      end.
  Proof. reflexivity. Qed.

  Lemma root_document : forall f st t ctx,
    ctx_ok globals t ctx = true -> (depth t <= 1001)%nat ->
    exec_template_unbuffered se globals (S f) st t ctx =
      match exec_nodes se globals f (enter globals st t ctx) (tpl_root (root_of t)) with
      | (o, Ok st1) => xok o (pop_frame st1)
      | other => other
      end /\
    (forall fr, top_frame (enter globals st t ctx) = Ok fr -> f_chain fr = chain_of t).
  Proof.
    intros f st t ctx Hok Hd. split.
    - rewrite exec_template_unbuffered_S. cbv zeta.
      unfold ctx_ok in Hok. cbv zeta in Hok. apply andb_true_iff in Hok. destruct Hok as [H1 H2].
      unfold is_ident_key. cbv beta. rewrite H1. cbn [negb].
      apply negb_true_iff in H2. rewrite H2.
      unfold g_fresh, enter. rewrite (tpl_chain_spec t Hd), chain_of_hd. reflexivity.
    - intros fr H. unfold enter, top_frame in H. cbn [ms_frames] in H. injection H as <-.
      unfold root_frame. cbn [f_chain]. apply tpl_chain_spec, Hd.
  Qed.

  Lemma root_document_buffered : forall f st t ctx,
    ctx_ok globals t ctx = true -> (depth t <= 1001)%nat ->
    exec_template se globals (S (S f)) st t ctx =
      match exec_nodes se globals f (enter globals st t ctx) (tpl_root (root_of t)) with
      | (o, Ok st1) => xok o (pop_frame st1)
      | (_, other) => ([], other)
      end.
  Proof.
    intros f st t ctx Hok Hd. rewrite exec_template_S.
    destruct (root_document f st t ctx Hok Hd) as [-> _].
    destruct (exec_nodes se globals f (enter globals st t ctx) (tpl_root (root_of t))) as [o [st1| | | |]];
      reflexivity.
  Qed.

  (* what a child writes outside blocks plays no role: the executed document is the base's *)
  Lemma child_root_ignored : forall i n s r1 r2 b e p tb ls,
    root_of (Tpl i n s r1 b e (Some p) tb ls) = root_of p /\
    root_of (Tpl i n s r2 b e (Some p) tb ls) = root_of p.
  Proof. intros; split; reflexivity. Qed.

  (* frames pushed for branches, loops, with, Super, macros inherit the chain *)
  Lemma chain_inherited : forall fr p a d,
    f_chain (with_priv (child_of fr) p) = f_chain fr /\
    f_chain (with_auto fr a) = f_chain fr /\ f_chain (with_depth fr d) = f_chain fr.
  Proof. intros; repeat split. Qed.

  (* ---- 2. a block shows its most derived definition ---- *)
  Lemma exec_node_S_block : forall f st bname,
    exec_node se globals (S f) st (NBlock bname) =
      match top_frame st with
      | Ok fr =>
          let ws := flat_map (fun t => match assoc_get bname (tpl_blocks t) with Some w => [w] | None => [] end) (f_chain fr) in
          match rev ws with
          | [] => ([], Err 3)
          | last :: before_rev =>
              let outer := ctx_get [98; 108; 111; 99; 107] (f_priv fr) in
              match set_priv st [98; 108; 111; 99; 107] (CBlock (cur_index st) (rev before_rev)) with
              | Ok st1 =>
                  match exec_nodes se globals f st1 last with
                  | (o, Ok st2) =>
                      match top_frame st2 with
                      | Ok fr2 =>
                          let p := match outer with
                                   | Some v => ctx_set [98; 108; 111; 99; 107] v (f_priv fr2)
                                   | None => ctx_del [98; 108; 111; 99; 107] (f_priv fr2)
                                   end in
                          xok o (set_top st2 (with_priv fr2 p))
                      | other => xfail o other
                      end
                  | other => other
                  end
              | other => xfail [] other
              end
          end
      | other => xfail [] other
      end.
  Proof. reflexivity. Qed.

  Lemma block_most_derived_wins : forall f st fr name less d,
    top_frame st = Ok fr ->
    defs_of name (f_chain fr) = less ++ [d] ->
    exec_node se globals (S f) st (NBlock name) =
      match exec_nodes se globals f (bind_block st fr (CBlock (cur_index st) less)) d with
      | (o, Ok st2) =>
          match top_frame st2 with
          | Ok fr2 => xok o (restore_block (ctx_get block_key (f_priv fr)) st2 fr2)
          | other => xfail o other
          end
      | other => other
      end.
  Proof.
    intros f st fr name less d Ht Hd.
    rewrite exec_node_S_block, Ht. cbv zeta. rewrite defs_of_flat_map, Hd, rev_app_distr.
    cbn [rev app]. rewrite rev_involutive. unfold set_priv. rewrite Ht. cbn [bind].
    reflexivity.
  Qed.

  Lemma block_undefined : forall f st fr name,
    top_frame st = Ok fr -> defs_of name (f_chain fr) = [] ->
    exec_node se globals (S f) st (NBlock name) = ([], Err 3).
  Proof.
    intros f st fr name Ht Hd. rewrite exec_node_S_block, Ht. cbv zeta.
    rewrite defs_of_flat_map, Hd. reflexivity.
  Qed.

  (* ---- 3. block.Super ---- *)
  Lemma call_super_S : forall f st fidx wrappers,
    call_super se globals (S f) st fidx wrappers =
      match rev wrappers with
      | [] => Ok (as_safe_value (VStr []), st)
      | last :: before_rev =>
          match frame_at st fidx with
          | None => Panic 95
          | Some bfr =>
              let sfr := with_priv (child_of bfr) (ctx_set [98; 108; 111; 99; 107] (CBlock fidx (rev before_rev)) (f_priv bfr)) in
              match exec_nodes se globals f (push_frame st sfr) last with
              | (out, Ok st1) => Ok (as_safe_value (VStr out), pop_frame st1)
              | (_, Err k) => Err 3
              | (_, Unmod) => Unmod
              | (_, Fuel) => Fuel
              | (_, Panic s) => Panic s
              end
          end
      end.
  Proof. reflexivity. Qed.

  Lemma super_at_base : forall f st fidx,
    call_super se globals (S f) st fidx [] = Ok (as_safe_value (VStr []), st).
  Proof. reflexivity. Qed.

  Lemma super_is_next : forall f st fidx less d bfr,
    frame_at st fidx = Some bfr ->
    call_super se globals (S f) st fidx (less ++ [d]) =
      match exec_nodes se globals f (push_frame st (super_frame bfr fidx less)) d with
      | (out, Ok st1) => Ok (as_safe_value (VStr out), pop_frame st1)
      | (_, Err k) => Err 3
      | (_, Unmod) => Unmod
      | (_, Fuel) => Fuel
      | (_, Panic s) => Panic s
      end.
  Proof.
    intros f st fidx less d bfr Hf. rewrite call_super_S, rev_app_distr. cbn [rev app].
    rewrite Hf, rev_involutive. reflexivity.
  Qed.
End Inherit.

Section Super.
  Variable se : senv.
  Variable globals : list (str * cval).

  Lemma exec_nodes_S_nil : forall f st, exec_nodes se globals (S f) st [] = xok [] st.
  Proof. reflexivity. Qed.
  Lemma exec_nodes_S_cons : forall f st n rest,
    exec_nodes se globals (S f) st (n :: rest) =
      match exec_node se globals f st n with
      | (o1, Ok st1) => let '(o2, r) := exec_nodes se globals f st1 rest in (o1 ++ o2, r)
      | (o1, other) => (o1, other)
      end.
  Proof. reflexivity. Qed.
  Lemma exec_node_S_templatetag : forall f st c, exec_node se globals (S f) st (NTemplatetag c) = xok c st.
  Proof. reflexivity. Qed.
  Lemma exec_node_S_var : forall f st e,
    exec_node se globals (S f) st (NVar e) =
      match eval se globals f st e with
      | Ok (v, st1) =>
          match top_frame st1 with
          | Ok fr =>
              match to_string (vv v) with
              | None => ([], Unmod)
              | Some s =>
                  if negb (filter_applied [115; 97; 102; 101] e) && negb (vsafe v) && is_string (vv v) && f_auto fr
                  then xok (filter_escape s) st1 else xok s st1
              end
          | other => xfail [] other
          end
      | other => xfail [] other
      end.
  Proof. reflexivity. Qed.
  Lemma eval_S_filt_nil : forall f st e0,
    eval se globals (S f) st (EFilt e0 []) =
      (do '(v, st1) <- eval se globals f st e0; apply_chain se globals f st1 v []).
  Proof. reflexivity. Qed.
  Lemma apply_chain_S_nil' : forall f st v, apply_chain se globals (S f) st v [] = Ok (v, st).
  Proof. reflexivity. Qed.
  Lemma eval_S_var' : forall f st ps, eval se globals (S f) st (EVar ps) = resolve se globals f st ps.
  Proof. reflexivity. Qed.

  (* "block.Super" where "block" is bound to a block value calls Super on its remaining definitions *)
  Lemma resolve_block_super : forall f st fr fidx less,
    top_frame st = Ok fr ->
    ctx_get block_key (f_priv fr) = Some (CBlock fidx less) ->
    resolve se globals (S f) st [PIdent block_key None; PIdent super_key None] =
      call_super se globals f st fidx less.
  Proof.
    intros f st fr fidx less Ht Hb.
    change (resolve se globals (S f) st [PIdent block_key None; PIdent super_key None]) with
      (do fr <- top_frame st;
       match (match ctx_get block_key (f_priv fr) with Some c => Some c | None => ctx_get block_key (f_pub fr) end) with
       | Some (CBlock fidx wrappers) =>
           if str_eqb super_key [83; 117; 112; 101; 114] then call_super se globals f st fidx wrappers else Unmod
       | Some (CV v) =>
           match vv v with
           | VNil => Ok (as_value VNil, st)
           | _ => walk se globals f st (vv v) (vsafe v) [PIdent super_key None]
           end
       | Some (CMacro m fi) =>
           do '(args, st1) <- eval_list se globals f st [];
           do '(r, st2) <- call_macro se globals f st1 m fi args;
           walk se globals f st2 (vv r) (vsafe r) [PIdent super_key None]
       | Some (CCycle _ _ _ _) => Unmod
       | None => Ok (as_value VNil, st)
       end).
    rewrite Ht. cbn [bind]. rewrite Hb. reflexivity.
  Qed.

  Lemma frame_at_push : forall st fr i x, frame_at st i = Some x -> frame_at (push_frame st fr) i = Some x.
  Proof.
    intros st fr i x H. unfold frame_at, push_frame in *. cbn [ms_frames rev].
    rewrite nth_error_app1; [exact H|]. apply nth_error_Some. congruence.
  Qed.
  Lemma pop_push : forall st fr, pop_frame (push_frame st fr) = st.
  Proof. intros [fs ns g] fr. reflexivity. Qed.

  (* Super to any depth: with n definitions "x_i{{ block.Super }}", Super from the (n+1)-th shows
     x_n x_(n-1) ... x_1 and then nothing (the base has no Super), and leaves the state alone *)
  Lemma super_any_depth : forall xs f st fidx bfr,
    frame_at st fidx = Some bfr ->
    (7 * length xs + 1 <= f)%nat ->
    call_super se globals f st fidx (map lit_super xs) = Ok (as_safe_value (VStr (concat (rev xs))), st).
  Proof.
    induction xs as [|x xs IH] using rev_ind; intros f st fidx bfr Hf Hfuel.
    - destruct f as [|f]; [cbn in Hfuel; lia|]. reflexivity.
    - rewrite app_length in Hfuel. cbn [length] in Hfuel.
      do 7 (destruct f as [|f]; [lia|]).
      rewrite map_app. cbn [map]. rewrite (super_is_next se globals _ st fidx _ _ bfr Hf).
      set (st' := push_frame st (super_frame bfr fidx (map lit_super xs))).
      assert (Hf' : frame_at st' fidx = Some bfr) by (apply frame_at_push; exact Hf).
      assert (Ht' : top_frame st' = Ok (super_frame bfr fidx (map lit_super xs))) by reflexivity.
      change (lit_super x) with [NTemplatetag x; NVar super_expr].
      rewrite exec_nodes_S_cons, exec_node_S_templatetag. unfold xok at 1.
      rewrite exec_nodes_S_cons, exec_node_S_var. unfold super_expr.
      rewrite eval_S_filt_nil, eval_S_var'.
      rewrite (resolve_block_super _ st' _ fidx (map lit_super xs) Ht')
        by (unfold super_frame, with_priv; cbn [f_priv]; apply ctx_get_set_same).
      rewrite (IH _ st' fidx bfr Hf') by lia.
      cbn [bind]. rewrite apply_chain_S_nil', Ht'. cbn [vv as_safe_value to_string vsafe negb andb].
      cbn [filter_applied existsb negb andb]. unfold xok. rewrite exec_nodes_S_nil. unfold xok.
      unfold st'. rewrite pop_push, rev_app_distr. cbn [rev app concat]. rewrite app_nil_r. reflexivity.
  Qed.
End Super.

(* ---- 4. compile errors ---- *)
Definition tagExtendsParser : str := [116; 97; 103; 69; 120; 116; 101; 110; 100; 115; 80; 97; 114; 115; 101; 114].
Definition tagBlockParser : str := [116; 97; 103; 66; 108; 111; 99; 107; 80; 97; 114; 115; 101; 114].
Definition kw_endblock : str := [101; 110; 100; 98; 108; 111; 99; 107].

(* the arguments of a tag up to "%}" (the parser's local loop, as a function of its own) *)
Fixpoint collect_args (l : list atok) (acc : list token) : option (list token * list atok) :=
  match l with
  | [] => None
  | x :: l' => if a_is_sym x [37; 125] then Some (rev acc, l') else collect_args l' (a_tok x :: acc)
  end.

Section ParseErrors.
  Variable se : senv.

  Lemma tag_parser_S_extends : forall f level args tst g ts,
    tag_parser se (S f) level tagExtendsParser args (tst, g) ts =
      if Nat.ltb 1 level then perr
      else match t_parent tst with
           | Some _ => perr
           | None =>
               match match_string args with
               | None => perr
               | Some (fname, rest) =>
                   let pname := resolve_filename (t_isstr tst) (t_name tst) fname in
                   do '(ptpl, g1) <- compile_file se f pname g;
                   match rest with
                   | _ :: _ => perr
                   | [] =>
                       let tst' := mkT (t_id tst) (t_name tst) (t_isstr tst) (t_blocks tst) (t_exported tst) (Some ptpl) in
                       Ok (NExtends, ts, (tst', g1))
                   end
               end
           end.
  Proof. reflexivity. Qed.

  (* extends inside another tag's body is a parse error *)
  Lemma extends_nested_error : forall f level args st ts,
    (1 < level)%nat -> tag_parser se (S f) level tagExtendsParser args st ts = Err 2.
  Proof.
    intros f level args [tst g] ts H. rewrite tag_parser_S_extends.
    apply Nat.ltb_lt in H. rewrite H. reflexivity.
  Qed.
  (* a second extends is a parse error *)
  Lemma extends_twice_error : forall f level args tst g ts p,
    t_parent tst = Some p -> tag_parser se (S f) level tagExtendsParser args (tst, g) ts = Err 2.
  Proof.
    intros f level args tst g ts p H. rewrite tag_parser_S_extends, H.
    destruct (Nat.ltb 1 level); reflexivity.
  Qed.
  (* the one accepted form: top level, no parent yet, one string naming a template that compiles;
     it records the compiled parent and fetches nothing else *)
  Lemma extends_ok : forall f level fname args tst g ts ptpl g1,
    (level <= 1)%nat -> t_parent tst = None -> match_string args = Some (fname, []) ->
    compile_file se f (resolve_filename (t_isstr tst) (t_name tst) fname) g = Ok (ptpl, g1) ->
    tag_parser se (S f) level tagExtendsParser args (tst, g) ts =
      Ok (NExtends, ts, (mkT (t_id tst) (t_name tst) (t_isstr tst) (t_blocks tst) (t_exported tst) (Some ptpl), g1)).
  Proof.
    intros f level fname args tst g ts ptpl g1 Hl Hp Ha Hc. rewrite tag_parser_S_extends.
    assert (E : Nat.ltb 1 level = false) by (apply Nat.ltb_ge; exact Hl).
    rewrite E, Hp, Ha. cbv zeta. rewrite Hc. reflexivity.
  Qed.

  Lemma tag_parser_S_block : forall f level args st ts,
    tag_parser se (S f) level tagBlockParser args st ts =
      match args with
      | [] => perr
      | _ =>
          match match_ident args with
          | None => perr
          | Some (bname, rest) =>
              match rest with
              | _ :: _ => perr
              | [] =>
                  do '(body, _, eargs, r, st1) <- wrap_until se f level [kw_endblock] st ts;
                  do _ <- (match eargs with
                           | [] => Ok tt
                           | _ => match match_ident eargs with
                                  | Some (en, er) =>
                                      if negb (str_eqb en bname) then perr
                                      else match er with [] => Ok tt | _ => perr end
                                  | None => perr
                                  end
                           end);
                  let '(tst, g) := st1 in
                  match assoc_get bname (t_blocks tst) with
                  | Some _ => perr
                  | None =>
                      let tst' := mkT (t_id tst) (t_name tst) (t_isstr tst) (t_blocks tst ++ [(bname, body)])
                                      (t_exported tst) (t_parent tst) in
                      Ok (NBlock bname, r, (tst', g))
                  end
              end
          end
      end.
  Proof. reflexivity. Qed.

  Lemma match_ident_nonempty : forall args x, match_ident args = Some x -> args <> [].
  Proof. intros [|t r] x H; [discriminate H|discriminate]. Qed.

  (* a block whose name is already in the template's block table (declared earlier, or inside
     this block's own body) is a parse error *)
  Lemma block_duplicate_error : forall f level args st ts bname body en eargs r tst1 g1 old,
    match_ident args = Some (bname, []) ->
    wrap_until se f level [kw_endblock] st ts = Ok (body, en, eargs, r, (tst1, g1)) ->
    assoc_get bname (t_blocks tst1) = Some old ->
    tag_parser se (S f) level tagBlockParser args st ts = Err 2.
  Proof.
    intros f level args st ts bname body en eargs r tst1 g1 old Ha Hw Hd.
    rewrite tag_parser_S_block. destruct args as [|a0 args']; [discriminate Ha|].
    rewrite Ha, Hw. cbn [bind].
    match goal with |- bind ?x _ = _ => destruct x as [[]| | | |] eqn:E end; cbn [bind].
    - rewrite Hd. reflexivity.
    - revert E. destruct eargs as [|e0 er]; [discriminate|].
      destruct (match_ident (e0 :: er)) as [[en' er']|]; [|unfold perr; intros E'; injection E' as <-; reflexivity].
      destruct (negb (str_eqb en' bname)); [unfold perr; intros E'; injection E' as <-; reflexivity|].
      destruct er'; [discriminate|unfold perr; intros E'; injection E' as <-; reflexivity].
    - exfalso. revert E. destruct eargs as [|e0 er]; [discriminate|].
      destruct (match_ident (e0 :: er)) as [[en' er']|]; [|discriminate].
      destruct (negb (str_eqb en' bname)); [discriminate|]. destruct er'; discriminate.
    - exfalso. revert E. destruct eargs as [|e0 er]; [discriminate|].
      destruct (match_ident (e0 :: er)) as [[en' er']|]; [|discriminate].
      destruct (negb (str_eqb en' bname)); [discriminate|]. destruct er'; discriminate.
    - exfalso. revert E. destruct eargs as [|e0 er]; [discriminate|].
      destruct (match_ident (e0 :: er)) as [[en' er']|]; [|discriminate].
      destruct (negb (str_eqb en' bname)); [discriminate|]. destruct er'; discriminate.
  Qed.

  (* a new name is appended to the block table with the body just parsed *)
  Lemma block_new_ok : forall f level args st ts bname body en r tst1 g1,
    match_ident args = Some (bname, []) ->
    wrap_until se f level [kw_endblock] st ts = Ok (body, en, [], r, (tst1, g1)) ->
    assoc_get bname (t_blocks tst1) = None ->
    tag_parser se (S f) level tagBlockParser args st ts =
      Ok (NBlock bname, r,
          (mkT (t_id tst1) (t_name tst1) (t_isstr tst1) (t_blocks tst1 ++ [(bname, body)])
               (t_exported tst1) (t_parent tst1), g1)).
  Proof.
    intros f level args st ts bname body en r tst1 g1 Ha Hw Hd.
    rewrite tag_parser_S_block. destruct args as [|a0 args']; [discriminate Ha|].
    rewrite Ha, Hw. cbn [bind]. rewrite Hd. reflexivity.
  Qed.

  (* nesting levels: the document's own tags are parsed at level 1, tags in a body one deeper *)
  Lemma parse_tag_S : forall f level st nm r,
    parse_tag se (S f) level st (nm :: r) =
      if negb (a_is_ident nm) then perr
      else
        let name := tval (a_tok nm) in
        if negb (str_in name (cfg_tags (se_cfg se))) then perr
        else if str_in name (cfg_banned_tags (se_cfg se)) then perr
        else
          match assoc_get name tag_impl with
          | None => Unmod
          | Some impl =>
              match collect_args r [] with
              | None => perr
              | Some (args, body) => tag_parser se f (S level) impl args st body
              end
          end.
  Proof. reflexivity. Qed.
  Lemma parse_doc_S : forall f st a ts,
    parse_doc se (S f) st (a :: ts) =
      (do '(n, r, st1) <- parse_elem se f 0 st (a :: ts);
       do '(ns, st2) <- parse_doc se f st1 r;
       Ok (n :: ns, st2)).
  Proof. reflexivity. Qed.

  (* a tag registered under [name] with implementation [impl] is parsed by that implementation,
     one level deeper than the element it appears in *)
  Lemma parse_tag_level : forall f level st nm r impl args body,
    a_is_ident nm = true ->
    str_in (tval (a_tok nm)) (cfg_tags (se_cfg se)) = true ->
    str_in (tval (a_tok nm)) (cfg_banned_tags (se_cfg se)) = false ->
    assoc_get (tval (a_tok nm)) tag_impl = Some impl ->
    collect_args r [] = Some (args, body) ->
    parse_tag se (S f) level st (nm :: r) = tag_parser se f (S level) impl args st body.
  Proof.
    intros f level st nm r impl args body H1 H2 H3 H4 H5.
    rewrite parse_tag_S, H1. cbv zeta. rewrite H2, H3, H4, H5. reflexivity.
  Qed.
End ParseErrors.

(* ================= C11: loaders ================= *)

(* ---- which loader answers, and what is logged ---- *)
Lemma resolve_template_attempts : forall ls idx path g,
  log_grows_by g (snd (resolve_template ls idx path g)) (attempts (loader_name path) idx ls).
Proof.
  unfold log_grows_by, loader_name.
  induction ls as [|l rest IH]; intros idx path g; cbn [resolve_template attempts].
  - split; reflexivity.
  - unfold loader_has. destruct (assoc_get (fsloader_abs [] path) (l_files l)) as [c|] eqn:E.
    + split; reflexivity.
    + destruct (IH (S idx) path (g_logget g idx (fsloader_abs [] path) false)) as [H1 H2].
      split.
      * rewrite H1. cbn [g_logget g_log rev]. rewrite <- app_assoc. reflexivity.
      * rewrite H2. reflexivity.
Qed.

Lemma resolve_template_first : forall pre l post idx path g c,
  (forall x, In x pre -> assoc_get (loader_name path) (l_files x) = None) ->
  assoc_get (loader_name path) (l_files l) = Some c ->
  fst (resolve_template (pre ++ l :: post) idx path g) = Some c.
Proof.
  unfold loader_name.
  induction pre as [|x pre IH]; intros l post idx path g c Hpre Hl; cbn [app resolve_template].
  - rewrite Hl. reflexivity.
  - rewrite (Hpre x (or_introl eq_refl)). apply IH; [|exact Hl].
    intros y Hy. apply Hpre. right. exact Hy.
Qed.

Lemma resolve_template_some : forall ls idx path g c,
  fst (resolve_template ls idx path g) = Some c ->
  exists pre l post, ls = pre ++ l :: post /\
    (forall x, In x pre -> assoc_get (loader_name path) (l_files x) = None) /\
    assoc_get (loader_name path) (l_files l) = Some c.
Proof.
  unfold loader_name.
  induction ls as [|l rest IH]; intros idx path g c H; cbn [resolve_template] in H.
  - discriminate H.
  - destruct (assoc_get (fsloader_abs [] path) (l_files l)) as [c'|] eqn:E.
    + cbn in H. injection H as ->. exists [], l, rest. repeat split; [intros x []|exact E].
    + apply IH in H. destruct H as [pre [l' [post [-> [Hpre Hl]]]]].
      exists (l :: pre), l', post. repeat split; [|exact Hl].
      intros x [<-|Hx]; [exact E|auto].
Qed.

Lemma resolve_template_none : forall ls idx path g,
  fst (resolve_template ls idx path g) = None <->
  (forall x, In x ls -> assoc_get (loader_name path) (l_files x) = None).
Proof.
  unfold loader_name.
  induction ls as [|l rest IH]; intros idx path g; cbn [resolve_template].
  - split; [intros _ x []|reflexivity].
  - destruct (assoc_get (fsloader_abs [] path) (l_files l)) as [c'|] eqn:E.
    + cbn. split; [discriminate|]. intros H. rewrite (H l (or_introl eq_refl)) in E. discriminate.
    + rewrite IH. split.
      * intros H x [<-|Hx]; [exact E|auto].
      * intros H x Hx. apply H. right. exact Hx.
Qed.

(* the shape of the attempts: the k-th one asks loader idx+k for the one name; all but the last miss *)
Lemma attempts_shape : forall name ls idx k e,
  nth_error (attempts name idx ls) k = Some e ->
  attempt_name e = name /\ attempt_loader e = (idx + k)%nat /\ (k < length ls)%nat /\
  (attempt_hit e = true -> S k = length (attempts name idx ls)) /\
  (exists l, nth_error ls k = Some l /\ loader_has name l = attempt_hit e).
Proof.
  intros name; induction ls as [|l rest IH]; intros idx k e H; cbn [attempts] in *.
  - destruct k; discriminate H.
  - destruct (loader_has name l) eqn:Hl.
    + destruct k as [|k]; [|destruct k; discriminate H]. injection H as <-. cbn.
      split; [reflexivity|]. split; [lia|]. split; [lia|]. split; [reflexivity|].
      exists l; split; [reflexivity|exact Hl].
    + destruct k as [|k].
      * injection H as <-. cbn. split; [reflexivity|]. split; [lia|]. split; [lia|].
        split; [discriminate|].
        exists l; split; [reflexivity|exact Hl].
      * cbn [nth_error] in H. apply IH in H. destruct H as [H1 [H2 [H3 [H4 H5]]]].
        cbn [length nth_error]. split; [exact H1|]. split; [lia|]. split; [lia|].
        split; [|exact H5]. intros Hh. apply H4 in Hh. lia.
Qed.

Lemma attempts_all_miss : forall name ls idx,
  (forall x, In x ls -> loader_has name x = false) ->
  attempts name idx ls = map (fun i => LGet i name false) (seq idx (length ls)).
Proof.
  intros name; induction ls as [|l rest IH]; intros idx H; cbn [attempts length seq map]; [reflexivity|].
  rewrite (H l (or_introl eq_refl)). f_equal. apply IH. intros x Hx. apply H. right. exact Hx.
Qed.

(* what if_exists records for a name no loader has: one miss per loader, nothing else *)
Lemma log_misses_spec : forall ls path g,
  log_grows_by g (log_misses ls path g)
               (map (fun i => LGet i (loader_name path) false) (seq 0 (length ls))).
Proof.
  intros ls path g. unfold log_misses.
  rewrite <- (map_length (fun _ => mkLoader []) ls).
  rewrite <- attempts_all_miss.
  - apply resolve_template_attempts.
  - intros x Hx. apply in_map_iff in Hx. destruct Hx as [y [<- _]]. reflexivity.
Qed.

(* [served]: some loader of the list holds the name (what if_exists asks before it swallows error 4) *)
Lemma served_spec : forall ls path, served ls path = existsb (loader_has (loader_name path)) ls.
Proof. reflexivity. Qed.

Lemma served_false_iff : forall ls path,
  served ls path = false <-> (forall l, In l ls -> assoc_get (loader_name path) (l_files l) = None).
Proof.
  intros ls path. rewrite served_spec. induction ls as [|l rest IH]; cbn [existsb].
  - split; [intros _ x []|reflexivity].
  - rewrite Bool.orb_false_iff, IH. unfold loader_has. split.
    + intros [H1 H2] x [<-|Hx]; [|apply H2; exact Hx].
      destruct (assoc_get (loader_name path) (l_files l)); [discriminate H1|reflexivity].
    + intros H. split.
      * rewrite (H l (or_introl eq_refl)). reflexivity.
      * intros x Hx. apply H. right. exact Hx.
Qed.

Lemma served_true_iff : forall ls path,
  served ls path = true <-> exists l c, In l ls /\ assoc_get (loader_name path) (l_files l) = Some c.
Proof.
  intros ls path. rewrite served_spec, existsb_exists. unfold loader_has. split.
  - intros [l [Hl H]]. destruct (assoc_get (loader_name path) (l_files l)) as [c|] eqn:E; [|discriminate H].
    exists l, c. split; [exact Hl|exact E].
  - intros [l [c [Hl H]]]. exists l. split; [exact Hl|]. rewrite H. reflexivity.
Qed.

(* a name is served exactly when a fetch of it finds a content *)
Lemma served_false_fetch_none : forall ls idx path g,
  served ls path = false <-> fst (resolve_template ls idx path g) = None.
Proof.
  intros ls idx path g. rewrite served_false_iff. symmetry. apply resolve_template_none.
Qed.

Section Fetch.
  Variable se : senv.

  Lemma fetch_spec : forall path g,
    fetch se path g =
      match fst (resolve_template (se_loaders se) 0 path g) with
      | Some content => Ok (content, snd (resolve_template (se_loaders se) 0 path g))
      | None => Err 4
      end.
  Proof. intros path g. unfold fetch. destruct (resolve_template (se_loaders se) 0 path g) as [[c|] g']; reflexivity. Qed.

  Lemma compile_file_S : forall f path g,
    compile_file se (S f) path g = (do '(content, g1) <- fetch se path g; compile_src se f path false content g1).
  Proof. reflexivity. Qed.

  (* a name no loader has is a "not found" error, whatever the fuel *)
  Lemma compile_file_missing : forall f path g,
    (forall l, In l (se_loaders se) -> assoc_get (loader_name path) (l_files l) = None) ->
    compile_file se (S f) path g = Err 4.
  Proof.
    intros f path g H. rewrite compile_file_S, fetch_spec.
    apply (resolve_template_none (se_loaders se) 0%nat path g) in H. rewrite H. reflexivity.
  Qed.

  (* compiling a file fetches it under exactly the name asked for, from the first loader that has it *)
  Lemma compile_file_found : forall f path g pre l post c,
    se_loaders se = pre ++ l :: post ->
    (forall x, In x pre -> assoc_get (loader_name path) (l_files x) = None) ->
    assoc_get (loader_name path) (l_files l) = Some c ->
    compile_file se (S f) path g =
      compile_src se f path false c (snd (resolve_template (se_loaders se) 0 path g)).
  Proof.
    intros f path g pre l post c Hls Hpre Hl. rewrite compile_file_S, fetch_spec.
    rewrite Hls at 1. rewrite (resolve_template_first pre l post 0%nat path g c Hpre Hl). reflexivity.
  Qed.
End Fetch.

(* ---- paths ---- *)
Lemma dir_part_cons : forall c p,
  dir_part (c :: p) = match dir_part p with [] => if c =? slash then [c] else [] | _ => c :: dir_part p end.
Proof. reflexivity. Qed.

(* the directory part is everything up to and including the last slash *)
Lemma dir_part_split : forall p, exists base, p = dir_part p ++ base /\ no_slash base = true.
Proof.
  induction p as [|c p [base [E Hb]]].
  - exists []; split; reflexivity.
  - rewrite dir_part_cons. destruct (dir_part p) as [|x d] eqn:Ed.
    + cbn [app] in E. subst base. destruct (c =? slash) eqn:Ec.
      * exists p; split; [reflexivity|exact Hb].
      * exists (c :: p); split; [reflexivity|]. cbn. rewrite Ec. exact Hb.
    + exists base; split; [|exact Hb]. cbn [app]. f_equal. exact E.
Qed.
Lemma dir_part_ends : forall p, dir_part p = [] \/ exists d, dir_part p = d ++ [slash].
Proof.
  induction p as [|c p IH]; [left; reflexivity|].
  rewrite dir_part_cons. destruct (dir_part p) as [|x d] eqn:Ed.
  - destruct (N.eqb_spec c slash) as [->|Hn]; [right; exists []; reflexivity|left; reflexivity].
  - right. destruct IH as [H|[d' H]]; [discriminate H|]. exists (c :: d'). rewrite H. reflexivity.
Qed.
Lemma dir_part_no_slash : forall p, no_slash p = true -> dir_part p = [].
Proof.
  induction p as [|c p IH]; [reflexivity|]. cbn [no_slash forallb]. intros H.
  apply andb_true_iff in H. destruct H as [Hc Hp]. rewrite dir_part_cons, (IH Hp).
  destruct (c =? slash); [discriminate Hc|reflexivity].
Qed.

Lemma dir_part_facts : forall p,
  (exists base, p = dir_part p ++ base /\ no_slash base = true) /\
  (dir_part p = [] \/ exists d, dir_part p = d ++ [slash]) /\
  (no_slash p = true -> dir_part p = []).
Proof.
  intros p. split; [apply dir_part_split|]. split; [apply dir_part_ends|apply dir_part_no_slash].
Qed.

Lemma path_clean_nonempty : forall p, path_clean p <> [].
Proof.
  intros [|c p]; unfold path_clean; [discriminate|].
  match goal with |- match ?x with [] => _ | _ => _ end <> [] => destruct x; discriminate end.
Qed.

Lemma split_slash_cons : forall cur c s,
  split_go [slash] 0 cur (c :: s) =
    if c =? slash then rev cur :: split_go [slash] 0 [] s else split_go [slash] 0 (c :: cur) s.
Proof.
  intros cur c s. cbn [split_go is_prefix length Nat.sub].
  rewrite (N.eqb_sym slash c), andb_true_r. reflexivity.
Qed.

Lemma clean_step_empty : forall rooted stack, clean_step rooted stack [] = stack.
Proof. reflexivity. Qed.

(* a doubled slash is the same as a single one *)
Lemma fold_double_slash : forall rooted x cur stk y,
  fold_left (clean_step rooted) (split_go [slash] 0 cur (x ++ slash :: slash :: y)) stk =
  fold_left (clean_step rooted) (split_go [slash] 0 cur (x ++ slash :: y)) stk.
Proof.
  intros rooted; induction x as [|c x IH]; intros cur stk y; cbn [app].
  - rewrite !split_slash_cons, !N.eqb_refl.
    cbn [fold_left rev]. reflexivity.
  - rewrite !split_slash_cons. destruct (c =? slash); cbn [fold_left]; apply IH.
Qed.

Lemma path_clean_double_slash : forall c x y,
  path_clean ((c :: x) ++ slash :: slash :: y) = path_clean ((c :: x) ++ slash :: y).
Proof.
  intros c x y. unfold path_clean. cbn [app]. cbv zeta.
  change (c :: x ++ slash :: slash :: y) with ((c :: x) ++ slash :: slash :: y).
  change (c :: x ++ slash :: y) with ((c :: x) ++ slash :: y).
  rewrite fold_double_slash. reflexivity.
Qed.

(* ---- names: relative to the referrer's directory; a leading slash changes nothing ---- *)
Lemma resolve_filename_string : forall tname path, resolve_filename true tname path = path.
Proof. reflexivity. Qed.

Lemma resolve_filename_relative : forall tname c path,
  resolve_filename false tname (c :: path) = path_clean (path_dir tname ++ [slash] ++ c :: path).
Proof.
  intros tname c path. unfold resolve_filename, fsloader_abs, path_join2.
  destruct (path_dir tname) eqn:E; [exfalso; exact (path_clean_nonempty _ E)|reflexivity].
Qed.

Lemma resolve_filename_same_dir : forall isstr t1 t2 path,
  dir_part t1 = dir_part t2 -> resolve_filename isstr t1 path = resolve_filename isstr t2 path.
Proof.
  intros isstr t1 t2 path H. unfold resolve_filename, fsloader_abs, path_dir. rewrite H. reflexivity.
Qed.

(* from a template in the top directory, every name is taken from the loader's root *)
Lemma resolve_filename_top : forall tname path,
  no_slash tname = true -> resolve_filename false tname path = loader_name path.
Proof.
  intros tname path H. unfold loader_name. change (fsloader_abs [] path) with (resolve_filename false [] path).
  apply resolve_filename_same_dir. rewrite (dir_part_no_slash _ H). reflexivity.
Qed.

(* a rooted name is resolved like the same name without its slash: against the referrer's directory *)
Lemma fsloader_abs_rooted : forall base c n,
  fsloader_abs base (slash :: c :: n) = fsloader_abs base (c :: n).
Proof.
  intros base c n. unfold fsloader_abs, path_join2.
  destruct (path_dir base) as [|d ds] eqn:E; [exfalso; exact (path_clean_nonempty _ E)|].
  cbn [app]. change (d :: ds ++ slash :: slash :: c :: n) with ((d :: ds) ++ slash :: slash :: c :: n).
  rewrite path_clean_double_slash. reflexivity.
Qed.

(* ... so it does depend on where the referrer lives: "/x" from "a/b" and from "c/d" *)
Lemma rooted_depends_on_referrer :
  resolve_filename false [97; 47; 98] [47; 120] = [97; 47; 120] /\
  resolve_filename false [99; 47; 100] [47; 120] = [99; 47; 120] /\
  loader_name [47; 120] = [120].
Proof. vm_compute. repeat split. Qed.

(* ---- contexts: lookup after an update ---- *)
Lemma ctx_get_del : forall k k' m,
  ctx_get k (ctx_del k' m) = if str_eqb k k' then None else ctx_get k m.
Proof.
  intros k k'; induction m as [|[k0 v] m IH]; cbn [ctx_del ctx_get].
  - destruct (str_eqb k k'); reflexivity.
  - destruct (cstr_eqb_spec k' k0) as [<-|Hn].
    + rewrite IH. destruct (str_eqb k k'); reflexivity.
    + cbn [ctx_get]. rewrite IH. destruct (cstr_eqb_spec k k') as [->|Hn'].
      * destruct (cstr_eqb_spec k' k0); [contradiction|reflexivity].
      * reflexivity.
Qed.
Lemma ctx_get_set : forall k k' v m,
  ctx_get k (ctx_set k' v m) = if str_eqb k k' then Some v else ctx_get k m.
Proof.
  intros k k' v m. unfold ctx_set. cbn [ctx_get]. rewrite ctx_get_del.
  destruct (str_eqb k k'); reflexivity.
Qed.
Lemma ctx_get_app : forall k a b, ctx_get k (a ++ b) = or_else (ctx_get k a) (ctx_get k b).
Proof.
  intros k; induction a as [|[k0 v] a IH]; intros b; cbn [app ctx_get]; [reflexivity|].
  destruct (str_eqb k k0); [reflexivity|apply IH].
Qed.
(* after dst.Update(src): the last binding in src, else what dst had *)
Lemma ctx_get_update : forall k src dst,
  ctx_get k (ctx_update dst src) = or_else (last_binding k src) (ctx_get k dst).
Proof.
  intros k; unfold ctx_update, last_binding.
  induction src as [|[k0 v] src IH]; intros dst; cbn [fold_left rev]; [reflexivity|].
  rewrite IH, ctx_get_app. cbn [fst snd ctx_get]. rewrite ctx_get_set.
  destruct (ctx_get k (rev src)); [reflexivity|]. cbn [or_else].
  destruct (str_eqb k k0); reflexivity.
Qed.

(* an included template sees the with-pairs, and behind them - unless "only" - the includer's
   private and then public variables *)
Lemma include_ctx_lookup : forall only fr withs k,
  ctx_get k (include_ctx only fr withs) =
    or_else (last_binding k withs)
            (if only then None
             else or_else (last_binding k (f_priv fr)) (ctx_get k (f_pub fr))).
Proof.
  intros only fr withs k. unfold include_ctx, includer_vars. rewrite ctx_get_update.
  destruct only; [reflexivity|]. rewrite ctx_get_update. reflexivity.
Qed.

Section Include.
  Variable se : senv.
  Variable globals : list (str * cval).

  Lemma eval_pairs_S_nil : forall f st, eval_pairs se globals (S f) st [] = Ok ([], st).
  Proof. reflexivity. Qed.
  Lemma eval_pairs_S_cons : forall f st k e rest,
    eval_pairs se globals (S f) st ((k, e) :: rest) =
      (do '(v, st1) <- eval se globals f st e;
       do '(r, st2) <- eval_pairs se globals f st1 rest;
       Ok ((k, CV v) :: r, st2)).
  Proof. reflexivity. Qed.

  (* the with-pairs are bound under their own names, in order, to evaluated values *)
  Lemma eval_pairs_keys : forall f st pairs vals st1,
    eval_pairs se globals f st pairs = Ok (vals, st1) ->
    map fst vals = map fst pairs /\ Forall (fun kv => exists v, snd kv = CV v) vals.
  Proof.
    induction f as [|f IH]; intros st pairs vals st1 H; [discriminate H|].
    destruct pairs as [|[k e] rest].
    - rewrite eval_pairs_S_nil in H. injection H as <- <-. split; constructor.
    - rewrite eval_pairs_S_cons in H.
      apply bind_ok_inv in H. destruct H as [[v st'] [_ H]].
      apply bind_ok_inv in H. destruct H as [[r st''] [Hr H]].
      injection H as <- <-. apply IH in Hr. destruct Hr as [H1 H2]. split.
      + cbn. f_equal. exact H1.
      + constructor; [exists v; reflexivity|exact H2].
  Qed.

  Lemma exec_node_S_include : forall f st tplo fname pairs only ifexists,
    exec_node se globals (S f) st (NInclude tplo fname pairs only ifexists) =
      match top_frame st with
      | Ok fr =>
          let base := if only then [] else ctx_update (f_pub fr) (f_priv fr) in
          match eval_pairs se globals f st pairs with
          | Ok (vals, st1) =>
              let ictx := ctx_update base vals in
              match tplo with
              | Some t => exec_template se globals f st1 t ictx
              | None =>
                  match fname with
                  | None => ([], Panic 96)
                  | Some fe =>
                      match eval se globals f st1 fe with
                      | Ok (fv, st2) =>
                          match to_string (vv fv) with
                          | None => ([], Unmod)
                          | Some [] => ([], Err 3)
                          | Some fn =>
                              let root := hd (Tpl 0 [] true [] [] [] None false false) (f_chain fr) in
                              let iname := resolve_filename (tpl_is_string root) (tpl_name root) fn in
                              match compile_file se f iname (ms_g st2) with
                              | Ok (t, g') => exec_template se globals f (mkM (ms_frames st2) (ms_nodes st2) g') t ictx
                              | Err 4 =>
                                  if ifexists && negb (served (se_loaders se) iname)
                                  then xok [] (mkM (ms_frames st2) (ms_nodes st2) (log_misses (se_loaders se) iname (ms_g st2)))
                                  else ([], Err 4)
                              | other => xfail [] other
                              end
                          end
                      | other => xfail [] other
                      end
                  end
              end
          | other => xfail [] other
          end
      | other => xfail [] other
      end.
  Proof. reflexivity. Qed.

  (* a template named by a literal: executed with exactly the include context *)
  Lemma include_static_ctx : forall f st fr t fname pairs only ifx vals st1,
    top_frame st = Ok fr ->
    eval_pairs se globals f st pairs = Ok (vals, st1) ->
    exec_node se globals (S f) st (NInclude (Some t) fname pairs only ifx) =
      exec_template se globals f st1 t (include_ctx only fr vals).
  Proof.
    intros f st fr t fname pairs only ifx vals st1 Ht Hp.
    rewrite exec_node_S_include, Ht. cbv zeta. rewrite Hp. reflexivity.
  Qed.

  (* a template named by an expression: resolved against the executing root template's name,
     compiled through the loaders, executed with exactly the include context *)
  Lemma include_lazy_found : forall f st fr fe pairs only ifx vals st1 fv st2 c fn root rest t g',
    top_frame st = Ok fr ->
    eval_pairs se globals f st pairs = Ok (vals, st1) ->
    eval se globals f st1 fe = Ok (fv, st2) ->
    to_string (vv fv) = Some (c :: fn) ->
    f_chain fr = root :: rest ->
    compile_file se f (resolve_filename (tpl_is_string root) (tpl_name root) (c :: fn)) (ms_g st2) = Ok (t, g') ->
    exec_node se globals (S f) st (NInclude None (Some fe) pairs only ifx) =
      exec_template se globals f (mkM (ms_frames st2) (ms_nodes st2) g') t (include_ctx only fr vals).
  Proof.
    intros f st fr fe pairs only ifx vals st1 fv st2 c fn root rest t g' Ht Hp He Hs Hc Hcf.
    rewrite exec_node_S_include, Ht. cbv zeta. rewrite Hp, He, Hs, Hc. cbn [hd]. rewrite Hcf. reflexivity.
  Qed.

  (* ... and when the name is not found: an error, or with if_exists no output, the frames and
     node states untouched, and one logged miss per loader *)
  Lemma include_lazy_missing : forall f st fr fe pairs only ifx vals st1 fv st2 c fn root rest,
    top_frame st = Ok fr ->
    eval_pairs se globals f st pairs = Ok (vals, st1) ->
    eval se globals f st1 fe = Ok (fv, st2) ->
    to_string (vv fv) = Some (c :: fn) ->
    f_chain fr = root :: rest ->
    let iname := resolve_filename (tpl_is_string root) (tpl_name root) (c :: fn) in
    compile_file se f iname (ms_g st2) = Err 4 ->
    served (se_loaders se) iname = false ->
    exec_node se globals (S f) st (NInclude None (Some fe) pairs only ifx) =
      if ifx then xok [] (mkM (ms_frames st2) (ms_nodes st2) (log_misses (se_loaders se) iname (ms_g st2)))
      else ([], Err 4).
  Proof.
    intros f st fr fe pairs only ifx vals st1 fv st2 c fn root rest Ht Hp He Hs Hc iname Hcf Hsv.
    rewrite exec_node_S_include, Ht. cbv zeta. rewrite Hp, He, Hs, Hc. cbn [hd]. fold iname. rewrite Hcf, Hsv.
    rewrite Bool.andb_true_r. reflexivity.
  Qed.

  (* ... but when some loader HAS the name and compiling it fails with error 4 (it refers, further
     down, to a file that is missing), the error is not swallowed: if_exists or not, error 4 *)
  Lemma include_lazy_served_error : forall f st fr fe pairs only ifx vals st1 fv st2 c fn root rest,
    top_frame st = Ok fr ->
    eval_pairs se globals f st pairs = Ok (vals, st1) ->
    eval se globals f st1 fe = Ok (fv, st2) ->
    to_string (vv fv) = Some (c :: fn) ->
    f_chain fr = root :: rest ->
    let iname := resolve_filename (tpl_is_string root) (tpl_name root) (c :: fn) in
    served (se_loaders se) iname = true ->
    compile_file se f iname (ms_g st2) = Err 4 ->
    exec_node se globals (S f) st (NInclude None (Some fe) pairs only ifx) = ([], Err 4).
  Proof.
    intros f st fr fe pairs only ifx vals st1 fv st2 c fn root rest Ht Hp He Hs Hc iname Hsv Hcf.
    rewrite exec_node_S_include, Ht. cbv zeta. rewrite Hp, He, Hs, Hc. cbn [hd]. fold iname. rewrite Hcf, Hsv.
    rewrite Bool.andb_false_r. reflexivity.
  Qed.

  Lemma include_empty_name : forall f st fr fe pairs only ifx vals st1 fv st2,
    top_frame st = Ok fr ->
    eval_pairs se globals f st pairs = Ok (vals, st1) ->
    eval se globals f st1 fe = Ok (fv, st2) ->
    to_string (vv fv) = Some [] ->
    exec_node se globals (S f) st (NInclude None (Some fe) pairs only ifx) = ([], Err 3).
  Proof.
    intros f st fr fe pairs only ifx vals st1 fv st2 Ht Hp He Hs.
    rewrite exec_node_S_include, Ht. cbv zeta. rewrite Hp, He, Hs. reflexivity.
  Qed.

  Lemma exec_node_S_include_empty : forall f st, exec_node se globals (S f) st NIncludeEmpty = xok [] st.
  Proof. reflexivity. Qed.

  (* ---- the include tag at parse time ---- *)
  Definition tagIncludeParser : str :=
    [116; 97; 103; 73; 110; 99; 108; 117; 100; 101; 80; 97; 114; 115; 101; 114].
  Definition kw_if_exists : str := [105; 102; 95; 101; 120; 105; 115; 116; 115].
  Definition kw_with : str := [119; 105; 116; 104].

  Lemma tag_parser_S_include_static : forall f level args tst g ts fname rest0,
    match_string args = Some (fname, rest0) ->
    tag_parser se (S f) level tagIncludeParser args (tst, g) ts =
      let '(ifexists, rest) := match match_ident_val rest0 kw_if_exists with Some x => (true, x) | None => (false, rest0) end in
      let iname := resolve_filename (t_isstr tst) (t_name tst) fname in
      match compile_file se f iname g with
      | Err 4 => if ifexists && negb (served (se_loaders se) iname) then Ok (NIncludeEmpty, ts, (tst, log_misses (se_loaders se) iname g)) else Err 4
      | Ok (itpl, g1) =>
          do '(pairs, only, rest') <-
            (match match_ident_val rest kw_with with
             | Some r' => include_pairs (se_cfg se) (parse_fuel args) r'
             | None => Ok ([], false, rest)
             end);
          match rest' with
          | [] => Ok (NInclude (Some itpl) None pairs only false, ts, (tst, g1))
          | _ => perr
          end
      | Err k => Err k
      | Unmod => Unmod
      | Fuel => Fuel
      | Panic s => Panic s
      end.
  Proof.
    intros f level args tst g ts fname rest0 H.
    change (tag_parser se (S f) level tagIncludeParser args (tst, g) ts) with
      (match match_string args with
       | Some (fname, rest0) =>
      let '(ifexists, rest) := match match_ident_val rest0 kw_if_exists with Some x => (true, x) | None => (false, rest0) end in
      let iname := resolve_filename (t_isstr tst) (t_name tst) fname in
      match compile_file se f iname g with
      | Err 4 => if ifexists && negb (served (se_loaders se) iname) then Ok (NIncludeEmpty, ts, (tst, log_misses (se_loaders se) iname g)) else Err 4
      | Ok (itpl, g1) =>
          do '(pairs, only, rest') <-
            (match match_ident_val rest kw_with with
             | Some r' => include_pairs (se_cfg se) (parse_fuel args) r'
             | None => Ok ([], false, rest)
             end);
          match rest' with
          | [] => Ok (NInclude (Some itpl) None pairs only false, ts, (tst, g1))
          | _ => perr
          end
      | Err k => Err k
      | Unmod => Unmod
      | Fuel => Fuel
      | Panic s => Panic s
      end
       | None =>
              do '(fe, rest0) <- pexpr (se_cfg se) args;
              let '(ifexists, rest) := match match_ident_val rest0 kw_if_exists with Some x => (true, x) | None => (false, rest0) end in
              do '(pairs, only, rest') <-
                (match match_ident_val rest kw_with with
                 | Some r' => include_pairs (se_cfg se) (parse_fuel args) r'
                 | None => Ok ([], false, rest)
                 end);
              match rest' with
              | [] => Ok (NInclude None (Some fe) pairs only ifexists, ts, (tst, g))
              | _ => perr
              end
       end).
    rewrite H. reflexivity.
  Qed.
End Include.

(* ---- the other tags that name a template: the one file they compile or fetch ---- *)
Definition tagImportParser : str := [116; 97; 103; 73; 109; 112; 111; 114; 116; 80; 97; 114; 115; 101; 114].
Definition tagSSIParser : str := [116; 97; 103; 83; 83; 73; 80; 97; 114; 115; 101; 114].
Definition kw_parsed : str := [112; 97; 114; 115; 101; 100].

Section OtherTags.
  Variable se : senv.

  Lemma tag_parser_S_import : forall f level args tst g ts,
    tag_parser se (S f) level tagImportParser args (tst, g) ts =
      match match_string args with
      | None => perr
      | Some (fname, rest) =>
          let iname := resolve_filename (t_isstr tst) (t_name tst) fname in
          match rest with
          | [] => perr
          | _ =>
              do '(itpl, g1) <- compile_file se f iname g;
              do ms <- import_list (parse_fuel args) (tpl_exported itpl) rest;
              Ok (NImport ms, ts, (tst, g1))
          end
      end.
  Proof. reflexivity. Qed.

  Lemma tag_parser_S_ssi : forall f level args tst g ts,
    tag_parser se (S f) level tagSSIParser args (tst, g) ts =
      match match_string args with
      | None => perr
      | Some (fname, rest) =>
          match match_ident_val rest kw_parsed with
          | Some rest' =>
              let iname := resolve_filename (t_isstr tst) (t_name tst) fname in
              do '(itpl, g1) <- compile_file se f iname g;
              match rest' with [] => Ok (NSsi [] (Some itpl), ts, (tst, g1)) | _ => perr end
          | None =>
              let path := if t_isstr tst then fname else fsloader_abs (t_name tst) fname in
              let '(c, g1) := resolve_template (se_loaders se) 0 path g in
              match c with
              | None => Err 2
              | Some content => match rest with [] => Ok (NSsi content None, ts, (tst, g1)) | _ => perr end
              end
          end
      end.
  Proof. reflexivity. Qed.

  (* an include whose name is an expression fetches nothing at parse time *)
  Lemma include_lazy_parse : forall f level args tst g ts n r st',
    match_string args = None ->
    tag_parser se (S f) level tagIncludeParser args (tst, g) ts = Ok (n, r, st') ->
    st' = (tst, g) /\ r = ts /\
    exists fe pairs only ifx rest0, pexpr (se_cfg se) args = Ok (fe, rest0) /\
                                     n = NInclude None (Some fe) pairs only ifx.
  Proof.
    intros f level args tst g ts n r st' Hm H.
    change (tag_parser se (S f) level tagIncludeParser args (tst, g) ts) with
      (match match_string args with
       | Some (fname, rest0) =>
           let '(ifexists, rest) := match match_ident_val rest0 kw_if_exists with Some x => (true, x) | None => (false, rest0) end in
           let iname := resolve_filename (t_isstr tst) (t_name tst) fname in
           match compile_file se f iname g with
           | Err 4 => if ifexists && negb (served (se_loaders se) iname) then Ok (NIncludeEmpty, ts, (tst, log_misses (se_loaders se) iname g)) else Err 4
           | Ok (itpl, g1) =>
               do '(pairs, only, rest') <-
                 (match match_ident_val rest kw_with with
                  | Some r' => include_pairs (se_cfg se) (parse_fuel args) r'
                  | None => Ok ([], false, rest)
                  end);
               match rest' with
               | [] => Ok (NInclude (Some itpl) None pairs only false, ts, (tst, g1))
               | _ => perr
               end
           | Err k => Err k
           | Unmod => Unmod
           | Fuel => Fuel
           | Panic s => Panic s
           end
       | None =>
           do '(fe, rest0) <- pexpr (se_cfg se) args;
           let '(ifexists, rest) := match match_ident_val rest0 kw_if_exists with Some x => (true, x) | None => (false, rest0) end in
           do '(pairs, only, rest') <-
             (match match_ident_val rest kw_with with
              | Some r' => include_pairs (se_cfg se) (parse_fuel args) r'
              | None => Ok ([], false, rest)
              end);
           match rest' with
           | [] => Ok (NInclude None (Some fe) pairs only ifexists, ts, (tst, g))
           | _ => perr
           end
       end) in H.
    rewrite Hm in H. apply bind_ok_inv in H. destruct H as [[fe rest0] [Hp H]].
    destruct (match match_ident_val rest0 kw_if_exists with Some x => (true, x) | None => (false, rest0) end)
      as [ifx rest].
    apply bind_ok_inv in H. destruct H as [[[pairs only] rest'] [_ H]].
    destruct rest'; [|discriminate H]. injection H as <- <- <-.
    split; [reflexivity|]. split; [reflexivity|].
    exists fe, pairs, only, ifx, rest0. split; [exact Hp|reflexivity].
  Qed.

  (* a literal include of a name that is not found: an error, or with if_exists a node that
     renders nothing; the log then holds one miss per loader *)
  Lemma include_static_missing : forall f level args tst g ts fname rest0,
    match_string args = Some (fname, rest0) ->
    compile_file se f (resolve_filename (t_isstr tst) (t_name tst) fname) g = Err 4 ->
    served (se_loaders se) (resolve_filename (t_isstr tst) (t_name tst) fname) = false ->
    tag_parser se (S f) level tagIncludeParser args (tst, g) ts =
      match match_ident_val rest0 kw_if_exists with
      | Some _ => Ok (NIncludeEmpty, ts,
                      (tst, log_misses (se_loaders se) (resolve_filename (t_isstr tst) (t_name tst) fname) g))
      | None => Err 4
      end.
  Proof.
    intros f level args tst g ts fname rest0 Hm Hc Hsv.
    rewrite (tag_parser_S_include_static se f level args tst g ts fname rest0 Hm).
    destruct (match_ident_val rest0 kw_if_exists); cbv zeta; rewrite Hc, Hsv; reflexivity.
  Qed.

  (* a literal include of a name that some loader HAS and whose compilation fails with error 4
     (a file it refers to is missing): error 4, with or without if_exists *)
  Lemma include_static_served_error : forall f level args tst g ts fname rest0,
    match_string args = Some (fname, rest0) ->
    served (se_loaders se) (resolve_filename (t_isstr tst) (t_name tst) fname) = true ->
    compile_file se f (resolve_filename (t_isstr tst) (t_name tst) fname) g = Err 4 ->
    tag_parser se (S f) level tagIncludeParser args (tst, g) ts = Err 4.
  Proof.
    intros f level args tst g ts fname rest0 Hm Hsv Hc.
    rewrite (tag_parser_S_include_static se f level args tst g ts fname rest0 Hm).
    destruct (match_ident_val rest0 kw_if_exists); cbv zeta; rewrite Hc, Hsv; reflexivity.
  Qed.

  (* a literal include that is found carries the template compiled from exactly that name *)
  Lemma include_static_found : forall f level args tst g ts fname rest0 itpl g1 n r st',
    match_string args = Some (fname, rest0) ->
    compile_file se f (resolve_filename (t_isstr tst) (t_name tst) fname) g = Ok (itpl, g1) ->
    tag_parser se (S f) level tagIncludeParser args (tst, g) ts = Ok (n, r, st') ->
    st' = (tst, g1) /\ r = ts /\ exists pairs only, n = NInclude (Some itpl) None pairs only false.
  Proof.
    intros f level args tst g ts fname rest0 itpl g1 n r st' Hm Hc H.
    rewrite (tag_parser_S_include_static se f level args tst g ts fname rest0 Hm) in H.
    destruct (match match_ident_val rest0 kw_if_exists with Some x => (true, x) | None => (false, rest0) end)
      as [ifx rest].
    cbv zeta in H. rewrite Hc in H.
    apply bind_ok_inv in H. destruct H as [[[pairs only] rest'] [_ H]].
    destruct rest'; [|discriminate H]. injection H as <- <- <-.
    split; [reflexivity|]. split; [reflexivity|]. exists pairs, only. reflexivity.
  Qed.
End OtherTags.

(* a name written as a literal and the same name computed at run time are resolved to the same
   file name whenever the executing root template lives in the directory of the template that
   contains the tag (in particular when that template is executed itself) - rooted or not *)
Lemma literal_equals_computed_name : forall tst root fname,
  tpl_is_string root = t_isstr tst ->
  dir_part (tpl_name root) = dir_part (t_name tst) ->
  resolve_filename (tpl_is_string root) (tpl_name root) fname =
  resolve_filename (t_isstr tst) (t_name tst) fname.
Proof.
  intros tst root fname H1 H2. rewrite H1. apply resolve_filename_same_dir. exact H2.
Qed.

(* ================= C15: whitespace control ================= *)

(* ---- matches on byte literals, as boolean tests ---- *)
Lemma match_byte_10 : forall (A : Type) (d : N) (x y : A),
  match d with 10 => x | _ => y end = if d =? 10 then x else y.
Proof.
  intros A d x y. destruct d as [|p]; [reflexivity|].
  do 4 (destruct p as [p|p|]; try reflexivity).
Qed.
Lemma match_byte_60 : forall (A : Type) (d : N) (x y : A),
  match d with 60 => x | _ => y end = if d =? 60 then x else y.
Proof.
  intros A d x y. destruct d as [|p]; [reflexivity|].
  do 6 (destruct p as [p|p|]; try reflexivity).
Qed.

(* ---- drop_leading / drop_trailing ---- *)
Section Drop.
  Variable p : N -> bool.
  (* the shape the executor uses: a local fixpoint closed over the byte test *)
  Fixpoint dl (l : str) : str :=
    match l with b :: l' => if p b then dl l' else l | [] => [] end.
  Lemma dl_spec : forall l, dl l = drop_leading p l.
  Proof. induction l as [|b l IH]; cbn; [reflexivity|]. rewrite IH. reflexivity. Qed.
End Drop.

Lemma drop_leading_ext : forall p q, (forall b, p b = q b) -> forall l, drop_leading p l = drop_leading q l.
Proof. intros p q H; induction l as [|b l IH]; cbn; [reflexivity|]. rewrite H, IH. reflexivity. Qed.

Lemma drop_trailing_app_keep : forall p l b, p b = false -> drop_trailing p (l ++ [b]) = l ++ [b].
Proof.
  intros p l b Hb; induction l as [|c l IH]; cbn.
  - rewrite Hb. reflexivity.
  - rewrite IH. destruct (l ++ [b]) eqn:E; [destruct l; discriminate|reflexivity].
Qed.
Lemma drop_trailing_app_drop : forall p l b, p b = true -> drop_trailing p (l ++ [b]) = drop_trailing p l.
Proof.
  intros p l b Hb; induction l as [|c l IH]; cbn.
  - rewrite Hb. reflexivity.
  - rewrite IH. reflexivity.
Qed.
Lemma drop_trailing_rev : forall p l, drop_trailing p l = rev (drop_leading p (rev l)).
Proof.
  intros p l. rewrite <- (rev_involutive l) at 1. generalize (rev l) as m. clear l.
  induction m as [|b m IH]; [reflexivity|]. cbn [rev drop_leading].
  destruct (p b) eqn:Hb.
  - rewrite drop_trailing_app_drop by exact Hb. exact IH.
  - rewrite drop_trailing_app_keep by exact Hb. reflexivity.
Qed.

(* what was removed is a prefix / suffix consisting of bytes satisfying the test *)
Lemma drop_leading_split : forall p l, exists a, l = a ++ drop_leading p l /\ forallb p a = true.
Proof.
  intros p; induction l as [|b l [a [E Ha]]]; cbn.
  - exists []; split; reflexivity.
  - destruct (p b) eqn:Hb.
    + exists (b :: a); cbn; rewrite Hb, Ha; split; [f_equal; exact E|reflexivity].
    + exists []; split; reflexivity.
Qed.
Lemma drop_trailing_split : forall p l, exists a, l = drop_trailing p l ++ a /\ forallb p a = true.
Proof.
  intros p l. rewrite drop_trailing_rev.
  destruct (drop_leading_split p (rev l)) as [a [E Ha]].
  exists (rev a); split.
  - rewrite <- rev_app_distr, <- E, rev_involutive. reflexivity.
  - rewrite forallb_forall in *. intros x Hx. apply Ha. apply in_rev. exact Hx.
Qed.
Lemma drop_leading_head : forall p l, match drop_leading p l with b :: _ => p b = false | [] => True end.
Proof.
  intros p; induction l as [|b l IH]; cbn; [exact I|].
  destruct (p b) eqn:Hb; [exact IH|exact Hb].
Qed.
Lemma drop_leading_fix : forall p l, match l with b :: _ => p b = false | [] => True end -> drop_leading p l = l.
Proof. intros p [|b l] H; cbn; [reflexivity|]. rewrite H. reflexivity. Qed.
Lemma drop_leading_idem : forall p l, drop_leading p (drop_leading p l) = drop_leading p l.
Proof. intros p l. apply drop_leading_fix. apply drop_leading_head. Qed.
Lemma drop_trailing_idem : forall p l, drop_trailing p (drop_trailing p l) = drop_trailing p l.
Proof.
  intros p l. rewrite (drop_trailing_rev p l). rewrite drop_trailing_rev, rev_involutive, drop_leading_idem.
  reflexivity.
Qed.
Lemma drop_leading_all : forall p l, forallb p l = true -> drop_leading p l = [].
Proof.
  intros p; induction l as [|b l IH]; cbn; [reflexivity|].
  intros H; apply andb_true_iff in H; destruct H as [Hb Hl]. rewrite Hb. auto.
Qed.
Lemma drop_trailing_nil_iff : forall p l, drop_trailing p l = [] <-> forallb p l = true.
Proof.
  intros p; induction l as [|b l IH]; cbn; [tauto|].
  destruct (drop_trailing p l) eqn:E.
  - destruct (p b); cbn; [tauto|]. split; discriminate.
  - split; [discriminate|]. intros H; apply andb_true_iff in H. destruct H as [_ H].
    apply IH in H; discriminate.
Qed.

(* leading and trailing deletions do not interfere, provided the trailing one deletes
   nothing the leading one would keep (q implies p) *)
Lemma drop_lead_trail_comm : forall p q, (forall b, q b = true -> p b = true) ->
  forall l, drop_leading p (drop_trailing q l) = drop_trailing q (drop_leading p l).
Proof.
  intros p q Hqp; induction l as [|b l IH]; [reflexivity|].
  cbn [drop_trailing drop_leading].
  destruct (p b) eqn:Hb.
  - destruct (drop_trailing q l) as [|c m] eqn:E.
    + rewrite <- IH. destruct (q b); cbn; rewrite ?Hb; reflexivity.
    + cbn [drop_leading]. rewrite Hb. exact IH.
  - cbn [drop_trailing]. destruct (drop_trailing q l) as [|c m] eqn:E.
    + destruct (q b) eqn:Hq; [apply Hqp in Hq; congruence|]. cbn. rewrite Hb. reflexivity.
    + cbn. rewrite Hb. reflexivity.
Qed.

Lemma blank_is_space : forall b, is_blank b = true -> is_tpl_space b = true.
Proof.
  intros b; unfold is_blank, is_tpl_space.
  destruct (b =? 32), (b =? 10), (b =? 13), (b =? 9); cbn; congruence.
Qed.

Lemma drop_leading_newline : forall l, drop_leading is_tpl_space (drop_one_newline l) = drop_leading is_tpl_space l.
Proof.
  intros [|b l]; [reflexivity|]. cbn [drop_one_newline].
  destruct (N.eqb_spec b 10) as [->|Hn]; reflexivity.
Qed.
Lemma drop_newline_nospace : forall l, match l with b :: _ => is_tpl_space b = false | [] => True end ->
  drop_one_newline l = l.
Proof.
  intros [|b l] H; [reflexivity|]. cbn.
  destruct (N.eqb_spec b 10) as [->|Hn]; [discriminate H|reflexivity].
Qed.
Lemma drop_trailing_head : forall p q l, match l with b :: _ => p b = false | [] => True end ->
  match drop_trailing q l with b :: _ => p b = false | [] => True end.
Proof.
  intros p q [|b l] H; [exact I|]. cbn. destruct (drop_trailing q l); [destruct (q b); [exact I|]|]; exact H.
Qed.
Lemma drop_trailing_newline : forall l,
  drop_trailing is_tpl_space (drop_one_newline l) = drop_one_newline (drop_trailing is_tpl_space l).
Proof.
  intros [|b l]; [reflexivity|]. cbn [drop_one_newline].
  destruct (N.eqb_spec b 10) as [->|Hn].
  - cbn [drop_trailing]. destruct (drop_trailing is_tpl_space l); reflexivity.
  - cbn [drop_trailing]. destruct (drop_trailing is_tpl_space l); [destruct (is_tpl_space b)|];
      cbn [drop_one_newline]; try reflexivity;
      destruct (N.eqb_spec b 10); try contradiction; reflexivity.
Qed.
Lemma drop_trailing_app_all : forall p a m, forallb p a = true -> drop_trailing p (m ++ a) = drop_trailing p m.
Proof.
  intros p a; induction a as [|b a IH] using rev_ind; intros m Ha; [rewrite app_nil_r; reflexivity|].
  rewrite forallb_app in Ha. apply andb_true_iff in Ha. destruct Ha as [Ha Hb]. cbn in Hb.
  rewrite app_assoc, drop_trailing_app_drop; [auto|].
  destruct (p b); [reflexivity|discriminate].
Qed.
Lemma drop_trailing_blank_space : forall l,
  drop_trailing is_tpl_space (drop_trailing is_blank l) = drop_trailing is_tpl_space l.
Proof.
  intros l. destruct (drop_trailing_split is_blank l) as [a [E Ha]].
  rewrite E at 2. symmetry. apply drop_trailing_app_all.
  rewrite forallb_forall in *. intros x Hx. apply blank_is_space. auto.
Qed.
Lemma drop_trailing_fix : forall p l, drop_trailing p l = l <-> (forall a b, l = a ++ [b] -> p b = false).
Proof.
  intros p l; split.
  - intros E a b ->. destruct (p b) eqn:Hb; [|reflexivity].
    rewrite drop_trailing_app_drop in E by exact Hb.
    destruct (drop_trailing_split p a) as [x [Ex _]]. rewrite E in Ex.
    apply (f_equal (@length _)) in Ex. rewrite !app_length in Ex. cbn in Ex. lia.
  - intros H. destruct l as [|c l] using rev_ind; [reflexivity|].
    apply drop_trailing_app_keep. eapply H; reflexivity.
Qed.

(* ---- the text a literal contributes: consequences of the specification ---- *)

(* the output is the text minus a white-space prefix and a white-space suffix *)
Lemma trim_spec_substring : forall tb ls tl tr af bf val,
  exists a b, val = a ++ trim_spec tb ls tl tr af bf val ++ b /\
              forallb is_tpl_space a = true /\ forallb is_tpl_space b = true.
Proof.
  intros tb ls tl tr af bf val. unfold trim_spec.
  (* step 1: blanks before a block tag *)
  assert (S1 : exists b1, val = (if ls && bf then drop_trailing is_blank val else val) ++ b1 /\
                          forallb is_tpl_space b1 = true).
  { destruct (ls && bf).
    - destruct (drop_trailing_split is_blank val) as [b1 [E H]]. exists b1; split; [exact E|].
      rewrite forallb_forall in *. intros x Hx. apply blank_is_space. auto.
    - exists []; rewrite app_nil_r; split; reflexivity. }
  destruct S1 as [b1 [E1 H1]]. set (v1 := if ls && bf then _ else _) in *.
  assert (S2 : exists a2, v1 = a2 ++ (if tb && af then drop_one_newline v1 else v1) /\
                          forallb is_tpl_space a2 = true).
  { destruct (tb && af).
    - destruct v1 as [|c r]; [exists []; split; reflexivity|]. cbn.
      destruct (N.eqb_spec c 10) as [->|Hn]; [exists [10]|exists []]; split; reflexivity.
    - exists []; split; reflexivity. }
  destruct S2 as [a2 [E2 H2]]. set (v2 := if tb && af then _ else _) in *.
  assert (S3 : exists a3, v2 = a3 ++ (if tl then drop_leading is_tpl_space v2 else v2) /\
                          forallb is_tpl_space a3 = true).
  { destruct tl; [apply drop_leading_split|exists []; split; reflexivity]. }
  destruct S3 as [a3 [E3 H3]]. set (v3 := if tl then _ else _) in *.
  assert (S4 : exists b4, v3 = (if tr then drop_trailing is_tpl_space v3 else v3) ++ b4 /\
                          forallb is_tpl_space b4 = true).
  { destruct tr; [apply drop_trailing_split|exists []; rewrite app_nil_r; split; reflexivity]. }
  destruct S4 as [b4 [E4 H4]]. set (v4 := if tr then _ else _) in *.
  exists (a2 ++ a3), (b4 ++ b1). split.
  - rewrite E1 at 1. rewrite E2 at 1. rewrite E3 at 1. rewrite E4 at 1.
    rewrite <- !app_assoc. reflexivity.
  - rewrite !forallb_app, H1, H2, H3, H4. split; reflexivity.
Qed.

(* nothing is removed without a marker or option *)
Lemma trim_spec_plain : forall af bf val, trim_spec false false false false af bf val = val.
Proof. reflexivity. Qed.

(* "-" on the left = deleting the leading white space by hand *)
Lemma trim_spec_dash_left : forall tb ls tr af bf val,
  trim_spec tb ls true tr af bf val = trim_spec tb ls false tr af bf (drop_leading is_tpl_space val).
Proof.
  intros tb ls tr af bf val. unfold trim_spec. cbv beta iota zeta.
  set (w := drop_leading is_tpl_space val).
  assert (Hw : match w with b :: _ => is_tpl_space b = false | [] => True end)
    by apply drop_leading_head.
  assert (E1 : drop_leading is_tpl_space (if ls && bf then drop_trailing is_blank val else val) =
               (if ls && bf then drop_trailing is_blank w else w)).
  { destruct (ls && bf); [|reflexivity]. apply drop_lead_trail_comm. exact blank_is_space. }
  assert (Hw1 : match (if ls && bf then drop_trailing is_blank w else w) with
                | b :: _ => is_tpl_space b = false | [] => True end).
  { destruct (ls && bf); [|exact Hw]. apply drop_trailing_head. exact Hw. }
  match goal with |- (if tr then drop_trailing _ ?a else _) = (if tr then drop_trailing _ ?b else _) =>
    assert (E : a = b); [|rewrite E; reflexivity] end.
  destruct (tb && af).
  - rewrite drop_leading_newline, E1. symmetry. apply drop_newline_nospace. exact Hw1.
  - exact E1.
Qed.
Lemma drop_trailing_last : forall p l a b, drop_trailing p l = a ++ [b] -> p b = false.
Proof.
  intros p l a b E. pose proof (drop_trailing_idem p l) as H.
  apply drop_trailing_fix with (a := a) (b := b) in H; assumption.
Qed.

(* "-" on the right = deleting the trailing white space by hand *)
Lemma trim_spec_dash_right : forall tb ls tl af bf val,
  trim_spec tb ls tl true af bf val = trim_spec tb ls tl false af bf (drop_trailing is_tpl_space val).
Proof.
  intros tb ls tl af bf val. unfold trim_spec. cbv beta iota zeta.
  set (w := drop_trailing is_tpl_space val).
  assert (E1 : (if ls && bf then drop_trailing is_blank w else w) = w).
  { destruct (ls && bf); [|reflexivity]. apply drop_trailing_fix. intros a b E.
    apply drop_trailing_last in E. destruct (is_blank b) eqn:Hb; [|reflexivity].
    apply blank_is_space in Hb. congruence. }
  rewrite E1. clear E1.
  assert (E2 : drop_trailing is_tpl_space (if ls && bf then drop_trailing is_blank val else val) = w).
  { destruct (ls && bf); [apply drop_trailing_blank_space|reflexivity]. }
  set (v1 := if ls && bf then drop_trailing is_blank val else val) in *.
  assert (E3 : drop_trailing is_tpl_space (if tb && af then drop_one_newline v1 else v1) =
               (if tb && af then drop_one_newline w else w)).
  { destruct (tb && af); [rewrite drop_trailing_newline|]; rewrite E2; reflexivity. }
  set (v2 := if tb && af then drop_one_newline v1 else v1) in *.
  destruct tl; [|exact E3].
  rewrite <- drop_lead_trail_comm by auto. rewrite E3. reflexivity.
Qed.

(* deleting by hand what the marker deletes anyway changes nothing *)
Lemma trim_spec_dash_left_idem : forall tb ls tr af bf val,
  trim_spec tb ls true tr af bf (drop_leading is_tpl_space val) = trim_spec tb ls true tr af bf val.
Proof.
  intros. rewrite (trim_spec_dash_left tb ls tr af bf (drop_leading _ _)), drop_leading_idem.
  symmetry. apply trim_spec_dash_left.
Qed.
Lemma trim_spec_dash_right_idem : forall tb ls tl af bf val,
  trim_spec tb ls tl true af bf (drop_trailing is_tpl_space val) = trim_spec tb ls tl true af bf val.
Proof.
  intros. rewrite (trim_spec_dash_right tb ls tl af bf (drop_trailing _ _)), drop_trailing_idem.
  symmetry. apply trim_spec_dash_right.
Qed.

Lemma drop_trailing_ext : forall p q, (forall b, p b = q b) -> forall l, drop_trailing p l = drop_trailing q l.
Proof. intros p q H l. rewrite !drop_trailing_rev, (drop_leading_ext p q H). reflexivity. Qed.

(* ---- the table of white-space bytes the executor consults ---- *)
Definition ws_table_ok (t : str) : bool :=
  forallb is_tpl_space t && forallb (fun b => mem_byte b t) [32; 10; 13; 9].
Lemma ws_table_ok_spec : forall t, ws_table_ok t = true -> forall b, mem_byte b t = is_tpl_space b.
Proof.
  intros t H b. apply andb_true_iff in H. destruct H as [H1 H2].
  destruct (mem_byte b t) eqn:Hm.
  - unfold mem_byte in Hm. apply existsb_exists in Hm. destruct Hm as [x [Hx Hbx]].
    apply N.eqb_eq in Hbx. subst x. rewrite forallb_forall in H1. symmetry. auto.
  - symmetry. destruct (is_tpl_space b) eqn:Hs; [|reflexivity]. exfalso.
    rewrite forallb_forall in H2. unfold is_tpl_space in Hs.
    assert (Hin : In b [32; 10; 13; 9]).
    { repeat (apply orb_true_iff in Hs; destruct Hs as [Hs|Hs]);
        apply N.eqb_eq in Hs; subst b; cbn; tauto. }
    apply H2 in Hin. congruence.
Qed.

Section ExecHtml.
  Variable se : senv.
  Variable globals : list (str * cval).

  Lemma exec_node_S_html : forall f st owner val trimL trimR after before,
    exec_node se globals (S f) st (NHtml owner val trimL trimR after before) =
      match top_frame st with
      | Ok fr =>
          let entry := last (f_chain fr) (Tpl 0 [] true [] [] [] None false false) in
          let mine := existsb (fun t => tpl_id t =? owner) (f_chain fr) in
          let v1 := if mine && tpl_lstrip entry && before
                    then rev (dl (fun b => (b =? 9) || (b =? 32)) (rev val)) else val in
          let v2 := if mine && tpl_trim entry && after
                    then match v1 with 10 :: r => r | _ => v1 end else v1 in
          let ws (b : N) := mem_byte b token_space_chars in
          let v3 := if trimL then dl ws v2 else v2 in
          let v4 := if trimR then rev (dl ws (rev v3)) else v3 in
          xok v4 st
      | other => xfail [] other
      end.
  Proof. reflexivity. Qed.

  Lemma match_newline : forall v : str, match v with 10 :: r => r | _ => v end = drop_one_newline v.
  Proof.
    intros [|b r]; [reflexivity|]. cbn [drop_one_newline].
    exact (match_byte_10 _ b r (b :: r)).
  Qed.

  Definition no_tpl : template := Tpl 0 [] true [] [] [] None false false.

  Lemma chain_owner_ids : forall (chain : list template) owner,
    existsb (fun t => tpl_id t =? owner) chain = owned_by_chain (map tpl_id chain) owner.
  Proof.
    intros chain owner. unfold owned_by_chain.
    induction chain as [|t chain IH]; [reflexivity|]. cbn [existsb map]. rewrite IH. reflexivity.
  Qed.

  Lemma html_trim_spec_last : ws_table_ok token_space_chars = true ->
    forall f st fr owner val trimL trimR after before,
      top_frame st = Ok fr ->
      let entry := last (f_chain fr) no_tpl in
      exec_node se globals (S f) st (NHtml owner val trimL trimR after before) =
        xok (trim_spec (owned_by_chain (map tpl_id (f_chain fr)) owner && tpl_trim entry)
                       (owned_by_chain (map tpl_id (f_chain fr)) owner && tpl_lstrip entry)
                       trimL trimR after before val) st.
  Proof.
    intros Hws f st fr owner val trimL trimR after before Htop entry.
    rewrite exec_node_S_html, Htop. cbv zeta. fold no_tpl. fold entry.
    rewrite chain_owner_ids.
    unfold trim_spec. f_equal.
    rewrite !dl_spec, match_newline, <- !drop_trailing_rev.
    rewrite (drop_trailing_ext (fun b => (b =? 9) || (b =? 32)) is_blank)
      by (intros b; unfold is_blank; apply orb_comm).
    rewrite (drop_leading_ext (fun b => mem_byte b token_space_chars) is_tpl_space
               (ws_table_ok_spec _ Hws)).
    rewrite (drop_trailing_ext (fun b => mem_byte b token_space_chars) is_tpl_space
               (ws_table_ok_spec _ Hws)).
    reflexivity.
  Qed.

  (* the literal-text node writes exactly what the specification says, and changes nothing:
     the options are those of the last template of the chain (the one that is executed) and
     they are in force for the texts of every template of the chain *)
  Lemma html_trim_spec_gen : ws_table_ok token_space_chars = true ->
    forall f st fr pre entry owner val trimL trimR after before,
      top_frame st = Ok fr -> f_chain fr = pre ++ [entry] ->
      exec_node se globals (S f) st (NHtml owner val trimL trimR after before) =
        xok (trim_spec (owned_by_chain (map tpl_id (pre ++ [entry])) owner && tpl_trim entry)
                       (owned_by_chain (map tpl_id (pre ++ [entry])) owner && tpl_lstrip entry)
                       trimL trimR after before val) st.
  Proof.
    intros Hws f st fr pre entry owner val trimL trimR after before Htop Hch.
    rewrite (html_trim_spec_last Hws f st fr owner val trimL trimR after before Htop).
    rewrite Hch, last_last. reflexivity.
  Qed.

  Lemma owned_by_chain_member : forall (chain : list template) m,
    In m chain -> owned_by_chain (map tpl_id chain) (tpl_id m) = true.
  Proof.
    intros chain m Hin. unfold owned_by_chain. apply existsb_exists.
    exists (tpl_id m). split; [apply in_map; exact Hin|apply N.eqb_refl].
  Qed.

  (* a text of ANY template of the chain is rewritten under the options of the last one *)
  Lemma html_trim_spec_member_gen : ws_table_ok token_space_chars = true ->
    forall f st fr pre entry m val trimL trimR after before,
      top_frame st = Ok fr -> f_chain fr = pre ++ [entry] -> In m (pre ++ [entry]) ->
      exec_node se globals (S f) st (NHtml (tpl_id m) val trimL trimR after before) =
        xok (trim_spec (tpl_trim entry) (tpl_lstrip entry) trimL trimR after before val) st.
  Proof.
    intros Hws f st fr pre entry m val trimL trimR after before Htop Hch Hin.
    rewrite (html_trim_spec_gen Hws f st fr pre entry _ val trimL trimR after before Htop Hch).
    rewrite (owned_by_chain_member _ _ Hin). reflexivity.
  Qed.

  (* fix D42: the chain base <- ... <- child; the base's texts are treated like the child's *)
  Lemma html_cover_parents_gen : ws_table_ok token_space_chars = true ->
    forall f st fr base mid child val trimL trimR after before,
      top_frame st = Ok fr -> f_chain fr = base :: mid ++ [child] ->
      exec_node se globals (S f) st (NHtml (tpl_id base) val trimL trimR after before) =
        xok (trim_spec (tpl_trim child) (tpl_lstrip child) trimL trimR after before val) st /\
      exec_node se globals (S f) st (NHtml (tpl_id base) val trimL trimR after before) =
      exec_node se globals (S f) st (NHtml (tpl_id child) val trimL trimR after before).
  Proof.
    intros Hws f st fr base mid child val trimL trimR after before Htop Hch.
    change (base :: mid ++ [child]) with ((base :: mid) ++ [child]) in Hch.
    assert (Hb : In base ((base :: mid) ++ [child])) by (left; reflexivity).
    assert (Hc : In child ((base :: mid) ++ [child])) by (apply in_or_app; right; left; reflexivity).
    pose proof (html_trim_spec_member_gen Hws f st fr (base :: mid) child base val
                  trimL trimR after before Htop Hch Hb) as Eb.
    pose proof (html_trim_spec_member_gen Hws f st fr (base :: mid) child child val
                  trimL trimR after before Htop Hch Hc) as Ec.
    split; [exact Eb|]. rewrite Eb, Ec. reflexivity.
  Qed.

  Lemma html_substring_gen : ws_table_ok token_space_chars = true ->
    forall f st fr owner val trimL trimR after before,
      top_frame st = Ok fr ->
      exists out a b,
        exec_node se globals (S f) st (NHtml owner val trimL trimR after before) = xok out st /\
        val = a ++ out ++ b /\ forallb is_tpl_space a = true /\ forallb is_tpl_space b = true.
  Proof.
    intros Hws f st fr owner val trimL trimR after before Htop.
    rewrite (html_trim_spec_last Hws f st fr owner val trimL trimR after before Htop).
    match goal with |- context [xok (trim_spec ?tb ?ls _ _ _ _ _) _] =>
      destruct (trim_spec_substring tb ls trimL trimR after before val) as [a [b [E [Ha Hb]]]];
      exists (trim_spec tb ls trimL trimR after before val), a, b end.
    repeat split; assumption.
  Qed.

  Lemma exec_html_fail : forall f st owner val trimL trimR after before,
    (forall fr, top_frame st <> Ok fr) ->
    exec_node se globals (S f) st (NHtml owner val trimL trimR after before) = xfail [] (top_frame st).
  Proof.
    intros f st owner val trimL trimR after before H. rewrite exec_node_S_html.
    destruct (top_frame st) as [fr| | | |] eqn:E; try reflexivity. exfalso; eapply H; reflexivity.
  Qed.

  (* "{{-" / "-%}" before a text = the text with its leading white space deleted by hand *)
  Lemma html_dash_left_gen : ws_table_ok token_space_chars = true ->
    forall f st owner val trimR after before,
      exec_node se globals f st (NHtml owner val true trimR after before) =
      exec_node se globals f st (NHtml owner (drop_leading is_tpl_space val) false trimR after before).
  Proof.
    intros Hws [|f] st owner val trimR after before; [reflexivity|].
    destruct (top_frame st) as [fr| | | |] eqn:E.
    - rewrite !(html_trim_spec_last Hws f st fr _ _ _ _ _ _ E). cbv zeta.
      rewrite trim_spec_dash_left. reflexivity.
    - rewrite !exec_html_fail by (intros fr; congruence). reflexivity.
    - rewrite !exec_html_fail by (intros fr; congruence). reflexivity.
    - rewrite !exec_html_fail by (intros fr; congruence). reflexivity.
    - rewrite !exec_html_fail by (intros fr; congruence). reflexivity.
  Qed.
  Lemma html_dash_right_gen : ws_table_ok token_space_chars = true ->
    forall f st owner val trimL after before,
      exec_node se globals f st (NHtml owner val trimL true after before) =
      exec_node se globals f st (NHtml owner (drop_trailing is_tpl_space val) trimL false after before).
  Proof.
    intros Hws [|f] st owner val trimL after before; [reflexivity|].
    destruct (top_frame st) as [fr| | | |] eqn:E.
    - rewrite !(html_trim_spec_last Hws f st fr _ _ _ _ _ _ E). cbv zeta.
      rewrite trim_spec_dash_right. reflexivity.
    - rewrite !exec_html_fail by (intros fr; congruence). reflexivity.
    - rewrite !exec_html_fail by (intros fr; congruence). reflexivity.
    - rewrite !exec_html_fail by (intros fr; congruence). reflexivity.
    - rewrite !exec_html_fail by (intros fr; congruence). reflexivity.
  Qed.
  (* ... and a text that was already stripped by hand is not changed by the marker *)
  Lemma html_dash_idem_gen : ws_table_ok token_space_chars = true ->
    forall f st owner val trimL trimR after before,
      exec_node se globals f st
        (NHtml owner (drop_leading is_tpl_space (drop_trailing is_tpl_space val)) true true after before) =
      exec_node se globals f st (NHtml owner val true true after before) /\
      (trimL = true -> exec_node se globals f st (NHtml owner (drop_leading is_tpl_space val) trimL trimR after before) =
                       exec_node se globals f st (NHtml owner val trimL trimR after before)) /\
      (trimR = true -> exec_node se globals f st (NHtml owner (drop_trailing is_tpl_space val) trimL trimR after before) =
                       exec_node se globals f st (NHtml owner val trimL trimR after before)).
  Proof.
    intros Hws f st owner val trimL trimR after before. repeat split.
    - rewrite (html_dash_left_gen Hws), drop_leading_idem, <- (html_dash_left_gen Hws).
      rewrite (html_dash_right_gen Hws), drop_trailing_idem, <- (html_dash_right_gen Hws). reflexivity.
    - intros ->. rewrite (html_dash_left_gen Hws), drop_leading_idem, <- (html_dash_left_gen Hws). reflexivity.
    - intros ->. rewrite (html_dash_right_gen Hws), drop_trailing_idem, <- (html_dash_right_gen Hws). reflexivity.
  Qed.
End ExecHtml.

(* ---- the parser's annotation pass ---- *)
Lemma annotate_length : forall ts prev, length (annotate prev ts) = length ts.
Proof. induction ts as [|t ts IH]; intros prev; cbn; [reflexivity|]. rewrite IH. reflexivity. Qed.
Lemma annotate_toks : forall ts prev, map a_tok (annotate prev ts) = ts.
Proof. induction ts as [|t ts IH]; intros prev; cbn; [reflexivity|]. rewrite IH. reflexivity. Qed.

Lemma annotate_nth : forall ts prev i a,
  nth_error (annotate prev ts) i = Some a ->
  nth_error ts i = Some (a_tok a) /\
  a_trimL a = holds carries_dash (tok_before prev ts i) /\
  a_trimR a = holds carries_dash (tok_after ts i) /\
  a_after a = holds closes_tag (tok_before prev ts i) /\
  a_before a = holds opens_tag (tok_after ts i).
Proof.
  induction ts as [|t ts IH]; intros prev i a H.
  - destruct i; discriminate H.
  - destruct i as [|j].
    + cbn in H. injection H as <-. cbn [a_tok a_trimL a_trimR a_after a_before nth_error tok_before tok_after].
      repeat split; try reflexivity; destruct prev; destruct ts; reflexivity.
    + cbn [annotate nth_error] in H. apply IH in H. destruct H as [H0 [H1 [H2 [H3 H4]]]].
      cbn [nth_error]. repeat split; try assumption.
      * rewrite H1. destruct j; reflexivity.
      * rewrite H3. destruct j; reflexivity.
Qed.

Section ParseHtml.
  Variable se : senv.
  (* a text token becomes a text node carrying the token's text and its four annotations *)
  Lemma parse_elem_html : forall f level st a r,
    ttyp (a_tok a) = THTML ->
    parse_elem se (S f) level st (a :: r) =
      Ok (NHtml (t_id (fst st)) (tval (a_tok a)) (a_trimL a) (a_trimR a) (a_after a) (a_before a), r, st).
  Proof.
    intros f level st a r H.
    change (parse_elem se (S f) level st (a :: r)) with
      (match ttyp (a_tok a) with
       | THTML => Ok (NHtml (t_id (fst st)) (tval (a_tok a)) (a_trimL a) (a_trimR a) (a_after a) (a_before a), r, st)
       | TSymbol =>
           if str_eqb (tval (a_tok a)) [123; 123] then
             let '(code, _) := take_code r in
             let ct := toks_of code in
             do '(e, rt) <- pexpr (se_cfg se) ct;
             let r1 := resync r ct rt in
             match r1 with
             | c :: r2 => if a_is_sym c [125; 125] then Ok (NVar e, r2, st) else perr
             | [] => perr
             end
           else if str_eqb (tval (a_tok a)) [123; 37] then parse_tag se f level st r
           else perr
       | _ => perr
       end).
    rewrite H. reflexivity.
  Qed.
End ParseHtml.

(* ---- spaceless ---- *)
Lemma is_ws_sl_spec : forall b, is_ws_sl b = is_html_space b.
Proof. reflexivity. Qed.

Lemma sl_pass_cons : forall skip lt_seen closing c r,
  sl_pass skip lt_seen closing (c :: r) =
    let lt' := if c =? 10 then false else if c =? 60 then true else lt_seen in
    match skip with
    | S k => sl_pass k lt' false r
    | O =>
        if is_ws_sl c && closing then
          let n := ws_run_len (c :: r) in
          match skipn n (c :: r) with
          | d :: after =>
              if (d =? 60) && gt_before_nl after
              then (fst (sl_pass (n - 1) lt' false r), true)
              else let '(o, ch) := sl_pass 0 lt' false r in (c :: o, ch)
          | [] => let '(o, ch) := sl_pass 0 lt' false r in (c :: o, ch)
          end
        else
          let '(o, ch) := sl_pass 0 lt' ((c =? 62) && lt_seen) r in (c :: o, ch)
    end.
Proof.
  intros skip lt_seen closing c r. cbn [sl_pass]. cbv zeta.
  destruct skip; [|reflexivity].
  destruct (is_ws_sl c && closing); [|reflexivity].
  destruct (skipn (ws_run_len (c :: r)) (c :: r)) as [|d after]; [reflexivity|].
  rewrite match_byte_60. destruct (d =? 60); reflexivity.
Qed.

Lemma ws_run_len_le : forall s, (ws_run_len s <= length s)%nat.
Proof. induction s as [|c r IH]; cbn; [lia|]. destruct (is_ws_sl c); lia. Qed.

Lemma let_pair_cons : forall (X : str * bool) (c : N),
  (let '(o, ch) := X in (c :: o, ch)) = (c :: fst X, snd X).
Proof. intros [o ch] c; reflexivity. Qed.

(* one pass only deletes white space (also when started inside a run that is being skipped) *)
Lemma sl_pass_deletes : forall s skip lt cl,
  (skip <= ws_run_len s)%nat -> deleted_ws s (fst (sl_pass skip lt cl s)).
Proof.
  induction s as [|c r IH]; intros skip lt cl Hs.
  - cbn. constructor.
  - rewrite sl_pass_cons. cbv zeta.
    set (lt' := if c =? 10 then false else if c =? 60 then true else lt).
    cbn [ws_run_len] in Hs |- *.
    destruct skip as [|k].
    + destruct (is_ws_sl c) eqn:Hc; cbn [andb].
      * destruct cl.
        -- destruct (skipn (S (ws_run_len r)) (c :: r)) as [|d after].
           ++ rewrite let_pair_cons. cbn [fst]. apply dw_keep, IH. lia.
           ++ destruct ((d =? 60) && gt_before_nl after).
              ** cbn [fst]. apply dw_drop; [exact Hc|]. apply IH. lia.
              ** rewrite let_pair_cons. cbn [fst]. apply dw_keep, IH. lia.
        -- rewrite let_pair_cons. cbn [fst]. apply dw_keep, IH. lia.
      * rewrite let_pair_cons. cbn [fst]. apply dw_keep, IH. lia.
    + destruct (is_ws_sl c) eqn:Hc; [|lia].
      apply dw_drop; [exact Hc|]. apply IH. lia.
Qed.

Lemma sl_pass_length : forall s skip lt cl,
  (length (fst (sl_pass skip lt cl s)) <= length s - skip)%nat /\
  (snd (sl_pass skip lt cl s) = true -> (length (fst (sl_pass skip lt cl s)) + skip < length s)%nat) /\
  (snd (sl_pass skip lt cl s) = false -> fst (sl_pass skip lt cl s) = skipn skip s).
Proof.
  induction s as [|c r IH]; intros skip lt cl.
  - cbn. repeat split; try lia; try discriminate. destruct skip; reflexivity.
  - rewrite sl_pass_cons. cbv zeta.
    set (lt' := if c =? 10 then false else if c =? 60 then true else lt).
    assert (K : forall cl',
      (length (fst (c :: fst (sl_pass 0 lt' cl' r), snd (sl_pass 0 lt' cl' r))) <= length (c :: r) - 0)%nat /\
      (snd (c :: fst (sl_pass 0 lt' cl' r), snd (sl_pass 0 lt' cl' r)) = true ->
         (length (fst (c :: fst (sl_pass 0 lt' cl' r), snd (sl_pass 0 lt' cl' r))) + 0 < length (c :: r))%nat) /\
      (snd (c :: fst (sl_pass 0 lt' cl' r), snd (sl_pass 0 lt' cl' r)) = false ->
         fst (c :: fst (sl_pass 0 lt' cl' r), snd (sl_pass 0 lt' cl' r)) = skipn 0 (c :: r))).
    { intros cl'. destruct (IH 0%nat lt' cl') as [A [B C]]. cbn [fst snd length skipn].
      repeat split; [lia|intros H; apply B in H; lia|intros H; apply C in H; cbn in H; congruence]. }
    destruct skip as [|k].
    + destruct (is_ws_sl c && cl).
      * destruct (skipn (ws_run_len (c :: r)) (c :: r)) as [|d after].
        -- rewrite let_pair_cons. apply K.
        -- destruct ((d =? 60) && gt_before_nl after).
           ++ destruct (IH (ws_run_len (c :: r) - 1)%nat lt' false) as [A _].
              cbn [fst snd length]. repeat split; [lia|intros _; lia|discriminate].
           ++ rewrite let_pair_cons. apply K.
      * rewrite let_pair_cons. apply K.
    + destruct (IH k lt' false) as [A [B C]]. cbn [length skipn].
      repeat split; [lia|intros H; apply B in H; lia|exact C].
Qed.

Lemma deleted_ws_refl : forall s, deleted_ws s s.
Proof. induction s; constructor; assumption. Qed.
Lemma deleted_ws_trans : forall a b, deleted_ws a b -> forall c, deleted_ws b c -> deleted_ws a c.
Proof.
  induction 1 as [|x s o H IH|x s o Hx H IH]; intros c Hc.
  - exact Hc.
  - inversion Hc; subst.
    + apply dw_keep. auto.
    + apply dw_drop; auto.
  - apply dw_drop; auto.
Qed.
Lemma deleted_ws_visible : forall s o, deleted_ws s o -> visible o = visible s.
Proof.
  unfold visible. induction 1 as [|x s o H IH|x s o Hx H IH]; cbn [filter].
  - reflexivity.
  - rewrite IH. reflexivity.
  - rewrite Hx. cbn [negb]. exact IH.
Qed.
Lemma deleted_ws_length : forall s o, deleted_ws s o -> (length o <= length s)%nat.
Proof. induction 1; cbn; lia. Qed.

Lemma sl_fix_S : forall f s,
  sl_fix (S f) s = if snd (sl_pass 0 false false s) then sl_fix f (fst (sl_pass 0 false false s))
                   else fst (sl_pass 0 false false s).
Proof. intros f s. cbn [sl_fix]. destruct (sl_pass 0 false false s); reflexivity. Qed.

Lemma sl_fix_deletes : forall fuel s, deleted_ws s (sl_fix fuel s).
Proof.
  induction fuel as [|f IH]; intros s; [apply deleted_ws_refl|].
  rewrite sl_fix_S.
  assert (H : deleted_ws s (fst (sl_pass 0 false false s))) by (apply sl_pass_deletes; lia).
  destruct (snd (sl_pass 0 false false s)); [|exact H].
  eapply deleted_ws_trans; [exact H|apply IH].
Qed.

(* with the fuel the executor gives it, the iteration ends in a string no pass changes *)
Lemma sl_fix_stable : forall fuel s, (length s < fuel)%nat ->
  sl_pass 0 false false (sl_fix fuel s) = (sl_fix fuel s, false).
Proof.
  induction fuel as [|f IH]; intros s Hl; [lia|].
  rewrite sl_fix_S. destruct (sl_pass_length s 0%nat false false) as [_ [B C]].
  destruct (snd (sl_pass 0 false false s)) eqn:E.
  - apply IH. specialize (B eq_refl). lia.
  - specialize (C eq_refl). cbn [skipn] in C. rewrite C.
    rewrite (surjective_pairing (sl_pass 0 false false s)), E, C. reflexivity.
Qed.

Lemma spaceless_deletes : forall s o, spaceless_model s = Some o -> deleted_ws s o.
Proof.
  intros s o H. assert (E : o = sl_fix (S (length s)) s) by (unfold spaceless_model in H; congruence).
  subst o. apply sl_fix_deletes.
Qed.
Lemma spaceless_visible : forall s o, spaceless_model s = Some o -> visible o = visible s.
Proof. intros s o H. apply deleted_ws_visible, spaceless_deletes, H. Qed.
Lemma spaceless_idem : forall s o, spaceless_model s = Some o -> spaceless_model o = Some o.
Proof.
  intros s o H. assert (E : o = sl_fix (S (length s)) s) by (unfold spaceless_model in H; congruence).
  subst o. unfold spaceless_model. f_equal.
  rewrite sl_fix_S, (sl_fix_stable (S (length s)) s) by lia. reflexivity.
Qed.
Lemma spaceless_total : forall s, exists o, spaceless_model s = Some o.
Proof. intros s; eexists; reflexivity. Qed.

Section ExecSpaceless.
  Variable se : senv.
  Variable globals : list (str * cval).
  Lemma exec_node_S_spaceless : forall f st body,
    exec_node se globals (S f) st (NSpaceless body) =
      match exec_nodes se globals f st body with
      | (o, Ok st1) => match spaceless_model o with Some s => xok s st1 | None => ([], Unmod) end
      | (_, other) => ([], other)
      end.
  Proof. reflexivity. Qed.

  (* the tag's output is its body's output with white space deleted, and nothing else changed *)
  Lemma exec_spaceless : forall f st body o st1,
    exec_nodes se globals f st body = (o, Ok st1) ->
    exists o', exec_node se globals (S f) st (NSpaceless body) = (o', Ok st1) /\
               deleted_ws o o' /\ visible o' = visible o /\ spaceless_model o' = Some o'.
  Proof.
    intros f st body o st1 H. rewrite exec_node_S_spaceless, H.
    destruct (spaceless_total o) as [o' E]. rewrite E. exists o'. split; [reflexivity|].
    split; [apply spaceless_deletes, E|]. split; [apply spaceless_visible, E|].
    eapply spaceless_idem, E.
  Qed.
End ExecSpaceless.

(* ================= parser invariants (C10, C11) ================= *)

(* ---- one-step unfoldings of the document parser, by conversion ----
   The right-hand sides are the text of the function bodies in Model/ParseDoc.v (the branch
   "| S f =>" of each), copied mechanically by Proofs/gen_parse_unfold.py; if the model changes,
   regenerate this section (a stale copy fails at "reflexivity", it cannot prove anything wrong). *)
Section ParseUnfold.
  Variable se : senv.
  Local Notation cfg := (se_cfg se).
  Local Notation parse_elem := (PV.Model.ParseDoc.parse_elem se).
  Local Notation wrap_until := (PV.Model.ParseDoc.wrap_until se).
  Local Notation parse_tag := (PV.Model.ParseDoc.parse_tag se).
  Local Notation tag_parser := (PV.Model.ParseDoc.tag_parser se).
  Local Notation if_branches := (PV.Model.ParseDoc.if_branches se).
  Local Notation parse_doc := (PV.Model.ParseDoc.parse_doc se).
  Local Notation compile_src := (PV.Model.ParseDoc.compile_src se).
  Local Notation compile_file := (PV.Model.ParseDoc.compile_file se).
  Local Notation fetch := (PV.Model.ParseDoc.fetch se).
  Lemma parse_elem_unfold : forall f level st ts,
    parse_elem (S f) level st ts =
        match ts with
        | [] => perr
        | a :: r =>
            let t := a_tok a in
            match ttyp t with
            | THTML => Ok (NHtml (t_id (fst st)) (tval t) (a_trimL a) (a_trimR a) (a_after a) (a_before a), r, st)
            | TSymbol =>
                if str_eqb (tval t) [123; 123] (* {{ *) then
                  let '(code, _) := take_code r in
                  let ct := toks_of code in
                  do '(e, rt) <- pexpr cfg ct;
                  let r1 := resync r ct rt in
                  match r1 with
                  | c :: r2 => if a_is_sym c [125; 125] (* }} *) then Ok (NVar e, r2, st) else perr
                  | [] => perr
                  end
                else if str_eqb (tval t) [123; 37] (* {% *) then parse_tag f level st r
                else perr
            | _ => perr
            end
        end.
  Proof. reflexivity. Qed.
  Lemma wrap_until_unfold : forall f level names st ts,
    wrap_until (S f) level names st ts =
        match ts with
        | [] => perr
        | a :: r =>
            let stop :=
              if a_is_sym a [123; 37] (* {% *) then
                match r with
                | b :: r' => if a_is_ident b && str_in (tval (a_tok b)) names then Some (tval (a_tok b), r') else None
                | [] => None
                end
              else None in
            match stop with
            | Some (name, r') => do '(args, r2) <- end_args r' []; Ok ([], name, args, r2, st)
            | None =>
                do '(n, r1, st1) <- parse_elem f level st ts;
                do '(ns, name, args, r2, st2) <- wrap_until f level names st1 r1;
                Ok (n :: ns, name, args, r2, st2)
            end
        end.
  Proof. reflexivity. Qed.
  Lemma parse_tag_unfold : forall f level st ts,
    parse_tag (S f) level st ts =
        match ts with
        | [] => perr
        | nm :: r =>
            if negb (a_is_ident nm) then perr
            else
              let name := tval (a_tok nm) in
              if negb (str_in name (cfg_tags cfg)) then perr
              else if str_in name (cfg_banned_tags cfg) then perr
              else
              match assoc_get name tag_impl with
              | None => Unmod          (* a tag registered outside the package *)
              | Some impl =>
                    (* arguments up to "%}" *)
                    let fix collect (l : list atok) (acc : list token) : option (list token * list atok) :=
                      match l with
                      | [] => None
                      | x :: l' => if a_is_sym x [37; 125] (* %} *) then Some (rev acc, l') else collect l' (a_tok x :: acc)
                      end in
                    match collect r [] with
                    | None => perr
                    | Some (args, body) => tag_parser f (S level) impl args st body
                    end
              end
        end.
  Proof. reflexivity. Qed.
  Lemma tag_parser_unfold : forall f level impl args st ts,
    tag_parser (S f) level impl args st ts =
        let af := parse_fuel args in
        if tag_is impl [116; 97; 103; 65; 117; 116; 111; 101; 115; 99; 97; 112; 101; 80; 97; 114; 115; 101; 114] (* tagAutoescapeParser *) then
          do '(body, _, _, r, st1) <- wrap_until f level [ [101; 110; 100; 97; 117; 116; 111; 101; 115; 99; 97; 112; 101] (* endautoescape *) ] st ts;
          match match_ident args with
          | None => perr
          | Some (mode, rest) =>
              if str_eqb mode [111; 110] (* on *) then match rest with [] => Ok (NAutoescape true body, r, st1) | _ => perr end
              else if str_eqb mode [111; 102; 102] (* off *) then match rest with [] => Ok (NAutoescape false body, r, st1) | _ => perr end
              else perr
          end
        else if tag_is impl [116; 97; 103; 66; 108; 111; 99; 107; 80; 97; 114; 115; 101; 114] (* tagBlockParser *) then
          match args with
          | [] => perr
          | _ =>
              match match_ident args with
              | None => perr
              | Some (bname, rest) =>
                  match rest with
                  | _ :: _ => perr
                  | [] =>
                      do '(body, _, eargs, r, st1) <- wrap_until f level [ [101; 110; 100; 98; 108; 111; 99; 107] (* endblock *) ] st ts;
                      do _ <- (match eargs with
                               | [] => Ok tt
                               | _ => match match_ident eargs with
                                      | Some (en, er) =>
                                          if negb (str_eqb en bname) then perr
                                          else match er with [] => Ok tt | _ => perr end
                                      | None => perr
                                      end
                               end);
                      let '(tst, g) := st1 in
                      match assoc_get bname (t_blocks tst) with
                      | Some _ => perr
                      | None =>
                          let tst' := mkT (t_id tst) (t_name tst) (t_isstr tst) (t_blocks tst ++ [(bname, body)])
                                          (t_exported tst) (t_parent tst) in
                          Ok (NBlock bname, r, (tst', g))
                      end
                  end
              end
          end
        else if tag_is impl [116; 97; 103; 67; 111; 109; 109; 101; 110; 116; 80; 97; 114; 115; 101; 114] (* tagCommentParser *) then
          do r <- skip_until [ [101; 110; 100; 99; 111; 109; 109; 101; 110; 116] (* endcomment *) ] ts;
          match args with [] => Ok (NComment, r, st) | _ => perr end
        else if tag_is impl [116; 97; 103; 67; 121; 99; 108; 101; 80; 97; 114; 115; 101; 114] (* tagCycleParser *) then
          do '(es, asname, silent, rest) <- cycle_args cfg af args;
          match rest with
          | _ :: _ => perr
          | [] =>
              match es with
              | [] => perr
              | _ => let '(tst, g) := st in
                     let '(id, g') := g_fresh g in
                     Ok (NCycle id es asname silent, ts, (tst, g'))
              end
          end
        else if tag_is impl [116; 97; 103; 69; 120; 116; 101; 110; 100; 115; 80; 97; 114; 115; 101; 114] (* tagExtendsParser *) then
          let '(tst, g) := st in
          if Nat.ltb 1 level then perr
          else match t_parent tst with
               | Some _ => perr
               | None =>
                   match match_string args with
                   | None => perr
                   | Some (fname, rest) =>
                       let pname := resolve_filename (t_isstr tst) (t_name tst) fname in
                       do '(ptpl, g1) <- compile_file f pname g;
                       match rest with
                       | _ :: _ => perr
                       | [] =>
                           let tst' := mkT (t_id tst) (t_name tst) (t_isstr tst) (t_blocks tst) (t_exported tst) (Some ptpl) in
                           Ok (NExtends, ts, (tst', g1))
                       end
                   end
               end
        else if tag_is impl [116; 97; 103; 70; 105; 108; 116; 101; 114; 80; 97; 114; 115; 101; 114] (* tagFilterParser *) then
          do '(body, _, _, r, st1) <- wrap_until f level [ [101; 110; 100; 102; 105; 108; 116; 101; 114] (* endfilter *) ] st ts;
          do '(chain, rest) <- filter_tag_chain cfg af args;
          match rest with [] => Ok (NFilterTag chain body, r, st1) | _ => perr end
        else if tag_is impl [116; 97; 103; 70; 105; 114; 115; 116; 111; 102; 80; 97; 114; 115; 101; 114] (* tagFirstofParser *) then
          do es <- pexprs cfg af args; Ok (NFirstof es, ts, st)
        else if tag_is impl [116; 97; 103; 70; 111; 114; 80; 97; 114; 115; 101; 114] (* tagForParser *) then
          match match_ident args with
          | None => perr
          | Some (key, r0) =>
              do '(value, r1) <-
                (match match_sym r0 [44] (* , *) with
                 | Some r' => match match_ident r' with Some (v, r'') => Ok (v, r'') | None => perr end
                 | None => Ok ([], r0)
                 end);
              match match_kw r1 [105; 110] (* in *) with
              | None => perr
              | Some r2 =>
                  do '(obj, r3) <- pexpr cfg r2;
                  let '(reversed, r4) := match match_ident_val r3 [114; 101; 118; 101; 114; 115; 101; 100] (* reversed *) with Some x => (true, x) | None => (false, r3) end in
                  let '(sorted, r5) := match match_ident_val r4 [115; 111; 114; 116; 101; 100] (* sorted *) with Some x => (true, x) | None => (false, r4) end in
                  match r5 with
                  | _ :: _ => perr
                  | [] =>
                      do '(body, endtag, eargs, r, st1) <- wrap_until f level [ [101; 109; 112; 116; 121] (* empty *); [101; 110; 100; 102; 111; 114] (* endfor *) ] st ts;
                      match eargs with
                      | _ :: _ => perr
                      | [] =>
                          if str_eqb endtag [101; 109; 112; 116; 121] (* empty *) then
                            do '(ebody, _, eargs2, r', st2) <- wrap_until f level [ [101; 110; 100; 102; 111; 114] (* endfor *) ] st1 r;
                            match eargs2 with
                            | [] => Ok (NFor key value obj reversed sorted body (Some ebody), r', st2)
                            | _ => perr
                            end
                          else Ok (NFor key value obj reversed sorted body None, r, st1)
                      end
                  end
              end
          end
        else if tag_is impl [116; 97; 103; 73; 102; 80; 97; 114; 115; 101; 114] (* tagIfParser *) then
          do '(c0, rest) <- pexpr cfg args;
          match rest with
          | _ :: _ => perr
          | [] => do '(conds, wrappers, r, st1) <- if_branches f level [c0] [] st ts;
                  Ok (NIf conds wrappers, r, st1)
          end
        else if tag_is impl [116; 97; 103; 73; 102; 99; 104; 97; 110; 103; 101; 100; 80; 97; 114; 115; 101; 114] (* tagIfchangedParser *) then
          do es <- pexprs cfg af args;
          do '(body, endtag, eargs, r, st1) <- wrap_until f level [ [101; 108; 115; 101] (* else *); [101; 110; 100; 105; 102; 99; 104; 97; 110; 103; 101; 100] (* endifchanged *) ] st ts;
          match eargs with
          | _ :: _ => perr
          | [] =>
              let '(tst, g) := st1 in
              let '(id, g') := g_fresh g in
              if str_eqb endtag [101; 108; 115; 101] (* else *) then
                do '(ebody, _, eargs2, r', st2) <- wrap_until f level [ [101; 110; 100; 105; 102; 99; 104; 97; 110; 103; 101; 100] (* endifchanged *) ] (tst, g') r;
                match eargs2 with [] => Ok (NIfchanged id es body (Some ebody), r', st2) | _ => perr end
              else Ok (NIfchanged id es body None, r, (tst, g'))
          end
        else if tag_is impl [116; 97; 103; 73; 102; 69; 113; 117; 97; 108; 80; 97; 114; 115; 101; 114] (* tagIfEqualParser *) || tag_is impl [116; 97; 103; 73; 102; 78; 111; 116; 69; 113; 117; 97; 108; 80; 97; 114; 115; 101; 114] (* tagIfNotEqualParser *) then
          let negated := tag_is impl [116; 97; 103; 73; 102; 78; 111; 116; 69; 113; 117; 97; 108; 80; 97; 114; 115; 101; 114] (* tagIfNotEqualParser *) in
          let endname := if negated then [101; 110; 100; 105; 102; 110; 111; 116; 101; 113; 117; 97; 108] (* endifnotequal *) else [101; 110; 100; 105; 102; 101; 113; 117; 97; 108] (* endifequal *) in
          do '(e1, r1) <- pexpr cfg args;
          do '(e2, r2) <- pexpr cfg r1;
          match r2 with
          | _ :: _ => perr
          | [] =>
              do '(body, endtag, eargs, r, st1) <- wrap_until f level [ [101; 108; 115; 101] (* else *); endname ] st ts;
              match eargs with
              | _ :: _ => perr
              | [] =>
                  if str_eqb endtag [101; 108; 115; 101] (* else *) then
                    do '(ebody, _, eargs2, r', st2) <- wrap_until f level [endname] st1 r;
                    match eargs2 with [] => Ok (NIfequal negated e1 e2 body (Some ebody), r', st2) | _ => perr end
                  else Ok (NIfequal negated e1 e2 body None, r, st1)
              end
          end
        else if tag_is impl [116; 97; 103; 73; 109; 112; 111; 114; 116; 80; 97; 114; 115; 101; 114] (* tagImportParser *) then
          let '(tst, g) := st in
          match match_string args with
          | None => perr
          | Some (fname, rest) =>
              let iname := resolve_filename (t_isstr tst) (t_name tst) fname in
              match rest with
              | [] => perr
              | _ =>
                  do '(itpl, g1) <- compile_file f iname g;
                  do ms <- import_list af (tpl_exported itpl) rest;
                  Ok (NImport ms, ts, (tst, g1))
              end
          end
        else if tag_is impl [116; 97; 103; 73; 110; 99; 108; 117; 100; 101; 80; 97; 114; 115; 101; 114] (* tagIncludeParser *) then
          let '(tst, g) := st in
          match match_string args with
          | Some (fname, rest0) =>
              let '(ifexists, rest) := match match_ident_val rest0 [105; 102; 95; 101; 120; 105; 115; 116; 115] (* if_exists *) with Some x => (true, x) | None => (false, rest0) end in
              let iname := resolve_filename (t_isstr tst) (t_name tst) fname in
              match compile_file f iname g with
              | Err 4 => if ifexists && negb (served (se_loaders se) iname) then Ok (NIncludeEmpty, ts, (tst, log_misses (se_loaders se) iname g)) else Err 4
              | Ok (itpl, g1) =>
                  do '(pairs, only, rest') <-
                    (match match_ident_val rest [119; 105; 116; 104] (* with *) with
                     | Some r' => include_pairs cfg af r'
                     | None => Ok ([], false, rest)
                     end);
                  match rest' with
                  | [] => Ok (NInclude (Some itpl) None pairs only false, ts, (tst, g1))
                  | _ => perr
                  end
              | Err k => Err k
              | Unmod => Unmod
              | Fuel => Fuel
              | Panic s => Panic s
              end
          | None =>
              do '(fe, rest0) <- pexpr cfg args;
              let '(ifexists, rest) := match match_ident_val rest0 [105; 102; 95; 101; 120; 105; 115; 116; 115] (* if_exists *) with Some x => (true, x) | None => (false, rest0) end in
              do '(pairs, only, rest') <-
                (match match_ident_val rest [119; 105; 116; 104] (* with *) with
                 | Some r' => include_pairs cfg af r'
                 | None => Ok ([], false, rest)
                 end);
              match rest' with
              | [] => Ok (NInclude None (Some fe) pairs only ifexists, ts, st)
              | _ => perr
              end
          end
        else if tag_is impl [116; 97; 103; 77; 97; 99; 114; 111; 80; 97; 114; 115; 101; 114] (* tagMacroParser *) then
          match match_ident args with
          | None => perr
          | Some (mname, r0) =>
              match match_sym r0 [40] (* ( *) with
              | None => perr
              | Some r1 =>
                  do '(params, r2) <- macro_params cfg af r1;
                  let '(exported, r3) := match match_kw r2 [101; 120; 112; 111; 114; 116] (* export *) with Some x => (true, x) | None => (false, r2) end in
                  match r3 with
                  | _ :: _ => perr
                  | [] =>
                      do '(body, _, eargs, r, st1) <- wrap_until f level [ [101; 110; 100; 109; 97; 99; 114; 111] (* endmacro *) ] st ts;
                      match eargs with
                      | _ :: _ => perr
                      | [] =>
                          let m := Macro mname params body exported in
                          let '(tst, g) := st1 in
                          if exported then
                            match assoc_get mname (t_exported tst) with
                            | Some _ => perr
                            | None =>
                                let tst' := mkT (t_id tst) (t_name tst) (t_isstr tst) (t_blocks tst)
                                                (t_exported tst ++ [(mname, m)]) (t_parent tst) in
                                Ok (NMacro m, r, (tst', g))
                            end
                          else Ok (NMacro m, r, st1)
                      end
                  end
              end
          end
        else if tag_is impl [116; 97; 103; 83; 101; 116; 80; 97; 114; 115; 101; 114] (* tagSetParser *) then
          match match_ident args with
          | None => perr
          | Some (name, r0) =>
              match match_sym r0 [61] (* = *) with
              | None => perr
              | Some r1 => do '(e, r2) <- pexpr cfg r1;
                           match r2 with [] => Ok (NSet name e, ts, st) | _ => perr end
              end
          end
        else if tag_is impl [116; 97; 103; 83; 112; 97; 99; 101; 108; 101; 115; 115; 80; 97; 114; 115; 101; 114] (* tagSpacelessParser *) then
          do '(body, _, _, r, st1) <- wrap_until f level [ [101; 110; 100; 115; 112; 97; 99; 101; 108; 101; 115; 115] (* endspaceless *) ] st ts;
          match args with [] => Ok (NSpaceless body, r, st1) | _ => perr end
        else if tag_is impl [116; 97; 103; 83; 83; 73; 80; 97; 114; 115; 101; 114] (* tagSSIParser *) then
          let '(tst, g) := st in
          match match_string args with
          | None => perr
          | Some (fname, rest) =>
              match match_ident_val rest [112; 97; 114; 115; 101; 100] (* parsed *) with
              | Some rest' =>
                  let iname := resolve_filename (t_isstr tst) (t_name tst) fname in
                  do '(itpl, g1) <- compile_file f iname g;
                  match rest' with [] => Ok (NSsi [] (Some itpl), ts, (tst, g1)) | _ => perr end
              | None =>
                  (* resolveTemplate(doc.template, name): each loader's Abs relative to this template *)
                  let path := if t_isstr tst then fname else fsloader_abs (t_name tst) fname in
                  let '(c, g1) := resolve_template (se_loaders se) 0 path g in
                  match c with
                  | None => Err 2
                  | Some content => match rest with [] => Ok (NSsi content None, ts, (tst, g1)) | _ => perr end
                  end
              end
          end
        else if tag_is impl [116; 97; 103; 84; 101; 109; 112; 108; 97; 116; 101; 84; 97; 103; 80; 97; 114; 115; 101; 114] (* tagTemplateTagParser *) then
          match match_ident args with
          | None => perr
          | Some (w, rest) =>
              match assoc_get w templatetag_map with
              | None => perr
              | Some out => match rest with [] => Ok (NTemplatetag out, ts, st) | _ => perr end
              end
          end
        else if tag_is impl [116; 97; 103; 87; 105; 100; 116; 104; 114; 97; 116; 105; 111; 80; 97; 114; 115; 101; 114] (* tagWidthratioParser *) then
          do '(e1, r1) <- pexpr cfg args;
          do '(e2, r2) <- pexpr cfg r1;
          do '(e3, r3) <- pexpr cfg r2;
          do '(name, r4) <-
            (match match_kw r3 [97; 115] (* as *) with
             | Some r' => match match_ident r' with Some (n, r'') => Ok (n, r'') | None => perr end
             | None => Ok ([], r3)
             end);
          match r4 with [] => Ok (NWidthratio e1 e2 e3 name, ts, st) | _ => perr end
        else if tag_is impl [116; 97; 103; 87; 105; 116; 104; 80; 97; 114; 115; 101; 114] (* tagWithParser *) then
          match args with
          | [] => perr
          | _ =>
              do '(body, _, eargs, r, st1) <- wrap_until f level [ [101; 110; 100; 119; 105; 116; 104] (* endwith *) ] st ts;
              match eargs with
              | _ :: _ => perr
              | [] =>
                  do pairs <- (if has_kw_as args then with_pairs_old cfg af args else with_pairs_new cfg af args);
                  Ok (NWith pairs body, r, st1)
              end
          end
        else Unmod    (* lorem, now, and tags a change may add *).
  Proof. reflexivity. Qed.
  Lemma if_branches_unfold : forall f level conds wrappers st ts,
    if_branches (S f) level conds wrappers st ts =
        do '(body, endtag, eargs, r, st1) <- wrap_until f level [ [101; 108; 105; 102] (* elif *); [101; 108; 115; 101] (* else *); [101; 110; 100; 105; 102] (* endif *) ] st ts;
        let wrappers' := wrappers ++ [body] in
        if str_eqb endtag [101; 108; 105; 102] (* elif *) then
          do '(c, rest) <- pexpr cfg eargs;
          match rest with
          | _ :: _ => perr
          | [] => if_branches f level (conds ++ [c]) wrappers' st1 r
          end
        else
          match eargs with
          | _ :: _ => perr
          | [] => if str_eqb endtag [101; 110; 100; 105; 102] (* endif *) then Ok (conds, wrappers', r, st1)
                  else if_branches f level conds wrappers' st1 r
          end.
  Proof. reflexivity. Qed.
  Lemma parse_doc_unfold : forall f st ts,
    parse_doc (S f) st ts =
        match ts with
        | [] => Ok ([], st)
        | _ => do '(n, r, st1) <- parse_elem f 0 st ts;
               do '(ns, st2) <- parse_doc f st1 r;
               Ok (n :: ns, st2)
        end.
  Proof. reflexivity. Qed.
  Lemma compile_src_unfold : forall f name isstr src g,
    compile_src (S f) name isstr src g =
        match lex src with
        | LexFuel => Fuel
        | LexFail _ => Err 1
        | LexOk toks =>
            let '(id, g1) := g_fresh g in
            let tst := mkT id name isstr [] [] None in
            do '(root, (tst', g2)) <- parse_doc f (tst, g1) (annotate None toks);
            Ok (Tpl id name isstr root (t_blocks tst') (t_exported tst') (t_parent tst') (se_trim se) (se_lstrip se), g2)
        end.
  Proof. reflexivity. Qed.
  Lemma compile_file_unfold : forall f path g,
    compile_file (S f) path g =
 do '(content, g1) <- fetch path g; compile_src f path false content g1.
  Proof. reflexivity. Qed.
End ParseUnfold.

(* ---- the identity of the template being parsed never changes ---- *)
Lemma same_ident_refl : forall st, same_ident st st.
Proof. intros st; repeat split. Qed.
Lemma same_ident_trans : forall a b c, same_ident a b -> same_ident b c -> same_ident a c.
Proof. unfold same_ident; intros a b c [H1 [H2 H3]] [H4 [H5 H6]]. repeat split; congruence. Qed.

Ltac crunch H :=
  repeat (first
    [ discriminate H
    | match type of H with
      | bind ?r _ = Ok _ =>
          let E := fresh "E" in
          apply bind_ok_inv in H; destruct H as [? [E H]]; cbv beta in H
      | (let _ := _ in _) = Ok _ => cbv zeta in H
      | (if ?c then _ else _) = Ok _ => destruct c eqn:?
      | match ?x with _ => _ end = Ok _ => destruct x eqn:?
      end ]).

Section ParseIdent.
  Variable se : senv.

  Definition ident_inv (f : nat) : Prop :=
    (forall level st ts n r st', parse_elem se f level st ts = Ok (n, r, st') -> same_ident st st') /\
    (forall level names st ts ns nm args r st',
        wrap_until se f level names st ts = Ok (ns, nm, args, r, st') -> same_ident st st') /\
    (forall level st ts n r st', parse_tag se f level st ts = Ok (n, r, st') -> same_ident st st') /\
    (forall level impl args st ts n r st',
        tag_parser se f level impl args st ts = Ok (n, r, st') -> same_ident st st') /\
    (forall level conds ws st ts cs ws' r st',
        if_branches se f level conds ws st ts = Ok (cs, ws', r, st') -> same_ident st st') /\
    (forall st ts ns st', parse_doc se f st ts = Ok (ns, st') -> same_ident st st').

  Ltac use_ih Helem Hwrap Htag Htp Hif Hdoc :=
    repeat match goal with
    | E : parse_elem se _ _ _ _ = Ok _ |- _ => apply Helem in E
    | E : wrap_until se _ _ _ _ _ = Ok _ |- _ => apply Hwrap in E
    | E : parse_tag se _ _ _ _ = Ok _ |- _ => apply Htag in E
    | E : tag_parser se _ _ _ _ _ _ = Ok _ |- _ => apply Htp in E
    | E : if_branches se _ _ _ _ _ _ = Ok _ |- _ => apply Hif in E
    | E : parse_doc se _ _ _ = Ok _ |- _ => apply Hdoc in E
    end.
  Ltac finish :=
    match goal with H : Ok _ = Ok _ |- _ => injection H as <- <- <- end ||
    match goal with H : Ok _ = Ok _ |- _ => injection H as <- <- <- <- end ||
    match goal with H : Ok _ = Ok _ |- _ => injection H as <- <- <- <- <- end ||
    match goal with H : Ok _ = Ok _ |- _ => injection H as <- <- end.

  Lemma ident_inv_all : forall f, ident_inv f.
  Proof.
    induction f as [|f [Helem [Hwrap [Htag [Htp [Hif Hdoc]]]]]].
    - repeat split; intros; discriminate.
    - unfold ident_inv. split; [|split; [|split; [|split; [|split]]]].
      + intros level st ts n r st' H. rewrite parse_elem_unfold in H. cbv zeta in H.
        crunch H; use_ih Helem Hwrap Htag Htp Hif Hdoc; try finish; subst;
          try apply same_ident_refl; try assumption.
      + intros level names st ts ns nm args r st' H. rewrite wrap_until_unfold in H. cbv zeta in H.
        crunch H; use_ih Helem Hwrap Htag Htp Hif Hdoc; try finish; subst;
          try apply same_ident_refl; try assumption;
          try (eapply same_ident_trans; eassumption).
      + intros level st ts n r st' H. rewrite parse_tag_unfold in H. cbv zeta in H.
        crunch H; use_ih Helem Hwrap Htag Htp Hif Hdoc; try finish; subst;
          try apply same_ident_refl; try assumption.
      + intros level impl args st ts n r st' H. rewrite tag_parser_unfold in H. cbv zeta in H.
        crunch H; use_ih Helem Hwrap Htag Htp Hif Hdoc; try finish; subst;
          try apply same_ident_refl; try assumption;
          try (eapply same_ident_trans; eassumption);
          try (unfold same_ident in *; cbn [fst t_id t_name t_isstr] in *; intuition congruence).
      + intros level conds ws st ts cs ws' r st' H. rewrite if_branches_unfold in H. cbv zeta in H.
        crunch H; use_ih Helem Hwrap Htag Htp Hif Hdoc; try finish; subst;
          try apply same_ident_refl; try assumption;
          try (eapply same_ident_trans; eassumption).
      + intros st ts ns st' H. rewrite parse_doc_unfold in H. cbv zeta in H.
        crunch H; use_ih Helem Hwrap Htag Htp Hif Hdoc; try finish; subst;
          try apply same_ident_refl; try assumption;
          try (eapply same_ident_trans; eassumption).
  Qed.
End ParseIdent.

Section CompileIdent.
  Variable se : senv.
  (* a compiled template carries the name it was compiled under, and while it is parsed every tag
     parser sees that name: "the referring template" of its tags is the template itself *)
  Lemma compile_src_ident : forall f name isstr src g t g',
    compile_src se f name isstr src g = Ok (t, g') ->
    tpl_name t = name /\ tpl_is_string t = isstr /\ tpl_id t = g_nid g /\
    tpl_trim t = se_trim se /\ tpl_lstrip t = se_lstrip se.
  Proof.
    intros [|f] name isstr src g t g' H; [discriminate H|].
    rewrite compile_src_unfold in H. crunch H.
    match goal with H : Ok _ = Ok _ |- _ => injection H as <- <- end.
    match goal with H : g_fresh _ = _ |- _ => unfold g_fresh in H; injection H as <- <- end.
    repeat split.
  Qed.
  Lemma compile_file_ident : forall f path g t g',
    compile_file se f path g = Ok (t, g') -> tpl_name t = path /\ tpl_is_string t = false.
  Proof.
    intros [|f] path g t g' H; [discriminate H|].
    rewrite compile_file_unfold in H. crunch H.
    match goal with H : compile_src _ _ _ _ _ _ = Ok _ |- _ => apply compile_src_ident in H end.
    tauto.
  Qed.
End CompileIdent.

(* ---- block names of a template are unique ---- *)
Lemma assoc_get_none_notin : forall (A : Type) k (l : list (str * A)), assoc_get k l = None -> ~ In k (map fst l).
Proof.
  intros A k; induction l as [|[k0 v] l IH]; cbn; intros H; [tauto|].
  destruct (cstr_eqb_spec k k0) as [->|Hn]; [discriminate H|].
  intros [E|E]; [congruence|]. exact (IH H E).
Qed.
Lemma nodup_snoc : forall (l : list str) k, NoDup l -> ~ In k l -> NoDup (l ++ [k]).
Proof.
  induction l as [|x l IH]; intros k Hn Hk; cbn.
  - constructor; [tauto|constructor].
  - inversion Hn; subst. constructor.
    + rewrite in_app_iff. cbn. intros [H|[H|[]]]; [tauto|]. apply Hk. left. symmetry. exact H.
    + apply IH; [assumption|]. intros H. apply Hk. right. exact H.
Qed.

Definition blocks_unique (st : tstate * gstate) : Prop := NoDup (map fst (t_blocks (fst st))).
Definition keeps_unique (st st' : tstate * gstate) : Prop := blocks_unique st -> blocks_unique st'.

Section ParseBlocks.
  Variable se : senv.

  Definition blocks_inv (f : nat) : Prop :=
    (forall level st ts n r st', parse_elem se f level st ts = Ok (n, r, st') -> keeps_unique st st') /\
    (forall level names st ts ns nm args r st',
        wrap_until se f level names st ts = Ok (ns, nm, args, r, st') -> keeps_unique st st') /\
    (forall level st ts n r st', parse_tag se f level st ts = Ok (n, r, st') -> keeps_unique st st') /\
    (forall level impl args st ts n r st',
        tag_parser se f level impl args st ts = Ok (n, r, st') -> keeps_unique st st') /\
    (forall level conds ws st ts cs ws' r st',
        if_branches se f level conds ws st ts = Ok (cs, ws', r, st') -> keeps_unique st st') /\
    (forall st ts ns st', parse_doc se f st ts = Ok (ns, st') -> keeps_unique st st').

  Ltac use_ih Helem Hwrap Htag Htp Hif Hdoc :=
    repeat match goal with
    | E : parse_elem se _ _ _ _ = Ok _ |- _ => apply Helem in E
    | E : wrap_until se _ _ _ _ _ = Ok _ |- _ => apply Hwrap in E
    | E : parse_tag se _ _ _ _ = Ok _ |- _ => apply Htag in E
    | E : tag_parser se _ _ _ _ _ _ = Ok _ |- _ => apply Htp in E
    | E : if_branches se _ _ _ _ _ _ = Ok _ |- _ => apply Hif in E
    | E : parse_doc se _ _ _ = Ok _ |- _ => apply Hdoc in E
    end.
  Ltac finish :=
    match goal with H : Ok _ = Ok _ |- _ => injection H as <- <- <- end ||
    match goal with H : Ok _ = Ok _ |- _ => injection H as <- <- <- <- end ||
    match goal with H : Ok _ = Ok _ |- _ => injection H as <- <- <- <- <- end ||
    match goal with H : Ok _ = Ok _ |- _ => injection H as <- <- end.
  Lemma blocks_inv_all : forall f, blocks_inv f.
  Proof.
    induction f as [|f [Helem [Hwrap [Htag [Htp [Hif Hdoc]]]]]].
    - repeat split; intros; discriminate.
    - unfold blocks_inv. split; [|split; [|split; [|split; [|split]]]].
      + intros level st ts n r st' H. rewrite parse_elem_unfold in H. cbv zeta in H.
        crunch H; use_ih Helem Hwrap Htag Htp Hif Hdoc; try finish; subst;
          unfold keeps_unique in *; auto.
      + intros level names st ts ns nm args r st' H. rewrite wrap_until_unfold in H. cbv zeta in H.
        crunch H; use_ih Helem Hwrap Htag Htp Hif Hdoc; try finish; subst;
          unfold keeps_unique in *; auto.
      + intros level st ts n r st' H. rewrite parse_tag_unfold in H. cbv zeta in H.
        crunch H; use_ih Helem Hwrap Htag Htp Hif Hdoc; try finish; subst;
          unfold keeps_unique in *; auto.
      + intros level impl args st ts n r st' H. rewrite tag_parser_unfold in H. cbv zeta in H.
        crunch H; use_ih Helem Hwrap Htag Htp Hif Hdoc; try finish; subst;
          unfold keeps_unique, blocks_unique in *; cbn [fst t_blocks] in *; auto;
          try (intros HU; rewrite map_app; cbn [map fst]; apply nodup_snoc;
               [auto | apply assoc_get_none_notin; assumption]).
      + intros level conds ws st ts cs ws' r st' H. rewrite if_branches_unfold in H. cbv zeta in H.
        crunch H; use_ih Helem Hwrap Htag Htp Hif Hdoc; try finish; subst;
          unfold keeps_unique in *; auto.
      + intros st ts ns st' H. rewrite parse_doc_unfold in H. cbv zeta in H.
        crunch H; use_ih Helem Hwrap Htag Htp Hif Hdoc; try finish; subst;
          unfold keeps_unique in *; auto.
  Qed.

  (* a duplicate block name is a compile error: no compiled template defines a block twice *)
  Lemma compile_src_blocks_unique : forall f name isstr src g t g',
    compile_src se f name isstr src g = Ok (t, g') -> NoDup (map fst (tpl_blocks t)).
  Proof.
    intros [|f] name isstr src g t g' H; [discriminate H|].
    rewrite compile_src_unfold in H. crunch H.
    match goal with H : Ok _ = Ok _ |- _ => injection H as <- <- end.
    destruct (blocks_inv_all f) as [_ [_ [_ [_ [_ Hdoc]]]]].
    match goal with E : parse_doc _ _ _ _ = Ok _ |- _ => apply Hdoc in E; apply E end.
    constructor.
  Qed.
End ParseBlocks.

(* ---- small packages for Props ---- *)
Lemma hand_strip_facts : forall p l,
  (exists a, l = a ++ drop_leading p l /\ forallb p a = true) /\
  (exists b, l = drop_trailing p l ++ b /\ forallb p b = true) /\
  match drop_leading p l with c :: _ => p c = false | [] => True end /\
  (forall a c, drop_trailing p l = a ++ [c] -> p c = false).
Proof.
  intros p l. split; [apply drop_leading_split|]. split; [apply drop_trailing_split|].
  split; [apply drop_leading_head|]. intros a c. apply drop_trailing_last.
Qed.
Lemma annotate_tokens : forall ts prev,
  map a_tok (annotate prev ts) = ts /\ length (annotate prev ts) = length ts.
Proof. intros ts prev. split; [apply annotate_toks|apply annotate_length]. Qed.
Lemma spaceless_only_space : forall s o,
  spaceless_model s = Some o -> deleted_ws s o /\ visible o = visible s.
Proof. intros s o H. split; [apply spaceless_deletes|apply spaceless_visible]; exact H. Qed.
Lemma sl_pass_only_space : forall s lt_seen closing, deleted_ws s (fst (sl_pass 0 lt_seen closing s)).
Proof. intros s lt cl. apply sl_pass_deletes. apply Nat.le_0_l. Qed.
