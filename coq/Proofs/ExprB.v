(* Tie for C07 (evaluation half): evaluating the tree pongo2's parser builds for a
   specification tree is evaluating the specification tree directly, and the machine
   state is unchanged.  Canonical printed forms of scalars. *)
From Coq Require Import Lia Arith Bool.
From PV Require Import Model.Exec Spec.SpecExpr.
Open Scope N_scope.

(* the value of a name in a frame: private bindings shadow public ones; unbound is nil *)
Definition frame_lookup (fr : frame) (n : str) : value :=
  match (match ctx_get n (f_priv fr) with Some c => Some c | None => ctx_get n (f_pub fr) end) with
  | Some (CV v) => match vv v with VNil => as_value VNil | _ => v end
  | _ => as_value VNil
  end.
(* every name the tree mentions is bound to plain data (not a macro, block or cycle value) *)
Fixpoint vars_plain (fr : frame) (e : sx) : bool :=
  match e with
  | SVar n => match (match ctx_get n (f_priv fr) with Some c => Some c | None => ctx_get n (f_pub fr) end) with
              | Some (CV _) | None => true
              | _ => false
              end
  | SNeg a | SNot a => vars_plain fr a
  | SPow a b | SMul _ a b | SAdd _ a b | SRel _ a b | SLogic _ a b => vars_plain fr a && vars_plain fr b
  | _ => true
  end.

(* the only part of [swf] evaluation depends on: the operator bytes are those of the level *)
Fixpoint ops_ok (e : sx) : bool :=
  match e with
  | SNeg a | SNot a => ops_ok a
  | SPow a b | SRel _ a b | SLogic _ a b => ops_ok a && ops_ok b
  | SMul op a b => ((op =? 42) || (op =? 47) || (op =? 37)) && ops_ok a && ops_ok b
  | SAdd op a b => ((op =? 43) || (op =? 45)) && ops_ok a && ops_ok b
  | _ => true
  end.

Lemma swf_ops_ok : forall e, swf e = true -> ops_ok e = true.
Proof.
  induction e as [z|ip fp|s|b|n|a IHa|a IHa|a IHa b IHb|op a IHa b IHb|op a IHa b IHb|op a IHa b IHb|ia a IHa b IHb];
    cbn [swf ops_ok]; intros H; try reflexivity; auto;
    repeat (apply andb_true_iff in H; destruct H as [H ?]);
    repeat (apply andb_true_iff; split); auto.
Qed.

(* a result of the direct evaluator, with the (unchanged) machine state attached *)
Definition lift (r : res value) (st : mstate) : res (value * mstate) :=
  match r with
  | Ok v => Ok (v, st)
  | Err k => Err k
  | Unmod => Unmod
  | Fuel => Fuel
  | Panic s => Panic s
  end.

(* the pieces of [eval], named *)
Definition neg_step (negsign neg : bool) (t1 : value) : res value :=
  let r1 := if neg then as_value (negate (vv t1)) else t1 in
  if negsign then
    if is_number (vv r1) then
      if is_float (vv r1) then do x <- float_of r1; Ok (as_value (VFloat (f_neg x)))
      else do i <- int_of r1; Ok (as_value (VInt (wrap64 (- i))))
    else xerr
  else Ok r1.

Definition add_comb (op : N) (r2 t2 : value) (st2 : mstate) : res (value * mstate) :=
  if op =? 43 then
    if is_string (vv r2) || is_string (vv t2) then
      do s1 <- str_of r2; do s2 <- str_of t2; Ok (as_value (VStr (s1 ++ s2)), st2)
    else if is_float (vv r2) || is_float (vv t2) then
      do x <- float_of r2; do y <- float_of t2; Ok (as_value (VFloat (f_add x y)), st2)
    else do x <- int_of r2; do y <- int_of t2; Ok (as_value (VInt (wrap64 (x + y))), st2)
  else
    if is_float (vv r2) || is_float (vv t2) then
      do x <- float_of r2; do y <- float_of t2; Ok (as_value (VFloat (f_sub x y)), st2)
    else do x <- int_of r2; do y <- int_of t2; Ok (as_value (VInt (wrap64 (x - y))), st2).

Definition term_comb (op : N) (x y : value) (st2 : mstate) : res (value * mstate) :=
  let fl := is_float (vv x) || is_float (vv y) in
  if op =? 42 then
    if fl then do fx <- float_of x; do fy <- float_of y; Ok (as_value (VFloat (f_mul fx fy)), st2)
    else do ix <- int_of x; do iy <- int_of y; Ok (as_value (VInt (wrap64 (ix * iy))), st2)
  else if op =? 47 then
    if fl then
      do fy <- float_of y;
      if f_is_zero fy then xerr
      else do fx <- float_of x; Ok (as_value (VFloat (f_div fx fy)), st2)
    else
      do iy <- int_of y;
      if (iy =? 0)%Z then xerr
      else do ix <- int_of x; Ok (as_value (VInt (wrap64 (Z.quot ix iy))), st2)
  else
    do iy <- int_of y;
    if (iy =? 0)%Z then xerr
    else do ix <- int_of x; Ok (as_value (VInt (Z.rem ix iy)), st2).

Definition pow_comb (x y : value) (st2 : mstate) : res (value * mstate) :=
  do fx <- float_of x; do fy <- float_of y;
  do r <- of_opt (f_pow fx fy);
  Ok (as_value (VFloat r), st2).

Definition rel_comb (op : relop) (x y : value) (st2 : mstate) : res (value * mstate) :=
  let fl := is_float (vv x) || is_float (vv y) in
  let cmp (fi : Z -> Z -> bool) (ff : float -> float -> bool) : res (value * mstate) :=
    if fl then do fx <- float_of x; do fy <- float_of y; Ok (as_value (VBool (ff fx fy)), st2)
    else do ix <- int_of x; do iy <- int_of y; Ok (as_value (VBool (fi ix iy)), st2) in
  match op with
  | RLe => cmp Z.leb f_leb
  | RGe => cmp (fun p q => Z.leb q p) (fun p q => f_leb q p)
  | RGt => cmp (fun p q => Z.ltb q p) (fun p q => f_ltb q p)
  | RLt => cmp Z.ltb f_ltb
  | REq => do b <- of_opt (equal_value_to (vv x) (vv y)); Ok (as_value (VBool b), st2)
  | RNe => do b <- of_opt (equal_value_to (vv x) (vv y)); Ok (as_value (VBool (negb b)), st2)
  | RIn => do b <- of_opt (val_contains (vv y) (vv x)); Ok (as_value (VBool b), st2)
  end.

(* case analysis on every [res] scrutinee in sight *)
Ltac dres :=
  repeat match goal with
         | |- context [bind ?r _] => destruct r; cbn [bind lift]
         end.

Lemma neg_step_sign : forall x, neg_step true false x = neg_val x.
Proof. reflexivity. Qed.

Lemma add_comb_num_bin : forall op x y st, op = 43 \/ op = 45 ->
  add_comb op x y st = lift (num_bin op x y) st.
Proof.
  intros op x y st [H|H]; subst op; unfold add_comb, num_bin;
    change (43 =? 43) with true; change (43 =? 42) with false; change (43 =? 47) with false;
    change (43 =? 37) with false; change (45 =? 43) with false; change (45 =? 42) with false;
    change (45 =? 47) with false; change (45 =? 37) with false; cbv iota beta zeta;
    repeat match goal with |- context [if ?c then _ else _] => destruct c end;
    dres; reflexivity.
Qed.

Lemma term_comb_num_bin : forall op x y st, op = 42 \/ op = 47 \/ op = 37 ->
  term_comb op x y st = lift (num_bin op x y) st.
Proof.
  intros op x y st [H|[H|H]]; subst op; unfold term_comb, num_bin, xerr;
    change (42 =? 42) with true; change (47 =? 42) with false; change (47 =? 47) with true;
    change (37 =? 42) with false; change (37 =? 47) with false; change (37 =? 37) with true;
    cbv iota beta zeta;
    repeat match goal with
           | |- context [if ?c then _ else _] => destruct c; cbn [lift]
           | |- context [bind ?r _] => destruct r; cbn [bind lift]
           end; reflexivity.
Qed.

Lemma pow_comb_spec : forall x y st,
  pow_comb x y st =
    lift (do fx <- float_of x; do fy <- float_of y; do r <- of_opt (f_pow fx fy); Ok (as_value (VFloat r))) st.
Proof. intros; unfold pow_comb; dres; reflexivity. Qed.

Lemma rel_comb_rel_bin : forall op x y st, rel_comb op x y st = lift (rel_bin op x y) st.
Proof.
  intros op x y st; destruct op; unfold rel_comb, rel_bin; cbv iota beta zeta;
    repeat match goal with |- context [if ?c then _ else _] => destruct c end;
    dres; reflexivity.
Qed.

Section Tie.
  Variable se : senv.
  Variable globals : list (str * cval).

  (* one-step unfoldings of the big mutual fixpoint, by conversion *)
  Lemma eval_S_int : forall f st z, eval se globals (S f) st (EInt z) = Ok (as_value (VInt z), st).
  Proof. reflexivity. Qed.
  Lemma eval_S_float : forall f st z, eval se globals (S f) st (EFloat z) = Ok (as_value (VFloat z), st).
  Proof. reflexivity. Qed.
  Lemma eval_S_str : forall f st z, eval se globals (S f) st (EStr z) = Ok (as_value (VStr z), st).
  Proof. reflexivity. Qed.
  Lemma eval_S_bool : forall f st z, eval se globals (S f) st (EBool z) = Ok (as_value (VBool z), st).
  Proof. reflexivity. Qed.
  Lemma eval_S_var : forall f st ps, eval se globals (S f) st (EVar ps) = resolve se globals f st ps.
  Proof. reflexivity. Qed.
  Lemma eval_S_filt0 : forall f st e0,
    eval se globals (S f) st (EFilt e0 []) =
      (do '(v, st1) <- eval se globals f st e0; apply_chain se globals f st1 v []).
  Proof. reflexivity. Qed.
  Lemma apply_chain_S_nil : forall f st v, apply_chain se globals (S f) st v [] = Ok (v, st).
  Proof. reflexivity. Qed.
  Lemma walk_S_nil : forall f st cur safe,
    walk se globals (S f) st cur safe [] = Ok (mkV cur safe, st).
  Proof. reflexivity. Qed.
  Lemma eval_S_pow : forall f st a b,
    eval se globals (S f) st (EPow a b) =
      (do '(x, st1) <- eval se globals f st a;
       do '(y, st2) <- eval se globals f st1 b; pow_comb x y st2).
  Proof. reflexivity. Qed.
  Lemma eval_S_term : forall f st op a b,
    eval se globals (S f) st (ETerm op a b) =
      (do '(x, st1) <- eval se globals f st a;
       do '(y, st2) <- eval se globals f st1 b; term_comb op x y st2).
  Proof. reflexivity. Qed.
  Lemma eval_S_rel : forall f st op a b,
    eval se globals (S f) st (ERel op a b) =
      (do '(x, st1) <- eval se globals f st a;
       do '(y, st2) <- eval se globals f st1 b; rel_comb op x y st2).
  Proof. reflexivity. Qed.
  Lemma eval_S_simple_none : forall f st ns ng a,
    eval se globals (S f) st (ESimple ns ng a None) =
      (do '(t1, st1) <- eval se globals f st a;
       do r2 <- neg_step ns ng t1; Ok (r2, st1)).
  Proof. reflexivity. Qed.
  Lemma eval_S_simple_some : forall f st ns ng a op b,
    eval se globals (S f) st (ESimple ns ng a (Some (op, b))) =
      (do '(t1, st1) <- eval se globals f st a;
       do r2 <- neg_step ns ng t1;
       do '(t2, st2) <- eval se globals f st1 b; add_comb op r2 t2 st2).
  Proof. reflexivity. Qed.
  Lemma eval_S_logic : forall f st is_and a b,
    eval se globals (S f) st (ELogic is_and a b) =
      (do '(x, st1) <- eval se globals f st a;
       if is_and then
         if negb (is_true (vv x)) then Ok (as_value (VBool false), st1)
         else do '(y, st2) <- eval se globals f st1 b; Ok (as_value (VBool (is_true (vv y))), st2)
       else
         if is_true (vv x) then Ok (as_value (VBool true), st1)
         else do '(y, st2) <- eval se globals f st1 b; Ok (as_value (VBool (is_true (vv y))), st2)).
  Proof. reflexivity. Qed.
  Lemma resolve_S_ident : forall f st name call rest,
    resolve se globals (S f) st (PIdent name call :: rest) =
      (do fr <- top_frame st;
       let entry := match ctx_get name (f_priv fr) with
                    | Some c => Some c
                    | None => ctx_get name (f_pub fr)
                    end in
       match entry with
       | None => Ok (as_value VNil, st)
       | Some (CV v) =>
           match vv v with
           | VNil => Ok (as_value VNil, st)
           | _ =>
               match call with
               | Some _ => xerr
               | None => walk se globals f st (vv v) (vsafe v) rest
               end
           end
       | Some (CMacro m fidx) =>
           do '(args, st1) <- eval_list se globals f st (match call with Some a => a | None => [] end);
           do '(r, st2) <- call_macro se globals f st1 m fidx args;
           walk se globals f st2 (vv r) (vsafe r) rest
       | Some (CBlock fidx wrappers) =>
           match rest with
           | [PIdent meth mcall] =>
               if str_eqb meth [83; 117; 112; 101; 114] then
                 match mcall with
                 | Some (_ :: _) => xerr
                 | _ => call_super se globals f st fidx wrappers
                 end
               else Unmod
           | _ => Unmod
           end
       | Some (CCycle _ _ _ _) => Unmod
       end).
  Proof. reflexivity. Qed.

  (* "for all sufficiently large fuel, evaluating x in st gives r" *)
  Definition conv (st : mstate) (x : expr) (r : res (value * mstate)) : Prop :=
    exists f0, forall f, (f0 <= f)%nat -> eval se globals f st x = r.

  Lemma conv_atom : forall st r v,
    conv st r (Ok (v, st)) -> conv st (EFilt r []) (Ok (v, st)).
  Proof.
    intros st r v [f0 H]. exists (S (S f0)). intros f Hf.
    destruct f as [|f]; [lia|]. rewrite eval_S_filt0, H by lia. cbn [bind].
    destruct f as [|f]; [lia|]. apply apply_chain_S_nil.
  Qed.

  Lemma conv_var : forall st fr n,
    top_frame st = Ok fr -> vars_plain fr (SVar n) = true ->
    conv st (EVar [PIdent n None]) (Ok (frame_lookup fr n, st)).
  Proof.
    intros st fr n Hst Hv. exists 3%nat. intros f Hf.
    destruct f as [|f]; [lia|]. destruct f as [|f]; [lia|]. destruct f as [|f]; [lia|].
    rewrite eval_S_var, resolve_S_ident, Hst. cbn [bind]. cbv zeta.
    unfold frame_lookup. cbn [vars_plain] in Hv.
    destruct (match ctx_get n (f_priv fr) with Some c => Some c | None => ctx_get n (f_pub fr) end)
      as [[v|m i|i w|i a s v]|]; try discriminate Hv; try reflexivity.
    destruct v as [w s]; destruct w; cbn [vv vsafe]; rewrite ?walk_S_nil; reflexivity.
  Qed.

  Lemma conv_unary : forall st ns ng xa ra,
    conv st xa (lift ra st) ->
    conv st (ESimple ns ng xa None) (lift (do x <- ra; neg_step ns ng x) st).
  Proof.
    intros st ns ng xa ra [fa Ha]. exists (S fa). intros f Hf.
    destruct f as [|f]; [lia|]. rewrite eval_S_simple_none, Ha by lia.
    destruct ra; cbn [lift bind]; try reflexivity.
  Qed.

  Lemma conv_bin : forall st xa xb ra rb x
      (K : value -> value -> mstate -> res (value * mstate)) (k : value -> value -> res value),
    (forall f, eval se globals (S f) st x =
       (do '(vx, st1) <- eval se globals f st xa;
        do '(vy, st2) <- eval se globals f st1 xb; K vx vy st2)) ->
    (forall vx vy, K vx vy st = lift (k vx vy) st) ->
    conv st xa (lift ra st) -> conv st xb (lift rb st) ->
    conv st x (lift (do vx <- ra; do vy <- rb; k vx vy) st).
  Proof.
    intros st xa xb ra rb x K k Hunf HK [fa Ha] [fb Hb]. exists (S (max fa fb)). intros f Hf.
    destruct f as [|f]; [lia|]. rewrite Hunf, Ha by lia.
    destruct ra; cbn [lift bind]; try reflexivity.
    rewrite Hb by lia. destruct rb; cbn [lift bind]; try reflexivity. apply HK.
  Qed.

  Lemma conv_logic : forall st is_and xa xb ra rb,
    conv st xa (lift ra st) -> conv st xb (lift rb st) ->
    conv st (ELogic is_and xa xb)
      (lift (do x <- ra;
             if is_and then
               if negb (is_true (vv x)) then Ok (as_value (VBool false))
               else do y <- rb; Ok (as_value (VBool (is_true (vv y))))
             else
               if is_true (vv x) then Ok (as_value (VBool true))
               else do y <- rb; Ok (as_value (VBool (is_true (vv y))))) st).
  Proof.
    intros st is_and xa xb ra rb [fa Ha] [fb Hb]. exists (S (max fa fb)). intros f Hf.
    destruct f as [|f]; [lia|]. rewrite eval_S_logic, Ha by lia.
    destruct ra; cbn [lift bind]; try reflexivity.
    destruct is_and; destruct (is_true (vv a)); cbn [negb lift]; try reflexivity;
      rewrite Hb by lia; destruct rb; reflexivity.
  Qed.

  (* the additive node: a first operand that is itself a bare unary node is merged *)
  Lemma conv_mk_simple : forall st op xa xb ra rb,
    op = 43 \/ op = 45 ->
    conv st xa (lift ra st) -> conv st xb (lift rb st) ->
    conv st (mk_simple xa op xb) (lift (do x <- ra; do y <- rb; num_bin op x y) st).
  Proof.
    intros st op xa xb ra rb Hop Ha Hb.
    assert (Hgen : conv st (ESimple false false xa (Some (op, xb)))
                     (lift (do x <- ra; do y <- rb; num_bin op x y) st)).
    { destruct Ha as [fa Ha], Hb as [fb Hb]. exists (S (max fa fb)). intros f Hf.
      destruct f as [|f]; [lia|]. rewrite eval_S_simple_some, Ha by lia.
      destruct ra; cbn [lift bind]; try reflexivity.
      unfold neg_step; cbn [bind]. rewrite Hb by lia.
      destruct rb; cbn [lift bind]; try reflexivity. apply add_comb_num_bin; exact Hop. }
    destruct xa as [z|z|z|z|ps|its|e0 ch|a b|o a b|ns ng a0 rest|o a b|o a b]; try exact Hgen.
    destruct rest as [p|]; [exact Hgen|]. clear Hgen. cbn [mk_simple].
    destruct Ha as [fa Ha], Hb as [fb Hb]. exists (S (max fa fb)). intros f Hf.
    destruct f as [|f]; [lia|]. rewrite eval_S_simple_some.
    specialize (Ha (S f)). rewrite eval_S_simple_none in Ha.
    destruct (eval se globals f st a0) as [[t1 st1]| | | |]; cbn [bind] in Ha |- *.
    - destruct (neg_step ns ng t1) as [r2| | | |]; cbn [bind] in Ha |- *;
        (destruct ra; cbn [lift bind] in Ha |- *;
         (specialize (Ha ltac:(lia)); try discriminate Ha; try exact Ha)).
      inversion Ha; subst. rewrite Hb by lia.
      destruct rb; cbn [lift bind]; try reflexivity. apply add_comb_num_bin; exact Hop.
    - destruct ra; cbn [lift bind] in Ha |- *; specialize (Ha ltac:(lia)); try discriminate Ha; exact Ha.
    - destruct ra; cbn [lift bind] in Ha |- *; specialize (Ha ltac:(lia)); try discriminate Ha; exact Ha.
    - destruct ra; cbn [lift bind] in Ha |- *; specialize (Ha ltac:(lia)); try discriminate Ha; exact Ha.
    - destruct ra; cbn [lift bind] in Ha |- *; specialize (Ha ltac:(lia)); try discriminate Ha; exact Ha.
  Qed.

  Lemma eval_elab_gen : forall (st : mstate) (fr : frame), top_frame st = Ok fr ->
    forall (e : sx) (x : expr),
    elab e = Some x -> vars_plain fr e = true -> ops_ok e = true ->
    conv st x (lift (seval (frame_lookup fr) e) st).
  Proof.
    intros st fr Hst.
    induction e as [z|ip fp|s|b|n|a IHa|a IHa|a IHa b IHb|op a IHa b IHb|op a IHa b IHb|op a IHa b IHb|ia a IHa b IHb];
      intros x He Hv Ho; cbn [elab] in He; cbn [vars_plain] in Hv; cbn [ops_ok] in Ho; cbn [seval].
    - inversion He; subst x. apply conv_atom. exists 1%nat. intros f Hf.
      destruct f as [|f]; [lia|]. apply eval_S_int.
    - destruct (parse_decimal ip fp) as [fl|]; cbn [option_map] in He; [|discriminate He].
      inversion He; subst x. apply conv_atom. exists 1%nat. intros f Hf.
      destruct f as [|f]; [lia|]. apply eval_S_float.
    - inversion He; subst x. apply conv_atom. exists 1%nat. intros f Hf.
      destruct f as [|f]; [lia|]. apply eval_S_str.
    - inversion He; subst x. apply conv_atom. exists 1%nat. intros f Hf.
      destruct f as [|f]; [lia|]. apply eval_S_bool.
    - inversion He; subst x. apply conv_atom. apply conv_var; assumption.
    - destruct (elab a) as [xa|]; cbn [option_map] in He; [|discriminate He].
      inversion He; subst x.
      apply (conv_unary st true false xa (seval (frame_lookup fr) a)). apply IHa; auto.
    - destruct (elab a) as [xa|]; cbn [option_map] in He; [|discriminate He].
      inversion He; subst x.
      apply (conv_unary st false true xa (seval (frame_lookup fr) a)). apply IHa; auto.
    - destruct (elab a) as [xa|]; [|discriminate He].
      destruct (elab b) as [xb|]; [|discriminate He]. inversion He; subst x.
      apply andb_true_iff in Hv; destruct Hv as [Hva Hvb].
      apply andb_true_iff in Ho; destruct Ho as [Hoa Hob].
      apply (conv_bin st xa xb (seval (frame_lookup fr) a) (seval (frame_lookup fr) b) (EPow xa xb) pow_comb
               (fun x y => do fx <- float_of x; do fy <- float_of y; do r <- of_opt (f_pow fx fy); Ok (as_value (VFloat r)))).
      + intros f; apply eval_S_pow.
      + intros vx vy; apply pow_comb_spec.
      + apply IHa; auto.
      + apply IHb; auto.
    - destruct (elab a) as [xa|]; [|discriminate He].
      destruct (elab b) as [xb|]; [|discriminate He]. inversion He; subst x.
      apply andb_true_iff in Hv; destruct Hv as [Hva Hvb].
      apply andb_true_iff in Ho; destruct Ho as [Ho Hob].
      apply andb_true_iff in Ho; destruct Ho as [Hop Hoa].
      apply (conv_bin st xa xb (seval (frame_lookup fr) a) (seval (frame_lookup fr) b) (ETerm op xa xb)
               (term_comb op) (num_bin op)).
      + intros f; apply eval_S_term.
      + intros vx vy; apply term_comb_num_bin.
        apply orb_true_iff in Hop; destruct Hop as [Hop|Hop];
          [apply orb_true_iff in Hop; destruct Hop as [Hop|Hop]|];
          apply N.eqb_eq in Hop; auto.
      + apply IHa; auto.
      + apply IHb; auto.
    - destruct (elab a) as [xa|]; [|discriminate He].
      destruct (elab b) as [xb|]; [|discriminate He]. inversion He; subst x.
      apply andb_true_iff in Hv; destruct Hv as [Hva Hvb].
      apply andb_true_iff in Ho; destruct Ho as [Ho Hob].
      apply andb_true_iff in Ho; destruct Ho as [Hop Hoa].
      apply conv_mk_simple.
      + apply orb_true_iff in Hop; destruct Hop as [Hop|Hop]; apply N.eqb_eq in Hop; auto.
      + apply IHa; auto.
      + apply IHb; auto.
    - destruct (elab a) as [xa|]; [|discriminate He].
      destruct (elab b) as [xb|]; [|discriminate He]. inversion He; subst x.
      apply andb_true_iff in Hv; destruct Hv as [Hva Hvb].
      apply andb_true_iff in Ho; destruct Ho as [Hoa Hob].
      apply (conv_bin st xa xb (seval (frame_lookup fr) a) (seval (frame_lookup fr) b) (ERel op xa xb)
               (rel_comb op) (rel_bin op)).
      + intros f; apply eval_S_rel.
      + intros vx vy; apply rel_comb_rel_bin.
      + apply IHa; auto.
      + apply IHb; auto.
    - destruct (elab a) as [xa|]; [|discriminate He].
      destruct (elab b) as [xb|]; [|discriminate He]. inversion He; subst x.
      apply andb_true_iff in Hv; destruct Hv as [Hva Hvb].
      apply andb_true_iff in Ho; destruct Ho as [Hoa Hob].
      apply conv_logic; [apply IHa|apply IHb]; auto.
  Qed.
End Tie.

Lemma tie_eval_elab : forall (se : senv) (globals : list (str * cval)) (e : sx) (x : expr)
                             (st : mstate) (fr : frame),
  swf e = true ->
  elab e = Some x -> top_frame st = Ok fr -> vars_plain fr e = true ->
  exists f0, forall f, (f0 <= f)%nat ->
    eval se globals f st x =
      match seval (frame_lookup fr) e with
      | Ok v => Ok (v, st)
      | Err k => Err k
      | Unmod => Unmod
      | Fuel => Fuel
      | Panic s => Panic s
      end.
Proof.
  intros se globals e x st fr Hwf He Hst Hv.
  exact (eval_elab_gen se globals st fr Hst e x He Hv (swf_ops_ok e Hwf)).
Qed.

Lemma tie_canonical_print : forall (z : Z) (b : bool),
  to_string (VInt z) = Some (itoa z) /\
  to_string (VBool b) = Some (if b then [84; 114; 117; 101] else [70; 97; 108; 115; 101]) /\
  forall f, to_string (VFloat f) = Some (format_fixed 6 f).
Proof.
  intros z b. split; [reflexivity|]. split; [destruct b; reflexivity|]. intros f; reflexivity.
Qed.

Print Assumptions tie_eval_elab.
Print Assumptions tie_canonical_print.
