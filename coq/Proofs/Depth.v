(* Property C13, second part: the macro depth counters stay within 0 .. max_macro_depth in
   every state in which a function of the executor starts, for all templates and contexts;
   a successful call leaves every counter as it was; the counter of a frame counts the
   active calls of macros bound in that frame, so there are never more than max_macro_depth
   of them.  Vocabulary in Spec/SpecDepth.v.

   The frame facts of property C12 (Proofs/Frames.v, frames_inv_all: expression evaluation
   gives the frame stack back unchanged, node execution changes only the top frame's private
   bindings and autoescape flag) do the work: every call site of the executor starts its
   callee in a state whose depth counters are those of the caller's state, possibly with a
   fresh frame (counter 0) on top - except the two call sites of call_macro, where the
   defining frame counts one more ([sub_shape]).  Everything else is list reasoning.

   Contents:
     - depth_restored, depths_ok_preserved          what a call that returns leaves behind
     - sub_shape and its consequences sub_*          one call site
     - path_*, nesting_bounded, reachable_*          chains of nested calls, whole executions
     - every_call_listed, listed_calls_happen        [sub] is exactly the call relation of the
                                                     executor (running out of fuel as a probe;
                                                     needs: filters do not run on fuel)
     - self_block_height_unbounded                   no bound on the stack height for arbitrary trees

   [max_macro_depth] (gen/Tables.v) is used as an opaque bound; the only fact about its value
   that is needed, 0 <= max_macro_depth, is a hypothesis here (a boolean side condition),
   discharged in Tie/C13b.v. *)
From Coq Require Import List NArith ZArith Bool Lia Arith.
From PV Require Import Model.Exec Spec.SpecFrames Spec.SpecFlow Spec.SpecDepth.
From PV Require Import Proofs.Frames.
From PV Require Import gen.Tables.
Import ListNotations.
Open Scope N_scope.

(* ---------- lists ---------- *)
Lemma nth_error_firstn_lt : forall A (l : list A) k i, (i < k)%nat -> nth_error (firstn k l) i = nth_error l i.
Proof.
  intros A l. induction l as [|a l IH]; intros k i L.
  - rewrite firstn_nil. reflexivity.
  - destruct k as [|k]; [lia|]. destruct i as [|i]; [reflexivity|]. simpl. apply IH. lia.
Qed.
Lemma nth_error_firstn_some : forall A (l : list A) k i x,
  nth_error (firstn k l) i = Some x -> nth_error l i = Some x /\ (i < k)%nat.
Proof.
  intros A l k i x H. assert (L : (i < k)%nat).
  { assert (N : nth_error (firstn k l) i <> None) by congruence.
    apply nth_error_Some in N. pose proof (firstn_le_length k l). rewrite firstn_length in N. lia. }
  split; [|exact L]. rewrite nth_error_firstn_lt in H by exact L. exact H.
Qed.
Lemma length_update_nth : forall A (l : list A) i x, length (update_nth l i x) = length l.
Proof. intros A l. induction l as [|a l IH]; intros [|i] x; simpl; auto. Qed.
Lemma map_update_nth : forall A B (g : A -> B) (l : list A) i x,
  map g (update_nth l i x) = update_nth (map g l) i (g x).
Proof. intros A B g l. induction l as [|a l IH]; intros [|i] x; simpl; auto. rewrite IH. reflexivity. Qed.
Lemma nth_error_update_nth_eq : forall A (l : list A) i x y,
  nth_error (update_nth l i x) i = Some y -> y = x.
Proof.
  intros A l. induction l as [|a l IH]; intros [|i] x y H; simpl in *; try discriminate H.
  - injection H as <-. reflexivity.
  - eapply IH; exact H.
Qed.
Lemma nth_error_update_nth_neq : forall A (l : list A) i j x, i <> j ->
  nth_error (update_nth l i x) j = nth_error l j.
Proof.
  intros A l. induction l as [|a l IH]; intros [|i] [|j] x N; simpl; auto; try congruence.
Qed.
Lemma Forall_update_nth : forall A (P : A -> Prop) (l : list A) i x,
  Forall P l -> P x -> Forall P (update_nth l i x).
Proof.
  intros A P l. induction l as [|a l IH]; intros [|i] x H Hx; simpl; auto.
  - inversion H; subst. constructor; assumption.
  - inversion H; subst. constructor; auto.
Qed.
Lemma Forall_firstn : forall A (P : A -> Prop) k (l : list A), Forall P l -> Forall P (firstn k l).
Proof.
  intros A P k. induction k as [|k IH]; intros [|a l] H; simpl; auto.
  inversion H; subst. constructor; auto.
Qed.
Lemma Forall_rev_iff : forall A (P : A -> Prop) (l : list A), Forall P (rev l) <-> Forall P l.
Proof.
  intros A P l. rewrite !Forall_forall. split; intros H x Hx; apply H.
  - apply -> in_rev. exact Hx.
  - apply in_rev. exact Hx.
Qed.
Lemma rev_skipn_bottom : forall A (l : list A) k, rev (skipn (length l - k) l) = firstn k (rev l).
Proof. intros A l k. rewrite firstn_rev. reflexivity. Qed.

(* ---------- the depth counters of a state ---------- *)
Definition dok (d : Z) : Prop := (0 <= d <= max_macro_depth)%Z.

Lemma depths_ok_Forall : forall st, depths_ok st <-> Forall dok (depths st).
Proof.
  intro st. unfold depths_ok, depths, depth_ok, dok. rewrite Forall_forall. split.
  - intros H d Hd. apply in_map_iff in Hd. destruct Hd as (fr & <- & Hin). auto.
  - intros H fr Hin. apply H. apply in_map. exact Hin.
Qed.
Lemma depths_ok_bottom : forall st, depths_ok st <-> Forall dok (rev (depths st)).
Proof. intro st. rewrite Forall_rev_iff. apply depths_ok_Forall. Qed.
Lemma depths_ok_eq : forall st st', depths st' = depths st -> depths_ok st -> depths_ok st'.
Proof. intros st st' E H. apply depths_ok_Forall. rewrite E. apply depths_ok_Forall, H. Qed.

Lemma depth_at_nth : forall st i, depth_at st i = nth_error (rev (depths st)) i.
Proof. intros st i. unfold depth_at, frame_at, depths. rewrite <- map_rev, nth_error_map. reflexivity. Qed.
Lemma height_depths : forall st, height st = length (rev (depths st)).
Proof. intro st. unfold height, depths. rewrite rev_length, map_length. reflexivity. Qed.
Lemma depth_at_some_lt : forall st i d, depth_at st i = Some d -> (i < height st)%nat.
Proof.
  intros st i d H. rewrite depth_at_nth in H. rewrite height_depths. apply nth_error_Some. congruence.
Qed.
Lemma depth_at_lt_some : forall st i, (i < height st)%nat -> exists d, depth_at st i = Some d.
Proof.
  intros st i L. rewrite depth_at_nth. rewrite height_depths in L.
  destruct (nth_error (rev (depths st)) i) as [d|] eqn:E; [eauto|].
  apply nth_error_None in E. lia.
Qed.
Lemma depths_ok_at : forall st i d, depths_ok st -> depth_at st i = Some d -> dok d.
Proof.
  intros st i d H E. rewrite depth_at_nth in E. apply depths_ok_bottom in H.
  rewrite Forall_forall in H. apply H. eapply nth_error_In, E.
Qed.

(* how the stack operations act on the counters *)
Lemma depths_of_frames : forall st st', ms_frames st' = ms_frames st -> depths st' = depths st.
Proof. intros st st' E. unfold depths. rewrite E. reflexivity. Qed.
Lemma depths_sb : forall st st', same_below st st' -> depths st' = depths st.
Proof.
  intros st st' [T M]. unfold depths.
  destruct (ms_frames st) as [|a l], (ms_frames st') as [|a' l']; simpl in *; try contradiction; auto.
  destruct M as (_ & _ & D & _). subst l'. rewrite D. reflexivity.
Qed.
Lemma depths_set_top : forall st fr fr', top_frame st = Ok fr -> f_depth fr' = f_depth fr ->
  depths (set_top st fr') = depths st.
Proof.
  intros st fr fr' Ht E. unfold depths. rewrite (frames_set_top _ _ fr' Ht).
  rewrite (top_frame_ok _ _ Ht) at 2. simpl. rewrite E. reflexivity.
Qed.
Lemma depths_set_priv : forall st k v st', set_priv st k v = Ok st' -> depths st' = depths st.
Proof. intros st k v st' H. apply depths_sb. eapply sb_set_priv, H. Qed.
Lemma depths_cycle_site : forall st fr id args st' e,
  cycle_site st fr id args = (st', e) -> depths st' = depths st.
Proof.
  intros st fr id args st' e H. unfold cycle_site in H. cbv zeta in H.
  repeat match type of H with
  | match ?x with _ => _ end = _ => destruct x
  end; injection H as <- _; reflexivity.
Qed.
Lemma depths_set_frame_at : forall st fidx fr,
  rev (depths (set_frame_at st fidx fr)) = update_nth (rev (depths st)) fidx (f_depth fr).
Proof.
  intros st fidx fr. unfold set_frame_at, depths. cbn [ms_frames].
  rewrite <- !map_rev, rev_involutive, map_update_nth. reflexivity.
Qed.

(* ---------- filters do not run on fuel ---------- *)
Lemma bind_nf : forall {A B} (r : res A) (k : A -> res B),
  r <> Fuel -> (forall a, k a <> Fuel) -> bind r k <> Fuel.
Proof. intros A B r k Hr Hk. destruct r as [a|e| | |s]; cbn; try discriminate; auto. Qed.
Lemma of_opt_nf : forall {A} (o : option A), of_opt o <> Fuel.
Proof. intros A [a|]; discriminate. Qed.
Lemma list_strings_nf : forall v, list_strings v <> Fuel.
Proof.
  intros v. destruct v as [| | | | |l| |]; try discriminate. cbn [list_strings].
  induction l as [|y l IH]; cbn [fold_right]; [discriminate|].
  apply bind_nf; [exact IH|]. intro r. apply bind_nf; [apply of_opt_nf|]. discriminate.
Qed.
Lemma val_index_nf : forall v i, val_index v i <> Fuel.
Proof.
  intros v i. destruct v; try discriminate; cbn [val_index]; cbv zeta;
  repeat match goal with |- (if ?c then _ else _) <> _ => destruct c end; discriminate.
Qed.
Lemma val_slice_nf : forall v i j, val_slice v i j <> Fuel.
Proof.
  intros v i j. destruct v; try discriminate; cbn [val_slice]; cbv zeta;
  repeat match goal with |- (if ?c then _ else _) <> _ => destruct c end; discriminate.
Qed.
Ltac nf :=
  lazymatch goal with
  | |- bind _ _ <> Fuel => apply bind_nf; [ nf | intro; nf ]
  | |- (if ?c then _ else _) <> Fuel => destruct c; nf
  | |- (match ?c with [] => _ | _ :: _ => _ end) <> Fuel => destruct c; nf
  | |- (match ?c with Some _ => _ | None => _ end) <> Fuel => destruct c; nf
  | |- (match ?c with (_, _) => _ end) <> Fuel => destruct c; nf
  | |- (match vv ?c with VStr _ => _ | _ => _ end) <> Fuel => destruct (vv c); nf
  | |- of_opt _ <> Fuel => apply of_opt_nf
  | |- str_of _ <> Fuel => apply of_opt_nf
  | |- int_of _ <> Fuel => apply of_opt_nf
  | |- float_of _ <> Fuel => apply of_opt_nf
  | |- list_strings _ <> Fuel => apply list_strings_nf
  | |- val_index _ _ <> Fuel => apply val_index_nf
  | |- val_slice _ _ _ <> Fuel => apply val_slice_nf
  | |- _ => discriminate
  end.
Lemma filters_never_fuel : forall (name : str) (x p : value), apply_filter name x p <> Fuel.
Proof.
  intros name x p. unfold apply_filter.
  destruct (assoc_get name filter_impl) as [impl|]; [|discriminate].
  cbv zeta beta.
  repeat (match goal with |- (if str_eqb impl ?l then _ else _) <> _ =>
            destruct (str_eqb impl l); [ timeout 30 nf | ]
          end).
  discriminate.
Qed.
Lemma apply_filter_se_nf : forall se name x p, apply_filter_se se name x p = Fuel -> False.
Proof.
  intros se name x p H. unfold apply_filter_se in H. destruct (assoc_get name filter_impl).
  - exact (filters_never_fuel _ _ _ H).
  - destruct (str_in name (cfg_filters (se_cfg se))); discriminate H.
Qed.
Lemma iter_items_nf : forall v r srt, iter_items v r srt = Fuel -> False.
Proof.
  intros v r srt H. destruct v; cbn [iter_items] in H; try discriminate H.
  - destruct srt; [destruct (sort_vals l)|]; discriminate H.
  - destruct (Nat.leb (length m) 1 || srt); discriminate H.
Qed.
Lemma set_priv_nf : forall st k c, set_priv st k c = Fuel -> False.
Proof. intros st k c H. unfold set_priv, top_frame in H. destruct (ms_frames st); discriminate H. Qed.
Lemma top_frame_nf : forall st, top_frame st = Fuel -> False.
Proof. intros st H. unfold top_frame in H. destruct (ms_frames st); discriminate H. Qed.

Section Depth.
Variable se : senv.
Variable globals : list (str * cval).
Hypothesis Hmax : (0 <=? max_macro_depth)%Z = true.

Local Notation eval := (PV.Model.Exec.eval se globals).
Local Notation eval_list := (PV.Model.Exec.eval_list se globals).
Local Notation apply_chain := (PV.Model.Exec.apply_chain se globals).
Local Notation resolve := (PV.Model.Exec.resolve se globals).
Local Notation walk := (PV.Model.Exec.walk se globals).
Local Notation call_macro := (PV.Model.Exec.call_macro se globals).
Local Notation macro_defaults := (PV.Model.Exec.macro_defaults se globals).
Local Notation call_super := (PV.Model.Exec.call_super se globals).
Local Notation exec_nodes := (PV.Model.Exec.exec_nodes se globals).
Local Notation exec_node := (PV.Model.Exec.exec_node se globals).
Local Notation exec_if := (PV.Model.Exec.exec_if se globals).
Local Notation exec_for := (PV.Model.Exec.exec_for se globals).
Local Notation exec_firstof := (PV.Model.Exec.exec_firstof se globals).
Local Notation eval_pairs := (PV.Model.Exec.eval_pairs se globals).
Local Notation apply_tag_chain := (PV.Model.Exec.apply_tag_chain se globals).
Local Notation exec_template := (PV.Model.Exec.exec_template se globals).
Local Notation exec_template_unbuffered := (PV.Model.Exec.exec_template_unbuffered se globals).
Local Notation sub := (PV.Spec.SpecDepth.sub se globals).
Local Notation run := (PV.Spec.SpecDepth.run se globals).
Local Notation path := (PV.Spec.SpecDepth.path se globals).
Local Notation reaches := (PV.Spec.SpecDepth.reaches se globals).
Local Notation reachable := (PV.Spec.SpecDepth.reachable se globals).

Lemma dok_0 : dok 0.
Proof. unfold dok. apply Z.leb_le in Hmax. lia. Qed.

(* ---------- the frame facts of C12, per function ---------- *)
Lemma fr_eval : forall f st e v st', eval f st e = Ok (v, st') -> ms_frames st' = ms_frames st.
Proof. intros f st e v st' H. destruct (frames_inv_all se globals f) as (I & _). eapply I, H. Qed.
Lemma fr_eval_list : forall f st e v st', eval_list f st e = Ok (v, st') -> ms_frames st' = ms_frames st.
Proof. intros f st e v st' H. destruct (frames_inv_all se globals f) as (_ & I & _). eapply I, H. Qed.
Lemma fr_apply_chain : forall f st v c r st', apply_chain f st v c = Ok (r, st') -> ms_frames st' = ms_frames st.
Proof. intros f st v c r st' H. destruct (frames_inv_all se globals f) as (_ & _ & I & _). eapply I, H. Qed.
Lemma fr_resolve : forall f st ps r st', resolve f st ps = Ok (r, st') -> ms_frames st' = ms_frames st.
Proof. intros f st ps r st' H. destruct (frames_inv_all se globals f) as (_ & _ & _ & I & _). eapply I, H. Qed.
Lemma fr_walk : forall f st c s ps r st', walk f st c s ps = Ok (r, st') -> ms_frames st' = ms_frames st.
Proof. intros f st c s ps r st' H. destruct (frames_inv_all se globals f) as (_ & _ & _ & _ & I & _). eapply I, H. Qed.
Lemma fr_call_macro : forall f st m i a r st', call_macro f st m i a = Ok (r, st') -> ms_frames st' = ms_frames st.
Proof. intros f st m i a r st' H. destruct (frames_inv_all se globals f) as (_ & _ & _ & _ & _ & I & _). eapply I, H. Qed.
Lemma fr_macro_defaults : forall f st ps r st', macro_defaults f st ps = Ok (r, st') -> ms_frames st' = ms_frames st.
Proof. intros f st ps r st' H. destruct (frames_inv_all se globals f) as (_ & _ & _ & _ & _ & _ & I & _). eapply I, H. Qed.
Lemma fr_call_super : forall f st i w r st', call_super f st i w = Ok (r, st') -> ms_frames st' = ms_frames st.
Proof. intros f st i w r st' H. destruct (frames_inv_all se globals f) as (_ & _ & _ & _ & _ & _ & _ & I & _). eapply I, H. Qed.
Lemma fr_eval_pairs : forall f st ps r st', eval_pairs f st ps = Ok (r, st') -> ms_frames st' = ms_frames st.
Proof. intros f st ps r st' H. destruct (frames_inv_all se globals f) as (_ & _ & _ & _ & _ & _ & _ & _ & I & _). eapply I, H. Qed.
Lemma fr_apply_tag_chain : forall f st v c r st', apply_tag_chain f st v c = Ok (r, st') -> ms_frames st' = ms_frames st.
Proof. intros f st v c r st' H. destruct (frames_inv_all se globals f) as (_ & _ & _ & _ & _ & _ & _ & _ & _ & I & _). eapply I, H. Qed.
Lemma sb_exec_nodes : forall f st ns o st', exec_nodes f st ns = (o, Ok st') -> same_below st st'.
Proof. intros f st ns o st' H. destruct (frames_inv_all se globals f) as (_ & _ & _ & _ & _ & _ & _ & _ & _ & _ & I & _). eapply I, H. Qed.
Lemma sb_exec_node : forall f st n o st', exec_node f st n = (o, Ok st') -> same_below st st'.
Proof. intros f st n o st' H. destruct (frames_inv_all se globals f) as (_ & _ & _ & _ & _ & _ & _ & _ & _ & _ & _ & I & _). eapply I, H. Qed.
Lemma sb_exec_if : forall f st c w i o st', exec_if f st c w i = (o, Ok st') -> same_below st st'.
Proof. intros f st c w i o st' H. destruct (frames_inv_all se globals f) as (_ & _ & _ & _ & _ & _ & _ & _ & _ & _ & _ & _ & I & _). eapply I, H. Qed.
Lemma sb_exec_for : forall f st k v p b it i c o st', exec_for f st k v p b it i c = (o, Ok st') -> same_below st st'.
Proof. intros f st k v p b it i c o st' H. destruct (frames_inv_all se globals f) as (_ & _ & _ & _ & _ & _ & _ & _ & _ & _ & _ & _ & _ & I & _). eapply I, H. Qed.
Lemma sb_exec_firstof : forall f st a o st', exec_firstof f st a = (o, Ok st') -> same_below st st'.
Proof. intros f st a o st' H. destruct (frames_inv_all se globals f) as (_ & _ & _ & _ & _ & _ & _ & _ & _ & _ & _ & _ & _ & _ & I & _). eapply I, H. Qed.
Lemma fr_exec_template : forall f st t c o st', exec_template f st t c = (o, Ok st') -> ms_frames st' = ms_frames st.
Proof. intros f st t c o st' H. destruct (frames_inv_all se globals f) as (_ & _ & _ & _ & _ & _ & _ & _ & _ & _ & _ & _ & _ & _ & _ & I & _). eapply I, H. Qed.
Lemma fr_exec_template_unbuffered : forall f st t c o st', exec_template_unbuffered f st t c = (o, Ok st') -> ms_frames st' = ms_frames st.
Proof. intros f st t c o st' H. destruct (frames_inv_all se globals f) as (_ & _ & _ & _ & _ & _ & _ & _ & _ & _ & _ & _ & _ & _ & _ & _ & I). eapply I, H. Qed.

(* ---------- C13_depth_restored: a call that returns leaves every counter as it was ---------- *)
Lemma view_done : forall A (r : res (A * mstate)) st', view r = RDone st' -> exists a, r = Ok (a, st').
Proof. intros A r st' H. destruct r as [[a s]| | | |]; try discriminate H. injection H as ->. eauto. Qed.
Lemma xview_done : forall (r : xres) st', xview r = RDone st' -> exists o, r = (o, Ok st').
Proof. intros [o r] st' H. unfold xview in H. cbn [snd] in H. destruct r; try discriminate H. injection H as ->. eauto. Qed.

Lemma depth_restored : forall c st', run c = RDone st' -> depths st' = depths (call_state c).
Proof.
  intros c st' H. destruct c; cbn [PV.Spec.SpecDepth.run call_state] in *.
  all: first [ apply view_done in H; destruct H as (a & H) | apply xview_done in H; destruct H as (o & H) ].
  - apply depths_of_frames. eapply fr_eval, H.
  - apply depths_of_frames. eapply fr_eval_list, H.
  - apply depths_of_frames. eapply fr_apply_chain, H.
  - apply depths_of_frames. eapply fr_resolve, H.
  - apply depths_of_frames. eapply fr_walk, H.
  - apply depths_of_frames. eapply fr_call_macro, H.
  - apply depths_of_frames. eapply fr_macro_defaults, H.
  - apply depths_of_frames. eapply fr_call_super, H.
  - apply depths_sb. eapply sb_exec_nodes, H.
  - apply depths_sb. eapply sb_exec_node, H.
  - apply depths_sb. eapply sb_exec_if, H.
  - apply depths_sb. eapply sb_exec_for, H.
  - apply depths_sb. eapply sb_exec_firstof, H.
  - apply depths_of_frames. eapply fr_eval_pairs, H.
  - apply depths_of_frames. eapply fr_apply_tag_chain, H.
  - apply depths_of_frames. eapply fr_exec_template, H.
  - apply depths_of_frames. eapply fr_exec_template_unbuffered, H.
Qed.

Lemma depths_ok_preserved : forall c st', run c = RDone st' -> depths_ok (call_state c) -> depths_ok st'.
Proof. intros c st' H. apply depths_ok_eq. eapply depth_restored, H. Qed.

Lemma depth_at_restored : forall c st' i, run c = RDone st' -> depth_at st' i = depth_at (call_state c) i.
Proof. intros c st' i H. rewrite !depth_at_nth, (depth_restored _ _ H). reflexivity. Qed.

(* ---------- the shape of a call site ---------- *)
Inductive shape (c c' : call) : Prop :=
| sh_same : (forall i, enters c i = 0%nat) ->
    depths (call_state c') = depths (call_state c) -> shape c c'
| sh_push : (forall i, enters c i = 0%nat) -> pushes_frame c = true ->
    depths (call_state c') = 0%Z :: depths (call_state c) -> shape c c'
| sh_defaults : forall f st m fidx args d,
    c = KCallMacro f st m fidx args -> depth_at st fidx = Some d -> (d + 1 <= max_macro_depth)%Z ->
    rev (depths (call_state c')) = firstn (S fidx) (update_nth (rev (depths st)) fidx (d + 1)%Z) ->
    shape c c'
| sh_body : forall f st m fidx args d,
    c = KCallMacro f st m fidx args -> depth_at st fidx = Some d -> (d + 1 <= max_macro_depth)%Z ->
    rev (depths (call_state c')) = update_nth (rev (depths st)) fidx (d + 1)%Z ++ [0%Z] ->
    shape c c'.

Lemma d_eval : forall f st e v st', eval f st e = Ok (v, st') -> depths st' = depths st.
Proof. intros f st e v st' H. apply depths_of_frames. eapply fr_eval, H. Qed.
Lemma d_eval_list : forall f st e v st', eval_list f st e = Ok (v, st') -> depths st' = depths st.
Proof. intros f st e v st' H. apply depths_of_frames. eapply fr_eval_list, H. Qed.
Lemma d_call_macro : forall f st m i a r st', call_macro f st m i a = Ok (r, st') -> depths st' = depths st.
Proof. intros f st m i a r st' H. apply depths_of_frames. eapply fr_call_macro, H. Qed.
Lemma d_eval_pairs : forall f st ps r st', eval_pairs f st ps = Ok (r, st') -> depths st' = depths st.
Proof. intros f st ps r st' H. apply depths_of_frames. eapply fr_eval_pairs, H. Qed.
Lemma d_exec_nodes : forall f st ns o st', exec_nodes f st ns = (o, Ok st') -> depths st' = depths st.
Proof. intros f st ns o st' H. apply depths_sb. eapply sb_exec_nodes, H. Qed.
Lemma d_exec_node : forall f st n o st', exec_node f st n = (o, Ok st') -> depths st' = depths st.
Proof. intros f st n o st' H. apply depths_sb. eapply sb_exec_node, H. Qed.
Lemma d_param_result : forall f st param p st', param_result (eval f) st param = Ok (p, st') -> depths st' = depths st.
Proof.
  intros f st [pe|] p st' H; cbn [param_result] in H.
  - eapply d_eval, H.
  - injection H as _ <-. reflexivity.
Qed.

Ltac to_depths :=
  repeat match goal with
  | H : eval _ _ _ = Ok (_, _) |- _ => apply d_eval in H
  | H : eval_list _ _ _ = Ok (_, _) |- _ => apply d_eval_list in H
  | H : call_macro _ _ _ _ _ = Ok (_, _) |- _ => apply d_call_macro in H
  | H : eval_pairs _ _ _ = Ok (_, _) |- _ => apply d_eval_pairs in H
  | H : exec_nodes _ _ _ = (_, Ok _) |- _ => apply d_exec_nodes in H
  | H : exec_node _ _ _ = (_, Ok _) |- _ => apply d_exec_node in H
  | H : param_result _ _ _ = Ok (_, _) |- _ => apply d_param_result in H
  | H : set_priv _ _ _ = Ok _ |- _ => apply depths_set_priv in H
  | H : cycle_site _ _ _ _ = (_, _) |- _ => apply depths_cycle_site in H
  end.

Lemma depths_push_child : forall st fr p, depths (push_frame st (with_priv (child_of fr) p)) = 0%Z :: depths st.
Proof. reflexivity. Qed.

Ltac fin_depths :=
  cbn [call_state]; unfold for_state in *;
  repeat match goal with
  | Ht : top_frame ?s = Ok ?fr |- _ =>
      progress (rewrite !(depths_set_top _ _ _ Ht) in * by reflexivity)
  end;
  unfold for_frame, with_frame, super_frame, depths in *;
  cbn [ms_frames ns_set push_frame with_priv child_of f_depth map fst snd] in *;
  first [ reflexivity | congruence ].

Lemma sub_shape : forall c c', sub c c' -> shape c c'.
Proof.
  intros c c' H. destruct H.
  all: to_depths.
  (* the two call sites of call_macro *)
  all: try match goal with
    | |- shape (KCallMacro _ _ _ _ _) (KMacroDefaults _ _ _) => idtac
    | |- shape (KCallMacro _ _ _ _ _) (KExecNodes _ _ _) => idtac
    | |- shape _ _ =>
        first [ apply sh_same; [intro; reflexivity|]; solve [fin_depths]
              | apply sh_push; [intro; reflexivity|reflexivity|]; solve [fin_depths] ]
    end.
  - (* the defaults: the view up to the defining frame *)
    match goal with Hf : frame_at st fidx = Some dfr |- _ =>
      pose proof (depths_set_frame_at st fidx (with_depth dfr (f_depth dfr + 1))) as Hset;
      cbn [f_depth with_depth] in Hset;
      eapply (sh_defaults _ _ _ st _ fidx args (f_depth dfr));
        [reflexivity | unfold depth_at; rewrite Hf; reflexivity | apply Z.ltb_ge; assumption |] end.
    cbn [call_state]. unfold below_view, enter_macro, depths. cbn [ms_frames].
    rewrite <- skipn_map, <- map_rev.
    change (map f_depth (ms_frames (set_frame_at st fidx (with_depth dfr (f_depth dfr + 1)))))
      with (depths (set_frame_at st fidx (with_depth dfr (f_depth dfr + 1)))).
    rewrite map_rev. rewrite <- (map_length f_depth).
    change (map f_depth (ms_frames (set_frame_at st fidx (with_depth dfr (f_depth dfr + 1)))))
      with (depths (set_frame_at st fidx (with_depth dfr (f_depth dfr + 1)))).
    rewrite rev_skipn_bottom, Hset. reflexivity.
  - (* the body: the whole stack again, the call's frame on top *)
    match goal with Hf : frame_at st fidx = Some dfr |- _ =>
      pose proof (depths_set_frame_at st fidx (with_depth dfr (f_depth dfr + 1))) as Hset;
      cbn [f_depth with_depth] in Hset;
      eapply (sh_body _ _ _ st _ fidx args (f_depth dfr));
        [reflexivity | unfold depth_at; rewrite Hf; reflexivity | apply Z.ltb_ge; assumption |] end.
    match goal with Hd : macro_defaults _ _ _ = Ok _ |- _ => apply fr_macro_defaults in Hd; rename Hd into Hdef end.
    cbn [call_state]. unfold macro_frame. rewrite depths_push_child.
    assert (E : ms_frames (rejoin (frames_above (enter_macro st fidx dfr) fidx) st_d) = ms_frames (enter_macro st fidx dfr)).
    { unfold rejoin, frames_above. cbn [ms_frames]. rewrite Hdef. unfold below_view. cbn [ms_frames].
      apply firstn_skipn. }
    rewrite (depths_of_frames _ _ E). cbn [rev]. unfold enter_macro. rewrite Hset. reflexivity.
Qed.

(* ---------- what a call site does to the counters ---------- *)
Lemma shape_depths_ok : forall c c', shape c c' -> depths_ok (call_state c) -> depths_ok (call_state c').
Proof.
  intros c c' S H. destruct S as [_ E|_ _ E|f st m fidx args d -> Hd G E|f st m fidx args d -> Hd G E].
  - eapply depths_ok_eq; eassumption.
  - apply depths_ok_Forall. rewrite E. constructor; [apply dok_0|apply depths_ok_Forall, H].
  - cbn [call_state] in H. pose proof (depths_ok_at _ _ _ H Hd) as Hk.
    apply depths_ok_bottom. rewrite E. apply Forall_firstn, Forall_update_nth; [apply depths_ok_bottom, H|].
    unfold dok in *. lia.
  - cbn [call_state] in H. pose proof (depths_ok_at _ _ _ H Hd) as Hk.
    apply depths_ok_bottom. rewrite E. apply Forall_app. split.
    + apply Forall_update_nth; [apply depths_ok_bottom, H|]. unfold dok in *. lia.
    + constructor; [apply dok_0|constructor].
Qed.

Lemma enters_macro_same : forall f st m fidx args, enters (KCallMacro f st m fidx args) fidx = 1%nat.
Proof. intros. cbn [enters]. rewrite Nat.eqb_refl. reflexivity. Qed.
Lemma enters_macro_other : forall f st m fidx args i, fidx <> i -> enters (KCallMacro f st m fidx args) i = 0%nat.
Proof. intros f st m fidx args i N. cbn [enters]. apply Nat.eqb_neq in N. rewrite N. reflexivity. Qed.

Lemma bump_nth : forall (B : list Z) fidx d0 i d d',
  nth_error B fidx = Some d0 -> nth_error B i = Some d ->
  nth_error (update_nth B fidx (d0 + 1)%Z) i = Some d' ->
  d' = (d + Z.of_nat (if Nat.eqb fidx i then 1 else 0))%Z.
Proof.
  intros B fidx d0 i d d' H0 Hi H'. destruct (Nat.eqb_spec fidx i) as [->|N].
  - apply nth_error_update_nth_eq in H'. rewrite H0 in Hi. injection Hi as <-. subst d'. reflexivity.
  - rewrite nth_error_update_nth_neq in H' by exact N. rewrite Hi in H'. injection H' as <-. simpl. lia.
Qed.

Lemma shape_depth_at : forall c c' i d d', shape c c' ->
  depth_at (call_state c) i = Some d -> depth_at (call_state c') i = Some d' ->
  d' = (d + Z.of_nat (enters c i))%Z.
Proof.
  intros c c' i d d' S Hd Hd'. rewrite depth_at_nth in Hd, Hd'.
  destruct S as [Z E|Z _ E|f st m fidx args d0 -> H0 G E|f st m fidx args d0 -> H0 G E].
  - rewrite E, Hd in Hd'. injection Hd' as <-. rewrite Z. simpl. lia.
  - rewrite E in Hd'. cbn [rev] in Hd'. rewrite nth_error_app1 in Hd'.
    + rewrite Hd in Hd'. injection Hd' as <-. rewrite Z. simpl. lia.
    + apply nth_error_Some. congruence.
  - cbn [call_state] in Hd. rewrite E in Hd'. apply nth_error_firstn_some in Hd'. destruct Hd' as [Hd' _].
    rewrite depth_at_nth in H0. cbn [enters]. eapply bump_nth; eassumption.
  - cbn [call_state] in Hd. rewrite E in Hd'. rewrite nth_error_app1 in Hd'.
    + rewrite depth_at_nth in H0. cbn [enters]. eapply bump_nth; eassumption.
    + rewrite length_update_nth. apply nth_error_Some. congruence.
Qed.

Lemma shape_new : forall c c' i d', shape c c' ->
  depth_at (call_state c) i = None -> depth_at (call_state c') i = Some d' -> d' = 0%Z.
Proof.
  intros c c' i d' S Hd Hd'. rewrite depth_at_nth in Hd, Hd'. pose proof Hd as L. apply nth_error_None in L.
  assert (T : forall B : list Z, (length B <= i)%nat -> nth_error (B ++ [0%Z]) i = Some d' -> d' = 0%Z).
  { intros B LB H. rewrite nth_error_app2 in H by exact LB.
    destruct (i - length B)%nat as [|[|k]]; simpl in H; congruence. }
  destruct S as [Z E|Z _ E|f st m fidx args d0 -> H0 G E|f st m fidx args d0 -> H0 G E].
  - rewrite E in Hd'. congruence.
  - rewrite E in Hd'. cbn [rev] in Hd'. eapply T; eassumption.
  - cbn [call_state] in Hd, L. rewrite E in Hd'. apply nth_error_firstn_some in Hd'. destruct Hd' as [Hd' _].
    assert (N : nth_error (update_nth (rev (depths st)) fidx (d0 + 1)%Z) i <> None) by congruence.
    apply nth_error_Some in N. rewrite length_update_nth in N. lia.
  - cbn [call_state] in Hd, L. rewrite E in Hd'. eapply T; [|exact Hd']. rewrite length_update_nth. exact L.
Qed.

Lemma shape_height : forall c c', shape c c' ->
  (height (call_state c') <= S (height (call_state c)))%nat /\
  (height (call_state c') = S (height (call_state c)) -> pushes_frame c = true).
Proof.
  intros c c' S. rewrite !height_depths.
  destruct S as [Z E|Z P E|f st m fidx args d0 -> H0 G E|f st m fidx args d0 -> H0 G E].
  - rewrite E. split; lia.
  - rewrite E. cbn [rev]. rewrite app_length. simpl. split; [lia|intros _; exact P].
  - rewrite E. cbn [call_state]. rewrite firstn_length, length_update_nth. split; [lia|reflexivity].
  - rewrite E. cbn [call_state]. rewrite app_length, length_update_nth. simpl. split; [lia|reflexivity].
Qed.

(* ---------- per call site ---------- *)
Lemma sub_fuel : forall c c', sub c c' -> call_fuel c = S (call_fuel c').
Proof. intros c c' H. destruct H; reflexivity. Qed.

Lemma sub_depths_ok : forall c c', sub c c' -> depths_ok (call_state c) -> depths_ok (call_state c').
Proof. intros c c' H. apply shape_depths_ok, sub_shape, H. Qed.

Lemma sub_depth_at : forall c c' i d d', sub c c' ->
  depth_at (call_state c) i = Some d -> depth_at (call_state c') i = Some d' ->
  d' = (d + Z.of_nat (enters c i))%Z.
Proof. intros c c' i d d' H. apply shape_depth_at, sub_shape, H. Qed.

Lemma sub_new_frame_depth : forall c c' i d', sub c c' ->
  depth_at (call_state c) i = None -> depth_at (call_state c') i = Some d' -> d' = 0%Z.
Proof. intros c c' i d' H. apply shape_new, sub_shape, H. Qed.

Lemma sub_height : forall c c', sub c c' ->
  (height (call_state c') <= S (height (call_state c)))%nat /\
  (height (call_state c') = S (height (call_state c)) -> pushes_frame c = true).
Proof. intros c c' H. apply shape_height, sub_shape, H. Qed.

(* the guard: a macro call that gets as far as making a call found its defining frame within the bound *)
Lemma sub_macro_guard : forall f st m fidx args c', sub (KCallMacro f st m fidx args) c' ->
  exists d, depth_at st fidx = Some d /\ (d + 1 <= max_macro_depth)%Z.
Proof.
  intros f st m fidx args c' H. inversion H; subst.
  all: match goal with Hf : frame_at ?s ?i = Some ?dfr, G : (_ <? _)%Z = false |- exists d, depth_at ?s ?i = Some d /\ _ =>
         exists (f_depth dfr); split; [unfold depth_at; rewrite Hf; reflexivity|apply Z.ltb_ge; exact G] end.
Qed.

(* ---------- along a chain of calls ---------- *)
Lemma path_depths_ok : forall c0 callers c, path c0 callers c ->
  depths_ok (call_state c0) -> depths_ok (call_state c).
Proof.
  intros c0 callers c P. induction P as [c|c c1 callers c' Hs P IH]; intro H; [exact H|].
  apply IH. eapply sub_depths_ok; eassumption.
Qed.

Lemma path_first : forall c0 callers c, path c0 callers c -> In c0 (callers ++ [c]).
Proof. intros c0 callers c P. destruct P; simpl; auto. Qed.

Lemma path_fuel : forall c0 callers c, path c0 callers c -> call_fuel c0 = (length callers + call_fuel c)%nat.
Proof.
  intros c0 callers c P. induction P as [c|c c1 callers c' Hs P IH]; [reflexivity|].
  rewrite (sub_fuel _ _ Hs), IH. simpl. lia.
Qed.

Lemma path_depth_counts : forall c0 callers c, path c0 callers c -> forall i d0,
  (forall k, In k (callers ++ [c]) -> (i < height (call_state k))%nat) ->
  depth_at (call_state c0) i = Some d0 ->
  depth_at (call_state c) i = Some (d0 + Z.of_nat (macro_calls_on i callers))%Z.
Proof.
  intros c0 callers c P. induction P as [c|c c1 callers c' Hs P IH]; intros i d0 Hh H0.
  - cbn [macro_calls_on]. rewrite H0. f_equal. simpl. lia.
  - assert (L1 : (i < height (call_state c1))%nat).
    { apply Hh. cbn [app]. right. eapply path_first, P. }
    destruct (depth_at_lt_some _ _ L1) as (d1 & H1).
    pose proof (sub_depth_at _ _ _ _ _ Hs H0 H1) as E1.
    rewrite (IH i d1); [|intros k Hk; apply Hh; cbn [app]; right; exact Hk|exact H1].
    f_equal. cbn [macro_calls_on]. subst d1. lia.
Qed.

Lemma nesting_bounded : forall c0 callers c i,
  depths_ok (call_state c0) -> path c0 callers c ->
  (forall k, In k (callers ++ [c]) -> (i < height (call_state k))%nat) ->
  (Z.of_nat (macro_calls_on i callers) <= max_macro_depth)%Z.
Proof.
  intros c0 callers c i H0 P Hh.
  destruct (depth_at_lt_some _ _ (Hh _ (path_first _ _ _ P))) as (d0 & E0).
  pose proof (path_depth_counts _ _ _ P i d0 Hh E0) as E.
  pose proof (depths_ok_at _ _ _ H0 E0) as K0.
  pose proof (depths_ok_at _ _ _ (path_depths_ok _ _ _ P H0) E) as K.
  unfold dok in *. lia.
Qed.

(* the frames that are new since c0 started are those of invocations that push one *)
Fixpoint pushers (callers : list call) : nat :=
  match callers with
  | [] => 0%nat
  | c :: r => ((if pushes_frame c then 1 else 0) + pushers r)%nat
  end.
Lemma path_height : forall c0 callers c, path c0 callers c ->
  (height (call_state c) <= height (call_state c0) + pushers callers)%nat.
Proof.
  intros c0 callers c P. induction P as [c|c c1 callers c' Hs P IH]; [simpl; lia|].
  destruct (sub_height _ _ Hs) as [L Hp]. cbn [pushers].
  destruct (pushes_frame c); [lia|].
  assert (height (call_state c1) <> S (height (call_state c))) by (intro E; specialize (Hp E); discriminate Hp).
  lia.
Qed.

(* ---------- from the start of an execution ---------- *)
Lemma root_depths_ok : forall c, root_call c -> depths_ok (call_state c).
Proof. intros c (f & g & t & ctx & [-> | ->]); intros fr []. Qed.

Lemma reachable_depths_ok : forall c, reachable c -> depths_ok (call_state c).
Proof.
  intros c (c0 & R & callers & P). eapply path_depths_ok; [exact P|apply root_depths_ok, R].
Qed.

Lemma reachable_nesting_bounded : forall c0 callers c i,
  reachable c0 -> path c0 callers c ->
  (forall k, In k (callers ++ [c]) -> (i < height (call_state k))%nat) ->
  (Z.of_nat (macro_calls_on i callers) <= max_macro_depth)%Z.
Proof. intros c0 callers c i R. apply nesting_bounded, reachable_depths_ok, R. Qed.


(* ---------- no call site is forgotten in [sub] ----------
   Running out of fuel starts in a call at fuel 0 and is handed up by every caller; so if
   the calls that [sub] lists for an invocation with fuel left do not run out of fuel, the
   invocation does not either.  A call site missing from [sub] would make this false. *)
Lemma view_fuel : forall A (r : res (A * mstate)), view r = ROutOfFuel -> r = Fuel.
Proof. intros A [[a s]| | | |] H; try discriminate H. reflexivity. Qed.
Lemma xview_fuel : forall r : xres, xview r = ROutOfFuel -> exists o, r = (o, Fuel).
Proof. intros [o [s| | | |]] H; try discriminate H. eauto. Qed.
Lemma fuel_view : forall A (r : res (A * mstate)), r = Fuel -> view r = ROutOfFuel.
Proof. intros A r ->. reflexivity. Qed.
Lemma fuel_xview : forall (r : xres) o, r = (o, Fuel) -> xview r = ROutOfFuel.
Proof. intros r o ->. reflexivity. Qed.

Ltac head_scrut t :=
  lazymatch t with
  | match ?x with _ => _ end => head_scrut x
  | _ => t
  end.
Ltac norm_in H :=
  cbv beta iota zeta delta [bind xfail xok xerr of_opt cycle_out float_of int_of str_of] in H.
Ltac step H :=
  lazymatch type of H with
  | (_, _) = (_, _) => apply pair_snd_inv in H; try discriminate H
  | match _ with _ => _ end = _ =>
      lazymatch type of H with
      | ?l = _ => let s := head_scrut l in
                  destruct s eqn:?; cbv beta iota in H; try discriminate H
      end
  end.
Ltac steps H := repeat (step H).

Ltac prem :=
  first [ eassumption | reflexivity | exact I | discriminate | congruence
        | cbn [param_result call_args field subscript subscriptable]; first [ eassumption | reflexivity ]
        | cbn [param_result call_args field subscript subscriptable]; unfold signed_operand, lookup, float_of, int_of, str_of, of_opt, bind, xerr, cycle_site, cycle_pos, watched_changed, stored_vals;
          cbv zeta;
          repeat match goal with
          | Hq : ?x = _ |- context [match ?x with _ => _ end] => rewrite Hq; cbv beta iota
          end; first [ eassumption | reflexivity ]
        | match goal with
          | Hn : negb ?b = _ |- _ => destruct b; simpl in Hn |- *; congruence
          end ].
Ltac ssub := solve [ econstructor; prem ].

Section Listed.
Variable f : nat.
Local Notation compiler_out_of_fuel := (PV.Spec.SpecDepth.compiler_out_of_fuel se).

Ltac found c H := exists c; split; [ssub|first [apply fuel_view; exact H|eapply fuel_xview; exact H]].
Ltac kill :=
  match goal with
  | H : apply_filter_se _ _ _ _ = Fuel |- _ => exfalso; exact (apply_filter_se_nf _ _ _ _ H)
  | H : iter_items _ _ _ = Fuel |- _ => exfalso; exact (iter_items_nf _ _ _ H)
  | H : set_priv _ _ _ = Fuel |- _ => exfalso; exact (set_priv_nf _ _ _ H)
  | H : top_frame _ = Fuel |- _ => exfalso; exact (top_frame_nf _ H)
  | H : eval f ?st ?e = Fuel |- _ => found (KEval f st e) H
  | H : eval_list f ?st ?e = Fuel |- _ => found (KEvalList f st e) H
  | H : apply_chain f ?st ?v ?c = Fuel |- _ => found (KApplyChain f st v c) H
  | H : resolve f ?st ?p = Fuel |- _ => found (KResolve f st p) H
  | H : walk f ?st ?c ?s ?p = Fuel |- _ => found (KWalk f st c s p) H
  | H : call_macro f ?st ?m ?i ?a = Fuel |- _ => found (KCallMacro f st m i a) H
  | H : macro_defaults f ?st ?p = Fuel |- _ => found (KMacroDefaults f st p) H
  | H : call_super f ?st ?i ?w = Fuel |- _ => found (KCallSuper f st i w) H
  | H : eval_pairs f ?st ?p = Fuel |- _ => found (KEvalPairs f st p) H
  | H : apply_tag_chain f ?st ?v ?c = Fuel |- _ => found (KApplyTagChain f st v c) H
  | H : exec_nodes f ?st ?ns = (_, Fuel) |- _ => found (KExecNodes f st ns) H
  | H : exec_node f ?st ?n = (_, Fuel) |- _ => found (KExecNode f st n) H
  | H : exec_if f ?st ?c ?w ?i = (_, Fuel) |- _ => found (KExecIf f st c w i) H
  | H : exec_for f ?st ?k ?v ?p ?b ?it ?i ?c = (_, Fuel) |- _ => found (KExecFor f st k v p b it i c) H
  | H : exec_firstof f ?st ?a = (_, Fuel) |- _ => found (KExecFirstof f st a) H
  | H : exec_template f ?st ?t ?c = (_, Fuel) |- _ => found (KExecTemplate f st t c) H
  | H : exec_template_unbuffered f ?st ?t ?c = (_, Fuel) |- _ => found (KExecTemplateUnbuffered f st t c) H
  end.
Ltac fin := subst; kill.

Definition listed (c : call) : Prop := exists c', sub c c' /\ run c' = ROutOfFuel.

Lemma lf_eval : forall st e, eval (S f) st e = Fuel -> listed (KEval (S f) st e).
Proof.
  clear Hmax. intros st e H. unfold listed. rewrite eval_S in H. destruct e; norm_in H; try discriminate H.
  all: steps H.
  all: fin.
Qed.

Lemma lf_eval_list : forall st es, eval_list (S f) st es = Fuel -> listed (KEvalList (S f) st es).
Proof. clear Hmax. intros st es H. unfold listed. rewrite eval_list_S in H. norm_in H. steps H. all: fin. Qed.

Lemma lf_apply_chain : forall st v c, apply_chain (S f) st v c = Fuel -> listed (KApplyChain (S f) st v c).
Proof. clear Hmax. intros st v c H. unfold listed. rewrite apply_chain_S in H. norm_in H. steps H. all: fin. Qed.

Lemma lf_macro_defaults : forall st ps, macro_defaults (S f) st ps = Fuel -> listed (KMacroDefaults (S f) st ps).
Proof. clear Hmax. intros st ps H. unfold listed. rewrite macro_defaults_S in H. norm_in H. steps H. all: fin. Qed.

Lemma lf_eval_pairs : forall st ps, eval_pairs (S f) st ps = Fuel -> listed (KEvalPairs (S f) st ps).
Proof. clear Hmax. intros st ps H. unfold listed. rewrite eval_pairs_S in H. norm_in H. steps H. all: fin. Qed.

Lemma lf_apply_tag_chain : forall st v c, apply_tag_chain (S f) st v c = Fuel -> listed (KApplyTagChain (S f) st v c).
Proof. clear Hmax. intros st v c H. unfold listed. rewrite apply_tag_chain_S in H. norm_in H. steps H. all: fin. Qed.

Lemma lf_walk : forall st c sf ps, walk (S f) st c sf ps = Fuel -> listed (KWalk (S f) st c sf ps).
Proof. clear Hmax. intros st c sf ps H. unfold listed. rewrite walk_S in H. norm_in H. steps H. all: fin. Qed.

Lemma lf_resolve : forall st ps, resolve (S f) st ps = Fuel -> listed (KResolve (S f) st ps).
Proof. clear Hmax. intros st ps H. unfold listed. rewrite resolve_S in H. norm_in H. steps H. all: fin. Qed.

Lemma lf_call_super : forall st i w, call_super (S f) st i w = Fuel -> listed (KCallSuper (S f) st i w).
Proof. clear Hmax. intros st i w H. unfold listed. rewrite call_super_S in H. norm_in H. steps H. all: fin. Qed.

Lemma lf_exec_nodes : forall st ns o, exec_nodes (S f) st ns = (o, Fuel) -> listed (KExecNodes (S f) st ns).
Proof. clear Hmax. intros st ns o H. unfold listed. rewrite exec_nodes_S in H. norm_in H. steps H. all: fin. Qed.

Lemma lf_exec_if : forall st c w i o, exec_if (S f) st c w i = (o, Fuel) -> listed (KExecIf (S f) st c w i).
Proof. clear Hmax. intros st c w i o H. unfold listed. rewrite exec_if_S in H. norm_in H. steps H. all: fin. Qed.

Lemma lf_exec_firstof : forall st a o, exec_firstof (S f) st a = (o, Fuel) -> listed (KExecFirstof (S f) st a).
Proof. clear Hmax. intros st a o H. unfold listed. rewrite exec_firstof_S in H. norm_in H. steps H. all: fin. Qed.

Lemma lf_exec_template : forall st t c o, exec_template (S f) st t c = (o, Fuel) -> listed (KExecTemplate (S f) st t c).
Proof. clear Hmax. intros st t c o H. unfold listed. rewrite exec_template_S in H. norm_in H. steps H. all: fin. Qed.

Lemma lf_exec_for : forall st k v p b it i c o, exec_for (S f) st k v p b it i c = (o, Fuel) ->
  listed (KExecFor (S f) st k v p b it i c).
Proof. clear Hmax. intros st k v p b it i c o H. unfold listed. rewrite exec_for_S in H. norm_in H. steps H. all: fin. Qed.

Lemma lf_call_macro : forall st m i a, call_macro (S f) st m i a = Fuel -> listed (KCallMacro (S f) st m i a).
Proof. clear Hmax. intros st m i a H. unfold listed. rewrite call_macro_S in H. norm_in H. steps H. all: fin. Qed.

Lemma lf_exec_template_unbuffered : forall st t c o, exec_template_unbuffered (S f) st t c = (o, Fuel) ->
  listed (KExecTemplateUnbuffered (S f) st t c).
Proof.
  clear Hmax. intros st t c o H. unfold listed. rewrite exec_template_unbuffered_S in H. unfold g_fresh in H. norm_in H.
  destruct (forallb (fun kv => is_ident_key (fst kv)) (ctx_update globals c)) eqn:E1; cbn [negb] in H; [|discriminate H].
  destruct (existsb (fun kv => match assoc_get (fst kv) (tpl_exported t) with Some _ => true | None => false end)
                    (ctx_update globals c)) eqn:E2; [discriminate H|].
  steps H. subst.
  match goal with Hx : exec_nodes f ?s ?ns = (_, Fuel) |- _ => exists (KExecNodes f s ns); split; [|eapply fuel_xview; exact Hx] end.
  apply sub_template_root. unfold ctx_accepted. cbv zeta. rewrite E1, E2. reflexivity.
Qed.

Lemma lf_exec_node : forall st n o, exec_node (S f) st n = (o, Fuel) ->
  listed (KExecNode (S f) st n) \/ compiler_out_of_fuel (KExecNode (S f) st n).
Proof.
  clear Hmax. intros st n o H. unfold listed. destruct n.
  all: rewrite exec_node_S in H; norm_in H; steps H.
  all: try solve [left; fin].
  all: right; unfold PV.Spec.SpecDepth.compiler_out_of_fuel; do 8 eexists; split; [reflexivity|eassumption].
Qed.

End Listed.

Lemma every_call_listed : forall c, call_fuel c <> 0%nat -> run c = ROutOfFuel ->
  (exists c', sub c c' /\ run c' = ROutOfFuel) \/ PV.Spec.SpecDepth.compiler_out_of_fuel se c.
Proof.
  clear Hmax. intros c Hf H. destruct c; cbn [call_fuel] in Hf; (destruct f as [|f]; [congruence|]);
    cbn [PV.Spec.SpecDepth.run] in H.
  all: first [ apply view_fuel in H | apply xview_fuel in H; destruct H as (o & H) ].
  - left. eapply lf_eval, H.
  - left. eapply lf_eval_list, H.
  - left. eapply lf_apply_chain, H.
  - left. eapply lf_resolve, H.
  - left. eapply lf_walk, H.
  - left. eapply lf_call_macro, H.
  - left. eapply lf_macro_defaults, H.
  - left. eapply lf_call_super, H.
  - left. eapply lf_exec_nodes, H.
  - eapply lf_exec_node, H.
  - left. eapply lf_exec_if, H.
  - left. eapply lf_exec_for, H.
  - left. eapply lf_exec_firstof, H.
  - left. eapply lf_eval_pairs, H.
  - left. eapply lf_apply_tag_chain, H.
  - left. eapply lf_exec_template, H.
  - left. eapply lf_exec_template_unbuffered, H.
Qed.

(* ---------- no call is listed in [sub] that is not made ---------- *)
Ltac norm_all :=
  cbv beta iota zeta delta [bind xfail xok xerr of_opt cycle_out float_of int_of str_of] in *.
Ltac rw_prem :=
  repeat match goal with
  | Hq : ?l = _ |- context [?l] => rewrite Hq; cbv beta iota
  end.

Ltac simp_eqs :=
  repeat match goal with
  | Hq : Some _ = Some _ |- _ => injection Hq; clear Hq; intros; subst
  | Hq : Ok _ = Ok _ |- _ => injection Hq; clear Hq; intros; subst
  | Hq : (_, _) = (_, _) |- _ => injection Hq; clear Hq; intros; subst
  end.
Ltac gstep :=
  lazymatch goal with
  | |- _ (match ?T0 with _ => _ end) = ROutOfFuel =>
      let s := head_scrut T0 in
      first [ match goal with
              | Hq : _ = ?r |- _ => replace s with r by (symmetry; exact Hq); cbv beta iota
              end
            | destruct s eqn:?E; try rewrite E in *; cbv beta iota in *;
              try congruence; try contradiction ]
  end.

Lemma listed_calls_happen : forall c c', sub c c' -> run c' = ROutOfFuel -> run c = ROutOfFuel.
Proof.
  clear Hmax. intros c c' H Hc. destruct H; cbn [PV.Spec.SpecDepth.run] in Hc |- *.
  all: first [ apply view_fuel in Hc | apply xview_fuel in Hc; destruct Hc as (oo & Hc) ].
  all: first [ rewrite eval_S | rewrite eval_list_S | rewrite apply_chain_S | rewrite resolve_S
             | rewrite walk_S | rewrite call_macro_S | rewrite macro_defaults_S | rewrite call_super_S
             | rewrite exec_nodes_S | rewrite exec_node_S | rewrite exec_if_S | rewrite exec_for_S
             | rewrite exec_firstof_S | rewrite eval_pairs_S | rewrite apply_tag_chain_S
             | rewrite exec_template_S | rewrite exec_template_unbuffered_S ].
  all: unfold param_result, call_args, lookup, signed_operand, for_state, for_bind,
         for_frame, for_parent, with_frame, super_frame, block_chain, include_ctx, include_name,
         below_view, enter_macro, rejoin, frames_above, macro_frame, macro_ctx, arg_bindings,
         watched_changed, stored_vals, ctx_accepted, cycle_site, cycle_pos, field, subscript, subscriptable,
         g_fresh in *.
  all: unfold n_block, n_Super, n_forloop in *.
  all: norm_all.
  all: rw_prem.
  all: try reflexivity.
  all: repeat match goal with
       | x : item |- _ => destruct x as [? ?]; cbn [fst snd] in *
       | Hb : _ && _ = true |- _ => apply andb_prop in Hb; destruct Hb
       | Hb : negb _ = true |- _ => apply negb_true_iff in Hb
       end.
  all: timeout 300 (repeat (simp_eqs; rw_prem; cbn [negb]; try reflexivity; gstep)).
Qed.

End Depth.

(* ---------- the height of the frame stack has no bound that holds for all trees ---------- *)
Lemma path_app : forall se globals c0 l1 c1 l2 c2,
  path se globals c0 l1 c1 -> path se globals c1 l2 c2 -> path se globals c0 (l1 ++ l2) c2.
Proof.
  intros se globals c0 l1 c1 l2 c2 P. induction P as [c|c c' l c1 Hs P IH]; intro Q; [exact Q|].
  cbn [app]. eapply path_call; [exact Hs|]. apply IH, Q.
Qed.

Section SelfBlock.
Variable se : senv.
Local Notation a := [97] (only parsing).
Local Notation body := [NWith [] [NBlock [97]]] (only parsing).

Lemma self_block_round : forall f st fr,
  top_frame st = Ok fr -> f_chain fr = [self_block_template] ->
  exists callers st' fr',
    path se [] (KExecNodes (S (S (S (S (S f))))) st [NBlock a]) callers (KExecNodes (S f) st' [NBlock a]) /\
    height st' = S (height st) /\ top_frame st' = Ok fr' /\ f_chain fr' = [self_block_template].
Proof.
  intros f st fr Ht Hc.
  set (st1 := set_top st (with_priv fr (ctx_set n_block (CBlock (cur_index st) []) (f_priv fr)))).
  assert (Ht1 : top_frame st1 = Ok (with_priv fr (ctx_set n_block (CBlock (cur_index st) []) (f_priv fr)))).
  { unfold st1, top_frame. rewrite (frames_set_top _ _ _ Ht). reflexivity. }
  eexists. exists (push_frame st1 (with_frame (with_priv fr (ctx_set n_block (CBlock (cur_index st) []) (f_priv fr))) [])).
  eexists. split; [|split; [|split]].
  - eapply path_call; [apply sub_nodes_1|].
    eapply path_call.
    { eapply (sub_nblock se [] _ st a fr body [] st1); [exact Ht| |].
      - unfold block_chain. rewrite Hc. reflexivity.
      - unfold set_priv. rewrite Ht. reflexivity. }
    eapply path_call; [apply sub_nodes_1|].
    eapply path_call.
    { eapply (sub_with_body se [] _ st1 [] [NBlock a] _ [] st1); [exact Ht1| |exact Ht1]. rewrite eval_pairs_S. reflexivity. }
    apply path_here.
  - unfold height, st1. cbn [push_frame ms_frames length]. rewrite (frames_set_top _ _ _ Ht).
    rewrite (top_frame_ok _ _ Ht) at 2. reflexivity.
  - reflexivity.
  - cbn [with_frame with_priv child_of f_chain]. exact Hc.
Qed.

Lemma self_block_rounds : forall n f st fr,
  top_frame st = Ok fr -> f_chain fr = [self_block_template] ->
  exists callers c, path se [] (KExecNodes (4 * n + S f) st [NBlock a]) callers c /\
                    height (call_state c) = (height st + n)%nat.
Proof.
  induction n as [|n IH]; intros f st fr Ht Hc.
  - eexists. eexists. split; [apply path_here|]. cbn [call_state]. lia.
  - destruct (self_block_round (4 * n + f) st fr Ht Hc) as (l1 & st' & fr' & P1 & Hh & Ht' & Hc').
    destruct (IH f st' fr' Ht' Hc') as (l2 & c & P2 & Hh2).
    replace (4 * n + S f)%nat with (S (4 * n + f)) in P2 by lia.
    exists (l1 ++ l2), c. split.
    + replace (4 * S n + S f)%nat with (S (S (S (S (S (4 * n + f)))))) by lia.
      eapply path_app; eassumption.
    + rewrite Hh2, Hh. lia.
Qed.

Lemma self_block_height_unbounded : forall (g : gstate) (n : nat), exists c,
  reachable se [] c /\ (n <= height (call_state c))%nat.
Proof.
  intros g n.
  set (st0 := mkM (root_frame [] self_block_template [] (fst (g_fresh g)) :: []) [] (snd (g_fresh g))).
  destruct (self_block_rounds n 0 st0 (root_frame [] self_block_template [] (fst (g_fresh g))) eq_refl eq_refl)
    as (callers & c & P & Hh).
  exists c. split; [|rewrite Hh; lia].
  exists (KExecTemplateUnbuffered (S (4 * n + 1)) (mkM [] [] g) self_block_template []). split.
  - exists (S (4 * n + 1)), g, self_block_template, []. right. reflexivity.
  - eexists. eapply path_call; [apply sub_template_root; reflexivity|]. exact P.
Qed.
End SelfBlock.
