(* striptags / removetags / TrimSpace: lemmas for property C17 (no generated table is
   involved here). *)
From PV Require Import Lib.Bytes Lib.Utf8 Lib.GoInt gen.Tables Model.EscFilters Spec.SpecEsc.
From Coq Require Import ZifyN ZifyNat ZifyBool.
Open Scope N_scope.

(* ------------------------------------------------------------------ *)
(* strings.TrimSpace drops only white-space bytes at both ends          *)
(* ------------------------------------------------------------------ *)

(* the bytes consumed by a decoded white-space rune are white-space bytes *)
Lemma decode_rune_ws : forall (s : str) (r : N) (w : nat),
  decode_rune s = (r, w) -> is_space_rune r = true ->
  forallb ws_byte (firstn w s) = true.
Proof.
  intros s r w Hd Hs.
  assert (Herr : forall w', decode_rune s = (rune_error, w') ->
                            forallb ws_byte (firstn w s) = true).
  { intros w' E. rewrite E in Hd. inversion Hd; subst r.
    vm_compute in Hs. discriminate Hs. }
  revert Hd Herr. unfold decode_rune.
  destruct s as [|b0 t]; [intros Hd Herr; eapply Herr; reflexivity|].
  destruct (b0 <? 128) eqn:E0.
  { intros Hd _. inversion Hd; subst r w. cbn [firstn forallb].
    unfold is_space_rune, ws_byte, in_rng in *. lia. }
  destruct (in_rng 194 223 b0) eqn:E1.
  { destruct t as [|b1 t]; [intros _ Herr; eapply Herr; reflexivity|].
    destruct (is_cont b1) eqn:E2; [|intros _ Herr; eapply Herr; reflexivity].
    intros Hd _. inversion Hd; subst w. cbn [firstn forallb].
    unfold is_cont, ws_byte, in_rng in *. lia. }
  destruct (in_rng 224 239 b0) eqn:E2.
  { destruct t as [|b1 [|b2 t]]; try (intros _ Herr; eapply Herr; reflexivity).
    cbv zeta.
    destruct (in_rng (if b0 =? 224 then 160 else 128) (if b0 =? 237 then 159 else 191) b1
              && is_cont b2) eqn:E3; [|intros _ Herr; eapply Herr; reflexivity].
    intros Hd _. inversion Hd; subst w. cbn [firstn forallb].
    destruct (b0 =? 224); destruct (b0 =? 237);
      unfold is_cont, ws_byte, in_rng in *; lia. }
  destruct (in_rng 240 244 b0) eqn:E3.
  { destruct t as [|b1 [|b2 [|b3 t]]]; try (intros _ Herr; eapply Herr; reflexivity).
    cbv zeta.
    destruct (in_rng (if b0 =? 240 then 144 else 128) (if b0 =? 244 then 143 else 191) b1
              && is_cont b2 && is_cont b3) eqn:E4; [|intros _ Herr; eapply Herr; reflexivity].
    intros Hd _. inversion Hd; subst w. cbn [firstn forallb].
    destruct (b0 =? 240); destruct (b0 =? 244);
      unfold is_cont, ws_byte, in_rng in *; lia. }
  intros _ Herr; eapply Herr; reflexivity.
Qed.

Lemma trim_left_go_ws : forall (fuel : nat) (s : str),
  exists a, s = a ++ trim_left_go fuel s /\ forallb ws_byte a = true.
Proof.
  induction fuel as [|f IH]; intros s.
  - exists []. split; reflexivity.
  - destruct s as [|c s'].
    + exists []. split; reflexivity.
    + cbn [trim_left_go].
      destruct (decode_rune (c :: s')) as [r w] eqn:Hd.
      destruct (is_space_rune r) eqn:Hs.
      * destruct (IH (skipn w (c :: s'))) as [a [Ea Ha]].
        exists (firstn w (c :: s') ++ a). split.
        -- rewrite <- app_assoc, <- Ea. symmetry. apply firstn_skipn.
        -- rewrite forallb_app, Ha, (decode_rune_ws _ _ _ Hd Hs). reflexivity.
      * exists []. split; reflexivity.
Qed.

Lemma forallb_rev : forall (A : Type) (f : A -> bool) (l : list A),
  forallb f (rev l) = forallb f l.
Proof.
  intros A f l. induction l as [|x l IH]; [reflexivity|].
  cbn [rev forallb]. rewrite forallb_app, IH. cbn [forallb].
  destruct (f x); destruct (forallb f l); reflexivity.
Qed.

(* the candidate DecodeLastRune tries on the last k bytes *)
Lemma last_chunk_ws : forall (rs : str) (k : nat) (r : N) (w : nat) (r' : N) (w' : nat),
  decode_rune (rev (firstn k rs)) = (r, w) ->
  (if Nat.eqb w k then (r, w) else (rune_error, 1%nat)) = (r', w') ->
  is_space_rune r' = true ->
  forallb ws_byte (firstn w' rs) = true.
Proof.
  intros rs k r w r' w' Hd Hsel Hs.
  destruct (Nat.eqb_spec w k) as [E|_].
  - inversion Hsel; subst r' w' k.
    pose proof (decode_rune_ws _ _ _ Hd Hs) as H.
    rewrite firstn_all2 in H by (rewrite rev_length; apply firstn_le_length).
    rewrite forallb_rev in H. exact H.
  - inversion Hsel; subst r'. vm_compute in Hs. discriminate Hs.
Qed.

Lemma decode_last_rev_ws : forall (rs : str) (r : N) (w : nat),
  decode_last_rev rs = (r, w) -> is_space_rune r = true ->
  forallb ws_byte (firstn w rs) = true.
Proof.
  intros rs r w Hd Hs.
  (* one attempt of the backwards search *)
  assert (Htry : forall k,
    match rev (firstn k rs) with
    | c0 :: _ =>
        if rune_start c0
        then let '(r0, w0) := decode_rune (rev (firstn k rs)) in
             Some (if Nat.eqb w0 k then (r0, w0) else (rune_error, 1%nat))
        else None
    | [] => None
    end = Some (r, w) -> forallb ws_byte (firstn w rs) = true).
  { intros k. destruct (rev (firstn k rs)) as [|c0 ch] eqn:Ech; [discriminate|].
    destruct (rune_start c0); [|discriminate].
    rewrite <- Ech. destruct (decode_rune (rev (firstn k rs))) as [r0 w0] eqn:Hdk.
    intros E. inversion E as [E']. eapply last_chunk_ws; eassumption. }
  revert Hd. unfold decode_last_rev.
  destruct rs as [|b rs']; [intros Hd; inversion Hd; subst r; vm_compute in Hs; discriminate Hs|].
  destruct (b <? 128) eqn:E0.
  { intros Hd. inversion Hd; subst r w. cbn [firstn forallb].
    unfold is_space_rune, ws_byte, in_rng in *. lia. }
  set (rs := b :: rs') in *.
  cbv zeta.
  assert (Hopt : forall (k : nat) (c : bool) (x : N * nat),
    (if c then
       match rev (firstn k rs) with
       | c0 :: _ =>
           if rune_start c0
           then let '(r0, w0) := decode_rune (rev (firstn k rs)) in
                Some (if Nat.eqb w0 k then (r0, w0) else (rune_error, 1%nat))
           else None
       | [] => None
       end
     else None) = Some x -> x = (r, w) -> forallb ws_byte (firstn w rs) = true).
  { intros k c x E Ex. subst x. destruct c; [|discriminate E]. exact (Htry k E). }
  destruct (if Nat.leb 2 (length rs) then _ else None) as [x|] eqn:T2;
    [exact (Hopt _ _ _ T2)|clear T2].
  destruct (if Nat.leb 3 (length rs) then _ else None) as [x|] eqn:T3;
    [exact (Hopt _ _ _ T3)|clear T3].
  destruct (if Nat.leb 4 (length rs) then _ else None) as [x|] eqn:T4;
    [exact (Hopt _ _ _ T4)|clear T4].
  destruct (decode_rune (rev (firstn (Nat.min 4 (length rs)) rs))) as [r0 w0] eqn:Hdk.
  intros Hd. eapply last_chunk_ws; eassumption.
Qed.

Lemma trim_right_go_ws : forall (fuel : nat) (rs : str),
  exists a, rs = a ++ trim_right_go fuel rs /\ forallb ws_byte a = true.
Proof.
  induction fuel as [|f IH]; intros rs.
  - exists []. split; reflexivity.
  - destruct rs as [|c rs'].
    + exists []. split; reflexivity.
    + cbn [trim_right_go].
      destruct (decode_last_rev (c :: rs')) as [r w] eqn:Hd.
      destruct (is_space_rune r) eqn:Hs.
      * destruct (IH (skipn w (c :: rs'))) as [a [Ea Ha]].
        exists (firstn w (c :: rs') ++ a). split.
        -- rewrite <- app_assoc, <- Ea. symmetry. apply firstn_skipn.
        -- rewrite forallb_app, Ha, (decode_last_rev_ws _ _ _ Hd Hs). reflexivity.
      * exists []. split; reflexivity.
Qed.

Lemma trim_space_trimmed : forall s : str, trimmed_of s (trim_space s).
Proof.
  intros s. unfold trimmed_of, trim_space, trim_right_space, trim_left_space.
  destruct (trim_left_go_ws (length s) s) as [a [Ea Ha]].
  set (l := trim_left_go (length s) s) in *.
  destruct (trim_right_go_ws (length l) (rev l)) as [b [Eb Hb]].
  exists a, (rev b). split; [|split].
  - rewrite <- rev_app_distr, <- Eb, rev_involutive. exact Ea.
  - exact Ha.
  - rewrite forallb_rev. exact Hb.
Qed.

(* ------------------------------------------------------------------ *)
(* striptags                                                            *)
(* ------------------------------------------------------------------ *)

Lemma has_gt_existsb : forall s : str, has_gt s = existsb (N.eqb 62) s.
Proof.
  induction s as [|c s IH]; [reflexivity|].
  cbn [has_gt existsb]. rewrite IH. unfold ch_gt. rewrite (N.eqb_sym c 62). reflexivity.
Qed.

Lemma has_complete_tag_app_r : forall a s : str,
  has_complete_tag (a ++ s) = false -> has_complete_tag s = false.
Proof.
  induction a as [|c a IH]; intros s H; [exact H|].
  cbn [app has_complete_tag] in H. apply orb_false_iff in H. apply IH, H.
Qed.

Lemma has_complete_tag_app_l : forall r b : str,
  has_complete_tag (r ++ b) = false -> has_complete_tag r = false.
Proof.
  induction r as [|c r IH]; intros b H; [reflexivity|].
  cbn [app has_complete_tag] in *. apply orb_false_iff in H. destruct H as [H1 H2].
  rewrite (IH _ H2), orb_false_r.
  destruct (c =? 60); [|reflexivity].
  cbn [andb] in *. rewrite existsb_app in H1. apply orb_false_iff in H1. apply H1.
Qed.

Lemma has_complete_tag_infix : forall s a r b : str,
  s = a ++ r ++ b -> has_complete_tag s = false -> has_complete_tag r = false.
Proof.
  intros s a r b E H. subst s.
  eapply has_complete_tag_app_l, has_complete_tag_app_r, H.
Qed.

Lemma striptags_go_no_gt : forall (s : str) (b : bool),
  has_gt s = false -> existsb (N.eqb 62) (striptags_go b s) = false.
Proof.
  induction s as [|c s IH]; intros b H; [reflexivity|].
  cbn [has_gt] in H. apply orb_false_iff in H. destruct H as [Hc Hs].
  cbn [striptags_go]. rewrite Hc, Hs, andb_false_r.
  destruct b.
  - apply IH, Hs.
  - cbn [existsb]. rewrite (IH false Hs), orb_false_r.
    unfold ch_gt in Hc. rewrite N.eqb_sym. exact Hc.
Qed.

Lemma striptags_go_no_complete_tag : forall (s : str) (b : bool),
  has_complete_tag (striptags_go b s) = false.
Proof.
  induction s as [|c s IH]; intros b; [destruct b; reflexivity|].
  cbn [striptags_go]. destruct b.
  - destruct (c =? ch_gt); apply IH.
  - destruct ((c =? ch_lt) && has_gt s) eqn:E; [apply IH|].
    cbn [has_complete_tag]. rewrite IH, orb_false_r.
    unfold ch_lt in E. destruct (c =? 60); [|reflexivity].
    cbn [andb] in *. apply striptags_go_no_gt, E.
Qed.

Lemma striptags_no_complete_tag : forall s : str,
  has_complete_tag (filter_striptags s) = false.
Proof.
  intros s. unfold filter_striptags.
  destruct (trim_space_trimmed (striptags_go false s)) as [a [b [E _]]].
  eapply has_complete_tag_infix; [exact E|apply striptags_go_no_complete_tag].
Qed.

(* r is s with some substrings of the shape '<' … '>' (no '>' inside) deleted *)
Inductive deletes_between : str -> str -> Prop :=
| db_nil : deletes_between [] []
| db_keep c s r : deletes_between s r -> deletes_between (c :: s) (c :: r)
| db_tag body s r : existsb (N.eqb 62) body = false -> deletes_between s r ->
                    deletes_between (60 :: body ++ 62 :: s) r.

Lemma striptags_go_deletes : forall s : str,
  deletes_between s (striptags_go false s) /\
  (has_gt s = true ->
   exists body rest, s = body ++ 62 :: rest /\ existsb (N.eqb 62) body = false /\
                     deletes_between rest (striptags_go true s)).
Proof.
  induction s as [|c s [IH1 IH2]].
  - split; [constructor|discriminate].
  - split.
    + cbn [striptags_go].
      destruct (N.eqb_spec c ch_lt) as [Ec|_]; cbn [andb].
      * destruct (has_gt s) eqn:Hg.
        -- destruct (IH2 eq_refl) as [body [rest [E [Hb Hd]]]].
           subst c. rewrite E at 1. apply db_tag; assumption.
        -- apply db_keep, IH1.
      * apply db_keep, IH1.
    + intros Hg. cbn [has_gt] in Hg. cbn [striptags_go].
      destruct (N.eqb_spec c ch_gt) as [Ec|Ec].
      * subst c. exists [], s. split; [reflexivity|]. split; [reflexivity|exact IH1].
      * cbn [orb] in Hg. destruct (IH2 Hg) as [body [rest [E [Hb Hd]]]].
        exists (c :: body), rest. split; [rewrite E; reflexivity|]. split; [|exact Hd].
        cbn [existsb]. rewrite Hb, orb_false_r. apply N.eqb_neq.
        intros E'. apply Ec. symmetry. exact E'.
Qed.

Lemma striptags_only_tags : forall s : str,
  exists r0, deletes_between s r0 /\ trimmed_of r0 (filter_striptags s).
Proof.
  intros s. exists (striptags_go false s). split.
  - apply striptags_go_deletes.
  - apply trim_space_trimmed.
Qed.

(* ------------------------------------------------------------------ *)
(* removetags                                                           *)
(* ------------------------------------------------------------------ *)

(* matches on byte literals, as boolean tests *)
Lemma N_match_60 : forall (A : Type) (c : N) (x y : A),
  match c with 60 => x | _ => y end = if c =? 60 then x else y.
Proof.
  intros A c x y. destruct c as [|p]; [reflexivity|].
  do 7 (try (destruct p as [p|p|]; try reflexivity)).
Qed.
Lemma N_match_47 : forall (A : Type) (c : N) (x y : A),
  match c with 47 => x | _ => y end = if c =? 47 then x else y.
Proof.
  intros A c x y. destruct c as [|p]; [reflexivity|].
  do 7 (try (destruct p as [p|p|]; try reflexivity)).
Qed.
Lemma N_match_62 : forall (A : Type) (c : N) (x y : A),
  match c with 62 => x | _ => y end = if c =? 62 then x else y.
Proof.
  intros A c x y. destruct c as [|p]; [reflexivity|].
  do 7 (try (destruct p as [p|p|]; try reflexivity)).
Qed.

(* after the tag name: an optional '/' and then '>' *)
Lemma match_tag_tail : forall (r3 : str) (n1 w : nat),
  match match r3 with 47 :: r => (r, 1%nat) | _ => (r3, 0%nat) end with
  | (62 :: _, n2) => (3 + n1 + n2)%nat
  | _ => 0%nat
  end = S w ->
  exists r5, (r3 = 62 :: r5 /\ (3 + n1 + 0)%nat = S w) \/
             (r3 = 47 :: 62 :: r5 /\ (3 + n1 + 1)%nat = S w).
Proof.
  intros r3 n1 w H.
  destruct r3 as [|c3 r4]; [discriminate H|].
  rewrite N_match_47 in H. destruct (N.eqb_spec c3 47) as [->|_]; cbv beta iota in H.
  - destruct r4 as [|c4 r5]; [discriminate H|].
    rewrite N_match_62 in H. destruct (N.eqb_spec c4 62) as [->|_]; [|discriminate H].
    exists r5. right. split; [reflexivity|exact H].
  - rewrite N_match_62 in H. destruct (N.eqb_spec c3 62) as [->|_]; [|discriminate H].
    exists r4. left. split; [reflexivity|exact H].
Qed.

Lemma match_tag_form : forall (t : N) (s : str) (w : nat),
  match_tag t s = S w ->
  exists f rest, In f (tag_forms_of t) /\ s = f ++ rest /\ length f = S w.
Proof.
  intros t s w H.
  destruct s as [|c0 r1]; [discriminate H|].
  unfold match_tag in H. rewrite N_match_60 in H.
  destruct (N.eqb_spec c0 60) as [->|_]; [|discriminate H].
  destruct r1 as [|c1 r2]; [discriminate H|].
  rewrite N_match_47 in H. destruct (N.eqb_spec c1 47) as [->|_]; cbv beta iota in H.
  - destruct r2 as [|c r3]; [discriminate H|].
    destruct (N.eqb_spec c t) as [->|_]; [|discriminate H].
    apply match_tag_tail in H. destruct H as [r5 [[-> Hn]|[-> Hn]]].
    + exists [60; 47; t; 62], r5. split; [cbn; tauto|]. split; [reflexivity|exact Hn].
    + exists [60; 47; t; 47; 62], r5. split; [cbn; tauto|]. split; [reflexivity|exact Hn].
  - destruct (N.eqb_spec c1 t) as [->|_]; [|discriminate H].
    apply match_tag_tail in H. destruct H as [r5 [[-> Hn]|[-> Hn]]].
    + exists [60; t; 62], r5. split; [cbn; tauto|]. split; [reflexivity|exact Hn].
    + exists [60; t; 47; 62], r5. split; [cbn; tauto|]. split; [reflexivity|exact Hn].
Qed.

Lemma remove_tag_go_deletes : forall (t : N) (s : str) (k : nat),
  deletes (tag_forms_of t) (skipn k s) (remove_tag_go t k s).
Proof.
  intros t. induction s as [|c s IH]; intros k.
  - destruct k; constructor.
  - destruct k as [|k].
    + cbn [skipn remove_tag_go].
      destruct (match_tag t (c :: s)) as [|w] eqn:Hm.
      * apply del_keep. apply (IH 0%nat).
      * destruct (match_tag_form _ _ _ Hm) as [f [rest [Hin [E Hl]]]].
        destruct f as [|c' f']; [discriminate Hl|].
        cbn [app] in E. inversion E; subst c' s. cbn [length] in Hl. inversion Hl as [Hl'].
        change (c :: f' ++ rest) with ((c :: f') ++ rest).
        apply del_form; [exact Hin|].
        pose proof (IH w) as Hw. subst w.
        rewrite skipn_app, skipn_all, Nat.sub_diag in Hw. exact Hw.
    + cbn [skipn remove_tag_go]. apply IH.
Qed.

Lemma removetags_loop_deletes : forall (tags : list str) (s r : str),
  removetags_loop tags s = Some r ->
  exists ts, Forall (fun t => is_alpha t = true) ts /\ deletes_seq ts s r.
Proof.
  induction tags as [|t tags IH]; intros s r H.
  - cbn [removetags_loop] in H. inversion H; subst r.
    exists []. split; constructor.
  - cbn [removetags_loop] in H.
    destruct (valid_tag t) as [c|] eqn:Hv; [|discriminate H].
    destruct (IH _ _ H) as [ts [Hts Hd]].
    exists (c :: ts). split.
    + constructor; [|exact Hts].
      unfold valid_tag in Hv. destruct t as [|c' [|? ?]]; try discriminate Hv.
      destruct (is_alpha c') eqn:Ha; [|discriminate Hv].
      inversion Hv; subst c. exact Ha.
    + econstructor; [|exact Hd]. apply (remove_tag_go_deletes c s 0%nat).
Qed.

Lemma removetags_only_named : forall (s param r : str),
  filter_removetags s param = Some r ->
  exists tags r0, Forall (fun t => is_alpha t = true) tags /\
                  deletes_seq tags s r0 /\ trimmed_of r0 r.
Proof.
  intros s param r H. unfold filter_removetags in H.
  destruct (removetags_loop (split_go [44] 0 [] param) s) as [r0|] eqn:Hl; [|discriminate H].
  inversion H; subst r.
  destruct (removetags_loop_deletes _ _ _ Hl) as [ts [Hts Hd]].
  exists ts, r0. split; [exact Hts|]. split; [exact Hd|apply trim_space_trimmed].
Qed.
