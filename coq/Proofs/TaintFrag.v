(* Property C02, the "however they are looped over, assigned, combined" part: a template
   fragment without opt-outs (Spec/SpecTaint.v, [frag_node]) executed with autoescape on over
   a context of unmarked data produces output in escaped form, and leaves such a context
   behind.  Induction on the fuel over exec_nodes / exec_node / exec_if / exec_for. *)
From PV Require Import Lib.Bytes Lib.GoInt Lib.GoFloat Model.Value Model.Doc Model.Exec Model.Filters Spec.SpecEsc Spec.SpecTaint.
From PV Require Import gen.Tables Proofs.TaintUnfold Proofs.Taint.
Open Scope N_scope.

(* ---------- escaped form is closed under concatenation ---------- *)
Lemma is_prefix_app : forall p s t, is_prefix p s = true -> is_prefix p (s ++ t) = true.
Proof.
  induction p as [|a p IH]; intros s t H; [reflexivity|].
  destruct s as [|b s]; [discriminate H|]. cbn [is_prefix app] in *.
  apply andb_true_iff in H. destruct H as [H1 H2]. rewrite H1, (IH _ _ H2). reflexivity.
Qed.
Lemma existsb_impl : forall A (P Q : A -> bool) l,
  (forall x, P x = true -> Q x = true) -> existsb P l = true -> existsb Q l = true.
Proof.
  intros A P Q l H. induction l as [|x l IH]; [intros H0; discriminate H0|]. cbn [existsb]. intros H0.
  apply orb_true_iff in H0. apply orb_true_iff. destruct H0 as [H0|H0]; [left; apply H; exact H0|right; apply IH; exact H0].
Qed.
Lemma amp_ok_app : forall a b, amp_ok a = true -> amp_ok b = true -> amp_ok (a ++ b) = true.
Proof.
  induction a as [|c a IH]; intros b Ha Hb; [exact Hb|].
  change ((c :: a) ++ b) with (c :: (a ++ b)).
  cbn [amp_ok] in *. apply andb_true_iff in Ha. destruct Ha as [H1 H2].
  rewrite (IH b H2 Hb), andb_true_r.
  destruct (c =? 38); [|reflexivity].
  change (c :: a ++ b) with ((c :: a) ++ b).
  revert H1. apply existsb_impl. intros e He. apply is_prefix_app. exact He.
Qed.
Lemma html_clean_app : forall a b, html_clean a = true -> html_clean b = true -> html_clean (a ++ b) = true.
Proof.
  unfold html_clean. intros a b Ha Hb.
  apply andb_true_iff in Ha. apply andb_true_iff in Hb. destruct Ha as [A1 A2]. destruct Hb as [B1 B2].
  rewrite forallb_app, A1, B1, (amp_ok_app _ _ A2 B2). reflexivity.
Qed.

Lemma forallb_rev : forall (P : N -> bool) l, forallb P (rev l) = forallb P l.
Proof.
  intros P l. induction l as [|b l IH]; [reflexivity|]. cbn [rev forallb].
  rewrite forallb_app, IH. cbn [forallb]. rewrite andb_true_r. apply andb_comm.
Qed.

(* ---------- text nodes ---------- *)
(* the text of an NHtml node after the trimming options, with the model's local loops named *)
Definition drop_while (w : N -> bool) : str -> str :=
  fix go (l : str) : str := match l with b :: l' => if w b then go l' else l | [] => [] end.
Definition drop_nl (l : str) : str := match l with 10 :: r => r | _ => l end.
Definition html_text (fr : frame) (owner : N) (val : str) (trimL trimR after before : bool) : str :=
  let entry := last (f_chain fr) (Tpl 0 [] true [] [] [] None false false) in
  let mine := existsb (fun t => tpl_id t =? owner) (f_chain fr) in
  let v1 := if mine && tpl_lstrip entry && before
            then rev (drop_while (fun b => (b =? 9) || (b =? 32)) (rev val)) else val in
  let v2 := if mine && tpl_trim entry && after then drop_nl v1 else v1 in
  let v3 := if trimL then drop_while (fun b => mem_byte b token_space_chars) v2 else v2 in
  if trimR then rev (drop_while (fun b => mem_byte b token_space_chars) (rev v3)) else v3.

Lemma drop_while_sub : forall (w P : N -> bool) l, forallb P l = true -> forallb P (drop_while w l) = true.
Proof.
  intros w P l. induction l as [|b l IH]; intros H; [reflexivity|].
  cbn [forallb] in H. apply andb_true_iff in H. destruct H as [Hb Hl].
  cbn [drop_while]. destruct (w b).
  - apply IH. exact Hl.
  - cbn [forallb]. rewrite Hb, Hl. reflexivity.
Qed.
Lemma drop_nl_sub : forall (P : N -> bool) l, forallb P l = true -> forallb P (drop_nl l) = true.
Proof.
  intros P l H. destruct l as [|c r]; [reflexivity|].
  assert (Hr : forallb P r = true) by (cbn [forallb] in H; apply andb_true_iff in H; apply H).
  unfold drop_nl.
  repeat match goal with |- context [match ?p with _ => _ end] => is_var p; destruct p end;
    first [exact H|exact Hr].
Qed.
Lemma html_text_sub : forall (P : N -> bool) fr owner val tl tr af bf,
  forallb P val = true -> forallb P (html_text fr owner val tl tr af bf) = true.
Proof.
  intros P fr owner val tl tr af bf H. unfold html_text. cbv zeta.
  repeat match goal with
         | |- forallb P (if ?c then _ else _) = true => destruct c
         | |- forallb P (rev _) = true => rewrite forallb_rev
         | |- forallb P (drop_while _ _) = true => apply drop_while_sub
         | |- forallb P (drop_nl _) = true => apply drop_nl_sub
         end; exact H.
Qed.

(* ---------- plain contexts under the binding operations ---------- *)
Lemma plain_ctx_del : forall k m, forallb entry_plain m = true -> forallb entry_plain (ctx_del k m) = true.
Proof.
  intros k m. induction m as [|[k' v] m IH]; intros H; [reflexivity|].
  cbn [forallb] in H. apply andb_true_iff in H. destruct H as [H1 H2]. cbn [ctx_del].
  destruct (str_eqb k k'); [apply IH; exact H2|]. cbn [forallb]. rewrite H1, (IH H2). reflexivity.
Qed.
Lemma plain_ctx_set : forall k c m,
  entry_plain (k, c) = true -> forallb entry_plain m = true -> forallb entry_plain (ctx_set k c m) = true.
Proof. intros k c m Hc Hm. unfold ctx_set. cbn [forallb]. rewrite Hc, (plain_ctx_del k m Hm). reflexivity. Qed.
Lemma plain_ctx_update : forall src dst,
  forallb entry_plain src = true -> forallb entry_plain dst = true ->
  forallb entry_plain (ctx_update dst src) = true.
Proof.
  unfold ctx_update. induction src as [|[k c] src IH]; intros dst Hs Hd; [exact Hd|].
  cbn [forallb] in Hs. apply andb_true_iff in Hs. destruct Hs as [H1 H2]. cbn [fold_left fst snd].
  apply IH; [exact H2|]. apply plain_ctx_set; assumption.
Qed.

(* the current context: autoescape on, plain entries only *)
Definition good (st : mstate) : Prop :=
  exists fr, top_frame st = Ok fr /\ f_auto fr = true /\ frame_plain fr = true.

Lemma good_iff : forall st, good st <-> auto_on st /\ plain_state st.
Proof.
  intros st. unfold good, auto_on, plain_state. split.
  - intros (fr & H1 & H2 & H3). split; exists fr; split; assumption.
  - intros [(fr & H1 & H2) (fr' & H1' & H3)]. rewrite H1 in H1'. inversion H1'. subst fr'.
    exists fr. repeat split; assumption.
Qed.
Lemma good_frames : forall st st', ms_frames st' = ms_frames st -> good st -> good st'.
Proof. intros st st' H (fr & H1 & H2). exists fr. unfold top_frame in *. rewrite H. split; assumption. Qed.
Lemma good_push : forall st fr, f_auto fr = true -> frame_plain fr = true -> good (push_frame st fr).
Proof. intros st fr H1 H2. exists fr. repeat split; assumption. Qed.
Lemma good_set_top : forall st fr0 fr,
  top_frame st = Ok fr0 -> f_auto fr = true -> frame_plain fr = true -> good (set_top st fr).
Proof. intros st fr0 fr H H1 H2. exists fr. split; [eapply top_set_top; exact H|]. split; assumption. Qed.
Lemma tl_set_top : forall st fr, tl (ms_frames (set_top st fr)) = tl (ms_frames st).
Proof. intros st fr. unfold set_top. destruct (ms_frames st) eqn:E; [rewrite E|]; reflexivity. Qed.
Lemma frames_pop : forall st, ms_frames (pop_frame st) = tl (ms_frames st).
Proof. reflexivity. Qed.

Lemma frame_plain_priv : forall fr p,
  frame_plain fr = true -> forallb entry_plain p = true -> frame_plain (with_priv fr p) = true.
Proof.
  intros fr p H Hp. unfold frame_plain in *. apply andb_true_iff in H. destruct H as [_ H2].
  cbn [with_priv f_priv f_pub]. rewrite Hp, H2. reflexivity.
Qed.
Lemma frame_plain_child_priv : forall fr p,
  frame_plain fr = true -> forallb entry_plain p = true -> frame_plain (with_priv (child_of fr) p) = true.
Proof.
  intros fr p H Hp. unfold frame_plain in *. apply andb_true_iff in H. destruct H as [_ H2].
  cbn [with_priv child_of f_priv f_pub]. rewrite Hp, H2. reflexivity.
Qed.
Lemma frame_plain_privs : forall fr, frame_plain fr = true -> forallb entry_plain (f_priv fr) = true.
Proof. intros fr H. unfold frame_plain in H. apply andb_true_iff in H. apply H. Qed.

(* what executing a fragment guarantees: output in escaped form, a good state afterwards, and
   the contexts below the current one in place *)
Definition R (st st' : mstate) (o : str) : Prop :=
  html_clean o = true /\ good st' /\ tl (ms_frames st') = tl (ms_frames st).

Lemma R_nil : forall st, good st -> R st st [].
Proof. intros st H. split; [reflexivity|]. split; [exact H|reflexivity]. Qed.
Lemma R_same : forall st o, good st -> html_clean o = true -> R st st o.
Proof. intros st o H Ho. split; [exact Ho|]. split; [exact H|reflexivity]. Qed.
Lemma R_start : forall sa st st' o, tl (ms_frames sa) = tl (ms_frames st) -> R sa st' o -> R st st' o.
Proof. intros sa st st' o H (H1 & H2 & H3). split; [exact H1|]. split; [exact H2|]. rewrite H3. exact H. Qed.
Lemma R_trans : forall st st1 st2 o1 o2, R st st1 o1 -> R st1 st2 o2 -> R st st2 (o1 ++ o2).
Proof.
  intros st st1 st2 o1 o2 (A1 & A2 & A3) (B1 & B2 & B3).
  split; [apply html_clean_app; assumption|]. split; [exact B2|]. rewrite B3. exact A3.
Qed.
(* a construct that ran in a child context and dropped it *)
Lemma R_pop : forall st fr st2 o,
  good st -> R (push_frame st fr) st2 o -> R st (pop_frame st2) o.
Proof.
  intros st fr st2 o Hg (A1 & _ & A3). cbn [push_frame ms_frames tl] in A3.
  split; [exact A1|]. split.
  - apply (good_frames st); [|exact Hg]. rewrite frames_pop. exact A3.
  - rewrite frames_pop, A3. reflexivity.
Qed.

Section Frag.
  Variable se : senv.
  Variable globals : list (str * cval).
  Hypothesis esc_clean : forall s, html_clean (filter_escape s) = true.

  Lemma eval_good : forall f st e v st',
    good st -> eval se globals f st e = Ok (v, st') -> st' = st /\ vsafe v = false.
  Proof. intros f st e v st' Hg. apply eval_plain. apply good_iff in Hg. apply Hg. Qed.

  Lemma eval_list_good : forall f st es vs st',
    good st -> eval_list se globals f st es = Ok (vs, st') -> st' = st.
  Proof.
    intros f st es vs st' Hg H. apply good_iff in Hg. destruct Hg as [_ Hp].
    destruct (plain_inv_all se globals f) as (_ & Hl & _). eapply Hl; eassumption.
  Qed.

  Lemma eval_pairs_good : forall f st pairs vals st',
    good st -> eval_pairs se globals f st pairs = Ok (vals, st') ->
    st' = st /\ forallb entry_plain vals = true.
  Proof.
    induction f as [|f IH]; intros st pairs vals st' Hg H; [discriminate H|].
    rewrite eval_pairs_S in H. destruct pairs as [|[k e] rest]; [inversion H; subst; split; reflexivity|].
    destruct (eval se globals f st e) as [[v st1]| | | |] eqn:E; cbn [bind] in H; try discriminate H.
    destruct (eval_good _ _ _ _ _ Hg E) as [-> Hv].
    destruct (eval_pairs se globals f st rest) as [[r st2]| | | |] eqn:E2; cbn [bind] in H; try discriminate H.
    destruct (IH _ _ _ _ Hg E2) as [-> Hr]. inversion H; subst. split; [reflexivity|].
    cbn [forallb]. rewrite Hr, andb_true_r. unfold entry_plain. cbn [snd]. rewrite Hv. reflexivity.
  Qed.

  Lemma exec_node_S_html : forall f st owner val tl tr af bf,
    exec_node se globals (S f) st (NHtml owner val tl tr af bf) =
      match top_frame st with
      | Ok fr => xok (html_text fr owner val tl tr af bf) st
      | other => xfail [] other
      end.
  Proof. reflexivity. Qed.

  Lemma firstof_good : forall f st args o st',
    good st -> none_safe args = true -> exec_firstof se globals f st args = (o, Ok st') ->
    st' = st /\ html_clean o = true.
  Proof.
    induction f as [|f IH]; intros st args o st' Hg Hn H; [discriminate H|].
    rewrite exec_firstof_S in H. destruct args as [|a rest]; [inversion H; subst; split; reflexivity|].
    cbn [none_safe forallb] in Hn. apply andb_true_iff in Hn. destruct Hn as [Hna Hnr].
    destruct (eval se globals f st a) as [[v st1]| | | |] eqn:E; try discriminate H.
    destruct (eval_good _ _ _ _ _ Hg E) as [-> Hv].
    destruct (is_true (vv v)).
    - destruct Hg as (fr & Ht & Ha & _). rewrite Ht in H.
      destruct (to_string (vv v)) as [s|]; [|discriminate H].
      change [115; 97; 102; 101] with n_safe in H. rewrite Ha, Hna in H. cbn [andb] in H.
      inversion H; subst. split; [reflexivity|apply esc_clean].
    - apply (IH st rest); assumption.
  Qed.

  Section Step.
    Variable f : nat.
    Hypothesis IHnodes : forall st ns o st', good st -> frag_nodes ns = true ->
      exec_nodes se globals f st ns = (o, Ok st') -> R st st' o.
    Hypothesis IHnode : forall st n o st', good st -> frag_node n = true ->
      exec_node se globals f st n = (o, Ok st') -> R st st' o.
    Hypothesis IHif : forall st cs ws i o st', good st -> forallb frag_nodes ws = true ->
      exec_if se globals f st cs ws i = (o, Ok st') -> R st st' o.
    Hypothesis IHfor : forall st k v p body its i c o st', good st -> frag_nodes body = true ->
      exec_for se globals f st k v p body its i c = (o, Ok st') -> R st st' o.

    Lemma frag_nodes_step : forall st ns o st', good st -> frag_nodes ns = true ->
      exec_nodes se globals (S f) st ns = (o, Ok st') -> R st st' o.
    Proof.
      intros st ns o st' Hg Hf H. rewrite exec_nodes_S in H. destruct ns as [|n rest].
      - inversion H; subst. apply R_nil. exact Hg.
      - unfold frag_nodes in Hf. cbn [forallb] in Hf. apply andb_true_iff in Hf. destruct Hf as [Hn Hr].
        destruct (exec_node se globals f st n) as [o1 [st1| | | |]] eqn:E1; try discriminate H.
        destruct (exec_nodes se globals f st1 rest) as [o2 r] eqn:E2. inversion H; subst.
        pose proof (IHnode _ _ _ _ Hg Hn E1) as R1.
        assert (Hg1 : good st1) by apply R1.
        exact (R_trans _ _ _ _ _ R1 (IHnodes _ _ _ _ Hg1 Hr E2)).
    Qed.

    Lemma frag_if_step : forall st cs ws i o st', good st -> forallb frag_nodes ws = true ->
      exec_if se globals (S f) st cs ws i = (o, Ok st') -> R st st' o.
    Proof.
      intros st cs ws i o st' Hg Hf H. rewrite exec_if_S in H.
      assert (Hw : forall j w, nth_error ws j = Some w -> frag_nodes w = true).
      { intros j w Hj. apply nth_error_In in Hj. rewrite forallb_forall in Hf. apply Hf. exact Hj. }
      destruct (nth_error cs i) as [c|]; [|inversion H; subst; apply R_nil; exact Hg].
      destruct (eval se globals f st c) as [[v st1]| | | |] eqn:E; try discriminate H.
      destruct (eval_good _ _ _ _ _ Hg E) as [-> _].
      destruct (is_true (vv v)).
      - destruct (nth_error ws i) as [w|] eqn:Ew; [|discriminate H]. exact (IHnodes _ _ _ _ Hg (Hw _ _ Ew) H).
      - match type of H with (if ?c then _ else _) = _ => destruct c end.
        + destruct (nth_error ws (S i)) as [w|] eqn:Ew; [|discriminate H]. exact (IHnodes _ _ _ _ Hg (Hw _ _ Ew) H).
        + exact (IHif _ _ _ _ _ _ Hg Hf H).
    Qed.

    Lemma frag_for_step : forall st k v p body its i c o st', good st -> frag_nodes body = true ->
      exec_for se globals (S f) st k v p body its i c = (o, Ok st') -> R st st' o.
    Proof.
      intros st k v p body its i c o st' Hg Hf H. rewrite exec_for_S in H.
      destruct its as [|[key vo] rest]; [inversion H; subst; apply R_nil; exact Hg|].
      pose proof Hg as (fr & Ht & Ha & Hp). rewrite Ht in H. cbv zeta in H.
      match type of H with context [set_top st ?fr'] => set (fr1 := fr') in * end.
      assert (Hg1 : good (set_top st fr1)).
      { apply (good_set_top _ _ _ Ht); [exact Ha|]. unfold fr1.
        apply frame_plain_priv; [exact Hp|].
        apply plain_ctx_set; [reflexivity|].
        destruct vo; repeat (apply plain_ctx_set; [reflexivity|]); apply frame_plain_privs; exact Hp. }
      destruct (exec_nodes se globals f (set_top st fr1) body) as [o1 [st1| | | |]] eqn:E1; try discriminate H.
      destruct (exec_for se globals f st1 k v p body rest (i + 1) c) as [o2 r] eqn:E2. inversion H; subst.
      pose proof (IHnodes _ _ _ _ Hg1 Hf E1) as R1.
      assert (Hgs : good st1) by apply R1.
      apply (R_start (set_top st fr1)); [apply tl_set_top|].
      exact (R_trans _ _ _ _ _ R1 (IHfor _ _ _ _ _ _ _ _ _ _ Hgs Hf E2)).
    Qed.

    Lemma frag_node_step : forall st n o st', good st -> frag_node n = true ->
      exec_node se globals (S f) st n = (o, Ok st') -> R st st' o.
    Proof.
      intros st n o st' Hg Hf H.
      pose proof Hg as (fr & Ht & Ha & Hp).
      destruct n; try discriminate Hf.
      - (* NHtml *)
        rewrite exec_node_S_html, Ht in H. inversion H; subst. apply R_same; [exact Hg|].
        apply inert_clean. apply html_text_sub. exact Hf.
      - (* NVar *)
        cbn [frag_node] in Hf. apply negb_true_iff in Hf. apply good_iff in Hg.
        destruct (var_plain_clean se globals esc_clean _ _ _ _ _ (proj1 Hg) (proj2 Hg) Hf H) as [-> Hc].
        apply R_same; [apply good_iff; exact Hg|exact Hc].
      - (* NIf *)
        rewrite exec_node_S in H. cbv beta iota in H. exact (IHif _ _ _ _ _ _ Hg Hf H).
      - (* NFor *)
        cbn [frag_node] in Hf. apply andb_true_iff in Hf. destruct Hf as [Hb He].
        rewrite exec_node_S in H. cbv beta iota zeta in H. rewrite Ht in H.
        match type of H with context [push_frame st ?fr'] => set (ffr := fr') in * end.
        assert (Hg0 : good (push_frame st ffr)).
        { apply good_push; [exact Ha|]. unfold ffr. apply frame_plain_child_priv; [exact Hp|].
          apply plain_ctx_set; [reflexivity|apply frame_plain_privs; exact Hp]. }
        destruct (eval se globals f (push_frame st ffr) obj) as [[ov st1]| | | |] eqn:E; try discriminate H.
        destruct (eval_good _ _ _ _ _ Hg0 E) as [-> _].
        destruct (iter_items (vv ov) reversed sorted) as [[[|it its]|]| | | |]; try discriminate H.
        + destruct empty as [eb|].
          * destruct (exec_nodes se globals f (push_frame st ffr) eb) as [o1 [st2| | | |]] eqn:E2; try discriminate H.
            inversion H; subst. apply (R_pop _ ffr); [exact Hg|]. exact (IHnodes _ _ _ _ Hg0 He E2).
          * inversion H; subst. apply (R_pop _ ffr); [exact Hg|]. apply R_nil. exact Hg0.
        + match type of H with context [exec_for se globals f ?a ?b ?c ?d ?e ?g ?h ?i] =>
            destruct (exec_for se globals f a b c d e g h i) as [o1 [st2| | | |]] eqn:E2; try discriminate H end.
          inversion H; subst. apply (R_pop _ ffr); [exact Hg|]. exact (IHfor _ _ _ _ _ _ _ _ _ _ Hg0 Hb E2).
        + destruct empty as [eb|].
          * destruct (exec_nodes se globals f (push_frame st ffr) eb) as [o1 [st2| | | |]] eqn:E2; try discriminate H.
            inversion H; subst. apply (R_pop _ ffr); [exact Hg|]. exact (IHnodes _ _ _ _ Hg0 He E2).
          * inversion H; subst. apply (R_pop _ ffr); [exact Hg|]. apply R_nil. exact Hg0.
      - (* NWith *)
        cbn [frag_node] in Hf. rewrite exec_node_S in H. cbv beta iota zeta in H. rewrite Ht in H.
        destruct (eval_pairs se globals f st pairs) as [[vals st1]| | | |] eqn:E; try discriminate H.
        destruct (eval_pairs_good _ _ _ _ _ Hg E) as [-> Hvals]. rewrite Ht in H.
        match type of H with context [push_frame st ?fr'] => set (wfr := fr') in * end.
        assert (Hg0 : good (push_frame st wfr)).
        { apply good_push; [exact Ha|]. unfold wfr. apply frame_plain_child_priv; [exact Hp|].
          apply plain_ctx_update; [exact Hvals|apply frame_plain_privs; exact Hp]. }
        destruct (exec_nodes se globals f (push_frame st wfr) body) as [o1 [st2| | | |]] eqn:E2; try discriminate H.
        inversion H; subst. apply (R_pop _ wfr); [exact Hg|]. exact (IHnodes _ _ _ _ Hg0 Hf E2).
      - (* NSet *)
        rewrite exec_node_S in H. cbv beta iota zeta in H.
        destruct (eval se globals f st e) as [[v st1]| | | |] eqn:E; try discriminate H.
        destruct (eval_good _ _ _ _ _ Hg E) as [-> Hv].
        unfold set_priv in H. rewrite Ht in H. cbn [bind] in H. inversion H; subst.
        split; [reflexivity|]. split; [|apply tl_set_top].
        apply (good_set_top _ _ _ Ht); [exact Ha|]. apply frame_plain_priv; [exact Hp|].
        apply plain_ctx_set; [unfold entry_plain; cbn [snd]; rewrite Hv; reflexivity|apply frame_plain_privs; exact Hp].
      - (* NAutoescape *)
        cbn [frag_node] in Hf. apply andb_true_iff in Hf. destruct Hf as [Hon Hb]. subst on.
        apply autoescape_region in H.
        destruct H as (f' & fr0 & st1 & fr1 & Hfu & Ht0 & Hb0 & _ & Ht1 & -> & _).
        injection Hfu as <-. rewrite Ht in Ht0. inversion Ht0. subst fr0.
        assert (Hg0 : good (set_top st (with_auto fr true))) by (apply (good_set_top _ _ _ Ht); [reflexivity|exact Hp]).
        destruct (IHnodes _ _ _ _ Hg0 Hb Hb0) as (C1 & (fr1' & Ht1' & _ & Hp1) & C3).
        rewrite Ht1 in Ht1'. inversion Ht1'. subst fr1'.
        split; [exact C1|]. split.
        + apply (good_set_top _ _ _ Ht1); [exact Ha|exact Hp1].
        + rewrite tl_set_top, C3. apply tl_set_top.
      - (* NFirstof *)
        cbn [frag_node] in Hf. rewrite exec_node_S in H. cbv beta iota in H.
        destruct (firstof_good _ _ _ _ _ Hg Hf H) as [-> Hc]. apply R_same; assumption.
      - (* NIfchanged *)
        cbn [frag_node] in Hf. apply andb_true_iff in Hf. destruct Hf as [Hth Hel].
        rewrite exec_node_S in H. cbv beta iota zeta in H. rewrite Ht in H.
        destruct watched as [|w0 ws].
        + destruct (exec_nodes se globals f st thenb) as [o1 [st1| | | |]] eqn:E1; try discriminate H.
          destruct (IHnodes _ _ _ _ Hg Hth E1) as (C1 & C2 & C3).
          match type of H with (if ?c then _ else _) = _ => destruct c end; inversion H; subst.
          * split; [reflexivity|]. split; assumption.
          * split; [exact C1|]. split; [|exact C3]. apply (good_frames st1); [reflexivity|exact C2].
        + destruct (eval_list se globals f st (w0 :: ws)) as [[now st1]| | | |] eqn:E; try discriminate H.
          apply (eval_list_good _ _ _ _ _ Hg) in E. subst st1.
          match type of H with match ?c with Some _ => _ | None => _ end = _ => destruct c as [[|]|] end; try discriminate H.
          * match type of H with exec_nodes se globals f ?s ?b = _ =>
              apply (R_start s); [reflexivity|]; exact (IHnodes s b _ _ (good_frames st s eq_refl Hg) Hth H) end.
          * destruct elseb as [eb|].
            -- match type of H with exec_nodes se globals f ?s ?b = _ =>
                 apply (R_start s); [reflexivity|]; exact (IHnodes s b _ _ (good_frames st s eq_refl Hg) Hel H) end.
            -- inversion H; subst. split; [reflexivity|]. split; [|reflexivity]. apply (good_frames st); [reflexivity|exact Hg].
      - (* NIfequal *)
        cbn [frag_node] in Hf. apply andb_true_iff in Hf. destruct Hf as [Hth Hel].
        rewrite exec_node_S in H. cbv beta iota zeta in H.
        destruct (eval se globals f st a) as [[x st1]| | | |] eqn:E1; try discriminate H.
        destruct (eval_good _ _ _ _ _ Hg E1) as [-> _].
        destruct (eval se globals f st b) as [[y st2]| | | |] eqn:E2; try discriminate H.
        destruct (eval_good _ _ _ _ _ Hg E2) as [-> _].
        destruct (equal_value_to (vv x) (vv y)) as [eq|]; [|discriminate H].
        destruct (Bool.eqb eq (negb negated)).
        + exact (IHnodes _ _ _ _ Hg Hth H).
        + destruct elseb as [eb|]; [exact (IHnodes _ _ _ _ Hg Hel H)|inversion H; subst; apply R_nil; exact Hg].
      - (* NTemplatetag *)
        rewrite exec_node_S in H. cbv beta iota in H. inversion H; subst. apply R_same; [exact Hg|].
        apply inert_clean. exact Hf.
      - (* NWidthratio *)
        pose proof (widthratio_inert se globals _ _ _ _ _ _ _ _ H) as Hin.
        rewrite exec_node_S in H. cbv beta iota zeta in H.
        destruct (eval se globals f st cur) as [[c st1]| | | |] eqn:E1; try discriminate H.
        destruct (eval_good _ _ _ _ _ Hg E1) as [-> _].
        destruct (eval se globals f st mx) as [[m st2]| | | |] eqn:E2; try discriminate H.
        destruct (eval_good _ _ _ _ _ Hg E2) as [-> _].
        destruct (eval se globals f st width) as [[w st3]| | | |] eqn:E3; try discriminate H.
        destruct (eval_good _ _ _ _ _ Hg E3) as [-> _].
        destruct (to_float (vv c)); [|discriminate H].
        destruct (to_float (vv m)); [|discriminate H].
        destruct (to_float (vv w)); [|discriminate H].
        destruct ctxname as [|c0 cn].
        + inversion H; subst. apply R_same; [exact Hg|]. apply inert_clean. exact Hin.
        + unfold set_priv in H. rewrite Ht in H. cbn [bind] in H. inversion H; subst.
          split; [reflexivity|]. split; [|apply tl_set_top].
          apply (good_set_top _ _ _ Ht); [exact Ha|]. apply frame_plain_priv; [exact Hp|].
          apply plain_ctx_set; [reflexivity|apply frame_plain_privs; exact Hp].
      - (* NComment *)
        rewrite exec_node_S in H. cbv beta iota in H. inversion H; subst. apply R_nil. exact Hg.
    Qed.
  End Step.

  Definition frag_inv (f : nat) : Prop :=
    (forall st ns o st', good st -> frag_nodes ns = true ->
       exec_nodes se globals f st ns = (o, Ok st') -> R st st' o) /\
    (forall st n o st', good st -> frag_node n = true ->
       exec_node se globals f st n = (o, Ok st') -> R st st' o) /\
    (forall st cs ws i o st', good st -> forallb frag_nodes ws = true ->
       exec_if se globals f st cs ws i = (o, Ok st') -> R st st' o) /\
    (forall st k v p body its i c o st', good st -> frag_nodes body = true ->
       exec_for se globals f st k v p body its i c = (o, Ok st') -> R st st' o).

  Lemma frag_inv_all : forall f, frag_inv f.
  Proof.
    induction f as [|f (I1 & I2 & I3 & I4)].
    - split; [|split; [|split]]; intros; discriminate.
    - split; [|split; [|split]].
      + apply frag_nodes_step; assumption.
      + apply frag_node_step; assumption.
      + apply frag_if_step; assumption.
      + apply frag_for_step; assumption.
  Qed.

  Lemma fragment_output_clean : forall f st ns o st',
    auto_on st -> plain_state st -> frag_nodes ns = true ->
    exec_nodes se globals f st ns = (o, Ok st') ->
    html_clean o = true /\ auto_on st' /\ plain_state st'.
  Proof.
    intros f st ns o st' Ha Hp Hf H.
    assert (Hg : good st) by (apply good_iff; split; assumption).
    destruct (proj1 (frag_inv_all f) st ns o st' Hg Hf H) as (C1 & C2 & _).
    split; [exact C1|]. apply good_iff. exact C2.
  Qed.
End Frag.
