(* Facts about the ban checks of the parsers (Model/ParseExpr.v, Model/ParseDoc.v) and about
   the template set as a state machine (Model/SetModel.v): the ban lists are frozen once a
   template exists, and the template cache behaves as a cache (properties C03 and C20).
   The compile / render functions the state machine calls are never unfolded: every lemma
   below holds whatever they return. *)
From PV Require Import Model.SetModel.
From PV Require Export Spec.SpecSet.
From PV Require Import gen.Tables.
From Coq Require Import Lia.
Open Scope N_scope.

#[local] Opaque s_compile_string s_compile_file api_render_string api_render_file.

(* ---------- outcomes ---------- *)

Lemma bind_ok : forall (A B : Type) (r : res A) (k : A -> res B) (x : B),
  bind r k = Ok x -> exists a, r = Ok a /\ k a = Ok x.
Proof.
  intros A B r k x H. destruct r as [a|e| | |p]; simpl in H; try discriminate H.
  exists a. split; [reflexivity|exact H].
Qed.

(* ---------- strings ---------- *)

Lemma sp_str_eqb_refl : forall a : str, str_eqb a a = true.
Proof.
  induction a as [|x a IH]; simpl; [reflexivity|].
  rewrite N.eqb_refl, IH. reflexivity.
Qed.

Lemma sp_str_eqb_true : forall a b : str, str_eqb a b = true -> a = b.
Proof.
  induction a as [|x a IH]; intros [|y b] H; simpl in H; try discriminate H.
  - reflexivity.
  - apply Bool.andb_true_iff in H. destruct H as [Hxy Hab].
    apply N.eqb_eq in Hxy. apply IH in Hab. subst. reflexivity.
Qed.

Lemma sp_str_eqb_sym : forall a b : str, str_eqb a b = str_eqb b a.
Proof.
  induction a as [|x a IH]; intros [|y b]; simpl; try reflexivity.
  rewrite N.eqb_sym, IH. reflexivity.
Qed.

(* ---------- C03, parser side ---------- *)

(* one unfolding step of parseTagElement on a non-empty token list *)
Lemma parse_tag_unfold : forall se f level st nm r,
  parse_tag se (S f) level st (nm :: r) =
    if negb (a_is_ident nm) then perr
    else
      let name := tval (a_tok nm) in
      if negb (str_in name (cfg_tags (se_cfg se))) then perr
      else if str_in name (cfg_banned_tags (se_cfg se)) then perr
      else
      match assoc_get name tag_impl with
      | None => Unmod
      | Some impl =>
            let fix collect (l : list atok) (acc : list token) : option (list token * list atok) :=
              match l with
              | [] => None
              | x :: l' => if a_is_sym x [37; 125] then Some (rev acc, l') else collect l' (a_tok x :: acc)
              end in
            match collect r [] with
            | None => perr
            | Some (args, body) => tag_parser se f (S level) impl args st body
            end
      end.
Proof. reflexivity. Qed.

Lemma sp_banned_tag_rejected :
  forall se f level st nm rest,
    is_typ (a_tok nm) TIdentifier = true ->
    str_in (tval (a_tok nm)) (cfg_banned_tags (se_cfg se)) = true ->
    parse_tag se (S f) level st (nm :: rest) = Err 2.
Proof.
  intros se f level st nm rest Hid Hban.
  rewrite parse_tag_unfold. unfold a_is_ident. rewrite Hid.
  cbn [negb]. cbv zeta. rewrite Hban.
  destruct (negb (str_in (tval (a_tok nm)) (cfg_tags (se_cfg se)))); reflexivity.
Qed.

(* one unfolding step of the expression filter chain loop *)
Lemma filter_loop_unfold : forall cfg f t r,
  filter_loop cfg (S f) (t :: r) =
    if is_sym t y_pipe then
      do '(fc, r1) <- parse_filter cfg f r;
      match fc with
      | FCall name _ =>
          if str_in name (cfg_banned_filters cfg) then perr
          else do '(rest, r2) <- filter_loop cfg f r1; Ok (fc :: rest, r2)
      end
    else Ok ([], t :: r).
Proof. reflexivity. Qed.

Lemma sp_banned_filter_rejected :
  forall cfg f t name param rest r,
    is_sym t y_pipe = true ->
    parse_filter cfg f rest = Ok (FCall name param, r) ->
    str_in name (cfg_banned_filters cfg) = true ->
    filter_loop cfg (S f) (t :: rest) = Err 2.
Proof.
  intros cfg f t name param rest r Hpipe Hpf Hban.
  rewrite filter_loop_unfold, Hpipe, Hpf.
  cbn [bind]. rewrite Hban. reflexivity.
Qed.

(* one unfolding step of the filter tag's chain *)
Lemma filter_tag_chain_unfold : forall cfg f ts,
  filter_tag_chain cfg (S f) ts =
    match ts with
    | [] => Ok ([], [])
    | _ =>
        match match_ident ts with
        | None => perr
        | Some (name, r) =>
            if str_in name (cfg_banned_filters cfg) then perr
            else
              do '(p, r1) <-
                (match match_sym r [58] with
                 | Some r0 => do '(e, r') <- pvarlit cfg r0; Ok (Some e, r')
                 | None => Ok (None, r)
                 end);
              match match_sym r1 [124] with
              | None => Ok ([(name, p)], r1)
              | Some r2 => do '(rest, r3) <- filter_tag_chain cfg f r2; Ok ((name, p) :: rest, r3)
              end
        end
    end.
Proof. reflexivity. Qed.

Lemma sp_banned_filter_tag_rejected :
  forall cfg fuel ts chain rest,
    filter_tag_chain cfg fuel ts = Ok (chain, rest) ->
    forall name p, In (name, p) chain -> str_in name (cfg_banned_filters cfg) = false.
Proof.
  intros cfg fuel. induction fuel as [|f IH]; intros ts chain rest H name p Hin.
  - discriminate H.
  - rewrite filter_tag_chain_unfold in H. destruct ts as [|t ts'].
    + injection H as Hc Hr. subst chain. destruct Hin.
    + destruct (match_ident (t :: ts')) as [[nm r]|]; [|discriminate H].
      destruct (str_in nm (cfg_banned_filters cfg)) eqn:Hban; [discriminate H|].
      apply bind_ok in H. destruct H as [[p0 r1] [_ H]]. cbv beta iota in H.
      destruct (match_sym r1 [124]) as [r2|].
      * apply bind_ok in H. destruct H as [[ch r3] [Hrec H]]. cbv beta iota in H.
        injection H as Hc Hr. subst chain.
        destruct Hin as [Heq|Hin].
        -- injection Heq as Hn Hp. subst nm. exact Hban.
        -- exact (IH _ _ _ Hrec _ _ Hin).
      * injection H as Hc Hr. subst chain.
        destruct Hin as [Heq|[]]. injection Heq as Hn Hp. subst nm. exact Hban.
Qed.

(* ---------- the set machine: what every step leaves alone ---------- *)

(* handing out a template (or failing to): only created / stamp / fetches move *)
Lemma fresh_tpl_frame : forall s r,
  s_btags (fst (fresh_tpl s r)) = s_btags s /\
  s_bfilters (fst (fresh_tpl s r)) = s_bfilters s /\
  s_created (fst (fresh_tpl s r)) = true /\
  s_cache (fst (fresh_tpl s r)) = s_cache s /\
  s_stamp s <= s_stamp (fst (fresh_tpl s r)).
Proof.
  intros s [r n]. unfold fresh_tpl. cbn [fst snd].
  destruct r; cbn [fst with_created s_btags s_bfilters s_created s_cache s_stamp];
    repeat split; lia.
Qed.

Lemma fresh_tpl_tpl : forall s r s' st,
  fresh_tpl s r = (s', RTpl st) -> st = s_stamp s.
Proof.
  intros s [r n] s' st H. unfold fresh_tpl in H. cbn [fst snd] in H.
  destruct r; inversion H. reflexivity.
Qed.

(* FromCache on a miss, by the outcome of the one compile it runs: the file is loaded under the
   name as given (FromFile), the cache is keyed by the resolved name *)
Lemma from_cache_miss : forall s name,
  s_debug s = false -> assoc_get (cache_key name) (s_cache s) = None ->
  s_step s (OFromCache name) =
    match fst (s_compile_file s name) with
    | Ok _ =>
        (mkS (s_files s) true (s_btags s) (s_bfilters s) ((cache_key name, s_stamp s) :: s_cache s)
             (s_debug s) (s_stamp s + 1) (s_fetches s + snd (s_compile_file s name)),
         RTpl (s_stamp s))
    | Err _ => (with_created s, RErr)
    | _ => (with_created s, RUnmod)
    end.
Proof.
  intros s name Hd Hm. unfold cache_key in *. unfold s_step. rewrite Hd. cbv zeta. rewrite Hm.
  unfold fresh_tpl. destruct (s_compile_file s name) as [r n].
  cbn [fst snd]. destruct r; cbn; rewrite ?Hd; reflexivity.
Qed.

Lemma from_cache_hit : forall s name st,
  s_debug s = false -> assoc_get (cache_key name) (s_cache s) = Some st ->
  s_step s (OFromCache name) = (s, RTpl st).
Proof.
  intros s name st Hd Hh. unfold cache_key in Hh. unfold s_step. rewrite Hd. cbv zeta.
  rewrite Hh. reflexivity.
Qed.

Lemma from_cache_debug : forall s name,
  s_debug s = true -> s_step s (OFromCache name) = fresh_tpl s (s_compile_file s name).
Proof. intros s name Hd. unfold s_step. rewrite Hd. reflexivity. Qed.

(* ---------- C03, set side ---------- *)

Lemma step_frozen : forall s o,
  s_created s = true ->
  s_btags (fst (s_step s o)) = s_btags s /\ s_bfilters (fst (s_step s o)) = s_bfilters s /\
  s_created (fst (s_step s o)) = true.
Proof.
  intros s o Hc.
  destruct o as [n|n|src|name|name|src|name|names|b|name content].
  - unfold s_step. rewrite Hc. destruct (negb (str_in n registered_tags)); cbn [fst]; auto.
  - unfold s_step. rewrite Hc. destruct (negb (str_in n registered_filters)); cbn [fst]; auto.
  - unfold s_step. destruct (fresh_tpl_frame s (s_compile_string s src)) as (H1 & H2 & H3 & _). auto.
  - unfold s_step. destruct (fresh_tpl_frame s (s_compile_file s name)) as (H1 & H2 & H3 & _). auto.
  - destruct (s_debug s) eqn:Hd.
    + rewrite from_cache_debug by exact Hd.
      destruct (fresh_tpl_frame s (s_compile_file s name)) as (H1 & H2 & H3 & _). auto.
    + destruct (assoc_get (cache_key name) (s_cache s)) as [st|] eqn:Hg.
      * rewrite (from_cache_hit _ _ _ Hd Hg). cbn [fst]. auto.
      * rewrite (from_cache_miss _ _ Hd Hg).
        destruct (fst (s_compile_file s name)); cbn; auto.
  - cbn. auto.
  - cbn. auto.
  - cbn. auto.
  - cbn. auto.
  - cbn. auto.
Qed.

Lemma sp_bans_frozen :
  forall (ops : list sop) (s : sstate),
    s_created s = true ->
    s_btags (s_final s ops) = s_btags s /\ s_bfilters (s_final s ops) = s_bfilters s /\
    s_created (s_final s ops) = true.
Proof.
  unfold s_final. induction ops as [|o ops IH]; intros s Hc.
  - cbn [fold_left]. auto.
  - cbn [fold_left]. destruct (step_frozen s o Hc) as (H1 & H2 & H3).
    destruct (IH _ H3) as (I1 & I2 & I3).
    rewrite I1, I2, H1, H2. auto.
Qed.

Lemma sp_late_ban_refused :
  forall (s : sstate) (n : str),
    s_created s = true ->
    s_step s (OBanTag n) = (s, RErr) /\ s_step s (OBanFilter n) = (s, RErr).
Proof.
  intros s n Hc. unfold s_step. rewrite Hc. split.
  - destruct (negb (str_in n registered_tags)); reflexivity.
  - destruct (negb (str_in n registered_filters)); reflexivity.
Qed.

Lemma sp_creation_freezes :
  forall (s : sstate) (o : sop),
    match o with
    | OFromString _ | OFromFile _ | ORenderString _ | ORenderFile _ => True
    | _ => False
    end ->
    s_created (fst (s_step s o)) = true.
Proof.
  intros s o Ho.
  destruct o as [n|n|src|name|name|src|name|names|b|name content]; try contradiction.
  - unfold s_step. destruct (fresh_tpl_frame s (s_compile_string s src)) as (_ & _ & H3 & _). exact H3.
  - unfold s_step. destruct (fresh_tpl_frame s (s_compile_file s name)) as (_ & _ & H3 & _). exact H3.
  - reflexivity.
  - reflexivity.
Qed.

Lemma sp_ban_accepted_iff :
  forall (s : sstate) (n : str),
    snd (s_step s (OBanTag n)) = ROk <->
    (str_in n registered_tags = true /\ s_created s = false /\ str_in n (s_btags s) = false).
Proof.
  intros s n. unfold s_step.
  destruct (str_in n registered_tags); cbn [negb];
    destruct (s_created s); destruct (str_in n (s_btags s)); cbn [snd];
    split; intro H; try discriminate H; try (destruct H as (H1 & H2 & H3); discriminate);
    auto.
Qed.

(* ---------- C20 ---------- *)

Lemma cache_wf_keep : forall s s',
  cache_wf s -> s_cache s' = s_cache s -> s_stamp s <= s_stamp s' -> cache_wf s'.
Proof.
  intros s s' Hwf Hc Hs k st Hin. rewrite Hc in Hin. apply Hwf in Hin. lia.
Qed.

Lemma step_wf : forall s o, cache_wf s -> cache_wf (fst (s_step s o)).
Proof.
  intros s o Hwf.
  destruct o as [n|n|src|name|name|src|name|names|b|name content].
  - apply (cache_wf_keep s _ Hwf); unfold s_step;
      destruct (negb (str_in n registered_tags)); destruct (s_created s);
      destruct (str_in n (s_btags s)); cbn; try reflexivity; lia.
  - apply (cache_wf_keep s _ Hwf); unfold s_step;
      destruct (negb (str_in n registered_filters)); destruct (s_created s);
      destruct (str_in n (s_bfilters s)); cbn; try reflexivity; lia.
  - unfold s_step. destruct (fresh_tpl_frame s (s_compile_string s src)) as (_ & _ & _ & H4 & H5).
    exact (cache_wf_keep s _ Hwf H4 H5).
  - unfold s_step. destruct (fresh_tpl_frame s (s_compile_file s name)) as (_ & _ & _ & H4 & H5).
    exact (cache_wf_keep s _ Hwf H4 H5).
  - destruct (s_debug s) eqn:Hd.
    + rewrite from_cache_debug by exact Hd.
      destruct (fresh_tpl_frame s (s_compile_file s name)) as (_ & _ & _ & H4 & H5).
      exact (cache_wf_keep s _ Hwf H4 H5).
    + destruct (assoc_get (cache_key name) (s_cache s)) as [st|] eqn:Hg.
      * rewrite (from_cache_hit _ _ _ Hd Hg). exact Hwf.
      * rewrite (from_cache_miss _ _ Hd Hg).
        destruct (fst (s_compile_file s name));
          try (apply (cache_wf_keep s _ Hwf); cbn; [reflexivity|lia]).
        intros k st Hin. cbn [fst s_cache s_stamp] in *.
        destruct Hin as [Heq|Hin].
        -- injection Heq as _ Hst. lia.
        -- apply Hwf in Hin. lia.
  - apply (cache_wf_keep s _ Hwf); cbn; [reflexivity|lia].
  - apply (cache_wf_keep s _ Hwf); cbn; [reflexivity|lia].
  - intros k st Hin. cbn [s_step fst s_cache s_stamp] in *. apply (Hwf k).
    destruct names as [|nm names]; [destruct Hin|].
    apply filter_In in Hin. exact (proj1 Hin).
  - apply (cache_wf_keep s _ Hwf); cbn; [reflexivity|lia].
  - apply (cache_wf_keep s _ Hwf); cbn; [reflexivity|lia].
Qed.

Lemma sp_cache_wf_invariant :
  forall (ops : list sop) (s : sstate), cache_wf s -> cache_wf (fold_left (fun st o => fst (s_step st o)) ops s).
Proof.
  induction ops as [|o ops IH]; intros s Hwf; cbn [fold_left].
  - exact Hwf.
  - apply IH. apply step_wf. exact Hwf.
Qed.

Lemma sp_hit_returns_cached :
  forall (s : sstate) (name : str) (st : N),
    s_debug s = false -> assoc_get (cache_key name) (s_cache s) = Some st ->
    s_step s (OFromCache name) = (s, RTpl st).
Proof. exact from_cache_hit. Qed.

Lemma sp_miss_fills :
  forall (s s' : sstate) (name : str) (st : N),
    s_debug s = false -> assoc_get (cache_key name) (s_cache s) = None ->
    s_step s (OFromCache name) = (s', RTpl st) ->
    st = s_stamp s /\ assoc_get (cache_key name) (s_cache s') = Some st /\
    (forall k, str_eqb k (cache_key name) = false -> assoc_get k (s_cache s') = assoc_get k (s_cache s)).
Proof.
  intros s s' name st Hd Hm Hstep. rewrite (from_cache_miss _ _ Hd Hm) in Hstep.
  destruct (fst (s_compile_file s name)); try discriminate Hstep.
  injection Hstep as Hs' Hst. subst s' st. cbn [s_cache assoc_get].
  rewrite sp_str_eqb_refl. split; [reflexivity|]. split; [reflexivity|].
  intros k Hk. rewrite Hk. reflexivity.
Qed.

Lemma sp_failed_load_not_cached :
  forall (s s' : sstate) (name : str),
    s_step s (OFromCache name) = (s', RErr) -> s_cache s' = s_cache s.
Proof.
  intros s s' name Hstep.
  destruct (s_debug s) eqn:Hd.
  - rewrite (from_cache_debug _ _ Hd) in Hstep.
    destruct (fresh_tpl_frame s (s_compile_file s name)) as (_ & _ & _ & H4 & _).
    rewrite Hstep in H4. exact H4.
  - destruct (assoc_get (cache_key name) (s_cache s)) as [st|] eqn:Hg.
    + rewrite (from_cache_hit _ _ _ Hd Hg) in Hstep. discriminate Hstep.
    + rewrite (from_cache_miss _ _ Hd Hg) in Hstep.
      destruct (fst (s_compile_file s name)); try discriminate Hstep;
        injection Hstep as Hs'; subst s'; reflexivity.
Qed.

Lemma sp_debug_never_caches :
  forall (s : sstate) (name : str),
    s_debug s = true ->
    s_cache (fst (s_step s (OFromCache name))) = s_cache s /\
    (cache_wf s -> forall st, snd (s_step s (OFromCache name)) = RTpl st ->
                   forall k st', In (k, st') (s_cache s) -> st' <> st).
Proof.
  intros s name Hd. rewrite (from_cache_debug _ _ Hd). split.
  - destruct (fresh_tpl_frame s (s_compile_file s name)) as (_ & _ & _ & H4 & _). exact H4.
  - intros Hwf st Hr k st' Hin.
    destruct (fresh_tpl s (s_compile_file s name)) as [s1 r] eqn:Hf. cbn [snd] in Hr. subst r.
    apply fresh_tpl_tpl in Hf. apply Hwf in Hin. lia.
Qed.

(* looking a key up after the entries with keys in [keys] were dropped *)
Lemma assoc_get_filter_out : forall (A : Type) (keys : list str) (m : list (str * A)) (k : str),
  assoc_get k (filter (fun kv => negb (str_in (fst kv) keys)) m) =
  if str_in k keys then None else assoc_get k m.
Proof.
  intros A keys m k. induction m as [|[k' v] m IH].
  - cbn [filter assoc_get]. destruct (str_in k keys); reflexivity.
  - cbn [filter fst]. destruct (str_in k' keys) eqn:Hk'; cbn [negb assoc_get].
    + rewrite IH. destruct (str_eqb k k') eqn:E; [|reflexivity].
      apply sp_str_eqb_true in E. subst k'. rewrite Hk'. reflexivity.
    + destruct (str_eqb k k') eqn:E; [|exact IH].
      apply sp_str_eqb_true in E. subst k'. rewrite Hk'. reflexivity.
Qed.

Lemma sp_clean_removes :
  forall (s : sstate) (names : list str),
    let s' := fst (s_step s (OCleanCache names)) in
    (names = [] -> s_cache s' = []) /\
    (names <> [] -> forall k, assoc_get k (s_cache s') =
                              if str_in k (map cache_key names) then None else assoc_get k (s_cache s)).
Proof.
  intros s names. cbn [s_step fst s_cache]. split.
  - intro Hn. subst names. reflexivity.
  - intros Hn k. destruct names as [|nm names]; [contradiction Hn; reflexivity|].
    change (map cache_key (nm :: names)) with (map (fsloader_abs []) (nm :: names)).
    apply assoc_get_filter_out.
Qed.

Lemma sp_other_ops_keep_cache :
  forall (s : sstate) (o : sop),
    match o with OFromCache _ | OCleanCache _ => False | _ => True end ->
    s_cache (fst (s_step s o)) = s_cache s.
Proof.
  intros s o Ho.
  destruct o as [n|n|src|name|name|src|name|names|b|name content]; try contradiction.
  - unfold s_step. destruct (negb (str_in n registered_tags)); destruct (s_created s);
      destruct (str_in n (s_btags s)); reflexivity.
  - unfold s_step. destruct (negb (str_in n registered_filters)); destruct (s_created s);
      destruct (str_in n (s_bfilters s)); reflexivity.
  - unfold s_step. destruct (fresh_tpl_frame s (s_compile_string s src)) as (_ & _ & _ & H4 & _). exact H4.
  - unfold s_step. destruct (fresh_tpl_frame s (s_compile_file s name)) as (_ & _ & _ & H4 & _). exact H4.
  - reflexivity.
  - reflexivity.
  - reflexivity.
  - reflexivity.
Qed.
