(* Property C02 in full for the model: a template without opt-outs (Spec/SpecTaint2.v, [ok_node]:
   macros, imports, blocks and block.Super, static and lazy includes, ssi, spaceless, the filter
   tag over filters that keep escaped form, cycle, and everything of the fragment language)
   executed over a state that satisfies [tclean] writes output in escaped form and leaves such a
   state.  Mutual induction on the fuel over the 17 functions of Model/Exec.v.
   Part II (at the end) repeats the induction for templates whose own text contains markup
   ([ok_node_m]): there the output is a concatenation of pieces of literal text and chunks in
   escaped form ([pieces]). *)
From PV Require Import Lib.Bytes Lib.GoInt Lib.GoFloat Model.Value Model.Doc Model.Exec Model.Filters Model.Api
  Spec.SpecEsc Spec.SpecTaint Spec.SpecTaint2.
From PV Require Import gen.Tables Proofs.TaintUnfold Proofs.Taint Proofs.TaintFrag.
From Coq Require Import ZifyN ZifyNat ZifyBool.
Open Scope N_scope.

(* ================= A. lists, values ================= *)
Lemma forallb_In : forall A (P : A -> bool) l x, forallb P l = true -> In x l -> P x = true.
Proof. intros A P l x H Hi. rewrite forallb_forall in H. apply H. exact Hi. Qed.

Lemma forallb_tl : forall A (P : A -> bool) l, forallb P l = true -> forallb P (tl l) = true.
Proof. intros A P [|x l] H; [reflexivity|]. cbn [forallb tl] in *. apply andb_true_iff in H. apply H. Qed.

Lemma forallb_revA : forall A (P : A -> bool) l, forallb P l = true -> forallb P (rev l) = true.
Proof.
  intros A P l H. apply forallb_forall. intros x Hx. apply in_rev in Hx. exact (forallb_In _ _ _ _ H Hx).
Qed.

Lemma forallb_skipn : forall A (P : A -> bool) n l, forallb P l = true -> forallb P (skipn n l) = true.
Proof.
  intros A P n. induction n as [|n IH]; intros l H; [exact H|]. destruct l as [|x l]; [reflexivity|].
  cbn [skipn]. apply IH. cbn [forallb] in H. apply andb_true_iff in H. apply H.
Qed.
Lemma forallb_firstn : forall A (P : A -> bool) n l, forallb P l = true -> forallb P (firstn n l) = true.
Proof.
  intros A P n. induction n as [|n IH]; intros l H; [reflexivity|]. destruct l as [|x l]; [reflexivity|].
  cbn [firstn forallb] in *. apply andb_true_iff in H. destruct H as [H1 H2]. rewrite H1, (IH _ H2). reflexivity.
Qed.
Lemma forallb_appA : forall A (P : A -> bool) a b,
  forallb P a = true -> forallb P b = true -> forallb P (a ++ b) = true.
Proof. intros A P a b Ha Hb. rewrite forallb_app, Ha, Hb. reflexivity. Qed.
Lemma forallb_update_nth : forall A (P : A -> bool) l i x,
  forallb P l = true -> P x = true -> forallb P (update_nth l i x) = true.
Proof.
  intros A P l. induction l as [|y l IH]; intros i x H Hx; [reflexivity|].
  cbn [forallb] in H. apply andb_true_iff in H. destruct H as [H1 H2].
  destruct i as [|i]; cbn [update_nth forallb].
  - rewrite Hx, H2. reflexivity.
  - rewrite H1, (IH i x H2 Hx). reflexivity.
Qed.

Lemma str_eqb_true2 : forall a b : str, str_eqb a b = true -> a = b.
Proof.
  induction a as [|x a IH]; intros [|y b] H; cbn [str_eqb] in H; try discriminate H; [reflexivity|].
  apply andb_true_iff in H. destruct H as [H1 H2]. apply N.eqb_eq in H1. rewrite H1, (IH _ H2). reflexivity.
Qed.

Lemma assoc_get_In : forall A k (m : list (str * A)) v, assoc_get k m = Some v -> exists k', In (k', v) m.
Proof.
  intros A k m v. induction m as [|[k' w] m IH]; cbn [assoc_get]; [discriminate|].
  destruct (str_eqb k k').
  - intros H. inversion H. subst w. exists k'. left. reflexivity.
  - intros H. destruct (IH H) as [k2 H2]. exists k2. right. exact H2.
Qed.

Lemma val_clean_assoc : forall k m v,
  forallb (fun kv => val_clean (snd kv)) m = true -> assoc_get k m = Some v -> val_clean v = true.
Proof.
  intros k m v H Hg. destruct (assoc_get_In _ _ _ _ Hg) as [k' Hi].
  exact (forallb_In _ _ _ _ H Hi).
Qed.
Lemma val_clean_nth : forall l i, forallb val_clean l = true -> val_clean (nth i l VNil) = true.
Proof.
  intros l i H. destruct (nth_in_or_default i l VNil) as [Hi|Hd].
  - exact (forallb_In _ _ _ _ H Hi).
  - rewrite Hd. reflexivity.
Qed.
Lemma val_clean_index : forall cur i v, val_clean cur = true -> index_val cur i = Some v -> val_clean v = true.
Proof.
  intros cur i v Hc H. destruct cur; cbn [index_val] in H; try discriminate H.
  - destruct ((0 <=? i)%Z && (i <? Z.of_nat (length s))%Z); [|discriminate H]. inversion H. reflexivity.
  - destruct ((0 <=? i)%Z && (i <? Z.of_nat (length l))%Z); [|discriminate H]. inversion H.
    apply val_clean_nth. exact Hc.
Qed.

(* Value.String() of a clean value is in escaped form *)
Lemma to_string_clean : forall v s, val_clean v = true -> to_string v = Some s -> html_clean s = true.
Proof.
  intros v s Hc Hs. destruct (is_string v) eqn:Ei.
  - destruct v; try discriminate Ei. cbn in Hs. inversion Hs. subst. exact Hc.
  - apply inert_clean. exact (to_string_nonstring_inert v s Ei Hs).
Qed.

Lemma mark_ok_unmarked : forall v, vsafe v = false -> mark_ok v = true.
Proof. intros v H. unfold mark_ok. rewrite H. reflexivity. Qed.
Lemma mark_ok_as_value : forall x, mark_ok (as_value x) = true.
Proof. reflexivity. Qed.
Lemma mark_ok_clean : forall v, val_clean (vv v) = true -> mark_ok v = true.
Proof. intros v H. unfold mark_ok. rewrite H. apply orb_true_r. Qed.

(* what an output site writes raw: a marked value (then clean) or a value that is not a string *)
Lemma raw_clean : forall v s,
  mark_ok v = true -> to_string (vv v) = Some s ->
  (vsafe v = false -> is_string (vv v) = false) -> html_clean s = true.
Proof.
  intros v s Hm Hs Hn. unfold mark_ok in Hm. destruct (vsafe v).
  - cbn [negb orb] in Hm. exact (to_string_clean _ _ Hm Hs).
  - apply inert_clean. exact (to_string_nonstring_inert _ _ (Hn eq_refl) Hs).
Qed.

(* a filter hands on its input or parameter, or returns an unmarked value *)
Lemma passes_mark_ok : forall x p r v,
  passes x p r -> r = Ok v -> mark_ok x = true -> mark_ok p = true -> mark_ok v = true.
Proof.
  intros x p r v Hp Hr Hx Hpp. destruct (Hp v Hr) as [E|[E|E]]; [subst v; exact Hx|subst v; exact Hpp|].
  apply mark_ok_unmarked. exact E.
Qed.

(* ================= B. spaceless is the identity on escaped text ================= *)
Lemma sl_pass_id : forall s lt, forallb (fun b => negb (b =? 62)) s = true -> sl_pass 0 lt false s = (s, false).
Proof.
  induction s as [|c r IH]; intros lt H; [reflexivity|].
  cbn [forallb] in H. apply andb_true_iff in H. destruct H as [Hc Hr]. apply negb_true_iff in Hc.
  cbn [sl_pass]. rewrite andb_false_r. rewrite Hc. cbn [andb]. rewrite (IH _ Hr). reflexivity.
Qed.
Lemma sl_fix_id : forall n s, forallb (fun b => negb (b =? 62)) s = true -> sl_fix n s = s.
Proof. intros [|n] s H; [reflexivity|]. cbn [sl_fix]. rewrite (sl_pass_id _ _ H). reflexivity. Qed.
Lemma clean_no_gt : forall s, html_clean s = true -> forallb (fun b => negb (b =? 62)) s = true.
Proof.
  intros s H. unfold html_clean in H. apply andb_true_iff in H. destruct H as [H _].
  revert H. apply forallb_impl. intros b Hb. unfold dangerous in Hb.
  destruct (b =? 62); [|reflexivity]. rewrite orb_true_r in Hb. discriminate Hb.
Qed.
Lemma spaceless_clean : forall o s, html_clean o = true -> spaceless_model o = Some s -> s = o.
Proof.
  intros o s H Hs. unfold spaceless_model in Hs. rewrite (sl_fix_id _ _ (clean_no_gt _ H)) in Hs.
  inversion Hs. reflexivity.
Qed.

(* ================= C. the filters allowed in a filter tag keep escaped form ================= *)
Lemma lower_b_amp : forall c, (lower_b c =? 38) = (c =? 38).
Proof.
  intros c. unfold lower_b, is_upper. destruct (65 <=? c) eqn:E1; [|reflexivity].
  destruct (c <=? 90) eqn:E2; [|reflexivity]. cbn [andb].
  apply N.leb_le in E1. apply N.leb_le in E2.
  destruct (N.eqb_spec (c + 32) 38); destruct (N.eqb_spec c 38); try reflexivity; lia.
Qed.
Lemma lower_b_not_dangerous : forall c, dangerous c = false -> dangerous (lower_b c) = false.
Proof.
  intros c H. unfold lower_b, is_upper. destruct (65 <=? c) eqn:E1; [|exact H].
  destruct (c <=? 90) eqn:E2; [|exact H]. cbn [andb].
  apply N.leb_le in E1. apply N.leb_le in E2. unfold dangerous.
  repeat match goal with |- context [?a =? ?b] => destruct (N.eqb_spec a b); [lia|] end. reflexivity.
Qed.
Lemma is_prefix_map_lower : forall e s,
  forallb (fun b => lower_b b =? b) e = true -> is_prefix e s = true -> is_prefix e (map lower_b s) = true.
Proof.
  induction e as [|a e IH]; intros s He H; [reflexivity|].
  destruct s as [|b s]; [discriminate H|]. cbn [is_prefix map forallb] in *.
  apply andb_true_iff in He. destruct He as [Ha He]. apply andb_true_iff in H. destruct H as [Hab Hs].
  apply N.eqb_eq in Hab. subst b. apply N.eqb_eq in Ha. rewrite Ha, N.eqb_refl, (IH _ He Hs). reflexivity.
Qed.
Lemma amp_ok_lower : forall s, amp_ok s = true -> amp_ok (map lower_b s) = true.
Proof.
  induction s as [|c s IH]; intros H; [reflexivity|].
  cbn [amp_ok] in H. apply andb_true_iff in H. destruct H as [H1 H2].
  change (map lower_b (c :: s)) with (lower_b c :: map lower_b s). cbn [amp_ok].
  rewrite (IH H2), andb_true_r, lower_b_amp. destruct (c =? 38); [|reflexivity].
  change (lower_b c :: map lower_b s) with (map lower_b (c :: s)).
  apply existsb_exists in H1. destruct H1 as [e [Hi He]]. apply existsb_exists. exists e. split; [exact Hi|].
  apply is_prefix_map_lower; [|exact He].
  unfold five_entities in Hi. cbn [In] in Hi.
  repeat (destruct Hi as [Hi|Hi]; [subst e; vm_compute; reflexivity|]). destruct Hi.
Qed.
Lemma html_clean_lower : forall s, html_clean s = true -> html_clean (map lower_b s) = true.
Proof.
  intros s H. unfold html_clean in *. apply andb_true_iff in H. destruct H as [H1 H2].
  rewrite (amp_ok_lower _ H2), andb_true_r. clear H2.
  induction s as [|b s IH]; [reflexivity|]. cbn [forallb map] in *.
  apply andb_true_iff in H1. destruct H1 as [Hb Hs]. rewrite (IH Hs), andb_true_r.
  apply negb_true_iff in Hb. apply negb_true_iff. apply lower_b_not_dangerous. exact Hb.
Qed.

(* the Go functions behind the allowed names *)
Definition i_escape : str := [102;105;108;116;101;114;69;115;99;97;112;101].             (* filterEscape *)
Definition i_safe : str := [102;105;108;116;101;114;83;97;102;101].                       (* filterSafe *)
Definition i_lower : str := [102;105;108;116;101;114;76;111;119;101;114].                 (* filterLower *)
Definition i_length : str := [102;105;108;116;101;114;76;101;110;103;116;104].            (* filterLength *)
Definition i_wordcount : str := [102;105;108;116;101;114;87;111;114;100;99;111;117;110;116].  (* filterWordcount *)
Definition i_integer : str := [102;105;108;116;101;114;73;110;116;101;103;101;114].       (* filterInteger *)
Definition i_float : str := [102;105;108;116;101;114;70;108;111;97;116].                  (* filterFloat *)
Definition clean_impl (impl : str) : bool :=
  str_in impl [i_escape; i_safe; i_lower; i_length; i_wordcount; i_integer; i_float].

Lemma apply_filter_lower_g : forall name x p, assoc_get name filter_impl = Some i_lower ->
  apply_filter name x p = (do s <- str_of x; do r <- of_opt (to_lower s); okv (VStr r)).
Proof. intros name x p H. unfold apply_filter. rewrite H. reflexivity. Qed.
Lemma apply_filter_length_g : forall name x p, assoc_get name filter_impl = Some i_length ->
  apply_filter name x p = okv (VInt (val_len (vv x))).
Proof. intros name x p H. unfold apply_filter. rewrite H. reflexivity. Qed.
Lemma apply_filter_wordcount_g : forall name x p, assoc_get name filter_impl = Some i_wordcount ->
  apply_filter name x p = (do s <- str_of x; okv (VInt (Z.of_nat (length (fields s))))).
Proof. intros name x p H. unfold apply_filter. rewrite H. reflexivity. Qed.
Lemma apply_filter_integer_g : forall name x p, assoc_get name filter_impl = Some i_integer ->
  apply_filter name x p = (do i <- int_of x; okv (VInt i)).
Proof. intros name x p H. unfold apply_filter. rewrite H. reflexivity. Qed.
Lemma apply_filter_float_g : forall name x p, assoc_get name filter_impl = Some i_float ->
  apply_filter name x p = (do f <- float_of x; okv (VFloat f)).
Proof. intros name x p H. unfold apply_filter. rewrite H. reflexivity. Qed.

Section TagFilters.
  Hypothesis esc_clean : forall s, html_clean (filter_escape s) = true.

  Lemma apply_filter_clean_impl : forall name impl x p r,
    assoc_get name filter_impl = Some impl -> clean_impl impl = true ->
    val_clean (vv x) = true -> apply_filter name x p = Ok r -> val_clean (vv r) = true.
  Proof.
    intros name impl x p r Hi Hc Hx H. unfold clean_impl, str_in in Hc. cbn [existsb] in Hc.
    repeat (apply orb_true_iff in Hc; destruct Hc as [Hc|Hc]); try discriminate Hc;
      apply str_eqb_true2 in Hc; subst impl.
    - rewrite (apply_filter_escape_g name x p Hi) in H. destruct (str_of x); try discriminate H.
      cbn [bind] in H. inversion H. cbn [vv as_value val_clean]. apply esc_clean.
    - rewrite (apply_filter_safe_g name x p Hi) in H. inversion H. subst r. exact Hx.
    - rewrite (apply_filter_lower_g name x p Hi) in H. unfold str_of in H.
      destruct (to_string (vv x)) as [s|] eqn:Es; [|discriminate H]. cbn [of_opt bind] in H.
      unfold to_lower in H. destruct (all_ascii s); [|discriminate H]. cbn [of_opt bind] in H.
      inversion H. cbn [vv as_value val_clean]. apply html_clean_lower. exact (to_string_clean _ _ Hx Es).
    - rewrite (apply_filter_length_g name x p Hi) in H. inversion H. reflexivity.
    - rewrite (apply_filter_wordcount_g name x p Hi) in H. destruct (str_of x); try discriminate H.
      cbn [bind] in H. inversion H. reflexivity.
    - rewrite (apply_filter_integer_g name x p Hi) in H. destruct (int_of x); try discriminate H.
      cbn [bind] in H. inversion H. reflexivity.
    - rewrite (apply_filter_float_g name x p Hi) in H. destruct (float_of x); try discriminate H.
      cbn [bind] in H. inversion H. reflexivity.
  Qed.

  (* the side condition on the generated table filter_impl, decidable *)
  Definition tag_table_ok (names : list str) : bool :=
    forallb (fun n => match assoc_get n filter_impl with Some impl => clean_impl impl | None => true end) names.

  Lemma tag_filters_clean : forall names, tag_table_ok names = true ->
    forall se name x p r, str_in name names = true -> val_clean (vv x) = true ->
      apply_filter_se se name x p = Ok r -> val_clean (vv r) = true.
  Proof.
    intros names Ht se name x p r Hn Hx H. unfold str_in in Hn. apply existsb_exists in Hn.
    destruct Hn as [n [Hi Hn]]. apply str_eqb_true2 in Hn. subst n.
    pose proof (forallb_In _ _ _ _ Ht Hi) as Hc. cbv beta in Hc. unfold apply_filter_se in H.
    destruct (assoc_get name filter_impl) as [impl|] eqn:Ei.
    - exact (apply_filter_clean_impl _ _ _ _ _ Ei Hc Hx H).
    - destruct (str_in name (cfg_filters (se_cfg se))); discriminate H.
  Qed.
End TagFilters.

(* ================= D. the invariant under the operations on contexts, frames, states ================= *)
Section Inv.
  Variable lz : bool.

  Lemma ok_node_eq : forall n, ok_node lz n =
    match n with
    | NHtml _ val _ _ _ _ => forallb inert_byte val
    | NVar e => negb (filter_applied n_safe e)
    | NIf _ wrappers => forallb (ok_nodes lz) wrappers
    | NFor _ _ _ _ _ body empty => ok_nodes lz body && match empty with Some l => ok_nodes lz l | None => true end
    | NWith _ body => ok_nodes lz body
    | NSet _ _ => true
    | NMacro m => ok_macro lz m
    | NImport ms => forallb (fun am => ok_macro lz (snd am)) ms
    | NBlock _ => true
    | NExtends => true
    | NInclude tplo _ _ _ _ => match tplo with Some t => ok_template lz t | None => lz end
    | NIncludeEmpty => true
    | NAutoescape on body => on && ok_nodes lz body
    | NFilterTag chain body => forallb tag_call_ok chain && ok_nodes lz body
    | NFirstof args => none_safe args
    | NCycle _ args _ _ => none_safe args
    | NIfchanged _ _ thenb elseb => ok_nodes lz thenb && match elseb with Some l => ok_nodes lz l | None => true end
    | NIfequal _ _ _ thenb elseb => ok_nodes lz thenb && match elseb with Some l => ok_nodes lz l | None => true end
    | NSpaceless body => ok_nodes lz body
    | NTemplatetag content => forallb inert_byte content
    | NWidthratio _ _ _ _ => true
    | NComment => true
    | NSsi content tplo => match tplo with Some t => ok_template lz t | None => forallb inert_byte content end
    | NUnmod => true
    end.
  Proof. destruct n; reflexivity. Qed.
  Lemma ok_macro_eq : forall a b body c, ok_macro lz (Macro a b body c) = ok_nodes lz body.
  Proof. reflexivity. Qed.
  Lemma ok_template_eq : forall t, ok_template lz t =
    ok_nodes lz (tpl_root t) && forallb (fun b => ok_nodes lz (snd b)) (tpl_blocks t) &&
    match tpl_parent t with Some p => ok_template lz p | None => true end.
  Proof. destruct t; reflexivity. Qed.

  Lemma ok_template_root : forall t, ok_template lz t = true -> ok_nodes lz (tpl_root t) = true.
  Proof. intros t H. rewrite ok_template_eq in H. apply andb_true_iff in H. destruct H as [H _]. apply andb_true_iff in H. apply H. Qed.
  Lemma ok_template_blocks : forall t, ok_template lz t = true ->
    forallb (fun b => ok_nodes lz (snd b)) (tpl_blocks t) = true.
  Proof. intros t H. rewrite ok_template_eq in H. apply andb_true_iff in H. destruct H as [H _]. apply andb_true_iff in H. apply H. Qed.
  Lemma ok_template_parent : forall t p, ok_template lz t = true -> tpl_parent t = Some p -> ok_template lz p = true.
  Proof. intros t p H Hp. rewrite ok_template_eq, Hp in H. apply andb_true_iff in H. apply H. Qed.

  Lemma chain_up_ok : forall n t acc, ok_template lz t = true -> forallb (ok_template lz) acc = true ->
    forallb (ok_template lz) (chain_up n t acc) = true.
  Proof.
    induction n as [|n IH]; intros t acc Ht Ha; cbn [chain_up].
    - cbn [forallb]. rewrite Ht, Ha. reflexivity.
    - destruct (tpl_parent t) as [p|] eqn:Ep.
      + apply IH; [exact (ok_template_parent _ _ Ht Ep)|]. cbn [forallb]. rewrite Ht, Ha. reflexivity.
      + cbn [forallb]. rewrite Ht, Ha. reflexivity.
  Qed.
  Lemma tpl_chain_ok : forall t, ok_template lz t = true -> forallb (ok_template lz) (tpl_chain t) = true.
  Proof. intros t H. unfold tpl_chain. apply chain_up_ok; [exact H|reflexivity]. Qed.
  Lemma hd_chain_ok : forall t, ok_template lz t = true -> ok_template lz (hd t (tpl_chain t)) = true.
  Proof.
    intros t H. pose proof (tpl_chain_ok t H) as Hc. destruct (tpl_chain t) as [|x r]; [exact H|].
    cbn [hd forallb] in *. apply andb_true_iff in Hc. apply Hc.
  Qed.
  (* the wrappers of a block along an inheritance chain *)
  Lemma chain_blocks_ok : forall b chain, forallb (ok_template lz) chain = true ->
    forallb (ok_nodes lz)
      (flat_map (fun t => match assoc_get b (tpl_blocks t) with Some w => [w] | None => [] end) chain) = true.
  Proof.
    intros b chain. induction chain as [|t chain IH]; intros H; [reflexivity|].
    cbn [forallb] in H. apply andb_true_iff in H. destruct H as [Ht Hc]. cbn [flat_map].
    apply forallb_appA; [|apply IH; exact Hc].
    destruct (assoc_get b (tpl_blocks t)) as [w|] eqn:Eb; [|reflexivity].
    cbn [forallb]. rewrite andb_true_r. destruct (assoc_get_In _ _ _ _ Eb) as [k Hi].
    exact (forallb_In _ _ _ _ (ok_template_blocks _ Ht) Hi).
  Qed.

  (* ----- contexts ----- *)
  Lemma ctx_ok_get : forall k m c, ctx_ok lz m = true -> ctx_get k m = Some c -> entry_ok lz c = true.
  Proof.
    intros k m c. induction m as [|[k' v] m IH]; cbn [ctx_get]; [discriminate|]. intros H Hg.
    unfold ctx_ok in H. cbn [forallb snd] in H. apply andb_true_iff in H. destruct H as [H1 H2].
    destruct (str_eqb k k'); [inversion Hg; subst; exact H1|exact (IH H2 Hg)].
  Qed.
  Lemma ctx_ok_del : forall k m, ctx_ok lz m = true -> ctx_ok lz (ctx_del k m) = true.
  Proof.
    intros k m. induction m as [|[k' v] m IH]; intros H; [reflexivity|].
    unfold ctx_ok in *. cbn [forallb snd] in H. apply andb_true_iff in H. destruct H as [H1 H2]. cbn [ctx_del].
    destruct (str_eqb k k'); [apply IH; exact H2|]. cbn [forallb snd]. rewrite H1, (IH H2). reflexivity.
  Qed.
  Lemma ctx_ok_set : forall k c m, entry_ok lz c = true -> ctx_ok lz m = true -> ctx_ok lz (ctx_set k c m) = true.
  Proof.
    intros k c m Hc Hm. unfold ctx_set. pose proof (ctx_ok_del k m Hm) as Hd. unfold ctx_ok in *.
    cbn [forallb snd]. rewrite Hc, Hd. reflexivity.
  Qed.
  Lemma ctx_ok_update : forall src dst, ctx_ok lz src = true -> ctx_ok lz dst = true -> ctx_ok lz (ctx_update dst src) = true.
  Proof.
    unfold ctx_update. induction src as [|[k c] src IH]; intros dst Hs Hd; [exact Hd|].
    unfold ctx_ok in Hs. cbn [forallb snd] in Hs. apply andb_true_iff in Hs. destruct Hs as [H1 H2]. cbn [fold_left fst snd].
    apply IH; [exact H2|]. apply ctx_ok_set; assumption.
  Qed.
  Lemma unmarked_ctx_ok : forall ctx, unmarked_ctx ctx = true -> ctx_ok lz ctx = true.
  Proof.
    intros ctx. unfold unmarked_ctx, ctx_ok. induction ctx as [|[k c] ctx IH]; intros H; [reflexivity|].
    cbn [forallb snd] in *. apply andb_true_iff in H. destruct H as [H1 H2]. rewrite (IH H2), andb_true_r.
    destruct c as [v| | |]; try discriminate H1. cbn [entry_ok]. unfold mark_ok. rewrite H1. reflexivity.
  Qed.

  (* ----- frames ----- *)
  Lemma frame_ok_parts : forall fr, frame_ok lz fr = true ->
    f_auto fr = true /\ ctx_ok lz (f_priv fr) = true /\ ctx_ok lz (f_pub fr) = true /\
    forallb (ok_template lz) (f_chain fr) = true.
  Proof.
    intros fr H. unfold frame_ok in H. apply andb_true_iff in H. destruct H as [H H4].
    apply andb_true_iff in H. destruct H as [H H3]. apply andb_true_iff in H. destruct H as [H1 H2].
    repeat split; assumption.
  Qed.
  Lemma frame_ok_intro : forall fr, f_auto fr = true -> ctx_ok lz (f_priv fr) = true -> ctx_ok lz (f_pub fr) = true ->
    forallb (ok_template lz) (f_chain fr) = true -> frame_ok lz fr = true.
  Proof. intros fr H1 H2 H3 H4. unfold frame_ok. rewrite H1, H2, H3, H4. reflexivity. Qed.
  Lemma frame_ok_priv : forall fr p, frame_ok lz fr = true -> ctx_ok lz p = true -> frame_ok lz (with_priv fr p) = true.
  Proof.
    intros fr p H Hp. destruct (frame_ok_parts _ H) as (H1 & _ & H3 & H4). apply frame_ok_intro; assumption.
  Qed.
  Lemma frame_ok_child_priv : forall fr p, frame_ok lz fr = true -> ctx_ok lz p = true ->
    frame_ok lz (with_priv (child_of fr) p) = true.
  Proof.
    intros fr p H Hp. destruct (frame_ok_parts _ H) as (H1 & _ & H3 & H4). apply frame_ok_intro; assumption.
  Qed.
  Lemma frame_ok_depth : forall fr d, frame_ok lz fr = true -> frame_ok lz (with_depth fr d) = true.
  Proof. intros fr d H. destruct (frame_ok_parts _ H) as (H1 & H2 & H3 & H4). apply frame_ok_intro; assumption. Qed.
  Lemma frame_ok_auto : forall fr, frame_ok lz fr = true -> frame_ok lz (with_auto fr true) = true.
  Proof. intros fr H. destruct (frame_ok_parts _ H) as (H1 & H2 & H3 & H4). apply frame_ok_intro; [reflexivity|assumption..]. Qed.
  Lemma frame_ok_auto_back : forall fr fr0, frame_ok lz fr = true -> f_auto fr0 = true -> frame_ok lz (with_auto fr (f_auto fr0)) = true.
  Proof. intros fr fr0 H H0. rewrite H0. apply frame_ok_auto. exact H. Qed.
  Lemma frame_ok_privs : forall fr, frame_ok lz fr = true -> ctx_ok lz (f_priv fr) = true.
  Proof. intros fr H. apply (frame_ok_parts _ H). Qed.
  Lemma frame_ok_pubs : forall fr, frame_ok lz fr = true -> ctx_ok lz (f_pub fr) = true.
  Proof. intros fr H. apply (frame_ok_parts _ H). Qed.
  Lemma frame_ok_lookup : forall fr name c, frame_ok lz fr = true ->
    match ctx_get name (f_priv fr) with Some c => Some c | None => ctx_get name (f_pub fr) end = Some c ->
    entry_ok lz c = true.
  Proof.
    intros fr name c H Hg. destruct (ctx_get name (f_priv fr)) as [c'|] eqn:E.
    - inversion Hg. subst c'. exact (ctx_ok_get _ _ _ (frame_ok_privs _ H) E).
    - exact (ctx_ok_get _ _ _ (frame_ok_pubs _ H) Hg).
  Qed.

  (* ----- states ----- *)
  Notation tclean := (tclean lz).
  Lemma tclean_frames : forall st st', ms_frames st' = ms_frames st -> tclean st -> tclean st'.
  Proof. intros st st' H Hs. unfold SpecTaint2.tclean in *. rewrite H. exact Hs. Qed.
  Lemma tclean_top : forall st fr, tclean st -> top_frame st = Ok fr -> frame_ok lz fr = true.
  Proof.
    intros st fr H Ht. unfold SpecTaint2.tclean, top_frame in *. destruct (ms_frames st) as [|x r]; [discriminate Ht|].
    inversion Ht. subst x. cbn [forallb] in H. apply andb_true_iff in H. apply H.
  Qed.
  Lemma tclean_push : forall st fr, tclean st -> frame_ok lz fr = true -> tclean (push_frame st fr).
  Proof. intros st fr H Hf. unfold SpecTaint2.tclean, push_frame in *. cbn [ms_frames forallb]. rewrite Hf, H. reflexivity. Qed.
  Lemma tclean_pop : forall st, tclean st -> tclean (pop_frame st).
  Proof. intros st H. unfold SpecTaint2.tclean, pop_frame in *. cbn [ms_frames]. apply forallb_tl. exact H. Qed.
  Lemma tclean_set_top : forall st fr, tclean st -> frame_ok lz fr = true -> tclean (set_top st fr).
  Proof.
    intros st fr H Hf. unfold SpecTaint2.tclean, set_top in *. destruct (ms_frames st) as [|x r] eqn:E; [rewrite E; reflexivity|].
    cbn [ms_frames forallb] in *. apply andb_true_iff in H. destruct H as [_ H]. rewrite Hf, H. reflexivity.
  Qed.
  Lemma tclean_ns_set : forall st e n s, tclean st -> tclean (ns_set st e n s).
  Proof. intros st e n s H. exact H. Qed.
  Lemma tclean_mk : forall st n g, tclean st -> tclean (mkM (ms_frames st) n g).
  Proof. intros st n g H. exact H. Qed.
  Lemma tclean_set_priv : forall st k c st', tclean st -> entry_ok lz c = true -> set_priv st k c = Ok st' -> tclean st'.
  Proof.
    intros st k c st' H Hc Hs. unfold set_priv in Hs. destruct (top_frame st) as [fr| | | |] eqn:Et; try discriminate Hs.
    cbn [bind] in Hs. inversion Hs. apply tclean_set_top; [exact H|].
    pose proof (tclean_top _ _ H Et) as Hf. apply frame_ok_priv; [exact Hf|].
    apply ctx_ok_set; [exact Hc|exact (frame_ok_privs _ Hf)].
  Qed.
  Lemma tclean_frame_at : forall st i fr, tclean st -> frame_at st i = Some fr -> frame_ok lz fr = true.
  Proof.
    intros st i fr H Hf. unfold frame_at in Hf. apply nth_error_In in Hf. apply in_rev in Hf.
    exact (forallb_In _ _ _ _ H Hf).
  Qed.
  Lemma tclean_set_frame_at : forall st i fr, tclean st -> frame_ok lz fr = true -> tclean (set_frame_at st i fr).
  Proof.
    intros st i fr H Hf. unfold SpecTaint2.tclean, set_frame_at in *. cbn [ms_frames].
    apply forallb_revA. apply forallb_update_nth; [apply forallb_revA; exact H|exact Hf].
  Qed.
  Lemma tclean_cut : forall st n nd g, tclean st -> tclean (mkM (skipn n (ms_frames st)) nd g).
  Proof. intros st n nd g H. unfold SpecTaint2.tclean in *. cbn [ms_frames]. apply forallb_skipn. exact H. Qed.
  Lemma tclean_glue : forall st std n, tclean st -> tclean std ->
    tclean (mkM (firstn n (ms_frames st) ++ ms_frames std) (ms_nodes std) (ms_g std)).
  Proof.
    intros st std n H Hd. unfold SpecTaint2.tclean in *. cbn [ms_frames]. apply forallb_appA; [apply forallb_firstn; exact H|exact Hd].
  Qed.
  Lemma tclean_root : forall st fr n g, tclean st -> frame_ok lz fr = true -> tclean (mkM (fr :: ms_frames st) n g).
  Proof. intros st fr n g H Hf. unfold SpecTaint2.tclean in *. cbn [ms_frames forallb]. rewrite Hf, H. reflexivity. Qed.

  Lemma mark_ok_sub : forall cur sf v, mark_ok (mkV cur sf) = true ->
    (val_clean cur = true -> val_clean v = true) -> mark_ok (mkV v sf) = true.
  Proof.
    intros cur sf v H Hi. unfold mark_ok in *. cbn [vv vsafe] in *. destruct sf; [|reflexivity].
    cbn [negb orb] in *. apply Hi. exact H.
  Qed.
  Lemma mark_ok_eta : forall v, mark_ok (mkV (vv v) (vsafe v)) = mark_ok v.
  Proof. intros [a b]. reflexivity. Qed.
End Inv.

(* ================= E. the mutual induction ================= *)
Section Clean.
  Variable se : senv.
  Variable globals : list (str * cval).
  Variable lz : bool.
  Hypothesis esc_clean : forall s, html_clean (filter_escape s) = true.
  Hypothesis tagf_clean : forall name x p r,
    str_in name clean_tag_filters = true -> val_clean (vv x) = true ->
    apply_filter_se se name x p = Ok r -> val_clean (vv r) = true.
  Hypothesis globals_ok : ctx_ok lz globals = true.
  Hypothesis compiled_ok : lazy_ok lz se.

  Notation tclean := (SpecTaint2.tclean lz).

  Lemma bound_args_ok : forall (l : list ((str * option expr) * value)),
    ctx_ok lz (map (fun pa => (fst (fst pa), CV (as_value (vv (snd pa))))) l) = true.
  Proof. induction l as [|x l IH]; [reflexivity|]. unfold ctx_ok in *. cbn [map forallb snd]. rewrite IH. reflexivity. Qed.
  Lemma import_ctx_ok : forall ms idx, forallb (fun am => ok_macro lz (snd am)) ms = true ->
    ctx_ok lz (map (fun am : str * macro => (fst am, CMacro (snd am) idx)) ms) = true.
  Proof.
    induction ms as [|x ms IH]; intros idx H; [reflexivity|]. cbn [forallb] in H. apply andb_true_iff in H.
    destruct H as [H1 H2]. unfold ctx_ok in *. cbn [map forallb snd entry_ok]. rewrite H1, (IH idx H2). reflexivity.
  Qed.
  Lemma none_safe_nth2 : forall args k, none_safe args = true ->
    filter_applied n_safe (nth k args (EBool false)) = false.
  Proof.
    induction args as [|a r IH]; intros k Hn.
    - destruct k; reflexivity.
    - cbn [none_safe forallb] in Hn. apply andb_true_iff in Hn. destruct Hn as [H1 H2].
      destruct k; cbn [nth]; [apply negb_true_iff; exact H1|apply IH; exact H2].
  Qed.

  (* cycleOutput over an invariant frame *)
  Lemma cycle_out_clean : forall fr item v st o st',
    f_auto fr = true -> filter_applied n_safe item = false -> mark_ok v = true ->
    cycle_out fr item v st = (o, Ok st') -> st' = st /\ html_clean o = true.
  Proof.
    intros fr item v st o st' Ha Hf Hm H. unfold cycle_out in H.
    change [115; 97; 102; 101] with n_safe in H.
    destruct (to_string (vv v)) as [s|] eqn:Hs; [|discriminate H].
    rewrite Ha, Hf in H. cbn [negb andb] in H. rewrite andb_true_r in H.
    destruct (vsafe v) eqn:Hv; destruct (is_string (vv v)) eqn:Hi; cbn [negb andb] in H;
      inversion H; subst; (split; [reflexivity|]);
      first [apply esc_clean | eapply raw_clean; [exact Hm|exact Hs|intros; congruence]].
  Qed.

  Section Step.
    Variable f : nat.
    Hypothesis IHeval : forall st e v st', tclean st -> eval se globals f st e = Ok (v, st') ->
      tclean st' /\ mark_ok v = true.
    Hypothesis IHlist : forall st es vs st', tclean st -> eval_list se globals f st es = Ok (vs, st') ->
      tclean st' /\ forallb mark_ok vs = true.
    Hypothesis IHchain : forall st v c r st', tclean st -> mark_ok v = true ->
      apply_chain se globals f st v c = Ok (r, st') -> tclean st' /\ mark_ok r = true.
    Hypothesis IHres : forall st ps v st', tclean st -> resolve se globals f st ps = Ok (v, st') ->
      tclean st' /\ mark_ok v = true.
    Hypothesis IHwalk : forall st cur sf ps v st', tclean st -> mark_ok (mkV cur sf) = true ->
      walk se globals f st cur sf ps = Ok (v, st') -> tclean st' /\ mark_ok v = true.
    Hypothesis IHmacro : forall st m fi args v st', tclean st -> ok_macro lz m = true ->
      call_macro se globals f st m fi args = Ok (v, st') -> tclean st' /\ mark_ok v = true.
    Hypothesis IHdef : forall st ps r st', tclean st -> macro_defaults se globals f st ps = Ok (r, st') ->
      tclean st' /\ ctx_ok lz r = true.
    Hypothesis IHsuper : forall st fi ws v st', tclean st -> forallb (ok_nodes lz) ws = true ->
      call_super se globals f st fi ws = Ok (v, st') -> tclean st' /\ mark_ok v = true.
    Hypothesis IHnodes : forall st ns o st', tclean st -> ok_nodes lz ns = true ->
      exec_nodes se globals f st ns = (o, Ok st') -> html_clean o = true /\ tclean st'.
    Hypothesis IHnode : forall st n o st', tclean st -> ok_node lz n = true ->
      exec_node se globals f st n = (o, Ok st') -> html_clean o = true /\ tclean st'.
    Hypothesis IHif : forall st cs ws i o st', tclean st -> forallb (ok_nodes lz) ws = true ->
      exec_if se globals f st cs ws i = (o, Ok st') -> html_clean o = true /\ tclean st'.
    Hypothesis IHfor : forall st k v p body its i c o st', tclean st -> ok_nodes lz body = true ->
      exec_for se globals f st k v p body its i c = (o, Ok st') -> html_clean o = true /\ tclean st'.
    Hypothesis IHfirst : forall st args o st', tclean st -> none_safe args = true ->
      exec_firstof se globals f st args = (o, Ok st') -> html_clean o = true /\ tclean st'.
    Hypothesis IHpairs : forall st ps r st', tclean st -> eval_pairs se globals f st ps = Ok (r, st') ->
      tclean st' /\ ctx_ok lz r = true.
    Hypothesis IHtag : forall st v c r st', tclean st -> val_clean (vv v) = true -> forallb tag_call_ok c = true ->
      apply_tag_chain se globals f st v c = Ok (r, st') -> tclean st' /\ val_clean (vv r) = true.
    Hypothesis IHtpl : forall st t c o st', tclean st -> ok_template lz t = true -> ctx_ok lz c = true ->
      exec_template se globals f st t c = (o, Ok st') -> html_clean o = true /\ tclean st'.
    Hypothesis IHtplu : forall st t c o st', tclean st -> ok_template lz t = true -> ctx_ok lz c = true ->
      exec_template_unbuffered se globals f st t c = (o, Ok st') -> html_clean o = true /\ tclean st'.

    (* turn the successful recursive calls of value-returning functions into facts *)
    Ltac harvest :=
      repeat match goal with
        | E : eval se globals f ?s _ = Ok (_, _), Hs : tclean ?s |- _ =>
            let H1 := fresh "Hst" in let H2 := fresh "Hmk" in
            destruct (IHeval _ _ _ _ Hs E) as [H1 H2]; clear E
        | E : eval_list se globals f ?s _ = Ok (_, _), Hs : tclean ?s |- _ =>
            let H1 := fresh "Hst" in let H2 := fresh "Hmk" in
            destruct (IHlist _ _ _ _ Hs E) as [H1 H2]; clear E
        | E : apply_chain se globals f ?s ?v _ = Ok (_, _), Hs : tclean ?s, Hv : mark_ok ?v = true |- _ =>
            let H1 := fresh "Hst" in let H2 := fresh "Hmk" in
            destruct (IHchain _ _ _ _ _ Hs Hv E) as [H1 H2]; clear E
        | E : resolve se globals f ?s _ = Ok (_, _), Hs : tclean ?s |- _ =>
            let H1 := fresh "Hst" in let H2 := fresh "Hmk" in
            destruct (IHres _ _ _ _ Hs E) as [H1 H2]; clear E
        | E : macro_defaults se globals f ?s _ = Ok (_, _), Hs : tclean ?s |- _ =>
            let H1 := fresh "Hst" in let H2 := fresh "Hmk" in
            destruct (IHdef _ _ _ _ Hs E) as [H1 H2]; clear E
        | E : eval_pairs se globals f ?s _ = Ok (_, _), Hs : tclean ?s |- _ =>
            let H1 := fresh "Hst" in let H2 := fresh "Hmk" in
            destruct (IHpairs _ _ _ _ Hs E) as [H1 H2]; clear E
        | E : match ?c with _ => _ end = Ok _ |- _ => destruct c; try discriminate E
        | E : bind ?c _ = Ok _ |- _ => destruct c; cbn [bind] in E; try discriminate E
        | E : @Ok _ _ = Ok _ |- _ => inversion E; subst; clear E
        end.

    Ltac fin :=
      harvest; (split; [assumption|]);
      repeat match goal with |- context [if ?c then _ else _] => destruct c end;
      first [reflexivity | assumption].

    Lemma eval_step : forall st e v st', tclean st -> eval se globals (S f) st e = Ok (v, st') ->
      tclean st' /\ mark_ok v = true.
    Proof.
      intros st e v st' Hst H. rewrite eval_S in H. destruct e; cbv zeta in H; unfold xerr in H; repeat fwd1 H; fin.
    Qed.

    Lemma eval_list_step : forall st es vs st', tclean st -> eval_list se globals (S f) st es = Ok (vs, st') ->
      tclean st' /\ forallb mark_ok vs = true.
    Proof.
      intros st es vs st' Hst H. rewrite eval_list_S in H. repeat fwd1 H; harvest; (split; [assumption|]);
        cbn [forallb]; repeat match goal with Hq : _ = true |- _ => rewrite Hq end; reflexivity.
    Qed.

    Lemma apply_chain_step : forall st v c r st', tclean st -> mark_ok v = true ->
      apply_chain se globals (S f) st v c = Ok (r, st') -> tclean st' /\ mark_ok r = true.
    Proof.
      intros st v c r st' Hst Hv H. rewrite apply_chain_S in H.
      destruct c as [|[name param] rest]; [inversion H; subst; split; assumption|].
      assert (Hp : exists p st1, (match param with Some pe => eval se globals f st pe | None => Ok (as_value VNil, st) end) = Ok (p, st1)
                                 /\ tclean st1 /\ mark_ok p = true).
      { destruct param as [pe|].
        - destruct (eval se globals f st pe) as [[p st1]| | | |] eqn:E; try discriminate H.
          exists p, st1. split; [reflexivity|]. exact (IHeval _ _ _ _ Hst E).
        - exists (as_value VNil), st. split; [reflexivity|]. split; [exact Hst|reflexivity]. }
      destruct Hp as (p & st1 & Ep & Hst1 & Hpm). rewrite Ep in H. cbn [bind] in H.
      destruct (apply_filter_se se name v p) as [r0| | | |] eqn:Ef; try discriminate H. cbn [bind] in H.
      pose proof (passes_mark_ok _ _ _ _ (apply_filter_se_passes se name v p) Ef Hv Hpm) as Hr0.
      exact (IHchain _ _ _ _ _ Hst1 Hr0 H).
    Qed.

    Lemma eval_pairs_step : forall st ps r st', tclean st -> eval_pairs se globals (S f) st ps = Ok (r, st') ->
      tclean st' /\ ctx_ok lz r = true.
    Proof.
      intros st ps r st' Hst H. rewrite eval_pairs_S in H. repeat fwd1 H; harvest; (split; [assumption|]);
        unfold ctx_ok in *; cbn [forallb snd entry_ok]; repeat match goal with Hq : _ = true |- _ => rewrite Hq end; reflexivity.
    Qed.

    Lemma macro_defaults_step : forall st ps r st', tclean st -> macro_defaults se globals (S f) st ps = Ok (r, st') ->
      tclean st' /\ ctx_ok lz r = true.
    Proof.
      intros st ps r st' Hst H. rewrite macro_defaults_S in H. repeat fwd1 H; harvest; (split; [assumption|]);
        unfold ctx_ok in *; cbn [forallb snd entry_ok]; repeat match goal with Hq : _ = true |- _ => rewrite Hq end; reflexivity.
    Qed.

    Lemma apply_tag_chain_step : forall st v c r st', tclean st -> val_clean (vv v) = true -> forallb tag_call_ok c = true ->
      apply_tag_chain se globals (S f) st v c = Ok (r, st') -> tclean st' /\ val_clean (vv r) = true.
    Proof.
      intros st v c r st' Hst Hv Hc H. rewrite apply_tag_chain_S in H.
      destruct c as [|[name param] rest]; [inversion H; subst; split; assumption|].
      cbn [forallb] in Hc. apply andb_true_iff in Hc. destruct Hc as [Hc Hrest].
      unfold tag_call_ok in Hc. cbn [fst snd] in Hc. apply andb_true_iff in Hc. destruct Hc as [Hn Hp].
      destruct param as [pe|]; [discriminate Hp|]. cbn [bind] in H.
      destruct (apply_filter_se se name v (as_value VNil)) as [r0| | | |] eqn:Ef; try discriminate H. cbn [bind] in H.
      exact (IHtag _ _ _ _ _ Hst (tagf_clean _ _ _ _ Hn Hv Ef) Hrest H).
    Qed.

    (* the remaining parts of a variable: below a clean marked value everything is clean *)
    Lemma walk_step : forall st cur sf ps v st', tclean st -> mark_ok (mkV cur sf) = true ->
      walk se globals (S f) st cur sf ps = Ok (v, st') -> tclean st' /\ mark_ok v = true.
    Proof.
      intros st cur sf ps v st' Hst Hm H. rewrite walk_S in H. cbv zeta in H. unfold xerr in H.
      repeat fwd1 H; harvest;
        first
          [ match goal with
            | Hw : walk se globals f ?s ?x sf _ = Ok _, Hs : tclean ?s |- _ =>
                refine (IHwalk _ _ _ _ _ _ Hs _ Hw);
                apply (mark_ok_sub _ _ _ Hm); intros Hc;
                first [ eapply val_clean_index; eassumption
                      | eapply val_clean_assoc; [exact Hc|eassumption] ]
            end
          | split; [assumption|first [reflexivity|assumption]] ].
    Qed.

    Lemma resolve_step : forall st ps v st', tclean st -> resolve se globals (S f) st ps = Ok (v, st') ->
      tclean st' /\ mark_ok v = true.
    Proof.
      intros st ps v st' Hst H. rewrite resolve_S in H.
      destruct ps as [|[name call|i call|e call] rest]; try discriminate H.
      destruct (top_frame st) as [fr| | | |] eqn:Et; try discriminate H. cbn [bind] in H. cbv zeta in H.
      pose proof (tclean_top _ _ _ Hst Et) as Hfr.
      match type of H with
      | match ?en with Some _ => _ | None => _ end = _ => destruct en as [c|] eqn:Een
      end; [|inversion H; subst; split; [assumption|reflexivity]].
      pose proof (frame_ok_lookup _ _ _ _ Hfr Een) as Hc.
      destruct c as [cv|m fidx|fidx ws|? ? ? ?]; cbn [entry_ok] in Hc; [| | |discriminate H].
      - (* data *)
        destruct (vv cv) eqn:Evv; try (inversion H; subst; split; [assumption|reflexivity]);
          (destruct call; [discriminate H|]);
          (refine (IHwalk _ _ _ _ _ _ Hst _ H); rewrite <- Evv, mark_ok_eta; exact Hc).
      - (* a macro call: the result is the output of its body *)
        match type of H with
        | context [eval_list se globals f st ?a] =>
            destruct (eval_list se globals f st a) as [[args st1]| | | |] eqn:El; try discriminate H
        end.
        cbn [bind] in H. destruct (IHlist _ _ _ _ Hst El) as [Hst1 _].
        destruct (call_macro se globals f st1 m fidx args) as [[r st2]| | | |] eqn:Em; try discriminate H.
        cbn [bind] in H. destruct (IHmacro _ _ _ _ _ _ Hst1 Hc Em) as [Hst2 Hr].
        refine (IHwalk _ _ _ _ _ _ Hst2 _ H). rewrite mark_ok_eta. exact Hr.
      - (* block.Super *)
        destruct rest as [|[meth mcall| |] [|? ?]]; try discriminate H.
        destruct (str_eqb meth [83; 117; 112; 101; 114]); [|discriminate H].
        destruct mcall as [[|? ?]|]; try discriminate H; exact (IHsuper _ _ _ _ _ Hst Hc H).
    Qed.

    Lemma call_super_step : forall st fi ws v st', tclean st -> forallb (ok_nodes lz) ws = true ->
      call_super se globals (S f) st fi ws = Ok (v, st') -> tclean st' /\ mark_ok v = true.
    Proof.
      intros st fi ws v st' Hst Hws H. rewrite call_super_S in H.
      apply forallb_revA in Hws.
      destruct (rev ws) as [|last before_rev]; [inversion H; subst; split; [assumption|reflexivity]|].
      cbn [forallb] in Hws. apply andb_true_iff in Hws. destruct Hws as [Hlast Hbefore].
      destruct (frame_at st fi) as [bfr|] eqn:Efa; [|discriminate H]. cbv zeta in H.
      pose proof (tclean_frame_at _ _ _ _ Hst Efa) as Hbfr.
      match type of H with context [push_frame st ?fr] => set (sfr := fr) in * end.
      assert (Hsfr : frame_ok lz sfr = true).
      { unfold sfr. apply frame_ok_child_priv; [exact Hbfr|]. apply ctx_ok_set; [|exact (frame_ok_privs _ _ Hbfr)].
        cbn [entry_ok]. apply forallb_revA. exact Hbefore. }
      destruct (exec_nodes se globals f (push_frame st sfr) last) as [out [st1| | | |]] eqn:Eb; try discriminate H.
      destruct (IHnodes _ _ _ _ (tclean_push _ _ _ Hst Hsfr) Hlast Eb) as [Hout Hst1].
      inversion H; subst. split; [apply tclean_pop; exact Hst1|]. apply mark_ok_clean. exact Hout.
    Qed.

    Lemma call_macro_step : forall st m fi args v st', tclean st -> ok_macro lz m = true ->
      call_macro se globals (S f) st m fi args = Ok (v, st') -> tclean st' /\ mark_ok v = true.
    Proof.
      intros st m fi args v st' Hst Hm H. rewrite call_macro_S in H. destruct m as [mname params body ex].
      rewrite ok_macro_eq in Hm.
      destruct (frame_at st fi) as [dfr|] eqn:Efa; [|discriminate H]. cbv zeta in H.
      pose proof (tclean_frame_at _ _ _ _ Hst Efa) as Hdfr.
      destruct (max_macro_depth <? f_depth dfr + 1)%Z; [discriminate H|].
      match type of H with context [set_frame_at st fi ?fr] => set (st0 := set_frame_at st fi fr) in * end.
      assert (Hst0 : tclean st0) by (apply tclean_set_frame_at; [exact Hst|apply frame_ok_depth; exact Hdfr]).
      match type of H with
      | context [macro_defaults se globals f ?s params] =>
          assert (Hsin : tclean s) by (apply tclean_cut; exact Hst0);
          destruct (macro_defaults se globals f s params) as [[dvals st_d]| | | |] eqn:Ed; try discriminate H
      end.
      destruct (IHdef _ _ _ _ Hsin Ed) as [Hstd Hdv].
      destruct (Nat.ltb (length params) (length args)); [discriminate H|].
      match type of H with context [frame_at ?s fi] => set (st1 := s) in * end.
      assert (Hst1 : tclean st1) by (apply tclean_glue; assumption).
      destruct (frame_at st1 fi) as [dfr1|] eqn:Efa1; [|discriminate H].
      pose proof (tclean_frame_at _ _ _ _ Hst1 Efa1) as Hdfr1.
      match type of H with context [push_frame st1 ?fr] => set (mfr := fr) in * end.
      assert (Hmfr : frame_ok lz mfr = true).
      { unfold mfr. apply frame_ok_child_priv; [exact Hdfr1|]. apply ctx_ok_update; [apply bound_args_ok|].
        apply ctx_ok_update; [exact Hdv|exact (frame_ok_privs _ _ Hdfr1)]. }
      destruct (exec_nodes se globals f (push_frame st1 mfr) body) as [out [st2| | | |]] eqn:Eb; try discriminate H.
      destruct (IHnodes _ _ _ _ (tclean_push _ _ _ Hst1 Hmfr) Hm Eb) as [Hout Hst2].
      inversion H; subst. split; [|apply mark_ok_clean; exact Hout].
      pose proof (tclean_pop _ _ Hst2) as Hst3.
      destruct (frame_at (pop_frame st2) fi) as [fr'|] eqn:Ef3; [|exact Hst3].
      apply tclean_set_frame_at; [exact Hst3|]. apply frame_ok_depth. exact (tclean_frame_at _ _ _ _ Hst3 Ef3).
    Qed.

    Lemma exec_nodes_step : forall st ns o st', tclean st -> ok_nodes lz ns = true ->
      exec_nodes se globals (S f) st ns = (o, Ok st') -> html_clean o = true /\ tclean st'.
    Proof.
      intros st ns o st' Hst Hok H. rewrite exec_nodes_S in H. destruct ns as [|n rest].
      - inversion H; subst. split; [reflexivity|exact Hst].
      - unfold ok_nodes in Hok. cbn [forallb] in Hok. apply andb_true_iff in Hok. destruct Hok as [Hn Hr].
        destruct (exec_node se globals f st n) as [o1 [st1| | | |]] eqn:E1; try discriminate H.
        destruct (exec_nodes se globals f st1 rest) as [o2 r] eqn:E2. inversion H; subst.
        destruct (IHnode _ _ _ _ Hst Hn E1) as [Ho1 Hst1].
        destruct (IHnodes _ _ _ _ Hst1 Hr E2) as [Ho2 Hst2].
        split; [apply html_clean_app; assumption|exact Hst2].
    Qed.

    Lemma exec_if_step : forall st cs ws i o st', tclean st -> forallb (ok_nodes lz) ws = true ->
      exec_if se globals (S f) st cs ws i = (o, Ok st') -> html_clean o = true /\ tclean st'.
    Proof.
      intros st cs ws i o st' Hst Hok H. rewrite exec_if_S in H.
      assert (Hw : forall j w, nth_error ws j = Some w -> ok_nodes lz w = true).
      { intros j w Hj. apply nth_error_In in Hj. exact (forallb_In _ _ _ _ Hok Hj). }
      destruct (nth_error cs i) as [c|]; [|inversion H; subst; split; [reflexivity|exact Hst]].
      destruct (eval se globals f st c) as [[v st1]| | | |] eqn:E; try discriminate H.
      destruct (IHeval _ _ _ _ Hst E) as [Hst1 _].
      destruct (is_true (vv v)).
      - destruct (nth_error ws i) as [w|] eqn:Ew; [|discriminate H]. exact (IHnodes _ _ _ _ Hst1 (Hw _ _ Ew) H).
      - match type of H with (if ?c then _ else _) = _ => destruct c end.
        + destruct (nth_error ws (S i)) as [w|] eqn:Ew; [|discriminate H]. exact (IHnodes _ _ _ _ Hst1 (Hw _ _ Ew) H).
        + exact (IHif _ _ _ _ _ _ Hst1 Hok H).
    Qed.

    Lemma exec_for_step : forall st k v p body its i c o st', tclean st -> ok_nodes lz body = true ->
      exec_for se globals (S f) st k v p body its i c = (o, Ok st') -> html_clean o = true /\ tclean st'.
    Proof.
      intros st k v p body its i c o st' Hst Hok H. rewrite exec_for_S in H.
      destruct its as [|[key vo] rest]; [inversion H; subst; split; [reflexivity|exact Hst]|].
      destruct (top_frame st) as [fr| | | |] eqn:Et; try discriminate H. cbv zeta in H.
      pose proof (tclean_top _ _ _ Hst Et) as Hfr.
      match type of H with context [set_top st ?fr'] => set (fr1 := fr') in * end.
      assert (Hfr1 : frame_ok lz fr1 = true).
      { unfold fr1. apply frame_ok_priv; [exact Hfr|]. apply ctx_ok_set; [reflexivity|].
        destruct vo; repeat (apply ctx_ok_set; [reflexivity|]); exact (frame_ok_privs _ _ Hfr). }
      destruct (exec_nodes se globals f (set_top st fr1) body) as [o1 [st1| | | |]] eqn:E1; try discriminate H.
      destruct (exec_for se globals f st1 k v p body rest (i + 1) c) as [o2 r] eqn:E2. inversion H; subst.
      destruct (IHnodes _ _ _ _ (tclean_set_top _ _ _ Hst Hfr1) Hok E1) as [Ho1 Hst1].
      destruct (IHfor _ _ _ _ _ _ _ _ _ _ Hst1 Hok E2) as [Ho2 Hst2].
      split; [apply html_clean_app; assumption|exact Hst2].
    Qed.

    Lemma exec_firstof_step : forall st args o st', tclean st -> none_safe args = true ->
      exec_firstof se globals (S f) st args = (o, Ok st') -> html_clean o = true /\ tclean st'.
    Proof.
      intros st args o st' Hst Hn H. rewrite exec_firstof_S in H.
      destruct args as [|a rest]; [inversion H; subst; split; [reflexivity|exact Hst]|].
      cbn [none_safe forallb] in Hn. apply andb_true_iff in Hn. destruct Hn as [Hna Hnr].
      destruct (eval se globals f st a) as [[v st1]| | | |] eqn:E; try discriminate H.
      destruct (IHeval _ _ _ _ Hst E) as [Hst1 _].
      destruct (is_true (vv v)).
      - destruct (top_frame st1) as [fr| | | |] eqn:Et; try discriminate H.
        destruct (frame_ok_parts _ _ (tclean_top _ _ _ Hst1 Et)) as (Ha & _).
        destruct (to_string (vv v)) as [s|]; [|discriminate H].
        change [115; 97; 102; 101] with n_safe in H. rewrite Ha, Hna in H. cbn [andb] in H.
        inversion H; subst. split; [apply esc_clean|exact Hst1].
      - exact (IHfirst _ _ _ _ Hst1 Hnr H).
    Qed.

    Lemma exec_template_step : forall st t c o st', tclean st -> ok_template lz t = true -> ctx_ok lz c = true ->
      exec_template se globals (S f) st t c = (o, Ok st') -> html_clean o = true /\ tclean st'.
    Proof.
      intros st t c o st' Hst Ht Hc H. rewrite exec_template_S in H.
      destruct (exec_template_unbuffered se globals f st t c) as [o1 [st1| | | |]] eqn:E; try discriminate H.
      inversion H; subst. exact (IHtplu _ _ _ _ _ Hst Ht Hc E).
    Qed.

    Lemma exec_template_unbuffered_step : forall st t c o st', tclean st -> ok_template lz t = true -> ctx_ok lz c = true ->
      exec_template_unbuffered se globals (S f) st t c = (o, Ok st') -> html_clean o = true /\ tclean st'.
    Proof.
      intros st t c o st' Hst Ht Hc H. rewrite exec_template_unbuffered_S in H. cbv zeta in H.
      match type of H with (if ?b then _ else _) = _ => destruct b; [discriminate H|] end.
      match type of H with (if ?b then _ else _) = _ => destruct b; [discriminate H|] end.
      unfold g_fresh in H.
      match type of H with context [mkM (?fr :: ms_frames st) ?n ?g] => set (rfr := fr) in *; set (g1 := g) in * end.
      assert (Hrfr : frame_ok lz rfr = true).
      { unfold rfr, root_frame. apply frame_ok_intro; cbn [f_auto f_priv f_pub f_chain].
        - reflexivity.
        - reflexivity.
        - apply ctx_ok_update; assumption.
        - apply tpl_chain_ok. exact Ht. }
      match type of H with context [exec_nodes se globals f ?s ?b] =>
        destruct (exec_nodes se globals f s b) as [o1 [st1| | | |]] eqn:E; try discriminate H end.
      inversion H; subst.
      destruct (IHnodes _ _ _ _ (tclean_root _ _ _ _ _ Hst Hrfr) (ok_template_root _ _ (hd_chain_ok _ _ Ht)) E) as [Ho Hst1].
      split; [exact Ho|apply tclean_pop; exact Hst1].
    Qed.

    (* ----- the nodes, one lemma per kind ----- *)
    Ltac node_start Hok H :=
      rewrite ok_node_eq in Hok; cbv beta iota in Hok;
      rewrite exec_node_S in H; cbv beta iota zeta in H.
    (* the next evaluation in H *)
    Ltac step_eval H v st1 E Hst1 Hv :=
      match type of H with
      | context [eval se globals f ?s ?e] =>
          destruct (eval se globals f s e) as [[v st1]| | | |] eqn:E; try discriminate H;
          match goal with Hs : tclean s |- _ => destruct (IHeval _ _ _ _ Hs E) as [Hst1 Hv] end
      end.
    Ltac step_top H st fr Et Hfr :=
      destruct (top_frame st) as [fr| | | |] eqn:Et; try discriminate H;
      match goal with Hs : tclean st |- _ => pose proof (tclean_top _ _ _ Hs Et) as Hfr end.
    Ltac done_nil H := inversion H; subst; split; [reflexivity|assumption].

    Lemma node_html : forall st owner val tl tr af bf o st', tclean st ->
      ok_node lz (NHtml owner val tl tr af bf) = true ->
      exec_node se globals (S f) st (NHtml owner val tl tr af bf) = (o, Ok st') -> html_clean o = true /\ tclean st'.
    Proof.
      intros st owner val tl tr af bf o st' Hst Hok H. rewrite ok_node_eq in Hok.
      rewrite exec_node_S_html in H. destruct (top_frame st); try discriminate H. inversion H; subst.
      split; [|exact Hst]. apply inert_clean. apply html_text_sub. exact Hok.
    Qed.

    Lemma node_var : forall st e o st', tclean st -> ok_node lz (NVar e) = true ->
      exec_node se globals (S f) st (NVar e) = (o, Ok st') -> html_clean o = true /\ tclean st'.
    Proof.
      intros st e o st' Hst Hok H. node_start Hok H. apply negb_true_iff in Hok.
      step_eval H v st1 E Hst1 Hv. step_top H st1 fr Et Hfr.
      destruct (frame_ok_parts _ _ Hfr) as (Ha & _).
      destruct (to_string (vv v)) as [s|] eqn:Es; [|discriminate H].
      change [115; 97; 102; 101] with n_safe in H. rewrite Hok, Ha in H. cbn [negb andb] in H. rewrite andb_true_r in H.
      destruct (vsafe v) eqn:Evs; destruct (is_string (vv v)) eqn:Eis; cbn [negb andb] in H;
        inversion H; subst; (split; [|exact Hst1]);
        first [apply esc_clean | eapply raw_clean; [exact Hv|exact Es|intros; congruence]].
    Qed.

    Lemma node_for : forall st key value obj reversed sorted body empty o st', tclean st ->
      ok_node lz (NFor key value obj reversed sorted body empty) = true ->
      exec_node se globals (S f) st (NFor key value obj reversed sorted body empty) = (o, Ok st') ->
      html_clean o = true /\ tclean st'.
    Proof.
      intros st key value obj reversed sorted body empty o st' Hst Hok H. node_start Hok H.
      apply andb_true_iff in Hok. destruct Hok as [Hb He].
      step_top H st fr Et Hfr.
      match type of H with context [push_frame st ?fr'] => set (ffr := fr') in * end.
      assert (Hst0 : tclean (push_frame st ffr)).
      { apply tclean_push; [exact Hst|]. unfold ffr. apply frame_ok_child_priv; [exact Hfr|].
        apply ctx_ok_set; [reflexivity|exact (frame_ok_privs _ _ Hfr)]. }
      step_eval H ov st1 E Hst1 Hov.
      assert (Hempty : forall o st',
                match empty with
                | Some eb => let '(o, r) := exec_nodes se globals f st1 eb in
                             (o, match r with Ok st2 => Ok (pop_frame st2) | other => other end)
                | None => xok [] (pop_frame st1)
                end = (o, Ok st') -> html_clean o = true /\ tclean st').
      { intros o0 st0' H0. destruct empty as [eb|].
        - destruct (exec_nodes se globals f st1 eb) as [o1 [st2| | | |]] eqn:E2; try discriminate H0.
          inversion H0; subst. destruct (IHnodes _ _ _ _ Hst1 He E2) as [Ho Hst2].
          split; [exact Ho|apply tclean_pop; exact Hst2].
        - inversion H0; subst. split; [reflexivity|apply tclean_pop; exact Hst1]. }
      destruct (iter_items (vv ov) reversed sorted) as [[[|it its]|]| | | |]; try discriminate H;
        try (exact (Hempty _ _ H)).
      match type of H with context [exec_for se globals f ?a ?b ?c ?d ?e ?g ?h ?i] =>
        destruct (exec_for se globals f a b c d e g h i) as [o1 [st2| | | |]] eqn:E2; try discriminate H end.
      inversion H; subst. destruct (IHfor _ _ _ _ _ _ _ _ _ _ Hst1 Hb E2) as [Ho Hst2].
      split; [exact Ho|apply tclean_pop; exact Hst2].
    Qed.

    Lemma node_with : forall st pairs body o st', tclean st -> ok_node lz (NWith pairs body) = true ->
      exec_node se globals (S f) st (NWith pairs body) = (o, Ok st') -> html_clean o = true /\ tclean st'.
    Proof.
      intros st pairs body o st' Hst Hok H. node_start Hok H.
      step_top H st fr Et Hfr.
      destruct (eval_pairs se globals f st pairs) as [[vals st1]| | | |] eqn:E; try discriminate H.
      destruct (IHpairs _ _ _ _ Hst E) as [Hst1 Hvals].
      step_top H st1 fr1 Et1 Hfr1.
      match type of H with context [push_frame st1 ?fr'] => set (wfr := fr') in * end.
      assert (Hst0 : tclean (push_frame st1 wfr)).
      { apply tclean_push; [exact Hst1|]. unfold wfr. apply frame_ok_child_priv; [exact Hfr1|].
        apply ctx_ok_update; [exact Hvals|exact (frame_ok_privs _ _ Hfr1)]. }
      destruct (exec_nodes se globals f (push_frame st1 wfr) body) as [o1 [st2| | | |]] eqn:E2; try discriminate H.
      inversion H; subst. destruct (IHnodes _ _ _ _ Hst0 Hok E2) as [Ho Hst2].
      split; [exact Ho|apply tclean_pop; exact Hst2].
    Qed.

    Lemma node_set : forall st name e o st', tclean st ->
      exec_node se globals (S f) st (NSet name e) = (o, Ok st') -> html_clean o = true /\ tclean st'.
    Proof.
      intros st name e o st' Hst H. rewrite exec_node_S in H; cbv beta iota zeta in H.
      step_eval H v st1 E Hst1 Hv.
      destruct (set_priv st1 name (CV v)) as [st2| | | |] eqn:Es; try discriminate H.
      inversion H; subst. split; [reflexivity|]. refine (tclean_set_priv _ _ _ _ _ Hst1 _ Es); exact Hv.
    Qed.

    Lemma node_macro : forall st m o st', tclean st -> ok_node lz (NMacro m) = true ->
      exec_node se globals (S f) st (NMacro m) = (o, Ok st') -> html_clean o = true /\ tclean st'.
    Proof.
      intros st m o st' Hst Hok H. node_start Hok H. destruct m as [mname ps body ex].
      match type of H with context [set_priv st mname ?c] =>
        destruct (set_priv st mname c) as [st1| | | |] eqn:Es; try discriminate H end.
      inversion H; subst. split; [reflexivity|]. refine (tclean_set_priv _ _ _ _ _ Hst _ Es); exact Hok.
    Qed.

    Lemma node_import : forall st ms o st', tclean st -> ok_node lz (NImport ms) = true ->
      exec_node se globals (S f) st (NImport ms) = (o, Ok st') -> html_clean o = true /\ tclean st'.
    Proof.
      intros st ms o st' Hst Hok H. node_start Hok H. step_top H st fr Et Hfr.
      inversion H; subst. split; [reflexivity|]. apply tclean_set_top; [exact Hst|].
      apply frame_ok_priv; [exact Hfr|]. apply ctx_ok_update; [|exact (frame_ok_privs _ _ Hfr)].
      apply import_ctx_ok. exact Hok.
    Qed.

    Lemma node_block : forall st bname o st', tclean st ->
      exec_node se globals (S f) st (NBlock bname) = (o, Ok st') -> html_clean o = true /\ tclean st'.
    Proof.
      intros st bname o st' Hst H. rewrite exec_node_S in H; cbv beta iota zeta in H.
      step_top H st fr Et Hfr.
      destruct (frame_ok_parts _ _ Hfr) as (_ & Hpriv & _ & Hchain).
      pose proof (chain_blocks_ok lz bname _ Hchain) as Hws. apply forallb_revA in Hws.
      match type of H with match rev ?w with _ => _ end = _ => destruct (rev w) as [|last before_rev] end;
        [discriminate H|].
      cbn [forallb] in Hws. apply andb_true_iff in Hws. destruct Hws as [Hlast Hbefore].
      match type of H with context [set_priv st ?k ?c] =>
        destruct (set_priv st k c) as [st1| | | |] eqn:Es; try discriminate H end.
      assert (Hst1 : tclean st1).
      { refine (tclean_set_priv _ _ _ _ _ Hst _ Es). cbn [entry_ok]. apply forallb_revA. exact Hbefore. }
      destruct (exec_nodes se globals f st1 last) as [o1 [st2| | | |]] eqn:Eb; try discriminate H.
      destruct (IHnodes _ _ _ _ Hst1 Hlast Eb) as [Ho Hst2].
      step_top H st2 fr2 Et2 Hfr2. inversion H; subst. split; [exact Ho|].
      apply tclean_set_top; [exact Hst2|]. apply frame_ok_priv; [exact Hfr2|].
      destruct (ctx_get [98; 108; 111; 99; 107] (f_priv fr)) as [outer|] eqn:Eo.
      - apply ctx_ok_set; [exact (ctx_ok_get _ _ _ _ Hpriv Eo)|exact (frame_ok_privs _ _ Hfr2)].
      - apply ctx_ok_del. exact (frame_ok_privs _ _ Hfr2).
    Qed.

    Lemma node_include : forall st tplo fname pairs only ifexists o st', tclean st ->
      ok_node lz (NInclude tplo fname pairs only ifexists) = true ->
      exec_node se globals (S f) st (NInclude tplo fname pairs only ifexists) = (o, Ok st') ->
      html_clean o = true /\ tclean st'.
    Proof.
      intros st tplo fname pairs only ifexists o st' Hst Hok H. node_start Hok H.
      step_top H st fr Et Hfr.
      destruct (eval_pairs se globals f st pairs) as [[vals st1]| | | |] eqn:E; try discriminate H.
      destruct (IHpairs _ _ _ _ Hst E) as [Hst1 Hvals].
      match type of H with context [ctx_update ?b vals] => set (base := b) in * end.
      assert (Hictx : ctx_ok lz (ctx_update base vals) = true).
      { apply ctx_ok_update; [exact Hvals|]. unfold base. destruct only; [reflexivity|].
        apply ctx_ok_update; [exact (frame_ok_privs _ _ Hfr)|exact (frame_ok_pubs _ _ Hfr)]. }
      destruct tplo as [t|].
      - exact (IHtpl _ _ _ _ _ Hst1 Hok Hictx H).
      - destruct fname as [fe|]; [|discriminate H].
        step_eval H fv st2 Ef Hst2 Hfv.
        destruct (to_string (vv fv)) as [[|c0 fn]|]; try discriminate H.
        match type of H with context [compile_file se f ?nm ?g] =>
          destruct (compile_file se f nm g) as [[t g']|k| | |] eqn:Ec end.
        + pose proof (compiled_ok Hok _ _ _ _ _ Ec) as Ht.
          refine (IHtpl _ _ _ _ _ _ Ht Hictx H). exact Hst2.
        + destruct k as [|[?|[?|[?|?|]|]|]]; try discriminate H.
          match type of H with (if ?c then _ else _) = _ => destruct c end; [|discriminate H]. inversion H; subst. split; [reflexivity|exact Hst2].
        + discriminate H.
        + discriminate H.
        + discriminate H.
    Qed.

    Lemma node_autoescape : forall st on body o st', tclean st -> ok_node lz (NAutoescape on body) = true ->
      exec_node se globals (S f) st (NAutoescape on body) = (o, Ok st') -> html_clean o = true /\ tclean st'.
    Proof.
      intros st on body o st' Hst Hok H. node_start Hok H.
      apply andb_true_iff in Hok. destruct Hok as [Hon Hb]. subst on.
      step_top H st fr Et Hfr. destruct (frame_ok_parts _ _ Hfr) as (Ha & _).
      assert (Hst0 : tclean (set_top st (with_auto fr true))) by (apply tclean_set_top; [exact Hst|apply frame_ok_auto; exact Hfr]).
      destruct (exec_nodes se globals f (set_top st (with_auto fr true)) body) as [o1 [st1| | | |]] eqn:Eb; try discriminate H.
      destruct (IHnodes _ _ _ _ Hst0 Hb Eb) as [Ho Hst1].
      step_top H st1 fr1 Et1 Hfr1. inversion H; subst. split; [exact Ho|].
      apply tclean_set_top; [exact Hst1|]. apply frame_ok_auto_back; assumption.
    Qed.

    Lemma node_filtertag : forall st chain body o st', tclean st -> ok_node lz (NFilterTag chain body) = true ->
      exec_node se globals (S f) st (NFilterTag chain body) = (o, Ok st') -> html_clean o = true /\ tclean st'.
    Proof.
      intros st chain body o st' Hst Hok H. node_start Hok H.
      apply andb_true_iff in Hok. destruct Hok as [Hc Hb].
      destruct (exec_nodes se globals f st body) as [o1 [st1| | | |]] eqn:Eb; try discriminate H.
      destruct (IHnodes _ _ _ _ Hst Hb Eb) as [Ho Hst1].
      destruct (apply_tag_chain se globals f st1 (as_value (VStr o1)) chain) as [[v st2]| | | |] eqn:Et; try discriminate H.
      destruct (IHtag _ (as_value (VStr o1)) _ _ _ Hst1 Ho Hc Et) as [Hst2 Hv].
      destruct (to_string (vv v)) as [s|] eqn:Es; [|discriminate H]. inversion H; subst.
      split; [exact (to_string_clean _ _ Hv Es)|exact Hst2].
    Qed.

    Lemma node_cycle : forall st id args asname silent o st', tclean st -> ok_node lz (NCycle id args asname silent) = true ->
      exec_node se globals (S f) st (NCycle id args asname silent) = (o, Ok st') -> html_clean o = true /\ tclean st'.
    Proof.
      intros st id args asname silent o st' Hst Hok H. node_start Hok H.
      step_top H st fr Et Hfr. destruct (frame_ok_parts _ _ Hfr) as (Ha & Hpriv & _).
      match type of H with
      | context [match ?c with Some _ => _ | None => _ end] =>
          match c with
          | context [ctx_get] => destruct c as [[[[nm cid] cargs] csilent]|] eqn:Ecyc
          end
      end.
      - (* a cycle handle from the context *)
        assert (Hcargs : none_safe cargs = true).
        { match type of Ecyc with
          | match ?it with _ => _ end = _ => destruct it as [| | | | | |e0 ch| | | | |]; try discriminate Ecyc;
              destruct e0 as [| | | |ps| | | | | | |]; try discriminate Ecyc;
              destruct ps as [|[n0 [c0|]|?|?] [|? ?]]; try discriminate Ecyc;
              destruct ch; try discriminate Ecyc
          end.
          destruct (ctx_get n0 (f_priv fr)) as [[| | |cid' cargs' cs' cv']|] eqn:Eg; try discriminate Ecyc.
          inversion Ecyc. subst. pose proof (ctx_ok_get _ _ _ _ Hpriv Eg) as Hc. cbn [entry_ok] in Hc.
          apply andb_true_iff in Hc. apply Hc. }
        match type of H with
        | context [eval se globals f ?s ?it] =>
            assert (Hs0 : tclean s) by exact Hst;
            destruct (eval se globals f s it) as [[v st2]| | | |] eqn:He; try discriminate H;
            destruct (IHeval _ _ _ _ Hs0 He) as [Hst2 Hv]
        end.
        destruct (set_priv st2 nm (CCycle cid cargs csilent v)) as [st3| | | |] eqn:Es; try discriminate H.
        assert (Hst3 : tclean st3).
        { refine (tclean_set_priv _ _ _ _ _ Hst2 _ Es). cbn [entry_ok]. rewrite Hcargs, Hv. reflexivity. }
        destruct csilent; [inversion H; subst; split; [reflexivity|exact Hst3]|].
        destruct (cycle_out_clean _ _ _ _ _ _ Ha (none_safe_nth2 _ _ Hcargs) Hv H) as [-> Ho]. split; assumption.
      - match type of H with
        | context [eval se globals f ?s ?it] =>
            assert (Hs0 : tclean s) by exact Hst;
            destruct (eval se globals f s it) as [[v st1]| | | |] eqn:He; try discriminate H;
            destruct (IHeval _ _ _ _ Hs0 He) as [Hst1 Hv]
        end.
        match type of H with
        | context [match ?c with Ok _ => _ | _ => _ end] => destruct c as [st2| | | |] eqn:Es; try discriminate H
        end.
        assert (Hst2 : tclean st2).
        { destruct asname as [|a0 an]; [inversion Es; subst; exact Hst1|].
          refine (tclean_set_priv _ _ _ _ _ Hst1 _ Es). cbn [entry_ok]. rewrite Hok, Hv. reflexivity. }
        destruct silent; [inversion H; subst; split; [reflexivity|exact Hst2]|].
        destruct (cycle_out_clean _ _ _ _ _ _ Ha (none_safe_nth2 _ _ Hok) Hv H) as [-> Ho]. split; assumption.
    Qed.

    Lemma node_ifchanged : forall st id watched thenb elseb o st', tclean st ->
      ok_node lz (NIfchanged id watched thenb elseb) = true ->
      exec_node se globals (S f) st (NIfchanged id watched thenb elseb) = (o, Ok st') -> html_clean o = true /\ tclean st'.
    Proof.
      intros st id watched thenb elseb o st' Hst Hok H. node_start Hok H.
      apply andb_true_iff in Hok. destruct Hok as [Hth Hel].
      step_top H st fr Et Hfr.
      destruct watched as [|w0 ws].
      - destruct (exec_nodes se globals f st thenb) as [o1 [st1| | | |]] eqn:E1; try discriminate H.
        destruct (IHnodes _ _ _ _ Hst Hth E1) as [Ho Hst1].
        match type of H with (if ?c then _ else _) = _ => destruct c end; inversion H; subst.
        + split; [reflexivity|exact Hst1].
        + split; [exact Ho|exact Hst1].
      - destruct (eval_list se globals f st (w0 :: ws)) as [[now st1]| | | |] eqn:E; try discriminate H.
        destruct (IHlist _ _ _ _ Hst E) as [Hst1 _].
        match type of H with match ?c with Some _ => _ | None => _ end = _ => destruct c as [[|]|] end; try discriminate H.
        + match type of H with exec_nodes se globals f ?s ?b = _ => exact (IHnodes s b _ _ Hst1 Hth H) end.
        + destruct elseb as [eb|].
          * match type of H with exec_nodes se globals f ?s ?b = _ => exact (IHnodes s b _ _ Hst1 Hel H) end.
          * inversion H; subst. split; [reflexivity|exact Hst1].
    Qed.

    Lemma node_ifequal : forall st negated a b thenb elseb o st', tclean st ->
      ok_node lz (NIfequal negated a b thenb elseb) = true ->
      exec_node se globals (S f) st (NIfequal negated a b thenb elseb) = (o, Ok st') -> html_clean o = true /\ tclean st'.
    Proof.
      intros st negated a b thenb elseb o st' Hst Hok H. node_start Hok H.
      apply andb_true_iff in Hok. destruct Hok as [Hth Hel].
      step_eval H x st1 E1 Hst1 Hx. step_eval H y st2 E2 Hst2 Hy.
      destruct (equal_value_to (vv x) (vv y)) as [eq|]; [|discriminate H].
      destruct (Bool.eqb eq (negb negated)).
      - exact (IHnodes _ _ _ _ Hst2 Hth H).
      - destruct elseb as [eb|]; [exact (IHnodes _ _ _ _ Hst2 Hel H)|inversion H; subst; split; [reflexivity|exact Hst2]].
    Qed.

    Lemma node_spaceless : forall st body o st', tclean st -> ok_node lz (NSpaceless body) = true ->
      exec_node se globals (S f) st (NSpaceless body) = (o, Ok st') -> html_clean o = true /\ tclean st'.
    Proof.
      intros st body o st' Hst Hok H. node_start Hok H.
      destruct (exec_nodes se globals f st body) as [o1 [st1| | | |]] eqn:Eb; try discriminate H.
      destruct (IHnodes _ _ _ _ Hst Hok Eb) as [Ho Hst1].
      destruct (spaceless_model o1) as [s|] eqn:Es; [|discriminate H]. inversion H; subst.
      rewrite (spaceless_clean _ _ Ho Es). split; assumption.
    Qed.

    Lemma node_widthratio : forall st cur mx width ctxname o st', tclean st ->
      exec_node se globals (S f) st (NWidthratio cur mx width ctxname) = (o, Ok st') -> html_clean o = true /\ tclean st'.
    Proof.
      intros st cur mx width ctxname o st' Hst H. rewrite exec_node_S in H; cbv beta iota zeta in H.
      step_eval H c st1 E1 Hst1 Hc. step_eval H m st2 E2 Hst2 Hm. step_eval H w st3 E3 Hst3 Hw.
      destruct (to_float (vv c)); [|discriminate H].
      destruct (to_float (vv m)); [|discriminate H].
      destruct (to_float (vv w)); [|discriminate H].
      destruct ctxname as [|c0 cn].
      - inversion H; subst. split; [|exact Hst3]. apply inert_clean. apply itoa_inert.
      - match type of H with context [set_priv st3 ?k ?cv] =>
          destruct (set_priv st3 k cv) as [st4| | | |] eqn:Es; try discriminate H end.
        inversion H; subst. split; [reflexivity|]. refine (tclean_set_priv _ _ _ _ _ Hst3 _ Es); exact eq_refl.
    Qed.

    Lemma node_ssi : forall st content tplo o st', tclean st -> ok_node lz (NSsi content tplo) = true ->
      exec_node se globals (S f) st (NSsi content tplo) = (o, Ok st') -> html_clean o = true /\ tclean st'.
    Proof.
      intros st content tplo o st' Hst Hok H. node_start Hok H. destruct tplo as [t|].
      - step_top H st fr Et Hfr. refine (IHtplu _ _ _ _ _ Hst Hok _ H).
        apply ctx_ok_update; [exact (frame_ok_privs _ _ Hfr)|exact (frame_ok_pubs _ _ Hfr)].
      - inversion H; subst. split; [apply inert_clean; exact Hok|exact Hst].
    Qed.

    Lemma exec_node_step : forall st n o st', tclean st -> ok_node lz n = true ->
      exec_node se globals (S f) st n = (o, Ok st') -> html_clean o = true /\ tclean st'.
    Proof.
      intros st n o st' Hst Hok H. destruct n.
      - exact (node_html _ _ _ _ _ _ _ _ _ Hst Hok H).
      - exact (node_var _ _ _ _ Hst Hok H).
      - rewrite ok_node_eq in Hok. rewrite exec_node_S in H. exact (IHif _ _ _ _ _ _ Hst Hok H).
      - exact (node_for _ _ _ _ _ _ _ _ _ _ Hst Hok H).
      - exact (node_with _ _ _ _ _ Hst Hok H).
      - exact (node_set _ _ _ _ _ Hst H).
      - exact (node_macro _ _ _ _ Hst Hok H).
      - exact (node_import _ _ _ _ Hst Hok H).
      - exact (node_block _ _ _ _ Hst H).
      - rewrite exec_node_S in H. done_nil H.
      - exact (node_include _ _ _ _ _ _ _ _ Hst Hok H).
      - rewrite exec_node_S in H. done_nil H.
      - exact (node_autoescape _ _ _ _ _ Hst Hok H).
      - exact (node_filtertag _ _ _ _ _ Hst Hok H).
      - rewrite ok_node_eq in Hok. rewrite exec_node_S in H. exact (IHfirst _ _ _ _ Hst Hok H).
      - exact (node_cycle _ _ _ _ _ _ _ Hst Hok H).
      - exact (node_ifchanged _ _ _ _ _ _ _ Hst Hok H).
      - exact (node_ifequal _ _ _ _ _ _ _ _ Hst Hok H).
      - exact (node_spaceless _ _ _ _ Hst Hok H).
      - rewrite ok_node_eq in Hok. rewrite exec_node_S in H. inversion H; subst.
        split; [apply inert_clean; exact Hok|exact Hst].
      - exact (node_widthratio _ _ _ _ _ _ _ Hst H).
      - rewrite exec_node_S in H. done_nil H.
      - exact (node_ssi _ _ _ _ _ Hst Hok H).
      - rewrite exec_node_S in H. discriminate H.
    Qed.
  End Step.

  (* ----- all fuels ----- *)
  Definition clean_inv (f : nat) : Prop :=
    (forall st e v st', tclean st -> eval se globals f st e = Ok (v, st') -> tclean st' /\ mark_ok v = true) /\
    (forall st es vs st', tclean st -> eval_list se globals f st es = Ok (vs, st') ->
       tclean st' /\ forallb mark_ok vs = true) /\
    (forall st v c r st', tclean st -> mark_ok v = true ->
       apply_chain se globals f st v c = Ok (r, st') -> tclean st' /\ mark_ok r = true) /\
    (forall st ps v st', tclean st -> resolve se globals f st ps = Ok (v, st') -> tclean st' /\ mark_ok v = true) /\
    (forall st cur sf ps v st', tclean st -> mark_ok (mkV cur sf) = true ->
       walk se globals f st cur sf ps = Ok (v, st') -> tclean st' /\ mark_ok v = true) /\
    (forall st m fi args v st', tclean st -> ok_macro lz m = true ->
       call_macro se globals f st m fi args = Ok (v, st') -> tclean st' /\ mark_ok v = true) /\
    (forall st ps r st', tclean st -> macro_defaults se globals f st ps = Ok (r, st') ->
       tclean st' /\ ctx_ok lz r = true) /\
    (forall st fi ws v st', tclean st -> forallb (ok_nodes lz) ws = true ->
       call_super se globals f st fi ws = Ok (v, st') -> tclean st' /\ mark_ok v = true) /\
    (forall st ns o st', tclean st -> ok_nodes lz ns = true ->
       exec_nodes se globals f st ns = (o, Ok st') -> html_clean o = true /\ tclean st') /\
    (forall st n o st', tclean st -> ok_node lz n = true ->
       exec_node se globals f st n = (o, Ok st') -> html_clean o = true /\ tclean st') /\
    (forall st cs ws i o st', tclean st -> forallb (ok_nodes lz) ws = true ->
       exec_if se globals f st cs ws i = (o, Ok st') -> html_clean o = true /\ tclean st') /\
    (forall st k v p body its i c o st', tclean st -> ok_nodes lz body = true ->
       exec_for se globals f st k v p body its i c = (o, Ok st') -> html_clean o = true /\ tclean st') /\
    (forall st args o st', tclean st -> none_safe args = true ->
       exec_firstof se globals f st args = (o, Ok st') -> html_clean o = true /\ tclean st') /\
    (forall st ps r st', tclean st -> eval_pairs se globals f st ps = Ok (r, st') ->
       tclean st' /\ ctx_ok lz r = true) /\
    (forall st v c r st', tclean st -> val_clean (vv v) = true -> forallb tag_call_ok c = true ->
       apply_tag_chain se globals f st v c = Ok (r, st') -> tclean st' /\ val_clean (vv r) = true) /\
    (forall st t c o st', tclean st -> ok_template lz t = true -> ctx_ok lz c = true ->
       exec_template se globals f st t c = (o, Ok st') -> html_clean o = true /\ tclean st') /\
    (forall st t c o st', tclean st -> ok_template lz t = true -> ctx_ok lz c = true ->
       exec_template_unbuffered se globals f st t c = (o, Ok st') -> html_clean o = true /\ tclean st').

  Lemma clean_inv_all : forall f, clean_inv f.
  Proof.
    induction f as [|f IH].
    - unfold clean_inv. repeat split; intros; discriminate.
    - destruct IH as (I1 & I2 & I3 & I4 & I5 & I6 & I7 & I8 & I9 & I10 & I11 & I12 & I13 & I14 & I15 & I16 & I17).
      unfold clean_inv. repeat apply conj.
      + apply (eval_step f); assumption.
      + apply (eval_list_step f); assumption.
      + apply (apply_chain_step f); assumption.
      + apply (resolve_step f); assumption.
      + apply (walk_step f); assumption.
      + apply (call_macro_step f); assumption.
      + apply (macro_defaults_step f); assumption.
      + apply (call_super_step f); assumption.
      + apply (exec_nodes_step f); assumption.
      + apply (exec_node_step f); assumption.
      + apply (exec_if_step f); assumption.
      + apply (exec_for_step f); assumption.
      + apply (exec_firstof_step f); assumption.
      + apply (eval_pairs_step f); assumption.
      + apply (apply_tag_chain_step f); assumption.
      + apply (exec_template_step f); assumption.
      + apply (exec_template_unbuffered_step f); assumption.
  Qed.

  (* ----- projections ----- *)
  Lemma eval_clean : forall f st e v st',
    tclean st -> eval se globals f st e = Ok (v, st') -> tclean st' /\ mark_ok v = true.
  Proof. intros f. apply (clean_inv_all f). Qed.

  Lemma call_macro_clean : forall f st m fi args v st',
    tclean st -> ok_macro lz m = true -> call_macro se globals f st m fi args = Ok (v, st') ->
    tclean st' /\ vsafe v = true /\ exists out, vv v = VStr out /\ html_clean out = true.
  Proof.
    intros f st m fi args v st' Hst Hm H.
    destruct (clean_inv_all f) as (_ & _ & _ & _ & _ & I6 & _).
    destruct (I6 _ _ _ _ _ _ Hst Hm H) as [Hst' Hv]. split; [exact Hst'|].
    destruct f as [|f]; [discriminate H|]. rewrite call_macro_S in H. destruct m as [mname params body ex].
    cbv beta iota zeta in H. unfold xerr in H. repeat fwd1 H. inversion H; subst. split; [reflexivity|]. eexists. split; [reflexivity|]. exact Hv.
  Qed.

  Lemma exec_nodes_clean : forall f st ns o st',
    tclean st -> ok_nodes lz ns = true -> exec_nodes se globals f st ns = (o, Ok st') ->
    html_clean o = true /\ tclean st'.
  Proof. intros f. apply (clean_inv_all f). Qed.

  Lemma exec_node_clean : forall f st n o st',
    tclean st -> ok_node lz n = true -> exec_node se globals f st n = (o, Ok st') ->
    html_clean o = true /\ tclean st'.
  Proof. intros f. apply (clean_inv_all f). Qed.

  Lemma exec_template_clean : forall f st t ctx o st',
    tclean st -> ok_template lz t = true -> ctx_ok lz ctx = true ->
    exec_template se globals f st t ctx = (o, Ok st') -> html_clean o = true /\ tclean st'.
  Proof. intros f. apply (clean_inv_all f). Qed.

  Lemma exec_template_unbuffered_clean : forall f st t ctx o st',
    tclean st -> ok_template lz t = true -> ctx_ok lz ctx = true ->
    exec_template_unbuffered se globals f st t ctx = (o, Ok st') -> html_clean o = true /\ tclean st'.
  Proof. intros f. apply (clean_inv_all f). Qed.

  (* a fresh execution: no context on the stack yet *)
  Lemma render_clean : forall f nd g t ctx o st',
    ok_template lz t = true -> unmarked_ctx ctx = true ->
    exec_template_unbuffered se globals f (mkM [] nd g) t ctx = (o, Ok st') -> html_clean o = true.
  Proof.
    intros f nd g t ctx o st' Ht Hc H.
    assert (H0 : tclean (mkM [] nd g)) by reflexivity.
    exact (proj1 (exec_template_unbuffered_clean _ _ _ _ _ _ H0 Ht (unmarked_ctx_ok lz _ Hc) H)).
  Qed.
  Lemma render_buffered_clean : forall f nd g t ctx o st',
    ok_template lz t = true -> unmarked_ctx ctx = true ->
    exec_template se globals f (mkM [] nd g) t ctx = (o, Ok st') -> html_clean o = true.
  Proof.
    intros f nd g t ctx o st' Ht Hc H.
    assert (H0 : tclean (mkM [] nd g)) by reflexivity.
    exact (proj1 (exec_template_clean _ _ _ _ _ _ H0 Ht (unmarked_ctx_ok lz _ Hc) H)).
  Qed.
End Clean.

(* the entry point of the correspondence harness (Model/Api.v) *)
Lemma run_template_clean : forall lz w t g ctx o,
  (forall s, html_clean (filter_escape s) = true) ->
  (forall name x p r, str_in name clean_tag_filters = true -> val_clean (vv x) = true ->
     apply_filter_se (world_senv w) name x p = Ok r -> val_clean (vv r) = true) ->
  ctx_ok lz (w_globals w) = true -> lazy_ok lz (world_senv w) ->
  ok_template lz t = true -> unmarked_ctx ctx = true ->
  run_template w t g ctx = OOk o -> html_clean o = true.
Proof.
  intros lz w t g ctx o Hesc Htag Hg Hl Ht Hc. unfold run_template.
  pose proof (render_clean (world_senv w) (w_globals w) lz Hesc Htag Hg Hl big_fuel [] g t ctx) as R.
  destruct (exec_template_unbuffered (world_senv w) (w_globals w) big_fuel (mkM [] [] g) t ctx) as [o1 [st1| | | |]];
    intros H; try discriminate H.
  inversion H; subst. exact (R _ _ Ht Hc eq_refl).
Qed.

Lemma lazy_ok_static : forall se, lazy_ok false se.
Proof. intros se H. discriminate H. Qed.

(* ====================================================================================== *)
(* Part II: templates whose own text contains markup (Spec/SpecTaint2.v, [ok_node_m]):      *)
(* the output is a concatenation of pieces of literal text and chunks in escaped form.      *)
(* The same induction, with [pieces] in the place of [html_clean].                          *)
(* ====================================================================================== *)

(* ================= M-A. contiguous parts, pieces ================= *)
Lemma infix_refl : forall l, infix l l.
Proof. intros l. exists [], []. rewrite app_nil_r. reflexivity. Qed.
Lemma infix_trans : forall a b c, infix a b -> infix b c -> infix a c.
Proof.
  intros a b c (x & y & Hb) (u & w & Hc). exists (u ++ x), (y ++ w). subst b. subst c.
  rewrite !app_assoc. reflexivity.
Qed.
Lemma infix_suffix : forall a l, infix l (a ++ l).
Proof. intros a l. exists a, []. rewrite app_nil_r. reflexivity. Qed.
Lemma infix_prefix : forall l b, infix l (l ++ b).
Proof. intros l b. exists [], b. reflexivity. Qed.

Lemma drop_while_suffix : forall (w : N -> bool) l, exists a, l = a ++ drop_while w l.
Proof.
  intros w l. induction l as [|b l IH]; [exists []; reflexivity|]. cbn [drop_while].
  destruct (w b); [|exists []; reflexivity]. destruct IH as [a Ha]. exists (b :: a).
  cbn [app]. rewrite <- Ha. reflexivity.
Qed.
Lemma infix_drop_while : forall w l, infix (drop_while w l) l.
Proof. intros w l. destruct (drop_while_suffix w l) as [a Ha]. rewrite Ha at 2. apply infix_suffix. Qed.
Lemma infix_rev_drop_while : forall w l, infix (rev (drop_while w (rev l))) l.
Proof.
  intros w l. destruct (drop_while_suffix w (rev l)) as [a Ha].
  assert (E : l = rev (drop_while w (rev l)) ++ rev a).
  { rewrite <- rev_app_distr, <- Ha, rev_involutive. reflexivity. }
  rewrite E at 2. apply infix_prefix.
Qed.
Lemma infix_drop_nl : forall l, infix (drop_nl l) l.
Proof.
  intros l. destruct l as [|c r]; [apply infix_refl|]. unfold drop_nl.
  repeat match goal with |- context [match ?p with _ => _ end] => is_var p; destruct p end;
    first [apply infix_refl | exists [10], []; rewrite app_nil_r; reflexivity].
Qed.
Lemma html_text_infix : forall fr owner val tl tr af bf, infix (html_text fr owner val tl tr af bf) val.
Proof.
  intros fr owner val tl tr af bf. unfold html_text. cbv zeta.
  repeat match goal with
         | |- infix (if ?c then _ else _) _ => destruct c
         | |- infix (rev (drop_while _ (rev ?x))) _ => apply (infix_trans _ x); [apply infix_rev_drop_while|]
         | |- infix (drop_while _ ?x) _ => apply (infix_trans _ x); [apply infix_drop_while|]
         | |- infix (drop_nl ?x) _ => apply (infix_trans _ x); [apply infix_drop_nl|]
         end; apply infix_refl.
Qed.

Section PiecesBasics.
  Variable lit : str -> bool.
  Notation pieces := (pieces lit).
  Notation val_pieces := (val_pieces lit).
  Notation mark_pieces := (mark_pieces lit).

  Lemma pieces_app : forall a b, pieces a -> pieces b -> pieces (a ++ b).
  Proof.
    intros a b Ha Hb. induction Ha as [|l r Hl Hr IH|c r Hc Hr IH]; [exact Hb| |];
      rewrite <- app_assoc; [apply pc_lit|apply pc_esc]; assumption.
  Qed.
  Lemma pieces_clean : forall c, html_clean c = true -> pieces c.
  Proof. intros c H. rewrite <- (app_nil_r c). apply pc_esc; [exact H|apply pc_nil]. Qed.
  Lemma pieces_inert : forall s, forallb inert_byte s = true -> pieces s.
  Proof. intros s H. apply pieces_clean. apply inert_clean. exact H. Qed.
  Lemma pieces_lit : forall val l, lit val = true -> infix l val -> pieces l.
  Proof.
    intros val l H Hi. rewrite <- (app_nil_r l). apply pc_lit; [|apply pc_nil]. exists val. split; assumption.
  Qed.

  Lemma all_prop_In : forall A (P : A -> Prop) l x, all_prop P l -> In x l -> P x.
  Proof.
    intros A P l x. induction l as [|y l IH]; intros H Hi; [destruct Hi|].
    cbn [all_prop fold_right] in H. destruct H as [H1 H2]. destruct Hi as [->|Hi]; [exact H1|exact (IH H2 Hi)].
  Qed.
  Lemma val_pieces_assoc : forall k m v,
    all_prop (fun kv : str * val => val_pieces (snd kv)) m -> assoc_get k m = Some v -> val_pieces v.
  Proof.
    intros k m v H Hg. destruct (assoc_get_In _ _ _ _ Hg) as [k' Hi].
    exact (all_prop_In _ _ _ _ H Hi).
  Qed.
  Lemma val_pieces_nth : forall l i, all_prop val_pieces l -> val_pieces (nth i l VNil).
  Proof.
    intros l i H. destruct (nth_in_or_default i l VNil) as [Hi|Hd].
    - exact (all_prop_In _ _ _ _ H Hi).
    - rewrite Hd. exact I.
  Qed.
  Lemma val_pieces_index : forall cur i v, val_pieces cur -> index_val cur i = Some v -> val_pieces v.
  Proof.
    intros cur i v Hc H. destruct cur; cbn [index_val] in H; try discriminate H.
    - destruct ((0 <=? i)%Z && (i <? Z.of_nat (length s))%Z); [|discriminate H]. inversion H. exact I.
    - destruct ((0 <=? i)%Z && (i <? Z.of_nat (length l))%Z); [|discriminate H]. inversion H.
      apply val_pieces_nth. exact Hc.
  Qed.
  Lemma to_string_pieces : forall v s, val_pieces v -> to_string v = Some s -> pieces s.
  Proof.
    intros v s Hc Hs. destruct (is_string v) eqn:Ei.
    - destruct v; try discriminate Ei. cbn in Hs. inversion Hs. subst. exact Hc.
    - apply pieces_inert. exact (to_string_nonstring_inert v s Ei Hs).
  Qed.

  Lemma mark_pieces_unmarked : forall v, vsafe v = false -> mark_pieces v.
  Proof. intros v H. left. exact H. Qed.
  Lemma mark_pieces_as_value : forall x, mark_pieces (as_value x).
  Proof. intros x. left. reflexivity. Qed.
  Lemma mark_pieces_val : forall v, val_pieces (vv v) -> mark_pieces v.
  Proof. intros v H. right. exact H. Qed.
  Lemma mark_pieces_sub : forall cur sf v, mark_pieces (mkV cur sf) ->
    (val_pieces cur -> val_pieces v) -> mark_pieces (mkV v sf).
  Proof.
    intros cur sf v [H|H] Hi; [left; exact H|right; apply Hi; exact H].
  Qed.
  Lemma mark_pieces_eta : forall v, mark_pieces (mkV (vv v) (vsafe v)) <-> mark_pieces v.
  Proof. intros [a b]. split; intros H; exact H. Qed.

  Lemma raw_pieces : forall v s,
    mark_pieces v -> to_string (vv v) = Some s ->
    (vsafe v = false -> is_string (vv v) = false) -> pieces s.
  Proof.
    intros v s Hm Hs Hn. destruct (vsafe v) eqn:Ev.
    - destruct Hm as [Hm|Hm]; [rewrite Ev in Hm; discriminate Hm|]. exact (to_string_pieces _ _ Hm Hs).
    - apply pieces_inert. exact (to_string_nonstring_inert _ _ (Hn eq_refl) Hs).
  Qed.
  Lemma passes_mark_pieces : forall x p r v,
    passes x p r -> r = Ok v -> mark_pieces x -> mark_pieces p -> mark_pieces v.
  Proof.
    intros x p r v Hp Hr Hx Hpp. destruct (Hp v Hr) as [E|[E|E]]; [subst v; exact Hx|subst v; exact Hpp|].
    left. exact E.
  Qed.

  (* the filters allowed in a filter tag here *)
  Definition markup_impl (impl : str) : bool :=
    str_in impl [i_escape; i_safe; i_length; i_wordcount; i_integer; i_float].
  Hypothesis esc_clean : forall s, html_clean (filter_escape s) = true.

  Lemma apply_filter_markup_impl : forall name impl x p r,
    assoc_get name filter_impl = Some impl -> markup_impl impl = true ->
    val_pieces (vv x) -> apply_filter name x p = Ok r -> val_pieces (vv r).
  Proof.
    intros name impl x p r Hi Hc Hx H. unfold markup_impl, str_in in Hc. cbn [existsb] in Hc.
    repeat (apply orb_true_iff in Hc; destruct Hc as [Hc|Hc]); try discriminate Hc;
      apply str_eqb_true2 in Hc; subst impl.
    - rewrite (apply_filter_escape_g name x p Hi) in H. destruct (str_of x); try discriminate H.
      cbn [bind] in H. inversion H. apply pieces_clean. apply esc_clean.
    - rewrite (apply_filter_safe_g name x p Hi) in H. inversion H. subst r. exact Hx.
    - rewrite (apply_filter_length_g name x p Hi) in H. inversion H. exact I.
    - rewrite (apply_filter_wordcount_g name x p Hi) in H. destruct (str_of x); try discriminate H.
      cbn [bind] in H. inversion H. exact I.
    - rewrite (apply_filter_integer_g name x p Hi) in H. destruct (int_of x); try discriminate H.
      cbn [bind] in H. inversion H. exact I.
    - rewrite (apply_filter_float_g name x p Hi) in H. destruct (float_of x); try discriminate H.
      cbn [bind] in H. inversion H. exact I.
  Qed.
  Definition markup_table_ok (names : list str) : bool :=
    forallb (fun n => match assoc_get n filter_impl with Some impl => markup_impl impl | None => true end) names.
  Lemma markup_filters_pieces : forall names, markup_table_ok names = true ->
    forall se name x p r, str_in name names = true -> val_pieces (vv x) ->
      apply_filter_se se name x p = Ok r -> val_pieces (vv r).
  Proof.
    intros names Ht se name x p r Hn Hx H. unfold str_in in Hn. apply existsb_exists in Hn.
    destruct Hn as [n [Hi Hn]]. apply str_eqb_true2 in Hn. subst n.
    pose proof (forallb_In _ _ _ _ Ht Hi) as Hc. cbv beta in Hc. unfold apply_filter_se in H.
    destruct (assoc_get name filter_impl) as [impl|] eqn:Ei.
    - exact (apply_filter_markup_impl _ _ _ _ _ Ei Hc Hx H).
    - destruct (str_in name (cfg_filters (se_cfg se))); discriminate H.
  Qed.
End PiecesBasics.

(* ================= M-D. the invariant under the operations on contexts, frames, states ================= *)
Lemma Forall_tl : forall A (P : A -> Prop) l, Forall P l -> Forall P (tl l).
Proof. intros A P [|x l] H; [constructor|]. inversion H. assumption. Qed.
Lemma Forall_skipn : forall A (P : A -> Prop) n l, Forall P l -> Forall P (skipn n l).
Proof.
  intros A P n. induction n as [|n IH]; intros l H; [exact H|]. destruct l as [|x l]; [constructor|].
  cbn [skipn]. apply IH. inversion H. assumption.
Qed.
Lemma Forall_firstn : forall A (P : A -> Prop) n l, Forall P l -> Forall P (firstn n l).
Proof.
  intros A P n. induction n as [|n IH]; intros l H; [constructor|]. destruct l as [|x l]; [constructor|].
  cbn [firstn]. inversion H. constructor; [assumption|apply IH; assumption].
Qed.
Lemma Forall_update_nth : forall A (P : A -> Prop) l i x, Forall P l -> P x -> Forall P (update_nth l i x).
Proof.
  intros A P l. induction l as [|y l IH]; intros i x H Hx; [constructor|]. inversion H; subst.
  destruct i as [|i]; cbn [update_nth]; constructor; try assumption. apply IH; assumption.
Qed.
Lemma Forall_In : forall A (P : A -> Prop) l x, Forall P l -> In x l -> P x.
Proof. intros A P l x H Hi. rewrite Forall_forall in H. apply H. exact Hi. Qed.

Section InvM.
  Variable lit : str -> bool.
  Variable lz : bool.
  Notation ok_node_m := (ok_node_m lit lz).
  Notation ok_nodes_m := (ok_nodes_m lit lz).
  Notation ok_macro_m := (ok_macro_m lit lz).
  Notation ok_template_m := (ok_template_m lit lz).
  Notation entry_m := (entry_m lit lz).
  Notation ctx_m := (ctx_m lit lz).
  Notation frame_m := (frame_m lit lz).
  Notation tclean_m := (tclean_m lit lz).
  Notation mark_pieces := (mark_pieces lit).

  Lemma ok_node_m_eq : forall n, ok_node_m n =
    match n with
    | NHtml _ val _ _ _ _ => lit val
    | NVar e => negb (filter_applied n_safe e)
    | NIf _ wrappers => forallb ok_nodes_m wrappers
    | NFor _ _ _ _ _ body empty => ok_nodes_m body && match empty with Some l => ok_nodes_m l | None => true end
    | NWith _ body => ok_nodes_m body
    | NSet _ _ => true
    | NMacro m => ok_macro_m m
    | NImport ms => forallb (fun am => ok_macro_m (snd am)) ms
    | NBlock _ => true
    | NExtends => true
    | NInclude tplo _ _ _ _ => match tplo with Some t => ok_template_m t | None => lz end
    | NIncludeEmpty => true
    | NAutoescape on body => on && ok_nodes_m body
    | NFilterTag chain body => forallb tag_call_m chain && ok_nodes_m body
    | NFirstof args => none_safe args
    | NCycle _ args _ _ => none_safe args
    | NIfchanged _ _ thenb elseb => ok_nodes_m thenb && match elseb with Some l => ok_nodes_m l | None => true end
    | NIfequal _ _ _ thenb elseb => ok_nodes_m thenb && match elseb with Some l => ok_nodes_m l | None => true end
    | NSpaceless _ => false
    | NTemplatetag content => lit content
    | NWidthratio _ _ _ _ => true
    | NComment => true
    | NSsi content tplo => match tplo with Some t => ok_template_m t | None => lit content end
    | NUnmod => true
    end.
  Proof. destruct n; reflexivity. Qed.
  Lemma ok_macro_m_eq : forall a b body c, ok_macro_m (Macro a b body c) = ok_nodes_m body.
  Proof. reflexivity. Qed.
  Lemma ok_template_m_eq : forall t, ok_template_m t =
    ok_nodes_m (tpl_root t) && forallb (fun b => ok_nodes_m (snd b)) (tpl_blocks t) &&
    match tpl_parent t with Some p => ok_template_m p | None => true end.
  Proof. destruct t; reflexivity. Qed.

  Lemma ok_template_m_root : forall t, ok_template_m t = true -> ok_nodes_m (tpl_root t) = true.
  Proof. intros t H. rewrite ok_template_m_eq in H. apply andb_true_iff in H. destruct H as [H _]. apply andb_true_iff in H. apply H. Qed.
  Lemma ok_template_m_blocks : forall t, ok_template_m t = true ->
    forallb (fun b => ok_nodes_m (snd b)) (tpl_blocks t) = true.
  Proof. intros t H. rewrite ok_template_m_eq in H. apply andb_true_iff in H. destruct H as [H _]. apply andb_true_iff in H. apply H. Qed.
  Lemma ok_template_m_parent : forall t p, ok_template_m t = true -> tpl_parent t = Some p -> ok_template_m p = true.
  Proof. intros t p H Hp. rewrite ok_template_m_eq, Hp in H. apply andb_true_iff in H. apply H. Qed.

  Lemma chain_up_m : forall n t acc, ok_template_m t = true -> forallb ok_template_m acc = true ->
    forallb ok_template_m (chain_up n t acc) = true.
  Proof.
    induction n as [|n IH]; intros t acc Ht Ha; cbn [chain_up].
    - cbn [forallb]. rewrite Ht, Ha. reflexivity.
    - destruct (tpl_parent t) as [p|] eqn:Ep.
      + apply IH; [exact (ok_template_m_parent _ _ Ht Ep)|]. cbn [forallb]. rewrite Ht, Ha. reflexivity.
      + cbn [forallb]. rewrite Ht, Ha. reflexivity.
  Qed.
  Lemma tpl_chain_m : forall t, ok_template_m t = true -> forallb ok_template_m (tpl_chain t) = true.
  Proof. intros t H. unfold tpl_chain. apply chain_up_m; [exact H|reflexivity]. Qed.
  Lemma hd_chain_m : forall t, ok_template_m t = true -> ok_template_m (hd t (tpl_chain t)) = true.
  Proof.
    intros t H. pose proof (tpl_chain_m t H) as Hc. destruct (tpl_chain t) as [|x r]; [exact H|].
    cbn [hd forallb] in *. apply andb_true_iff in Hc. apply Hc.
  Qed.
  Lemma chain_blocks_m : forall b chain, forallb ok_template_m chain = true ->
    forallb ok_nodes_m
      (flat_map (fun t => match assoc_get b (tpl_blocks t) with Some w => [w] | None => [] end) chain) = true.
  Proof.
    intros b chain. induction chain as [|t chain IH]; intros H; [reflexivity|].
    cbn [forallb] in H. apply andb_true_iff in H. destruct H as [Ht Hc]. cbn [flat_map].
    apply forallb_appA; [|apply IH; exact Hc].
    destruct (assoc_get b (tpl_blocks t)) as [w|] eqn:Eb; [|reflexivity].
    cbn [forallb]. rewrite andb_true_r. destruct (assoc_get_In _ _ _ _ Eb) as [k Hi].
    exact (forallb_In _ _ _ _ (ok_template_m_blocks _ Ht) Hi).
  Qed.

  (* ----- contexts ----- *)
  Lemma ctx_m_get : forall k m c, ctx_m m -> ctx_get k m = Some c -> entry_m c.
  Proof.
    intros k m c. induction m as [|[k' v] m IH]; cbn [ctx_get]; [discriminate|]. intros H Hg.
    inversion H; subst. destruct (str_eqb k k'); [inversion Hg; subst; assumption|apply IH; assumption].
  Qed.
  Lemma ctx_m_del : forall k m, ctx_m m -> ctx_m (ctx_del k m).
  Proof.
    intros k m. induction m as [|[k' v] m IH]; intros H; [constructor|]. inversion H; subst. cbn [ctx_del].
    destruct (str_eqb k k'); [apply IH; assumption|]. constructor; [assumption|apply IH; assumption].
  Qed.
  Lemma ctx_m_set : forall k c m, entry_m c -> ctx_m m -> ctx_m (ctx_set k c m).
  Proof. intros k c m Hc Hm. unfold ctx_set. constructor; [exact Hc|apply ctx_m_del; exact Hm]. Qed.
  Lemma ctx_m_update : forall src dst, ctx_m src -> ctx_m dst -> ctx_m (ctx_update dst src).
  Proof.
    unfold ctx_update. induction src as [|[k c] src IH]; intros dst Hs Hd; [exact Hd|].
    inversion Hs; subst. cbn [fold_left fst snd]. apply IH; [assumption|]. apply ctx_m_set; assumption.
  Qed.
  Lemma ctx_m_nil : ctx_m [].
  Proof. constructor. Qed.
  Lemma unmarked_ctx_m : forall ctx, unmarked_ctx ctx = true -> ctx_m ctx.
  Proof.
    intros ctx. unfold unmarked_ctx. induction ctx as [|[k c] ctx IH]; intros H; [constructor|].
    cbn [forallb snd] in H. apply andb_true_iff in H. destruct H as [H1 H2]. constructor; [|exact (IH H2)].
    destruct c as [v| | |]; try discriminate H1. cbn [snd SpecTaint2.entry_m]. left. apply negb_true_iff. exact H1.
  Qed.

  (* ----- frames ----- *)
  Lemma frame_m_priv : forall fr p, frame_m fr -> ctx_m p -> frame_m (with_priv fr p).
  Proof. intros fr p (H1 & _ & H3 & H4) Hp. repeat split; assumption. Qed.
  Lemma frame_m_child_priv : forall fr p, frame_m fr -> ctx_m p -> frame_m (with_priv (child_of fr) p).
  Proof. intros fr p (H1 & _ & H3 & H4) Hp. repeat split; assumption. Qed.
  Lemma frame_m_depth : forall fr d, frame_m fr -> frame_m (with_depth fr d).
  Proof. intros fr d (H1 & H2 & H3 & H4). repeat split; assumption. Qed.
  Lemma frame_m_auto : forall fr, frame_m fr -> frame_m (with_auto fr true).
  Proof. intros fr (H1 & H2 & H3 & H4). repeat split; assumption. Qed.
  Lemma frame_m_auto_back : forall fr fr0, frame_m fr -> f_auto fr0 = true -> frame_m (with_auto fr (f_auto fr0)).
  Proof. intros fr fr0 H H0. rewrite H0. apply frame_m_auto. exact H. Qed.
  Lemma frame_m_privs : forall fr, frame_m fr -> ctx_m (f_priv fr).
  Proof. intros fr H. apply H. Qed.
  Lemma frame_m_pubs : forall fr, frame_m fr -> ctx_m (f_pub fr).
  Proof. intros fr H. apply H. Qed.
  Lemma frame_m_lookup : forall fr name c, frame_m fr ->
    match ctx_get name (f_priv fr) with Some c => Some c | None => ctx_get name (f_pub fr) end = Some c ->
    entry_m c.
  Proof.
    intros fr name c H Hg. destruct (ctx_get name (f_priv fr)) as [c'|] eqn:E.
    - inversion Hg. subst c'. exact (ctx_m_get _ _ _ (frame_m_privs _ H) E).
    - exact (ctx_m_get _ _ _ (frame_m_pubs _ H) Hg).
  Qed.

  (* ----- states ----- *)
  Lemma tclean_m_top : forall st fr, tclean_m st -> top_frame st = Ok fr -> frame_m fr.
  Proof.
    intros st fr H Ht. unfold SpecTaint2.tclean_m, top_frame in *. destruct (ms_frames st) as [|x r]; [discriminate Ht|].
    inversion Ht. subst x. inversion H. assumption.
  Qed.
  Lemma tclean_m_push : forall st fr, tclean_m st -> frame_m fr -> tclean_m (push_frame st fr).
  Proof. intros st fr H Hf. unfold SpecTaint2.tclean_m, push_frame in *. cbn [ms_frames]. constructor; assumption. Qed.
  Lemma tclean_m_pop : forall st, tclean_m st -> tclean_m (pop_frame st).
  Proof. intros st H. unfold SpecTaint2.tclean_m, pop_frame in *. cbn [ms_frames]. apply Forall_tl. exact H. Qed.
  Lemma tclean_m_set_top : forall st fr, tclean_m st -> frame_m fr -> tclean_m (set_top st fr).
  Proof.
    intros st fr H Hf. unfold SpecTaint2.tclean_m, set_top in *. destruct (ms_frames st) as [|x r] eqn:E; [rewrite E; constructor|].
    cbn [ms_frames]. inversion H. constructor; assumption.
  Qed.
  Lemma tclean_m_set_priv : forall st k c st', tclean_m st -> entry_m c -> set_priv st k c = Ok st' -> tclean_m st'.
  Proof.
    intros st k c st' H Hc Hs. unfold set_priv in Hs. destruct (top_frame st) as [fr| | | |] eqn:Et; try discriminate Hs.
    cbn [bind] in Hs. inversion Hs. apply tclean_m_set_top; [exact H|].
    pose proof (tclean_m_top _ _ H Et) as Hf. apply frame_m_priv; [exact Hf|].
    apply ctx_m_set; [exact Hc|exact (frame_m_privs _ Hf)].
  Qed.
  Lemma tclean_m_frame_at : forall st i fr, tclean_m st -> frame_at st i = Some fr -> frame_m fr.
  Proof.
    intros st i fr H Hf. unfold frame_at in Hf. apply nth_error_In in Hf. apply in_rev in Hf.
    exact (Forall_In _ _ _ _ H Hf).
  Qed.
  Lemma tclean_m_set_frame_at : forall st i fr, tclean_m st -> frame_m fr -> tclean_m (set_frame_at st i fr).
  Proof.
    intros st i fr H Hf. unfold SpecTaint2.tclean_m, set_frame_at in *. cbn [ms_frames].
    apply Forall_rev. apply Forall_update_nth; [apply Forall_rev; exact H|exact Hf].
  Qed.
  Lemma tclean_m_cut : forall st n nd g, tclean_m st -> tclean_m (mkM (skipn n (ms_frames st)) nd g).
  Proof. intros st n nd g H. unfold SpecTaint2.tclean_m in *. cbn [ms_frames]. apply Forall_skipn. exact H. Qed.
  Lemma tclean_m_glue : forall st std n, tclean_m st -> tclean_m std ->
    tclean_m (mkM (firstn n (ms_frames st) ++ ms_frames std) (ms_nodes std) (ms_g std)).
  Proof.
    intros st std n H Hd. unfold SpecTaint2.tclean_m in *. cbn [ms_frames]. apply Forall_app. split; [apply Forall_firstn; exact H|exact Hd].
  Qed.
  Lemma tclean_m_root : forall st fr n g, tclean_m st -> frame_m fr -> tclean_m (mkM (fr :: ms_frames st) n g).
  Proof. intros st fr n g H Hf. unfold SpecTaint2.tclean_m in *. cbn [ms_frames]. constructor; assumption. Qed.
End InvM.

(* ================= M-E. the mutual induction ================= *)
Section CleanM.
  Variable se : senv.
  Variable globals : list (str * cval).
  Variable lit : str -> bool.
  Variable lz : bool.
  Hypothesis esc_clean : forall s, html_clean (filter_escape s) = true.
  Hypothesis tagf_pieces : forall name x p r,
    str_in name markup_tag_filters = true -> val_pieces lit (vv x) ->
    apply_filter_se se name x p = Ok r -> val_pieces lit (vv r).
  Hypothesis globals_ok : ctx_m lit lz globals.
  Hypothesis compiled_ok : lazy_m lit lz se.

  Notation tclean := (SpecTaint2.tclean_m lit lz).
  Notation pieces := (SpecTaint2.pieces lit).
  Notation val_pieces := (SpecTaint2.val_pieces lit).
  Notation mark_pieces := (SpecTaint2.mark_pieces lit).
  Notation ok_node_m := (SpecTaint2.ok_node_m lit lz).
  Notation ok_nodes_m := (SpecTaint2.ok_nodes_m lit lz).
  Notation ok_macro_m := (SpecTaint2.ok_macro_m lit lz).
  Notation ok_template_m := (SpecTaint2.ok_template_m lit lz).
  Notation entry_m := (SpecTaint2.entry_m lit lz).
  Notation ctx_m := (SpecTaint2.ctx_m lit lz).
  Notation frame_m := (SpecTaint2.frame_m lit lz).

  Lemma bound_args_ok_m : forall (l : list ((str * option expr) * value)),
    ctx_m (map (fun pa => (fst (fst pa), CV (as_value (vv (snd pa))))) l).
  Proof. induction l as [|x l IH]; [constructor|]. cbn [map]. constructor; [left; reflexivity|exact IH]. Qed.
  Lemma import_ctx_ok_m : forall ms idx, forallb (fun am => ok_macro_m (snd am)) ms = true ->
    ctx_m (map (fun am : str * macro => (fst am, CMacro (snd am) idx)) ms).
  Proof.
    induction ms as [|x ms IH]; intros idx H; [constructor|]. cbn [forallb] in H. apply andb_true_iff in H.
    destruct H as [H1 H2]. cbn [map]. constructor; [exact H1|exact (IH idx H2)].
  Qed.
  Lemma none_safe_nth2_m : forall args k, none_safe args = true ->
    filter_applied n_safe (nth k args (EBool false)) = false.
  Proof.
    induction args as [|a r IH]; intros k Hn.
    - destruct k; reflexivity.
    - cbn [none_safe forallb] in Hn. apply andb_true_iff in Hn. destruct Hn as [H1 H2].
      destruct k; cbn [nth]; [apply negb_true_iff; exact H1|apply IH; exact H2].
  Qed.

  (* cycleOutput over an invariant frame *)
  Lemma cycle_out_clean_m : forall fr item v st o st',
    f_auto fr = true -> filter_applied n_safe item = false -> mark_pieces v ->
    cycle_out fr item v st = (o, Ok st') -> st' = st /\ pieces o.
  Proof.
    intros fr item v st o st' Ha Hf Hm H. unfold cycle_out in H.
    change [115; 97; 102; 101] with n_safe in H.
    destruct (to_string (vv v)) as [s|] eqn:Hs; [|discriminate H].
    rewrite Ha, Hf in H. cbn [negb andb] in H. rewrite andb_true_r in H.
    destruct (vsafe v) eqn:Hv; destruct (is_string (vv v)) eqn:Hi; cbn [negb andb] in H;
      inversion H; subst; (split; [reflexivity|]);
      first [apply pieces_clean; apply esc_clean | eapply raw_pieces; [exact Hm|exact Hs|intros; congruence]].
  Qed.

  Section StepM.
    Variable f : nat.
    Hypothesis IHeval : forall st e v st', tclean st -> eval se globals f st e = Ok (v, st') ->
      tclean st' /\ mark_pieces v.
    Hypothesis IHlist : forall st es vs st', tclean st -> eval_list se globals f st es = Ok (vs, st') ->
      tclean st' /\ True.
    Hypothesis IHchain : forall st v c r st', tclean st -> mark_pieces v ->
      apply_chain se globals f st v c = Ok (r, st') -> tclean st' /\ mark_pieces r.
    Hypothesis IHres : forall st ps v st', tclean st -> resolve se globals f st ps = Ok (v, st') ->
      tclean st' /\ mark_pieces v.
    Hypothesis IHwalk : forall st cur sf ps v st', tclean st -> mark_pieces (mkV cur sf) ->
      walk se globals f st cur sf ps = Ok (v, st') -> tclean st' /\ mark_pieces v.
    Hypothesis IHmacro : forall st m fi args v st', tclean st -> ok_macro_m m = true ->
      call_macro se globals f st m fi args = Ok (v, st') -> tclean st' /\ mark_pieces v.
    Hypothesis IHdef : forall st ps r st', tclean st -> macro_defaults se globals f st ps = Ok (r, st') ->
      tclean st' /\ ctx_m r.
    Hypothesis IHsuper : forall st fi ws v st', tclean st -> forallb (ok_nodes_m) ws = true ->
      call_super se globals f st fi ws = Ok (v, st') -> tclean st' /\ mark_pieces v.
    Hypothesis IHnodes : forall st ns o st', tclean st -> ok_nodes_m ns = true ->
      exec_nodes se globals f st ns = (o, Ok st') -> pieces o /\ tclean st'.
    Hypothesis IHnode : forall st n o st', tclean st -> ok_node_m n = true ->
      exec_node se globals f st n = (o, Ok st') -> pieces o /\ tclean st'.
    Hypothesis IHif : forall st cs ws i o st', tclean st -> forallb (ok_nodes_m) ws = true ->
      exec_if se globals f st cs ws i = (o, Ok st') -> pieces o /\ tclean st'.
    Hypothesis IHfor : forall st k v p body its i c o st', tclean st -> ok_nodes_m body = true ->
      exec_for se globals f st k v p body its i c = (o, Ok st') -> pieces o /\ tclean st'.
    Hypothesis IHfirst : forall st args o st', tclean st -> none_safe args = true ->
      exec_firstof se globals f st args = (o, Ok st') -> pieces o /\ tclean st'.
    Hypothesis IHpairs : forall st ps r st', tclean st -> eval_pairs se globals f st ps = Ok (r, st') ->
      tclean st' /\ ctx_m r.
    Hypothesis IHtag : forall st v c r st', tclean st -> val_pieces (vv v) -> forallb tag_call_m c = true ->
      apply_tag_chain se globals f st v c = Ok (r, st') -> tclean st' /\ val_pieces (vv r).
    Hypothesis IHtpl : forall st t c o st', tclean st -> ok_template_m t = true -> ctx_m c ->
      exec_template se globals f st t c = (o, Ok st') -> pieces o /\ tclean st'.
    Hypothesis IHtplu : forall st t c o st', tclean st -> ok_template_m t = true -> ctx_m c ->
      exec_template_unbuffered se globals f st t c = (o, Ok st') -> pieces o /\ tclean st'.

    (* turn the successful recursive calls of value-returning functions into facts *)
    Ltac harvest :=
      repeat match goal with
        | E : eval se globals f ?s _ = Ok (_, _), Hs : tclean ?s |- _ =>
            let H1 := fresh "Hst" in let H2 := fresh "Hmk" in
            destruct (IHeval _ _ _ _ Hs E) as [H1 H2]; clear E
        | E : eval_list se globals f ?s _ = Ok (_, _), Hs : tclean ?s |- _ =>
            let H1 := fresh "Hst" in let H2 := fresh "Hmk" in
            destruct (IHlist _ _ _ _ Hs E) as [H1 H2]; clear E
        | E : apply_chain se globals f ?s ?v _ = Ok (_, _), Hs : tclean ?s, Hv : mark_pieces ?v |- _ =>
            let H1 := fresh "Hst" in let H2 := fresh "Hmk" in
            destruct (IHchain _ _ _ _ _ Hs Hv E) as [H1 H2]; clear E
        | E : resolve se globals f ?s _ = Ok (_, _), Hs : tclean ?s |- _ =>
            let H1 := fresh "Hst" in let H2 := fresh "Hmk" in
            destruct (IHres _ _ _ _ Hs E) as [H1 H2]; clear E
        | E : macro_defaults se globals f ?s _ = Ok (_, _), Hs : tclean ?s |- _ =>
            let H1 := fresh "Hst" in let H2 := fresh "Hmk" in
            destruct (IHdef _ _ _ _ Hs E) as [H1 H2]; clear E
        | E : eval_pairs se globals f ?s _ = Ok (_, _), Hs : tclean ?s |- _ =>
            let H1 := fresh "Hst" in let H2 := fresh "Hmk" in
            destruct (IHpairs _ _ _ _ Hs E) as [H1 H2]; clear E
        | E : match ?c with _ => _ end = Ok _ |- _ => destruct c; try discriminate E
        | E : bind ?c _ = Ok _ |- _ => destruct c; cbn [bind] in E; try discriminate E
        | E : @Ok _ _ = Ok _ |- _ => inversion E; subst; clear E
        end.

    Ltac fin :=
      harvest; (split; [assumption|]);
      repeat match goal with |- context [if ?c then _ else _] => destruct c end;
      first [apply mark_pieces_as_value | assumption].

    Lemma eval_step_m : forall st e v st', tclean st -> eval se globals (S f) st e = Ok (v, st') ->
      tclean st' /\ mark_pieces v.
    Proof.
      intros st e v st' Hst H. rewrite eval_S in H. destruct e; cbv zeta in H; unfold xerr in H; repeat fwd1 H; fin.
    Qed.

    Lemma eval_list_step_m : forall st es vs st', tclean st -> eval_list se globals (S f) st es = Ok (vs, st') ->
      tclean st' /\ True.
    Proof.
      intros st es vs st' Hst H. rewrite eval_list_S in H. repeat fwd1 H; harvest; (split; [assumption|exact I]).
    Qed.

    Lemma apply_chain_step_m : forall st v c r st', tclean st -> mark_pieces v ->
      apply_chain se globals (S f) st v c = Ok (r, st') -> tclean st' /\ mark_pieces r.
    Proof.
      intros st v c r st' Hst Hv H. rewrite apply_chain_S in H.
      destruct c as [|[name param] rest]; [inversion H; subst; split; assumption|].
      assert (Hp : exists p st1, (match param with Some pe => eval se globals f st pe | None => Ok (as_value VNil, st) end) = Ok (p, st1)
                                 /\ tclean st1 /\ mark_pieces p).
      { destruct param as [pe|].
        - destruct (eval se globals f st pe) as [[p st1]| | | |] eqn:E; try discriminate H.
          exists p, st1. split; [reflexivity|]. exact (IHeval _ _ _ _ Hst E).
        - exists (as_value VNil), st. split; [reflexivity|]. split; [exact Hst|apply mark_pieces_as_value]. }
      destruct Hp as (p & st1 & Ep & Hst1 & Hpm). rewrite Ep in H. cbn [bind] in H.
      destruct (apply_filter_se se name v p) as [r0| | | |] eqn:Ef; try discriminate H. cbn [bind] in H.
      pose proof (passes_mark_pieces _ _ _ _ _ (apply_filter_se_passes se name v p) Ef Hv Hpm) as Hr0.
      exact (IHchain _ _ _ _ _ Hst1 Hr0 H).
    Qed.

    Lemma eval_pairs_step_m : forall st ps r st', tclean st -> eval_pairs se globals (S f) st ps = Ok (r, st') ->
      tclean st' /\ ctx_m r.
    Proof.
      intros st ps r st' Hst H. rewrite eval_pairs_S in H. repeat fwd1 H; harvest; (split; [assumption|]);
        repeat (constructor; [first [assumption|apply mark_pieces_as_value]|]); first [assumption|constructor].
    Qed.

    Lemma macro_defaults_step_m : forall st ps r st', tclean st -> macro_defaults se globals (S f) st ps = Ok (r, st') ->
      tclean st' /\ ctx_m r.
    Proof.
      intros st ps r st' Hst H. rewrite macro_defaults_S in H. repeat fwd1 H; harvest; (split; [assumption|]);
        repeat (constructor; [first [assumption|apply mark_pieces_as_value]|]); first [assumption|constructor].
    Qed.

    Lemma apply_tag_chain_step_m : forall st v c r st', tclean st -> val_pieces (vv v) -> forallb tag_call_m c = true ->
      apply_tag_chain se globals (S f) st v c = Ok (r, st') -> tclean st' /\ val_pieces (vv r).
    Proof.
      intros st v c r st' Hst Hv Hc H. rewrite apply_tag_chain_S in H.
      destruct c as [|[name param] rest]; [inversion H; subst; split; assumption|].
      cbn [forallb] in Hc. apply andb_true_iff in Hc. destruct Hc as [Hc Hrest].
      unfold tag_call_m in Hc. cbn [fst snd] in Hc. apply andb_true_iff in Hc. destruct Hc as [Hn Hp].
      destruct param as [pe|]; [discriminate Hp|]. cbn [bind] in H.
      destruct (apply_filter_se se name v (as_value VNil)) as [r0| | | |] eqn:Ef; try discriminate H. cbn [bind] in H.
      exact (IHtag _ _ _ _ _ Hst (tagf_pieces _ _ _ _ Hn Hv Ef) Hrest H).
    Qed.

    (* the remaining parts of a variable: below a clean marked value everything is clean *)
    Lemma walk_step_m : forall st cur sf ps v st', tclean st -> mark_pieces (mkV cur sf) ->
      walk se globals (S f) st cur sf ps = Ok (v, st') -> tclean st' /\ mark_pieces v.
    Proof.
      intros st cur sf ps v st' Hst Hm H. rewrite walk_S in H. cbv zeta in H. unfold xerr in H.
      repeat fwd1 H; harvest;
        first
          [ match goal with
            | Hw : walk se globals f ?s ?x sf _ = Ok _, Hs : tclean ?s |- _ =>
                refine (IHwalk _ _ _ _ _ _ Hs _ Hw);
                apply (mark_pieces_sub _ _ _ _ Hm); intros Hc;
                first [ eapply val_pieces_index; eassumption
                      | eapply val_pieces_assoc; [exact Hc|eassumption] ]
            end
          | split; [assumption|first [apply mark_pieces_as_value|assumption]] ].
    Qed.

    Lemma resolve_step_m : forall st ps v st', tclean st -> resolve se globals (S f) st ps = Ok (v, st') ->
      tclean st' /\ mark_pieces v.
    Proof.
      intros st ps v st' Hst H. rewrite resolve_S in H.
      destruct ps as [|[name call|i call|e call] rest]; try discriminate H.
      destruct (top_frame st) as [fr| | | |] eqn:Et; try discriminate H. cbn [bind] in H. cbv zeta in H.
      pose proof (tclean_m_top _ _ _ _ Hst Et) as Hfr.
      match type of H with
      | match ?en with Some _ => _ | None => _ end = _ => destruct en as [c|] eqn:Een
      end; [|inversion H; subst; split; [assumption|apply mark_pieces_as_value]].
      pose proof (frame_m_lookup _ _ _ _ _ Hfr Een) as Hc.
      destruct c as [cv|m fidx|fidx ws|? ? ? ?]; cbn [SpecTaint2.entry_m] in Hc; [| | |discriminate H].
      - (* data *)
        destruct (vv cv) eqn:Evv; try (inversion H; subst; split; [assumption|apply mark_pieces_as_value]);
          (destruct call; [discriminate H|]);
          (refine (IHwalk _ _ _ _ _ _ Hst _ H); rewrite <- Evv; apply mark_pieces_eta; exact Hc).
      - (* a macro call: the result is the output of its body *)
        match type of H with
        | context [eval_list se globals f st ?a] =>
            destruct (eval_list se globals f st a) as [[args st1]| | | |] eqn:El; try discriminate H
        end.
        cbn [bind] in H. destruct (IHlist _ _ _ _ Hst El) as [Hst1 _].
        destruct (call_macro se globals f st1 m fidx args) as [[r st2]| | | |] eqn:Em; try discriminate H.
        cbn [bind] in H. destruct (IHmacro _ _ _ _ _ _ Hst1 Hc Em) as [Hst2 Hr].
        refine (IHwalk _ _ _ _ _ _ Hst2 _ H). apply mark_pieces_eta. exact Hr.
      - (* block.Super *)
        destruct rest as [|[meth mcall| |] [|? ?]]; try discriminate H.
        destruct (str_eqb meth [83; 117; 112; 101; 114]); [|discriminate H].
        destruct mcall as [[|? ?]|]; try discriminate H; exact (IHsuper _ _ _ _ _ Hst Hc H).
    Qed.

    Lemma call_super_step_m : forall st fi ws v st', tclean st -> forallb (ok_nodes_m) ws = true ->
      call_super se globals (S f) st fi ws = Ok (v, st') -> tclean st' /\ mark_pieces v.
    Proof.
      intros st fi ws v st' Hst Hws H. rewrite call_super_S in H.
      apply forallb_revA in Hws.
      destruct (rev ws) as [|last before_rev]; [inversion H; subst; split; [assumption|right; apply pc_nil]|].
      cbn [forallb] in Hws. apply andb_true_iff in Hws. destruct Hws as [Hlast Hbefore].
      destruct (frame_at st fi) as [bfr|] eqn:Efa; [|discriminate H]. cbv zeta in H.
      pose proof (tclean_m_frame_at _ _ _ _ _ Hst Efa) as Hbfr.
      match type of H with context [push_frame st ?fr] => set (sfr := fr) in * end.
      assert (Hsfr : frame_m sfr).
      { unfold sfr. apply frame_m_child_priv; [exact Hbfr|]. apply ctx_m_set; [|exact (frame_m_privs _ _ _ Hbfr)].
        cbn [SpecTaint2.entry_m]. apply forallb_revA. exact Hbefore. }
      destruct (exec_nodes se globals f (push_frame st sfr) last) as [out [st1| | | |]] eqn:Eb; try discriminate H.
      destruct (IHnodes _ _ _ _ (tclean_m_push _ _ _ _ Hst Hsfr) Hlast Eb) as [Hout Hst1].
      inversion H; subst. split; [apply tclean_m_pop; exact Hst1|]. apply mark_pieces_val. exact Hout.
    Qed.

    Lemma call_macro_step_m : forall st m fi args v st', tclean st -> ok_macro_m m = true ->
      call_macro se globals (S f) st m fi args = Ok (v, st') -> tclean st' /\ mark_pieces v.
    Proof.
      intros st m fi args v st' Hst Hm H. rewrite call_macro_S in H. destruct m as [mname params body ex].
      rewrite ok_macro_m_eq in Hm.
      destruct (frame_at st fi) as [dfr|] eqn:Efa; [|discriminate H]. cbv zeta in H.
      pose proof (tclean_m_frame_at _ _ _ _ _ Hst Efa) as Hdfr.
      destruct (max_macro_depth <? f_depth dfr + 1)%Z; [discriminate H|].
      match type of H with context [set_frame_at st fi ?fr] => set (st0 := set_frame_at st fi fr) in * end.
      assert (Hst0 : tclean st0) by (apply tclean_m_set_frame_at; [exact Hst|apply frame_m_depth; exact Hdfr]).
      match type of H with
      | context [macro_defaults se globals f ?s params] =>
          assert (Hsin : tclean s) by (apply tclean_m_cut; exact Hst0);
          destruct (macro_defaults se globals f s params) as [[dvals st_d]| | | |] eqn:Ed; try discriminate H
      end.
      destruct (IHdef _ _ _ _ Hsin Ed) as [Hstd Hdv].
      destruct (Nat.ltb (length params) (length args)); [discriminate H|].
      match type of H with context [frame_at ?s fi] => set (st1 := s) in * end.
      assert (Hst1 : tclean st1) by (apply tclean_m_glue; assumption).
      destruct (frame_at st1 fi) as [dfr1|] eqn:Efa1; [|discriminate H].
      pose proof (tclean_m_frame_at _ _ _ _ _ Hst1 Efa1) as Hdfr1.
      match type of H with context [push_frame st1 ?fr] => set (mfr := fr) in * end.
      assert (Hmfr : frame_m mfr).
      { unfold mfr. apply frame_m_child_priv; [exact Hdfr1|]. apply ctx_m_update; [apply bound_args_ok_m|].
        apply ctx_m_update; [exact Hdv|exact (frame_m_privs _ _ _ Hdfr1)]. }
      destruct (exec_nodes se globals f (push_frame st1 mfr) body) as [out [st2| | | |]] eqn:Eb; try discriminate H.
      destruct (IHnodes _ _ _ _ (tclean_m_push _ _ _ _ Hst1 Hmfr) Hm Eb) as [Hout Hst2].
      inversion H; subst. split; [|apply mark_pieces_val; exact Hout].
      pose proof (tclean_m_pop _ _ _ Hst2) as Hst3.
      destruct (frame_at (pop_frame st2) fi) as [fr'|] eqn:Ef3; [|exact Hst3].
      apply tclean_m_set_frame_at; [exact Hst3|]. apply frame_m_depth. exact (tclean_m_frame_at _ _ _ _ _ Hst3 Ef3).
    Qed.

    Lemma exec_nodes_step_m : forall st ns o st', tclean st -> ok_nodes_m ns = true ->
      exec_nodes se globals (S f) st ns = (o, Ok st') -> pieces o /\ tclean st'.
    Proof.
      intros st ns o st' Hst Hok H. rewrite exec_nodes_S in H. destruct ns as [|n rest].
      - inversion H; subst. split; [apply pc_nil|exact Hst].
      - unfold ok_nodes in Hok. cbn [forallb] in Hok. apply andb_true_iff in Hok. destruct Hok as [Hn Hr].
        destruct (exec_node se globals f st n) as [o1 [st1| | | |]] eqn:E1; try discriminate H.
        destruct (exec_nodes se globals f st1 rest) as [o2 r] eqn:E2. inversion H; subst.
        destruct (IHnode _ _ _ _ Hst Hn E1) as [Ho1 Hst1].
        destruct (IHnodes _ _ _ _ Hst1 Hr E2) as [Ho2 Hst2].
        split; [apply pieces_app; assumption|exact Hst2].
    Qed.

    Lemma exec_if_step_m : forall st cs ws i o st', tclean st -> forallb (ok_nodes_m) ws = true ->
      exec_if se globals (S f) st cs ws i = (o, Ok st') -> pieces o /\ tclean st'.
    Proof.
      intros st cs ws i o st' Hst Hok H. rewrite exec_if_S in H.
      assert (Hw : forall j w, nth_error ws j = Some w -> ok_nodes_m w = true).
      { intros j w Hj. apply nth_error_In in Hj. exact (forallb_In _ _ _ _ Hok Hj). }
      destruct (nth_error cs i) as [c|]; [|inversion H; subst; split; [apply pc_nil|exact Hst]].
      destruct (eval se globals f st c) as [[v st1]| | | |] eqn:E; try discriminate H.
      destruct (IHeval _ _ _ _ Hst E) as [Hst1 _].
      destruct (is_true (vv v)).
      - destruct (nth_error ws i) as [w|] eqn:Ew; [|discriminate H]. exact (IHnodes _ _ _ _ Hst1 (Hw _ _ Ew) H).
      - match type of H with (if ?c then _ else _) = _ => destruct c end.
        + destruct (nth_error ws (S i)) as [w|] eqn:Ew; [|discriminate H]. exact (IHnodes _ _ _ _ Hst1 (Hw _ _ Ew) H).
        + exact (IHif _ _ _ _ _ _ Hst1 Hok H).
    Qed.

    Lemma exec_for_step_m : forall st k v p body its i c o st', tclean st -> ok_nodes_m body = true ->
      exec_for se globals (S f) st k v p body its i c = (o, Ok st') -> pieces o /\ tclean st'.
    Proof.
      intros st k v p body its i c o st' Hst Hok H. rewrite exec_for_S in H.
      destruct its as [|[key vo] rest]; [inversion H; subst; split; [apply pc_nil|exact Hst]|].
      destruct (top_frame st) as [fr| | | |] eqn:Et; try discriminate H. cbv zeta in H.
      pose proof (tclean_m_top _ _ _ _ Hst Et) as Hfr.
      match type of H with context [set_top st ?fr'] => set (fr1 := fr') in * end.
      assert (Hfr1 : frame_m fr1).
      { unfold fr1. apply frame_m_priv; [exact Hfr|]. apply ctx_m_set; [left; reflexivity|].
        destruct vo; repeat (apply ctx_m_set; [left; reflexivity|]); exact (frame_m_privs _ _ _ Hfr). }
      destruct (exec_nodes se globals f (set_top st fr1) body) as [o1 [st1| | | |]] eqn:E1; try discriminate H.
      destruct (exec_for se globals f st1 k v p body rest (i + 1) c) as [o2 r] eqn:E2. inversion H; subst.
      destruct (IHnodes _ _ _ _ (tclean_m_set_top _ _ _ _ Hst Hfr1) Hok E1) as [Ho1 Hst1].
      destruct (IHfor _ _ _ _ _ _ _ _ _ _ Hst1 Hok E2) as [Ho2 Hst2].
      split; [apply pieces_app; assumption|exact Hst2].
    Qed.

    Lemma exec_firstof_step_m : forall st args o st', tclean st -> none_safe args = true ->
      exec_firstof se globals (S f) st args = (o, Ok st') -> pieces o /\ tclean st'.
    Proof.
      intros st args o st' Hst Hn H. rewrite exec_firstof_S in H.
      destruct args as [|a rest]; [inversion H; subst; split; [apply pc_nil|exact Hst]|].
      cbn [none_safe forallb] in Hn. apply andb_true_iff in Hn. destruct Hn as [Hna Hnr].
      destruct (eval se globals f st a) as [[v st1]| | | |] eqn:E; try discriminate H.
      destruct (IHeval _ _ _ _ Hst E) as [Hst1 _].
      destruct (is_true (vv v)).
      - destruct (top_frame st1) as [fr| | | |] eqn:Et; try discriminate H.
        destruct (tclean_m_top _ _ _ _ Hst1 Et) as (Ha & _).
        destruct (to_string (vv v)) as [s|]; [|discriminate H].
        change [115; 97; 102; 101] with n_safe in H. rewrite Ha, Hna in H. cbn [andb] in H.
        inversion H; subst. split; [apply pieces_clean; apply esc_clean|exact Hst1].
      - exact (IHfirst _ _ _ _ Hst1 Hnr H).
    Qed.

    Lemma exec_template_step_m : forall st t c o st', tclean st -> ok_template_m t = true -> ctx_m c ->
      exec_template se globals (S f) st t c = (o, Ok st') -> pieces o /\ tclean st'.
    Proof.
      intros st t c o st' Hst Ht Hc H. rewrite exec_template_S in H.
      destruct (exec_template_unbuffered se globals f st t c) as [o1 [st1| | | |]] eqn:E; try discriminate H.
      inversion H; subst. exact (IHtplu _ _ _ _ _ Hst Ht Hc E).
    Qed.

    Lemma exec_template_unbuffered_step_m : forall st t c o st', tclean st -> ok_template_m t = true -> ctx_m c ->
      exec_template_unbuffered se globals (S f) st t c = (o, Ok st') -> pieces o /\ tclean st'.
    Proof.
      intros st t c o st' Hst Ht Hc H. rewrite exec_template_unbuffered_S in H. cbv zeta in H.
      match type of H with (if ?b then _ else _) = _ => destruct b; [discriminate H|] end.
      match type of H with (if ?b then _ else _) = _ => destruct b; [discriminate H|] end.
      unfold g_fresh in H.
      match type of H with context [mkM (?fr :: ms_frames st) ?n ?g] => set (rfr := fr) in *; set (g1 := g) in * end.
      assert (Hrfr : frame_m rfr).
      { unfold rfr, root_frame. split; [|split; [|split]]; cbn [f_auto f_priv f_pub f_chain].
        - reflexivity.
        - constructor; [left; reflexivity|constructor].
        - apply ctx_m_update; assumption.
        - apply tpl_chain_m. exact Ht. }
      match type of H with context [exec_nodes se globals f ?s ?b] =>
        destruct (exec_nodes se globals f s b) as [o1 [st1| | | |]] eqn:E; try discriminate H end.
      inversion H; subst.
      destruct (IHnodes _ _ _ _ (tclean_m_root _ _ _ _ _ _ Hst Hrfr) (ok_template_m_root _ _ _ (hd_chain_m _ _ _ Ht)) E) as [Ho Hst1].
      split; [exact Ho|apply tclean_m_pop; exact Hst1].
    Qed.

    (* ----- the nodes, one lemma per kind ----- *)
    Ltac node_start Hok H :=
      rewrite ok_node_m_eq in Hok; cbv beta iota in Hok;
      rewrite exec_node_S in H; cbv beta iota zeta in H.
    (* the next evaluation in H *)
    Ltac step_eval H v st1 E Hst1 Hv :=
      match type of H with
      | context [eval se globals f ?s ?e] =>
          destruct (eval se globals f s e) as [[v st1]| | | |] eqn:E; try discriminate H;
          match goal with Hs : tclean s |- _ => destruct (IHeval _ _ _ _ Hs E) as [Hst1 Hv] end
      end.
    Ltac step_top H st fr Et Hfr :=
      destruct (top_frame st) as [fr| | | |] eqn:Et; try discriminate H;
      match goal with Hs : tclean st |- _ => pose proof (tclean_m_top _ _ _ _ Hs Et) as Hfr end.
    Ltac done_nil H := inversion H; subst; split; [apply pc_nil|assumption].

    Lemma node_html_m : forall st owner val tl tr af bf o st', tclean st ->
      ok_node_m (NHtml owner val tl tr af bf) = true ->
      exec_node se globals (S f) st (NHtml owner val tl tr af bf) = (o, Ok st') -> pieces o /\ tclean st'.
    Proof.
      intros st owner val tl tr af bf o st' Hst Hok H. rewrite ok_node_m_eq in Hok.
      rewrite exec_node_S_html in H. destruct (top_frame st); try discriminate H. inversion H; subst.
      split; [|exact Hst]. exact (pieces_lit _ _ _ Hok (html_text_infix _ _ _ _ _ _ _)).
    Qed.

    Lemma node_var_m : forall st e o st', tclean st -> ok_node_m (NVar e) = true ->
      exec_node se globals (S f) st (NVar e) = (o, Ok st') -> pieces o /\ tclean st'.
    Proof.
      intros st e o st' Hst Hok H. node_start Hok H. apply negb_true_iff in Hok.
      step_eval H v st1 E Hst1 Hv. step_top H st1 fr Et Hfr.
      destruct (Hfr) as (Ha & _).
      destruct (to_string (vv v)) as [s|] eqn:Es; [|discriminate H].
      change [115; 97; 102; 101] with n_safe in H. rewrite Hok, Ha in H. cbn [negb andb] in H. rewrite andb_true_r in H.
      destruct (vsafe v) eqn:Evs; destruct (is_string (vv v)) eqn:Eis; cbn [negb andb] in H;
        inversion H; subst; (split; [|exact Hst1]);
        first [apply pieces_clean; apply esc_clean | eapply raw_pieces; [exact Hv|exact Es|intros; congruence]].
    Qed.

    Lemma node_for_m : forall st key value obj reversed sorted body empty o st', tclean st ->
      ok_node_m (NFor key value obj reversed sorted body empty) = true ->
      exec_node se globals (S f) st (NFor key value obj reversed sorted body empty) = (o, Ok st') ->
      pieces o /\ tclean st'.
    Proof.
      intros st key value obj reversed sorted body empty o st' Hst Hok H. node_start Hok H.
      apply andb_true_iff in Hok. destruct Hok as [Hb He].
      step_top H st fr Et Hfr.
      match type of H with context [push_frame st ?fr'] => set (ffr := fr') in * end.
      assert (Hst0 : tclean (push_frame st ffr)).
      { apply tclean_m_push; [exact Hst|]. unfold ffr. apply frame_m_child_priv; [exact Hfr|].
        apply ctx_m_set; [left; reflexivity|exact (frame_m_privs _ _ _ Hfr)]. }
      step_eval H ov st1 E Hst1 Hov.
      assert (Hempty : forall o st',
                match empty with
                | Some eb => let '(o, r) := exec_nodes se globals f st1 eb in
                             (o, match r with Ok st2 => Ok (pop_frame st2) | other => other end)
                | None => xok [] (pop_frame st1)
                end = (o, Ok st') -> pieces o /\ tclean st').
      { intros o0 st0' H0. destruct empty as [eb|].
        - destruct (exec_nodes se globals f st1 eb) as [o1 [st2| | | |]] eqn:E2; try discriminate H0.
          inversion H0; subst. destruct (IHnodes _ _ _ _ Hst1 He E2) as [Ho Hst2].
          split; [exact Ho|apply tclean_m_pop; exact Hst2].
        - inversion H0; subst. split; [apply pc_nil|apply tclean_m_pop; exact Hst1]. }
      destruct (iter_items (vv ov) reversed sorted) as [[[|it its]|]| | | |]; try discriminate H;
        try (exact (Hempty _ _ H)).
      match type of H with context [exec_for se globals f ?a ?b ?c ?d ?e ?g ?h ?i] =>
        destruct (exec_for se globals f a b c d e g h i) as [o1 [st2| | | |]] eqn:E2; try discriminate H end.
      inversion H; subst. destruct (IHfor _ _ _ _ _ _ _ _ _ _ Hst1 Hb E2) as [Ho Hst2].
      split; [exact Ho|apply tclean_m_pop; exact Hst2].
    Qed.

    Lemma node_with_m : forall st pairs body o st', tclean st -> ok_node_m (NWith pairs body) = true ->
      exec_node se globals (S f) st (NWith pairs body) = (o, Ok st') -> pieces o /\ tclean st'.
    Proof.
      intros st pairs body o st' Hst Hok H. node_start Hok H.
      step_top H st fr Et Hfr.
      destruct (eval_pairs se globals f st pairs) as [[vals st1]| | | |] eqn:E; try discriminate H.
      destruct (IHpairs _ _ _ _ Hst E) as [Hst1 Hvals].
      step_top H st1 fr1 Et1 Hfr1.
      match type of H with context [push_frame st1 ?fr'] => set (wfr := fr') in * end.
      assert (Hst0 : tclean (push_frame st1 wfr)).
      { apply tclean_m_push; [exact Hst1|]. unfold wfr. apply frame_m_child_priv; [exact Hfr1|].
        apply ctx_m_update; [exact Hvals|exact (frame_m_privs _ _ _ Hfr1)]. }
      destruct (exec_nodes se globals f (push_frame st1 wfr) body) as [o1 [st2| | | |]] eqn:E2; try discriminate H.
      inversion H; subst. destruct (IHnodes _ _ _ _ Hst0 Hok E2) as [Ho Hst2].
      split; [exact Ho|apply tclean_m_pop; exact Hst2].
    Qed.

    Lemma node_set_m : forall st name e o st', tclean st ->
      exec_node se globals (S f) st (NSet name e) = (o, Ok st') -> pieces o /\ tclean st'.
    Proof.
      intros st name e o st' Hst H. rewrite exec_node_S in H; cbv beta iota zeta in H.
      step_eval H v st1 E Hst1 Hv.
      destruct (set_priv st1 name (CV v)) as [st2| | | |] eqn:Es; try discriminate H.
      inversion H; subst. split; [apply pc_nil|]. refine (tclean_m_set_priv _ _ _ _ _ _ Hst1 _ Es); exact Hv.
    Qed.

    Lemma node_macro_m : forall st m o st', tclean st -> ok_node_m (NMacro m) = true ->
      exec_node se globals (S f) st (NMacro m) = (o, Ok st') -> pieces o /\ tclean st'.
    Proof.
      intros st m o st' Hst Hok H. node_start Hok H. destruct m as [mname ps body ex].
      match type of H with context [set_priv st mname ?c] =>
        destruct (set_priv st mname c) as [st1| | | |] eqn:Es; try discriminate H end.
      inversion H; subst. split; [apply pc_nil|]. refine (tclean_m_set_priv _ _ _ _ _ _ Hst _ Es); exact Hok.
    Qed.

    Lemma node_import_m : forall st ms o st', tclean st -> ok_node_m (NImport ms) = true ->
      exec_node se globals (S f) st (NImport ms) = (o, Ok st') -> pieces o /\ tclean st'.
    Proof.
      intros st ms o st' Hst Hok H. node_start Hok H. step_top H st fr Et Hfr.
      inversion H; subst. split; [apply pc_nil|]. apply tclean_m_set_top; [exact Hst|].
      apply frame_m_priv; [exact Hfr|]. apply ctx_m_update; [|exact (frame_m_privs _ _ _ Hfr)].
      apply import_ctx_ok_m. exact Hok.
    Qed.

    Lemma node_block_m : forall st bname o st', tclean st ->
      exec_node se globals (S f) st (NBlock bname) = (o, Ok st') -> pieces o /\ tclean st'.
    Proof.
      intros st bname o st' Hst H. rewrite exec_node_S in H; cbv beta iota zeta in H.
      step_top H st fr Et Hfr.
      destruct (Hfr) as (_ & Hpriv & _ & Hchain).
      pose proof (chain_blocks_m _ lz bname _ Hchain) as Hws. apply forallb_revA in Hws.
      match type of H with match rev ?w with _ => _ end = _ => destruct (rev w) as [|last before_rev] end;
        [discriminate H|].
      cbn [forallb] in Hws. apply andb_true_iff in Hws. destruct Hws as [Hlast Hbefore].
      match type of H with context [set_priv st ?k ?c] =>
        destruct (set_priv st k c) as [st1| | | |] eqn:Es; try discriminate H end.
      assert (Hst1 : tclean st1).
      { refine (tclean_m_set_priv _ _ _ _ _ _ Hst _ Es). cbn [SpecTaint2.entry_m]. apply forallb_revA. exact Hbefore. }
      destruct (exec_nodes se globals f st1 last) as [o1 [st2| | | |]] eqn:Eb; try discriminate H.
      destruct (IHnodes _ _ _ _ Hst1 Hlast Eb) as [Ho Hst2].
      step_top H st2 fr2 Et2 Hfr2. inversion H; subst. split; [exact Ho|].
      apply tclean_m_set_top; [exact Hst2|]. apply frame_m_priv; [exact Hfr2|].
      destruct (ctx_get [98; 108; 111; 99; 107] (f_priv fr)) as [outer|] eqn:Eo.
      - apply ctx_m_set; [exact (ctx_m_get _ _ _ _ _ Hpriv Eo)|exact (frame_m_privs _ _ _ Hfr2)].
      - apply ctx_m_del. exact (frame_m_privs _ _ _ Hfr2).
    Qed.

    Lemma node_include_m : forall st tplo fname pairs only ifexists o st', tclean st ->
      ok_node_m (NInclude tplo fname pairs only ifexists) = true ->
      exec_node se globals (S f) st (NInclude tplo fname pairs only ifexists) = (o, Ok st') ->
      pieces o /\ tclean st'.
    Proof.
      intros st tplo fname pairs only ifexists o st' Hst Hok H. node_start Hok H.
      step_top H st fr Et Hfr.
      destruct (eval_pairs se globals f st pairs) as [[vals st1]| | | |] eqn:E; try discriminate H.
      destruct (IHpairs _ _ _ _ Hst E) as [Hst1 Hvals].
      match type of H with context [ctx_update ?b vals] => set (base := b) in * end.
      assert (Hictx : ctx_m (ctx_update base vals)).
      { apply ctx_m_update; [exact Hvals|]. unfold base. destruct only; [constructor|].
        apply ctx_m_update; [exact (frame_m_privs _ _ _ Hfr)|exact (frame_m_pubs _ _ _ Hfr)]. }
      destruct tplo as [t|].
      - exact (IHtpl _ _ _ _ _ Hst1 Hok Hictx H).
      - destruct fname as [fe|]; [|discriminate H].
        step_eval H fv st2 Ef Hst2 Hfv.
        destruct (to_string (vv fv)) as [[|c0 fn]|]; try discriminate H.
        match type of H with context [compile_file se f ?nm ?g] =>
          destruct (compile_file se f nm g) as [[t g']|k| | |] eqn:Ec end.
        + pose proof (compiled_ok Hok _ _ _ _ _ Ec) as Ht.
          refine (IHtpl _ _ _ _ _ _ Ht Hictx H). exact Hst2.
        + destruct k as [|[?|[?|[?|?|]|]|]]; try discriminate H.
          match type of H with (if ?c then _ else _) = _ => destruct c end; [|discriminate H]. inversion H; subst. split; [apply pc_nil|exact Hst2].
        + discriminate H.
        + discriminate H.
        + discriminate H.
    Qed.

    Lemma node_autoescape_m : forall st on body o st', tclean st -> ok_node_m (NAutoescape on body) = true ->
      exec_node se globals (S f) st (NAutoescape on body) = (o, Ok st') -> pieces o /\ tclean st'.
    Proof.
      intros st on body o st' Hst Hok H. node_start Hok H.
      apply andb_true_iff in Hok. destruct Hok as [Hon Hb]. subst on.
      step_top H st fr Et Hfr. destruct (Hfr) as (Ha & _).
      assert (Hst0 : tclean (set_top st (with_auto fr true))) by (apply tclean_m_set_top; [exact Hst|apply frame_m_auto; exact Hfr]).
      destruct (exec_nodes se globals f (set_top st (with_auto fr true)) body) as [o1 [st1| | | |]] eqn:Eb; try discriminate H.
      destruct (IHnodes _ _ _ _ Hst0 Hb Eb) as [Ho Hst1].
      step_top H st1 fr1 Et1 Hfr1. inversion H; subst. split; [exact Ho|].
      apply tclean_m_set_top; [exact Hst1|]. apply frame_m_auto_back; assumption.
    Qed.

    Lemma node_filtertag_m : forall st chain body o st', tclean st -> ok_node_m (NFilterTag chain body) = true ->
      exec_node se globals (S f) st (NFilterTag chain body) = (o, Ok st') -> pieces o /\ tclean st'.
    Proof.
      intros st chain body o st' Hst Hok H. node_start Hok H.
      apply andb_true_iff in Hok. destruct Hok as [Hc Hb].
      destruct (exec_nodes se globals f st body) as [o1 [st1| | | |]] eqn:Eb; try discriminate H.
      destruct (IHnodes _ _ _ _ Hst Hb Eb) as [Ho Hst1].
      destruct (apply_tag_chain se globals f st1 (as_value (VStr o1)) chain) as [[v st2]| | | |] eqn:Et; try discriminate H.
      destruct (IHtag _ (as_value (VStr o1)) _ _ _ Hst1 Ho Hc Et) as [Hst2 Hv].
      destruct (to_string (vv v)) as [s|] eqn:Es; [|discriminate H]. inversion H; subst.
      split; [exact (to_string_pieces _ _ _ Hv Es)|exact Hst2].
    Qed.

    Lemma node_cycle_m : forall st id args asname silent o st', tclean st -> ok_node_m (NCycle id args asname silent) = true ->
      exec_node se globals (S f) st (NCycle id args asname silent) = (o, Ok st') -> pieces o /\ tclean st'.
    Proof.
      intros st id args asname silent o st' Hst Hok H. node_start Hok H.
      step_top H st fr Et Hfr. destruct (Hfr) as (Ha & Hpriv & _).
      match type of H with
      | context [match ?c with Some _ => _ | None => _ end] =>
          match c with
          | context [ctx_get] => destruct c as [[[[nm cid] cargs] csilent]|] eqn:Ecyc
          end
      end.
      - (* a cycle handle from the context *)
        assert (Hcargs : none_safe cargs = true).
        { match type of Ecyc with
          | match ?it with _ => _ end = _ => destruct it as [| | | | | |e0 ch| | | | |]; try discriminate Ecyc;
              destruct e0 as [| | | |ps| | | | | | |]; try discriminate Ecyc;
              destruct ps as [|[n0 [c0|]|?|?] [|? ?]]; try discriminate Ecyc;
              destruct ch; try discriminate Ecyc
          end.
          destruct (ctx_get n0 (f_priv fr)) as [[| | |cid' cargs' cs' cv']|] eqn:Eg; try discriminate Ecyc.
          inversion Ecyc. subst. pose proof (ctx_m_get _ _ _ _ _ Hpriv Eg) as Hc. cbn [SpecTaint2.entry_m] in Hc.
          apply Hc. }
        match type of H with
        | context [eval se globals f ?s ?it] =>
            assert (Hs0 : tclean s) by exact Hst;
            destruct (eval se globals f s it) as [[v st2]| | | |] eqn:He; try discriminate H;
            destruct (IHeval _ _ _ _ Hs0 He) as [Hst2 Hv]
        end.
        destruct (set_priv st2 nm (CCycle cid cargs csilent v)) as [st3| | | |] eqn:Es; try discriminate H.
        assert (Hst3 : tclean st3).
        { refine (tclean_m_set_priv _ _ _ _ _ _ Hst2 _ Es). cbn [SpecTaint2.entry_m]. split; [exact Hcargs|exact Hv]. }
        destruct csilent; [inversion H; subst; split; [apply pc_nil|exact Hst3]|].
        destruct (cycle_out_clean_m _ _ _ _ _ _ Ha (none_safe_nth2_m _ _ Hcargs) Hv H) as [-> Ho]. split; assumption.
      - match type of H with
        | context [eval se globals f ?s ?it] =>
            assert (Hs0 : tclean s) by exact Hst;
            destruct (eval se globals f s it) as [[v st1]| | | |] eqn:He; try discriminate H;
            destruct (IHeval _ _ _ _ Hs0 He) as [Hst1 Hv]
        end.
        match type of H with
        | context [match ?c with Ok _ => _ | _ => _ end] => destruct c as [st2| | | |] eqn:Es; try discriminate H
        end.
        assert (Hst2 : tclean st2).
        { destruct asname as [|a0 an]; [inversion Es; subst; exact Hst1|].
          refine (tclean_m_set_priv _ _ _ _ _ _ Hst1 _ Es). cbn [SpecTaint2.entry_m]. split; [exact Hok|exact Hv]. }
        destruct silent; [inversion H; subst; split; [apply pc_nil|exact Hst2]|].
        destruct (cycle_out_clean_m _ _ _ _ _ _ Ha (none_safe_nth2_m _ _ Hok) Hv H) as [-> Ho]. split; assumption.
    Qed.

    Lemma node_ifchanged_m : forall st id watched thenb elseb o st', tclean st ->
      ok_node_m (NIfchanged id watched thenb elseb) = true ->
      exec_node se globals (S f) st (NIfchanged id watched thenb elseb) = (o, Ok st') -> pieces o /\ tclean st'.
    Proof.
      intros st id watched thenb elseb o st' Hst Hok H. node_start Hok H.
      apply andb_true_iff in Hok. destruct Hok as [Hth Hel].
      step_top H st fr Et Hfr.
      destruct watched as [|w0 ws].
      - destruct (exec_nodes se globals f st thenb) as [o1 [st1| | | |]] eqn:E1; try discriminate H.
        destruct (IHnodes _ _ _ _ Hst Hth E1) as [Ho Hst1].
        match type of H with (if ?c then _ else _) = _ => destruct c end; inversion H; subst.
        + split; [apply pc_nil|exact Hst1].
        + split; [exact Ho|exact Hst1].
      - destruct (eval_list se globals f st (w0 :: ws)) as [[now st1]| | | |] eqn:E; try discriminate H.
        destruct (IHlist _ _ _ _ Hst E) as [Hst1 _].
        match type of H with match ?c with Some _ => _ | None => _ end = _ => destruct c as [[|]|] end; try discriminate H.
        + match type of H with exec_nodes se globals f ?s ?b = _ => exact (IHnodes s b _ _ Hst1 Hth H) end.
        + destruct elseb as [eb|].
          * match type of H with exec_nodes se globals f ?s ?b = _ => exact (IHnodes s b _ _ Hst1 Hel H) end.
          * inversion H; subst. split; [apply pc_nil|exact Hst1].
    Qed.

    Lemma node_ifequal_m : forall st negated a b thenb elseb o st', tclean st ->
      ok_node_m (NIfequal negated a b thenb elseb) = true ->
      exec_node se globals (S f) st (NIfequal negated a b thenb elseb) = (o, Ok st') -> pieces o /\ tclean st'.
    Proof.
      intros st negated a b thenb elseb o st' Hst Hok H. node_start Hok H.
      apply andb_true_iff in Hok. destruct Hok as [Hth Hel].
      step_eval H x st1 E1 Hst1 Hx. step_eval H y st2 E2 Hst2 Hy.
      destruct (equal_value_to (vv x) (vv y)) as [eq|]; [|discriminate H].
      destruct (Bool.eqb eq (negb negated)).
      - exact (IHnodes _ _ _ _ Hst2 Hth H).
      - destruct elseb as [eb|]; [exact (IHnodes _ _ _ _ Hst2 Hel H)|inversion H; subst; split; [apply pc_nil|exact Hst2]].
    Qed.

    Lemma node_spaceless_m : forall st body o st', tclean st -> ok_node_m (NSpaceless body) = true ->
      exec_node se globals (S f) st (NSpaceless body) = (o, Ok st') -> pieces o /\ tclean st'.
    Proof. intros st body o st' Hst Hok H. rewrite ok_node_m_eq in Hok. discriminate Hok. Qed.

    Lemma node_widthratio_m : forall st cur mx width ctxname o st', tclean st ->
      exec_node se globals (S f) st (NWidthratio cur mx width ctxname) = (o, Ok st') -> pieces o /\ tclean st'.
    Proof.
      intros st cur mx width ctxname o st' Hst H. rewrite exec_node_S in H; cbv beta iota zeta in H.
      step_eval H c st1 E1 Hst1 Hc. step_eval H m st2 E2 Hst2 Hm. step_eval H w st3 E3 Hst3 Hw.
      destruct (to_float (vv c)); [|discriminate H].
      destruct (to_float (vv m)); [|discriminate H].
      destruct (to_float (vv w)); [|discriminate H].
      destruct ctxname as [|c0 cn].
      - inversion H; subst. split; [|exact Hst3]. apply pieces_inert. apply itoa_inert.
      - match type of H with context [set_priv st3 ?k ?cv] =>
          destruct (set_priv st3 k cv) as [st4| | | |] eqn:Es; try discriminate H end.
        inversion H; subst. split; [apply pc_nil|]. refine (tclean_m_set_priv _ _ _ _ _ _ Hst3 _ Es); left; reflexivity.
    Qed.

    Lemma node_ssi_m : forall st content tplo o st', tclean st -> ok_node_m (NSsi content tplo) = true ->
      exec_node se globals (S f) st (NSsi content tplo) = (o, Ok st') -> pieces o /\ tclean st'.
    Proof.
      intros st content tplo o st' Hst Hok H. node_start Hok H. destruct tplo as [t|].
      - step_top H st fr Et Hfr. refine (IHtplu _ _ _ _ _ Hst Hok _ H).
        apply ctx_m_update; [exact (frame_m_privs _ _ _ Hfr)|exact (frame_m_pubs _ _ _ Hfr)].
      - inversion H; subst. split; [exact (pieces_lit _ _ _ Hok (infix_refl _))|exact Hst].
    Qed.

    Lemma exec_node_step_m : forall st n o st', tclean st -> ok_node_m n = true ->
      exec_node se globals (S f) st n = (o, Ok st') -> pieces o /\ tclean st'.
    Proof.
      intros st n o st' Hst Hok H. destruct n.
      - exact (node_html_m _ _ _ _ _ _ _ _ _ Hst Hok H).
      - exact (node_var_m _ _ _ _ Hst Hok H).
      - rewrite ok_node_m_eq in Hok. rewrite exec_node_S in H. exact (IHif _ _ _ _ _ _ Hst Hok H).
      - exact (node_for_m _ _ _ _ _ _ _ _ _ _ Hst Hok H).
      - exact (node_with_m _ _ _ _ _ Hst Hok H).
      - exact (node_set_m _ _ _ _ _ Hst H).
      - exact (node_macro_m _ _ _ _ Hst Hok H).
      - exact (node_import_m _ _ _ _ Hst Hok H).
      - exact (node_block_m _ _ _ _ Hst H).
      - rewrite exec_node_S in H. done_nil H.
      - exact (node_include_m _ _ _ _ _ _ _ _ Hst Hok H).
      - rewrite exec_node_S in H. done_nil H.
      - exact (node_autoescape_m _ _ _ _ _ Hst Hok H).
      - exact (node_filtertag_m _ _ _ _ _ Hst Hok H).
      - rewrite ok_node_m_eq in Hok. rewrite exec_node_S in H. exact (IHfirst _ _ _ _ Hst Hok H).
      - exact (node_cycle_m _ _ _ _ _ _ _ Hst Hok H).
      - exact (node_ifchanged_m _ _ _ _ _ _ _ Hst Hok H).
      - exact (node_ifequal_m _ _ _ _ _ _ _ _ Hst Hok H).
      - exact (node_spaceless_m _ _ _ _ Hst Hok H).
      - rewrite ok_node_m_eq in Hok. rewrite exec_node_S in H. inversion H; subst.
        split; [exact (pieces_lit _ _ _ Hok (infix_refl _))|exact Hst].
      - exact (node_widthratio_m _ _ _ _ _ _ _ Hst H).
      - rewrite exec_node_S in H. done_nil H.
      - exact (node_ssi_m _ _ _ _ _ Hst Hok H).
      - rewrite exec_node_S in H. discriminate H.
    Qed.
  End StepM.

  (* ----- all fuels ----- *)
  Definition clean_inv_m (f : nat) : Prop :=
    (forall st e v st', tclean st -> eval se globals f st e = Ok (v, st') -> tclean st' /\ mark_pieces v) /\
    (forall st es vs st', tclean st -> eval_list se globals f st es = Ok (vs, st') ->
       tclean st' /\ True) /\
    (forall st v c r st', tclean st -> mark_pieces v ->
       apply_chain se globals f st v c = Ok (r, st') -> tclean st' /\ mark_pieces r) /\
    (forall st ps v st', tclean st -> resolve se globals f st ps = Ok (v, st') -> tclean st' /\ mark_pieces v) /\
    (forall st cur sf ps v st', tclean st -> mark_pieces (mkV cur sf) ->
       walk se globals f st cur sf ps = Ok (v, st') -> tclean st' /\ mark_pieces v) /\
    (forall st m fi args v st', tclean st -> ok_macro_m m = true ->
       call_macro se globals f st m fi args = Ok (v, st') -> tclean st' /\ mark_pieces v) /\
    (forall st ps r st', tclean st -> macro_defaults se globals f st ps = Ok (r, st') ->
       tclean st' /\ ctx_m r) /\
    (forall st fi ws v st', tclean st -> forallb (ok_nodes_m) ws = true ->
       call_super se globals f st fi ws = Ok (v, st') -> tclean st' /\ mark_pieces v) /\
    (forall st ns o st', tclean st -> ok_nodes_m ns = true ->
       exec_nodes se globals f st ns = (o, Ok st') -> pieces o /\ tclean st') /\
    (forall st n o st', tclean st -> ok_node_m n = true ->
       exec_node se globals f st n = (o, Ok st') -> pieces o /\ tclean st') /\
    (forall st cs ws i o st', tclean st -> forallb (ok_nodes_m) ws = true ->
       exec_if se globals f st cs ws i = (o, Ok st') -> pieces o /\ tclean st') /\
    (forall st k v p body its i c o st', tclean st -> ok_nodes_m body = true ->
       exec_for se globals f st k v p body its i c = (o, Ok st') -> pieces o /\ tclean st') /\
    (forall st args o st', tclean st -> none_safe args = true ->
       exec_firstof se globals f st args = (o, Ok st') -> pieces o /\ tclean st') /\
    (forall st ps r st', tclean st -> eval_pairs se globals f st ps = Ok (r, st') ->
       tclean st' /\ ctx_m r) /\
    (forall st v c r st', tclean st -> val_pieces (vv v) -> forallb tag_call_m c = true ->
       apply_tag_chain se globals f st v c = Ok (r, st') -> tclean st' /\ val_pieces (vv r)) /\
    (forall st t c o st', tclean st -> ok_template_m t = true -> ctx_m c ->
       exec_template se globals f st t c = (o, Ok st') -> pieces o /\ tclean st') /\
    (forall st t c o st', tclean st -> ok_template_m t = true -> ctx_m c ->
       exec_template_unbuffered se globals f st t c = (o, Ok st') -> pieces o /\ tclean st').

  Lemma clean_inv_all_m : forall f, clean_inv_m f.
  Proof.
    induction f as [|f IH].
    - unfold clean_inv_m. repeat split; intros; discriminate.
    - destruct IH as (I1 & I2 & I3 & I4 & I5 & I6 & I7 & I8 & I9 & I10 & I11 & I12 & I13 & I14 & I15 & I16 & I17).
      unfold clean_inv_m. repeat apply conj.
      + apply (eval_step_m f); assumption.
      + apply (eval_list_step_m f); assumption.
      + apply (apply_chain_step_m f); assumption.
      + apply (resolve_step_m f); assumption.
      + apply (walk_step_m f); assumption.
      + apply (call_macro_step_m f); assumption.
      + apply (macro_defaults_step_m f); assumption.
      + apply (call_super_step_m f); assumption.
      + apply (exec_nodes_step_m f); assumption.
      + apply (exec_node_step_m f); assumption.
      + apply (exec_if_step_m f); assumption.
      + apply (exec_for_step_m f); assumption.
      + apply (exec_firstof_step_m f); assumption.
      + apply (eval_pairs_step_m f); assumption.
      + apply (apply_tag_chain_step_m f); assumption.
      + apply (exec_template_step_m f); assumption.
      + apply (exec_template_unbuffered_step_m f); assumption.
  Qed.

  (* ----- projections ----- *)
  Lemma eval_clean_m : forall f st e v st',
    tclean st -> eval se globals f st e = Ok (v, st') -> tclean st' /\ mark_pieces v.
  Proof. intros f. apply (clean_inv_all_m f). Qed.

  Lemma call_macro_clean_m : forall f st m fi args v st',
    tclean st -> ok_macro_m m = true -> call_macro se globals f st m fi args = Ok (v, st') ->
    tclean st' /\ vsafe v = true /\ exists out, vv v = VStr out /\ pieces out.
  Proof.
    intros f st m fi args v st' Hst Hm H.
    destruct (clean_inv_all_m f) as (_ & _ & _ & _ & _ & I6 & _).
    destruct (I6 _ _ _ _ _ _ Hst Hm H) as [Hst' Hv]. split; [exact Hst'|].
    destruct f as [|f]; [discriminate H|]. rewrite call_macro_S in H. destruct m as [mname params body ex].
    cbv beta iota zeta in H. unfold xerr in H. repeat fwd1 H. inversion H; subst. split; [reflexivity|]. eexists. split; [reflexivity|]. destruct Hv as [Hv|Hv]; [discriminate Hv|exact Hv].
  Qed.

  Lemma exec_nodes_clean_m : forall f st ns o st',
    tclean st -> ok_nodes_m ns = true -> exec_nodes se globals f st ns = (o, Ok st') ->
    pieces o /\ tclean st'.
  Proof. intros f. apply (clean_inv_all_m f). Qed.

  Lemma exec_node_clean_m : forall f st n o st',
    tclean st -> ok_node_m n = true -> exec_node se globals f st n = (o, Ok st') ->
    pieces o /\ tclean st'.
  Proof. intros f. apply (clean_inv_all_m f). Qed.

  Lemma exec_template_clean_m : forall f st t ctx o st',
    tclean st -> ok_template_m t = true -> ctx_m ctx ->
    exec_template se globals f st t ctx = (o, Ok st') -> pieces o /\ tclean st'.
  Proof. intros f. apply (clean_inv_all_m f). Qed.

  Lemma exec_template_unbuffered_clean_m : forall f st t ctx o st',
    tclean st -> ok_template_m t = true -> ctx_m ctx ->
    exec_template_unbuffered se globals f st t ctx = (o, Ok st') -> pieces o /\ tclean st'.
  Proof. intros f. apply (clean_inv_all_m f). Qed.

  (* a fresh execution: no context on the stack yet *)
  Lemma render_clean_m : forall f nd g t ctx o st',
    ok_template_m t = true -> unmarked_ctx ctx = true ->
    exec_template_unbuffered se globals f (mkM [] nd g) t ctx = (o, Ok st') -> pieces o.
  Proof.
    intros f nd g t ctx o st' Ht Hc H.
    assert (H0 : tclean (mkM [] nd g)) by constructor.
    exact (proj1 (exec_template_unbuffered_clean_m _ _ _ _ _ _ H0 Ht (unmarked_ctx_m _ lz _ Hc) H)).
  Qed.
  Lemma render_buffered_clean_m : forall f nd g t ctx o st',
    ok_template_m t = true -> unmarked_ctx ctx = true ->
    exec_template se globals f (mkM [] nd g) t ctx = (o, Ok st') -> pieces o.
  Proof.
    intros f nd g t ctx o st' Ht Hc H.
    assert (H0 : tclean (mkM [] nd g)) by constructor.
    exact (proj1 (exec_template_clean_m _ _ _ _ _ _ H0 Ht (unmarked_ctx_m _ lz _ Hc) H)).
  Qed.
End CleanM.


Lemma run_template_pieces : forall lit lz w t g ctx o,
  (forall s, html_clean (filter_escape s) = true) ->
  (forall name x p r, str_in name markup_tag_filters = true -> val_pieces lit (vv x) ->
     apply_filter_se (world_senv w) name x p = Ok r -> val_pieces lit (vv r)) ->
  ctx_m lit lz (w_globals w) -> lazy_m lit lz (world_senv w) ->
  ok_template_m lit lz t = true -> unmarked_ctx ctx = true ->
  run_template w t g ctx = OOk o -> pieces lit o.
Proof.
  intros lit lz w t g ctx o Hesc Htag Hg Hl Ht Hc. unfold run_template.
  pose proof (render_clean_m (world_senv w) (w_globals w) lit lz Hesc Htag Hg Hl big_fuel [] g t ctx) as R.
  destruct (exec_template_unbuffered (world_senv w) (w_globals w) big_fuel (mkM [] [] g) t ctx) as [o1 [st1| | | |]];
    intros H; try discriminate H.
  inversion H; subst. exact (R _ _ Ht Hc eq_refl).
Qed.

Lemma lazy_m_static : forall lit se, lazy_m lit false se.
Proof. intros lit se H. discriminate H. Qed.

(* ----- what [pieces] gives ----- *)
Lemma infix_In : forall (b : N) l v, infix l v -> In b l -> In b v.
Proof. intros b l v (x & y & ->) H. apply in_or_app. right. apply in_or_app. left. exact H. Qed.

(* a byte that needs escaping and occurs in no literal text of the template does not occur in the output *)
Lemma pieces_no_foreign_byte : forall lit b o,
  dangerous b = true -> (forall val, lit val = true -> ~ In b val) -> pieces lit o -> ~ In b o.
Proof.
  intros lit b o Hb Hl Hp. induction Hp as [|l r (val & Hv & Hi) Hr IH|c r Hc Hr IH]; intros Hin.
  - destruct Hin.
  - apply in_app_or in Hin. destruct Hin as [Hin|Hin]; [|exact (IH Hin)].
    exact (Hl val Hv (infix_In _ _ _ Hi Hin)).
  - apply in_app_or in Hin. destruct Hin as [Hin|Hin]; [|exact (IH Hin)].
    unfold html_clean in Hc. apply andb_true_iff in Hc. destruct Hc as [Hc _].
    pose proof (forallb_In _ _ _ _ Hc Hin) as Hd. cbv beta in Hd. rewrite Hb in Hd. discriminate Hd.
Qed.

Lemma infix_forallb : forall (P : N -> bool) l v, infix l v -> forallb P v = true -> forallb P l = true.
Proof.
  intros P l v (x & y & ->) H. rewrite !forallb_app in H. apply andb_true_iff in H. destruct H as [_ H].
  apply andb_true_iff in H. apply H.
Qed.
(* when the literal texts need no escaping, [pieces] is escaped form: Part I's conclusion *)
Lemma pieces_inert_clean : forall lit o,
  (forall val, lit val = true -> forallb inert_byte val = true) -> pieces lit o -> html_clean o = true.
Proof.
  intros lit o Hl Hp. induction Hp as [|l r (val & Hv & Hi) Hr IH|c r Hc Hr IH]; [reflexivity| |].
  - apply html_clean_app; [|exact IH]. apply inert_clean. exact (infix_forallb _ _ _ Hi (Hl val Hv)).
  - apply html_clean_app; assumption.
Qed.
