(* Property C11, whole compilation: every entry the loaders' access log gains while a file is
   compiled is an attempt for a file name that is reachable from the entry file through
   literal include / extends / import / ssi references (Spec/SpecFetch.v).

   One induction on fuel over the functions of Section Compile in Model/ParseDoc.v (the pattern
   of ident_inv_all / blocks_inv_all in Proofs/Compose.v, whose one-step unfoldings and [crunch]
   are reused).  What is carried through the parse of ONE template with token list [all]:
     - the rest of the token list a parser function works on is a SUFFIX of [all]
       (so every "{%" tag-name string it can see is a triple of [all], i.e. a named name),
     - the parser state still carries the template's name and kind,
     - the log is the log at the start plus entries that are all attempts for names in R,
   where R is any set of file names closed under "the source held for p names n =>
   resolved_from p n" that contains the names [all] names; a nested compile_file starts the
   same argument for the nested template with the induction hypothesis. *)
From Coq Require Import List NArith ZArith Bool Lia Arith.
From PV Require Import Lib.Outcome Model.Lexer Model.ParseExpr Model.ParseDoc Model.Exec.
From PV Require Import Spec.SpecLoaders Spec.SpecFetch Proofs.Compose.
From PV Require Import gen.Tables.
Import ListNotations.
Open Scope N_scope.
Arguments fsloader_abs : simpl never.
Arguments path_clean : simpl never.

(* ------------------------------------------------------------------------------------ *)
(* suffixes                                                                              *)
(* ------------------------------------------------------------------------------------ *)
Definition suffix {A : Type} (r l : list A) : Prop := exists pre, l = pre ++ r.

Lemma suffix_refl : forall (A : Type) (l : list A), suffix l l.
Proof. intros A l. exists []. reflexivity. Qed.
Lemma suffix_trans : forall (A : Type) (a b c : list A), suffix a b -> suffix b c -> suffix a c.
Proof. intros A a b c [p ->] [q ->]. exists (q ++ p). rewrite app_assoc. reflexivity. Qed.
Lemma suffix_cons : forall (A : Type) (x : A) (l : list A), suffix l (x :: l).
Proof. intros A x l. exists [x]. reflexivity. Qed.
Lemma suffix_tail : forall (A : Type) (x : A) (r l : list A), suffix (x :: r) l -> suffix r l.
Proof. intros A x r l H. eapply suffix_trans; [apply suffix_cons|exact H]. Qed.
Lemma suffix_skipn : forall (A : Type) (k : nat) (l : list A), suffix (skipn k l) l.
Proof. intros A k l. exists (firstn k l). symmetry. apply firstn_skipn. Qed.

(* ------------------------------------------------------------------------------------ *)
(* the names a token list names                                                          *)
(* ------------------------------------------------------------------------------------ *)
Lemma names_in_tokens_app : forall pre r n,
  In n (names_in_tokens r) -> In n (names_in_tokens (pre ++ r)).
Proof.
  induction pre as [|t pre IH]; intros r n H; [exact H|].
  cbn [app names_in_tokens]. apply in_or_app. right. apply IH. exact H.
Qed.

Lemma names_suffix : forall (r all : list atok) n,
  suffix r all -> In n (names_in_tokens (toks_of r)) -> In n (names_in_tokens (toks_of all)).
Proof.
  intros r all n [pre ->] H. unfold toks_of. rewrite map_app. apply names_in_tokens_app. exact H.
Qed.

(* the tokens after a "{%" that is part of [all] *)
Lemma names_here_suffix : forall (a : atok) (r all : list atok) n,
  suffix (a :: r) all -> is_tag_open (a_tok a) = true ->
  In n (names_here (toks_of r)) -> In n (names_in_tokens (toks_of all)).
Proof.
  intros a r all n Hs Ho H. apply (names_suffix (a :: r) all n Hs).
  unfold toks_of. cbn [map names_in_tokens]. rewrite Ho. apply in_or_app. left. exact H.
Qed.

(* ------------------------------------------------------------------------------------ *)
(* the token-skipping helpers return suffixes                                            *)
(* ------------------------------------------------------------------------------------ *)
Lemma end_args_suffix : forall ts acc args r, end_args ts acc = Ok (args, r) -> suffix r ts.
Proof.
  induction ts as [|a ts IH]; intros acc args r H; cbn [end_args] in H; [discriminate H|].
  destruct (a_is_sym a [37; 125]).
  - injection H as _ <-. apply suffix_cons.
  - eapply suffix_trans; [eapply IH; exact H|apply suffix_cons].
Qed.

Lemma skip_to_close_suffix : forall ts r, skip_to_close ts = Ok r -> suffix r ts.
Proof.
  induction ts as [|a ts IH]; intros r H; cbn [skip_to_close] in H; [discriminate H|].
  destruct (a_is_sym a [37; 125]).
  - injection H as <-. apply suffix_cons.
  - destruct ts as [|b ts']; [discriminate H|].
    eapply suffix_trans; [apply IH; exact H|apply suffix_cons].
Qed.

Lemma skip_until_suffix : forall names ts r, skip_until names ts = Ok r -> suffix r ts.
Proof.
  intros names. induction ts as [|a ts IH]; intros r H; cbn [skip_until] in H; [discriminate H|].
  assert (Hrec : skip_until names ts = Ok r -> suffix r (a :: ts)).
  { intros H'. eapply suffix_trans; [apply IH; exact H'|apply suffix_cons]. }
  destruct (a_is_sym a [123; 37]); [|exact (Hrec H)].
  destruct ts as [|b ts']; [exact (Hrec H)|].
  destruct (a_is_ident b && str_in (tval (a_tok b)) names); [|exact (Hrec H)].
  apply skip_to_close_suffix in H.
  eapply suffix_trans; [exact H|]. eapply suffix_trans; apply suffix_cons.
Qed.

Lemma collect_args_shape : forall l acc args body,
  collect_args l acc = Some (args, body) ->
  suffix body l /\ exists more, args = rev acc ++ more /\
    match more with
    | [] => True
    | c :: _ => exists x l', l = x :: l' /\ a_tok x = c
    end.
Proof.
  induction l as [|x l IH]; intros acc args body H; cbn [collect_args] in H; [discriminate H|].
  destruct (a_is_sym x [37; 125]).
  - injection H as <- <-. split; [apply suffix_cons|]. exists []. rewrite app_nil_r. split; [reflexivity|exact I].
  - apply IH in H. destruct H as [Hs [more [-> _]]].
    split; [eapply suffix_trans; [exact Hs|apply suffix_cons]|].
    exists (a_tok x :: more). cbn [rev]. rewrite <- app_assoc. split; [reflexivity|].
    exists x, l. split; reflexivity.
Qed.

(* the first argument of a tag is the token right after the tag name *)
Lemma collect_args_first_string : forall l args body fname rest,
  collect_args l [] = Some (args, body) -> match_string args = Some (fname, rest) ->
  exists x l', l = x :: l' /\ is_typ (a_tok x) TString = true /\ tval (a_tok x) = fname.
Proof.
  intros l args body fname rest Hc Hm. apply collect_args_shape in Hc.
  destruct Hc as [_ [more [-> Hmore]]]. cbn [rev app] in Hm.
  destruct more as [|c more]; [discriminate Hm|]. destruct Hmore as [x [l' [-> Hx]]].
  exists x, l'. split; [reflexivity|]. cbn [match_string] in Hm. rewrite Hx.
  destruct (is_typ c TString); [|discriminate Hm]. injection Hm as <- _. split; reflexivity.
Qed.

(* ------------------------------------------------------------------------------------ *)
(* the source the loaders hold for a name is what a fetch returns                        *)
(* ------------------------------------------------------------------------------------ *)
Lemma resolve_template_first_holding : forall ls idx path g,
  fst (resolve_template ls idx path g) = first_holding ls (loader_name path).
Proof.
  unfold loader_name. induction ls as [|l rest IH]; intros idx path g; cbn [resolve_template first_holding].
  - reflexivity.
  - destruct (assoc_get (fsloader_abs [] path) (l_files l)) as [c|]; [reflexivity|apply IH].
Qed.

Lemma attempts_names : forall name ls idx e, In e (attempts name idx ls) -> attempt_name e = name.
Proof.
  intros name. induction ls as [|l rest IH]; intros idx e H; cbn [attempts] in H; [destruct H|].
  destruct (loader_has name l).
  - destruct H as [<-|[]]. reflexivity.
  - destruct H as [<-|H]; [reflexivity|]. exact (IH _ _ H).
Qed.

(* ------------------------------------------------------------------------------------ *)
(* the tag table: only the four tag names lead to the four fetching parsers              *)
(* ------------------------------------------------------------------------------------ *)
Definition fetch_impls : list str :=
  [ [116; 97; 103; 69; 120; 116; 101; 110; 100; 115; 80; 97; 114; 115; 101; 114] (* tagExtendsParser *);
    [116; 97; 103; 73; 109; 112; 111; 114; 116; 80; 97; 114; 115; 101; 114] (* tagImportParser *);
    [116; 97; 103; 73; 110; 99; 108; 117; 100; 101; 80; 97; 114; 115; 101; 114] (* tagIncludeParser *);
    [116; 97; 103; 83; 83; 73; 80; 97; 114; 115; 101; 114] (* tagSSIParser *) ].

(* decidable side condition on the generated table gen/Tables.v tag_impl: an entry whose
   implementation is one of the four fetching parsers is registered under one of the four names *)
Definition fetch_tags_ok (tbl : list (str * str)) : bool :=
  forallb (fun kv => implb (str_in (snd kv) fetch_impls) (str_in (fst kv) ref_tags)) tbl.

Lemma fetch_tags_ok_spec : forall tbl name impl,
  fetch_tags_ok tbl = true -> assoc_get name tbl = Some impl ->
  str_in impl fetch_impls = true -> str_in name ref_tags = true.
Proof.
  unfold fetch_tags_ok. induction tbl as [|[k v] tbl IH]; intros name impl Hok Hget Himpl;
    cbn [assoc_get] in Hget; [discriminate Hget|].
  cbn [forallb fst snd] in Hok. apply andb_prop in Hok. destruct Hok as [Hkv Hrest].
  destruct (str_eqb name k) eqn:Ek.
  - injection Hget as ->. apply cstr_eqb_eq in Ek. subst k. rewrite Himpl in Hkv. exact Hkv.
  - exact (IH name impl Hrest Hget Himpl).
Qed.

Lemma tag_head_named : forall tbl nm r args body impl fname rest,
  fetch_tags_ok tbl = true ->
  a_is_ident nm = true -> assoc_get (tval (a_tok nm)) tbl = Some impl ->
  str_in impl fetch_impls = true ->
  collect_args r [] = Some (args, body) -> match_string args = Some (fname, rest) ->
  In fname (names_here (toks_of (nm :: r))).
Proof.
  intros tbl nm r args body impl fname rest Hok Hid Hget Himpl Hc Hm.
  destruct (collect_args_first_string _ _ _ _ _ Hc Hm) as [x [l' [-> [Hs <-]]]].
  unfold toks_of. cbn [map names_here]. unfold a_is_ident in Hid. rewrite Hid, Hs.
  rewrite (fetch_tags_ok_spec _ _ _ Hok Hget Himpl). left. reflexivity.
Qed.

(* ------------------------------------------------------------------------------------ *)
(* the invariant                                                                         *)
(* ------------------------------------------------------------------------------------ *)
Section FetchInv.
  Variable se : senv.
  (* a set of file names closed under literal references *)
  Variable R : str -> Prop.
  Hypothesis R_closed : forall p src n,
    R p -> source_of se p = Some src -> In n (names_in_source src) -> R (resolved_from p n).
  Hypothesis Htab : fetch_tags_ok tag_impl = true.

  Definition ok_ent (e : logent) : Prop := exists p, R p /\ attempt_for p e.
  Definition log_ext (g g' : gstate) : Prop := exists added, log_added g g' added /\ Forall ok_ent added.

  Lemma log_ext_refl : forall g, log_ext g g.
  Proof. intros g. exists []. split; [reflexivity|constructor]. Qed.
  Lemma log_ext_trans : forall a b c, log_ext a b -> log_ext b c -> log_ext a c.
  Proof.
    intros a b c [x [Hx Fx]] [y [Hy Fy]]. exists (y ++ x). unfold log_added in *. split.
    - rewrite Hy, Hx. apply app_assoc.
    - apply Forall_app. split; assumption.
  Qed.
  Lemma log_ext_same_log : forall g g', g_log g' = g_log g -> log_ext g g'.
  Proof. intros g g' H. exists []. split; [exact H|constructor]. Qed.

  (* one fetch of a name in R *)
  Lemma log_ext_resolve : forall ls idx path g,
    R path -> log_ext g (snd (resolve_template ls idx path g)).
  Proof.
    intros ls idx path g HR. destruct (resolve_template_attempts ls idx path g) as [H _].
    exists (rev (attempts (loader_name path) idx ls)). split; [exact H|].
    apply Forall_forall. intros e He. apply in_rev in He. apply attempts_names in He.
    exists path. split; [exact HR|exact He].
  Qed.
  Lemma log_ext_misses : forall ls path g, R path -> log_ext g (log_misses ls path g).
  Proof. intros ls path g HR. unfold log_misses. apply log_ext_resolve. exact HR. Qed.

  (* facts about the parser state of ONE template: its kind, its name, the log so far *)
  Definition sinv (isstr : bool) (tname : str) (g0 : gstate) (st : pst) : Prop :=
    t_isstr (fst st) = isstr /\ t_name (fst st) = tname /\ log_ext g0 (snd st).
  Definition names_ok (isstr : bool) (tname : str) (all : list atok) : Prop :=
    forall n, In n (names_in_tokens (toks_of all)) -> R (resolve_filename isstr tname n).

  Lemma sinv_fresh : forall isstr tname g0 t g id g',
    sinv isstr tname g0 (t, g) -> g_fresh g = (id, g') -> sinv isstr tname g0 (t, g').
  Proof.
    intros isstr tname g0 t g id g' [H1 [H2 H3]] Hf. unfold g_fresh in Hf. injection Hf as _ <-.
    repeat split; [exact H1|exact H2|]. cbn [snd] in *.
    eapply log_ext_trans; [exact H3|]. apply log_ext_same_log. reflexivity.
  Qed.
  Lemma sinv_log : forall isstr tname g0 t g t' g',
    sinv isstr tname g0 (t, g) -> t_isstr t' = t_isstr t -> t_name t' = t_name t -> log_ext g g' ->
    sinv isstr tname g0 (t', g').
  Proof.
    intros isstr tname g0 t g t' g' [H1 [H2 H3]] E1 E2 HL. cbn [fst snd] in *.
    repeat split; cbn [fst snd]; [congruence|congruence|]. eapply log_ext_trans; eassumption.
  Qed.

  (* the first argument of a fetching tag, when it is a string, names a file in R *)
  Definition args_ok (isstr : bool) (tname impl : str) (args : list token) : Prop :=
    str_in impl fetch_impls = true -> forall fname rest,
      match_string args = Some (fname, rest) -> R (resolve_filename isstr tname fname).

  Definition fetch_inv (f : nat) : Prop :=
    (forall isstr tname g0 all, names_ok isstr tname all ->
       forall level st ts n r st', suffix ts all -> sinv isstr tname g0 st ->
       parse_elem se f level st ts = Ok (n, r, st') -> suffix r all /\ sinv isstr tname g0 st') /\
    (forall isstr tname g0 all, names_ok isstr tname all ->
       forall level names st ts ns nm args r st', suffix ts all -> sinv isstr tname g0 st ->
       wrap_until se f level names st ts = Ok (ns, nm, args, r, st') ->
       suffix r all /\ sinv isstr tname g0 st') /\
    (forall isstr tname g0 all, names_ok isstr tname all ->
       forall level st ts n r st', suffix ts all -> sinv isstr tname g0 st ->
       (forall x, In x (names_here (toks_of ts)) -> R (resolve_filename isstr tname x)) ->
       parse_tag se f level st ts = Ok (n, r, st') -> suffix r all /\ sinv isstr tname g0 st') /\
    (forall isstr tname g0 all, names_ok isstr tname all ->
       forall level impl args st ts n r st', suffix ts all -> sinv isstr tname g0 st ->
       args_ok isstr tname impl args ->
       tag_parser se f level impl args st ts = Ok (n, r, st') ->
       suffix r all /\ sinv isstr tname g0 st') /\
    (forall isstr tname g0 all, names_ok isstr tname all ->
       forall level conds ws st ts cs ws' r st', suffix ts all -> sinv isstr tname g0 st ->
       if_branches se f level conds ws st ts = Ok (cs, ws', r, st') ->
       suffix r all /\ sinv isstr tname g0 st') /\
    (forall isstr tname g0 all, names_ok isstr tname all ->
       forall st ts ns st', suffix ts all -> sinv isstr tname g0 st ->
       parse_doc se f st ts = Ok (ns, st') -> sinv isstr tname g0 st') /\
    (forall name isstr src g t g',
       (forall n, In n (names_in_source src) -> R (resolve_filename isstr name n)) ->
       compile_src se f name isstr src g = Ok (t, g') -> log_ext g g') /\
    (forall path g t g', R path -> compile_file se f path g = Ok (t, g') -> log_ext g g').

  (* ---- tactics ---- *)
  (* saturate the suffix facts that follow from the helper functions *)
  Ltac have_suffix r all := lazymatch goal with _ : suffix r all |- _ => fail | _ => idtac end.
  Ltac sfwd1 :=
    match goal with
    | S : suffix (_ :: ?r) ?all |- _ =>
        have_suffix r all; pose proof (suffix_tail _ _ _ _ S)
    | S : suffix ?l ?all, E : end_args ?l _ = Ok (_, ?r) |- _ =>
        have_suffix r all; pose proof (suffix_trans _ _ _ _ (end_args_suffix _ _ _ _ E) S)
    | S : suffix ?l ?all, E : skip_until _ ?l = Ok ?r |- _ =>
        have_suffix r all; pose proof (suffix_trans _ _ _ _ (skip_until_suffix _ _ _ E) S)
    | S : suffix ?l ?all, E : collect_args ?l [] = Some (_, ?r) |- _ =>
        have_suffix r all; pose proof (suffix_trans _ _ _ _ (proj1 (collect_args_shape _ _ _ _ E)) S)
    | S : suffix ?l ?all, E : resync ?l _ _ = ?r |- _ =>
        have_suffix r all;
        let S' := fresh "S" in
        assert (S' : suffix r all)
          by (eapply suffix_trans; [|exact S]; rewrite <- E; unfold resync; apply suffix_skipn)
    | I : sinv ?i ?tn ?g0 (?t, ?g), Hf : g_fresh ?g = (_, ?g') |- _ =>
        pose proof (sinv_fresh _ _ _ _ _ _ _ I Hf); clear Hf
    end.

  Ltac ih1 Helem Hwrap Hif Hdoc :=
    match goal with
    | E : parse_elem se _ _ ?st ?ts = Ok _, S : suffix ?ts ?all, I : sinv ?i ?tn _ ?st, Hall : names_ok ?i ?tn ?all |- _ =>
        apply (Helem _ _ _ _ Hall _ _ _ _ _ _ S I) in E; destruct E as [? ?]
    | E : wrap_until se _ _ _ ?st ?ts = Ok _, S : suffix ?ts ?all, I : sinv ?i ?tn _ ?st, Hall : names_ok ?i ?tn ?all |- _ =>
        apply (Hwrap _ _ _ _ Hall _ _ _ _ _ _ _ _ _ S I) in E; destruct E as [? ?]
    | E : if_branches se _ _ _ _ ?st ?ts = Ok _, S : suffix ?ts ?all, I : sinv ?i ?tn _ ?st, Hall : names_ok ?i ?tn ?all |- _ =>
        apply (Hif _ _ _ _ Hall _ _ _ _ _ _ _ _ _ S I) in E; destruct E as [? ?]
    | E : parse_doc se _ ?st ?ts = Ok _, S : suffix ?ts ?all, I : sinv ?i ?tn _ ?st, Hall : names_ok ?i ?tn ?all |- _ =>
        apply (Hdoc _ _ _ _ Hall _ _ _ _ S I) in E
    end.
  Ltac fwd Helem Hwrap Hif Hdoc := repeat first [ sfwd1 | ih1 Helem Hwrap Hif Hdoc ].

  Ltac finish :=
    match goal with H : Ok _ = Ok _ |- _ => injection H as <- <- <- end ||
    match goal with H : Ok _ = Ok _ |- _ => injection H as <- <- <- <- end ||
    match goal with H : Ok _ = Ok _ |- _ => injection H as <- <- <- <- <- end ||
    match goal with H : Ok _ = Ok _ |- _ => injection H as <- <- end.

  (* a state that differs from a known one only in what the tag parsers write *)
  Ltac sinv_leaf :=
    first [ assumption
          | match goal with
            | I : sinv ?i ?tn ?g0 (?t, ?g) |- sinv ?i ?tn ?g0 (_, ?g) =>
                apply (sinv_log _ _ _ _ _ _ _ I); [reflexivity|reflexivity|apply log_ext_refl]
            end ].
  Ltac leaf := split; [assumption|sinv_leaf].

  Lemma fetch_inv_all : forall f, fetch_inv f.
  Proof.
    induction f as [|f [Helem [Hwrap [Htag [Htp [Hif [Hdoc [Hsrc Hfile]]]]]]]].
    - repeat split; intros; discriminate.
    - unfold fetch_inv. split; [|split; [|split; [|split; [|split; [|split; [|split]]]]]].
      + intros isstr tname g0 all Hall level st ts n r st' S I H.
        rewrite parse_elem_unfold in H. cbv zeta in H.
        crunch H; try finish; fwd Helem Hwrap Hif Hdoc; try leaf.
        apply (Htag _ _ _ _ Hall _ _ _ _ _ _ ltac:(eassumption) I) in H; [exact H|].
        intros x Hx. apply Hall. eapply names_here_suffix; [exact S| |exact Hx].
        unfold is_tag_open, is_sym.
        match goal with E : ttyp _ = TSymbol |- _ => rewrite E end. assumption.
      + intros isstr tname g0 all Hall level names st ts ns nm args r st' S I H.
        rewrite wrap_until_unfold in H. destruct ts as [|a l]; [discriminate H|]. cbv zeta in H.
        crunch H; try finish; subst; fwd Helem Hwrap Hif Hdoc; try leaf.
        (* the stop case: the rest starts after the end tag's name *)
        match goal with Hstop : (if a_is_sym a ?s then _ else None) = Some _ |- _ =>
          destruct (a_is_sym a s); [|discriminate Hstop];
          destruct l as [|b l']; [discriminate Hstop|];
          destruct (a_is_ident b && str_in (tval (a_tok b)) names); [|discriminate Hstop];
          injection Hstop as <- <-
        end.
        fwd Helem Hwrap Hif Hdoc. leaf.
      + intros isstr tname g0 all Hall level st ts n r st' S I Hhead H.
        destruct ts as [|nm l]; [discriminate H|]. rewrite parse_tag_S in H. cbv zeta in H.
        crunch H; fwd Helem Hwrap Hif Hdoc.
        match goal with
        | Hc : collect_args l [] = Some (?args, ?body), Hg : assoc_get _ tag_impl = Some ?impl,
          Hi : negb (a_is_ident nm) = false, Sb : suffix ?body all |- _ =>
            apply (Htp _ _ _ _ Hall _ _ _ _ _ _ _ _ Sb I) in H; [exact H|];
            intros Himpl fname rest Hm; apply Hhead;
            apply negb_false_iff in Hi;
            exact (tag_head_named _ _ _ _ _ _ _ _ Htab Hi Hg Himpl Hc Hm)
        end.
      + intros isstr tname g0 all Hall level impl args st ts n r st' S I Hargs H.
        rewrite tag_parser_unfold in H. cbv zeta in H.
        crunch H; try finish; subst; fwd Helem Hwrap Hif Hdoc; try leaf.
        (* what is left are the fetching tags; the name they read is in R *)
        all: assert (HR : forall fname rest, match_string args = Some (fname, rest) ->
                          R (resolve_filename isstr tname fname))
          by (intros fname rest Hm; apply (fun h => Hargs h fname rest Hm);
              match goal with Ht : tag_is _ _ = true |- _ => unfold tag_is in Ht;
                unfold str_in, fetch_impls; cbn [existsb]; rewrite Ht end;
              rewrite ?orb_true_r; reflexivity).
        all: pose proof I as [Hi [Hn _]]; cbn [fst] in Hi, Hn.
        all: (split; [assumption|]).
        (* extends, import, include (found / if_exists), ssi parsed: a nested compile_file *)
        all: try (eapply sinv_log; [exact I|reflexivity|reflexivity|];
                  first [ eapply Hfile; [|eassumption]; rewrite Hi, Hn; eapply HR; eassumption
                        | apply log_ext_misses; rewrite Hi, Hn; eapply HR; eassumption ]).
        (* ssi of a plain file: one fetch *)
        match goal with
        | Hp : resolve_template ?ls ?i ?path ?g = (_, ?g1) |- _ =>
            eapply sinv_log; [exact I|reflexivity|reflexivity|];
            replace g1 with (snd (resolve_template ls i path g)) by (rewrite Hp; reflexivity);
            apply log_ext_resolve
        end.
        rewrite Hi, Hn.
        match goal with Hm : match_string args = Some _ |- _ => exact (HR _ _ Hm) end.
      + intros isstr tname g0 all Hall level conds ws st ts cs ws' r st' S I H.
        rewrite if_branches_unfold in H. cbv zeta in H.
        crunch H; try finish; subst; fwd Helem Hwrap Hif Hdoc; try leaf.
      + intros isstr tname g0 all Hall st ts ns st' S I H.
        rewrite parse_doc_unfold in H. cbv zeta in H.
        crunch H; try finish; subst; fwd Helem Hwrap Hif Hdoc; try assumption.
      + intros name isstr src g t g' Hnames H.
        rewrite compile_src_unfold in H. crunch H.
        match goal with H : Ok _ = Ok _ |- _ => injection H as <- <- end.
        match goal with E : parse_doc se f (?tst, ?g1) (annotate None ?toks) = Ok _ |- _ =>
          apply (Hdoc isstr name g (annotate None toks)) in E
        end.
        * destruct E as [_ [_ E]]. exact E.
        * intros nx Hx. apply Hnames. unfold names_in_source.
          match goal with Hl : lex src = LexOk _ |- _ => rewrite Hl end.
          unfold toks_of in Hx. rewrite annotate_toks in Hx. exact Hx.
        * apply suffix_refl.
        * match goal with Hf : g_fresh g = _ |- _ => unfold g_fresh in Hf; injection Hf as <- <- end.
          repeat split. apply log_ext_same_log. reflexivity.
      + intros path g t g' HR H.
        rewrite compile_file_unfold in H. crunch H.
        match goal with Hf : fetch se path g = Ok (?c, ?g1) |- _ =>
          rewrite fetch_spec in Hf;
          destruct (fst (resolve_template (se_loaders se) 0 path g)) as [c0|] eqn:Hfst; [|discriminate Hf];
          injection Hf as -> <-
        end.
        eapply log_ext_trans; [apply log_ext_resolve; exact HR|].
        eapply Hsrc; [|eassumption].
        intros n Hn. eapply (R_closed path); [exact HR| |exact Hn].
        unfold source_of. rewrite <- (resolve_template_first_holding _ 0%nat path g). exact Hfst.
  Qed.

  (* ---- what the induction gives, for any closed set R ---- *)
  Lemma compile_file_log_in : forall fuel path g t g',
    R path -> compile_file se fuel path g = Ok (t, g') -> log_ext g g'.
  Proof.
    intros fuel path g t g'. destruct (fetch_inv_all fuel) as [_ [_ [_ [_ [_ [_ [_ H]]]]]]]. apply H.
  Qed.
  Lemma compile_src_log_in : forall fuel name isstr src g t g',
    (forall n, In n (names_in_source src) -> R (resolve_filename isstr name n)) ->
    compile_src se fuel name isstr src g = Ok (t, g') -> log_ext g g'.
  Proof.
    intros fuel name isstr src g t g'. destruct (fetch_inv_all fuel) as [_ [_ [_ [_ [_ [_ [H _]]]]]]]. apply H.
  Qed.
  (* one level: parsing ONE template's tokens (the nested compilations included) *)
  Lemma parse_doc_log_in : forall fuel isstr tname st toks ns st',
    t_isstr (fst st) = isstr -> t_name (fst st) = tname ->
    (forall n, In n (names_in_tokens toks) -> R (resolve_filename isstr tname n)) ->
    parse_doc se fuel st (annotate None toks) = Ok (ns, st') -> log_ext (snd st) (snd st').
  Proof.
    intros fuel isstr tname st toks ns st' Hi Hn Hnames H.
    destruct (fetch_inv_all fuel) as [_ [_ [_ [_ [_ [Hdoc _]]]]]].
    apply (Hdoc isstr tname (snd st) (annotate None toks)) in H.
    - destruct H as [_ [_ H]]. exact H.
    - intros x Hx. apply Hnames. unfold toks_of in Hx. rewrite annotate_toks in Hx. exact Hx.
    - apply suffix_refl.
    - repeat split; [exact Hi|exact Hn|apply log_ext_refl].
  Qed.
End FetchInv.

(* ------------------------------------------------------------------------------------ *)
(* the theorems                                                                          *)
(* ------------------------------------------------------------------------------------ *)

(* compiling a file: every new log entry is an attempt for a name reachable from it *)
Lemma compile_fetches_only_referenced : fetch_tags_ok tag_impl = true ->
  forall se fuel name g t g',
  compile_file se fuel name g = Ok (t, g') ->
  exists added, log_added g g' added /\
    forall e, In e added -> exists p, reach se name p /\ attempt_for p e.
Proof.
  intros Htab se fuel name g t g' H.
  destruct (compile_file_log_in se (reach se name) (reach_ref se name) Htab fuel name g t g'
              (reach_entry se name) H) as [added [Ha Hf]].
  exists added. split; [exact Ha|]. intros e He. exact (proj1 (Forall_forall _ _) Hf e He).
Qed.

(* compiling a source under any name (a string template when isstr = true): every new log
   entry is an attempt for a name reachable from one of the files the source itself names *)
Lemma compile_src_fetches_only_referenced : fetch_tags_ok tag_impl = true ->
  forall se fuel name isstr src g t g',
  compile_src se fuel name isstr src g = Ok (t, g') ->
  exists added, log_added g g' added /\
    forall e, In e added ->
      exists n p, In n (names_in_source src) /\
                  reach se (resolve_filename isstr name n) p /\ attempt_for p e.
Proof.
  intros Htab se fuel name isstr src g t g' H.
  pose (R := fun p => exists n, In n (names_in_source src) /\ reach se (resolve_filename isstr name n) p).
  assert (Hc : forall p s n, R p -> source_of se p = Some s -> In n (names_in_source s) ->
                             R (resolved_from p n)).
  { intros p s n [n0 [Hn0 Hr]] Hs Hn. exists n0. split; [exact Hn0|]. eapply reach_ref; eassumption. }
  destruct (compile_src_log_in se R Hc Htab fuel name isstr src g t g') as [added [Ha Hf]].
  - intros n Hn. exists n. split; [exact Hn|apply reach_entry].
  - exact H.
  - exists added. split; [exact Ha|]. intros e He.
    destruct (proj1 (Forall_forall _ _) Hf e He) as [p [[n [Hn Hr]] Hp]].
    exists n, p. repeat split; assumption.
Qed.

(* a set closed under literal references that contains the entry contains everything fetched
   (the form that is convenient for a concrete, finite world) *)
Lemma compile_fetches_within_closed_set : fetch_tags_ok tag_impl = true ->
  forall se (S : str -> Prop),
  (forall p src n, S p -> source_of se p = Some src -> In n (names_in_source src) -> S (resolved_from p n)) ->
  forall fuel name g t g', S name ->
  compile_file se fuel name g = Ok (t, g') ->
  exists added, log_added g g' added /\ forall e, In e added -> exists p, S p /\ attempt_for p e.
Proof.
  intros Htab se S Hc fuel name g t g' Hn H.
  destruct (compile_file_log_in se S Hc Htab fuel name g t g' Hn H) as [added [Ha Hf]].
  exists added. split; [exact Ha|]. intros e He. exact (proj1 (Forall_forall _ _) Hf e He).
Qed.

(* a file whose source names nothing: compiling it asks the loaders, in order, for its own
   name until one has it, and for nothing else *)
Lemma compile_leaf_fetches_itself : fetch_tags_ok tag_impl = true ->
  forall se fuel name g t g' src,
  source_of se name = Some src -> names_in_source src = [] ->
  compile_file se fuel name g = Ok (t, g') ->
  log_added g g' (rev (attempts (loader_name name) 0 (se_loaders se))).
Proof.
  intros Htab se fuel name g t g' src Hs Hnone H.
  destruct fuel as [|f]; [discriminate H|].
  rewrite compile_file_unfold, fetch_spec in H.
  unfold source_of in Hs. rewrite <- (resolve_template_first_holding _ 0%nat name g) in Hs.
  rewrite Hs in H. cbn [bind] in H.
  destruct (compile_src_log_in se (fun _ => False) (fun p s n (F : False) _ _ => F) Htab
              f name false src (snd (resolve_template (se_loaders se) 0 name g)) t g') as [added [Ha Hf]].
  - intros n Hn. rewrite Hnone in Hn. destruct Hn.
  - exact H.
  - destruct added as [|e added].
    + unfold log_added in *. cbn [app] in Ha. rewrite Ha.
      exact (proj1 (resolve_template_attempts (se_loaders se) 0%nat name g)).
    + inversion Hf as [|? ? [p [[] _]] _].
Qed.

(* the level-by-level computation of the reachable set is the inductive set *)
Lemma reach_upto_sound : forall se entry k p, In p (reach_upto se k entry) -> reach se entry p.
Proof.
  intros se entry. induction k as [|k IH]; intros p H; cbn [reach_upto] in H.
  - destruct H as [<-|[]]. apply reach_entry.
  - apply in_app_or in H. destruct H as [H|H]; [exact (IH p H)|].
    apply in_flat_map in H. destruct H as [q [Hq Hp]]. unfold refs_of in Hp.
    destruct (source_of se q) as [src|] eqn:Hs; [|destruct Hp].
    apply in_map_iff in Hp. destruct Hp as [n [<- Hn]].
    eapply reach_ref; [exact (IH q Hq)|exact Hs|exact Hn].
Qed.
Lemma reach_upto_complete : forall se entry p, reach se entry p -> exists k, In p (reach_upto se k entry).
Proof.
  intros se entry p H. induction H as [|q src n Hq [k IH] Hs Hn].
  - exists 0%nat. left. reflexivity.
  - exists (S k). cbn [reach_upto]. apply in_or_app. right. apply in_flat_map. exists q. split; [exact IH|].
    unfold refs_of. rewrite Hs. apply in_map. exact Hn.
Qed.
