(* Lemmas and the proof scripts for the tie of the translated loader lookup (gen/LoaderFuncs.v,
   interpreted by Spec/SpecLoaderFuncs.v) to the hand-written lookup of Model/ParseDoc.v.

   - [ask_all] (ask every loader for one given name) against the model's resolve_template, fetch,
     served and log_misses, which ask for the ROOT NAME of the path they are given; [ask_each]
     (every loader is asked for a name of its own) with one name for all is [ask_all];
   - unfolding equations of the interpretation (call levels, the loop over the loaders);
   - [loaders_loop_search]: a loop over the loaders every turn of which asks the loader for its
     name, returns at a hit and goes on after a miss, is [ask_each];
   - the scripts Tie/C11w.v runs on every regenerated term: evaluate the interpretation (the
     loaders' Abs and Get, the lookups, the compile primitive stay folded), split on what is left,
     compare. *)
From PV Require Import Model.ParseDoc Lib.GoStmt Spec.SpecLoaders Spec.SpecLoaderFuncs Proofs.Compose.
From Coq Require Import String Lia.
Open Scope string_scope.

(* ---------- ask_all and the model's lookup ---------- *)
(* the model's lookup of [path] asks every loader for the root name of [path] *)
Lemma resolve_template_ask_all : forall ls idx path g,
  resolve_template ls idx path g =
  (content_of (fst (ask_all ls idx (root_name path) g)), snd (ask_all ls idx (root_name path) g)).
Proof.
  unfold root_name. induction ls as [|l rest IH]; intros idx path g; cbn [resolve_template ask_all].
  - reflexivity.
  - destruct (assoc_get (fsloader_abs [] path) (l_files l)) as [c|]; [reflexivity|apply IH].
Qed.

(* every loader asked for the same name *)
Lemma ask_each_const : forall name ls idx g, ask_each (fun _ _ => name) ls idx g = ask_all ls idx name g.
Proof.
  intros name. induction ls as [|l rest IH]; intros idx g; cbn [ask_each ask_all]; [reflexivity|].
  destruct (assoc_get name (l_files l)); [reflexivity|apply IH].
Qed.

Lemma root_name_loader_name : forall p, root_name p = loader_name p.
Proof. reflexivity. Qed.

(* nobody has the name: the answer is none, and conversely *)
Lemma ask_all_none_iff : forall ls idx name g,
  fst (ask_all ls idx name g) = None <-> (forall l, In l ls -> assoc_get name (l_files l) = None).
Proof.
  induction ls as [|l rest IH]; intros idx name g; cbn [ask_all].
  - split; [intros _ x []|reflexivity].
  - destruct (assoc_get name (l_files l)) as [c|] eqn:E.
    + cbn [fst]. split; [discriminate|]. intros H. rewrite (H l (or_introl eq_refl)) in E. discriminate.
    + rewrite IH. split.
      * intros H x [<-|Hx]; [exact E|auto].
      * intros H x Hx. apply H. right. exact Hx.
Qed.

(* the first loader, in list order, that has the name answers *)
Lemma ask_all_first : forall pre l post idx name g c,
  (forall x, In x pre -> assoc_get name (l_files x) = None) ->
  assoc_get name (l_files l) = Some c ->
  fst (ask_all (pre ++ l :: post) idx name g) = Some ((idx + List.length pre)%nat, l, c).
Proof.
  induction pre as [|x pre IH]; intros l post idx name g c Hpre Hl; cbn [app ask_all List.length].
  - rewrite Hl. cbn [fst]. rewrite Nat.add_0_r. reflexivity.
  - rewrite (Hpre x (or_introl eq_refl)). rewrite (IH l post (S idx) name _ c); [|intros y Hy; apply Hpre; right; exact Hy|exact Hl].
    do 3 f_equal. lia.
Qed.

(* the log of a lookup that nobody answers does not depend on what the loaders hold *)
Lemma ask_all_none_log : forall ls idx name g,
  fst (ask_all ls idx name g) = None ->
  snd (ask_all ls idx name g) = snd (ask_all (map (fun _ => mkLoader []) ls) idx name g).
Proof.
  induction ls as [|l rest IH]; intros idx name g H; cbn [ask_all map] in *.
  - reflexivity.
  - destruct (assoc_get name (l_files l)) as [c|]; [discriminate H|].
    cbn [l_files assoc_get]. apply IH. exact H.
Qed.

(* the model's [served] and [log_misses], through ask_all *)
Lemma served_ask_all : forall ls path g,
  served ls path = match fst (ask_all ls 0 (root_name path) g) with Some _ => true | None => false end.
Proof.
  intros ls path g.
  destruct (fst (ask_all ls 0 (root_name path) g)) as [x|] eqn:E.
  - destruct (served ls path) eqn:Hs; [reflexivity|].
    apply (proj1 (served_false_fetch_none ls 0%nat path g)) in Hs.
    rewrite resolve_template_ask_all in Hs. cbn [fst] in Hs. rewrite E in Hs.
    destruct x as [[j l] c]. discriminate Hs.
  - apply (proj2 (served_false_fetch_none ls 0%nat path g)).
    rewrite resolve_template_ask_all. cbn [fst]. rewrite E. reflexivity.
Qed.

Lemma log_misses_ask_all : forall ls path g,
  fst (ask_all ls 0 (root_name path) g) = None ->
  log_misses ls path g = snd (ask_all ls 0 (root_name path) g).
Proof.
  intros ls path g H. unfold log_misses. rewrite resolve_template_ask_all. cbn [snd].
  symmetry. apply ask_all_none_log. exact H.
Qed.

(* ---------- the referring template ---------- *)
Lemma str_eqb_eq : forall a b : str, str_eqb a b = true <-> a = b.
Proof.
  induction a as [|x a IH]; intros [|y b]; cbn [str_eqb]; try (split; [discriminate|discriminate]); [split; reflexivity|].
  rewrite Bool.andb_true_iff, N.eqb_eq, IH. split; [intros [-> ->]; reflexivity|intros H; injection H; auto].
Qed.

Lemma same_lookupb_spec : forall r f, same_lookupb r f = true <-> same_lookup r f.
Proof. intros r f. apply str_eqb_eq. Qed.

Lemma same_nameb_spec : forall r f, same_nameb r f = true <-> same_name r f.
Proof. intros r f. apply str_eqb_eq. Qed.

(* a string template: the model asks the loaders for the same name as the Go code, always *)
Lemma same_lookup_string : forall n f, same_lookup (Some (true, n)) f.
Proof. reflexivity. Qed.
(* a file template: the model compiles under the same name as the Go code, always *)
Lemma same_name_file : forall n f, same_name (Some (false, n)) f.
Proof. reflexivity. Qed.

(* ---------- unfolding equations ---------- *)
Lemma loaders_loop_nil : forall bodyf fresh key val i env w kn,
  loaders_loop bodyf fresh key val [] i env w kn = kn env w.
Proof. reflexivity. Qed.

Lemma loaders_loop_set_cons : forall bodyf key val l r i env w kn,
  loaders_loop bodyf false key val (l :: r) i env w kn =
  match lall_lhs lenv_assign [key; val] [LVInt i; LVLoader i l] env with
  | Some env1 =>
      bodyf ([] :: env1) w (fun env2 w2 => loaders_loop bodyf false key val r (S i) (tl env2) w2 kn)
  | None => LStuck "range assigns a variable that is not declared"
  end.
Proof. reflexivity. Qed.

Section Unfold.
  Variable compile : str -> bool -> str -> gstate -> res (template * gstate).
  Variable fid : str -> str -> gstate -> str * str.
  Variable callr : lval -> string -> list lval -> lworld -> lkont -> lans.

  (* the statements of a block, as lf_exec runs them (its local fixpoint) *)
  Definition lexec_block (rn : list string) (kr : lkont) : list gstmt -> lenv -> lworld -> lnkont -> lans :=
    fix exl (l : list gstmt) (env : lenv) (w : lworld) (kn' : lnkont) {struct l} : lans :=
      match l with
      | [] => kn' env w
      | s1 :: r => lf_exec compile fid callr rn s1 env w (fun env1 w1 => exl r env1 w1 kn') kr
      end.

  Lemma lf_exec_list_nil : forall rn env w kn kr,
    lf_exec_list compile fid callr rn [] env w kn kr = kn env w.
  Proof. reflexivity. Qed.

  Lemma lf_exec_list_cons : forall rn s r env w kn kr,
    lf_exec_list compile fid callr rn (s :: r) env w kn kr =
    lf_exec compile fid callr rn s env w
            (fun env1 w1 => lf_exec_list compile fid callr rn r env1 w1 kn kr) kr.
  Proof. reflexivity. Qed.

  Lemma lf_exec_rangeset : forall rn key val coll body env w kn kr,
    lf_exec compile fid callr rn (GSRangeSet key val coll body) env w kn kr =
    lf_eval compile fid callr coll env w (lone (fun v w1 =>
      match v with
      | LVLoaders ls => loaders_loop (fun env' w' kn' => lexec_block rn kr body env' w' kn') false key val ls 0 env w1 kn
      | _ => LStuck "range over a value that is not set.loaders"
      end)).
  Proof. reflexivity. Qed.
End Unfold.

Lemma lf_call_step_eq : forall prog labs compile fid deeper recv m args w k,
  lf_call_step prog labs compile fid deeper recv m args w k =
  match match ltype_of recv with Some ty => lfind_method ty m prog | None => None end with
  | Some fn => lf_call_func compile fid deeper fn recv args w k
  | None => lbuiltin labs recv m args w k
  end.
Proof. reflexivity. Qed.

(* four call levels; what lies deeper is [lf_call ... d] *)
Lemma loader_call_S4 : forall prog labs compile fid d m args w,
  loader_call prog labs compile fid (S (S (S (S d)))) m args w =
  lf_call_step prog labs compile fid
    (lf_call_step prog labs compile fid
       (lf_call_step prog labs compile fid (lf_call_step prog labs compile fid (lf_call prog labs compile fid d))))
    LVSet m args w (fun vs w' => LOk (vs, w')).
Proof. reflexivity. Qed.

(* ---------- the search loop ---------- *)
(* A loop  for key, val = range set.loaders  over the loaders [ls] (numbered from i), started with
   the variables as [E a b c d] has them, where one turn - from any [E a b c d] - asks the loader
   (i, l) for ITS name [nm i l] and, at a hit, ends the whole run with [hit ...]; after a miss it
   goes on with the variables as [E (that name) (that loader) nil (the error)] has them; and what
   follows the loop, [kn], does not look at the four: the loop is [ask_each]. *)
Lemma loaders_loop_search : forall bodyf key val (nm : nat -> loader -> str) all cr
    (E : lval -> lval -> lval -> lval -> lenv)
    (hit : nat -> loader -> str -> lworld -> lans) (K : lworld -> lans) kn,
  (forall i l a b c d g kn',
     match lall_lhs lenv_assign [key; val] [LVInt i; LVLoader i l] (E a b c d) with
     | Some env1 => bodyf ([] :: env1) (mkLW all g cr) kn'
     | None => LStuck "range assigns a variable that is not declared"
     end =
     match assoc_get (nm i l) (l_files l) with
     | Some content => hit i l content (mkLW all (g_logget g i (nm i l) true) cr)
     | None => kn' ([] :: E (LVStr (nm i l)) (LVLoader i l) LVNil LVErr) (mkLW all (g_logget g i (nm i l) false) cr)
     end) ->
  (forall a b c d w, kn (E a b c d) w = K w) ->
  forall ls i a b c d g,
  loaders_loop bodyf false key val ls i (E a b c d) (mkLW all g cr) kn =
  match ask_each nm ls i g with
  | (Some (j, l, content), g') => hit j l content (mkLW all g' cr)
  | (None, g') => K (mkLW all g' cr)
  end.
Proof.
  intros bodyf key val nm all cr E hit K kn Hturn Hkn.
  induction ls as [|l rest IH]; intros i a b c d g.
  - rewrite loaders_loop_nil. cbn [ask_each]. apply Hkn.
  - rewrite loaders_loop_set_cons, Hturn. cbn [ask_each].
    destruct (assoc_get (nm i l) (l_files l)) as [content|]; [reflexivity|].
    cbn [tl]. apply IH.
Qed.

(* ---------- the scripts ---------- *)
(* evaluate the interpretation to the end; the loaders' Abs, the lookups and the log stay folded.
   For runs in which every variable lookup is decided (no loop over an unknown list, no call whose
   results are unknown). *)
Ltac lf_eval :=
  lazy - [fsloader_abs assoc_get l_files g_logget ask_all ask_each loaders_loop str_eqb served log_misses resolve_template
          model_name asked_name root_name resolve_filename resolved_by model_abs].
(* evaluate up to the next statement of the function's body; a call of a translated function and a
   loop stay folded (what was proved about them is put in their place) *)
Ltac lf_eval_stmt :=
  lazy - [fsloader_abs assoc_get l_files g_logget ask_all ask_each loaders_loop str_eqb served log_misses resolve_template
          model_name asked_name root_name resolve_filename resolved_by model_abs
          lf_call_step lf_exec_list lexec_block lookup_values lookup_then_compile].
(* run the next statement *)
Ltac lf_step := rewrite lf_exec_list_cons; lf_eval_stmt.
(* enter a call of a translated function: bind receiver, parameters and named results *)
Ltac lf_enter := rewrite lf_call_step_eq; lf_eval_stmt.
(* the depth hypothesis 4 <= d: peel four levels, forget what lies deeper *)
Ltac peel_four d H :=
  do 4 (destruct d as [|d]; [exfalso; lia|]); clear H; rewrite loader_call_S4;
  match goal with |- context [lf_call ?p ?a ?c ?f d] => generalize (lf_call p a c f d); intro end.
