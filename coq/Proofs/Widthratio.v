(* Lemmas for property C18, third part: {% widthratio %} with a maximum of zero (fix D48). *)
From PV Require Import Lib.GoFloat Model.Value Model.Doc Model.Exec Spec.SpecWidthratio.
From PV Require Import Proofs.TaintUnfold.
Open Scope N_scope.

(* which values are a zero maximum *)
Lemma zero_number_int : zero_number (VInt 0).
Proof. exists (f_of_int 0). split; reflexivity. Qed.
Lemma zero_number_float : forall f, f_is_zero f = true -> zero_number (VFloat f).
Proof. intros f H. exists f. split; [reflexivity|exact H]. Qed.
Lemma zero_number_nil : zero_number VNil.
Proof. exists f_zero. split; reflexivity. Qed.
Lemma numeric_int : forall z, numeric (VInt z).
Proof. intros z. discriminate. Qed.
Lemma numeric_float : forall f, numeric (VFloat f).
Proof. intros f. discriminate. Qed.

Section Widthratio.
  Variable se : senv.
  Variable globals : list (str * cval).

  (* the one step of the tag once its three arguments are evaluated and convert to numbers,
     the maximum to a zero: the result is 0, whatever the other two are *)
  Lemma widthratio_zero_max_step : forall f st cur mx width name c st1 m st2 w st3,
    eval se globals f st cur = Ok (c, st1) ->
    eval se globals f st1 mx = Ok (m, st2) ->
    eval se globals f st2 width = Ok (w, st3) ->
    numeric (vv c) -> zero_number (vv m) -> numeric (vv w) ->
    exec_node se globals (S f) st (NWidthratio cur mx width name) =
    match name with [] => xok text_zero st3 | _ => bind_zero st3 name end.
  Proof.
    intros f st cur mx width name c st1 m st2 w st3 Hc Hm Hw Nc [fm [Zm Zf]] Nw.
    rewrite exec_node_S. cbv beta iota zeta. rewrite Hc, Hm, Hw. rewrite Zm.
    unfold numeric in Nc, Nw.
    destruct (to_float (vv c)) as [fc|]; [|contradiction].
    destruct (to_float (vv w)) as [fw|]; [|contradiction].
    rewrite Zf. destruct name; reflexivity.
  Qed.

  Lemma widthratio_zero_max : forall f st cur mx width c st1 m st2 w st3,
    eval se globals f st cur = Ok (c, st1) ->
    eval se globals f st1 mx = Ok (m, st2) ->
    eval se globals f st2 width = Ok (w, st3) ->
    numeric (vv c) -> zero_number (vv m) -> numeric (vv w) ->
    exec_node se globals (S f) st (NWidthratio cur mx width []) = xok text_zero st3.
  Proof. intros. erewrite widthratio_zero_max_step by eassumption. reflexivity. Qed.

  Lemma widthratio_zero_max_as : forall f st cur mx width name c st1 m st2 w st3,
    eval se globals f st cur = Ok (c, st1) ->
    eval se globals f st1 mx = Ok (m, st2) ->
    eval se globals f st2 width = Ok (w, st3) ->
    numeric (vv c) -> zero_number (vv m) -> numeric (vv w) -> name <> [] ->
    exec_node se globals (S f) st (NWidthratio cur mx width name) = bind_zero st3 name.
  Proof.
    intros f st cur mx width name c st1 m st2 w st3 Hc Hm Hw Nc Zm Nw Hn.
    erewrite widthratio_zero_max_step by eassumption. destruct name; [contradiction|reflexivity].
  Qed.
End Widthratio.
