(* escapejs (property C17, part B): the output stays in the alphabet "ASCII letters, space,
   '/', \uXXXX" and decodes (as JavaScript would: \uXXXX escapes, then UTF-16) to the validly
   encoded runes of the input, provided the input has no backslash-r / backslash-n.
   Everything is generic in the generated keep predicate (gen/Tables.v: escapejs_keep);
   Tie/C17b.v instantiates it. *)
From PV Require Import Lib.Bytes Lib.Utf8 Lib.GoInt Model.EscFilters Spec.SpecEsc.
From Coq Require Import ZifyN ZifyNat ZifyBool Lia.
Ltac Zify.zify_post_hook ::= Z.div_mod_to_equations.
Open Scope N_scope.

Arguments N.div : simpl never.
Arguments N.modulo : simpl never.
Arguments N.mul : simpl never.
Arguments N.add : simpl never.
Arguments N.sub : simpl never.

(* ------------------------------------------------------------------ *)
(* The filter, parameterised by the keep predicate.  Same text as
   [escapejs_go] in Model/EscFilters.v (two sub-terms are named); the Tie file shows
   [escapejs_go = escapejs_gen escapejs_keep] by [reflexivity]. *)

Definition bs_ctl (c : N) (s' : str) : option N :=
  if c =? ch_bs then
    match s' with
    | 114 :: _ => Some 13     (* \r *)
    | 110 :: _ => Some 10     (* \n *)
    | _ => None
    end
  else None.

Definition emit_gen (keep : Z -> bool) (c : N) : str :=
  if keep (Z.of_N c) then encode_rune c
  else if 65535 <? c then u_escape (fst (utf16_pair c)) ++ u_escape (snd (utf16_pair c))
  else u_escape c.

Section Gen.
Variable keep : Z -> bool.

Fixpoint escapejs_gen (skip : nat) (s : str) : str :=
  match s with
  | [] => []
  | _ :: s' =>
      match skip with
      | S k => escapejs_gen k s'
      | O =>
          let '(c, size) := decode_rune s in
          if (c =? rune_error) && Nat.leb size 1 then escapejs_gen (size - 1) s'
          else
            match bs_ctl c s' with
            | Some ctl => u_escape ctl ++ escapejs_gen 1 s'
            | None => emit_gen keep c ++ escapejs_gen (size - 1) s'
            end
      end
  end.
End Gen.

(* ------------------------------------------------------------------ *)
(* \uXXXX : a finite check over all 16-bit values *)

Definition nbelow (n : N) : list N :=
  N.peano_rect (fun _ => list N) [] (fun k acc => k :: acc) n.

Lemma in_nbelow : forall n c, c < n -> In c (nbelow n).
Proof.
  intros n. induction n as [|n IH] using N.peano_ind; intros c Hc.
  - lia.
  - unfold nbelow. rewrite N.peano_rect_succ. fold (nbelow n).
    destruct (N.eq_dec c n) as [->|Hne].
    + left. reflexivity.
    + right. apply IH. lia.
Qed.

(* [u_escape c] is backslash, u, and four upper-case hex digits of value c *)
Definition uesc_ok (c : N) : bool :=
  match u_escape c with
  | [x0; x1; a; b; d; e] =>
      (x0 =? 92) && (x1 =? 117)
      && (is_hex_upper a && is_hex_upper b && is_hex_upper d && is_hex_upper e)
      && (hex_val a * 4096 + hex_val b * 256 + hex_val d * 16 + hex_val e =? c)
  | _ => false
  end.

Lemma uesc_ok_all16 : forallb uesc_ok (nbelow 65536) = true.
Proof. vm_compute. reflexivity. Qed.

Lemma uesc_ok_16 : forall c, c < 65536 -> uesc_ok c = true.
Proof.
  intros c Hc. pose proof uesc_ok_all16 as H.
  rewrite forallb_forall in H. apply H. apply in_nbelow. exact Hc.
Qed.

Lemma js_plain_92 : js_plain 92 = false.
Proof. reflexivity. Qed.

Lemma js_units_uesc : forall c rest, c < 65536 ->
  js_units 0 (u_escape c ++ rest) = option_map (cons c) (js_units 0 rest).
Proof.
  intros c rest Hc. pose proof (uesc_ok_16 c Hc) as H. unfold uesc_ok in H.
  destruct (u_escape c) as [|x0 [|x1 [|a [|b [|d [|e [|x6 l]]]]]]]; try discriminate H.
  rewrite !andb_true_iff in H.
  destruct H as [[[H0 H1] [[[Ha Hb] Hd] He]] Hv].
  apply N.eqb_eq in H0. apply N.eqb_eq in H1. apply N.eqb_eq in Hv. subst x0 x1.
  change (([92; 117; a; b; d; e] ++ rest)) with (92 :: 117 :: a :: b :: d :: e :: rest).
  cbn [js_units]. rewrite js_plain_92.
  rewrite Ha, Hb, Hd, He. cbn [andb]. rewrite Hv. reflexivity.
Qed.

Lemma js_units_plain : forall c rest, js_plain c = true ->
  js_units 0 (c :: rest) = option_map (cons c) (js_units 0 rest).
Proof. intros c rest H. cbn [js_units]. rewrite H. reflexivity. Qed.

(* ------------------------------------------------------------------ *)
(* decode_rune: what it can return *)

Lemma decode_rune_facts : forall b0 r c w, decode_rune (b0 :: r) = (c, w) ->
  c <= 1114111 /\ ~ (55296 <= c <= 57343) /\ (c = 92 -> b0 = 92).
Proof.
  intros b0 r c w H. unfold decode_rune, in_rng, is_cont, rune_error in H.
  destruct (b0 <? 128) eqn:E0.
  { inversion H; subst. lia. }
  destruct ((194 <=? b0) && (b0 <=? 223)) eqn:E1.
  { destruct r as [|b1 r]; [inversion H; subst; lia|].
    destruct ((128 <=? b1) && (b1 <=? 191)) eqn:E2; inversion H; subst; lia. }
  destruct ((224 <=? b0) && (b0 <=? 239)) eqn:E2.
  { destruct r as [|b1 [|b2 r]]; try (inversion H; subst; lia).
    destruct (b0 =? 224) eqn:Ea; destruct (b0 =? 237) eqn:Eb;
      match type of H with (if ?t then _ else _) = _ => destruct t eqn:E3 end;
      inversion H; subst; lia. }
  destruct ((240 <=? b0) && (b0 <=? 244)) eqn:E3.
  { destruct r as [|b1 [|b2 [|b3 r]]]; try (inversion H; subst; lia).
    destruct (b0 =? 240) eqn:Ea; destruct (b0 =? 244) eqn:Eb;
      match type of H with (if ?t then _ else _) = _ => destruct t eqn:E4 end;
      inversion H; subst; lia. }
  inversion H; subst; lia.
Qed.

(* ------------------------------------------------------------------ *)
(* the backslash-r / backslash-n rewrite *)

Lemma bs_ctl_some : forall c s' ctl, bs_ctl c s' = Some ctl ->
  c = 92 /\ exists d t, s' = d :: t /\ ((d = 114 /\ ctl = 13) \/ (d = 110 /\ ctl = 10)).
Proof.
  intros c s' ctl H. unfold bs_ctl, ch_bs in H.
  destruct (N.eqb_spec c 92) as [Hc|Hc]; [|discriminate H].
  split; [exact Hc|].
  destruct s' as [|d t]; [discriminate H|].
  exists d, t. split; [reflexivity|].
  destruct d as [|p]; [discriminate H|].
  repeat match type of H with
         | context [match ?q with xI _ => _ | xO _ => _ | xH => _ end] =>
             is_var q; destruct q; try discriminate H
         end;
    inversion H; subst; auto.
Qed.

Lemma no_bs_rn_tail : forall c s, no_bs_rn (c :: s) = true -> no_bs_rn s = true.
Proof.
  intros c s H. cbn [no_bs_rn] in H. apply andb_true_iff in H. apply H.
Qed.

Lemma no_bs_rn_head : forall d t, no_bs_rn (92 :: d :: t) = true -> d <> 114 /\ d <> 110.
Proof.
  intros d t H.
  change (negb ((92 =? 92) && ((d =? 114) || (d =? 110))) && no_bs_rn (d :: t) = true) in H.
  apply andb_true_iff in H. destruct H as [H _].
  change (92 =? 92) with true in H. cbn [andb] in H.
  apply negb_true_iff in H. apply orb_false_iff in H. destruct H as [H1 H2].
  apply N.eqb_neq in H1. apply N.eqb_neq in H2. split; assumption.
Qed.

(* ------------------------------------------------------------------ *)
(* UTF-16 decoding of the units we emit *)

Lemma utf16_decode_plain : forall u us, is_hi_surr u = false ->
  utf16_decode (u :: us) = u :: utf16_decode us.
Proof.
  intros u us H. destruct us as [|v us]; [reflexivity|].
  cbn [utf16_decode]. rewrite H. reflexivity.
Qed.

Lemma utf16_decode_pair : forall c us, 65536 <= c <= 1114111 ->
  utf16_decode (fst (utf16_pair c) :: snd (utf16_pair c) :: us) = c :: utf16_decode us.
Proof.
  intros c us Hc. cbn [utf16_decode].
  unfold utf16_pair, is_hi_surr, is_lo_surr. cbn [fst snd].
  replace ((55296 <=? 55296 + (c - 65536) / 1024) && (55296 + (c - 65536) / 1024 <? 56320)
           && ((56320 <=? 56320 + (c - 65536) mod 1024)
               && (56320 + (c - 65536) mod 1024 <? 57344))) with true by lia.
  f_equal. lia.
Qed.

Lemma utf16_pair_bounds : forall c, 65536 <= c <= 1114111 ->
  fst (utf16_pair c) < 65536 /\ snd (utf16_pair c) < 65536.
Proof. intros c Hc. unfold utf16_pair. cbn [fst snd]. lia. Qed.

(* ------------------------------------------------------------------ *)
(* main lemma *)

Section Main.
Variable keep : Z -> bool.
Hypothesis keep_ok : forall z : Z, keep z = true ->
  js_plain (Z.to_N z) = true /\ (0 <= z < 128)%Z.

Lemma escapejs_gen_main : forall s k, exists us,
  js_units 0 (escapejs_gen keep k s) = Some us /\
  (no_bs_rn s = true -> utf16_decode us = valid_runes_go k s).
Proof.
  induction s as [|b s' IH]; intros k.
  - exists []. split; [reflexivity|]. intros _. destruct k; reflexivity.
  - destruct k as [|k].
    2:{ destruct (IH k) as [us [Hu Hd]]. exists us. split; [exact Hu|].
        intros Hn. apply Hd. exact (no_bs_rn_tail _ _ Hn). }
    cbn [escapejs_gen valid_runes_go].
    destruct (decode_rune (b :: s')) as [c w] eqn:Hdec.
    destruct (decode_rune_facts _ _ _ _ Hdec) as [Hmax [Hsur Hbs]].
    destruct ((c =? rune_error) && Nat.leb w 1) eqn:Eerr.
    { assert (Hw : (w - 1 = 0)%nat).
      { apply andb_true_iff in Eerr. destruct Eerr as [_ Hw].
        apply Nat.leb_le in Hw. lia. }
      rewrite Hw. destruct (IH 0%nat) as [us [Hu Hd]]. exists us. split; [exact Hu|].
      intros Hn. apply Hd. exact (no_bs_rn_tail _ _ Hn). }
    destruct (bs_ctl c s') as [ctl|] eqn:Ectl.
    { destruct (bs_ctl_some _ _ _ Ectl) as [Hc [d [t [Hs' Hd]]]].
      destruct (IH 1%nat) as [us [Hu _]].
      exists (ctl :: us). split.
      - rewrite js_units_uesc by (destruct Hd as [[_ ->]|[_ ->]]; lia).
        rewrite Hu. reflexivity.
      - intros Hn. exfalso. subst s'. rewrite (Hbs Hc) in Hn.
        apply no_bs_rn_head in Hn. destruct Hd as [[Hd _]|[Hd _]]; tauto. }
    destruct (IH (w - 1)%nat) as [us [Hu Hd]].
    unfold emit_gen.
    destruct (keep (Z.of_N c)) eqn:Ek.
    { apply keep_ok in Ek. rewrite N2Z.id in Ek. destruct Ek as [Hpl Hlt].
      assert (Hc : c < 128) by lia.
      unfold encode_rune. replace (c <? 128) with true by lia.
      exists (c :: us). split.
      - change ([c] ++ escapejs_gen keep (w - 1) s') with (c :: escapejs_gen keep (w - 1) s').
        rewrite (js_units_plain _ _ Hpl), Hu. reflexivity.
      - intros Hn. rewrite utf16_decode_plain by (unfold is_hi_surr; lia).
        rewrite (Hd (no_bs_rn_tail _ _ Hn)). reflexivity. }
    destruct (65535 <? c) eqn:Ebig.
    { assert (Hc : 65536 <= c <= 1114111) by lia.
      destruct (utf16_pair_bounds c Hc) as [Hhi Hlo].
      exists (fst (utf16_pair c) :: snd (utf16_pair c) :: us). split.
      - rewrite <- app_assoc. rewrite (js_units_uesc _ _ Hhi), (js_units_uesc _ _ Hlo), Hu.
        reflexivity.
      - intros Hn. rewrite (utf16_decode_pair _ _ Hc).
        rewrite (Hd (no_bs_rn_tail _ _ Hn)). reflexivity. }
    { assert (Hc : c < 65536) by lia.
      exists (c :: us). split.
      - rewrite (js_units_uesc _ _ Hc), Hu. reflexivity.
      - intros Hn. rewrite utf16_decode_plain by (unfold is_hi_surr; lia).
        rewrite (Hd (no_bs_rn_tail _ _ Hn)). reflexivity. }
Qed.

Lemma escapejs_gen_alphabet : forall s, js_units 0 (escapejs_gen keep 0 s) <> None.
Proof.
  intros s. destruct (escapejs_gen_main s 0%nat) as [us [Hu _]]. rewrite Hu. discriminate.
Qed.

Lemma escapejs_gen_decodes : forall s, no_bs_rn s = true ->
  js_decode (escapejs_gen keep 0 s) = Some (valid_runes s).
Proof.
  intros s Hn. destruct (escapejs_gen_main s 0%nat) as [us [Hu Hd]].
  unfold js_decode, valid_runes. rewrite Hu. cbn [option_map]. rewrite (Hd Hn). reflexivity.
Qed.

End Main.
