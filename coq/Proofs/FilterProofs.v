(* Lemmas for property C18 (built-in data filters).
   The branch bodies of [apply_filter] that the property talks about are restated here as
   small definitions ([slice_body], [ljust_body], ...) and the reference semantics is proved
   about them; that [apply_filter <name>] reaches the body is the table-dependent part and is
   proved in Tie/C18.v.  [filters_never_panic] walks the whole dispatch chain and does not
   depend on the table's contents. *)
From PV Require Import Model.Filters Spec.SpecFilters gen.Tables.
From Coq Require Import Lia.
Open Scope N_scope.


(* ------------------------------------------------------------------ *)
(* Outcomes: what cannot panic                                         *)

Lemma bind_np : forall {A B} (r : res A) (f : A -> res B) site,
  r <> Panic site -> (forall a, f a <> Panic site) -> bind r f <> Panic site.
Proof.
  intros A B r f site Hr Hf. destruct r as [a|k| | |s]; cbn; try discriminate; auto.
  intro E; apply Hr; injection E as E; rewrite E; reflexivity.
Qed.

Lemma of_opt_np : forall {A} (o : option A) site, of_opt o <> Panic site.
Proof. intros A [a|] site; discriminate. Qed.

Lemma list_strings_np : forall v site, list_strings v <> Panic site.
Proof.
  intros v site. destruct v as [| | | | |l| |]; try discriminate. cbn [list_strings].
  induction l as [|y l IH]; cbn [fold_right]; [discriminate|].
  apply bind_np; [exact IH|]. intro r. apply bind_np; [apply of_opt_np|]. discriminate.
Qed.

Lemma val_len_nonneg : forall v, (0 <= val_len v)%Z.
Proof. intros v; destruct v; cbn [val_len]; lia. Qed.

Lemma val_index_np : forall v i site, (0 <= i)%Z -> val_index v i <> Panic site.
Proof.
  intros v i site Hi. destruct v as [| | | |s|l| |]; try discriminate; cbn [val_index].
  - destruct (Z.ltb_spec i 0); [lia|]. destruct (_ <? _)%Z; discriminate.
  - destruct (_ <=? _)%Z; [discriminate|]. destruct (Z.ltb_spec i 0); [lia|discriminate].
Qed.

Lemma slice_test_true : forall i j n, (0 <= i <= j)%Z -> (j <= n)%Z ->
  ((0 <=? i) && (i <=? j) && (j <=? n))%Z = true.
Proof. intros i j n Hi Hj. rewrite !Bool.andb_true_iff, !Z.leb_le. lia. Qed.

Lemma val_slice_np : forall v i j site,
  (0 <= i <= j)%Z -> (j <= val_len v)%Z -> val_slice v i j <> Panic site.
Proof.
  intros v i j site Hi Hj. destruct v as [| | | |s|l| |]; try discriminate;
    cbn [val_slice val_len] in *; rewrite slice_test_true by assumption; discriminate.
Qed.

(* ------------------------------------------------------------------ *)
(* The branch bodies                                                   *)

(* filterSlice's index arithmetic *)
Definition sl_from (n from0 : Z) : Z :=
  let from1 := if (from0 <? 0)%Z then Z.max (wrap64 (n + from0)) 0 else from0 in
  if (n <? from1)%Z then n else from1.
Definition sl_to (n from vto1 : Z) : Z :=
  let vto2 := if (vto1 <? 0)%Z then Z.max (wrap64 (n + vto1)) 0 else vto1 in
  let vto := if (vto2 <? from)%Z then from else vto2 in
  if ((from <=? vto) && (vto <=? n))%Z then vto else n.

Definition slice_body (x p : value) : fres :=
  do ps <- str_of p;
  match split_go [58] 0 [] ps with
  | [c0; c1] =>
      if negb (can_slice (vv x)) then Ok x
      else
        do from0 <- of_opt (to_integer (VStr c0));
        do vto0 <- of_opt (to_integer (VStr c1));
        let n := val_len (vv x) in
        let from := sl_from n from0 in
        let to := sl_to n from (if blank c1 then n else vto0) in
        do r <- val_slice (vv x) from to; okv r
  | _ => ferr
  end.

Definition first_body (x : value) : fres :=
  if can_slice (vv x) && (0 <? val_len (vv x))%Z
  then do r <- val_index (vv x) 0; okv r else okv (VStr []).
Definition last_body (x : value) : fres :=
  if can_slice (vv x) && (0 <? val_len (vv x))%Z
  then do r <- val_index (vv x) (val_len (vv x) - 1); okv r else okv (VStr []).

Definition length_body (x : value) : fres := okv (VInt (val_len (vv x))).

Definition ljust_body (x p : value) : fres :=
  do w <- int_of p;
  let t0 := wrap64 (w - val_len (vv x)) in
  let times := if (t0 <? 0)%Z then 0%Z else t0 in
  if (max_char_padding <? times)%Z then ferr
  else do s <- str_of x; okv (VStr (s ++ spaces times)).

Definition rjust_body (x p : value) : fres :=
  do w0 <- int_of p;
  let w := if (w0 <? 0)%Z then 0%Z else w0 in
  if (max_char_padding <? w)%Z then ferr
  else do s <- str_of x; okv (VStr (spaces (w - Z.of_nat (length (runes s))) ++ s)).

Definition center_body (x p : value) : fres :=
  do width <- int_of p;
  let slen := val_len (vv x) in
  if (width <=? slen)%Z then Ok x
  else
    let sp := wrap64 (width - slen) in
    if (max_char_padding <? sp)%Z then ferr
    else
      do s <- str_of x;
      let left := (Z.quot sp 2 + Z.rem sp 2)%Z in
      let right := Z.quot sp 2 in
      okv (VStr (spaces left ++ s ++ spaces right)).

Definition truncatechars_body (x p : value) : fres :=
  do s <- str_of x; do n <- int_of p; okv (VStr (truncatechars_helper s n)).

Definition divisibleby_body (x p : value) : fres :=
  do d <- int_of p;
  if (d =? 0)%Z then okv (VBool false)
  else do a <- int_of x; okv (VBool (Z.rem a d =? 0)%Z).

(* ------------------------------------------------------------------ *)
(* No panic                                                            *)

Lemma sl_from_range : forall n f0, (0 <= n)%Z -> (0 <= sl_from n f0 <= n)%Z.
Proof.
  intros n f0 Hn. unfold sl_from. generalize (wrap64 (n + f0)). intro w.
  destruct (Z.ltb_spec f0 0);
    match goal with |- context [(n <? ?a)%Z] => destruct (Z.ltb_spec n a) end; lia.
Qed.

Lemma sl_to_range : forall n f v, (0 <= f <= n)%Z -> (f <= sl_to n f v <= n)%Z.
Proof.
  intros n f v Hf. unfold sl_to. generalize (wrap64 (n + v)). intro w.
  set (v2 := if (v <? 0)%Z then Z.max w 0 else v). clearbody v2.
  destruct (Z.ltb_spec v2 f) as [Hlt|Hge].
  - destruct (Z.leb_spec f f); cbn [andb]; [|lia]. destruct (Z.leb_spec f n); lia.
  - destruct (Z.leb_spec f v2); cbn [andb]; [|lia]. destruct (Z.leb_spec v2 n); lia.
Qed.

Lemma first_np : forall x site, first_body x <> Panic site.
Proof.
  intros x site. unfold first_body. destruct (_ && _); [|discriminate].
  apply bind_np; [apply val_index_np; lia|discriminate].
Qed.

Lemma last_np : forall x site, last_body x <> Panic site.
Proof.
  intros x site. unfold last_body.
  destruct (can_slice (vv x)); cbn [andb]; [|discriminate].
  destruct (Z.ltb_spec 0 (val_len (vv x))); [|discriminate].
  apply bind_np; [apply val_index_np; lia|discriminate].
Qed.

Lemma slice_np : forall x p site, slice_body x p <> Panic site.
Proof.
  intros x p site. unfold slice_body.
  apply bind_np; [apply of_opt_np|]. intro ps.
  destruct (split_go [58] 0 [] ps) as [|c0 [|c1 [|c2 r]]]; try discriminate.
  destruct (negb _); [discriminate|].
  apply bind_np; [apply of_opt_np|]. intro f0.
  apply bind_np; [apply of_opt_np|]. intro v0. cbv zeta.
  pose proof (val_len_nonneg (vv x)) as Hn.
  pose proof (sl_from_range (val_len (vv x)) f0 Hn) as Hf.
  apply bind_np; [|discriminate].
  apply val_slice_np.
  - split; [lia|]. apply sl_to_range; lia.
  - apply sl_to_range; lia.
Qed.

(* every other branch is built from binds over Ok/Unmod sources, ifs and matches whose
   leaves are Ok / Err / Unmod *)
Ltac np :=
  lazymatch goal with
  | |- bind _ _ <> Panic _ => apply bind_np; [ np | intro; np ]
  | |- (if ?c then _ else _) <> Panic _ => destruct c; np
  | |- (match ?c with [] => _ | _ :: _ => _ end) <> Panic _ => destruct c; np
  | |- (match ?c with Some _ => _ | None => _ end) <> Panic _ => destruct c; np
  | |- (match ?c with (_, _) => _ end) <> Panic _ => destruct c; np
  | |- (match vv ?c with VStr _ => _ | _ => _ end) <> Panic _ => destruct (vv c); np
  | |- of_opt _ <> Panic _ => apply of_opt_np
  | |- str_of _ <> Panic _ => apply of_opt_np
  | |- int_of _ <> Panic _ => apply of_opt_np
  | |- float_of _ <> Panic _ => apply of_opt_np
  | |- list_strings _ <> Panic _ => apply list_strings_np
  | |- _ => discriminate
  end.

Theorem filters_never_panic :
  forall (name : str) (x p : value) (site : N), apply_filter name x p <> Panic site.
Proof.
  intros name x p site. unfold apply_filter.
  destruct (assoc_get name filter_impl) as [impl|]; [|discriminate].
  cbv zeta beta.
  repeat (match goal with |- (if str_eqb impl ?l then _ else _) <> _ =>
            destruct (str_eqb impl l);
            [ first [ apply first_np | apply last_np | apply slice_np | timeout 30 np ] | ]
          end).
  discriminate.
Qed.

(* ------------------------------------------------------------------ *)
(* wrap64 on values that fit                                           *)

Lemma wrap64_id : forall z, (min_int <= z <= max_int)%Z -> wrap64 z = z.
Proof.
  intros z Hz. unfold wrap64, min_int, max_int, two63, two64 in *.
  rewrite Z.mod_small by lia. lia.
Qed.

(* ------------------------------------------------------------------ *)
(* slice                                                               *)

Definition no58 (s : str) : bool := forallb (fun b => negb (b =? 58)) s.

Lemma split58_plain : forall t cur, no58 t = true -> split_go [58] 0 cur t = [rev cur ++ t].
Proof.
  induction t as [|c t IH]; intros cur H; cbn [split_go].
  - rewrite app_nil_r. reflexivity.
  - cbn [no58 forallb] in H. apply Bool.andb_true_iff in H. destruct H as [Hc Ht].
    cbn [is_prefix]. rewrite N.eqb_sym in Hc. destruct (58 =? c); [discriminate|].
    cbn [andb]. rewrite (IH (c :: cur) Ht). cbn [rev]. rewrite <- app_assoc. reflexivity.
Qed.

Lemma split58_sep : forall t cur rest, no58 t = true ->
  split_go [58] 0 cur (t ++ 58 :: rest) = (rev cur ++ t) :: split_go [58] 0 [] rest.
Proof.
  induction t as [|c t IH]; intros cur rest H; cbn [split_go app].
  - cbn [is_prefix]. rewrite N.eqb_refl. cbn [andb].
    change (length [58] - 1)%nat with 0%nat. rewrite app_nil_r. reflexivity.
  - cbn [no58 forallb] in H. apply Bool.andb_true_iff in H. destruct H as [Hc Ht].
    cbn [is_prefix]. rewrite N.eqb_sym in Hc. destruct (58 =? c); [discriminate|].
    cbn [andb]. rewrite (IH (c :: cur) rest Ht). cbn [rev]. rewrite <- app_assoc. reflexivity.
Qed.

Lemma split_slice_arg : forall ta tb, no58 ta = true -> no58 tb = true ->
  split_go [58] 0 [] (ta ++ [58] ++ tb) = [ta; tb].
Proof.
  intros ta tb Ha Hb. cbn [app]. rewrite split58_sep by assumption.
  rewrite split58_plain by assumption. reflexivity.
Qed.

(* the text of a bound in the window goes through the filter's own conversion unchanged:
   an exhaustive check *)
Definition window_list : list Z := map (fun k => (Z.of_nat k - 64)%Z) (seq 0 129).

Lemma in_window_list : forall z, in_window z -> In z window_list.
Proof.
  intros z Hz. unfold in_window in Hz. unfold window_list. apply in_map_iff.
  exists (Z.to_nat (z + 64)). split; [lia|]. apply in_seq. lia.
Qed.

Definition bound_val (o : option Z) : Z := match o with Some z => z | None => 0%Z end.
Definition bound_missing (o : option Z) : bool := match o with Some _ => false | None => true end.

Definition bound_ok (o : option Z) : bool :=
  no58 (bound_text o)
  && match to_integer (VStr (bound_text o)) with
     | Some y => (y =? bound_val o)%Z
     | None => false
     end
  && Bool.eqb (blank (bound_text o)) (bound_missing o).

Lemma window_check : forallb bound_ok (None :: map Some window_list) = true.
Proof. vm_compute. reflexivity. Qed.

Lemma bound_facts : forall o, opt_in_window o ->
  no58 (bound_text o) = true /\
  to_integer (VStr (bound_text o)) = Some (bound_val o) /\
  blank (bound_text o) = bound_missing o.
Proof.
  intros o Ho.
  assert (Hin : In o (None :: map Some window_list)).
  { destruct o as [z|]; [right; apply in_map; apply in_window_list; exact Ho | left; reflexivity]. }
  pose proof (proj1 (forallb_forall _ _) window_check o Hin) as Hok.
  unfold bound_ok in Hok. apply Bool.andb_true_iff in Hok. destruct Hok as [Hok H3].
  apply Bool.andb_true_iff in Hok. destruct Hok as [H1 H2].
  split; [exact H1|]. split.
  - destruct (to_integer (VStr (bound_text o))) as [y|]; [|discriminate].
    apply Z.eqb_eq in H2. rewrite H2. reflexivity.
  - apply Bool.eqb_prop in H3. exact H3.
Qed.

Lemma window_parse : forall z, in_window z -> to_integer (VStr (itoa z)) = Some z.
Proof. intros z Hz. exact (proj1 (proj2 (bound_facts (Some z) Hz))). Qed.

(* the index arithmetic against Python's *)
Lemma sl_from_py : forall n x, (0 <= n < two63)%Z -> in_window x -> sl_from n x = py_bound n x.
Proof.
  intros n x Hn Hx. unfold in_window in Hx. unfold sl_from, py_bound.
  destruct (Z.ltb_spec x 0) as [Hneg|Hpos].
  - rewrite wrap64_id by (unfold min_int, max_int, two63 in *; lia).
    destruct (Z.ltb_spec n (Z.max (n + x) 0)); lia.
  - destruct (Z.ltb_spec n x); lia.
Qed.

Lemma sl_from_none : forall n, (0 <= n)%Z -> sl_from n 0 = 0%Z.
Proof.
  intros n Hn. unfold sl_from. change (0 <? 0)%Z with false. cbv iota zeta.
  destruct (Z.ltb_spec n 0); lia.
Qed.

Lemma sl_to_py : forall n i y, (0 <= n < two63)%Z -> (0 <= i <= n)%Z -> in_window y ->
  sl_to n i y = Z.max i (py_bound n y).
Proof.
  intros n i y Hn Hi Hy. unfold in_window in Hy. unfold sl_to, py_bound.
  destruct (Z.ltb_spec y 0) as [Hneg|Hpos].
  - rewrite wrap64_id by (unfold min_int, max_int, two63 in *; lia).
    set (v2 := Z.max (n + y) 0). assert (Hv2 : (0 <= v2 <= n)%Z) by (unfold v2; lia). clearbody v2.
    destruct (Z.ltb_spec v2 i).
    + destruct (Z.leb_spec i i); cbn [andb]; [|lia]. destruct (Z.leb_spec i n); lia.
    + destruct (Z.leb_spec i v2); cbn [andb]; [|lia]. destruct (Z.leb_spec v2 n); lia.
  - destruct (Z.ltb_spec y i).
    + destruct (Z.leb_spec i i); cbn [andb]; [|lia]. destruct (Z.leb_spec i n); lia.
    + destruct (Z.leb_spec i y); cbn [andb]; [|lia]. destruct (Z.leb_spec y n); lia.
Qed.

Lemma sl_to_none : forall n i, (0 <= i <= n)%Z -> sl_to n i n = Z.max i n.
Proof.
  intros n i Hi. unfold sl_to.
  destruct (Z.ltb_spec n 0) as [Hneg|Hpos]; [lia|].
  destruct (Z.ltb_spec n i); [lia|].
  destruct (Z.leb_spec i n); cbn [andb]; [|lia]. destruct (Z.leb_spec n n); lia.
Qed.

Definition py_i (n : Z) (a : option Z) : Z := match a with Some x => py_bound n x | None => 0%Z end.
Definition py_j (n : Z) (b : option Z) : Z := match b with Some y => py_bound n y | None => n end.

Lemma py_i_range : forall n a, (0 <= n)%Z -> (0 <= py_i n a <= n)%Z.
Proof. intros n [x|] Hn; unfold py_i, py_bound; [destruct (Z.ltb_spec x 0)|]; lia. Qed.

Lemma py_j_range : forall n b, (0 <= n)%Z -> (py_j n b <= n)%Z.
Proof. intros n [y|] Hn; unfold py_j, py_bound; [destruct (Z.ltb_spec y 0)|]; lia. Qed.

Lemma slice_core : forall (x : value) (a b : option Z),
  opt_in_window a -> opt_in_window b -> can_slice (vv x) = true -> (val_len (vv x) < two63)%Z ->
  slice_body x (as_value (VStr (slice_arg a b))) =
  (do r <- val_slice (vv x) (py_i (val_len (vv x)) a)
                            (Z.max (py_i (val_len (vv x)) a) (py_j (val_len (vv x)) b));
   okv r).
Proof.
  intros x a b Ha Hb Hcs Hlen.
  destruct (bound_facts a Ha) as [Ha1 [Ha2 Ha3]].
  destruct (bound_facts b Hb) as [Hb1 [Hb2 Hb3]].
  pose proof (val_len_nonneg (vv x)) as Hn.
  unfold slice_body. change (str_of (as_value (VStr (slice_arg a b)))) with (Ok (slice_arg a b)).
  cbn [bind]. unfold slice_arg. rewrite split_slice_arg by assumption.
  rewrite Hcs. cbn [negb]. rewrite Ha2, Hb2, Hb3. cbn [of_opt bind]. cbv zeta.
  set (n := val_len (vv x)) in *.
  assert (Hfrom : sl_from n (bound_val a) = py_i n a).
  { destruct a as [xa|]; cbn [bound_val py_i]; [apply sl_from_py; [lia|exact Ha] | apply sl_from_none; lia]. }
  rewrite Hfrom.
  pose proof (py_i_range n a Hn) as Hi.
  assert (Hto : sl_to n (py_i n a) (if bound_missing b then n else bound_val b)
                = Z.max (py_i n a) (py_j n b)).
  { destruct b as [yb|]; cbn [bound_missing bound_val py_j];
      [apply sl_to_py; [lia|exact Hi|exact Hb] | apply sl_to_none; exact Hi]. }
  rewrite Hto. reflexivity.
Qed.

Lemma slice_list_is_python : forall (l : list val) (a b : option Z),
  opt_in_window a -> opt_in_window b -> (Z.of_nat (length l) < two63)%Z ->
  slice_body (as_value (VList l)) (as_value (VStr (slice_arg a b)))
  = Ok (as_value (VList (py_slice l a b))).
Proof.
  intros l a b Ha Hb Hlen. rewrite slice_core; try assumption; try reflexivity.
  cbn [vv as_value val_len val_slice].
  set (n := Z.of_nat (length l)) in *.
  assert (Hn : (0 <= n)%Z) by (unfold n; lia).
  pose proof (py_i_range n a Hn) as Hi. pose proof (py_j_range n b Hn) as Hj.
  rewrite slice_test_true by lia. reflexivity.
Qed.

Lemma slice_string_is_python : forall (s : str) (a b : option Z),
  opt_in_window a -> opt_in_window b -> (Z.of_nat (rune_len s) < two63)%Z ->
  slice_body (as_value (VStr s)) (as_value (VStr (slice_arg a b)))
  = Ok (as_value (VStr (of_runes (py_slice (runes s) a b)))).
Proof.
  intros s a b Ha Hb Hlen. unfold rune_len in Hlen.
  rewrite slice_core; try assumption; try reflexivity.
  cbn [vv as_value val_len val_slice].
  set (n := Z.of_nat (length (runes s))) in *.
  assert (Hn : (0 <= n)%Z) by (unfold n; lia).
  pose proof (py_i_range n a Hn) as Hi. pose proof (py_j_range n b Hn) as Hj.
  rewrite slice_test_true by lia. reflexivity.
Qed.

(* ------------------------------------------------------------------ *)
(* length, first, last                                                 *)

Lemma length_counts : forall (l : list val) (s : str),
  length_body (as_value (VList l)) = Ok (as_value (VInt (Z.of_nat (length l)))) /\
  length_body (as_value (VStr s)) = Ok (as_value (VInt (Z.of_nat (rune_len s)))).
Proof. intros l s. split; reflexivity. Qed.

Lemma first_list : forall (x : val) (l : list val),
  first_body (as_value (VList (x :: l))) = Ok (as_value x).
Proof.
  intros x l. unfold first_body. cbn [vv as_value can_slice val_len andb val_index].
  destruct (Z.ltb_spec 0 (Z.of_nat (length (x :: l)))) as [H|H]; [|cbn [length] in H; lia].
  destruct (Z.leb_spec (Z.of_nat (length (x :: l))) 0); [lia|].
  reflexivity.
Qed.

Lemma last_list : forall (x : val) (l : list val),
  last_body (as_value (VList (l ++ [x]))) = Ok (as_value x).
Proof.
  intros x l. unfold last_body. cbn [vv as_value can_slice val_len andb val_index].
  rewrite app_length. cbn [length].
  replace (Z.of_nat (length l + 1) - 1)%Z with (Z.of_nat (length l)) by lia.
  destruct (Z.ltb_spec 0 (Z.of_nat (length l + 1))); [|lia].
  destruct (Z.leb_spec (Z.of_nat (length l + 1)) (Z.of_nat (length l))); [lia|].
  destruct (Z.ltb_spec (Z.of_nat (length l)) 0); [lia|].
  rewrite Nat2Z.id, app_nth2, Nat.sub_diag by lia. reflexivity.
Qed.

(* ------------------------------------------------------------------ *)
(* padding                                                             *)

Lemma spaces_all : forall n, all_spaces (spaces n) = true.
Proof.
  intro n. unfold spaces. induction (Z.to_nat n) as [|k IH]; [reflexivity|].
  cbn [repeat_str app all_spaces forallb]. rewrite N.eqb_refl. exact IH.
Qed.

Lemma spaces_len : forall n, length (spaces n) = Z.to_nat n.
Proof.
  intro n. unfold spaces. induction (Z.to_nat n) as [|k IH]; [reflexivity|].
  cbn [repeat_str app length]. rewrite IH. reflexivity.
Qed.

(* side condition on the generated cap: it is a sane Go int *)
Definition padding_cap_ok (cap : Z) : bool := ((0 <=? cap) && (cap <=? max_int))%Z.

Lemma padding_cap_ok_spec : forall cap, padding_cap_ok cap = true -> (0 <= cap <= max_int)%Z.
Proof.
  intros cap H. unfold padding_cap_ok in H. apply Bool.andb_true_iff in H.
  rewrite !Z.leb_le in H. exact H.
Qed.

Lemma ljust_shape : padding_cap_ok max_char_padding = true ->
  forall (s : str) (w : Z), (0 <= w <= max_char_padding)%Z -> (Z.of_nat (rune_len s) < two63)%Z ->
    exists pad, ljust_body (as_value (VStr s)) (as_value (VInt w)) = Ok (as_value (VStr (s ++ pad))) /\
                all_spaces pad = true /\
                length pad = Z.to_nat (Z.max 0 (w - Z.of_nat (rune_len s))).
Proof.
  intros Hcap s w Hw Hlen. apply padding_cap_ok_spec in Hcap.
  unfold rune_len in *. unfold ljust_body.
  change (int_of (as_value (VInt w))) with (@Ok Z w).
  change (str_of (as_value (VStr s))) with (@Ok str s).
  cbn [bind vv as_value val_len]. cbv zeta.
  set (len := Z.of_nat (length (runes s))) in *.
  assert (Hl : (0 <= len)%Z) by (unfold len; lia).
  rewrite wrap64_id by (unfold min_int, max_int, two63 in *; lia).
  set (times := if (w - len <? 0)%Z then 0%Z else (w - len)%Z).
  assert (Ht : times = Z.max 0 (w - len)).
  { unfold times. destruct (Z.ltb_spec (w - len) 0); lia. }
  destruct (Z.ltb_spec max_char_padding times); [lia|].
  exists (spaces times). split; [reflexivity|]. split; [apply spaces_all|].
  rewrite spaces_len, Ht. reflexivity.
Qed.

Lemma rjust_shape : padding_cap_ok max_char_padding = true ->
  forall (s : str) (w : Z), (w <= max_char_padding)%Z ->
    exists pad, rjust_body (as_value (VStr s)) (as_value (VInt w)) = Ok (as_value (VStr (pad ++ s))) /\
                all_spaces pad = true /\
                length pad = Z.to_nat (Z.max 0 (w - Z.of_nat (rune_len s))).
Proof.
  intros Hcap s w Hw. apply padding_cap_ok_spec in Hcap.
  unfold rune_len. unfold rjust_body.
  change (int_of (as_value (VInt w))) with (@Ok Z w).
  change (str_of (as_value (VStr s))) with (@Ok str s).
  cbn [bind]. cbv zeta.
  set (len := Z.of_nat (length (runes s))).
  assert (Hl : (0 <= len)%Z) by (unfold len; lia).
  set (w1 := if (w <? 0)%Z then 0%Z else w).
  assert (Hw1 : w1 = Z.max 0 w) by (unfold w1; destruct (Z.ltb_spec w 0); lia).
  destruct (Z.ltb_spec max_char_padding w1); [lia|].
  exists (spaces (w1 - len)). split; [reflexivity|]. split; [apply spaces_all|].
  rewrite spaces_len. lia.
Qed.

Lemma center_shape : padding_cap_ok max_char_padding = true ->
  forall (s : str) (w : Z), (Z.of_nat (rune_len s) < w)%Z -> (w - Z.of_nat (rune_len s) <= max_char_padding)%Z ->
    exists left right,
      center_body (as_value (VStr s)) (as_value (VInt w)) = Ok (as_value (VStr (left ++ s ++ right))) /\
      all_spaces left = true /\ all_spaces right = true /\
      (length left + length right = Z.to_nat (w - Z.of_nat (rune_len s)))%nat /\
      (length left = length right \/ length left = S (length right)).
Proof.
  intros Hcap s w Hlt Hle. apply padding_cap_ok_spec in Hcap.
  unfold rune_len in *. unfold center_body.
  change (int_of (as_value (VInt w))) with (@Ok Z w).
  change (str_of (as_value (VStr s))) with (@Ok str s).
  cbn [bind vv as_value val_len]. cbv zeta.
  set (len := Z.of_nat (length (runes s))) in *.
  destruct (Z.leb_spec w len); [lia|].
  rewrite wrap64_id by (unfold min_int, max_int, two63 in *; lia).
  set (sp := (w - len)%Z) in *.
  destruct (Z.ltb_spec max_char_padding sp); [lia|].
  exists (spaces (Z.quot sp 2 + Z.rem sp 2)), (spaces (Z.quot sp 2)).
  split; [reflexivity|]. split; [apply spaces_all|]. split; [apply spaces_all|].
  rewrite !spaces_len.
  pose proof (Z.quot_rem' sp 2) as Hqr.
  assert (Hr : (0 <= Z.rem sp 2 < 2)%Z) by (apply Z.rem_bound_pos; lia).
  assert (Hq : (0 <= Z.quot sp 2)%Z) by (apply Z.quot_pos; lia).
  split; lia.
Qed.

(* ------------------------------------------------------------------ *)
(* truncatechars, divisibleby                                          *)

Lemma truncatechars_shape : forall (s : str) (n : Z), (0 < n)%Z -> (n < Z.of_nat (rune_len s))%Z ->
  exists kept, truncatechars_body (as_value (VStr s)) (as_value (VInt n))
               = Ok (as_value (VStr (of_runes kept ++ (if (3 <=? n)%Z then ellipsis else [])))) /\
               kept = firstn (Z.to_nat (if (3 <=? n)%Z then n - 3 else n)) (runes s).
Proof.
  intros s n Hpos Hlt. unfold rune_len in Hlt.
  eexists. split; [|reflexivity].
  unfold truncatechars_body.
  change (int_of (as_value (VInt n))) with (@Ok Z n).
  change (str_of (as_value (VStr s))) with (@Ok str s).
  cbn [bind]. unfold truncatechars_helper.
  destruct (Z.leb_spec n 0); [lia|]. cbv zeta.
  destruct (Z.ltb_spec n (Z.of_nat (length (runes s)))); [|lia].
  destruct (3 <=? n)%Z; [reflexivity|]. rewrite app_nil_r. reflexivity.
Qed.

Lemma divisibleby_int : forall (x d : Z), d <> 0%Z ->
  divisibleby_body (as_value (VInt x)) (as_value (VInt d)) = Ok (as_value (VBool (Z.rem x d =? 0)%Z)).
Proof.
  intros x d Hd. unfold divisibleby_body.
  change (int_of (as_value (VInt d))) with (@Ok Z d).
  change (int_of (as_value (VInt x))) with (@Ok Z x).
  cbn [bind]. destruct (Z.eqb_spec d 0); [contradiction|]. reflexivity.
Qed.
