(* Lemmas and the proof script for the tie of the translated entry-point wrappers
   (gen/Wrappers.v, interpreted by Spec/SpecWrappers.v) to the specification Spec/SpecWriter.v.

   - exec_unbuffered_split: the two model primitives of the interpretation (new_context,
     root_execute) are the two halves of the model's exec_template_unbuffered;
   - *_prim: the four specification functions written over those two halves;
   - [wrapper_tie]: the script Tie/C14w.v runs on every regenerated term: evaluate the
     interpretation (the model's executors and the writer stay folded), split on the outcome of
     new_context / exec_nodes / w_write, compare. *)
From PV Require Import Model.Exec Spec.SpecWriter Lib.GoStmt Spec.SpecWrappers Proofs.Render.
From Coq Require Import String Lia.

Section Split.
  Variable se : senv.
  Variable globals : list (str * cval).

  (* the model's streaming executor = context checks, then the root node list *)
  Definition prim_run (fuel : nat) (st : mstate) (t : template) (ctx : list (str * cval)) : xres :=
    match new_context globals fuel st t ctx with
    | Ok (p, f, st') => root_execute se globals f st' p
    | other => xfail [] other
    end.

  Lemma exec_unbuffered_split : forall fuel st t ctx,
    exec_template_unbuffered se globals fuel st t ctx = prim_run fuel st t ctx.
  Proof.
    intros fuel st t ctx. unfold prim_run. destruct fuel as [|f]; [reflexivity|].
    rewrite exec_template_unbuffered_S. unfold new_context. cbv zeta.
    destruct (negb (forallb (fun kv => is_ident_key (fst kv)) (ctx_update globals ctx))); [reflexivity|].
    destruct (existsb (fun kv => match assoc_get (fst kv) (tpl_exported t) with Some _ => true | None => false end)
                      (ctx_update globals ctx)); [reflexivity|].
    destruct (g_fresh (ms_g st)) as [execid g']. reflexivity.
  Qed.

  Lemma buffer_and_execute_prim : forall fuel st t ctx,
    buffer_and_execute se globals fuel st t ctx =
    match prim_run fuel st t ctx with
    | (o, Ok _) => inl o
    | (_, other) => match failure_of other with Some x => inr x | None => inl [] end
    end.
  Proof.
    intros. unfold buffer_and_execute. rewrite exec_template_S, exec_unbuffered_split.
    destruct (prim_run fuel st t ctx) as [o [st1|k| | |s]]; reflexivity.
  Qed.

  Lemma execute_writer_prim : forall fuel st t ctx w,
    execute_writer se globals fuel st t ctx w =
    match prim_run fuel st t ctx with
    | (o, Ok _) => let '(w', ok) := w_write w o in (w', if ok then WOk else WWriteErr)
    | (_, other) => (w, match failure_of other with Some x => WExecFail x | None => WOk end)
    end.
  Proof.
    intros. unfold execute_writer. rewrite buffer_and_execute_prim.
    destruct (prim_run fuel st t ctx) as [o [st1|k| | |s]]; reflexivity.
  Qed.

  (* writing nothing leaves any writer as it is *)
  Lemma w_write_nil_fst : forall w : writer, fst (w_write w []) = w.
  Proof.
    intros [b [n|]]; unfold w_write; cbn [w_fail_after w_buf].
    - destruct (Nat.leb (List.length b + List.length (@nil N)) n); cbn [fst];
        rewrite ?firstn_nil, app_nil_r; reflexivity.
    - cbn [fst]. rewrite app_nil_r. reflexivity.
  Qed.

  (* when the context is rejected (or there is no fuel) nothing at all is written *)
  Lemma execute_writer_unbuffered_prim : forall fuel st t ctx w,
    execute_writer_unbuffered se globals fuel st t ctx w =
    match new_context globals fuel st t ctx with
    | Ok (p, f, st') =>
        let '(o, r) := root_execute se globals f st' p in
        (fst (w_write w o), match failure_of r with None => WOk | Some x => WExecFail x end)
    | other => (w, match failure_of other with None => WOk | Some x => WExecFail x end)
    end.
  Proof.
    intros. unfold execute_writer_unbuffered. rewrite exec_unbuffered_split. unfold prim_run.
    destruct (new_context globals fuel st t ctx) as [[[p f] st']|k| | |s];
      [reflexivity| | | | ]; unfold xfail; rewrite w_write_nil_fst; reflexivity.
  Qed.

  Lemma exec_unbuffered_prim : forall fuel st t ctx,
    exec_template_unbuffered se globals fuel st t ctx =
    match new_context globals fuel st t ctx with
    | Ok (p, f, st') => root_execute se globals f st' p
    | other => xfail [] other
    end.
  Proof. exact exec_unbuffered_split. Qed.
  (* the same for a buffer that holds b0: it holds b0 followed by the output-so-far *)
  Lemma exec_unbuffered_buffer_prim : forall fuel st t ctx (b0 : str),
    (let '(o, r) := exec_template_unbuffered se globals fuel st t ctx in Some ((b0 ++ o)%list, failure_of r)) =
    match new_context globals fuel st t ctx with
    | Ok (p, f, st') => let '(o, r) := root_execute se globals f st' p in Some ((b0 ++ o)%list, failure_of r)
    | other => Some (b0, failure_of other)
    end.
  Proof.
    intros. rewrite exec_unbuffered_split. unfold prim_run.
    destruct (new_context globals fuel st t ctx) as [[[p f] st']|k| | |s];
      [reflexivity| | | | ]; unfold xfail; rewrite app_nil_r; reflexivity.
  Qed.
End Split.

(* one case split on a folded primitive, then evaluate again *)
Ltac wrapper_split :=
  match goal with
  | |- context [new_context ?g ?f ?s ?t ?c] =>
      destruct (new_context g f s t c) as [[[?p ?f'] ?st']|?k| | |?site]
  | |- context [exec_nodes ?a ?b ?c ?d ?e] =>
      destruct (exec_nodes a b c d e) as [?o [?st1|?k| | |?site]]
  | |- context [w_write ?a ?b] =>
      destruct (w_write a b) as [?w' [|]]
  end.
Ltac wrapper_eval := lazy - [new_context exec_nodes w_write].
(* every split removes one primitive from the path; no primitive left and not equal: fail *)
Ltac wrapper_crunch :=
  wrapper_eval;
  first [ reflexivity
        | wrapper_split; wrapper_crunch
        | fail 1 "this run of the translated Go wrapper differs from the specification of Spec/SpecWriter.v" ].
(* the depth hypothesis 6 <= d: peel six levels *)
Ltac peel_depth d H :=
  do 6 (destruct d as [|d]; [exfalso; lia|]); clear H.
(* the writing method is one of stream_methods *)
Ltac each_method H :=
  unfold stream_methods in H; simpl In in H;
  repeat match type of H with
         | _ \/ _ => destruct H as [H|H]
         | False => destruct H
         end; subst.
